/-
C11T2 — C11T continued: the `ETags` class (`datastructures/etag.py`: `__init__`, `is_weak`,
`is_strong`, `contains`, `contains_weak`, `__bool__`), `parse_etags` (`http.py`) and
`is_resource_modified` (`sansio/http.py`) *as regenerated from the source* by `tools/py2lean.py`
(`Gen/PyFns_Etag.lean`, rewritten on every check run) against C11's hand model
`Model/Conditional.lean`: the translated `is_resource_modified`, calling the translated
`parse_if_range_header`, `unquote_etag`, `parse_etags` and `ETags` methods (only `parse_date` and the
regex `_etag_re` stay opaque / hand-modelled), returns exactly `Cond.isResourceModified` for all inputs.
Property theorems only: the proofs live in Lemmas/PyFnsEq_Etag.lean (which builds on Props/C11T).
-/
import WzVerif.Props.C11T
import WzVerif.Lemmas.PyFnsEq_Etag
import WzVerif.Lemmas.PyFnsEq_Response
namespace Wz.Props.C11T2
open Wz Wz.Pre Wz.Gen.PyFns_Etag Wz.PyFnsEq.Etag Wz.Gen.PyFns_Response Wz.PyFnsEq.Response

/-- The `ETags` methods, as translated from the current source (`is_weak`: `etag in self._weak`,
`is_strong`: `etag in self._strong`, `contains`: `True` for the wildcard object else `is_strong`,
`contains_weak`: `is_weak(etag) or contains(etag)`, `__bool__`: `star_tag or _strong or _weak`), are
the model's membership tests, `ETags.contains`, `ETags.containsWeak` and `ETags.truthy`, for every
object and every tag. -/
theorem etags_methods_eq (e : Cond.ETags) (t : List Char) :
    etags_is_weak e.weak t = e.weak.contains (some t)
    ∧ etags_is_strong e.strong t = e.strong.contains (some t)
    ∧ etags_contains e.strong e.star t = e.contains t
    ∧ etags_contains_weak e.strong e.weak e.star t = e.containsWeak t
    ∧ etags_bool e.strong e.weak e.star = e.truthy :=
  ⟨etags_is_weak_eq e t, etags_is_strong_eq e t, etags_contains_eq e t, etags_contains_weak_eq e t, etags_bool_eq e⟩

/-- `ETags(strong_etags, weak_etags, star_tag)` (`ETags.__init__`), as translated from the current
source, for every argument combination (`None` or a list for the two iterables): `_strong` is the
frozenset of `strong_etags` unless `star_tag` is set (then it is empty), `_weak` is the frozenset of
`weak_etags` (also for the wildcard object), `star_tag` is stored as given. -/
theorem etags_init_eq (s w : Option Elems) (star : Bool) :
    etags_init s w star
      = (if star then [] else Pre.frozenset (s.getD []), Pre.frozenset (w.getD []), star) :=
  PyFnsEq.Etag.etags_init_eq s w star

/-- The methods of the object that the translated constructor builds agree with the model's
list-based `Cond.ETags` for the same arguments: the frozensets of the real object and the lists of
the model answer every membership question and the truth test alike. -/
theorem etags_init_methods (s w : Option Elems) (star : Bool) (t : List Char) :
    let o := etags_init s w star
    etags_is_strong o.1 t = (initModel s w star).strong.contains (some t)
    ∧ etags_is_weak o.2.1 t = (initModel s w star).weak.contains (some t)
    ∧ etags_contains o.1 o.2.2 t = (initModel s w star).contains t
    ∧ etags_contains_weak o.1 o.2.1 o.2.2 t = (initModel s w star).containsWeak t
    ∧ etags_bool o.1 o.2.1 o.2.2 = (initModel s w star).truthy :=
  PyFnsEq.Etag.etags_init_methods s w star t

/-- C11's `Cond.parseEtags` (own inlined regex model) and C06's `Http.parseEtags` (the model the
translated `parse_etags` is proved equal to, Props/C06T2) return the same lists and the same
wildcard flag for every header text without LF. -/
theorem cond_parseEtags_eq (v : List Char) (hlf : '\n' ∉ v) :
    Cond.parseEtags (some v) = toCond (Http.parseEtags v) :=
  PyFnsEq.Etag.cond_parseEtags_eq v hlf

/-- `parse_etags` against C11's model: for every header text without LF and fuel `≥ len + 1`, the
translated `parse_etags` (its `while` loop, `_etag_re.match` as C06's regex model, the `ETags`
constructor) returns an object, and that object answers `bool` / `contains` / `contains_weak`
exactly like C11's `Cond.parseEtags` of the same text. -/
theorem parse_etags_agree (fuel : Nat) (v : List Char) (hlf : '\n' ∉ v) (hf : v.length + 1 ≤ fuel) :
    ∃ o, parse_etags fuel (some v) = .ok o ∧ EtagsAgree o (Cond.parseEtags (some v)) :=
  PyFnsEq.Etag.parse_etags_agree fuel v hlf hf

example : '\n' ∉ "W/\"a\", \"b\"".toList ∧ "W/\"a\", \"b\"".toList.length + 1 ≤ 12 := by decide

/-- `is_resource_modified`, as translated from the current source of `sansio/http.py` (the
`etag` / `data` guard, `last_modified.replace(microsecond=0)`, the `If-Range` gate
`not ignore_if_range and http_range is not None`, the choice of `modified_since`, the date
comparison, `unquote_etag`, the `If-Range` tag / `If-None-Match` (weak comparison) / `If-Match`
(strong comparison, negated) chain, `not unmodified`), for arbitrary parser functions that answer
like the model's (`hpd`, `hpif`, and `EtagsAgree` for the three entity-tag headers): it never raises
(the `TypeError` arms for `unquote_etag(etag)[0]` being `None` are unreachable under `if etag:`) and
returns exactly the model's `Cond.isResourceModified`, for every request, `etag`, `last_modified`
(seconds and microseconds) and `ignore_if_range`. -/
theorem is_resource_modified_eq {pdF : Option (List Char) → Option Inst}
    {pifF : Option (List Char) → Option (List Char) × Option Inst} (pe : Option (List Char) → Obj) (r : Cond.CondReq)
    (ims : Option (List Char))
    (hpd : pdF ims = r.ims.map atSec)
    (hpif : pifF r.ifRange = ifRangeObj (Cond.parseIfRangeHeader r.ifRange r.ifRangeDate))
    (hinm : EtagsAgree (pe r.inm) (Cond.parseEtags r.inm))
    (him : EtagsAgree (pe r.im) (Cond.parseEtags r.im))
    (hifr : ∀ ie, Cond.parseIfRangeHeader r.ifRange r.ifRangeDate = .etag ie →
      EtagsAgree (pe (some ie)) (Cond.parseEtags (some ie)))
    (etag : Option (List Char)) (lm : Option Inst) (ign : Bool) :
    is_resource_modified dle dropMicro pdF pifF pe r.range r.ifRange ims r.inm r.im etag () lm ign
      = .ok (Cond.isResourceModified r etag lm ign) :=
  PyFnsEq.Etag.is_resource_modified_eq pe r ims hpd hpif hinm him hifr etag lm ign

/-- `is_resource_modified` with the model's own parsers plugged in: for every opaque date parser
`pd`, all header texts (each possibly `None`, no restriction on their characters), every `etag`,
`last_modified` and `ignore_if_range`, the translated function returns `.ok` of the model's answer
for the request record built from the texts. -/
theorem is_resource_modified_model_parsers (pd : List Char → Option Int)
    (range ifRange ims inm im etag : Option (List Char)) (lm : Option Inst) (ign : Bool) :
    is_resource_modified dle dropMicro (parseDateOf pd) (parseIfRangeOf pd)
        (fun v => objOf (Cond.parseEtags v)) range ifRange ims inm im etag () lm ign
      = .ok (Cond.isResourceModified (reqOf pd range ifRange ims inm im) etag lm ign) :=
  PyFnsEq.Etag.is_resource_modified_model_parsers pd range ifRange ims inm im etag lm ign

/-- **The whole call tree as translated from the source**: `is_resource_modified` calling the
translated `parse_if_range_header` (with `IfRange.__init__` and `unquote_etag`), the translated
`parse_etags` (its loop, `ETags.__init__`, the frozensets) and the translated `ETags` methods - only
`parse_date` (`pd`) and the regex primitive stay opaque / hand-modelled - returns `.ok` of C11's
`Cond.isResourceModified`, for every date parser, all header texts without line feeds (`If-Range`,
`If-None-Match`, `If-Match`), every `etag`, `last_modified` and `ignore_if_range`. So C11's theorems
about `isResourceModified` (`not_modified_iff`, `if_none_match_precedence`, `status_304_sound`, …)
hold for the current source of `sansio/http.py`, `http.py` and `datastructures/etag.py` together. -/
theorem is_resource_modified_translated (pd : List Char → Option Int)
    (range ifRange ims inm im etag : Option (List Char)) (lm : Option Inst) (ign : Bool)
    (h1 : NoLF ifRange) (h2 : NoLF inm) (h3 : NoLF im) :
    is_resource_modified dle dropMicro (parseDateOf pd) (parseIfRangeT pd) parseEtagsT
        range ifRange ims inm im etag () lm ign
      = .ok (Cond.isResourceModified (reqOf pd range ifRange ims inm im) etag lm ign) :=
  PyFnsEq.Etag.is_resource_modified_translated pd range ifRange ims inm im etag lm ign h1 h2 h3

example : NoLF (some "W/\"abc\", \"x\"".toList) ∧ NoLF none := by
  constructor
  · intro s hs; cases hs; decide
  · intro s hs; cases hs

/-! ### range processing of `Response` (`Gen/PyFns_Response.lean`; proofs in Lemmas/PyFnsEq_Response.lean) -/

/-- `Response._is_range_request_processable(environ)`, as translated from the current source
(`("HTTP_IF_RANGE" not in environ or not is_resource_modified(…, ignore_if_range=False)) and
"HTTP_RANGE" in environ`), is the model's `rangeProcessable` once its three readings of the environ are
the model's: If-Range present, Range present, and `is_resource_modified` = the model's
`isResourceModified q etag last_modified false`; for every request and response. -/
theorem is_range_request_processable_eq (q : Cond.CondReq) (r : Cond.RespIn) :
    is_range_request_processable q.ifRange.isSome q.range.isSome
        (Cond.isResourceModified q r.etag (Cond.lmOf r) false) ()
      = Cond.rangeProcessable q r := by
  apply PyFnsEq.Response.is_range_request_processable_eq <;> assumption

/-- `Range.to_content_range_header(length)` for an int length, as translated from the current source of
`werkzeug/datastructures/range.py` (`self.range_for_length(length)`, the f-string
`"{units} {range[0]}-{range[1] - 1}/{length}"`), never raises (the `IndexError` arm of
`range_for_length` is unreachable) and returns `None` exactly when the model's `rangeForLength` does,
else the text C06's model of `ContentRange.to_header` prints for `(units, start, stop, length)`
(`crText`, spelled out by `crText_eq`); for every unit text, every range list and every length. -/
theorem range_to_content_range_header_eq (units : Str) (ranges : List (Int × Option Int)) (l : Int) :
    range_to_content_range_header units ranges l
      = .ok ((Cond.rangeForLength ⟨units, ranges⟩ (some l)).map fun p => crText units p.1 p.2 l) := by
  apply PyFnsEq.Response.range_to_content_range_header_eq <;> assumption

/-- `Response._process_range_request(environ, complete_length, accept_ranges)` for `accept_ranges: bool`,
as translated from the current source of `werkzeug/wrappers/response.py` (the four-way guard,
`accept_ranges = "bytes"`, `parse_range_header(environ.get("HTTP_RANGE"))`, `range_for_length`,
`to_content_range_header`, the two `raise RequestedRangeNotSatisfiable`, the five writes to the
response), does exactly what the model's `processRangeRequest` decides, for every request / response
pair, every previous value of the five recorded attributes, every `complete_length` (or `None`) and
both values of `accept_ranges` (`rangeResult`):
* model `.notRange`: returns `False`, nothing written;
* model `.unsatisfiable`: raises `RequestedRangeNotSatisfiable`, nothing written;
* model `.partialContent a b`: returns `True` after `Content-Length = b - a`, `Accept-Ranges = "bytes"`,
  `Content-Range = "bytes a-(b-1)/complete_length"`, `status_code = 206` and
  `_wrap_range_response(a, b - a)`.
Nothing else is raised: the `ValueError` arm of `parse_range_header` and the `IndexError` arms of the
two `Range` methods are unreachable (C11T). `processable` is the model's `rangeProcessable`
(`is_range_request_processable_eq`), `HTTP_RANGE` the request's Range header. -/
theorem process_range_request_bool_eq (q : Cond.CondReq) (r : Cond.RespIn)
    (cl0 : Option Int) (ar0 cr0 : Option Str) (st0 : Option Int) (w0 : Option (Int × Int))
    (completeLength : Option Int) (acceptRanges : Bool) :
    process_range_request_bool (Cond.rangeProcessable q r) q.range cl0 ar0 cr0 st0 w0 () completeLength acceptRanges
      = rangeResult (cl0, ar0, cr0, st0, w0) Cond.bytesUnit (completeLength.getD 0)
          (Cond.processRangeRequest q r completeLength acceptRanges) := by
  apply PyFnsEq.Response.process_range_request_bool_eq <;> assumption

/-- The same for `accept_ranges: str` (a unit text such as `"bytes"` or `"none"`): the model is asked
with `acceptRanges := the text is non-empty`, and on success `Accept-Ranges` is the given text -
only *advertised*: the Range header is still read as byte ranges and `Content-Range` still says
`bytes` (the model's `AcceptArg.header` / `makeConditionalFull`). -/
theorem process_range_request_str_eq (q : Cond.CondReq) (r : Cond.RespIn)
    (cl0 : Option Int) (ar0 cr0 : Option Str) (st0 : Option Int) (w0 : Option (Int × Int))
    (completeLength : Option Int) (acceptText : Str) :
    process_range_request_str (Cond.rangeProcessable q r) q.range cl0 ar0 cr0 st0 w0 () completeLength acceptText
      = rangeResult (cl0, ar0, cr0, st0, w0) acceptText (completeLength.getD 0)
          (Cond.processRangeRequest q r completeLength (!acceptText.isEmpty)) := by
  apply PyFnsEq.Response.process_range_request_str_eq <;> assumption

/-- `False` is returned exactly when the model says `.notRange` -/
theorem rangeResult_false_iff (st : OutState) (t : Str) (l : Int) (o : Cond.RangeOutcome) :
    (rangeResult st t l o).2 = .ok false ↔ o = .notRange := by
  apply PyFnsEq.Response.rangeResult_false_iff <;> assumption

/-- `True` is returned exactly when the model says `.partialContent` -/
theorem rangeResult_true_iff (st : OutState) (t : Str) (l : Int) (o : Cond.RangeOutcome) :
    (rangeResult st t l o).2 = .ok true ↔ ∃ a b, o = .partialContent a b := by
  apply PyFnsEq.Response.rangeResult_true_iff <;> assumption

/-- an exception is raised exactly when the model says `.unsatisfiable`, and it is
`RequestedRangeNotSatisfiable` -/
theorem rangeResult_error_iff (st : OutState) (t : Str) (l : Int) (o : Cond.RangeOutcome) (e : String) :
    (rangeResult st t l o).2 = .error e ↔ (o = .unsatisfiable ∧ e = "RequestedRangeNotSatisfiable") := by
  apply PyFnsEq.Response.rangeResult_error_iff <;> assumption

/-- nothing is written to the response unless the model says `.partialContent` -/
theorem rangeResult_state (st : OutState) (t : Str) (l : Int) (o : Cond.RangeOutcome)
    (h : ∀ a b, o ≠ .partialContent a b) : (rangeResult st t l o).1 = st := by
  apply PyFnsEq.Response.rangeResult_state <;> assumption

/-- the Content-Range text spelled out with the prelude's `str(int)`:
`f"{units} {a}-{b - 1}/{l}"` -/
theorem crText_eq (units : Str) (a b l : Int) :
    crText units a b l
      = units ++ [' '] ++ Pre.strOfInt a ++ ['-'] ++ Pre.strOfInt (b - 1) ++ ['/'] ++ Pre.strOfInt l := by
  apply PyFnsEq.Response.crText_eq <;> assumption


end Wz.Props.C11T2
