/-
C01T — `MultipartDecoder.last_newline` *as regenerated from the source* by `tools/py2lean.py`
(`Gen/PyFns_Multipart.lean`, rewritten on every check run) is equal, for every buffer, to the
hand-written recursive model `lastNewline` of `Model/Multipart.lean` on which the hold-back and
chunk-independence theorems of C01 rest (the function repaired by 566b885).
Property theorems only (helper lemmas live in Lemmas/PyFns_Multipart.lean).
-/
import WzVerif.Gen.PyFns_Multipart
import WzVerif.Lemmas.PyFns_Multipart
namespace Wz.Props.C01T
open Wz Wz.Pre Wz.Multipart Wz.PyFnsMultipart

/-- `last_newline(data)`, as translated from the current source (`max` of the two `rfind`s, the
`-1` case returning `len(data)`, the look-back slice `data[last - 1 : last + 1] == b"\r\n"`),
returns exactly the model's `lastNewline data` - the start of the last line break with CRLF counted
as one, or the length when there is none - for every byte string. -/
theorem last_newline_eq (data : Bytes) :
    Gen.PyFns_Multipart.last_newline data = (lastNewline data : Int) := by
  rw [← G_eq data]
  rfl

/-- hence the regenerated function always answers with a position inside the buffer -/
theorem last_newline_range (data : Bytes) :
    0 ≤ Gen.PyFns_Multipart.last_newline data ∧
      Gen.PyFns_Multipart.last_newline data ≤ (data.length : Int) := by
  rw [last_newline_eq]
  refine ⟨Int.natCast_nonneg _, ?_⟩
  have : lastNewline data ≤ data.length := by
    induction data with
    | nil => simp [lastNewline]
    | cons a t ih =>
      unfold lastNewline
      split
      · split <;> simp <;> omega
      · split <;> simp <;> omega
  exact Int.ofNat_le.mpr this

example : Gen.PyFns_Multipart.last_newline [97, 13, 10, 98, 13] = 4 := by decide
example : Gen.PyFns_Multipart.last_newline [97, 13, 10] = 1 := by decide

end Wz.Props.C01T
