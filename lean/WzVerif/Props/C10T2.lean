/-
C10T2 — C10T continued: the C10 bounds on `MultipartDecoder.next_event` restated on the method *as
regenerated from the source* (`Gen/PyFns_Decoder.lean`; equality with the model: Props/C01T2.lean): a call
never grows the buffer - whether it returns or raises -, and with `max_parts = m` a returned Field / File
event leaves `_parts_decoded ≤ m`.
Property theorems only: the proofs live in Lemmas/PyFnsEq_Decoder10.lean.
-/
import WzVerif.Lemmas.PyFnsEq_Decoder10
namespace Wz.Props.C10T2
open Wz Wz.Multipart Wz.Gen.PyFns_Decoder Wz.PyFnsEq.Decoder

/-- `Props.C10.nextEvent_never_grows` on the translated method: a `next_event()` call that returns
leaves at most as many bytes in `self.buffer` as it found -/
theorem next_event_never_grows_translated (d : Decoder) (ev : Event) (h : (nextEventT d).2 = .ok ev) :
    (nextEventT d).1.1.length ≤ d.buffer.length := by
  apply PyFnsEq.Decoder.next_event_never_grows_translated <;> assumption

/-- the same for every call, returning or raising: `next_event()` never grows `self.buffer` -/
theorem next_event_never_grows_always (d : Decoder) :
    (nextEventT d).1.1.length ≤ d.buffer.length := by
  apply PyFnsEq.Decoder.next_event_never_grows_always <;> assumption

/-- the step behind `Props.C10.parts_bounded` on the translated method: with `max_parts = m`, a
`next_event()` call that returns a Field or File event leaves `_parts_decoded ≤ m` -/
theorem next_event_parts_bounded_translated (d : Decoder) (m : Nat) (hm : d.maxParts = some m)
    (ev : Event) (h : (nextEventT d).2 = .ok ev) (hp : isPart ev = true) :
    (nextEventT d).1.2.2.2 ≤ (m : Int) := by
  apply PyFnsEq.Decoder.next_event_parts_bounded_translated <;> assumption


end Wz.Props.C10T2
