/-
C12T — the redirect-URL glue of `werkzeug.routing.map.MapAdapter` *as regenerated from the source* by
`tools/py2lean.py` (`Gen/PyFns_RoutingUrl.lean`, rewritten on every check run: `get_host`,
`encode_query_args`, `make_redirect_url`, `make_alias_redirect_url`; one translation per class of
`query_args` - `str` / mapping handed over as its list of pairs) equals the hand-written model the C12
theorems are about (`Model/RoutingUrl.lean` `getHost`, `encodeQueryArgs`, `makeRedirectUrl`; the alias
arm of `Model/RoutingAdapter.lean` `matchAdapter`). `urlunsplit` (urllib) and `_urlencode` are
parameters, instantiated with the model's functions. The `assert url != path` of
`make_alias_redirect_url` has no counterpart in the model: the translation equals the model's alias arm
when the domain part contains no `/` (`*_in_match`), and the assertion does fire on the real code for
a bound subdomain containing `/` (`alias_assert_reachable_witness`; replayed, reported to the model's owner).
Property theorems only: the proofs live in Lemmas/PyFnsEq_RoutingUrl.lean.
-/
import WzVerif.Lemmas.PyFnsEq_RoutingUrl
namespace Wz.Props.C12T
open Wz Wz.Routing
open Gen.PyFns_RoutingUrl
open Wz.PyFnsEq.RoutingUrl

/-- `MapAdapter.get_host(domain_part)`, as translated from the source, returns the model's `getHost`
for every adapter, both settings of `host_matching` and every `domain_part` (including `None`) -/
theorem adapter_get_host_eq (hm : Bool) (a : Routing.Adapter) (dp : Option Str) :
    adapter_get_host hm a.serverName a.subdomain dp = Routing.getHost hm a dp := by
  apply PyFnsEq.RoutingUrl.adapter_get_host_eq <;> assumption

/-- `MapAdapter.encode_query_args(query_args)` for a `str` returns it unchanged, as the model says -/
theorem encode_query_args_str_eq (s : Str) :
    encode_query_args_str s = Routing.encodeQueryArgs (.text s) := by
  apply PyFnsEq.RoutingUrl.encode_query_args_str_eq <;> assumption

/-- `MapAdapter.encode_query_args(query_args)` for a mapping returns `_urlencode(query_args)`, as the
model says -/
theorem encode_query_args_pairs_eq (l : List (Str × Str)) :
    encode_query_args_pairs Routing.urlencode l = Routing.encodeQueryArgs (.pairs l) := by
  apply PyFnsEq.RoutingUrl.encode_query_args_pairs_eq <;> assumption

/-- `MapAdapter.make_redirect_url(path_info, query_args, domain_part)`, as translated from the source for
`str` query arguments, returns the model's `makeRedirectUrl`: for every adapter bound with
`query_args=None` or a `str`, every call with `query_args=None` or a `str` (all four combinations, empty
strings included), every `path_info`, `domain_part`, `host_matching` -/
theorem make_redirect_url_str_eq (hm : Bool) (a : Routing.Adapter) (pathInfo : Str)
    (qa : Routing.QueryArgs) (dp : Option Str) (sq cq : Option Str)
    (ha : qaStr a.queryArgs = some sq) (hq : qaStr qa = some cq) :
    make_redirect_url_str Routing.urlunsplit Routing.urlencode hm a.serverName a.subdomain a.urlScheme
      a.scriptName sq pathInfo cq dp = Routing.makeRedirectUrl hm a pathInfo qa dp := by
  apply PyFnsEq.RoutingUrl.make_redirect_url_str_eq <;> assumption

/-- `MapAdapter.make_redirect_url(path_info, query_args, domain_part)`, as translated from the source for
mapping query arguments, returns the model's `makeRedirectUrl`: for every adapter bound with
`query_args=None` or a mapping, every call with `query_args=None` or a mapping (all four combinations,
empty mappings included), every `path_info`, `domain_part`, `host_matching` -/
theorem make_redirect_url_pairs_eq (hm : Bool) (a : Routing.Adapter) (pathInfo : Str)
    (qa : Routing.QueryArgs) (dp : Option Str) (sq cq : Option (List (Str × Str)))
    (ha : qaPairs a.queryArgs = some sq) (hq : qaPairs qa = some cq) :
    make_redirect_url_pairs Routing.urlunsplit Routing.urlencode hm a.serverName a.subdomain a.urlScheme
      a.scriptName sq pathInfo cq dp = Routing.makeRedirectUrl hm a pathInfo qa dp := by
  apply PyFnsEq.RoutingUrl.make_redirect_url_pairs_eq <;> assumption

/-- `MapAdapter.make_alias_redirect_url(path, ..., query_args)` for a `str` `query_args`, when
`self.build(...)` returned `url` and the final text differs from `path`: returns exactly the text of the
model's alias arm (`url`, plus `"?" + query_args` when `query_args` is not empty) -/
theorem make_alias_redirect_url_str_eq (url path s : Str) (en va me : Unit)
    (h : (if (Routing.QueryArgs.text s).truthy then url ++ '?' :: Routing.encodeQueryArgs (.text s) else url) ≠ path) :
    make_alias_redirect_url_str (.ok url) path en va me s
      = .ok (if (Routing.QueryArgs.text s).truthy then url ++ '?' :: Routing.encodeQueryArgs (.text s) else url) := by
  apply PyFnsEq.RoutingUrl.make_alias_redirect_url_str_eq <;> assumption

/-- necessity of the hypothesis of `make_alias_redirect_url_str_eq`: when the final text equals `path`
the `assert url != path` of the source fires (`AssertionError`); the model has no such outcome -/
theorem make_alias_redirect_url_str_assert (url path s : Str) (en va me : Unit)
    (h : (if (Routing.QueryArgs.text s).truthy then url ++ '?' :: Routing.encodeQueryArgs (.text s) else url) = path) :
    make_alias_redirect_url_str (.ok url) path en va me s = .error "AssertionError" := by
  apply PyFnsEq.RoutingUrl.make_alias_redirect_url_str_assert <;> assumption

/-- an exception raised by `self.build(...)` escapes `make_alias_redirect_url` unchanged (`str` case) -/
theorem make_alias_redirect_url_str_error (e : String) (path s : Str) (en va me : Unit) :
    make_alias_redirect_url_str (.error e) path en va me s = .error e := by
  apply PyFnsEq.RoutingUrl.make_alias_redirect_url_str_error <;> assumption

/-- `MapAdapter.make_alias_redirect_url(path, ..., query_args)` for a mapping `query_args`, when
`self.build(...)` returned `url` and the final text differs from `path`: returns exactly the text of the
model's alias arm (`url`, plus `"?" + _urlencode(query_args)` when the mapping is not empty) -/
theorem make_alias_redirect_url_pairs_eq (url path : Str) (l : List (Str × Str)) (en va me : Unit)
    (h : (if (Routing.QueryArgs.pairs l).truthy then url ++ '?' :: Routing.encodeQueryArgs (.pairs l) else url) ≠ path) :
    make_alias_redirect_url_pairs (.ok url) Routing.urlencode path en va me l
      = .ok (if (Routing.QueryArgs.pairs l).truthy then url ++ '?' :: Routing.encodeQueryArgs (.pairs l) else url) := by
  apply PyFnsEq.RoutingUrl.make_alias_redirect_url_pairs_eq <;> assumption

/-- necessity of the hypothesis of `make_alias_redirect_url_pairs_eq`: when the final text equals
`path` the `assert url != path` of the source fires (`AssertionError`); the model has no such outcome -/
theorem make_alias_redirect_url_pairs_assert (url path : Str) (l : List (Str × Str)) (en va me : Unit)
    (h : (if (Routing.QueryArgs.pairs l).truthy then url ++ '?' :: Routing.encodeQueryArgs (.pairs l) else url) = path) :
    make_alias_redirect_url_pairs (.ok url) Routing.urlencode path en va me l = .error "AssertionError" := by
  apply PyFnsEq.RoutingUrl.make_alias_redirect_url_pairs_assert <;> assumption

/-- an exception raised by `self.build(...)` escapes `make_alias_redirect_url` unchanged (mapping case) -/
theorem make_alias_redirect_url_pairs_error (e : String) (path : Str) (l : List (Str × Str))
    (en va me : Unit) :
    make_alias_redirect_url_pairs (.error e) Routing.urlencode path en va me l = .error e := by
  apply PyFnsEq.RoutingUrl.make_alias_redirect_url_pairs_error <;> assumption

/-- the model's `QueryArgs.none` in the alias arm: `MapAdapter.match` hands `self.query_args or {}` to
`make_alias_redirect_url`, i.e. the empty mapping when no query arguments are bound or given; the
translation then returns `url` itself, which is the model's text for `.none` -/
theorem make_alias_redirect_url_none_eq (url path : Str) (en va me : Unit)
    (h : (if Routing.QueryArgs.none.truthy then url ++ '?' :: Routing.encodeQueryArgs .none else url) ≠ path) :
    make_alias_redirect_url_pairs (.ok url) Routing.urlencode path en va me []
      = .ok (if Routing.QueryArgs.none.truthy then url ++ '?' :: Routing.encodeQueryArgs .none else url) := by
  apply PyFnsEq.RoutingUrl.make_alias_redirect_url_none_eq <;> assumption

/-- `make_alias_redirect_url` as called by `MapAdapter.match` (`str` query arguments), with the model's
`build(..., force_external=True)` as `self.build`: when the domain part contains no `/` the result is the
model's alias arm — the redirect text, or the exception of `build`; never `AssertionError` -/
theorem make_alias_redirect_url_str_in_match (cfg : MapCfg) (a : Routing.Adapter) (rules : List Rule)
    (ep : Str) (vals : List (Str × Value)) (method : Option Str) (au : Bool) (dom pp s : Str)
    (en va me : Unit) (hd : '/' ∉ dom) :
    make_alias_redirect_url_str (adapterBuild cfg a rules ep vals method true au) (dom ++ '|' :: pp) en va me s
      = (adapterBuild cfg a rules ep vals method true au).map fun url =>
          if (Routing.QueryArgs.text s).truthy then url ++ '?' :: Routing.encodeQueryArgs (.text s) else url := by
  apply PyFnsEq.RoutingUrl.make_alias_redirect_url_str_in_match <;> assumption

/-- `make_alias_redirect_url` as called by `MapAdapter.match` (mapping query arguments), with the
model's `build(..., force_external=True)` as `self.build`: when the domain part contains no `/` the
result is the model's alias arm — the redirect text, or the exception of `build`; never `AssertionError` -/
theorem make_alias_redirect_url_pairs_in_match (cfg : MapCfg) (a : Routing.Adapter) (rules : List Rule)
    (ep : Str) (vals : List (Str × Value)) (method : Option Str) (au : Bool) (dom pp : Str)
    (l : List (Str × Str)) (en va me : Unit) (hd : '/' ∉ dom) :
    make_alias_redirect_url_pairs (adapterBuild cfg a rules ep vals method true au) Routing.urlencode
        (dom ++ '|' :: pp) en va me l
      = (adapterBuild cfg a rules ep vals method true au).map fun url =>
          if (Routing.QueryArgs.pairs l).truthy then url ++ '?' :: Routing.encodeQueryArgs (.pairs l) else url := by
  apply PyFnsEq.RoutingUrl.make_alias_redirect_url_pairs_in_match <;> assumption

/-- the hypothesis `'/' ∉ dom` of the two theorems above cannot be dropped: with the domain part
`http://b.server/canon?z`, the built URL `http://b.server/canon`, path part `/alias` and the query string
`z|/alias`, the final text is `f"{domain_part}|{path_part}"` and the assertion fires. (Replayed on the
real code: `Map([Rule("/canon", endpoint="e", subdomain="b"), Rule("/alias", endpoint="e",
subdomain='<any("a", "http://b.server/canon?z"):s>', alias=True)]).bind("server",
subdomain="http://b.server/canon?z", url_scheme="http").match("/alias", query_args="z|/alias")` raises
`AssertionError`, where the model's alias arm has a redirect.) -/
theorem alias_assert_reachable_witness (en va me : Unit) :
    make_alias_redirect_url_str (.ok "http://b.server/canon".toList)
      ("http://b.server/canon?z".toList ++ '|' :: "/alias".toList) en va me "z|/alias".toList
      = .error "AssertionError" := by
  apply PyFnsEq.RoutingUrl.alias_assert_reachable_witness <;> assumption


/-! ### against the model's assertion arm (`aliasOutcome`, added to `matchAdapter` after the finding above) -/

/-- an outcome of the translated `make_alias_redirect_url` read as an outcome of `MapAdapter.match`:
the URL is raised as `RequestRedirect`, an exception propagates -/
def aliasView : Except String Str → Outcome
  | .ok url => .redirect url
  | .error e => .error e

/-- `make_alias_redirect_url` (`str` query arguments) as called by `MapAdapter.match` with
`path = f"{domain_part}|{path_part}"`, for *every* domain part: the exception of `self.build`, else
exactly the model's `aliasOutcome` of the canonical URL with the query appended - `AssertionError`
when that text equals `path`, the redirect otherwise. No hypothesis on the domain part is left. -/
theorem make_alias_redirect_url_str_outcome (built : Except String Str) (dom pp s : Str) (en va me : Unit) :
    aliasView (make_alias_redirect_url_str built (dom ++ '|' :: pp) en va me s) =
      match built with
      | .error e => .error e
      | .ok url => aliasOutcome (if (QueryArgs.text s).truthy then url ++ '?' :: encodeQueryArgs (.text s) else url) dom pp := by
  cases built with
  | error e => rfl
  | ok url =>
    simp only [make_alias_redirect_url_str, encode_query_args_str, aliasOutcome, QueryArgs.truthy, encodeQueryArgs,
      List.singleton_append]
    by_cases hs : s.isEmpty = true
    · simp only [hs, Bool.not_true, Bool.false_eq_true, if_false]
      by_cases h : (url == dom ++ '|' :: pp) = true <;> simp [h, aliasView]
    · simp only [hs, Bool.not_eq_true] at hs ⊢
      simp only [hs, Bool.not_false, if_true]
      by_cases h : (url ++ '?' :: s == dom ++ '|' :: pp) = true <;> simp [h, aliasView]

/-- the same for mapping query arguments (handed over as the list of pairs) -/
theorem make_alias_redirect_url_pairs_outcome (built : Except String Str) (dom pp : Str) (l : List (Str × Str)) (en va me : Unit) :
    aliasView (make_alias_redirect_url_pairs built Routing.urlencode (dom ++ '|' :: pp) en va me l) =
      match built with
      | .error e => .error e
      | .ok url => aliasOutcome (if (QueryArgs.pairs l).truthy then url ++ '?' :: encodeQueryArgs (.pairs l) else url) dom pp := by
  cases built with
  | error e => rfl
  | ok url =>
    simp only [make_alias_redirect_url_pairs, encode_query_args_pairs, aliasOutcome, QueryArgs.truthy, encodeQueryArgs,
      List.singleton_append]
    by_cases hs : l.isEmpty = true
    · simp only [hs, Bool.not_true, Bool.false_eq_true, if_false]
      by_cases h : (url == dom ++ '|' :: pp) = true <;> simp [h, aliasView]
    · simp only [hs, Bool.not_eq_true] at hs ⊢
      simp only [hs, Bool.not_false, if_true]
      by_cases h : (url ++ '?' :: urlencode l == dom ++ '|' :: pp) = true <;> simp [h, aliasView]

end Wz.Props.C12T
