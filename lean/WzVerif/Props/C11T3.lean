/-
C11T3 — C11T continued: `Response.make_conditional` (`wrappers/response.py`, `accept_ranges: bool`) *as
regenerated from the source* by `tools/py2lean.py` (`Gen/PyFns_Response.lean`, rewritten on every check
run) is, for every request / response pair and every previous value of what it writes, exactly what the
model's `makeConditionalStatus` decides (`make_conditional_bool_eq`, through the view `mcView`): which
status is assigned (412 / 304 / 206 / none), that `RequestedRangeNotSatisfiable` is raised exactly in the
model's 416 case (with only the Date header written), what `_process_range_request` writes on a 206, that
preconditions are evaluated before the Range header, when the Date and Content-Length headers are
written. What the method asks of the request and the headers are parameters, instantiated from the
model (`isResourceModified`, `parseEtags … .truthy`, `rangeProcessable`, the Range header); what it
writes is recorded in six `out_*` attributes. The model's whole-response function `respond` is tied to
the translation on status, the 416 case, the 206 headers and Content-Length.
Property theorems only: the proofs live in Lemmas/PyFnsEq_MakeConditional.lean.
-/
import WzVerif.Lemmas.PyFnsEq_MakeConditional
namespace Wz.Props.C11T3
open Wz Wz.Pre Wz.Gen.PyFns_Response Wz.PyFnsEq.Response Wz.PyFnsEq.MakeConditional

/-- `make_conditional` on a request whose method is neither GET nor HEAD writes nothing and returns
`self`: all six recorded attributes keep their previous values - whatever the headers, the response and
the arguments are (no hypothesis on the other parameters). -/
theorem make_conditional_bool_other_method (method : Str) (hasDate modified ifMatch processable : Bool)
    (httpRange : Option Str) (auto hasCL : Bool) (calcLen : Option Int) (s : MCState)
    (acceptRanges : Bool) (completeLength : Option Int) (hm : isGetHead method = false) :
    make_conditional_bool method hasDate modified ifMatch processable httpRange auto hasCL calcLen
        s.1 s.2.1 s.2.2.1 s.2.2.2.1 s.2.2.2.2.1 s.2.2.2.2.2 () acceptRanges completeLength
      = (s, .ok ()) := by
  apply PyFnsEq.MakeConditional.make_conditional_bool_other_method <;> assumption

/-- The Date header, for every value of the other parameters (also when
`RequestedRangeNotSatisfiable` is raised, and whatever `is_resource_modified` answers): after
`make_conditional` `out_date` is true when the method is GET / HEAD and the response had no Date header,
and keeps its previous value otherwise. -/
theorem make_conditional_bool_date (method : Str) (hasDate modified ifMatch processable : Bool)
    (httpRange : Option Str) (auto hasCL : Bool) (calcLen : Option Int) (s : MCState)
    (acceptRanges : Bool) (completeLength : Option Int) :
    (make_conditional_bool method hasDate modified ifMatch processable httpRange auto hasCL calcLen
        s.1 s.2.1 s.2.2.1 s.2.2.2.1 s.2.2.2.2.1 s.2.2.2.2.2 () acceptRanges completeLength).1.1
      = dateAfter method hasDate s.1 := by
  apply PyFnsEq.MakeConditional.make_conditional_bool_date <;> assumption

/-- the model only answers 200, 206, 304, 412, and a range goes with 206 exactly -/
theorem makeConditionalStatus_cases (method : Str) (q : Cond.CondReq) (r : Cond.RespIn)
    (completeLength : Option Int) (acceptRanges : Bool) :
    Cond.makeConditionalStatus method q r completeLength acceptRanges = none ∨
    Cond.makeConditionalStatus method q r completeLength acceptRanges = some (200, .notRange) ∨
    Cond.makeConditionalStatus method q r completeLength acceptRanges = some (304, .notRange) ∨
    Cond.makeConditionalStatus method q r completeLength acceptRanges = some (412, .notRange) ∨
    ∃ a b, Cond.makeConditionalStatus method q r completeLength acceptRanges
      = some (206, .partialContent a b) := by
  apply PyFnsEq.MakeConditional.makeConditionalStatus_cases <;> assumption

/-- `Response.make_conditional(environ, accept_ranges, complete_length)` for `accept_ranges: bool`, as
translated from the current source of `werkzeug/wrappers/response.py` (the GET / HEAD test, the Date
header, `is_resource_modified` before the Range header with its 412 / 304 split on If-Match, else
`_process_range_request`, the closing Content-Length block), does exactly what the model's
`makeConditionalStatus` decides - `mcView` of its answer - for every method text, every request /
response pair, every previous value `s` of the six recorded attributes, every value of
`"date" in headers`, `automatically_set_content_length`, `"content-length" in headers`,
`calculate_content_length()`, `complete_length` (or `None`) and both values of `accept_ranges`; the
readings of the environ are the model's (`isResourceModified … true`, truthiness of
`parseEtags (If-Match)`, `rangeProcessable`, the Range header text). -/
theorem make_conditional_bool_eq (method : Str) (q : Cond.CondReq) (r : Cond.RespIn)
    (hasDate auto hasCL : Bool) (calcLen : Option Int) (s : MCState)
    (completeLength : Option Int) (acceptRanges : Bool) :
    make_conditional_bool method hasDate (Cond.isResourceModified q r.etag (Cond.lmOf r) true)
        (Cond.parseEtags q.im).truthy (Cond.rangeProcessable q r) q.range auto hasCL calcLen
        s.1 s.2.1 s.2.2.1 s.2.2.2.1 s.2.2.2.2.1 s.2.2.2.2.2 () acceptRanges completeLength
      = mcView method hasDate auto hasCL calcLen s (completeLength.getD 0)
          (Cond.makeConditionalStatus method q r completeLength acceptRanges) := by
  apply PyFnsEq.MakeConditional.make_conditional_bool_eq <;> assumption

/-- `make_conditional_bool_eq` read from the fresh state `(d0, None, None, None, None, None)`: the
translated `make_conditional` raises `RequestedRangeNotSatisfiable` exactly when the model's
`makeConditionalStatus` is `none` (416), and otherwise returns `self` with `out_status` unassigned for
the model's 200 and `412 / 304 / 206` when the model says so, the range attributes
(`Content-Range`, `_wrap_range_response`, `Accept-Ranges`) written as `rangeResult` describes for
`.partialContent a b` and untouched otherwise, `out_date` and `out_content_length` as `dateAfter` /
`fillLength` say - all of that is `mcView … (fresh d0) …`. -/
theorem make_conditional_bool_status (method : Str) (q : Cond.CondReq) (r : Cond.RespIn)
    (hasDate auto hasCL : Bool) (calcLen : Option Int) (d0 : Bool)
    (completeLength : Option Int) (acceptRanges : Bool) :
    make_conditional_bool method hasDate (Cond.isResourceModified q r.etag (Cond.lmOf r) true)
        (Cond.parseEtags q.im).truthy (Cond.rangeProcessable q r) q.range auto hasCL calcLen
        d0 none none none none none () acceptRanges completeLength
      = mcView method hasDate auto hasCL calcLen (fresh d0) (completeLength.getD 0)
          (Cond.makeConditionalStatus method q r completeLength acceptRanges) := by
  apply PyFnsEq.MakeConditional.make_conditional_bool_status <;> assumption


section corollaries
variable (method : Str) (q : Cond.CondReq) (r : Cond.RespIn) (hasDate auto hasCL : Bool)
  (calcLen : Option Int) (s : MCState) (completeLength : Option Int) (acceptRanges : Bool)

/-- `make_conditional` raises an exception exactly when the model's `makeConditionalStatus` is `none`
(the 416 case), and the exception is `RequestedRangeNotSatisfiable`. -/
theorem make_conditional_bool_raises_iff (e : String) :
    (mcRun method q r hasDate auto hasCL calcLen s completeLength acceptRanges).2 = .error e
      ↔ (Cond.makeConditionalStatus method q r completeLength acceptRanges = none
          ∧ e = "RequestedRangeNotSatisfiable") := by
  apply PyFnsEq.MakeConditional.make_conditional_bool_raises_iff <;> assumption

/-- `make_conditional` returns (`self`) exactly when the model's `makeConditionalStatus` gives a status. -/
theorem make_conditional_bool_ok_iff :
    (mcRun method q r hasDate auto hasCL calcLen s completeLength acceptRanges).2 = .ok ()
      ↔ (Cond.makeConditionalStatus method q r completeLength acceptRanges).isSome = true := by
  apply PyFnsEq.MakeConditional.make_conditional_bool_ok_iff <;> assumption

/-- When `RequestedRangeNotSatisfiable` is raised (model `none`), the only thing written before is the
Date header: the five other attributes keep their previous values. -/
theorem make_conditional_bool_raise_state
    (h : Cond.makeConditionalStatus method q r completeLength acceptRanges = none) :
    (mcRun method q r hasDate auto hasCL calcLen s completeLength acceptRanges).1
      = (dateAfter method hasDate s.1, s.2) := by
  apply PyFnsEq.MakeConditional.make_conditional_bool_raise_state <;> assumption

/-- Model status 412 (precondition failed: the resource counts as unmodified and If-Match carries
tags): `make_conditional` returns with `self.status_code = 412` assigned. -/
theorem make_conditional_bool_status_412 (o : Cond.RangeOutcome)
    (h : Cond.makeConditionalStatus method q r completeLength acceptRanges = some (412, o)) :
    (mcRun method q r hasDate auto hasCL calcLen s completeLength acceptRanges).2 = .ok () ∧
    (mcRun method q r hasDate auto hasCL calcLen s completeLength acceptRanges).1.2.2.2.2.1 = some 412 := by
  apply PyFnsEq.MakeConditional.make_conditional_bool_status_412 <;> assumption

/-- Model status 304 (not modified, no If-Match tags): `make_conditional` returns with
`self.status_code = 304` assigned. -/
theorem make_conditional_bool_status_304 (o : Cond.RangeOutcome)
    (h : Cond.makeConditionalStatus method q r completeLength acceptRanges = some (304, o)) :
    (mcRun method q r hasDate auto hasCL calcLen s completeLength acceptRanges).2 = .ok () ∧
    (mcRun method q r hasDate auto hasCL calcLen s completeLength acceptRanges).1.2.2.2.2.1 = some 304 := by
  apply PyFnsEq.MakeConditional.make_conditional_bool_status_304 <;> assumption

/-- Model status 206: `make_conditional` returns with `self.status_code = 206` assigned (by
`_process_range_request`). -/
theorem make_conditional_bool_status_206 (o : Cond.RangeOutcome)
    (h : Cond.makeConditionalStatus method q r completeLength acceptRanges = some (206, o)) :
    (mcRun method q r hasDate auto hasCL calcLen s completeLength acceptRanges).2 = .ok () ∧
    (mcRun method q r hasDate auto hasCL calcLen s completeLength acceptRanges).1.2.2.2.2.1 = some 206 := by
  apply PyFnsEq.MakeConditional.make_conditional_bool_status_206 <;> assumption

/-- Model status 200: `make_conditional` returns and never assigns `self.status_code` (the recorded
value stays what it was), writes no Accept-Ranges / Content-Range and does not wrap the body. -/
theorem make_conditional_bool_status_200 (o : Cond.RangeOutcome)
    (h : Cond.makeConditionalStatus method q r completeLength acceptRanges = some (200, o)) :
    (mcRun method q r hasDate auto hasCL calcLen s completeLength acceptRanges).2 = .ok () ∧
    (mcRun method q r hasDate auto hasCL calcLen s completeLength acceptRanges).1.2.2
      = s.2.2 := by
  apply PyFnsEq.MakeConditional.make_conditional_bool_status_200 <;> assumption

/-- From the fresh state, the assigned status code read back from the model: never assigned when the
model says 200 (or when the exception is raised), else the model's code. -/
theorem make_conditional_bool_out_status (d0 : Bool) :
    (mcRun method q r hasDate auto hasCL calcLen (fresh d0) completeLength acceptRanges).1.2.2.2.2.1
      = match Cond.makeConditionalStatus method q r completeLength acceptRanges with
        | none => none
        | some (code, _) => if code = 200 then none else some (code : Int) := by
  apply PyFnsEq.MakeConditional.make_conditional_bool_out_status <;> assumption

/-- From the fresh state, `self.status_code = code` is assigned exactly when the model answers a
status `code` other than 200 (so: 412, 304 or 206). -/
theorem make_conditional_bool_out_status_iff (d0 : Bool) (code : Nat) :
    (mcRun method q r hasDate auto hasCL calcLen (fresh d0) completeLength acceptRanges).1.2.2.2.2.1
        = some (code : Int)
      ↔ (code ≠ 200 ∧ ∃ o, Cond.makeConditionalStatus method q r completeLength acceptRanges = some (code, o)) := by
  apply PyFnsEq.MakeConditional.make_conditional_bool_out_status_iff <;> assumption

/-- The range outcome: when the model answers `.partialContent a b`, `make_conditional` returns after
exactly the five writes of `_process_range_request` - `Content-Length: b - a`, `Accept-Ranges: bytes`,
`Content-Range: bytes a-(b-1)/complete_length`, `status_code = 206`, `_wrap_range_response(a, b - a)` -
(and the Date header); neither `automatically_set_content_length` nor an existing Content-Length header
nor `calculate_content_length()` matter. -/
theorem make_conditional_bool_partial (code : Nat) (a b : Int)
    (h : Cond.makeConditionalStatus method q r completeLength acceptRanges = some (code, .partialContent a b)) :
    mcRun method q r hasDate auto hasCL calcLen s completeLength acceptRanges
      = ((dateAfter method hasDate s.1,
          (rangeResult s.2 Cond.bytesUnit (completeLength.getD 0) (.partialContent a b)).1), .ok ()) := by
  apply PyFnsEq.MakeConditional.make_conditional_bool_partial <;> assumption

/-- When the model's outcome is not a partial content, `make_conditional` writes no Accept-Ranges, no
Content-Range and does not wrap the body (those three attributes keep their previous values). -/
theorem make_conditional_bool_no_range (code : Nat) (o : Cond.RangeOutcome)
    (h : Cond.makeConditionalStatus method q r completeLength acceptRanges = some (code, o))
    (ho : ∀ a b, o ≠ .partialContent a b) :
    let out := (mcRun method q r hasDate auto hasCL calcLen s completeLength acceptRanges).1
    out.2.2.1 = s.2.2.1 ∧ out.2.2.2.1 = s.2.2.2.1 ∧ out.2.2.2.2.2 = s.2.2.2.2.2 := by
  apply PyFnsEq.MakeConditional.make_conditional_bool_no_range <;> assumption

/-- Content-Length after a 206: it is the length of the range, `b - a`, written by
`_process_range_request`; the closing block of `make_conditional` leaves it alone whatever
`automatically_set_content_length` and `calculate_content_length()` are. -/
theorem make_conditional_bool_content_length_206 (code : Nat) (a b : Int)
    (h : Cond.makeConditionalStatus method q r completeLength acceptRanges = some (code, .partialContent a b)) :
    (mcRun method q r hasDate auto hasCL calcLen s completeLength acceptRanges).1.2.1 = some (b - a) := by
  apply PyFnsEq.MakeConditional.make_conditional_bool_content_length_206 <;> assumption

/-- `calculate_content_length()` is not consulted after a 206: the whole result is the same for any two
values of it (and of `automatically_set_content_length`, `"content-length" in headers`). -/
theorem make_conditional_bool_calc_unused_206 (code : Nat) (a b : Int) (auto' hasCL' : Bool) (calcLen' : Option Int)
    (h : Cond.makeConditionalStatus method q r completeLength acceptRanges = some (code, .partialContent a b)) :
    mcRun method q r hasDate auto hasCL calcLen s completeLength acceptRanges
      = mcRun method q r hasDate auto' hasCL' calcLen' s completeLength acceptRanges := by
  apply PyFnsEq.MakeConditional.make_conditional_bool_calc_unused_206 <;> assumption

/-- Content-Length when the method is GET / HEAD and the model's outcome is not a partial content (200,
304, 412): `fillLength` - under `automatically_set_content_length`, with no Content-Length header
present (nor recorded before), it becomes `calculate_content_length()` when that is not `None`; in every
other case it keeps its previous value. -/
theorem make_conditional_bool_content_length_fill (code : Nat) (o : Cond.RangeOutcome)
    (hm : isGetHead method = true)
    (h : Cond.makeConditionalStatus method q r completeLength acceptRanges = some (code, o))
    (ho : ∀ a b, o ≠ .partialContent a b) :
    (mcRun method q r hasDate auto hasCL calcLen s completeLength acceptRanges).1.2.1
      = fillLength auto hasCL calcLen s.2.1 := by
  apply PyFnsEq.MakeConditional.make_conditional_bool_content_length_fill <;> assumption


end corollaries

section respond
variable (method : Str) (q : Cond.CondReq) (r : Cond.RespIn) (hasDate auto hasCL : Bool)
  (calcLen : Option Int) (s : MCState) (completeLength : Option Int) (acceptRanges : Bool)
  (chunks : List Bytes) (seekable : Option Nat) (kind : Nat)

/-- The model's `respond` answers `none` (416) exactly when the translated `make_conditional` raises
`RequestedRangeNotSatisfiable`. -/
theorem respond_none_iff :
    Cond.respond method q r completeLength acceptRanges chunks seekable kind = none
      ↔ (mcRun method q r hasDate auto hasCL calcLen s completeLength acceptRanges).2
          = .error "RequestedRangeNotSatisfiable" := by
  apply PyFnsEq.MakeConditional.respond_none_iff <;> assumption

/-- The status of the model's `respond` is the status the translated `make_conditional` leaves on a
response that was 200: the assigned `status_code` (from the fresh state), 200 when none was assigned. -/
theorem respond_status_eq (o : Cond.WsgiOut) (d0 : Bool)
    (ho : Cond.respond method q r completeLength acceptRanges chunks seekable kind = some o) :
    (o.status : Int)
      = ((mcRun method q r hasDate auto hasCL calcLen (fresh d0) completeLength acceptRanges).1.2.2.2.2.1).getD 200 := by
  apply PyFnsEq.MakeConditional.respond_status_eq <;> assumption

/-- A 206 of the model's `respond` carries the range headers the translated `make_conditional` wrote:
same Content-Length (`b - a`), `Accept-Ranges` present on both sides, and the model's Content-Range triple
`(first, last, length)` printed as `bytes first-last/length` is the recorded `Content-Range` text. -/
theorem respond_partial_eq (o : Cond.WsgiOut)
    (ho : Cond.respond method q r completeLength acceptRanges chunks seekable kind = some o)
    (h206 : o.status = 206) :
    let out := (mcRun method q r hasDate auto hasCL calcLen s completeLength acceptRanges).1
    o.contentLength = out.2.1 ∧ o.acceptRanges = out.2.2.1.isSome ∧ out.2.2.1 = some Cond.bytesUnit ∧
    o.contentRange.map (fun t => crText Cond.bytesUnit t.1 (t.2.1 + 1) t.2.2) = out.2.2.2.1 := by
  apply PyFnsEq.MakeConditional.respond_partial_eq <;> assumption

/-- Content-Length of the model's `respond` for a GET / HEAD request whose answer is not 304 (so 200, 206
or 412): it is the Content-Length the translated `make_conditional` leaves on a fresh response with
`automatically_set_content_length` on, no Content-Length header and `calculate_content_length()` as
`kindLength` says (the range length after a 206, the total of the body for a list or an iterable, none
under `direct_passthrough`). -/
theorem respond_content_length_eq (o : Cond.WsgiOut) (d0 : Bool) (hm : isGetHead method = true)
    (ho : Cond.respond method q r completeLength acceptRanges chunks seekable kind = some o)
    (h304 : o.status ≠ 304) :
    o.contentLength
      = (mcRun method q r hasDate true false (kindLength kind chunks) (fresh d0) completeLength acceptRanges).1.2.1 := by
  apply PyFnsEq.MakeConditional.respond_content_length_eq <;> assumption


end respond

end Wz.Props.C11T3
