/-
C08T — the mutators of `werkzeug.datastructures.Headers` and `HeaderSet` *as regenerated from the
source* by `tools/py2lean.py` (`Gen/PyFns_Headers.lean`, `Gen/PyFns_HeaderSet.lean`, rewritten on
every check run) are equal, for all inputs, to the hand-written model functions of
`Model/Headers.lean` / `Model/Containers.lean` that the C08 theorems are about.
A translated method takes the object's attributes (`_list`; `_headers`, `_set` and the flag
"`on_update` was called") as arguments and returns their final values - for a method that can raise,
the values at the moment of the raise, together with `Except`.
Property theorems only (helper lemmas: Lemmas/PyFns_Headers.lean, Lemmas/PyFns_Prelude.lean).
-/
import WzVerif.Gen.PyFns_Headers
import WzVerif.Gen.PyFns_HeaderSet
import WzVerif.Lemmas.PyFns_Headers
import WzVerif.Props.C08
namespace Wz.Props.C08T
open Wz Wz.Hdr Wz.PyFnsHeaders

/-- The translation maps `_newline_re.search` to the prelude's test for CR / LF; this pins the
pattern source and flags of the live regex object. -/
theorem newline_re_pinned : Gen.PyFns_Headers.newlineRe = ("[\\r\\n]", 32) := by decide

/-- `_str_header_value(value)` for a `str`, as translated: `ValueError` exactly for CR / LF. -/
theorem str_header_value_eq (v : List Char) :
    Gen.PyFns_Headers.str_header_value v = strHeaderValue v := by
  unfold Gen.PyFns_Headers.str_header_value strHeaderValue
  rw [newlineReSearch_eq]

/-- `Headers.add(key, value)` (no keyword arguments), as translated from the current source,
is the model's `add`: same final `_list`, same outcome. -/
theorem headers_add_eq (l : HList) (k v : List Char) :
    Gen.PyFns_Headers.headers_add l k v = Hdr.add l k v := by
  unfold Gen.PyFns_Headers.headers_add Hdr.add
  rw [str_header_value_eq]
  cases strHeaderValue v <;> rfl

/-- the filtering loop of `Headers._del_key` -/
theorem del_key_loop_eq (L : HList) (key : List Char) (l new : HList) :
    Gen.PyFns_Headers.headers_del_key.loop1 L key l new =
      .fall (new ++ l.filter (fun p => !(Hdr.lower p.1 == key))) := by
  induction l generalizing new with
  | nil => simp [Gen.PyFns_Headers.headers_del_key.loop1]
  | cons p t ih =>
    unfold Gen.PyFns_Headers.headers_del_key.loop1
    by_cases h : (Hdr.lower p.1 == key) = true
    · simp [lower_eq, h, ih]
    · have h' : (Hdr.lower p.1 == key) = false := by simpa using h
      simp [lower_eq, h', ih]

/-- `Headers._del_key(key)`, as translated (lower-cased key, the filtering loop,
`self._list[:] = new`), leaves the model's `delKey`. -/
theorem headers_del_key_eq (l : HList) (key : List Char) :
    Gen.PyFns_Headers.headers_del_key l key = delKey l key := by
  unfold Gen.PyFns_Headers.headers_del_key delKey
  simp only [del_key_loop_eq]
  simp [Pre.setSlice, keyEq, lower_eq]

/-- `Headers.remove(key)` is `_del_key`. -/
theorem headers_remove_eq (l : HList) (key : List Char) :
    Gen.PyFns_Headers.headers_remove l key = delKey l key := by
  unfold Gen.PyFns_Headers.headers_remove
  exact headers_del_key_eq l key

/-- **The `for idx, (old_key, _) in enumerate(iter_list)` loop of `Headers.set`**, as translated
from the current source (the iterator shared with the later comprehension, `self._list[idx] = …`,
`break`, the `else` clause): it either runs to its end (no entry with this key) or breaks at the first
such entry with that entry replaced, handing over the index and the entries not yet consumed. -/
theorem set_loop_eq (k vs : List Char) (t : HList) : ∀ (i : Nat) (L : HList), L.length = i + t.length →
    Gen.PyFns_Headers.headers_set.loop1 k vs (Hdr.lower k) (Pre.enumerateFrom (i : Int) t) L =
      match firstSplit k t with
      | none => .fall L
      | some (a, b) => .brk (L.set (i + a.length) (k, vs), ((i + a.length : Nat) : Int), b) := by
  induction t with
  | nil => intro i L _; rfl
  | cons p t ih =>
    intro i L hL
    unfold Pre.enumerateFrom Gen.PyFns_Headers.headers_set.loop1 firstSplit
    by_cases hk : keyEq k p = true
    · have hk' : (Pre.lower p.1 == Hdr.lower k) = true := hk
      have hi : i < L.length := by simp at hL; omega
      simp only [hk', if_true, Pre.setItem_lt L i (k, vs) hi, hk]
      simp [Pre.enumerateFrom_map_snd]
    · have hk' : (Pre.lower p.1 == Hdr.lower k) = false := by simpa [keyEq, lower_eq] using hk
      have e : ((i : Int) + 1) = ((i + 1 : Nat) : Int) := by omega
      simp only [hk', Bool.false_eq_true, if_false, hk, e]
      rw [ih (i + 1) L (by simp at hL ⊢; omega)]
      cases firstSplit k t with
      | none => rfl
      | some ab =>
        obtain ⟨a, b⟩ := ab
        have e1 : i + 1 + a.length = i + (a.length + 1) := by omega
        simp [e1]

/-- **`Headers.set(key, value)`** (no keyword arguments), as translated from the current source
(value check, the empty-list shortcut, the replace-first loop, the slice assignment that drops the
remaining entries of the key), is the model's `set`: same final `_list`, same outcome, for every
list, key and value. -/
theorem headers_set_eq (l : HList) (k v : List Char) :
    Gen.PyFns_Headers.headers_set l k v = Hdr.set l k v := by
  unfold Gen.PyFns_Headers.headers_set Hdr.set
  rw [str_header_value_eq]
  cases strHeaderValue v with
  | error e => rfl
  | ok vs =>
    simp only []
    by_cases he : l.isEmpty = true
    · have : l = [] := by simpa using he
      subst this; rfl
    · simp only [he, Bool.false_eq_true, if_false, Pre.iterOf, Pre.enumerate, lower_eq]
      have hl := set_loop_eq k vs l 0 l (by simp)
      simp only [Int.natCast_zero] at hl
      rw [hl, setLoop_firstSplit]
      cases hf : firstSplit k l with
      | none => rfl
      | some ab =>
        obtain ⟨a, b⟩ := ab
        obtain ⟨p, hp⟩ := firstSplit_spec k l a b hf
        subst hp
        simp [Pre.setSlice, Pre.clamp, keyEq, lower_eq]
        have h1 : ¬ ((a.length : Int) + 1 < 0) := by omega
        have h2 : max (a.length + 1) (a.length + (b.length + 1)) = a.length + (b.length + 1) := by omega
        have h3 : (a ++ (k, vs) :: b).drop (a.length + (b.length + 1)) = [] :=
          List.drop_eq_nil_of_le (by simp)
        have h4 : (a ++ (k, vs) :: b).take (a.length + 1) = a ++ [(k, vs)] := by
          have : a.take (a.length + 1) = a := List.take_of_length_le (by omega)
          simp [List.take_append, this]
        simp [h1, h2, h3, h4]

/-- C08 `headers_set_getlist` on the translated method: after the regenerated `set(k, v)` with a
newline-free `v` the key has exactly the one value `v`. -/
theorem headers_set_getlist_translated (l : HList) (k v : List Char) (hv : hasNL v = false) :
    getlist (Gen.PyFns_Headers.headers_set l k v).1 k = [v] ∧
      (Gen.PyFns_Headers.headers_set l k v).2 = .ok () := by
  rw [headers_set_eq]
  exact Wz.Props.C08.headers_set_getlist l k v hv

section HeaderSet
open Wz.HS

/-- the loop of `HeaderSet.update` -/
theorem hs_update_loop_eq (n : Bool) (it : List (List Char)) : ∀ (h s : List (List Char)) (ia : Bool),
    Gen.PyFns_HeaderSet.hs_update.loop1 n it h s ia =
      .fall ((updateLoop ⟨h, s⟩ it).1.headers, (updateLoop ⟨h, s⟩ it).1.set, ia || (updateLoop ⟨h, s⟩ it).2) := by
  induction it with
  | nil => intro h s ia; simp [Gen.PyFns_HeaderSet.hs_update.loop1, updateLoop]
  | cons x t ih =>
    intro h s ia
    unfold Gen.PyFns_HeaderSet.hs_update.loop1 updateLoop
    have hl : Pre.lower x = Hdr.lower x := rfl
    by_cases hm : Hdr.lower x ∈ s
    · simp [hl, hm, ih]
    · simp [hl, hm, ih, Pre.setAdd, Pre.listAppend]

/-- `HeaderSet.update(iterable)`, as translated: the model's `update` (final `_headers`, `_set`; the
flag is raised when something was inserted). -/
theorem hs_update_eq (h s : List (List Char)) (n : Bool) (it : List (List Char)) :
    Gen.PyFns_HeaderSet.hs_update h s n it =
      ((HS.update ⟨h, s⟩ it).st.headers, (HS.update ⟨h, s⟩ it).st.set, n || (HS.update ⟨h, s⟩ it).notified) := by
  unfold Gen.PyFns_HeaderSet.hs_update HS.update
  simp only [hs_update_loop_eq, Bool.false_or]
  cases (updateLoop ⟨h, s⟩ it).2 <;> simp

/-- `HeaderSet.add(header)` is `update((header,))`. -/
theorem hs_add_eq (h s : List (List Char)) (n : Bool) (x : List Char) :
    Gen.PyFns_HeaderSet.hs_add h s n x =
      ((HS.update ⟨h, s⟩ [x]).st.headers, (HS.update ⟨h, s⟩ [x]).st.set, n || (HS.update ⟨h, s⟩ [x]).notified) := by
  unfold Gen.PyFns_HeaderSet.hs_add
  simp only [hs_update_eq]

/-- the `enumerate` loop of `HeaderSet.remove` with its `del self._headers[idx]; break`: whether it
breaks or runs out, the first member equal to `key` ignoring case is gone. -/
theorem hs_remove_loop_eq (s : List (List Char)) (n : Bool) (key : List Char) (t : List (List Char)) :
    ∀ (pre : List (List Char)),
      (Gen.PyFns_HeaderSet.hs_remove.loop1 s n key (Pre.enumerateFrom (pre.length : Int) t) (pre ++ t)
          = .fall (pre ++ dropFirst key t)) ∨
      (Gen.PyFns_HeaderSet.hs_remove.loop1 s n key (Pre.enumerateFrom (pre.length : Int) t) (pre ++ t)
          = .brk (pre ++ dropFirst key t)) := by
  induction t with
  | nil => intro pre; left; simp [Pre.enumerateFrom, Gen.PyFns_HeaderSet.hs_remove.loop1, dropFirst]
  | cons x t ih =>
    intro pre
    unfold Pre.enumerateFrom Gen.PyFns_HeaderSet.hs_remove.loop1 dropFirst
    have hl : Pre.lower x = Hdr.lower x := rfl
    by_cases hk : (Hdr.lower x == key) = true
    · right
      have hlt : pre.length < (pre ++ x :: t).length := by simp
      simp only [hl, hk, if_true, Pre.delItem_lt _ _ hlt]
      simp [List.eraseIdx_append_of_length_le]
    · have hk' : (Hdr.lower x == key) = false := by simpa using hk
      have e : ((pre.length : Int) + 1) = (((pre ++ [x]).length : Nat) : Int) := by simp
      have e2 : pre ++ x :: t = (pre ++ [x]) ++ t := by simp
      simp only [hl, hk', Bool.false_eq_true, if_false]
      rw [e, e2]
      rcases ih (pre ++ [x]) with h | h
      · left; rw [h]; simp
      · right; rw [h]; simp

/-- `HeaderSet.remove(header)`, as translated (KeyError for a non-member, `_set.remove`, the
deletion loop, `on_update`), is the model's `remove`. -/
theorem hs_remove_eq (h s : List (List Char)) (n : Bool) (x : List Char) :
    Gen.PyFns_HeaderSet.hs_remove h s n x =
      (((remove ⟨h, s⟩ x).st.headers, (remove ⟨h, s⟩ x).st.set, n || (remove ⟨h, s⟩ x).notified),
        (remove ⟨h, s⟩ x).res) := by
  unfold Gen.PyFns_HeaderSet.hs_remove remove
  have hl : Pre.lower x = Hdr.lower x := rfl
  by_cases hm : Hdr.lower x ∈ s
  · have hc : s.contains (Hdr.lower x) = true := by simpa using hm
    simp only [hl, hc, Bool.not_true, Bool.false_eq_true, if_false, Pre.setRemove, if_true, Pre.enumerate]
    have := hs_remove_loop_eq (s.erase (Hdr.lower x)) n (Hdr.lower x) h []
    simp only [List.length_nil, Int.natCast_zero, List.nil_append] at this
    rcases this with h1 | h1 <;> rw [h1] <;> simp
  · simp [hl, hm]

/-- `HeaderSet.discard(header)`, as translated (`try: self.remove(header) except KeyError: pass`). -/
theorem hs_discard_eq (h s : List (List Char)) (n : Bool) (x : List Char) :
    Gen.PyFns_HeaderSet.hs_discard h s n x =
      ((HS.discard ⟨h, s⟩ x).st.headers, (HS.discard ⟨h, s⟩ x).st.set, n || (HS.discard ⟨h, s⟩ x).notified) := by
  unfold Gen.PyFns_HeaderSet.hs_discard HS.discard
  simp only [hs_remove_eq]
  cases (remove ⟨h, s⟩ x).res <;> rfl

/-- `hs[idx] = value`, as translated (`_headers[idx]` may raise IndexError, `_set.remove` KeyError,
then both containers are updated and `on_update` runs), is the model's `setitem`. -/
theorem hs_setitem_eq (h s : List (List Char)) (n : Bool) (i : Int) (v : List Char) :
    Gen.PyFns_HeaderSet.hs_setitem h s n i v =
      (((setitem ⟨h, s⟩ i v).st.headers, (setitem ⟨h, s⟩ i v).st.set, n || (setitem ⟨h, s⟩ i v).notified),
        (setitem ⟨h, s⟩ i v).res) := by
  unfold Gen.PyFns_HeaderSet.hs_setitem setitem
  cases hp : Hdr.pyIdx h.length i with
  | none => simp [pyIdx_none h i hp]
  | some k =>
    obtain ⟨hk, hg, hs⟩ := pyIdx_some h i k hp
    have hget : h[k]? = some h[k] := by simp [hk]
    have hl : ∀ t : List Char, Pre.lower t = Hdr.lower t := fun _ => rfl
    simp only [hg, hs, hget, hl, Pre.setRemove]
    by_cases hm : Hdr.lower h[k] ∈ s
    · simp [hm, Pre.setAdd, setAdd]
    · simp [hm]

end HeaderSet

example : (Gen.PyFns_Headers.headers_set [("A".toList, "1".toList), ("b".toList, "2".toList), ("a".toList, "3".toList)]
    "a".toList "x".toList).1 = [("a".toList, "x".toList), ("b".toList, "2".toList)] := by decide

end Wz.Props.C08T
