/-
C07T2 — C07T continued: `Request.want_form_data_parsed` (`wrappers/request.py`) *as regenerated from the
source* by `tools/py2lean.py` (`Gen/PyFns_FormGlue.lean`, rewritten on every check run) is the model's
`Req.wantFormDataParsed` (`Model/RequestBody.lean`) on the environ's `CONTENT_TYPE` entry.
-/
import WzVerif.Gen.PyFns_FormGlue
import WzVerif.Model.RequestBody
namespace Wz.Props.C07T2
open Wz Wz.Gen.PyFns_FormGlue

/-- `Request.want_form_data_parsed`, as translated from the current source
(`bool(self.environ.get("CONTENT_TYPE"))`): true exactly for a non-empty `CONTENT_TYPE` entry - the
model's `wantFormDataParsed` on an environment whose content type is that entry. -/
theorem want_form_data_parsed_eq (environ : List (List Char × List Char)) (e : Req.Env)
    (h : e.contentType = Pre.dictGet? environ "CONTENT_TYPE".toList) :
    want_form_data_parsed environ = Req.wantFormDataParsed e := by
  have k : "CONTENT_TYPE".toList = ['C', 'O', 'N', 'T', 'E', 'N', 'T', '_', 'T', 'Y', 'P', 'E'] := by decide
  unfold want_form_data_parsed Req.wantFormDataParsed
  rw [h, k]
  cases Pre.dictGet? environ _ <;> rfl

end Wz.Props.C07T2
