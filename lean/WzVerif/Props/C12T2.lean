/-
C12T2 — C12T continued: `Rule.suitable_for`, `Rule.build_compare_key` and `Rule.provides_defaults_for`
(`werkzeug/routing/rules.py`) *as regenerated from the source* by `tools/py2lean.py`
(`Gen/PyFns_RoutingRule.lean`, rewritten on every check run) equal the hand-written
`Rule.suitableFor`, `Rule.buildCompareKey` (`Model/RoutingBuild.lean`) and `providesDefaultsFor`
(`Model/RoutingAdapter.lean`) for every rule, values dict and method; `self.defaults` may be `None`, `{}`
or a dict. Values of URL variables are a type parameter whose `==` is a parameter (the model's
`Value.pyEq` in the theorems); `Rule.__eq__`, the endpoint comparison and the set comparison of the
argument sets are parameters of `provides_defaults_for`. `MapAdapter.get_default_redirect`
(`routing/map.py`) equals `getDefaultRedirect` (`Model/RoutingAdapter.lean`) with the rule objects'
methods as parameters.
Property theorems only: the proofs live in Lemmas/PyFnsEq_RoutingRule.lean.
-/
import WzVerif.Lemmas.PyFnsEq_RoutingRule
import WzVerif.Model.RoutingAdapter
namespace Wz.Props.C12T2
open Wz Wz.Routing Wz.Gen.PyFns_RoutingRule
open Wz.PyFnsEq.RoutingRule

/-- `values[key]` and the model's `lookupVal` read the same entry, also when a key is repeated in the
association list (both take the first); `KeyError` exactly when `lookupVal` finds nothing -/
theorem dictGetItem_eq_lookupVal (values : List (Str × Value)) (k : Str) :
    Pre.dictGetItem values k =
      (match lookupVal k values with | some v => .ok v | none => .error "KeyError") := by
  apply PyFnsEq.RoutingRule.dictGetItem_eq_lookupVal <;> assumption

/-- `Rule.suitable_for(values, method)` as translated from the source returns, without raising, what the
model's `Rule.suitableFor` returns; `d` is `self.defaults` (`None`, `{}` or a dict) and the model's
`r.defaults` its list reading; `==` is `Value.pyEq` with the default as the left operand on both sides -/
theorem rule_suitable_for_eq (r : Routing.Rule) (d : Option (List (Str × Value)))
    (hd : d.getD [] = r.defaults) (values : List (Str × Value)) (method : Option Str) :
    rule_suitable_for (fun a b => a.pyEq b) r.methods d r.arguments values method
      = .ok (r.suitableFor values method) := by
  apply PyFnsEq.RoutingRule.rule_suitable_for_eq <;> assumption

/-- `Rule.build_compare_key()` as translated from the source is the model's `Rule.buildCompareKey`
(`self.alias` is the model's `r.alias = r.spec.alias`); `d` is `self.defaults` as above -/
theorem rule_build_compare_key_eq (r : Routing.Rule) (d : Option (List (Str × Value)))
    (hd : d.getD [] = r.defaults) :
    rule_build_compare_key r.alias r.arguments d = r.buildCompareKey := by
  apply PyFnsEq.RoutingRule.rule_build_compare_key_eq <;> assumption

/-- `Rule.provides_defaults_for(rule)` as translated from the source is the model's
`providesDefaultsFor`, the three comparisons of the source being read as: `self.endpoint == rule.endpoint`
= equality of the endpoints, `self != rule` = the traces differ (`Rule.__eq__` compares `_trace`),
`self.arguments == rule.arguments` = equality of the argument sets (`sameSet`) -/
theorem rule_provides_defaults_for_eq (cfg : MapCfg) (r rule : Routing.Rule)
    (d : Option (List (Str × Value))) (hd : d.getD [] = r.defaults) :
    rule_provides_defaults_for (r.endpoint == rule.endpoint) (r.trace cfg != rule.trace cfg)
      (sameSet r.arguments rule.arguments) r.spec.buildOnly d () = providesDefaultsFor cfg r rule := by
  apply PyFnsEq.RoutingRule.rule_provides_defaults_for_eq <;> assumption

/-- `Rule.suitable_for` as translated never raises (the `KeyError` of `values[key]` is unreachable),
whatever the type of the values and whatever `==` does -/
theorem rule_suitable_for_ok {V : Type} (veq : V → V → Bool) (ms : Option (List Str))
    (d : Option (List (Str × V))) (args : List Str) (values : List (Str × V)) (method : Option Str) :
    ∃ b, rule_suitable_for veq ms d args values method = .ok b := by
  apply PyFnsEq.RoutingRule.rule_suitable_for_ok <;> assumption


/-! ### `MapAdapter.get_default_redirect` -/

/-- the prelude's `d[k] = v` is the routing model's -/
theorem dictSet_eq (d : List (Str × Value)) (k : Str) (v : Value) : Pre.dictSet d k v = Routing.dictSet d k v := by
  unfold Pre.dictSet Pre.dictHas Routing.dictSet
  congr 1
  apply List.map_congr_left
  intro p _
  by_cases h : p.1 = k <;> simp [h]

/-- what `get_default_redirect` does with the outcome of its loop (`break` and the end of the list both
lead to `return None`) -/
def loopOutR {σ β : Type} : Pre.LoopB (Except String (Option Str)) σ β → Except String (Option Str)
  | .ret r => r
  | .fall _ => .ok none
  | .brk _ => .ok none

/-- the prelude's `d.update(pairs)` is the routing model's -/
theorem dictUpdate_eq (u d : List (Str × Value)) : Pre.dictUpdate d u = Routing.dictUpdate d u := by
  unfold Pre.dictUpdate Routing.dictUpdate
  induction u generalizing d with
  | nil => rfl
  | cons e t ih => simp only [List.foldl_cons, dictSet_eq, ih]

/-- `MapAdapter.get_default_redirect(rule, method, values, query_args)`, as translated from the current
source (the `assert`, the walk over the rules of the endpoint up to the matched rule itself - `break` -,
the first rule that provides defaults and is suitable: `values.update(r.defaults)`, `r.build(values)`,
`make_redirect_url(path, query_args, domain_part=…)`; `None` otherwise), is the model's
`getDefaultRedirect` for every map, adapter, matched rule, method, values and candidate list, once what
it asks of the rule objects is the model's (`idx` for identity, `providesDefaultsFor`, `suitableFor`,
`defaults`, `build`, `makeRedirectUrl`). -/
theorem get_default_redirect_eq (m : RMap) (a : Adapter) (rule : Rule) (method : Str)
    (values : List (Str × Value)) (qa : QueryArgs) (cands : List Rule) :
    get_default_redirect cands (fun r => r.idx == rule.idx) (fun r => providesDefaultsFor m.cfg r rule)
        (fun r v me => r.suitableFor v (some me)) (fun r => r.defaults) (fun r v => r.build m.cfg v true)
        (fun path dom => makeRedirectUrl m.cfg.hostMatching a path qa (some dom)) true rule method values ()
      = getDefaultRedirect m a rule method values qa cands := by
  have h : ∀ (l : List Rule),
      loopOutR (get_default_redirect.loop1 cands (fun r => r.idx == rule.idx) (fun r => providesDefaultsFor m.cfg r rule)
          (fun r v me => r.suitableFor v (some me)) (fun r => r.defaults) (fun r v => r.build m.cfg v true)
          (fun path dom => makeRedirectUrl m.cfg.hostMatching a path qa (some dom)) rule method l values)
        = getDefaultRedirect m a rule method values qa l := by
    intro l
    induction l with
    | nil => rfl
    | cons r t ih =>
      unfold get_default_redirect.loop1 getDefaultRedirect
      by_cases hs : (r.idx == rule.idx) = true
      · simp [hs, loopOutR]
      · simp only [hs, Bool.false_eq_true, if_false]
        by_cases hp : (providesDefaultsFor m.cfg r rule && r.suitableFor values (some method)) = true
        · simp only [hp, if_true, dictUpdate_eq]
          cases r.build m.cfg (Routing.dictUpdate values r.defaults) true with
          | error e => rfl
          | ok p => rfl
        · simp only [hp, Bool.false_eq_true, if_false]
          exact ih
  unfold get_default_redirect
  simp only [Bool.not_true, Bool.false_eq_true, if_false]
  have hc := h cands
  cases hx : get_default_redirect.loop1 cands (fun r => r.idx == rule.idx) (fun r => providesDefaultsFor m.cfg r rule)
      (fun r v me => r.suitableFor v (some me)) (fun r => r.defaults) (fun r v => r.build m.cfg v true)
      (fun path dom => makeRedirectUrl m.cfg.hostMatching a path qa (some dom)) rule method cands values with
  | ret r => rw [hx] at hc; exact hc
  | fall s => rw [hx] at hc; exact hc
  | brk b => rw [hx] at hc; exact hc

/-- without `redirect_defaults` the method's `assert` fails (it is only called under that flag) -/
theorem get_default_redirect_assert {R V : Type} (cands : List R) (sr pr : R → Bool) (su : R → List (Str × V) → Str → Bool)
    (df : R → List (Str × V)) (bd : R → List (Str × V) → Except String (Str × Str)) (ru : Str → Str → Str)
    (rule : R) (method : Str) (values : List (Str × V)) :
    get_default_redirect cands sr pr su df bd ru false rule method values () = .error "AssertionError" := rfl

end Wz.Props.C12T2
