/-
C17T3 — C17T continued: `parse_accept_header` (`http.py`) *as regenerated from the source* by
`tools/py2lean.py` (`Gen/PyFns_HttpOptions.lean`, rewritten on every check run): the `q` loop (lookup,
`options.pop("q")`, `strip`, `_q_value_re.fullmatch`, `float`, the range check, the reconstruction with
`dump_options_header`) on top of the translated `parse_list_header` / `parse_options_header` /
`dump_options_header`. It is polymorphic in the quality type; instantiated with (text, rounded sign &
magnitude) it equals C06/C07's `Http.parseAcceptHeader` exactly, instantiated with exact signed
decimals its loop body is C17's `Accept.acceptItem` and the whole function is `Accept.parseAcceptRaw`
wherever C17's own lexical layer agrees with C06's (`hlex`; it answers UNSUPPORTED for RFC 2231 `key*`
parameters). The float semantics stay a documented assumption (`oor_snap_imp`: what the float check
rejects, the exact check rejects too).
Property theorems only: the proofs live in Lemmas/PyFnsEq_AcceptHeader.lean.
-/
import WzVerif.Lemmas.PyFnsEq_AcceptHeader
namespace Wz.Props.C17T3
open Wz Wz.Pre Wz.PyFnsHttp Wz.Gen.PyFns_HttpOptions
open Wz.PyFnsEq.AcceptHeader

section generic
variable {κ : Type} (qle : κ → κ → Bool) (qzero qone : κ) (float_of : Str → κ)


/-- The whole loop: for every list of items that fit the fuel and every accumulator, it falls
through with `result` extended by the pairs of the items that were not skipped, in order - or leaves
the function with the first exception a callee raised. -/
theorem parse_accept_header_loop_eq (fuel : Nat) (items : List Str) : ∀ (result : List (Str × κ)),
    (∀ item ∈ items, item.length ≤ fuel) →
    parse_accept_header.loop1 fuel qle qzero qone float_of items result =
      match items.mapM (itemStep qle qzero qone float_of) with
      | .ok l => .fall (result ++ l.filterMap id)
      | .error e => .ret (.error e) := by
  apply PyFnsEq.AcceptHeader.loop1_eq <;> assumption

/-- `parse_accept_header(value, cls)` for a `str`, as translated from the current source (`if not
value: return cls(None)`, `parse_list_header` - itself translated -, the loop, `cls(result)`; the
translation returns the argument handed to `cls`), for every quality type: `None` for the empty
text, else the list of pairs `itemStep` yields for the items of the comma list. -/
theorem parse_accept_header_gen (fuel : Nat) (v : Str)
    (hf : ∀ item ∈ Http.parseListHeader v, item.length ≤ fuel) :
    parse_accept_header fuel qle qzero qone float_of (some v) () =
      if v.isEmpty then .ok none
      else match (Http.parseListHeader v).mapM (itemStep qle qzero qone float_of) with
        | .ok l => .ok (some (l.filterMap id))
        | .error e => .error e := by
  apply PyFnsEq.AcceptHeader.parse_accept_header_gen <;> assumption

/-- `parse_accept_header(None)` hands `None` to the class (an empty `Accept` object); no fuel is used. -/
theorem parse_accept_header_none (fuel : Nat) :
    parse_accept_header fuel qle qzero qone float_of none () = .ok none := by
  apply PyFnsEq.AcceptHeader.parse_accept_header_none <;> assumption

end generic

/-- `parse_accept_header` never raises: the same with the fuel bound `len(value) ≤ fuel`. -/
theorem parse_accept_header_total {κ : Type} (qle : κ → κ → Bool) (qzero qone : κ) (float_of : Str → κ)
    (fuel : Nat) (v : Str) (hf : v.length ≤ fuel) :
    ∃ r, parse_accept_header fuel qle qzero qone float_of (some v) () = .ok r := by
  apply PyFnsEq.AcceptHeader.parse_accept_header_total <;> assumption

/-- Float versus exact comparison: whatever the float range check rejects the exact decimal check
rejects too (rounding moves values *into* `[0, 1]`, never out of it). The converse fails exactly in
the two rounding bands. -/
theorem oor_snap_imp (x : SQ) (h : oor SQ.le sqZero sqOne (snap x) = true) :
    oor SQ.le sqZero sqOne x = true := by
  apply PyFnsEq.AcceptHeader.oor_snap_imp <;> assumption

/-- **Part 1**, with the fuel bound `len(value) ≤ fuel`. -/
theorem parse_accept_header_eq_http (fuel : Nat) (v : Str) (hf : v.length ≤ fuel) :
    (parse_accept_header fuel FQ.le fqZero fqOne floatOf (some v) ()).map (Option.map (List.map txt))
      = if v.isEmpty then .ok none else (Http.parseAcceptHeader v).map some := by
  apply PyFnsEq.AcceptHeader.parse_accept_header_eq_http <;> assumption

/-- C17's `Accept.parseQ` (regex + `float` + range check in one function) is C06's regex model
`Http.qParts?` - the `qValueReFullmatch` of the translation - followed by the exact range check. -/
theorem parseQ_eq (s : Str) : Accept.parseQ s = (Http.qParts? s).bind rangeQ := by
  apply PyFnsEq.AcceptHeader.parseQ_eq <;> assumption

/-- **Part 2, loop body.** With the options of the item already parsed - `parse_options_header(item)
= (i, o)` -, the translated loop body (`"q" in options`, `options.pop("q").strip()`,
`_q_value_re.fullmatch`, `float`, `q < 0 or q > 1`, `dump_options_header(item, options)` when
options remain) at the exact-decimal instantiation contributes exactly what C17's
`Accept.acceptItem i o` contributes: nothing for a malformed or out-of-range q, else the
reconstructed item with the quality as the exact decimal (sign forgotten: it only survives in front
of zero) - provided the two models of `dump_options_header` agree on the remaining options
(`dumpAgrees_of_keys`: they do when no key is empty). -/
theorem itemOf_eq_accept (i : Str) (o : List (Str × Str))
    (hd : o.filter (·.1 != Accept.qKey) ≠ [] → DumpAgrees i (o.filter (·.1 != Accept.qKey))) :
    (itemOf SQ.le sqZero sqOne exactOf i o).map (Option.map mag) = .ok (Accept.acceptItem i o) := by
  apply PyFnsEq.AcceptHeader.itemOf_eq_accept <;> assumption

/-- `dump_options_header(header, options)` for `str` values: C06's model (`Http.dumpOptionsHeader`,
proved equal to the translated source in `Props/C06T`) and C17's model
(`Accept.dumpOptionsHeader`) print the same text whenever no key is empty - which is what
`parse_options_header` guarantees (C07 `parseOptions_keys_nonempty`). `key*` parameters included. -/
theorem dumpAgrees_of_keys (i : Str) (o : List (Str × Str)) (hk : ∀ x ∈ o, x.1 ≠ []) : DumpAgrees i o := by
  apply PyFnsEq.AcceptHeader.dumpAgrees_of_keys <;> assumption

/-- **Part 2, one turn of the loop.** If `parse_options_header(item)` is `(i, o)` (C06's model =
the translated function; when C17's lexer `Accept.parseOptionsHeader item` gives the same pair this
is what C17 feeds to `acceptItem`), then the turn of the translated loop for this item, at the
exact-decimal instantiation, appends exactly the contribution `Accept.acceptItem i o` of C17's model
(nothing or one pair, the sign forgotten) and goes on. No hypothesis about the dumpers is needed:
the keys `parse_options_header` returns are never empty. -/
theorem parse_accept_header_loop_cons_accept (fuel : Nat) (item : Str) (rest : List Str) (result : List (Str × SQ))
    (i : Str) (o : List (Str × Str)) (hf : item.length ≤ fuel)
    (hp : Http.parseOptionsHeader item = .ok (i, o)) :
    ∃ c : Option (Str × SQ), c.map mag = Accept.acceptItem i o ∧
      parse_accept_header.loop1 fuel SQ.le sqZero sqOne exactOf (item :: rest) result =
        parse_accept_header.loop1 fuel SQ.le sqZero sqOne exactOf rest (result ++ c.toList) := by
  apply PyFnsEq.AcceptHeader.loop1_cons_accept <;> assumption

/-- **Part 2.** `parse_accept_header(value)`, as translated from the current source, at the
exact-decimal instantiation (`κ := SQ`: `float` and float comparison as exact signed decimal
arithmetic - the documented assumption of C17's model), for every header text with `len(value) ≤
fuel` on which C17's own lexical layer agrees with C06's (`Accept.lexHeader v` = C06's
`parse_list_header` followed by `parse_options_header` on every item; false e.g. for RFC 2231
`key*` parameters, where C17's lexer answers `UNSUPPORTED`): the items handed to the `Accept` class,
the sign of a `-0` forgotten, are exactly the list `Accept.parseAcceptRaw v` that C17's negotiation
theorems start from (the class sorts it: `Accept.parseAccept`). The empty text gives `cls(None)`. -/
theorem parse_accept_header_eq_raw (fuel : Nat) (v : Str) (hf : v.length ≤ fuel)
    (hlex : Accept.lexHeader v = (Http.parseListHeader v).mapM Http.parseOptionsHeader) :
    (parse_accept_header fuel SQ.le sqZero sqOne exactOf (some v) ()).map (Option.map (List.map mag))
      = if v.isEmpty then .ok none else (Accept.parseAcceptRaw v).map some := by
  apply PyFnsEq.AcceptHeader.parse_accept_header_eq_raw <;> assumption



end Wz.Props.C17T3
