/-
C20T — `_strip_port` and `host_is_trusted` of `werkzeug.sansio.utils` *as regenerated from the
source* by `tools/py2lean.py` (`Gen/PyFns_Host.lean`, rewritten on every check run) are equal, for
all inputs, to the hand-written model functions of `Model/Debugger.lean` that the C20 theorems are
about. The IDNA codec stays an opaque function parameter on both sides.
Property theorems only (helper lemmas live in Lemmas/PyFns_Host.lean, Lemmas/PyFns_Prelude.lean).
-/
import WzVerif.Gen.PyFns_Host
import WzVerif.Lemmas.PyFns_Host
import WzVerif.Lemmas.Debugger
namespace Wz.Props.C20T
open Wz Wz.Pre Wz.PyFnsHost

/-- `_strip_port`, as translated from the current source (`startswith` / `find` / two slices /
`partition`), returns exactly what the model's `stripPort` returns, for every host text. -/
theorem strip_port_eq (host : List Char) :
    Gen.PyFns_Host.strip_port host = Dbg.stripPort host := by
  cases host with
  | nil =>
    simp [Gen.PyFns_Host.strip_port, startswith_singleton_nil, partition_singleton_fst,
      Dbg.stripPort, Dbg.beforeColon]
  | cons x rest =>
    by_cases hx : x = '['
    · subst hx
      rcases split_at_first ']' rest with ⟨h1, _, h3⟩ | ⟨pre, post, h1, h2, h3, h4⟩
      · -- no closing bracket: `find` answers -1
        have hm : ']' ∉ '[' :: rest := by simp [h1]
        simp [Gen.PyFns_Host.strip_port, startswith_singleton_cons,
          find_singleton_not_mem _ _ hm, Dbg.stripPort, h3]
      · -- rest = pre ++ ']' :: post: `end` = |pre| + 1
        have hf : find ('[' :: rest) [']'] = ((pre.length + 1 : Nat) : Int) := by
          have := find_singleton_append ']' ('[' :: pre) post (by simp [h2])
          rw [h1]; simpa using this
        have e1 : (((pre.length + 1 : Nat) : Int) + 1) = ((pre.length + 2 : Nat) : Int) := by omega
        have e2 : (((pre.length + 1 : Nat) : Int) + 2) = ((pre.length + 3 : Nat) : Int) := by omega
        have hs1 : slice ('[' :: rest) (some ((pre.length + 2 : Nat) : Int))
            (some ((pre.length + 3 : Nat) : Int)) = post.take 1 := by
          rw [slice_nat, h1]
          simp [List.take_append, List.drop_append]
        have hs2 : slice ('[' :: rest) none (some ((pre.length + 2 : Nat) : Int))
            = '[' :: pre ++ [']'] := by
          rw [slice_none_nat, h1]
          have : List.take (pre.length + 1) pre = pre := List.take_of_length_le (by omega)
          simp [List.take_append, this]
        have hne : ¬ ((pre.length : Int) + 1 = -1) := by omega
        simp only [Gen.PyFns_Host.strip_port, startswith_singleton_cons, hf, e1, e2, hs1, hs2,
          Dbg.stripPort, h3, h4]
        cases post with
        | nil => simp [h1]
        | cons y post' =>
          by_cases hy : y = ':'
          · subst hy; simp [hne]
          · simp [hy]
    · have hx' : ('[' == x) = false := by simpa using fun h => hx h.symm
      simp [Gen.PyFns_Host.strip_port, startswith_singleton_cons, hx', partition_singleton_fst,
        stripPort_other x rest hx, Dbg.beforeColon]

/-- The `for ref in trusted_list` loop of `host_is_trusted`, as translated from the current source
(dot-prefix handling, `try … except UnicodeError: return False`, the exact / suffix comparison and
the early `return True`), answers what the model's `matchRefs` answers, for every IDNA function,
host name and trusted list (`loopVal`: falling out of the loop means `False`). -/
theorem host_is_trusted_loop_eq (idna : Dbg.Idna) (hn : List Char) (refs : List (List Char)) :
    loopVal (Gen.PyFns_Host.host_is_trusted.loop1 idna hn refs) = Dbg.matchRefs idna hn refs := by
  induction refs with
  | nil => rfl
  | cons ref rest ih =>
    have hslice : slice ref (some 1) none = ref.drop 1 := slice_nat_none ref 1
    unfold Gen.PyFns_Host.host_is_trusted.loop1 Dbg.matchRefs
    cases ref with
    | nil =>
      simp only [startswith_singleton_nil, refParts_nil, strip_port_eq]
      cases idna (Dbg.stripPort []) <;> simp [loopVal_ite, ih, Dbg.endsWith, endswith]
    | cons x t =>
      by_cases hx : x = '.'
      · subst hx
        simp only [startswith_singleton_cons, refParts_dot, strip_port_eq, hslice,
          List.drop_succ_cons, List.drop_zero]
        cases idna (Dbg.stripPort t) <;> simp [loopVal_ite, ih, Dbg.endsWith, endswith]
      · have hx' : ('.' == x) = false := by simpa using fun h => hx h.symm
        simp only [startswith_singleton_cons, hx', refParts_other x t hx, strip_port_eq]
        cases idna (Dbg.stripPort (x :: t)) <;> simp [loopVal_ite, ih, Dbg.endsWith, endswith]

/-- `host_is_trusted`, as translated from the current source (truthiness test, the
`try … except UnicodeError: return False` around the host's IDNA encoding, the loop over the trusted
list), computes exactly the model's `hostIsTrusted`, for every IDNA function, every Host value
(including `None` and `""`) and every trusted list. -/
theorem host_is_trusted_eq (idna : Dbg.Idna) (host : Option (List Char))
    (trusted : List (List Char)) :
    Gen.PyFns_Host.host_is_trusted idna host trusted = Dbg.hostIsTrusted idna host trusted := by
  unfold Gen.PyFns_Host.host_is_trusted Dbg.hostIsTrusted
  cases host with
  | none => rfl
  | some h =>
    cases h with
    | nil => rfl
    | cons x t =>
      simp only [strip_port_eq, List.isEmpty_cons]
      cases idna (Dbg.stripPort (x :: t)) with
      | error e => simp
      | ok hn =>
        have := host_is_trusted_loop_eq idna hn trusted
        simp only [Bool.false_eq_true, ↓reduceIte]
        cases hl : Gen.PyFns_Host.host_is_trusted.loop1 idna hn trusted with
        | ret r => rw [hl] at this; simpa using this
        | fall u => cases u; rw [hl] at this; simpa using this

/-- Soundness of `host_is_trusted` (C20 `host_trusted_sound`) restated on the translated
definition: whatever the regenerated code accepts is a non-empty Host whose port-stripped name
encodes and matches a listed entry exactly or as a true subdomain of a dot-prefixed entry. -/
theorem host_trusted_sound_translated (idna : Dbg.Idna) (host : Option (List Char))
    (trusted : List (List Char))
    (h : Gen.PyFns_Host.host_is_trusted idna host trusted = true) :
    ∃ hst hn, host = some hst ∧ hst ≠ [] ∧
      idna (Gen.PyFns_Host.strip_port hst) = .ok hn ∧ ∃ ref ∈ trusted, Dbg.RefMatches idna hn ref := by
  rw [host_is_trusted_eq] at h
  unfold Dbg.hostIsTrusted at h
  split at h
  · cases h
  · cases h
  · rename_i hst hne
    cases hi : idna (Dbg.stripPort hst) with
    | error e => simp [hi] at h
    | ok hn =>
      simp only [hi] at h
      exact ⟨hst, hn, rfl, fun he => hne (by rw [he]), by rw [strip_port_eq]; exact hi,
        Dbg.matchRefs_sound idna hn trusted h⟩

/-- `get_host(scheme, host_header, server, trusted_hosts)`, as translated from the current source
(Host header or `server` with IPv6 bracketing and port, default-port stripping for http/ws and
https/wss, the `host_is_trusted` check raising `SecurityError`), returns exactly the model's
`getHost` - in particular `host[0]` never raises - for every IDNA function, scheme, Host header,
server address (port a natural number or `None`) and trusted list (or `None`). -/
theorem get_host_eq (idna : Dbg.Idna) (scheme : List Char) (hostHeader : Option (List Char))
    (server : Option (List Char × Option Nat)) (trusted : Option (List (List Char))) :
    Gen.PyFns_Host.get_host idna scheme hostHeader
        (server.map fun np => (np.1, np.2.map Int.ofNat)) trusted
      = Dbg.getHost idna scheme hostHeader server trusted := by
  unfold Gen.PyFns_Host.get_host
  cases trusted with
  | none =>
    rw [getHost_none]
    simp only [tail_none]
    cases hostHeader with
    | some h => rfl
    | none =>
      cases server with
      | none => rfl
      | some np =>
        obtain ⟨name, port⟩ := np
        simp only [Option.map_some, hostText, contains_singleton]
        cases name with
        | nil => cases port <;> simp [strOfInt_nat]
        | cons x t =>
          rw [getItemStr_zero_cons]
          by_cases hm : ':' ∈ x :: t <;> by_cases hx : x = '[' <;> cases port <;>
            simp_all [strOfInt_nat]
  | some tl =>
    rw [getHost_some]
    simp only [host_is_trusted_eq, tail_some]
    cases hostHeader with
    | some h => rfl
    | none =>
      cases server with
      | none => rfl
      | some np =>
        obtain ⟨name, port⟩ := np
        simp only [Option.map_some, hostText, contains_singleton]
        cases name with
        | nil => cases port <;> simp [strOfInt_nat]
        | cons x t =>
          rw [getItemStr_zero_cons]
          by_cases hm : ':' ∈ x :: t <;> by_cases hx : x = '[' <;> cases port <;>
            simp_all [strOfInt_nat]

example : Gen.PyFns_Host.host_is_trusted Dbg.asciiIdna (some "a.example.org:80".toList)
    [".example.org".toList] = true := by decide

end Wz.Props.C20T
