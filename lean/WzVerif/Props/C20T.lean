/-
C20T — `_strip_port` and `host_is_trusted` of `werkzeug.sansio.utils` *as regenerated from the
source* by `tools/py2lean.py` (`Gen/PyFns_Host.lean`, rewritten on every check run) are equal, for
all inputs, to the hand-written model functions of `Model/Debugger.lean` that the C20 theorems are
about. The IDNA codec stays an opaque function parameter on both sides.
Property theorems only (helper lemmas live in Lemmas/PyFns_Host.lean).
-/
import WzVerif.Lemmas.PyFns_Host
import WzVerif.Props.C20
namespace Wz.Props.C20T
open Wz

/-- `_strip_port`, as translated from the current source (`startswith` / `find` / two slices /
`partition`), returns exactly what the model's `stripPort` returns, for every host text. -/
theorem strip_port_eq (host : List Char) :
    Gen.PyFns_Host.strip_port host = Dbg.stripPort host :=
  PyFnsHost.strip_port_eq host

/-- `host_is_trusted`, as translated from the current source (truthiness test, the two
`try … except UnicodeError: return False` blocks, the loop over the trusted list with its
dot-prefix handling and early returns), computes exactly the model's `hostIsTrusted`, for every
IDNA function, every Host value (including `None` and `""`) and every trusted list. -/
theorem host_is_trusted_eq (idna : Dbg.Idna) (host : Option (List Char))
    (trusted : List (List Char)) :
    Gen.PyFns_Host.host_is_trusted idna host trusted = Dbg.hostIsTrusted idna host trusted :=
  PyFnsHost.host_is_trusted_eq idna host trusted

/-- Soundness of `host_is_trusted` (C20 `host_trusted_sound`) restated on the translated
definition: whatever the regenerated code accepts is a non-empty Host whose port-stripped name
encodes and matches a listed entry exactly or as a true subdomain of a dot-prefixed entry. -/
theorem host_trusted_sound_translated (idna : Dbg.Idna) (host : Option (List Char))
    (trusted : List (List Char))
    (h : Gen.PyFns_Host.host_is_trusted idna host trusted = true) :
    ∃ hst hn, host = some hst ∧ hst ≠ [] ∧
      idna (Gen.PyFns_Host.strip_port hst) = .ok hn ∧ ∃ ref ∈ trusted, Dbg.RefMatches idna hn ref := by
  rw [host_is_trusted_eq] at h
  obtain ⟨hst, hn, h1, h2, h3, h4⟩ := Wz.Props.C20.host_trusted_sound idna host trusted h
  exact ⟨hst, hn, h1, h2, by rw [strip_port_eq]; exact h3, h4⟩

example : Gen.PyFns_Host.host_is_trusted Dbg.asciiIdna (some "a.example.org:80".toList)
    [".example.org".toList] = true := by decide

end Wz.Props.C20T
