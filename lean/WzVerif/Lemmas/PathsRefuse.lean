/-
Exact characterisation of what `safe_join` refuses and what it returns otherwise
(`checkComp` / `checkAll` / `safeJoinWith` of Model/Paths.lean).
-/
import WzVerif.Lemmas.Paths
namespace Wz.Paths

/-- the component is refused by `safe_join`: it is not the empty string and it is absolute, or its
normal form climbs (first segment `..`), or its normal form contains an alternative separator -/
def Refused (alts : List Char) (f : Str) : Prop :=
  f ≠ [] ∧ (isabs f = true ∨ (normSegs f).head? = some dotdot ∨ ∃ a ∈ alts, a ∈ normpath f)

instance (alts : List Char) (f : Str) : Decidable (Refused alts f) := by
  unfold Refused; infer_instance

/-- what `safe_join` appends for an accepted component -/
def normOrEmpty (f : Str) : Str := if f = [] then f else normpath f

theorem isabs_normpath (f : Str) : isabs (normpath f) = isabs f := by
  rw [Bool.eq_iff_iff, isabs_iff, isabs_iff, initialSlashes_normpath]

/-- for a relative non-empty path: the text of the normal form is `..` or starts with `../` exactly
when its first segment is `..` -/
theorem climbs_iff {f : Str} (hf : f ≠ []) (hrel : isabs f = false) :
    (normpath f = dotdot ∨ (['.', '.', '/'] : Str).isPrefixOf (normpath f) = true) ↔
      (normSegs f).head? = some dotdot := by
  have h0 : initialSlashes f = 0 := by
    by_cases h : initialSlashes f = 0
    · exact h
    · have := (isabs_iff f).mpr h; rw [hrel] at this; cases this
  have hseg := seg_of_normSegs f
  have hnp : normpath f = if joinSep (normSegs f) = [] then dot else joinSep (normSegs f) := by
    unfold normpath
    rw [if_neg hf]
    simp [h0]
  cases hs : normSegs f with
  | nil =>
    rw [hs] at hnp
    simp only [joinSep, if_true] at hnp
    rw [hnp]
    simp [dot, dotdot]
  | cons c t =>
    rw [hs] at hseg
    obtain ⟨hc1, _, hc3⟩ := hseg c (by simp)
    have hne : joinSep (c :: t) ≠ [] := by
      cases c with
      | nil => exact absurd rfl hc1
      | cons x y => cases t <;> simp [joinSep]
    rw [hs, if_neg hne] at hnp
    rw [hnp]
    simp only [List.head?_cons, Option.some.injEq]
    constructor
    · intro h
      cases t with
      | nil =>
        simp only [joinSep] at h
        rcases h with h | h
        · exact h
        · exfalso
          match c, h with
          | [x], h => simp [List.isPrefixOf] at h
          | [x, y], h => simp [List.isPrefixOf] at h
          | x :: y :: z :: w, h =>
            simp [List.isPrefixOf] at h
            apply hc3; rw [← h.2.2]; simp [sep]
      | cons d t' =>
        simp only [joinSep] at h
        rcases h with h | h
        · exfalso
          have : sep ∈ c ++ sep :: joinSep (d :: t') := by simp
          rw [h] at this
          simp [dotdot, sep] at this
        · match c, hc1, hc3, h with
          | [x], _, hc3, h =>
            exfalso
            simp [List.isPrefixOf, sep] at h
          | [x, y], _, _, h =>
            simp [List.isPrefixOf] at h
            obtain ⟨rfl, rfl, _⟩ := h
            rfl
          | x :: y :: z :: w, _, hc3, h =>
            exfalso
            simp [List.isPrefixOf] at h
            apply hc3; rw [← h.2.2]; simp [sep]
    · intro h
      subst h
      cases t with
      | nil => left; simp [joinSep]
      | cons d t' => right; simp [joinSep, dotdot, sep, List.isPrefixOf]

theorem any_hasChar_iff (alts : List Char) (g : Str) :
    alts.any (hasChar · g) = true ↔ ∃ a ∈ alts, a ∈ g := by
  simp [List.any_eq_true, hasChar]

/-- **what `safe_join` refuses, per component** -/
theorem checkComp_none_iff (alts : List Char) (f : Str) :
    checkComp alts f = none ↔ Refused alts f := by
  unfold Refused
  by_cases hf : f = []
  · subst hf
    constructor
    · intro h; exfalso; revert h
      unfold checkComp
      simp [hasChar, isabs, dotdot]
    · intro h; exact absurd rfl h.1
  · have hcond : checkComp alts f = none ↔
        (alts.any (hasChar · (normpath f)) = true ∨ isabs (normpath f) = true ∨
          (normpath f = dotdot ∨ (['.', '.', '/'] : Str).isPrefixOf (normpath f) = true)) := by
      unfold checkComp
      simp only [hf, if_false]
      have e : ((normpath f).head? = some sep) ↔ isabs (normpath f) = true := by simp [isabs]
      constructor
      · intro h
        split at h
        · rename_i hc
          simp only [Bool.or_eq_true, decide_eq_true_eq] at hc
          rcases hc with (((h1 | h2) | h3) | h4) | h5
          · exact Or.inl h1
          · exact Or.inr (Or.inl h2)
          · exact Or.inr (Or.inl (e.mp h3))
          · exact Or.inr (Or.inr (Or.inl h4))
          · exact Or.inr (Or.inr (Or.inr h5))
        · cases h
      · intro h
        rw [if_pos]
        simp only [Bool.or_eq_true, decide_eq_true_eq]
        rcases h with h | h | h | h
        · exact Or.inl (Or.inl (Or.inl (Or.inl h)))
        · exact Or.inl (Or.inl (Or.inl (Or.inr h)))
        · exact Or.inl (Or.inr h)
        · exact Or.inr h
    rw [hcond, isabs_normpath, any_hasChar_iff]
    constructor
    · intro h
      refine ⟨hf, ?_⟩
      rcases h with h | h | h
      · exact Or.inr (Or.inr h)
      · exact Or.inl h
      · cases hab : isabs f with
        | true => exact Or.inl rfl
        | false => exact Or.inr (Or.inl ((climbs_iff hf hab).mp h))
    · rintro ⟨_, h | h | h⟩
      · exact Or.inr (Or.inl h)
      · cases hab : isabs f with
        | true => exact Or.inr (Or.inl rfl)
        | false => exact Or.inr (Or.inr ((climbs_iff hf hab).mpr h))
      · exact Or.inl h

theorem checkComp_cases (alts : List Char) (f : Str) :
    checkComp alts f = none ∨ checkComp alts f = some (normOrEmpty f) := by
  unfold checkComp normOrEmpty
  dsimp only
  generalize (if f = [] then f else normpath f) = g
  split
  · left; rfl
  · right; rfl

theorem checkComp_some {alts : List Char} {f : Str} (h : ¬ Refused alts f) :
    checkComp alts f = some (normOrEmpty f) := by
  rcases checkComp_cases alts f with hc | hc
  · exact absurd ((checkComp_none_iff alts f).mp hc) h
  · exact hc

theorem checkAll_none_iff (alts : List Char) (ps : List Str) :
    checkAll alts ps = none ↔ ∃ f ∈ ps, Refused alts f := by
  induction ps with
  | nil => simp [checkAll]
  | cons g t ih =>
    simp only [checkAll, List.mem_cons, exists_eq_or_imp]
    cases hg : checkComp alts g with
    | none => simp [(checkComp_none_iff alts g).mp hg]
    | some g' =>
      have : ¬ Refused alts g := by
        intro h; rw [(checkComp_none_iff alts g).mpr h] at hg; cases hg
      simp only [Option.map_eq_none_iff, ih, this, false_or]

theorem checkAll_some {alts : List Char} {ps : List Str} (h : ∀ f ∈ ps, ¬ Refused alts f) :
    checkAll alts ps = some (ps.map normOrEmpty) := by
  induction ps with
  | nil => rfl
  | cons g t ih =>
    simp only [checkAll, checkComp_some (h g (by simp)),
      ih (fun f hf => h f (List.mem_cons_of_mem _ hf)), Option.map_some, List.map_cons]

end Wz.Paths
