/-
Helper lemmas for Props/C09T (translated `get_content_length` / `_plain_int` against the
hand-written model of `Model/LimitedStream.lean`): facts that do not mention the generated
definitions.
-/
import WzVerif.Model.LimitedStream
import WzVerif.Util.PyPrelude
namespace Wz.PyFnsLength
open Wz Wz.Pre

theorem digitsVal_eq (ds : Str) : LS.digitsVal ds = Pre.digitsVal ds := rfl
theorem isDigit_eq : LS.isAsciiDigit = Pre.isDigitA := rfl

/-- the model's `plainInt` (an `Option`) is the prelude's `_plain_int` with the error forgotten -/
theorem ls_plainInt_eq (v : Str) : LS.plainInt v = (Pre.plainInt v).toOption := by
  unfold LS.plainInt Pre.plainInt Pre.isPlainIntText Pre.plainIntVal
  simp only [isDigit_eq, digitsVal_eq]
  generalize Py.strip v = s
  match s with
  | [] => simp [Except.toOption]
  | c :: t =>
    by_cases hc : c = '-'
    · subst hc
      by_cases h : (!t.isEmpty && t.all isDigitA) = true <;> simp [h, Except.toOption]
    · have hc' : (c == '-') = false := by simpa using hc
      by_cases h : (isDigitA c && t.all isDigitA) = true <;>
        simp [hc, hc', h, Except.toOption]

end Wz.PyFnsLength
