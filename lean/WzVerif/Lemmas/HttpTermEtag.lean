import WzVerif.Lemmas.HttpTermOpt
set_option linter.unusedSimpArgs false
namespace Wz.Http
open Wz

/-! ### termination: the `while pos < end` loop of `parse_etags` advances (header text has no LF) -/

theorem dropWhile_subset (p : Char → Bool) (l : Str) : ∀ c ∈ l.dropWhile p, c ∈ l :=
  fun _ hc => (List.dropWhile_sublist p).subset hc

/-- the terminator consumes a comma, or the text ends -/
theorem etagTerm_spec (r r' : Str) (hlf : '\n' ∉ r) (h : etagTerm? r = some r') :
    (∀ c ∈ r', c ∈ r) ∧ (r'.length < r.length ∨ (r = [] ∧ r' = [])) := by
  unfold etagTerm? at h
  split at h
  · next r2 heq =>
    simp only [Option.some.injEq] at h
    have h1 : (',' :: r2).length ≤ r.length := by rw [← heq]; exact length_dropWhile_le' _ _
    have h2 : r'.length ≤ r2.length := by rw [← h]; exact length_dropWhile_le' _ _
    constructor
    · intro c hc
      rw [← h] at hc
      have := dropWhile_subset _ _ c hc
      exact dropWhile_subset _ r c (by rw [heq]; simp [this])
    · left; simp at h1; omega
  · split at h
    · next he =>
      simp only [Option.some.injEq] at h
      have : r = [] := by simpa using he
      exact ⟨by rw [← h]; simp, Or.inr ⟨this, h.symm⟩⟩
    · split at h
      · next he =>
        exfalso
        have : r = ['\n'] := by simpa using he
        rw [this] at hlf; simp at hlf
      · simp at h

theorem etagAlt1_spec (body acc b rest : Str) (hlf : '\n' ∉ body) (h : etagAlt1 body acc = some (b, rest)) :
    (∀ c ∈ rest, c ∈ body) ∧ rest.length < body.length := by
  induction body generalizing acc with
  | nil => simp [etagAlt1] at h
  | cons c t ih =>
    have hlft : '\n' ∉ t := fun hm => hlf (by simp [hm])
    rw [etagAlt1] at h
    split at h
    · split at h
      · next rest0 ht =>
        simp only [Option.some.injEq, Prod.mk.injEq] at h
        obtain ⟨hs, hl⟩ := etagTerm_spec t rest0 hlft ht
        rw [← h.2]
        refine ⟨fun x hx => by simp [hs x hx], ?_⟩
        rcases hl with hl | ⟨_, hl⟩
        · simp; omega
        · rw [hl]; simp
      · have := ih _ hlft h
        exact ⟨fun x hx => by simp [this.1 x hx], by simp; omega⟩
    · split at h
      · have := ih _ hlft h
        exact ⟨fun x hx => by simp [this.1 x hx], by simp; omega⟩
      · simp at h

theorem etagAlt2_spec (q acc b rest : Str) (hlf : '\n' ∉ q) (h : etagAlt2 q acc = some (b, rest)) :
    (∀ c ∈ rest, c ∈ q) ∧ (rest.length < q.length ∨ (q = [] ∧ rest = [])) := by
  induction q generalizing acc with
  | nil =>
    unfold etagAlt2 at h
    simp only [Option.some.injEq, Prod.mk.injEq] at h
    exact ⟨by rw [← h.2]; simp, Or.inr ⟨rfl, h.2.symm⟩⟩
  | cons c t ih =>
    have hlft : '\n' ∉ t := fun hm => hlf (by simp [hm])
    unfold etagAlt2 at h
    split at h
    · next rest0 ht =>
      simp only [Option.some.injEq, Prod.mk.injEq] at h
      obtain ⟨hs, hl⟩ := etagTerm_spec (c :: t) rest0 hlf ht
      rw [← h.2]
      refine ⟨hs, ?_⟩
      rcases hl with hl | ⟨hl, _⟩
      · exact Or.inl hl
      · simp at hl
    · split at h
      · have := ih _ hlft h
        refine ⟨fun x hx => by simp [this.1 x hx], Or.inl ?_⟩
        rcases this.2 with h2 | ⟨_, h2⟩
        · simp; omega
        · rw [h2]; simp
      · simp at h

theorem etagBody_spec (q rest : Str) (a b : Option Str) (hlf : '\n' ∉ q) (h : etagBody q = some (a, b, rest)) :
    (∀ c ∈ rest, c ∈ q) ∧ (rest.length < q.length ∨ (q = [] ∧ rest = [])) := by
  unfold etagBody at h
  simp only at h
  split at h
  · next x hx =>
    split at hx
    · next body =>
      simp only [Option.some.injEq] at h
      cases ha : etagAlt1 body [] with
      | none => rw [ha] at hx; simp at hx
      | some br =>
        obtain ⟨b0, r0⟩ := br
        rw [ha] at hx
        simp only [Option.map_some, Option.some.injEq] at hx
        have hlfb : '\n' ∉ body := fun hm => hlf (by simp [hm])
        have := etagAlt1_spec body [] b0 r0 hlfb ha
        have hr : rest = r0 := by rw [← hx] at h; simp at h; exact h.2.2.symm
        rw [hr]
        exact ⟨fun c hc => by simp [this.1 c hc], Or.inl (by simp; omega)⟩
    · simp at hx
  · cases ha : etagAlt2 q [] with
    | none => rw [ha] at h; simp at h
    | some br =>
      obtain ⟨b0, r0⟩ := br
      rw [ha] at h
      simp only [Option.map_some, Option.some.injEq, Prod.mk.injEq] at h
      rw [← h.2.2]
      exact etagAlt2_spec q [] b0 r0 hlf ha

/-- every match on non-empty LF-free text ends strictly further right -/
theorem etagMatch_shrinks (s rest : Str) (w : Bool) (a b : Option Str) (hne : s ≠ []) (hlf : '\n' ∉ s)
    (h : etagMatch s = some (w, a, b, rest)) : (∀ c ∈ rest, c ∈ s) ∧ rest.length < s.length := by
  have hplain : ∀ a b, etagBody s = some (a, b, rest) → (∀ c ∈ rest, c ∈ s) ∧ rest.length < s.length := by
    intro a b hb
    obtain ⟨h1, h2⟩ := etagBody_spec s rest a b hlf hb
    refine ⟨h1, ?_⟩
    rcases h2 with h2 | ⟨h2, _⟩
    · exact h2
    · exact absurd h2 hne
  have hmap : ∀ {x : Option (Option Str × Option Str × Str)},
      (x.map fun (a, b, r) => (false, a, b, r)) = some (w, a, b, rest) → x = some (a, b, rest) := by
    intro x hx
    cases x with
    | none => simp at hx
    | some y => obtain ⟨a', b', r'⟩ := y; simp at hx; simp [hx]
  unfold etagMatch at h
  simp only at h
  split at h
  · next w0 q =>
    split at h
    · split at h
      · next a' b' r' hq =>
        simp only [Option.some.injEq, Prod.mk.injEq] at h
        have hlfq : '\n' ∉ q := fun hm => hlf (by simp [hm])
        obtain ⟨h1, h2⟩ := etagBody_spec q r' a' b' hlfq hq
        rw [← h.2.2.2]
        refine ⟨fun c hc => by simp [h1 c hc], ?_⟩
        rcases h2 with h2 | ⟨_, h2⟩
        · simp; omega
        · rw [h2]; simp
      · exact hplain a b (hmap h)
    · exact hplain a b (hmap h)
  · exact hplain a b (hmap h)

/-- the fuel handed to the loop (`len(value) + 1`) is never exhausted on header text (no LF): the
Python loop terminates after at most `len(value)` iterations -/
theorem parseEtagsGo_fuel_irrelevant (f1 f2 : Nat) (s : Str) (st wk : List (Option Str))
    (hlf : '\n' ∉ s) (h1 : s.length < f1) (h2 : s.length < f2) :
    parseEtagsGo f1 s st wk = parseEtagsGo f2 s st wk := by
  induction f1 generalizing f2 s st wk with
  | zero => omega
  | succ f ih =>
    cases f2 with
    | zero => omega
    | succ g =>
      rw [parseEtagsGo, parseEtagsGo]
      split
      · rfl
      · next hne =>
        have hne' : s ≠ [] := by intro e; rw [e] at hne; simp at hne
        split
        · rfl
        · next w a b rest hm =>
          obtain ⟨hs, hl⟩ := etagMatch_shrinks s rest w a b hne' hlf hm
          have hlf' : '\n' ∉ rest := fun hc => hlf (hs _ hc)
          split
          · rfl
          · simp only []
            split
            · exact ih g rest _ _ hlf' (by omega) (by omega)
            · exact ih g rest _ _ hlf' (by omega) (by omega)

end Wz.Http
