import WzVerif.Lemmas.Http
set_option linter.unusedSimpArgs false
namespace Wz.Http
open Wz

/-! ### base64 -/

theorem b64_table : ∀ n, n < 64 → b64Val? (b64Char n) = some n ∧ b64Char n ≠ '=' ∧ (b64Char n).toNat < 128
    ∧ Py.isSpace (b64Char n) = false := by
  decide +kernel

theorem b64Go0 (n : Nat) (hn : n < 64) (t : Str) (left pads : Nat) (out : Bytes) :
    b64DecodeGo (b64Char n :: t) 0 left pads out = b64DecodeGo t 1 n 0 out := by
  obtain ⟨h1, h2, _, _⟩ := b64_table n hn
  rw [b64DecodeGo]; simp only [beq_iff_eq, h2, if_false, h1]

theorem b64Go1 (n : Nat) (hn : n < 64) (t : Str) (left pads : Nat) (out : Bytes) :
    b64DecodeGo (b64Char n :: t) 1 left pads out
      = b64DecodeGo t 2 (n % 16) 0 (UInt8.ofNat (left * 4 + n / 16) :: out) := by
  obtain ⟨h1, h2, _, _⟩ := b64_table n hn
  rw [b64DecodeGo]; simp only [beq_iff_eq, h2, if_false, h1]

theorem b64Go2 (n : Nat) (hn : n < 64) (t : Str) (left pads : Nat) (out : Bytes) :
    b64DecodeGo (b64Char n :: t) 2 left pads out
      = b64DecodeGo t 3 (n % 4) 0 (UInt8.ofNat (left * 16 + n / 4) :: out) := by
  obtain ⟨h1, h2, _, _⟩ := b64_table n hn
  rw [b64DecodeGo]; simp only [beq_iff_eq, h2, if_false, h1]

theorem b64Go3 (n : Nat) (hn : n < 64) (t : Str) (left pads : Nat) (out : Bytes) :
    b64DecodeGo (b64Char n :: t) 3 left pads out
      = b64DecodeGo t 0 0 0 (UInt8.ofNat (left * 64 + n) :: out) := by
  obtain ⟨h1, h2, _, _⟩ := b64_table n hn
  rw [b64DecodeGo]; simp only [beq_iff_eq, h2, if_false, h1]

theorem b64_roundtrip_go (bs : Bytes) (out : Bytes) :
    b64DecodeGo (b64Encode bs) 0 0 0 out = .ok (out.reverse ++ bs) := by
  fun_induction b64Encode bs generalizing out with
  | case1 a b c t ih =>
    have ha := a.toNat_lt
    have hb := b.toNat_lt
    have hc := c.toNat_lt
    rw [b64Go0 _ (by omega), b64Go1 _ (by omega), b64Go2 _ (by omega), b64Go3 _ (by omega)]
    have e1 : a.toNat / 4 * 4 + (a.toNat % 4 * 16 + b.toNat / 16) / 16 = a.toNat := by omega
    have e2 : (a.toNat % 4 * 16 + b.toNat / 16) % 16 * 16 + (b.toNat % 16 * 4 + c.toNat / 64) / 4 = b.toNat := by omega
    have e3 : (b.toNat % 16 * 4 + c.toNat / 64) % 4 * 64 + c.toNat % 64 = c.toNat := by omega
    rw [e1, e2, e3, ih]
    simp
  | case2 a b =>
    have ha := a.toNat_lt
    have hb := b.toNat_lt
    rw [b64Go0 _ (by omega), b64Go1 _ (by omega), b64Go2 _ (by omega)]
    have e1 : a.toNat / 4 * 4 + (a.toNat % 4 * 16 + b.toNat / 16) / 16 = a.toNat := by omega
    have e2 : (a.toNat % 4 * 16 + b.toNat / 16) % 16 * 16 + (b.toNat % 16 * 4) / 4 = b.toNat := by omega
    rw [e1, e2]
    simp [b64DecodeGo]
  | case3 a =>
    have ha := a.toNat_lt
    rw [b64Go0 _ (by omega), b64Go1 _ (by omega)]
    have e1 : a.toNat / 4 * 4 + (a.toNat % 4 * 16) / 16 = a.toNat := by omega
    rw [e1]
    simp [b64DecodeGo]
  | case4 => simp [b64DecodeGo]

/-- every character `b64encode` writes is ASCII and not white space -/
theorem b64Encode_chars (bs : Bytes) : ∀ c ∈ b64Encode bs, c.toNat < 128 ∧ Py.isSpace c = false := by
  fun_induction b64Encode bs with
  | case1 a b c t ih =>
    have ha := a.toNat_lt
    have hb := b.toNat_lt
    have hc := c.toNat_lt
    intro x hx
    simp only [List.mem_cons] at hx
    rcases hx with rfl | rfl | rfl | rfl | hx
    · exact ⟨(b64_table _ (by omega)).2.2.1, (b64_table _ (by omega)).2.2.2⟩
    · exact ⟨(b64_table _ (by omega)).2.2.1, (b64_table _ (by omega)).2.2.2⟩
    · exact ⟨(b64_table _ (by omega)).2.2.1, (b64_table _ (by omega)).2.2.2⟩
    · exact ⟨(b64_table _ (by omega)).2.2.1, (b64_table _ (by omega)).2.2.2⟩
    · exact ih x hx
  | case2 a b =>
    have ha := a.toNat_lt
    have hb := b.toNat_lt
    intro x hx
    simp only [List.mem_cons, List.not_mem_nil, or_false] at hx
    rcases hx with rfl | rfl | rfl | rfl
    · exact ⟨(b64_table _ (by omega)).2.2.1, (b64_table _ (by omega)).2.2.2⟩
    · exact ⟨(b64_table _ (by omega)).2.2.1, (b64_table _ (by omega)).2.2.2⟩
    · exact ⟨(b64_table _ (by omega)).2.2.1, (b64_table _ (by omega)).2.2.2⟩
    · decide
  | case3 a =>
    have ha := a.toNat_lt
    intro x hx
    simp only [List.mem_cons, List.not_mem_nil, or_false] at hx
    rcases hx with rfl | rfl | rfl | rfl
    · exact ⟨(b64_table _ (by omega)).2.2.1, (b64_table _ (by omega)).2.2.2⟩
    · exact ⟨(b64_table _ (by omega)).2.2.1, (b64_table _ (by omega)).2.2.2⟩
    · decide
    · decide
  | case4 => simp

theorem b64_roundtrip (bs : Bytes) : b64Decode (b64Encode bs) = .ok bs := by
  unfold b64Decode
  have : (b64Encode bs).any (fun c => decide (c.toNat ≥ 128)) = false := by
    rw [List.any_eq_false]
    intro c hc
    have := (b64Encode_chars bs c hc).1
    simp; omega
  rw [this]
  simpa using b64_roundtrip_go bs []

end Wz.Http
