/-
PyFnsEq_Debug — `DebuggedApplication.check_pin_trust`, `_fail_pin_auth`, `pin_auth` and `__call__`
of `werkzeug.debug` *as regenerated from the source* by `tools/py2lean.py` (`Gen/PyFns_Debug.lean`,
rewritten on every check run) against the hand-written model of `Model/Debugger.lean`
(`checkPinTrust`, `failPinAuth`, `pinAuth`, `respond`) that the C20 theorems are about.

What the request and the collaborators supply enters the translated functions as parameters
(`tools/gen/pyfns.py`: `CHECK_PIN_TRUST`, `FAIL_PIN_AUTH`, `PIN_AUTH`, `DBG_CALL`): the raw value of
the PIN cookie, `hash_pin`, the freshness test `(time.time() - PIN_TIME) < ts`, the verdict of
`check_host_trust`, `request.args["pin"]` (text or KeyError), the query arguments `__debugger__`,
`cmd`, `f`, `s`, whether `frm` names a known frame, `request.path`. This file defines the
abstraction from these concrete values to the model's `Dbg.Cookie` / `Dbg.Trust` / `Dbg.Req` /
`Dbg.Config` and proves that the translated code computes what the model computes.

Main theorems:
* `check_pin_trust_eq` (never raises; = `checkPinTrust` of the classified cookie), `classify_empty`;
* `fail_pin_auth_eq`, `fail_pin_auth_counter`, `fail_pin_auth_range`, `fail_pin_auth_slept`;
* `pin_auth_untrusted_host`, `pin_auth_eq`, `pin_auth_counter`, `pin_auth_no_pin`,
  `pin_auth_missing_pin_arg`, `pin_auth_entered_unread`, `pin_auth_attribute_error_iff`, and the
  composition with `check_pin_trust` (`pinRequest`): `pin_request_eq`,
  `pin_request_untrusted_host`, `pin_request_no_attribute_error`;
* `debugger_dispatch_eq` (= `handler` of the abstracted request), `respond_eq_handler` (`respond` =
  select the handler, then run its model), `handler_of_respond`, `respond_securityError_iff`,
  `handler_eq_{one,two,three,four,five}_iff`, `debugger_dispatch_model`, `debugger_dispatch_range`,
  the characterisations of the translated code in concrete terms
  `debugger_dispatch_eq_{one,two,three,four,five}_iff`, and the end-to-end statements
  `dispatch_pinauth_respond` / `dispatch_pinauth_counter`.
Nothing is weakened and nothing is left open; no discrepancy between translation and model was found
(spot checks against the running `DebuggedApplication`: an empty cookie value gives `False`; a
missing `pin` argument raises `BadRequestKeyError` - a `KeyError` - only on the comparison path and
leaves the counter alone; `pin = None` authenticates without AttributeError; `cmd=resource` with an empty
or missing `f`, the right secret, a known frame and a valid cookie reaches `execute_command`).

Helper lemmas that do not mention generated definitions and could move to a shared library:
`byte_toNat`, `byte_gt_ten` (Lemmas/Debugger.lean), `cast_ite` (Lemmas/PyFns_Prelude.lean);
`respond_eq_handler`, `handler_of_respond`, `respond_securityError_iff`, `handler_eq_*_iff` are
pure model facts (Lemmas/Debugger.lean).
-/
import WzVerif.Gen.PyFns_Debug
import WzVerif.Model.Debugger
import WzVerif.Lemmas.PyFns_Prelude
import WzVerif.Lemmas.PyFns_Range
import WzVerif.Lemmas.Debugger
namespace Wz.PyFnsEq.Debug
open Wz Wz.Pre

/-! ### `check_pin_trust` -/

/-- `True` / `False` / `None` of `check_pin_trust` as the translation's `Option Bool` -/
def trustCode : Dbg.Trust → Option Bool
  | .yes => some true
  | .no => some false
  | .bad => none

/-- the inverse reading: what an answer of `check_pin_trust` means in the model -/
def trustOf : Option Bool → Dbg.Trust
  | some true => .yes
  | some false => .no
  | none => .bad

@[simp] theorem trustOf_trustCode (t : Dbg.Trust) : trustOf (trustCode t) = t := by cases t <;> rfl

@[simp] theorem trustCode_trustOf (t : Option Bool) : trustCode (trustOf t) = t := by
  cases t with
  | none => rfl
  | some b => cases b <;> rfl

/-- The class of the PIN cookie, read off the raw cookie value exactly as `check_pin_trust` reads
it: no cookie is `absent`; an empty value, a value without `|`, or one whose part before the first
`|` is not accepted by `int()` is `malformed`; a value whose part after the first `|` differs from
`hash_pin(self.pin)` is `wrongHash` (with no PIN configured no cookie carries "the right hash"; the
class is not looked at then); otherwise the timestamp decides between `valid` and `expired`
(`fresh ts` = `(time.time() - PIN_TIME) < ts`). -/
def classify (hash_pin : Str → Str) (fresh : Int → Bool) (cookie : Option Str) (pin : Option Str) :
    Dbg.Cookie :=
  match cookie with
  | none => .absent
  | some val =>
    if val.isEmpty || !(val.contains '|') then .malformed
    else
      match Http.pyInt (val.takeWhile (· != '|')) with
      | .error _ => .malformed
      | .ok ts =>
        if some ((val.dropWhile (· != '|')).drop 1) == pin.map hash_pin then
          (if fresh ts then .valid else .expired)
        else .wrongHash

/-- An empty cookie value (`not val`) is classified `malformed` - it has no `|` -, which
`checkPinTrust` answers like `absent` (`False`): the `not val` test of the code is subsumed by
`"|" not in val`. -/
theorem classify_empty (hash_pin : Str → Str) (fresh : Int → Bool) (pin : Option Str) :
    classify hash_pin fresh (some []) pin = .malformed := rfl

/-- `DebuggedApplication.check_pin_trust`, as translated from the current source (`self.pin is
None`, the cookie lookup, `not val or "|" not in val`, the two-way unpacking of
`val.split("|", 1)`, `int(ts_str)` with `except ValueError`, the hash comparison, the freshness
test), never raises - the unpacking is only reached when `"|" in val`, so `split` yields two parts -
and answers exactly the model's `checkPinTrust` on the class of the cookie (`classify`), for every
`hash_pin`, every clock, every cookie value (or none) and every PIN (or `None`): `True` when no PIN
is configured or the cookie is valid, `None` for a well-formed cookie with another PIN's hash,
`False` otherwise. This is the function behind the `cookie` field of `Dbg.Req` in C20. -/
theorem check_pin_trust_eq (hash_pin : Str → Str) (fresh : Int → Bool) (cookie pin : Option Str) :
    Gen.PyFns_Debug.check_pin_trust hash_pin fresh cookie pin ()
      = .ok (trustCode (Dbg.checkPinTrust pin.isSome (classify hash_pin fresh cookie pin))) := by
  unfold Gen.PyFns_Debug.check_pin_trust
  cases pin with
  | none => rfl
  | some p =>
    cases cookie with
    | none => rfl
    | some val =>
      simp only [contains_singleton, classify]
      by_cases hm : '|' ∈ val
      · have hc : val.contains '|' = true := by simpa using hm
        simp only [hc, PyFnsRange.splitOnce_singleton_mem val '|' hm]
        by_cases he : val.isEmpty = true
        · simp [he, Dbg.checkPinTrust, trustCode]
        · cases hp : Http.pyInt (val.takeWhile (· != '|')) with
          | error e => simp [he, Dbg.checkPinTrust, trustCode]
          | ok ts =>
            generalize (val.dropWhile (· != '|')).drop 1 = rest
            by_cases hh : rest = hash_pin p <;>
              cases hf : fresh ts <;> simp [he, hh, hf, Dbg.checkPinTrust, trustCode]
      · simp [hm, Dbg.checkPinTrust, trustCode]

/-! ### `_fail_pin_auth` -/

/-- the `multiprocessing.Value("B")` counter (an `Int` in the translation) as the model's byte -/
def byte (c : Int) : UInt8 := UInt8.ofNat c.toNat

theorem byte_toNat (c : Int) (h0 : 0 ≤ c) (h1 : c ≤ 255) : ((byte c).toNat : Int) = c := by
  simp [byte, UInt8.toNat_ofNat']; omega

theorem byte_gt_ten (c : Int) (h0 : 0 ≤ c) (h1 : c ≤ 255) : (byte c > 10) ↔ c > 10 := by
  rw [Dbg.gt_ten_iff]
  have := byte_toNat c h0 h1
  omega

/-- `DebuggedApplication._fail_pin_auth`, as translated from the current source (read under the
lock, `if count < 255: value = count + 1`, then `time.sleep(5.0 if count > 5 else 0.5)`), for a
counter within the byte range: the new counter is the model's saturating `failPinAuth`, a penalty
sleep always happens (`slept = True`), and it is the long one exactly when the counter *before*
this failure exceeded 5 (C20 `fail_counted_before_delay`: counted first, delay chosen from the old
count). -/
theorem fail_pin_auth_eq (c : Int) (s l : Bool) (h0 : 0 ≤ c) (h1 : c ≤ 255) :
    Gen.PyFns_Debug.fail_pin_auth c s l
      = (((Dbg.failPinAuth (byte c)).toNat : Int), true, decide (c > 5)) := by
  have hb := byte_toNat c h0 h1
  have := Dbg.failPinAuth_toNat (byte c)
  unfold Gen.PyFns_Debug.fail_pin_auth
  by_cases h : c < 255 <;> simp [h] <;> omega

/-- The counter component alone, in the form of the task statement: `UInt8.ofNat c.toNat` is the
byte the `Int` stands for. -/
theorem fail_pin_auth_counter (c : Int) (s l : Bool) (h0 : 0 ≤ c) (h1 : c ≤ 255) :
    (Gen.PyFns_Debug.fail_pin_auth c s l).1
      = ((Dbg.failPinAuth (UInt8.ofNat c.toNat)).toNat : Int) := by
  rw [fail_pin_auth_eq c s l h0 h1]; rfl

/-- The translated `_fail_pin_auth` keeps the counter inside `0..255` (what a `Value("B")` can
hold: the assignment never overflows the C byte), and the counter never decreases. -/
theorem fail_pin_auth_range (c : Int) (s l : Bool) (h0 : 0 ≤ c) (h1 : c ≤ 255) :
    0 ≤ (Gen.PyFns_Debug.fail_pin_auth c s l).1 ∧ (Gen.PyFns_Debug.fail_pin_auth c s l).1 ≤ 255 ∧
      c ≤ (Gen.PyFns_Debug.fail_pin_auth c s l).1 := by
  unfold Gen.PyFns_Debug.fail_pin_auth
  by_cases h : c < 255 <;> simp [h] <;> omega

/-- For every counter value whatsoever the penalty sleep happens, and its length is chosen from the
counter as it was before the increment. -/
theorem fail_pin_auth_slept (c : Int) (s l : Bool) :
    (Gen.PyFns_Debug.fail_pin_auth c s l).2 = (true, decide (c > 5)) := by
  unfold Gen.PyFns_Debug.fail_pin_auth
  by_cases h : c < 255 <;> simp [h]

/-! ### `pin_auth` -/

/-- `entered_pin.strip().replace("-", "") == pin.replace("-", "")`, as the code computes it -/
def pinRight (text pin : Str) : Bool :=
  Pre.replace (Pre.strip text) ['-'] [] == Pre.replace pin ['-'] []

/-- the same with the `self.pin` attribute (`None`: nothing matches; that path is unreachable, see
`pin_request_no_attribute_error`) -/
def pinRightOpt (text : Str) : Option Str → Bool
  | some p => pinRight text p
  | none => false

/-- the third component of the translated answer: 1 = `set_cookie`, 2 = `delete_cookie`,
0 = cookie untouched -/
def cookieAction (auth : Bool) (t : Dbg.Trust) : Int :=
  if auth then 1 else if t = .bad then 2 else 0

/-- the request is counted as a failure (and delayed): a stale cookie, or a wrong PIN while not
locked out -/
def penalised (failed : Int) (t : Dbg.Trust) (right : Bool) : Bool :=
  match t with
  | .bad => true
  | .yes => false
  | .no => !(decide (failed > 10)) && !right

/-- what the model says `pin_auth` does after a passed Host check: the JSON answer and new counter
of `Dbg.pinAuth` (= `pinAuthWith failPinAuth`), the cookie action, and the two sleep flags -/
def pinAuthSpec (trust : Dbg.Trust) (right : Bool) (failed : Int) (s l : Bool) :
    (Int × Bool × Bool) × Except String (Option (Bool × Bool × Int)) :=
  let m := Dbg.pinAuth (byte failed) trust right
  let pen := penalised failed trust right
  (((m.2.toNat : Int), (if pen then true else s), (if pen then decide (failed > 5) else l)),
    .ok (some (m.1.auth, m.1.exhausted, cookieAction m.1.auth trust)))

/-- `pin_auth` behind an untrusted Host: the answer is `SecurityError()` (`none`) whatever the
cookie, the entered PIN and the counter are, nothing is counted and nobody sleeps (C20
`untrusted_host` for the pinauth handler; the model's `hostGate`). -/
theorem pin_auth_untrusted_host (trust : Option Bool) (entered : Except String Str)
    (pin : Option Str) (failed : Int) (s l : Bool) :
    Gen.PyFns_Debug.pin_auth false trust entered pin failed s l ()
      = ((failed, s, l), .ok none) := by
  unfold Gen.PyFns_Debug.pin_auth
  rfl

/-- `DebuggedApplication.pin_auth`, as translated from the current source, after a passed Host
check, for a counter within the byte range, a present `pin` argument and a configured PIN: the JSON
answer `{"auth", "exhausted"}` and the new failure counter are exactly those of the model's
`Dbg.pinAuth = pinAuthWith failPinAuth` on the trust verdict (`trustOf`) and on the PIN comparison
the code performs (`pinRight`); the cookie is set iff `auth`, deleted iff not `auth` and the trust
verdict was `None` (stale hash), untouched otherwise; a penalty sleep happens exactly when the
request is counted as a failure (`penalised`), its length chosen from the old counter. In
particular: a locked-out client (`failed > 10`, no valid cookie) gets `exhausted` without the PIN
even being compared and without a counter change; a right PIN resets the counter to 0. -/
theorem pin_auth_eq (trust : Option Bool) (text p : Str) (failed : Int) (s l : Bool)
    (h0 : 0 ≤ failed) (h1 : failed ≤ 255) :
    Gen.PyFns_Debug.pin_auth true trust (.ok text) (some p) failed s l ()
      = pinAuthSpec (trustOf trust) (pinRight text p) failed s l := by
  have hf := fail_pin_auth_eq failed s l h0 h1
  have hb := byte_toNat failed h0 h1
  have hg := byte_gt_ten failed h0 h1
  unfold Gen.PyFns_Debug.pin_auth pinAuthSpec
  cases trust with
  | none =>
    simp [hf, trustOf, Dbg.pinAuth, Dbg.pinAuthWith, penalised, cookieAction,
      Gen.PyFns_Debug.pinResponse]
  | some b =>
    cases b with
    | true =>
      simp [hb, trustOf, Dbg.pinAuth, Dbg.pinAuthWith, penalised, cookieAction,
        Gen.PyFns_Debug.pinResponse]
    | false =>
      by_cases h10 : failed > 10
      · have hg' : byte failed > 10 := hg.mpr h10
        simp [h10, hg', hb, trustOf, Dbg.pinAuth, Dbg.pinAuthWith, penalised, cookieAction,
          Gen.PyFns_Debug.pinResponse]
      · have hg' : ¬ byte failed > 10 := fun h => h10 (hg.mp h)
        by_cases hr : pinRight text p = true
        · have hr' := hr
          unfold pinRight at hr'
          simp [h10, hg', hr, hr', trustOf, Dbg.pinAuth, Dbg.pinAuthWith, penalised,
            cookieAction, Gen.PyFns_Debug.pinResponse]
        · have hr' := hr
          unfold pinRight at hr'
          simp [h10, hg', hr, hr', hf, trustOf, Dbg.pinAuth, Dbg.pinAuthWith, penalised,
            cookieAction, Gen.PyFns_Debug.pinResponse]

/-- The new counter of the translated `pin_auth` is the model's, in the form of the task statement
(`UInt8.ofNat failed.toNat` is the byte the `Int` stands for), and stays within `0..255`. -/
theorem pin_auth_counter (trust : Option Bool) (text p : Str) (failed : Int) (s l : Bool)
    (h0 : 0 ≤ failed) (h1 : failed ≤ 255) :
    (Gen.PyFns_Debug.pin_auth true trust (.ok text) (some p) failed s l ()).1.1
        = (((Dbg.pinAuth (UInt8.ofNat failed.toNat) (trustOf trust) (pinRight text p)).2.toNat : Nat) : Int)
      ∧ 0 ≤ (Gen.PyFns_Debug.pin_auth true trust (.ok text) (some p) failed s l ()).1.1
      ∧ (Gen.PyFns_Debug.pin_auth true trust (.ok text) (some p) failed s l ()).1.1 ≤ 255 := by
  rw [pin_auth_eq trust text p failed s l h0 h1]
  refine ⟨rfl, ?_, ?_⟩
  · simp [pinAuthSpec]
  · have := (Dbg.pinAuth (byte failed) (trustOf trust) (pinRight text p)).2.toNat_lt
    simp only [pinAuthSpec]; omega

/-- `pin_auth` when no PIN is configured (`self.pin is None`) but the caller claims a trust verdict
other than `True` (which `check_pin_trust` never gives then, see `pin_request_eq`): as long as the
PIN comparison is not reached (`trust` is not `False`, or the client is locked out) the answer is
still the model's - the PIN is not looked at -; on the comparison path `pin.replace` is applied to
`None`: AttributeError, with the counter untouched. -/
theorem pin_auth_no_pin (trust : Option Bool) (text : Str) (failed : Int) (s l : Bool)
    (h0 : 0 ≤ failed) (h1 : failed ≤ 255) :
    Gen.PyFns_Debug.pin_auth true trust (.ok text) none failed s l ()
      = if trust = some false ∧ failed ≤ 10 then ((failed, s, l), .error "AttributeError")
        else pinAuthSpec (trustOf trust) false failed s l := by
  have hf := fail_pin_auth_eq failed s l h0 h1
  have hb := byte_toNat failed h0 h1
  have hg := byte_gt_ten failed h0 h1
  unfold Gen.PyFns_Debug.pin_auth pinAuthSpec
  cases trust with
  | none =>
    simp [hf, trustOf, Dbg.pinAuth, Dbg.pinAuthWith, penalised, cookieAction,
      Gen.PyFns_Debug.pinResponse]
  | some b =>
    cases b with
    | true =>
      simp [hb, trustOf, Dbg.pinAuth, Dbg.pinAuthWith, penalised, cookieAction,
        Gen.PyFns_Debug.pinResponse]
    | false =>
      by_cases h10 : failed > 10
      · have hg' : byte failed > 10 := hg.mpr h10
        have h10' : ¬ failed ≤ 10 := by omega
        simp [h10, h10', hg', hb, trustOf, Dbg.pinAuth, Dbg.pinAuthWith, penalised, cookieAction,
          Gen.PyFns_Debug.pinResponse]
      · have h10' : failed ≤ 10 := by omega
        simp [h10, h10']

/-- `pin_auth` when the request has no `pin` argument (`request.args["pin"]` raises; the
translation calls the error by the parameter's text, "KeyError"): the error propagates on the one
path that reads the argument - Host trusted, trust verdict `False`, not locked out - and there
before anything is counted (and before `self.pin` is touched). -/
theorem pin_auth_missing_pin_arg (e : String) (pin : Option Str) (failed : Int) (s l : Bool)
    (h10 : failed ≤ 10) :
    Gen.PyFns_Debug.pin_auth true (some false) (.error e) pin failed s l ()
      = ((failed, s, l), .error e) := by
  have : ¬ failed > 10 := by omega
  unfold Gen.PyFns_Debug.pin_auth
  simp [this]

/-- On every other path `pin_auth` does not read the `pin` argument: Host untrusted, a trust
verdict `None` or `True`, or a locked-out client get the same result whether the argument is
present, absent, or anything else. -/
theorem pin_auth_entered_unread (host_trusted : Bool) (trust : Option Bool)
    (entered entered' : Except String Str) (pin : Option Str) (failed : Int) (s l : Bool)
    (h : host_trusted = false ∨ trust ≠ some false ∨ failed > 10) :
    Gen.PyFns_Debug.pin_auth host_trusted trust entered pin failed s l ()
      = Gen.PyFns_Debug.pin_auth host_trusted trust entered' pin failed s l () := by
  unfold Gen.PyFns_Debug.pin_auth
  cases host_trusted with
  | false => rfl
  | true =>
    cases trust with
    | none => rfl
    | some b =>
      cases b with
      | true => rfl
      | false =>
        have h10 : failed > 10 := by simpa using h
        simp [h10]

/-- Exactly when the translated `pin_auth` raises AttributeError (given that the `pin` argument does not
itself carry that error text): the Host is trusted, the verdict is `False`, the client is not
locked out, the argument is present, and no PIN is configured. For every counter value. -/
theorem pin_auth_attribute_error_iff (host_trusted : Bool) (trust : Option Bool)
    (entered : Except String Str) (pin : Option Str) (failed : Int) (s l : Bool)
    (hent : entered ≠ .error "AttributeError") :
    (Gen.PyFns_Debug.pin_auth host_trusted trust entered pin failed s l ()).2 = .error "AttributeError"
      ↔ host_trusted = true ∧ trust = some false ∧ failed ≤ 10 ∧ (∃ t, entered = .ok t) ∧ pin = none := by
  unfold Gen.PyFns_Debug.pin_auth
  cases host_trusted with
  | false => simp
  | true =>
    cases trust with
    | none => simp [Gen.PyFns_Debug.pinResponse]
    | some b =>
      cases b with
      | true => simp [Gen.PyFns_Debug.pinResponse]
      | false =>
        by_cases h10 : failed > 10
        · have : ¬ failed ≤ 10 := by omega
          simp [h10, this, Gen.PyFns_Debug.pinResponse]
        · have h10' : failed ≤ 10 := by omega
          cases entered with
          | error e =>
            have : ¬ e = "AttributeError" := fun h => hent (by rw [h])
            simp [h10, this]
          | ok t =>
            cases pin with
            | none => simp [h10, h10']
            | some p =>
              by_cases hr : (Pre.replace (Pre.strip t) ['-'] [] == Pre.replace p ['-'] []) = true
              · simp [h10, hr, Gen.PyFns_Debug.pinResponse]
              · simp [h10, hr, Gen.PyFns_Debug.pinResponse]

/-- `pin_auth` as the request runs it: the trust verdict is what `check_pin_trust` answers for the
same request and the same `self.pin` (an exception of `check_pin_trust` would propagate; there is
none, `check_pin_trust_eq`) -/
def pinRequest (hash_pin : Str → Str) (fresh : Int → Bool) (cookie : Option Str)
    (host_trusted : Bool) (entered : Except String Str) (pin : Option Str) (failed : Int)
    (s l : Bool) : (Int × Bool × Bool) × Except String (Option (Bool × Bool × Int)) :=
  match Gen.PyFns_Debug.check_pin_trust hash_pin fresh cookie pin () with
  | .ok trust => Gen.PyFns_Debug.pin_auth host_trusted trust entered pin failed s l ()
  | .error e => ((failed, s, l), .error e)

/-- **`pin_auth` composed with `check_pin_trust`** (both as translated from the current source)
is the model's pinauth handler: for a trusted Host, a counter within the byte range and a present
`pin` argument - and for *every* `self.pin`, including `None` - the JSON answer and the new counter
are those of `Dbg.pinAuth` on `checkPinTrust pin.isSome (classify …)` and on the PIN comparison of
the code; this is literally the argument of `.pinauth` in `Dbg.respond` (with `cfg.pinOn :=
pin.isSome`, `r.cookie := classify …`, `r.pinRight := pinRightOpt text pin`). The cookie is set iff
`auth` and deleted iff the cookie carried another PIN's hash. With no PIN configured everybody is
authenticated and the PIN is never compared. -/
theorem pin_request_eq (hash_pin : Str → Str) (fresh : Int → Bool) (cookie : Option Str)
    (text : Str) (pin : Option Str) (failed : Int) (s l : Bool)
    (h0 : 0 ≤ failed) (h1 : failed ≤ 255) :
    pinRequest hash_pin fresh cookie true (.ok text) pin failed s l
      = pinAuthSpec (Dbg.checkPinTrust pin.isSome (classify hash_pin fresh cookie pin))
          (pinRightOpt text pin) failed s l := by
  unfold pinRequest
  rw [check_pin_trust_eq]
  cases pin with
  | some p =>
    simp only [pin_auth_eq _ text p failed s l h0 h1, trustOf_trustCode, pinRightOpt]
  | none =>
    simp only [pin_auth_no_pin _ text failed s l h0 h1, trustOf_trustCode, pinRightOpt]
    simp [Dbg.checkPinTrust, trustCode]

/-- Behind an untrusted Host the composed handler answers `SecurityError()` and changes nothing. -/
theorem pin_request_untrusted_host (hash_pin : Str → Str) (fresh : Int → Bool)
    (cookie : Option Str) (entered : Except String Str) (pin : Option Str) (failed : Int)
    (s l : Bool) :
    pinRequest hash_pin fresh cookie false entered pin failed s l = ((failed, s, l), .ok none) := by
  unfold pinRequest
  rw [check_pin_trust_eq]
  exact pin_auth_untrusted_host _ entered pin failed s l

/-- **The AttributeError arm of `pin_auth` is dead code**: the translation has to provide for
`pin.replace("-", "")` on `self.pin = None` (`t.cast(str, self.pin)` is no check), but when the
trust verdict comes from `check_pin_trust` on the same `self.pin` - as it does in the source - a
missing PIN makes the verdict `True` and the PIN comparison is not reached. For every `hash_pin`,
clock, cookie, Host verdict, `pin` argument (present or KeyError), PIN (or `None`), counter and
flags, the composed handler never yields AttributeError. -/
theorem pin_request_no_attribute_error (hash_pin : Str → Str) (fresh : Int → Bool)
    (cookie : Option Str) (host_trusted : Bool) (entered : Except String Str) (pin : Option Str)
    (failed : Int) (s l : Bool) (hent : entered ≠ .error "AttributeError") :
    (pinRequest hash_pin fresh cookie host_trusted entered pin failed s l).2
      ≠ .error "AttributeError" := by
  unfold pinRequest
  rw [check_pin_trust_eq]
  intro h
  have := (pin_auth_attribute_error_iff host_trusted _ entered pin failed s l hent).mp h
  obtain ⟨_, ht, _, _, hp⟩ := this
  subst hp
  simp [Dbg.checkPinTrust, trustCode] at ht

/-! ### `__call__`: which handler answers -/

/-- the `cmd` query argument as the model's `Cmd` -/
def cmdOf : Option Str → Dbg.Cmd
  | none => .none
  | some c =>
    if c = ['r', 'e', 's', 'o', 'u', 'r', 'c', 'e'] then .resource
    else if c = ['p', 'i', 'n', 'a', 'u', 't', 'h'] then .pinauth
    else if c = ['p', 'r', 'i', 'n', 't', 'p', 'i', 'n'] then .printpin
    else .other

/-- the `s` query argument against `self.secret` -/
def secretOf (arg_s : Option Str) (secret : Str) : Dbg.Secret :=
  match arg_s with
  | none => .absent
  | some s => if s = secret then .right else .wrong

/-- the `f` query argument is present and non-empty (`and arg`) -/
def hasArgOf : Option Str → Bool
  | none => false
  | some a => !a.isEmpty

/-- The model's request for the concrete values `__call__` reads: `__debugger__ == "yes"`, the
class of `cmd`, the truthiness of `f`, `s` against `self.secret`, whether `frm` names a known
frame, `request.path == self.console_path`; plus the three fields only the handlers read (the Host
verdict, the cookie class, whether the entered PIN is right). -/
def reqOf (arg_debugger arg_cmd arg_f arg_s : Option Str) (frame_known : Bool)
    (request_path secret : Str) (console_path : Option Str)
    (hostTrusted : Bool) (cookie : Dbg.Cookie) (pinRight : Bool) : Dbg.Req :=
  { debugger := arg_debugger == some ['y', 'e', 's'],
    cmd := cmdOf arg_cmd,
    hasArg := hasArgOf arg_f,
    secret := secretOf arg_s secret,
    frameKnown := frame_known,
    hostTrusted := hostTrusted,
    cookie := cookie,
    pinRight := pinRight,
    atConsole := console_path == some request_path }

/-- The model's configuration for the attributes `__call__` and the handlers read: `self.evalex`,
`self.pin is not None`, `self.console_path is not None`, `self.pin_logging`. -/
def cfgOf (evalex pinOn : Bool) (console_path : Option Str) (pinLogging : Bool) : Dbg.Config :=
  { evalex := evalex, pinOn := pinOn, consoleOn := console_path.isSome, pinLogging := pinLogging }

/-- The handler `Dbg.respond` selects, by the codes of the translation: 0 = the wrapped
application, 1 = `get_resource`, 2 = `pin_auth`, 3 = `log_pin_request`, 4 = `execute_command`,
5 = `display_console`. This is `respond`'s own branch structure with the handler bodies left out. -/
def handler (cfg : Dbg.Config) (r : Dbg.Req) : Nat :=
  if r.debugger then
    match r.cmd, r.hasArg, r.secret.isRight with
    | .resource, true, _ => 1
    | .pinauth, _, true => 2
    | .printpin, _, true => 3
    | _, _, _ => if Dbg.evalCond cfg r then 4 else 0
  else if cfg.evalex && cfg.consoleOn && r.atConsole then 5 else 0

/-- What the selected handler answers in the model: `get_resource` answers unconditionally, the
other four start with the Host gate. -/
def handlerOutcome (cfg : Dbg.Config) (failed : UInt8) (r : Dbg.Req) : Nat → Dbg.Outcome
  | 1 => .resource
  | 2 => Dbg.hostGate r (.pinauth (Dbg.pinAuth failed (Dbg.checkPinTrust cfg.pinOn r.cookie) r.pinRight).1)
  | 3 => Dbg.hostGate r (.printpin (cfg.pinLogging && cfg.pinOn))
  | 4 => Dbg.hostGate r .evalRan
  | 5 => Dbg.hostGate r .console
  | _ => .app

/-- the handler an outcome of `respond` was produced by, when the Host is trusted -/
def outcomeHandler : Dbg.Outcome → Nat
  | .app => 0
  | .resource => 1
  | .pinauth _ => 2
  | .printpin _ => 3
  | .evalRan => 4
  | .console => 5
  | .securityError => 6

theorem any_trustCode (t : Dbg.Trust) : Option.any (fun v => v) (trustCode t) = t.isYes := by
  cases t <;> rfl

/-- `Dbg.respond` is: select the handler (`handler`), then run it (`handlerOutcome`). So every C20
statement about `respond` is a statement about the handler selection proved equal to the translated
`__call__` below, followed by the model of the handler bodies. -/
theorem respond_eq_handler (cfg : Dbg.Config) (failed : UInt8) (r : Dbg.Req) :
    Dbg.respond cfg failed r = handlerOutcome cfg failed r (handler cfg r) := by
  obtain ⟨dbg, cmd, hasArg, secret, fk, ht, cookie, pr, ac⟩ := r
  unfold Dbg.respond handler
  cases dbg
  · simp only [Bool.false_eq_true, if_false]
    split <;> rfl
  · cases cmd <;> cases hasArg <;> cases secret <;>
      simp only [Dbg.Secret.isRight, if_true] <;> first | rfl | (split <;> rfl)

/-- With a trusted Host the outcome of `respond` tells which handler ran; it is the one selected. -/
theorem handler_of_respond (cfg : Dbg.Config) (failed : UInt8) (r : Dbg.Req)
    (ht : r.hostTrusted = true) :
    outcomeHandler (Dbg.respond cfg failed r) = handler cfg r := by
  rw [respond_eq_handler]
  obtain ⟨dbg, cmd, hasArg, secret, fk, ht', cookie, pr, ac⟩ := r
  simp only at ht
  subst ht
  unfold handler
  cases dbg
  · simp only [Bool.false_eq_true, if_false]
    split <;> rfl
  · cases cmd <;> cases hasArg <;> cases secret <;>
      simp only [Dbg.Secret.isRight, if_true] <;> first | rfl | (split <;> rfl)

theorem handler_le_five (cfg : Dbg.Config) (r : Dbg.Req) : handler cfg r ≤ 5 := by
  unfold handler
  split
  · split <;> first | omega | (split <;> omega)
  · split <;> omega

/-- `respond` answers SecurityError exactly when the Host is untrusted and the selected handler is
one of the four gated ones (C20 `untrusted_host`, as an equivalence). -/
theorem respond_securityError_iff (cfg : Dbg.Config) (failed : UInt8) (r : Dbg.Req) :
    Dbg.respond cfg failed r = .securityError
      ↔ r.hostTrusted = false ∧ 2 ≤ handler cfg r := by
  rw [respond_eq_handler]
  have h5 := handler_le_five cfg r
  generalize handler cfg r = n at h5
  have hn : n = 0 ∨ n = 1 ∨ n = 2 ∨ n = 3 ∨ n = 4 ∨ n = 5 := by omega
  rcases hn with rfl | rfl | rfl | rfl | rfl | rfl <;>
    cases hh : r.hostTrusted <;> simp [handlerOutcome, Dbg.hostGate, hh]

theorem cmdOf_cases (ac : Option Str) :
    (ac = none ∧ cmdOf ac = .none)
    ∨ (ac = some ['r', 'e', 's', 'o', 'u', 'r', 'c', 'e'] ∧ cmdOf ac = .resource)
    ∨ (ac = some ['p', 'i', 'n', 'a', 'u', 't', 'h'] ∧ cmdOf ac = .pinauth)
    ∨ (ac = some ['p', 'r', 'i', 'n', 't', 'p', 'i', 'n'] ∧ cmdOf ac = .printpin)
    ∨ (∃ c, ac = some c ∧ c ≠ ['r', 'e', 's', 'o', 'u', 'r', 'c', 'e']
        ∧ c ≠ ['p', 'i', 'n', 'a', 'u', 't', 'h'] ∧ c ≠ ['p', 'r', 'i', 'n', 't', 'p', 'i', 'n']
        ∧ cmdOf ac = .other) := by
  cases ac with
  | none => exact .inl ⟨rfl, rfl⟩
  | some c =>
    by_cases h1 : c = ['r', 'e', 's', 'o', 'u', 'r', 'c', 'e']
    · subst h1; exact .inr (.inl ⟨rfl, rfl⟩)
    · by_cases h2 : c = ['p', 'i', 'n', 'a', 'u', 't', 'h']
      · subst h2; exact .inr (.inr (.inl ⟨rfl, rfl⟩))
      · by_cases h3 : c = ['p', 'r', 'i', 'n', 't', 'p', 'i', 'n']
        · subst h3; exact .inr (.inr (.inr (.inl ⟨rfl, rfl⟩)))
        · exact .inr (.inr (.inr (.inr ⟨c, rfl, h1, h2, h3, by simp [cmdOf, h1, h2, h3]⟩)))

theorem secret_isRight (arg_s : Option Str) (secret : Str) :
    (secretOf arg_s secret).isRight = (arg_s == some secret) := by
  cases arg_s with
  | none => rfl
  | some s => by_cases h : s = secret <;> simp [secretOf, Dbg.Secret.isRight, h]

theorem cast_ite (c : Prop) [Decidable c] (a b : Nat) :
    (((if c then a else b : Nat)) : Int) = if c then (a : Int) else (b : Int) := by
  split <;> rfl

/-- **`DebuggedApplication.__call__` selects the handler the model says**: the `if/elif` chain as
translated from the current source (`request.args.get("__debugger__") == "yes"`; `cmd == "resource"
and arg`; `cmd == "pinauth" and secret == self.secret`; `cmd == "printpin" and …`; the five-fold
conjunction in front of `execute_command`; the three-fold one in front of `display_console`)
returns, for every value of the query arguments, frame table, path, secret, `evalex`,
`console_path` and for every trust verdict that `check_pin_trust` can give (`hpt`), the code of the
handler that `Dbg.respond` runs for the abstracted request (`reqOf`, `cfgOf`); by
`respond_eq_handler`, `respond` is that handler's model. The fields `hostTrusted`, `pinRight` and
`pinLogging` are not read by `__call__` (they are arbitrary here): the Host check is inside the
handlers. -/
theorem debugger_dispatch_eq (ad ac af as : Option Str) (fk : Bool) (pin_trust : Option Bool)
    (path secret : Str) (evalex : Bool) (cp : Option Str)
    (pinOn pinLogging hostTrusted pinRight : Bool) (cookie : Dbg.Cookie)
    (hpt : pin_trust = trustCode (Dbg.checkPinTrust pinOn cookie)) :
    Gen.PyFns_Debug.debugger_dispatch ad ac af as fk pin_trust path secret evalex cp () ()
      = ((handler (cfgOf evalex pinOn cp pinLogging)
          (reqOf ad ac af as fk path secret cp hostTrusted cookie pinRight) : Nat) : Int) := by
  subst hpt
  unfold Gen.PyFns_Debug.debugger_dispatch handler
  simp only [reqOf, cfgOf, secret_isRight, any_trustCode, Dbg.evalCond]
  by_cases hd : ad = some ['y', 'e', 's']
  · subst hd
    by_cases hs : as = some secret
    · subst hs
      rcases cmdOf_cases ac with ⟨rfl, hc⟩ | ⟨rfl, hc⟩ | ⟨rfl, hc⟩ | ⟨rfl, hc⟩ | ⟨c, rfl, h1, h2, h3, hc⟩ <;>
        rcases af with _ | _ | ⟨a, t⟩ <;> cases fk <;>
        simp [hasArgOf, Dbg.Cmd.isSome, cast_ite, *]
    · have hs' : ¬ some secret = as := fun h => hs h.symm
      rcases cmdOf_cases ac with ⟨rfl, hc⟩ | ⟨rfl, hc⟩ | ⟨rfl, hc⟩ | ⟨rfl, hc⟩ | ⟨c, rfl, h1, h2, h3, hc⟩ <;>
        rcases af with _ | _ | ⟨a, t⟩ <;> cases fk <;>
        simp [hasArgOf, Dbg.Cmd.isSome, *]
  · cases cp with
    | none => simp [hd]
    | some p =>
      by_cases hp : path = p
      · subst hp; simp [hd, cast_ite]
      · have hp' : ¬ p = path := fun h => hp h.symm
        simp [hd, hp, hp']

/-! ### the handler codes one by one -/

theorem handler_eq_one_iff (cfg : Dbg.Config) (r : Dbg.Req) :
    handler cfg r = 1 ↔ r.debugger = true ∧ r.cmd = .resource ∧ r.hasArg = true := by
  obtain ⟨dbg, cmd, hasArg, secret, fk, ht, cookie, pr, ac⟩ := r
  unfold handler
  cases dbg <;> cases cmd <;> cases hasArg <;> cases secret <;>
    simp [Dbg.Secret.isRight] <;> split <;> simp

theorem handler_eq_two_iff (cfg : Dbg.Config) (r : Dbg.Req) :
    handler cfg r = 2 ↔ r.debugger = true ∧ r.cmd = .pinauth ∧ r.secret = .right := by
  obtain ⟨dbg, cmd, hasArg, secret, fk, ht, cookie, pr, ac⟩ := r
  unfold handler
  cases dbg <;> cases cmd <;> cases hasArg <;> cases secret <;>
    simp [Dbg.Secret.isRight] <;> split <;> simp

theorem handler_eq_three_iff (cfg : Dbg.Config) (r : Dbg.Req) :
    handler cfg r = 3 ↔ r.debugger = true ∧ r.cmd = .printpin ∧ r.secret = .right := by
  obtain ⟨dbg, cmd, hasArg, secret, fk, ht, cookie, pr, ac⟩ := r
  unfold handler
  cases dbg <;> cases cmd <;> cases hasArg <;> cases secret <;>
    simp [Dbg.Secret.isRight] <;> split <;> simp

/-- The model selects `execute_command` exactly when the request is a debugger request, the whole
conjunction `evalCond` holds (evalex, a `cmd`, a known frame, the right secret, a PIN-trusted
cookie) and none of the three earlier `elif` arms took the request. -/
theorem handler_eq_four_iff (cfg : Dbg.Config) (r : Dbg.Req) :
    handler cfg r = 4 ↔ r.debugger = true ∧ Dbg.evalCond cfg r = true ∧ r.cmd ≠ .pinauth
      ∧ r.cmd ≠ .printpin ∧ ¬ (r.cmd = .resource ∧ r.hasArg = true) := by
  obtain ⟨dbg, cmd, hasArg, secret, fk, ht, cookie, pr, ac⟩ := r
  unfold handler
  cases dbg <;> cases cmd <;> cases hasArg <;> cases secret <;>
    simp [Dbg.Secret.isRight, Dbg.evalCond, Dbg.Cmd.isSome, and_assoc] <;> split <;> simp

theorem handler_eq_five_iff (cfg : Dbg.Config) (r : Dbg.Req) :
    handler cfg r = 5 ↔ r.debugger = false ∧ cfg.evalex = true ∧ cfg.consoleOn = true
      ∧ r.atConsole = true := by
  obtain ⟨dbg, cmd, hasArg, secret, fk, ht, cookie, pr, ac⟩ := r
  unfold handler
  cases dbg <;> cases cmd <;> cases hasArg <;> cases secret <;>
    simp [Dbg.Secret.isRight] <;> split <;> simp

/-! ### the translated `__call__` in concrete terms -/

/-- a cookie class that makes `check_pin_trust` (with a PIN configured) give a chosen verdict -/
def cookieOfTrust : Option Bool → Dbg.Cookie
  | some true => .valid
  | some false => .absent
  | none => .wrongHash

theorem trustCode_cookieOfTrust (t : Option Bool) :
    trustCode (Dbg.checkPinTrust true (cookieOfTrust t)) = t := by
  cases t with
  | none => rfl
  | some b => cases b <;> rfl

theorem isYes_cookieOfTrust (t : Option Bool) :
    (Dbg.checkPinTrust true (cookieOfTrust t)).isYes = (t == some true) := by
  cases t with
  | none => rfl
  | some b => cases b <;> rfl

theorem cmdOf_eq_resource (ac : Option Str) :
    cmdOf ac = .resource ↔ ac = some ['r', 'e', 's', 'o', 'u', 'r', 'c', 'e'] := by
  rcases cmdOf_cases ac with ⟨rfl, hc⟩ | ⟨rfl, hc⟩ | ⟨rfl, hc⟩ | ⟨rfl, hc⟩ | ⟨c, rfl, h1, h2, h3, hc⟩ <;>
    simp [*]

theorem cmdOf_eq_pinauth (ac : Option Str) :
    cmdOf ac = .pinauth ↔ ac = some ['p', 'i', 'n', 'a', 'u', 't', 'h'] := by
  rcases cmdOf_cases ac with ⟨rfl, hc⟩ | ⟨rfl, hc⟩ | ⟨rfl, hc⟩ | ⟨rfl, hc⟩ | ⟨c, rfl, h1, h2, h3, hc⟩ <;>
    simp [*]

theorem cmdOf_eq_printpin (ac : Option Str) :
    cmdOf ac = .printpin ↔ ac = some ['p', 'r', 'i', 'n', 't', 'p', 'i', 'n'] := by
  rcases cmdOf_cases ac with ⟨rfl, hc⟩ | ⟨rfl, hc⟩ | ⟨rfl, hc⟩ | ⟨rfl, hc⟩ | ⟨c, rfl, h1, h2, h3, hc⟩ <;>
    simp [*]

theorem cmdOf_isSome (ac : Option Str) : (cmdOf ac).isSome = ac.isSome := by
  rcases cmdOf_cases ac with ⟨rfl, hc⟩ | ⟨rfl, hc⟩ | ⟨rfl, hc⟩ | ⟨rfl, hc⟩ | ⟨c, rfl, h1, h2, h3, hc⟩ <;>
    simp [hc, Dbg.Cmd.isSome]

theorem secretOf_eq_right (arg_s : Option Str) (secret : Str) :
    secretOf arg_s secret = .right ↔ arg_s = some secret := by
  cases arg_s with
  | none => simp [secretOf]
  | some s => by_cases h : s = secret <;> simp [secretOf, h]

/-- `debugger_dispatch_eq` for an arbitrary trust verdict (every verdict is the verdict of some
cookie when a PIN is configured). -/
theorem debugger_dispatch_model (ad ac af as : Option Str) (fk : Bool) (pin_trust : Option Bool)
    (path secret : Str) (evalex : Bool) (cp : Option Str) :
    Gen.PyFns_Debug.debugger_dispatch ad ac af as fk pin_trust path secret evalex cp () ()
      = ((handler (cfgOf evalex true cp true)
          (reqOf ad ac af as fk path secret cp true (cookieOfTrust pin_trust) true) : Nat) : Int) :=
  debugger_dispatch_eq ad ac af as fk pin_trust path secret evalex cp true true true true
    (cookieOfTrust pin_trust) (trustCode_cookieOfTrust pin_trust).symm

/-- The translated `__call__` answers with one of the six handler codes. -/
theorem debugger_dispatch_range (ad ac af as : Option Str) (fk : Bool) (pin_trust : Option Bool)
    (path secret : Str) (evalex : Bool) (cp : Option Str) :
    0 ≤ Gen.PyFns_Debug.debugger_dispatch ad ac af as fk pin_trust path secret evalex cp () () ∧
      Gen.PyFns_Debug.debugger_dispatch ad ac af as fk pin_trust path secret evalex cp () () ≤ 5 := by
  rw [debugger_dispatch_model]
  have := handler_le_five (cfgOf evalex true cp true)
    (reqOf ad ac af as fk path secret cp true (cookieOfTrust pin_trust) true)
  omega

/-- `get_resource` is selected exactly for `?__debugger__=yes&cmd=resource&f=<non-empty>`: no
secret, no cookie, no Host check (the resources are the debugger's static files). -/
theorem debugger_dispatch_eq_one_iff (ad ac af as : Option Str) (fk : Bool)
    (pin_trust : Option Bool) (path secret : Str) (evalex : Bool) (cp : Option Str) :
    Gen.PyFns_Debug.debugger_dispatch ad ac af as fk pin_trust path secret evalex cp () () = 1
      ↔ ad = some ['y', 'e', 's'] ∧ ac = some ['r', 'e', 's', 'o', 'u', 'r', 'c', 'e']
        ∧ hasArgOf af = true := by
  rw [debugger_dispatch_model, show ((1 : Int) = ((1 : Nat) : Int)) from rfl, Int.ofNat_inj,
    handler_eq_one_iff]
  simp [reqOf, cmdOf_eq_resource]

/-- `pin_auth` is selected exactly for `?__debugger__=yes&cmd=pinauth&s=<the secret>` - whatever
`f`, the frame, `evalex` and the cookie are. -/
theorem debugger_dispatch_eq_two_iff (ad ac af as : Option Str) (fk : Bool)
    (pin_trust : Option Bool) (path secret : Str) (evalex : Bool) (cp : Option Str) :
    Gen.PyFns_Debug.debugger_dispatch ad ac af as fk pin_trust path secret evalex cp () () = 2
      ↔ ad = some ['y', 'e', 's'] ∧ ac = some ['p', 'i', 'n', 'a', 'u', 't', 'h']
        ∧ as = some secret := by
  rw [debugger_dispatch_model, show ((2 : Int) = ((2 : Nat) : Int)) from rfl, Int.ofNat_inj,
    handler_eq_two_iff]
  simp [reqOf, cmdOf_eq_pinauth, secretOf_eq_right]

/-- `log_pin_request` is selected exactly for `?__debugger__=yes&cmd=printpin&s=<the secret>`. -/
theorem debugger_dispatch_eq_three_iff (ad ac af as : Option Str) (fk : Bool)
    (pin_trust : Option Bool) (path secret : Str) (evalex : Bool) (cp : Option Str) :
    Gen.PyFns_Debug.debugger_dispatch ad ac af as fk pin_trust path secret evalex cp () () = 3
      ↔ ad = some ['y', 'e', 's'] ∧ ac = some ['p', 'r', 'i', 'n', 't', 'p', 'i', 'n']
        ∧ as = some secret := by
  rw [debugger_dispatch_model, show ((3 : Int) = ((3 : Nat) : Int)) from rfl, Int.ofNat_inj,
    handler_eq_three_iff]
  simp [reqOf, cmdOf_eq_printpin, secretOf_eq_right]

/-- **The eval gate of the translated `__call__`** (C20 `eval_gate` on the regenerated code):
`execute_command` is selected if and only if the request says `__debugger__=yes`, `evalex` is on,
there is a `cmd`, `frm` names a known frame, `s` is the secret, `check_pin_trust` answered `True`
(not `False`, not `None`), and the request was not taken by an earlier arm (`cmd` is neither
`pinauth` nor `printpin` - with the right secret those arms take it - and not `resource` with a
non-empty `f`). No other combination of inputs reaches code execution. -/
theorem debugger_dispatch_eq_four_iff (ad ac af as : Option Str) (fk : Bool)
    (pin_trust : Option Bool) (path secret : Str) (evalex : Bool) (cp : Option Str) :
    Gen.PyFns_Debug.debugger_dispatch ad ac af as fk pin_trust path secret evalex cp () () = 4
      ↔ ad = some ['y', 'e', 's'] ∧ evalex = true ∧ ac.isSome = true ∧ fk = true
        ∧ as = some secret ∧ pin_trust = some true
        ∧ ac ≠ some ['p', 'i', 'n', 'a', 'u', 't', 'h']
        ∧ ac ≠ some ['p', 'r', 'i', 'n', 't', 'p', 'i', 'n']
        ∧ ¬ (ac = some ['r', 'e', 's', 'o', 'u', 'r', 'c', 'e'] ∧ hasArgOf af = true) := by
  rw [debugger_dispatch_model, show ((4 : Int) = ((4 : Nat) : Int)) from rfl, Int.ofNat_inj,
    handler_eq_four_iff]
  simp [reqOf, cfgOf, Dbg.evalCond, cmdOf_eq_resource, cmdOf_eq_pinauth, cmdOf_eq_printpin,
    cmdOf_isSome, secret_isRight, isYes_cookieOfTrust, and_assoc]

/-- `display_console` is selected exactly for a request without `__debugger__=yes` whose path is
the configured console path, with `evalex` on. -/
theorem debugger_dispatch_eq_five_iff (ad ac af as : Option Str) (fk : Bool)
    (pin_trust : Option Bool) (path secret : Str) (evalex : Bool) (cp : Option Str) :
    Gen.PyFns_Debug.debugger_dispatch ad ac af as fk pin_trust path secret evalex cp () () = 5
      ↔ ad ≠ some ['y', 'e', 's'] ∧ evalex = true ∧ cp = some path := by
  rw [debugger_dispatch_model, show ((5 : Int) = ((5 : Nat) : Int)) from rfl, Int.ofNat_inj,
    handler_eq_five_iff]
  cases cp <;> simp [reqOf, cfgOf]

/-! ### `__call__` followed by `pin_auth`: the pinauth request end to end -/

/-- the answer of the translated `pin_auth` as an outcome of the model (`none`: an exception) -/
def pinAnswerOutcome : Except String (Option (Bool × Bool × Int)) → Option Dbg.Outcome
  | .ok none => some .securityError
  | .ok (some (a, e, _)) => some (.pinauth ⟨a, e⟩)
  | .error _ => none

/-- **A pinauth request through the translated code is `Dbg.respond`**: take any request for which
the translated `__call__` selects `pin_auth` (code 2), with the trust verdict supplied by the
translated `check_pin_trust` for the request's cookie and the configured PIN; then the translated
`pin_auth` - whose own trust verdict comes from the same `check_pin_trust` - answers exactly what
the model's `respond` answers for the abstracted request and configuration (`SecurityError` behind
an untrusted Host, otherwise the `{"auth", "exhausted"}` pair of `Dbg.pinAuth`), for every counter
value within the byte range, every PIN (or `None`) and every `pin` argument text. This closes the
gap between the C20 theorems about `respond` (`pinauth_gate`, `untrusted_host`, the lockout
theorems over `pinAuth`) and the three methods as they are in the source today. -/
theorem dispatch_pinauth_respond (hash_pin : Str → Str) (fresh : Int → Bool) (cookie : Option Str)
    (ad ac af as : Option Str) (fk : Bool) (path secret : Str) (evalex : Bool) (cp : Option Str)
    (pin : Option Str) (pinLogging hostTrusted : Bool) (text : Str) (failed : Int) (s l : Bool)
    (h0 : 0 ≤ failed) (h1 : failed ≤ 255) (t : Option Bool)
    (ht : Gen.PyFns_Debug.check_pin_trust hash_pin fresh cookie pin () = .ok t)
    (h2 : Gen.PyFns_Debug.debugger_dispatch ad ac af as fk t path secret evalex cp () () = 2) :
    pinAnswerOutcome (pinRequest hash_pin fresh cookie hostTrusted (.ok text) pin failed s l).2
      = some (Dbg.respond (cfgOf evalex pin.isSome cp pinLogging) (byte failed)
          (reqOf ad ac af as fk path secret cp hostTrusted (classify hash_pin fresh cookie pin)
            (pinRightOpt text pin))) := by
  rw [check_pin_trust_eq] at ht
  have htc : t = trustCode (Dbg.checkPinTrust pin.isSome (classify hash_pin fresh cookie pin)) := by
    injection ht with ht; exact ht.symm
  have hh := debugger_dispatch_eq ad ac af as fk t path secret evalex cp pin.isSome pinLogging
    hostTrusted (pinRightOpt text pin) (classify hash_pin fresh cookie pin) htc
  rw [h2, show ((2 : Int) = ((2 : Nat) : Int)) from rfl, Int.ofNat_inj] at hh
  rw [respond_eq_handler, ← hh]
  cases hostTrusted with
  | false =>
    rw [pin_request_untrusted_host]
    rfl
  | true =>
    rw [pin_request_eq hash_pin fresh cookie text pin failed s l h0 h1]
    rfl

/-- The failure counter after such a request is the model's `nextCounter`: unchanged behind an
untrusted Host, otherwise the counter `Dbg.pinAuth` returns (saturating increment for a counted
failure, reset to 0 for the right PIN). -/
theorem dispatch_pinauth_counter (hash_pin : Str → Str) (fresh : Int → Bool) (cookie : Option Str)
    (ad ac af as : Option Str) (fk : Bool) (path secret : Str) (evalex : Bool) (cp : Option Str)
    (pin : Option Str) (pinLogging hostTrusted : Bool) (text : Str) (failed : Int) (s l : Bool)
    (h0 : 0 ≤ failed) (h1 : failed ≤ 255) (t : Option Bool)
    (ht : Gen.PyFns_Debug.check_pin_trust hash_pin fresh cookie pin () = .ok t)
    (h2 : Gen.PyFns_Debug.debugger_dispatch ad ac af as fk t path secret evalex cp () () = 2) :
    (pinRequest hash_pin fresh cookie hostTrusted (.ok text) pin failed s l).1.1
      = ((Dbg.nextCounter (cfgOf evalex pin.isSome cp pinLogging) (byte failed)
          (reqOf ad ac af as fk path secret cp hostTrusted (classify hash_pin fresh cookie pin)
            (pinRightOpt text pin))).toNat : Int) := by
  rw [check_pin_trust_eq] at ht
  have htc : t = trustCode (Dbg.checkPinTrust pin.isSome (classify hash_pin fresh cookie pin)) := by
    injection ht with ht; exact ht.symm
  have hh := debugger_dispatch_eq ad ac af as fk t path secret evalex cp pin.isSome pinLogging
    hostTrusted (pinRightOpt text pin) (classify hash_pin fresh cookie pin) htc
  rw [h2, show ((2 : Int) = ((2 : Nat) : Int)) from rfl, Int.ofNat_inj] at hh
  unfold Dbg.nextCounter
  rw [respond_eq_handler, ← hh]
  cases hostTrusted with
  | false =>
    rw [pin_request_untrusted_host]
    simp [handlerOutcome, Dbg.hostGate, reqOf, byte_toNat failed h0 h1]
  | true =>
    rw [pin_request_eq hash_pin fresh cookie text pin failed s l h0 h1]
    simp [handlerOutcome, Dbg.hostGate, reqOf, cfgOf, pinAuthSpec]

/-! ### sanity examples (the statements are not vacuous) -/

example : Gen.PyFns_Debug.check_pin_trust id (fun ts => decide (5 < ts)) (some "17|abc".toList)
    (some "abc".toList) () = .ok (some true) := by decide
example : Gen.PyFns_Debug.check_pin_trust id (fun ts => decide (5 < ts)) (some "17|abd".toList)
    (some "abc".toList) () = .ok none := by decide
example : Gen.PyFns_Debug.check_pin_trust id (fun ts => decide (5 < ts)) (some [])
    (some "abc".toList) () = .ok (some false) := by decide
example : Gen.PyFns_Debug.fail_pin_auth 255 false false = (255, true, true) := by decide
example : Gen.PyFns_Debug.pin_auth true (some false) (.ok " 123-456 ".toList) (some "123456".toList)
    7 false false () = ((0, false, false), .ok (some (true, false, 1))) := by decide
example : Gen.PyFns_Debug.pin_auth true (some false) (.ok "123-456".toList) (some "123456".toList)
    11 false false () = ((11, false, false), .ok (some (false, true, 0))) := by decide
example : Gen.PyFns_Debug.debugger_dispatch (some "yes".toList) (some "1+1".toList) none
    (some "S".toList) true (some true) "/".toList "S".toList true (some "/console".toList) () () = 4 := by
  decide

end Wz.PyFnsEq.Debug
