/-
`EnvironBuilder.from_environ` (C15): turning the environ of a builder back into a builder and
building again gives the same environ, for arguments of the property's domain. Core Lean only.
-/
import WzVerif.Lemmas.UrlBuilderForms
namespace Wz.Url
open Wz

theorem hostport_noslash {ha : Str} (hh : ∀ c ∈ ha, hostChar c = true) (port : Option Nat) :
    '/' ∉ hostBr ha ++ portText port := by
  intro hm
  rcases List.mem_append.mp hm with hm | hm
  · have := (hostBr_chars hh _ hm).2.1
    revert this; decide
  · have := (hostChar_ne (portText_chars port _ hm).1).2.2.2.1
    revert this; decide

theorem hostport_ne {ha : Str} (hne : ha ≠ []) (port : Option Nat) : hostBr ha ++ portText port ≠ [] := by
  intro he
  have h1 := (List.append_eq_nil_iff.mp he).1
  unfold hostBr at h1
  split at h1
  · cases h1
  · exact hne h1

/-- `_make_base_url(scheme, host, script_root)` for a script root without a trailing slash is the base
URL text with one `/` appended -/
theorem makeBaseUrl_eq {o : UrlOpaque} (laws : HostLaws o) {scheme ha R : Str} {port : Option Nat}
    (b : BaseArg o scheme ha port R) (hR : rstripSlash R = R) :
    makeBaseUrl scheme (hostBr ha ++ portText port) R = baseText scheme ha port (R ++ ['/']) := by
  let p0 : Parts := { scheme := scheme, host := ha, port := port }
  let F0 : Conv :=
    { fu := id, fp := id, fpath := fun _ => R, fquery := fun _ => [], ffrag := fun _ => [] }
  have np0 : NetlocParts F0.fu F0.fp p0 :=
    ⟨b.host_ne, b.host_chars, fun u hu => by simp [p0, truthy] at hu, fun u hu => by simp [p0, truthy] at hu,
      b.port⟩
  have g0 : GoodSplit o (F0.apply p0) :=
    good_apply np0 b.scheme b.bracket (netlocOk_of_law laws.nfkc _)
      ⟨b.root_form, b.root_chars.1, b.root_chars.2.1, b.root_chars.2.2⟩
      ⟨by simp [F0], fun c hc => by cases hc⟩ (fun c hc => by cases hc)
  have hnet0 : netloc F0.fu F0.fp p0 = hostBr ha ++ portText port := by
    rw [netloc_eq]; simp [authText, p0, truthy]
  have hun : urlunsplit ⟨scheme, hostBr ha ++ portText port, R, [], []⟩ = baseText scheme ha port R := by
    have := urlunsplit_good g0
    simp only [Conv.apply, hnet0, tailOf, F0, p0] at this
    rw [this]
    simp [baseText, List.append_assoc]
  unfold makeBaseUrl
  rw [hun]
  have hstrip : rstripSlash (baseText scheme ha port R) = baseText scheme ha port R := by
    unfold baseText
    rw [rstripSlash_append, hR]
    by_cases hr : R = []
    · rw [if_pos hr, hr, List.append_nil, rstripSlash_append,
        rstripSlash_noslash (hostport_noslash b.host_chars port), if_neg (hostport_ne b.host_ne port)]
    · rw [if_neg hr]
  rw [hstrip]
  simp [baseText, List.append_assoc]

end Wz.Url
