/-
Helper lemmas for C15 (quote / dances / dispatcher). Core Lean only.
-/
import WzVerif.Model.Url
namespace Wz.Url
open Wz

/-! ### quote -/

theorem char_toNat_ofNat_lt {n : Nat} (h : n < 256) : (Char.ofNat n).toNat = n := by
  have hv : n.isValidChar := Or.inl (by omega)
  rw [Char.ofNat, dif_pos hv]
  rfl

theorem hexU_ascii : ∀ d, d < 16 → (hexU d).toNat < 128 := by decide

/-- upper-case hex digits are in urllib's always-safe set (regenerated table) -/
theorem hexU_alwaysSafe : ∀ d, d < 16 → tbl Gen.UrlTables.alwaysSafe (hexU d).toNat = true := by decide

theorem utf8EncodeChar_ascii {c : Char} (h : c.toNat < 128) :
    String.utf8EncodeChar c = [UInt8.ofNat c.toNat] := by
  unfold String.utf8EncodeChar
  simp only [Char.toNat_val]
  rw [if_pos (by omega)]

theorem uint8_ofNat_toNat (b : UInt8) : UInt8.ofNat b.toNat = b := by
  cases b with | _ v => simp [UInt8.ofNat, UInt8.toNat]

/-- a character that `quote(…, safe)` leaves alone -/
def Fixed (safe : Str) (c : Char) : Prop := c.toNat < 128 ∧ isSafe safe (UInt8.ofNat c.toNat) = true

theorem uint8_toNat_ofNat_lt {n : Nat} (h : n < 256) : (UInt8.ofNat n).toNat = n := by
  simp [UInt8.toNat_ofNat']; omega

theorem quoteByte_ascii (safe : Str) (b : UInt8) : ∀ c ∈ quoteByte safe b, c.toNat < 128 := by
  intro c hc
  unfold quoteByte at hc
  split at hc
  · rename_i hs
    have hb : b.toNat < 128 := by
      simp only [isSafe, Bool.and_eq_true, decide_eq_true_eq] at hs; exact hs.1
    simp only [List.mem_singleton] at hc
    subst hc
    rw [char_toNat_ofNat_lt (by omega)]; exact hb
  · simp only [pct, List.mem_cons, List.mem_nil_iff, or_false] at hc
    have hb := b.toNat_lt
    rcases hc with rfl | rfl | rfl
    · decide
    · exact hexU_ascii _ (by omega)
    · exact hexU_ascii _ (Nat.mod_lt _ (by decide))

theorem quoteBytes_ascii (safe : Str) (bs : Bytes) : ∀ c ∈ quoteBytes safe bs, c.toNat < 128 := by
  intro c hc
  obtain ⟨b, _, hb⟩ := List.mem_flatMap.mp hc
  exact quoteByte_ascii safe b c hb

theorem quoteByte_fixed {safe : Str} (hp : safe.contains '%' = true) (b : UInt8) :
    ∀ c ∈ quoteByte safe b, Fixed safe c := by
  intro c hc
  unfold quoteByte at hc
  split at hc
  · rename_i hs
    have hb : b.toNat < 128 := by
      simp only [isSafe, Bool.and_eq_true, decide_eq_true_eq] at hs; exact hs.1
    simp only [List.mem_singleton] at hc
    subst hc
    refine ⟨by rw [char_toNat_ofNat_lt (by omega)]; exact hb, ?_⟩
    rw [char_toNat_ofNat_lt (by omega), uint8_ofNat_toNat]; exact hs
  · simp only [pct, List.mem_cons, List.mem_nil_iff, or_false] at hc
    have hb := b.toNat_lt
    have hex : ∀ d, d < 16 → Fixed safe (hexU d) := by
      intro d hd
      have h1 := hexU_ascii d hd
      refine ⟨h1, ?_⟩
      simp only [isSafe, Bool.and_eq_true, decide_eq_true_eq, Bool.or_eq_true]
      rw [uint8_toNat_ofNat_lt (by omega)]
      exact ⟨h1, Or.inl (hexU_alwaysSafe d hd)⟩
    rcases hc with rfl | rfl | rfl
    · refine ⟨by decide, ?_⟩
      simp only [isSafe, Bool.and_eq_true, decide_eq_true_eq, Bool.or_eq_true]
      refine ⟨by decide, Or.inr ?_⟩
      have : Char.ofNat (UInt8.ofNat '%'.toNat).toNat = '%' := by decide
      rw [this]; exact hp
    · exact hex _ (by omega)
    · exact hex _ (Nat.mod_lt _ (by decide))

theorem quote_of_fixed {safe : Str} : ∀ (t : Str), (∀ c ∈ t, Fixed safe c) → quote safe t = t
  | [], _ => by simp [quote, quoteBytes, utf8Enc]
  | c :: t, h => by
    obtain ⟨h1, h2⟩ := h c (by simp)
    have ih := quote_of_fixed t (fun x hx => h x (List.mem_cons_of_mem _ hx))
    simp only [quote, quoteBytes, utf8Enc, List.flatMap_cons, List.flatMap_append] at ih ⊢
    rw [ih, utf8EncodeChar_ascii h1]
    simp [quoteByte, h2, uint8_toNat_ofNat_lt (show c.toNat < 256 by omega)]

theorem quote_idem {safe : Str} (hp : safe.contains '%' = true) (s : Str) :
    quote safe (quote safe s) = quote safe s := by
  apply quote_of_fixed
  intro c hc
  obtain ⟨b, _, hb⟩ := List.mem_flatMap.mp hc
  exact quoteByte_fixed hp b c hb

/-! ### the dances -/

theorem latin1Enc_latin1Dec : ∀ (bs : Bytes), Py.latin1Enc (Py.latin1Dec bs) = some bs
  | [] => rfl
  | b :: t => by
    have hb := b.toNat_lt
    have ih := latin1Enc_latin1Dec t
    simp only [Py.latin1Dec, List.map_cons] at ih ⊢
    simp only [Py.latin1Enc, char_toNat_ofNat_lt hb, hb, if_true, ih, Option.map_some,
      uint8_ofNat_toNat]

theorem dance_roundtrip' (s : Str) : decodingDance (encodingDance s) = some s := by
  simp [decodingDance, encodingDance, latin1Enc_latin1Dec, Py.decodeReplace_utf8Enc]

/-! ### DispatcherMiddleware -/

/-- `k` is a prefix of `p` that ends at a `/` boundary: `p == k or p.startswith(k + "/")` -/
def BP (k p : Str) : Prop := ∃ rest, p = k ++ rest ∧ (rest = [] ∨ rest.head? = some '/')

theorem split_last : ∀ {r : Str}, r.contains '/' = true →
    ∃ seg rest, r = seg ++ '/' :: rest ∧ '/' ∉ seg ∧ r.takeWhile (· != '/') = seg ∧
      (r.dropWhile (· != '/')).drop 1 = rest
  | [], h => by simp at h
  | c :: t, h => by
    by_cases hc : c = '/'
    · subst hc
      exact ⟨[], t, by simp, by simp, by simp [List.takeWhile], by simp [List.dropWhile]⟩
    · have ht : t.contains '/' = true := by
        simp only [List.contains_cons, Bool.or_eq_true, beq_iff_eq] at h
        rcases h with h | h
        · exact absurd h.symm hc
        · exact h
      obtain ⟨seg, rest, h1, h2, h3, h4⟩ := split_last ht
      refine ⟨c :: seg, rest, by rw [h1]; rfl, ?_, ?_, ?_⟩
      · intro hm
        rcases List.mem_cons.mp hm with e | e
        · exact hc e.symm
        · exact h2 e
      · have hb : (c != '/') = true := by simpa using hc
        simp [List.takeWhile, hb, h3]
      · have hb : (c != '/') = true := by simpa using hc
        simp only [List.dropWhile, hb]
        exact h4

theorem bp_cases {k tail x y : Str} (h : k ++ tail = x ++ y) (ht : tail = [] ∨ tail.head? = some '/')
    (hlen : k.length ≤ x.length) : k = x ∨ ∃ a, x = k ++ '/' :: a := by
  rcases List.append_eq_append_iff.mp h with ⟨a', h1, h2⟩ | ⟨c', h1, h2⟩
  · cases a' with
    | nil => left; simpa using h1.symm
    | cons c a =>
      right
      rcases ht with ht | ht
      · rw [ht] at h2; simp at h2
      · rw [h2] at ht
        simp only [List.cons_append, List.head?_cons, Option.some.injEq] at ht
        subst ht
        exact ⟨a, h1⟩
  · have : c' = [] := by
      have := congrArg List.length h1
      simp only [List.length_append] at this
      exact List.eq_nil_of_length_eq_zero (by omega)
    left; simpa [this] using h1

structure DispatchSpec (mounts : List Str) (p : Str) (d : Dispatch) : Prop where
  concat : d.script ++ d.pathInfo = p
  chosen : ∀ k, d.mount = some k → k ∈ mounts ∧ d.script = k ∧ BP k p ∧
    ∀ k' ∈ mounts, BP k' p → k'.length ≤ k.length
  default : d.mount = none → ∀ k' ∈ mounts, ¬ BP k' p

theorem dispatchLoop_spec (mounts : List Str) (p : Str) :
    ∀ (fuel : Nat) (r pi : Str), r.length < fuel → r.reverse ++ pi = p →
      (pi = [] ∨ pi.head? = some '/') →
      (∀ k ∈ mounts, BP k p → k.length ≤ r.length) →
      DispatchSpec mounts p (dispatchLoop mounts fuel r pi) := by
  intro fuel
  induction fuel with
  | zero => intro r pi h; omega
  | succ fuel ih =>
    intro r pi hf hp hpi hinv
    unfold dispatchLoop
    have hbp : BP r.reverse p := ⟨pi, hp.symm, hpi⟩
    have hin : mounts.contains r.reverse = true →
        DispatchSpec mounts p { script := r.reverse, pathInfo := pi, mount := some r.reverse } := by
      intro hm
      refine ⟨hp, ?_, by intro h; cases h⟩
      intro k hk
      cases hk
      exact ⟨by simpa using hm, rfl, hbp, fun k' hk' hb => by simpa using hinv k' hk' hb⟩
    by_cases hs : r.contains '/' = true
    · rw [if_pos hs]
      by_cases hm : mounts.contains r.reverse = true
      · rw [if_pos hm]; exact hin hm
      · rw [if_neg hm]
        obtain ⟨seg, rest, h1, h2, h3, h4⟩ := split_last hs
        simp only [h3, h4]
        have hrev : r.reverse = rest.reverse ++ '/' :: seg.reverse := by rw [h1]; simp
        apply ih
        · have := congrArg List.length h1
          simp only [List.length_append, List.length_cons] at this
          omega
        · rw [← hp, hrev]; simp
        · right; rfl
        · intro k hk hb
          have hle := hinv k hk hb
          obtain ⟨tail, ht1, ht2⟩ := hb
          have heq : k ++ tail = r.reverse ++ pi := by rw [← ht1, hp]
          rcases bp_cases heq ht2 (by simpa using hle) with e | ⟨a, ha⟩
          · exfalso; apply hm; rw [← e]; simpa using hk
          · rw [hrev] at ha
            rcases List.append_eq_append_iff.mp ha with ⟨a', g1, g2⟩ | ⟨c', g1, g2⟩
            · cases a' with
              | nil => have := congrArg List.length g1; simp at this; omega
              | cons c a'' =>
                exfalso
                simp only [List.cons_append, List.cons.injEq] at g2
                apply h2
                have : '/' ∈ seg.reverse := by rw [g2.2]; simp
                simpa using this
            · have := congrArg List.length g1
              simp only [List.length_append, List.length_reverse] at this
              omega
    · rw [if_neg hs]
      have hs' : '/' ∉ r := by simpa using hs
      by_cases hm : mounts.contains r.reverse = true
      · rw [if_pos hm]; exact hin hm
      · rw [if_neg hm]
        refine ⟨hp, (by intro k h; cases h), ?_⟩
        intro _ k' hk' hb
        have hle := hinv k' hk' hb
        obtain ⟨tail, ht1, ht2⟩ := hb
        have heq : k' ++ tail = r.reverse ++ pi := by rw [← ht1, hp]
        rcases bp_cases heq ht2 (by simpa using hle) with e | ⟨a, ha⟩
        · apply hm; rw [← e]; simpa using hk'
        · apply hs'
          have : '/' ∈ r.reverse := by rw [ha]; simp
          simpa using this

theorem dispatch_spec (mounts : List Str) (p : Str) : DispatchSpec mounts p (dispatch mounts p) := by
  unfold dispatch
  apply dispatchLoop_spec mounts p
  · simp
  · simp
  · left; rfl
  · intro k _ ⟨rest, h, _⟩
    have := congrArg List.length h
    simp only [List.length_append] at this
    simp only [List.length_reverse]; omega

end Wz.Url
