import WzVerif.Lemmas.Http
set_option linter.unusedSimpArgs false
namespace Wz.Http
open Wz

/-! ### entity tags -/

def TagOk (x : Str) : Bool := !x.contains '"' && !x.contains '\n'

def etagItemText (it : Bool × Str) : Str :=
  (if it.1 then ['W', '/'] else []) ++ '"' :: (it.2 ++ ['"'])

theorem etagAlt1_tag (x rest rest' acc : Str) (hq : '"' ∉ x) (hn : '\n' ∉ x)
    (ht : etagTerm? rest = some rest') :
    etagAlt1 (x ++ '"' :: rest) acc = some (acc.reverse ++ x, rest') := by
  induction x generalizing acc with
  | nil => simp [etagAlt1, ht]
  | cons c t ih =>
    have h1 : c ≠ '"' := fun e => hq (by simp [e])
    have h2 : c ≠ '\n' := fun e => hn (by simp [e])
    have := ih (c :: acc) (fun e => hq (by simp [e])) (fun e => hn (by simp [e]))
    simp [etagAlt1, h1, dotCh, h2, this]

theorem etagTerm_nil : etagTerm? [] = some [] := by decide

theorem etagTerm_sep (more : Str) (h : ∀ c, more.head? = some c → Py.isSpace c = false) :
    etagTerm? (", ".toList ++ more) = some more := by
  have e : ", ".toList = [',', ' '] := by decide
  rw [e]
  simp only [List.cons_append, List.nil_append, etagTerm?]
  simp only [List.dropWhile_cons, show Py.isSpace ',' = false from by decide, Bool.false_eq_true, if_false,
    show Py.isSpace ' ' = true from by decide, if_true]
  cases more with
  | nil => rfl
  | cons c t => simp [List.dropWhile_cons, h c rfl]

theorem etagMatch_item (it : Bool × Str) (rest rest' : Str) (hok : TagOk it.2 = true)
    (ht : etagTerm? rest = some rest') :
    etagMatch (etagItemText it ++ rest) = some (it.1, some it.2, none, rest') := by
  obtain ⟨w, x⟩ := it
  simp only [TagOk, Bool.and_eq_true, Bool.not_eq_true'] at hok
  obtain ⟨hq, hn⟩ := hok
  have hq' : '"' ∉ x := by simpa using hq
  have hn' : '\n' ∉ x := by simpa using hn
  have hb : etagBody ('"' :: (x ++ '"' :: rest)) = some (some x, none, rest') := by
    simp [etagBody, etagAlt1_tag x rest rest' [] hq' hn' ht]
  cases w with
  | true =>
    simp only [etagItemText, if_true, List.cons_append, List.nil_append, List.append_assoc]
    simp [etagMatch, hb]
  | false =>
    simp only [etagItemText, Bool.false_eq_true, if_false, List.nil_append, List.cons_append, List.append_assoc]
    unfold etagMatch
    split
    · next w q heq =>
      simp at heq
      have hw : (w == 'W' || w == 'w') = false := by rw [← heq.1]; decide
      simp only [hw, Bool.false_eq_true, if_false]
      rw [← heq.1] at *
      simp [hb]
    · simp [hb]

theorem etagItemText_head (it : Bool × Str) :
    ∃ c t, etagItemText it = c :: t ∧ Py.isSpace c = false := by
  obtain ⟨w, x⟩ := it
  cases w with
  | true => exact ⟨'W', _, rfl, by decide⟩
  | false => exact ⟨'"', _, rfl, by decide⟩

def etagStrongs (items : List (Bool × Str)) : List (Option Str) :=
  (items.filter (fun it => !it.1)).map (fun it => some it.2)
def etagWeaks (items : List (Bool × Str)) : List (Option Str) :=
  (items.filter (fun it => it.1)).map (fun it => some it.2)

theorem parseEtagsGo_items (it : Bool × Str) (items : List (Bool × Str)) (fuel : Nat)
    (sacc wacc : List (Option Str))
    (hok : ∀ x ∈ it :: items, TagOk x.2 = true) (hf : items.length < fuel) :
    parseEtagsGo fuel (join ", " ((it :: items).map etagItemText)) sacc wacc
      = ⟨sacc.reverse ++ etagStrongs (it :: items), wacc.reverse ++ etagWeaks (it :: items), false⟩ := by
  induction items generalizing it fuel sacc wacc with
  | nil =>
    cases fuel with
    | zero => simp at hf
    | succ f =>
      obtain ⟨c, t, hct, _⟩ := etagItemText_head it
      have hm := etagMatch_item it [] [] (hok it (by simp)) etagTerm_nil
      simp only [List.append_nil] at hm
      have hne : (etagItemText it).isEmpty = false := by rw [hct]; rfl
      simp only [join, List.map_cons, List.map_nil, List.intercalate_singleton, parseEtagsGo, hne,
        Bool.false_eq_true, if_false, hm]
      obtain ⟨w, x⟩ := it
      cases f with
      | zero => cases w <;> simp [parseEtagsGo, etagStrongs, etagWeaks]
      | succ f' => cases w <;> simp [parseEtagsGo, etagStrongs, etagWeaks]
  | cons y ys ih =>
    cases fuel with
    | zero => simp at hf
    | succ f =>
      have hj : join ", " ((it :: y :: ys).map etagItemText)
          = etagItemText it ++ (", ".toList ++ join ", " ((y :: ys).map etagItemText)) := by
        simp [join, List.intercalate_cons_cons]
      obtain ⟨c, t, hct, _⟩ := etagItemText_head it
      have hhead : ∀ c, (join ", " ((y :: ys).map etagItemText)).head? = some c → Py.isSpace c = false := by
        intro c hc
        obtain ⟨c', t', hct', hsp⟩ := etagItemText_head y
        cases ys with
        | nil => simp [join, hct'] at hc; subst hc; exact hsp
        | cons z zs =>
          simp [join, List.intercalate_cons_cons, hct'] at hc; subst hc; exact hsp
      have hm := etagMatch_item it _ _ (hok it (by simp)) (etagTerm_sep _ hhead)
      have hne : (etagItemText it ++ (", ".toList ++ join ", " ((y :: ys).map etagItemText))).isEmpty = false := by
        rw [hct]; rfl
      rw [hj]
      simp only [parseEtagsGo, hne, Bool.false_eq_true, if_false, hm]
      obtain ⟨w, x⟩ := it
      have hok' : ∀ x ∈ y :: ys, TagOk x.2 = true := fun z hz => hok z (by simp at hz ⊢; right; exact hz)
      have hf' : ys.length < f := by simp at hf; omega
      cases w with
      | true =>
        simp only [if_true]
        rw [ih y f sacc (some x :: wacc) hok' hf']
        simp [etagStrongs, etagWeaks]
      | false =>
        simp only [Bool.false_eq_true, if_false]
        rw [ih y f (some x :: sacc) wacc hok' hf']
        simp [etagStrongs, etagWeaks]

end Wz.Http
namespace Wz.Http
open Wz

theorem length_intercalate_ge (sep : Str) (l : List Str) (h : ∀ x ∈ l, x ≠ []) :
    l.length ≤ (List.intercalate sep l).length := by
  induction l with
  | nil => simp
  | cons a t ih =>
    cases t with
    | nil =>
      have := h a (by simp)
      cases a with
      | nil => exact absurd rfl this
      | cons _ _ => simp
    | cons b u =>
      have := ih (fun x hx => h x (by simp at hx ⊢; right; exact hx))
      have ha := h a (by simp)
      have hal : 0 < a.length := by
        cases a with
        | nil => exact absurd rfl ha
        | cons _ _ => simp
      simp only [List.intercalate_cons_cons, List.length_append, List.length_cons] at this ⊢
      omega

theorem etags_roundtrip_any (strong weak : List Str)
    (hs : ∀ x ∈ strong, TagOk x = true) (hw : ∀ x ∈ weak, TagOk x = true) :
    parseEtags (etagsToHeader ⟨strong.map some, weak.map some, false⟩)
      = ⟨strong.map some, weak.map some, false⟩ := by
  let items : List (Bool × Str) := strong.map (fun x => (false, x)) ++ weak.map (fun x => (true, x))
  have hhdr : etagsToHeader ⟨strong.map some, weak.map some, false⟩ = join ", " (items.map etagItemText) := by
    simp [etagsToHeader, items, etagItemText, etagElemText, Function.comp_def]
  have hS : etagStrongs items = strong.map some := by
    have f1 : ∀ l : List Str, l.filter (fun _ => true) = l := fun l => by induction l <;> simp_all
    have f2 : ∀ l : List Str, l.filter (fun _ => false) = [] := fun l => by induction l <;> simp_all
    simp [etagStrongs, items, List.filter_append, List.filter_map, Function.comp_def, f1, f2]
  have hW : etagWeaks items = weak.map some := by
    have f1 : ∀ l : List Str, l.filter (fun _ => true) = l := fun l => by induction l <;> simp_all
    have f2 : ∀ l : List Str, l.filter (fun _ => false) = [] := fun l => by induction l <;> simp_all
    simp [etagWeaks, items, List.filter_append, List.filter_map, Function.comp_def, f1, f2]
  have hok : ∀ x ∈ items, TagOk x.2 = true := by
    intro x hx
    simp only [items, List.mem_append, List.mem_map] at hx
    rcases hx with ⟨y, hy, rfl⟩ | ⟨y, hy, rfl⟩
    · exact hs y hy
    · exact hw y hy
  rw [hhdr]
  unfold parseEtags
  cases hi : items with
  | nil =>
    simp [join, parseEtagsGo]
    have h1 : strong = [] := by
      cases strong with
      | nil => rfl
      | cons _ _ => simp [items] at hi
    have h2 : weak = [] := by
      cases weak with
      | nil => rfl
      | cons _ _ => simp [items] at hi
    simp [h1, h2]
  | cons it rest =>
    have hlen := length_intercalate_ge ", ".toList ((it :: rest).map etagItemText) (by
      intro x hx
      simp only [List.mem_map] at hx
      obtain ⟨y, _, rfl⟩ := hx
      obtain ⟨c, t, h, _⟩ := etagItemText_head y
      rw [h]; simp)
    rw [parseEtagsGo_items it rest _ [] [] (by rw [← hi]; exact hok) (by
      simp only [join]; simp at hlen ⊢; omega)]
    rw [← hi, hS, hW]
    simp

end Wz.Http

namespace Wz.Http
open Wz

theorem unquote_quoteEtag (e : Str) (w : Bool) (hq : e.contains '"' = false) :
    (quoteEtag e w).map unquoteEtag = .ok (some (e, w)) := by
  have hl : ('"' :: (e ++ ['"'])).getLast? = some '"' := by
    rw [← List.cons_append, List.getLast?_concat]
  have ht : Tight ('"' :: (e ++ ['"'])) :=
    ⟨fun c hc => by simp at hc; subst hc; decide, fun c hc => by rw [hl] at hc; simp at hc; subst hc; decide⟩
  have ht2 : Tight ('W' :: '/' :: '"' :: (e ++ ['"'])) :=
    ⟨fun c hc => by simp at hc; subst hc; decide, fun c hc => by
      rw [List.getLast?_cons_cons, List.getLast?_cons_cons, hl] at hc; simp at hc; subst hc; decide⟩
  cases w with
  | true =>
    simp only [quoteEtag, hq, Bool.false_eq_true, if_false, if_true, Except.map, List.cons_append,
      List.nil_append, unquoteEtag, List.isEmpty_cons]
    rw [strip_tight ht2]
    simp [hl]
  | false =>
    simp only [quoteEtag, hq, Bool.false_eq_true, if_false, Except.map, List.nil_append, unquoteEtag,
      List.isEmpty_cons, List.cons_append]
    rw [strip_tight ht]
    simp [hl]

end Wz.Http
