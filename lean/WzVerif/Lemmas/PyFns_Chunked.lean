/-
Helper lemmas for Props/C19T (translated `DechunkedInput.read_chunk_len` / `readinto` against the
hand-written model of `Model/Chunked.lean`): facts about the model and the prelude that do not
mention the generated definitions, and the relation `Agrees` between an outcome of the translated
loop and an outcome of the model's loop.
-/
import WzVerif.Model.Chunked
import WzVerif.Lemmas.Chunked
import WzVerif.Lemmas.PyFns_Prelude
open Wz Wz.Chunked

namespace Wz.PyFnsChunked

/-! ### `int(line.strip(), 16)`: the explicit `strip()` changes nothing -/

theorem rstripBy_idem (p : Char → Bool) (u : List Char) : Py.rstripBy p (Py.rstripBy p u) = Py.rstripBy p u := by
  unfold Py.rstripBy
  rw [List.reverse_reverse]
  congr 1
  generalize u.reverse = l
  induction l with
  | nil => rfl
  | cons a t ih =>
    by_cases h : p a = true
    · simp only [List.dropWhile_cons_of_pos h, ih]
    · simp only [List.dropWhile_cons_of_neg h]

theorem dropWhile_rstripBy (p : Char → Bool) (s : List Char) :
    (Py.rstripBy p (s.dropWhile p)).dropWhile p = Py.rstripBy p (s.dropWhile p) := by
  have hpre : Py.rstripBy p (s.dropWhile p) <+: s.dropWhile p := by
    unfold Py.rstripBy
    have := List.dropWhile_suffix p (l := (s.dropWhile p).reverse)
    rw [← List.reverse_prefix, List.reverse_reverse] at this
    exact this
  obtain ⟨r, hr⟩ := hpre
  cases hq : Py.rstripBy p (s.dropWhile p) with
  | nil => rfl
  | cons a t =>
    rw [hq] at hr
    have hne : s.dropWhile p ≠ [] := by rw [← hr]; simp
    have := List.head_dropWhile_not p hne
    have ha : (s.dropWhile p).head hne = a := by simp [← hr]
    rw [ha] at this
    rw [List.dropWhile_cons_of_neg (by simp [this])]

theorem strip_strip (s : List Char) : Py.strip (Py.strip s) = Py.strip s := by
  unfold Py.strip
  rw [dropWhile_rstripBy, rstripBy_idem]

theorem pyInt16_strip (s : List Char) : pyInt16 (Py.strip s) = pyInt16 s := by
  unfold pyInt16; rw [strip_strip]


/-! ### the translated loop against the model's loop -/

/-- the attributes of the translated method: `_done`, `_len`, the bytes `_rfile` still holds, and
the caller's buffer -/
abbrev TState := Bool × Int × Bytes × Bytes

/-- An outcome of the translated `while` loop agrees with an outcome of the model's `readLoop`, for
a call whose buffer was `buf0`: the same `_done`, `_len` and remaining wire in both; an exception in
both or in neither, the same one; and when the loop ends normally with `acc'` copied by the model,
the translated loop has `read = len(acc')` and its buffer is `acc'` followed by the untouched rest
of `buf0`. (The model drops what was copied when an exception escapes; the buffer is then not
compared.) -/
def Agrees (buf0 : Bytes) : Pre.Loop (TState × Except String Int) (Bool × Int × Bytes × Bytes × Int) → Res × DState → Prop
  | .ret (s, r), (mr, st') => s.1 = st'.done ∧ s.2.1 = (st'.len : Int) ∧ s.2.2.1 = st'.wire ∧ ∃ e, r = .error e ∧ mr = .error e
  | .fall (d, l, w, b, rd), (mr, st') => d = st'.done ∧ l = (st'.len : Int) ∧ w = st'.wire ∧
      ∃ acc', mr = .ok acc' ∧ rd = (acc'.length : Int) ∧ b = acc' ++ buf0.drop acc'.length ∧ acc'.length ≤ buf0.length

theorem setSlice_acc (acc rest data : Bytes) (n : Nat) (hd : data.length = n) (hn : n ≤ rest.length) :
    Pre.setSlice (acc ++ rest) (some (acc.length : Int)) (some ((acc.length : Int) + (n : Int))) data
      = (acc ++ data) ++ rest.drop n := by
  unfold Pre.setSlice Pre.clamp
  have h1 : ¬ ((acc.length : Int) < 0) := by omega
  have h2 : ¬ ((acc.length : Int) + (n : Int) < 0) := by omega
  simp only [h1, h2, if_false, List.length_append]
  have e1 : min (acc.length : Int).toNat (acc.length + rest.length) = acc.length := by omega
  have e2 : min ((acc.length : Int) + (n : Int)).toNat (acc.length + rest.length) = acc.length + n := by omega
  rw [e1, e2]
  have e3 : max acc.length (acc.length + n) = acc.length + n := by omega
  rw [e3]
  simp [List.drop_append]

theorem readline_length (w : Bytes) : (readline w).1.length + (readline w).2.length = w.length := by
  have := congrArg List.length (readline_split w)
  simpa using this


end Wz.PyFnsChunked
