/-
C06 on objects *built by assignment histories*: a `_CacheControl` / `ContentSecurityPolicy` object is a
dict that the application fills through typed properties (`cc.max_age = 5`, `cc.no_store = True`,
`del cc.max_age`, `csp.default_src = "'self'"`, `csp.img_src = None`) and plain dict operations
(`cc["x"] = "y"`, `del cc["x"]`, `pop`). The round trip is proved for every object reachable by such
a history from a valid directive dict, not only for one assignment on a constructed dict.
-/
import WzVerif.Lemmas.HttpCC
import WzVerif.Lemmas.HttpCsp
namespace Wz.Http
open Wz

/-! ### Cache-Control -/

/-- the operation stays in the property's domain: token keys free of `*`, typed values of the
property's type -/
def CCOpOk : CCOp → Bool
  | .setTyped key ty v => KeyOk key && CCValFor ty v
  | .setItem key _ => KeyOk key
  | _ => true

theorem dictOk_nil : DictOk [] := ⟨by simp, by simp⟩

theorem dictOk_ccStep (d : Dict (Option Str)) (op : CCOp) (hd : DictOk d) (hop : CCOpOk op = true) :
    DictOk (ccStep d op) := by
  cases op with
  | setTyped key ty v =>
    simp only [CCOpOk, Bool.and_eq_true] at hop
    exact dictOk_setCache d key v ty hd hop.1
  | delTyped key => exact dictOk_pop d key hd
  | setItem key v => exact dictOk_set d key v hd hop
  | popItem key => exact dictOk_pop d key hd
  | clear => exact dictOk_nil

theorem dictOk_ccRun (d : Dict (Option Str)) (ops : List CCOp) (hd : DictOk d)
    (hops : ∀ op ∈ ops, CCOpOk op = true) : DictOk (ccRun d ops) := by
  induction ops generalizing d with
  | nil => exact hd
  | cons op t ih =>
    simp only [ccRun, List.foldl_cons]
    exact ih _ (dictOk_ccStep d op hd (hops op List.mem_cons_self)) (fun o ho => hops o (List.mem_cons_of_mem _ ho))

theorem cacheControl_history_roundtrip_any (d : Dict (Option Str)) (ops : List CCOp) (hd : DictOk d)
    (hops : ∀ op ∈ ops, CCOpOk op = true) :
    (dumpHeaderDict (ccRun d ops) >>= parseCacheControl) = .ok (ccRun d ops) := by
  have hok := dictOk_ccRun d ops hd hops
  have := parseDict_dump_any _ hok.1 hok.2
  simpa [parseCacheControl_eq, funext parseCacheControl_eq] using this

/-- the typed getter after a history that ends with an assignment to that property -/
theorem cacheControl_history_get_any (d : Dict (Option Str)) (ops : List CCOp) (key : Str) (empty v : CCVal)
    (ty : CCType) (hd : DictOk d) (hops : ∀ op ∈ ops, CCOpOk op = true) (hk : KeyOk key = true)
    (hv : CCValFor ty v = true) :
    (dumpHeaderDict (ccRun d (ops ++ [.setTyped key ty v])) >>= parseCacheControl
        >>= fun p => getCacheValue p key empty ty) = .ok (ccExpected ty empty v) := by
  have hops' : ∀ op ∈ ops ++ [CCOp.setTyped key ty v], CCOpOk op = true := by
    intro op hop
    rcases List.mem_append.1 hop with h | h
    · exact hops op h
    · simp only [List.mem_singleton] at h; subst h
      simp [CCOpOk, hk, hv]
  rw [cacheControl_history_roundtrip_any d _ hd hops']
  simp only [ok_bind]
  simp only [ccRun, List.foldl_append, List.foldl_cons, List.foldl_nil, ccStep]
  exact getCache_setCache _ key empty v ty hv

/-! ### Content-Security-Policy -/

def CspOpOk : CspOp → Bool
  | .set key (some v) => CspItemOk (key, v)
  | _ => true

def CspDictOk (d : Dict Str) : Prop := (∀ x ∈ d, CspItemOk x = true) ∧ (d.map (·.1)).Nodup

theorem nodup_keys_dictSet {ν : Type} (d : Dict ν) (k : Str) (v : ν) (h : (d.map (·.1)).Nodup) :
    ((dictSet d k v).map (·.1)).Nodup := by
  rw [keys_dictSet]
  split
  · exact h
  · next hh =>
    rw [List.nodup_append]
    refine ⟨h, by simp, ?_⟩
    intro a ha b hb
    simp at hb; subst hb
    intro e; subst e
    exact hh ((dictHas_iff_mem d a).mpr ha)

theorem cspDictOk_set (d : Dict Str) (k v : Str) (hd : CspDictOk d) (hk : CspItemOk (k, v) = true) :
    CspDictOk (dictSet d k v) := by
  refine ⟨?_, nodup_keys_dictSet d k v hd.2⟩
  intro x hx
  unfold dictSet at hx
  split at hx
  · simp only [List.mem_map] at hx
    obtain ⟨y, hy, rfl⟩ := hx
    split
    · next hyk =>
      have : y.1 = k := by simpa using hyk
      rw [this]; exact hk
    · exact hd.1 y hy
  · simp only [List.mem_append, List.mem_singleton] at hx
    rcases hx with hx | rfl
    · exact hd.1 x hx
    · exact hk

theorem cspDictOk_pop (d : Dict Str) (k : Str) (hd : CspDictOk d) : CspDictOk (dictPop d k) := by
  constructor
  · intro x hx
    simp only [dictPop, List.mem_filter] at hx
    exact hd.1 x hx.1
  · rw [keys_dictPop]
    exact hd.2.filter _

theorem cspDictOk_step (d : Dict Str) (op : CspOp) (hd : CspDictOk d) (hop : CspOpOk op = true) :
    CspDictOk (cspOpStep d op) := by
  cases op with
  | set key v =>
    cases v with
    | none => exact cspDictOk_pop d key hd
    | some v => exact cspDictOk_set d key v hd hop
  | del key => exact cspDictOk_pop d key hd
  | clear => exact ⟨by simp [cspOpStep], by simp [cspOpStep]⟩

theorem csp_history_roundtrip_any (d : Dict Str) (ops : List CspOp) (hd : CspDictOk d)
    (hops : ∀ op ∈ ops, CspOpOk op = true) : parseCsp (dumpCsp (cspRun d ops)) = cspRun d ops := by
  have hok : CspDictOk (cspRun d ops) := by
    induction ops generalizing d with
    | nil => exact hd
    | cons op t ih =>
      simp only [cspRun, List.foldl_cons]
      exact ih _ (cspDictOk_step d op hd (hops op List.mem_cons_self)) (fun o ho => hops o (List.mem_cons_of_mem _ ho))
  exact csp_roundtrip_any _ hok.1 hok.2

end Wz.Http
