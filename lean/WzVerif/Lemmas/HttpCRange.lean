import WzVerif.Lemmas.HttpRange
import WzVerif.Lemmas.HttpOpt
set_option linter.unusedSimpArgs false
namespace Wz.Http
open Wz

/-! ### Content-Range -/

/-- units of a Content-Range: non-empty, no white space -/
def CUnitsOk (u : Str) : Bool := !u.isEmpty && u.all (fun c => !Py.isSpace c)

theorem splitWs2_units (u x : Str) (hu : CUnitsOk u = true) (hx : ∃ c t, x = c :: t ∧ Py.isSpace c = false) :
    splitWs2 (u ++ ' ' :: x) = .ok (u, x) := by
  simp only [CUnitsOk, Bool.and_eq_true, Bool.not_eq_true'] at hu
  obtain ⟨hne, hall⟩ := hu
  obtain ⟨c, t, rfl, hc⟩ := hx
  obtain ⟨a, b, rfl⟩ : ∃ a b, u = a :: b := by
    cases u with
    | nil => simp at hne
    | cons a b => exact ⟨a, b, rfl⟩
  have ha : Py.isSpace a = false := by
    simp only [List.all_cons, Bool.and_eq_true, Bool.not_eq_true'] at hall; exact hall.1
  unfold splitWs2
  have h1 : lstrip (a :: b ++ ' ' :: c :: t) = a :: b ++ ' ' :: c :: t := by
    simp [lstrip, List.dropWhile_cons, ha]
  rw [h1]
  have hsp : (fun ch => !Py.isSpace ch) ' ' = false := by decide
  have := takeWhile_stop (p := fun ch => !Py.isSpace ch) (k := a :: b) (d := ' ') (x := c :: t) hall hsp
  have h2 : lstrip (' ' :: c :: t) = c :: t := by
    simp [lstrip, List.dropWhile_cons, show Py.isSpace ' ' = true from by decide, hc]
  simp only [this.1, this.2, h2]
  simp

theorem natText_head (n : Nat) : ∃ c t, natText n = c :: t ∧ c.isDigit = true := by
  cases hq : natText n with
  | nil => exact absurd hq (natText_ne_nil _)
  | cons c t =>
    refine ⟨c, t, rfl, ?_⟩
    have := natText_all_digit n
    rw [hq] at this
    simp only [List.all_cons, Bool.and_eq_true] at this
    exact this.1

theorem natText_ne_star (n : Nat) : natText n ≠ ['*'] := by
  intro e
  have := natText_all_digit n
  rw [e] at this
  simp at this

theorem lenText_cases (l : Option Int) (hl : ∀ v, l = some v → 0 ≤ v) :
    ∃ lt, lenText l = lt ∧ '/' ∉ lt ∧
      (∃ c t, lt = c :: t ∧ Py.isSpace c = false) ∧
      parseLength lt = Except.ok (some l) ∧
      (∀ c, lt.getLast? = some c → Py.isSpace c = false) := by
  cases l with
  | none =>
    refine ⟨['*'], rfl, by decide, ⟨'*', [], rfl, by decide⟩, by simp [parseLength], ?_⟩
    intro c hc; simp at hc; subst hc; decide
  | some v =>
    have hv := hl v rfl
    refine ⟨natText v.toNat, by simp [lenText, intText_nonneg hv], digits_not_mem (natText_all_digit _) (by decide), ?_, ?_, ?_⟩
    · obtain ⟨c, t, h, hd⟩ := natText_head v.toNat
      exact ⟨c, t, h, isDigit_not_space hd⟩
    · have : (natText v.toNat == ['*']) = false := by
        simp [natText_ne_star]
      simp [parseLength, this, plainInt_natText, Except.map, catching_ok, Int.toNat_of_nonneg hv]
    · exact (digits_tight (natText_all_digit _)).2

end Wz.Http
namespace Wz.Http
open Wz

def CRangeOk (c : ContentRangeV) : Bool :=
  (match c.units with | some u => CUnitsOk u | none => false) && isByteRangeValid c.start c.stop c.length

theorem tight_of_head_last {x : Str} (h1 : ∀ c, x.head? = some c → Py.isSpace c = false)
    (h2 : ∀ c, x.getLast? = some c → Py.isSpace c = false) : Tight x := ⟨h1, h2⟩

theorem getLast?_append_of_ne_nil {a b : Str} (hb : b ≠ []) : (a ++ b).getLast? = b.getLast? := by
  rw [List.getLast?_append]
  cases hq : b.getLast? with
  | none => simp [List.getLast?_eq_none_iff] at hq; exact absurd hq hb
  | some x => simp

theorem contentRange_roundtrip_any (c : ContentRangeV) (h : CRangeOk c = true) :
    parseContentRangeHeader (contentRangeToHeader c) = .ok (some c) := by
  obtain ⟨units, start, stop, length⟩ := c
  simp only [CRangeOk, Bool.and_eq_true] at h
  obtain ⟨hu, hv⟩ := h
  cases units with
  | none => simp at hu
  | some u =>
    simp only at hu hv
    have hune : u ≠ [] := by
      intro e; subst e; simp [CUnitsOk] at hu
    have huhead : ∀ ch, u.head? = some ch → Py.isSpace ch = false := by
      intro ch hch
      simp only [CUnitsOk, Bool.and_eq_true, List.all_eq_true] at hu
      have := hu.2 ch (List.mem_of_head? hch)
      simpa using this
    cases start with
    | none =>
      cases stop with
      | some e => simp [isByteRangeValid] at hv
      | none =>
        have hl : ∀ v, length = some v → 0 ≤ v := by
          intro v hv'; subst hv'; simpa [isByteRangeValid] using hv
        obtain ⟨lt, hlt, hns, ⟨lc, ltl, hlc, hlsp⟩, hparse, hlast⟩ := lenText_cases length hl
        have hhdr : contentRangeToHeader ⟨some u, none, none, length⟩ = u ++ ' ' :: ('*' :: '/' :: lt) := by
          simp [contentRangeToHeader, hlt]
        have hne : lt ≠ [] := by rw [hlc]; simp
        have htight : Tight (u ++ ' ' :: ('*' :: '/' :: lt)) := by
          apply tight_append hune (by simp) huhead
          intro ch hch
          have : (' ' :: '*' :: '/' :: lt).getLast? = lt.getLast? := by
            rw [show (' ' :: '*' :: '/' :: lt) = [' ', '*', '/'] ++ lt from rfl, getLast?_append_of_ne_nil hne]
          rw [this] at hch
          exact hlast ch hch
        rw [hhdr]
        unfold parseContentRangeHeader
        rw [strip_tight htight, splitWs2_units u _ hu ⟨'*', _, rfl, by decide⟩]
        simp only [Except.map, catching_ok, ok_bind]
        have hc : ('*' :: '/' :: lt).contains '/' = true := by simp
        simp only [hc, Bool.not_true, Bool.false_eq_true, if_false]
        rw [show ('*' :: '/' :: lt) = ['*'] ++ '/' :: lt from rfl, partition_found (by decide)]
        simp only [hparse, ok_bind]
        simp [hv]
    | some s =>
      cases stop with
      | none => simp [isByteRangeValid] at hv
      | some e =>
        have hse : 0 ≤ s ∧ s < e := by
          cases length with
          | none => simpa [isByteRangeValid] using hv
          | some l =>
            simp only [isByteRangeValid] at hv
            split at hv
            · simp at hv
            · next hge => simp at hv; omega
        have hl : ∀ v, length = some v → 0 ≤ v := by
          intro v hv'; subst hv'
          simp only [isByteRangeValid] at hv
          split at hv
          · simp at hv
          · simp at hv; omega
        obtain ⟨lt, hlt, hns, ⟨lc, ltl, hlc, hlsp⟩, hparse, hlast⟩ := lenText_cases length hl
        have hs0 : 0 ≤ s := hse.1
        have he0 : 0 ≤ e - 1 := by omega
        let S := natText s.toNat
        let E := natText (e - 1).toNat
        have hhdr : contentRangeToHeader ⟨some u, some s, some e, length⟩ = u ++ ' ' :: (S ++ '-' :: (E ++ '/' :: lt)) := by
          simp [contentRangeToHeader, hlt, intText_nonneg hs0, intText_nonneg he0, S, E]
        have hne : lt ≠ [] := by rw [hlc]; simp
        obtain ⟨sc, st, hsct, hscd⟩ := natText_head s.toNat
        have htight : Tight (u ++ ' ' :: (S ++ '-' :: (E ++ '/' :: lt))) := by
          apply tight_append hune (by simp) huhead
          intro ch hch
          have : (' ' :: (S ++ '-' :: (E ++ '/' :: lt))).getLast? = lt.getLast? := by
            rw [show (' ' :: (S ++ '-' :: (E ++ '/' :: lt))) = (' ' :: (S ++ '-' :: (E ++ ['/']))) ++ lt by simp,
              getLast?_append_of_ne_nil hne]
          rw [this] at hch
          exact hlast ch hch
        have hSd := natText_all_digit s.toNat
        have hEd := natText_all_digit (e - 1).toNat
        have hSslash : '/' ∉ S := digits_not_mem hSd (by decide)
        have hEslash : '/' ∉ E := digits_not_mem hEd (by decide)
        rw [hhdr]
        unfold parseContentRangeHeader
        rw [strip_tight htight, splitWs2_units u _ hu ⟨sc, st ++ '-' :: (E ++ '/' :: lt), by simp [S, hsct], isDigit_not_space hscd⟩]
        simp only [Except.map, catching_ok, ok_bind]
        have hc : (S ++ '-' :: (E ++ '/' :: lt)).contains '/' = true := by simp
        simp only [hc, Bool.not_true, Bool.false_eq_true, if_false]
        have hrng : '/' ∉ S ++ '-' :: E := by
          simp only [List.mem_append, List.mem_cons, not_or]
          exact ⟨hSslash, by decide, hEslash⟩
        rw [show (S ++ '-' :: (E ++ '/' :: lt)) = (S ++ '-' :: E) ++ '/' :: lt by simp, partition_found hrng]
        simp only [hparse, ok_bind]
        have hnstar : (S ++ '-' :: E == ['*']) = false := by
          simp only [S, hsct]
          have : sc ≠ '*' := isDigit_ne hscd (by decide)
          simp [this]
        have hcd : (S ++ '-' :: E).contains '-' = true := by simp
        simp only [hnstar, Bool.false_eq_true, if_false, hcd, Bool.not_true]
        rw [partition_found (digits_not_mem hSd dash_not_digit)]
        simp only [S, E, plainInt_natText, ok_bind, pure_eq_ok, Int.toNat_of_nonneg hs0, Int.toNat_of_nonneg he0]
        have : e - 1 + 1 = e := by omega
        simp [this, hv, catching_ok]

end Wz.Http
