import WzVerif.Lemmas.HttpInt
set_option linter.unusedSimpArgs false
namespace Wz.Http
open Wz

/-! ### Range -/

def UnitsOk (u : Str) : Bool := !u.contains '=' && (pyLower (strip u) == u)

/-- the ranges a `Range` header can carry, as `parse_range_header` demands them: ascending and
non-overlapping `0 ≤ start < stop`; an open-ended (`start-`) or suffix (`-n`) range only last -/
def rangesOk : Int → List (Int × Option Int) → Bool
  | _, [] => true
  | lastEnd, (b, none) :: more => lastEnd ≥ 0 && (b < 0 || lastEnd ≤ b) && rangesOk (-1) more
  | lastEnd, (b, some e) :: more => lastEnd ≥ 0 && lastEnd ≤ b && b < e && rangesOk e more

def rangeItemText (r : Int × Option Int) : Str :=
  match r.2 with
  | none => if r.1 ≥ 0 then intText r.1 ++ ['-'] else intText r.1
  | some e => intText r.1 ++ '-' :: intText (e - 1)

theorem intText_nonneg {b : Int} (h : 0 ≤ b) : intText b = natText b.toNat := by
  cases b with
  | ofNat n => rfl
  | negSucc n => omega

theorem plainInt_natText (n : Nat) : plainInt (natText n) = .ok (n : Int) := by
  have := plainInt_intText (Int.ofNat n)
  simpa [intText] using this

theorem dash_not_digit : ('-' : Char).isDigit = false := by decide

theorem rangeItems_some (b e : Int) (more : List Str) (lastEnd : Int) (acc : List (Int × Option Int))
    (h0 : 0 ≤ lastEnd) (h1 : lastEnd ≤ b) (h2 : b < e) :
    rangeItems (rangeItemText (b, some e) :: more) lastEnd acc = rangeItems more e ((b, some e) :: acc) := by
  have hb : 0 ≤ b := by omega
  have he : 0 ≤ e - 1 := by omega
  have hbd := natText_all_digit b.toNat
  have hed := natText_all_digit (e - 1).toNat
  have hitem : rangeItemText (b, some e) = natText b.toNat ++ '-' :: natText (e - 1).toNat := by
    simp [rangeItemText, intText_nonneg hb, intText_nonneg he]
  have htight : Tight (natText b.toNat ++ '-' :: natText (e - 1).toNat) := by
    apply tight_append (natText_ne_nil _) (by simp) (digits_tight hbd).1
    intro c hc
    have hne := natText_ne_nil (e - 1).toNat
    cases hq : natText (e - 1).toNat with
    | nil => exact absurd hq hne
    | cons a t =>
      rw [hq, List.getLast?_cons_cons] at hc
      rw [hq] at hed
      exact (digits_tight hed).2 c hc
  obtain ⟨c, t, hct⟩ : ∃ c t, natText b.toNat = c :: t := by
    cases hq : natText b.toNat with
    | nil => exact absurd hq (natText_ne_nil _)
    | cons c t => exact ⟨c, t, rfl⟩
  have hc : c ≠ '-' := by
    have : c ∈ natText b.toNat := by rw [hct]; simp
    exact isDigit_ne ((List.all_eq_true.mp hbd) c this) dash_not_digit
  rw [rangeItems, hitem, strip_tight htight]
  have hcont : (natText b.toNat ++ '-' :: natText (e - 1).toNat).contains '-' = true := by simp
  simp only [hcont, Bool.not_true, Bool.false_eq_true, if_false]
  rw [hct]
  simp only [List.cons_append]
  split
  · next heq => simp at heq; exact absurd heq.1 hc
  · rw [← List.cons_append, ← hct, partition_found (digits_not_mem hbd dash_not_digit)]
    simp only [strip_tight (digits_tight hbd), strip_tight (digits_tight hed), plainInt_natText,
      Except.map, catching_ok, ok_bind]
    have e1 : ((b.toNat : Nat) : Int) = b := Int.toNat_of_nonneg hb
    have e2 : (((e - 1).toNat : Nat) : Int) = e - 1 := Int.toNat_of_nonneg he
    have hemp : (natText (e - 1).toNat).isEmpty = false := by
      cases hq : natText (e - 1).toNat with
      | nil => exact absurd hq (natText_ne_nil _)
      | cons _ _ => rfl
    simp only [e1, e2, hemp]
    have n1 : ¬ (b < lastEnd) := by omega
    have n2 : ¬ (lastEnd < 0) := by omega
    have n3 : ¬ (b ≥ e - 1 + 1) := by omega
    have n4 : ¬ e ≤ b := by omega
    simp [n1, n2, n3, n4]

end Wz.Http
namespace Wz.Http
open Wz

theorem rangeItems_open (b : Int) (more : List Str) (lastEnd : Int) (acc : List (Int × Option Int))
    (hb : 0 ≤ b) (h0 : 0 ≤ lastEnd) (h1 : lastEnd ≤ b) :
    rangeItems (rangeItemText (b, none) :: more) lastEnd acc = rangeItems more (-1) ((b, none) :: acc) := by
  have hbd := natText_all_digit b.toNat
  have hitem : rangeItemText (b, none) = natText b.toNat ++ ['-'] := by
    simp [rangeItemText, hb, intText_nonneg hb]
  have htight : Tight (natText b.toNat ++ ['-']) := by
    apply tight_append (natText_ne_nil _) (by simp) (digits_tight hbd).1
    intro c hc; simp at hc; subst hc; decide
  obtain ⟨c, t, hct⟩ : ∃ c t, natText b.toNat = c :: t := by
    cases hq : natText b.toNat with
    | nil => exact absurd hq (natText_ne_nil _)
    | cons c t => exact ⟨c, t, rfl⟩
  have hc : c ≠ '-' := by
    have : c ∈ natText b.toNat := by rw [hct]; simp
    exact isDigit_ne ((List.all_eq_true.mp hbd) c this) dash_not_digit
  rw [rangeItems, hitem, strip_tight htight]
  have hcont : (natText b.toNat ++ ['-']).contains '-' = true := by simp
  simp only [hcont, Bool.not_true, Bool.false_eq_true, if_false]
  rw [hct]
  simp only [List.cons_append]
  split
  · next heq => simp at heq; exact absurd heq.1 hc
  · rw [← List.cons_append, ← hct, partition_found (digits_not_mem hbd dash_not_digit)]
    have hs : strip ([] : Str) = [] := by decide
    simp only [strip_tight (digits_tight hbd), hs, plainInt_natText, Except.map, catching_ok, ok_bind]
    have e1 : ((b.toNat : Nat) : Int) = b := Int.toNat_of_nonneg hb
    have n1 : ¬ (b < lastEnd) := by omega
    have n2 : ¬ (lastEnd < 0) := by omega
    simp [e1, n1, n2]

theorem rangeItems_suffix (b : Int) (more : List Str) (lastEnd : Int) (acc : List (Int × Option Int))
    (hb : b < 0) (h0 : 0 ≤ lastEnd) :
    rangeItems (rangeItemText (b, none) :: more) lastEnd acc = rangeItems more (-1) ((b, none) :: acc) := by
  cases b with
  | ofNat n => exact absurd hb (Int.not_lt.mpr (Int.natCast_nonneg n))
  | negSucc n =>
    have hitem : rangeItemText (Int.negSucc n, none) = '-' :: natText (n + 1) := by
      simp [rangeItemText, intText]
    have hd := natText_all_digit (n + 1)
    have htight : Tight ('-' :: natText (n + 1)) := by
      refine ⟨fun c hc => by simp at hc; subst hc; decide, fun c hc => ?_⟩
      cases hq : natText (n + 1) with
      | nil => exact absurd hq (natText_ne_nil _)
      | cons a t =>
        rw [hq, List.getLast?_cons_cons] at hc
        rw [hq] at hd
        exact (digits_tight hd).2 c hc
    have hp : plainInt ('-' :: natText (n + 1)) = .ok (Int.negSucc n) := by
      have := plainInt_intText (Int.negSucc n)
      simpa [intText] using this
    rw [rangeItems, hitem, strip_tight htight]
    have n2 : ¬ (lastEnd < 0) := by omega
    have n3 : (Int.negSucc n == 0) = false := by
      have : Int.negSucc n ≠ 0 := by omega
      simpa using this
    simp [hp, Except.map, catching_ok, n2, n3]

theorem rangeItems_ok (rs : List (Int × Option Int)) (lastEnd : Int) (acc : List (Int × Option Int))
    (h : rangesOk lastEnd rs = true) :
    rangeItems (rs.map rangeItemText) lastEnd acc = .ok (some (acc.reverse ++ rs)) := by
  induction rs generalizing lastEnd acc with
  | nil => simp [rangeItems]
  | cons r more ih =>
    obtain ⟨b, e⟩ := r
    cases e with
    | none =>
      simp only [rangesOk, Bool.and_eq_true, Bool.or_eq_true, decide_eq_true_eq] at h
      obtain ⟨⟨h0, h1⟩, h2⟩ := h
      rw [List.map_cons]
      by_cases hb : b < 0
      · rw [rangeItems_suffix b _ lastEnd acc hb h0, ih _ _ h2]; simp
      · have h1' : lastEnd ≤ b := by rcases h1 with h | h <;> omega
        rw [rangeItems_open b _ lastEnd acc (by omega) h0 h1', ih _ _ h2]; simp
    | some e =>
      simp only [rangesOk, Bool.and_eq_true, decide_eq_true_eq] at h
      obtain ⟨⟨⟨h0, h1⟩, h2⟩, h3⟩ := h
      rw [List.map_cons, rangeItems_some b e _ lastEnd acc h0 h1 h2, ih _ _ h3]; simp

theorem splitOnChar_go_noSep (c : Char) (a rest acc : Str) (h : c ∉ a) :
    splitOnChar.go c (a ++ rest) acc = splitOnChar.go c rest (a.reverse ++ acc) := by
  induction a generalizing acc with
  | nil => simp
  | cons x t ih =>
    have hx : x ≠ c := fun e => h (by simp [e])
    simp [splitOnChar.go, hx, ih _ (fun e => h (by simp [e]))]

theorem splitOnChar_join (c : Char) (a : Str) (l : List Str) (h : ∀ x ∈ a :: l, c ∉ x) :
    splitOnChar c (List.intercalate [c] (a :: l)) = a :: l := by
  unfold splitOnChar
  suffices ∀ acc, splitOnChar.go c (List.intercalate [c] (a :: l)) acc = (acc.reverse ++ a) :: l by
    simpa using this []
  induction l generalizing a with
  | nil =>
    intro acc
    have := splitOnChar_go_noSep c a [] acc (h a (by simp))
    simp only [List.append_nil] at this
    simp [this, splitOnChar.go]
  | cons b t ih =>
    intro acc
    rw [List.intercalate_cons_cons, List.append_assoc, splitOnChar_go_noSep c a _ acc (h a (by simp))]
    simp only [List.cons_append, List.nil_append, splitOnChar.go, beq_self_eq_true, if_true]
    rw [ih b (fun x hx => h x (by simp at hx ⊢; right; exact hx)) []]
    simp

theorem rangeItemText_no_comma (r : Int × Option Int) : ',' ∉ rangeItemText r := by
  have hd : ∀ i : Int, ',' ∉ intText i := by
    intro i
    cases i with
    | ofNat n => exact digits_not_mem (natText_all_digit n) (by decide)
    | negSucc n =>
      simp only [intText, List.mem_cons, not_or]
      exact ⟨by decide, digits_not_mem (natText_all_digit _) (by decide)⟩
  obtain ⟨b, e⟩ := r
  cases e with
  | none =>
    by_cases hb : b ≥ 0
    · simp only [rangeItemText, hb, if_true, List.mem_append, List.mem_singleton, not_or]
      exact ⟨hd b, by decide⟩
    · simp only [rangeItemText, hb, if_false]
      exact hd b
  | some e =>
    simp only [rangeItemText, List.mem_append, List.mem_cons, not_or]
    exact ⟨hd b, by decide, hd _⟩

theorem range_roundtrip_any (u : Str) (rs : List (Int × Option Int)) (hu : UnitsOk u = true)
    (hne : rs ≠ []) (hr : rangesOk 0 rs = true) :
    parseRangeHeader (rangeToHeader ⟨u, rs⟩) = .ok (some ⟨u, rs⟩) := by
  simp only [UnitsOk, Bool.and_eq_true, Bool.not_eq_true', beq_iff_eq] at hu
  have hueq : '=' ∉ u := by simpa using hu.1
  have hhdr : rangeToHeader ⟨u, rs⟩ = u ++ '=' :: List.intercalate [','] (rs.map rangeItemText) := by
    simp only [rangeToHeader, join]
    congr 2
  cases rs with
  | nil => exact absurd rfl hne
  | cons r more =>
    rw [hhdr]
    unfold parseRangeHeader
    have hc : (u ++ '=' :: List.intercalate [','] ((r :: more).map rangeItemText)).contains '=' = true := by simp
    have hemp : (u ++ '=' :: List.intercalate [','] ((r :: more).map rangeItemText)).isEmpty = false := by
      cases u <;> rfl
    simp only [hc, hemp, Bool.not_true, Bool.or_self, Bool.false_eq_true, if_false]
    rw [partition_found hueq]
    simp only [hu.2]
    rw [List.map_cons, splitOnChar_join ',' _ _ (by
      intro x hx
      have : x ∈ (r :: more).map rangeItemText := by simpa using hx
      simp only [List.mem_map] at this
      obtain ⟨y, _, rfl⟩ := this
      exact rangeItemText_no_comma y)]
    have := rangeItems_ok (r :: more) 0 [] hr
    simp only [List.map_cons] at this
    simp only [this, ok_bind, List.reverse_nil, List.nil_append]
    -- the constructor check of `Range` passes
    have hctor : rangeCtor u (r :: more) = .ok ⟨u, r :: more⟩ := by
      unfold rangeCtor
      have : ∀ (le : Int) (l : List (Int × Option Int)), 0 ≤ le → rangesOk le l = true →
          l.any badRange = false := by
        intro le l
        induction l generalizing le with
        | nil => simp
        | cons x t ih =>
          intro hle h
          obtain ⟨b, e⟩ := x
          cases e with
          | none =>
            simp only [rangesOk, Bool.and_eq_true] at h
            cases t with
            | nil => simp [badRange]
            | cons y ys =>
              obtain ⟨b', e'⟩ := y
              cases e' <;> simp [rangesOk] at h <;> omega
          | some e =>
            simp only [rangesOk, Bool.and_eq_true, decide_eq_true_eq] at h
            obtain ⟨⟨⟨h0, h1⟩, h2⟩, h3⟩ := h
            have := ih e (by omega) h3
            simp only [List.any_cons, this, Bool.or_false, badRange]
            simp; omega
      have h0 := this 0 (r :: more) (by omega) hr
      rw [h0]; rfl
    simp [hctor]

end Wz.Http
