/-
Routing lemmas, part 7: case analysis of `StateMachineMatcher.match` (`matchSM`) and
`MapAdapter.match` (`matchAdapter`) in terms of the two searches.
-/
import WzVerif.Lemmas.RoutingMap
namespace Wz.Routing
open State

theorem finishMatch_ok_inv {rd : Bool} {r0 : Rule} {vs ms wsm} {r : Rule} {vals}
    (h : finishMatch rd r0 vs ms wsm = .ok r vals) :
    r0 = r ∧ ∃ res, convertValues r.convs vs = some res ∧ vals = dictUpdate res r.defaults := by
  simp only [finishMatch] at h
  split at h
  · cases h
  · rename_i res hres
    split at h
    · cases h
    · cases h; exact ⟨rfl, res, hres, rfl⟩

theorem finishMatch_noMatch_inv {rd : Bool} {r0 : Rule} {vs ms wsm ms' wsm'}
    (h : finishMatch rd r0 vs ms wsm = .noMatch ms' wsm') :
    convertValues r0.convs vs = none ∧ ms' = ms ∧ wsm' = wsm := by
  simp only [finishMatch] at h
  split at h
  · rename_i hres; cases h; exact ⟨hres, rfl, rfl⟩
  · split at h <;> cases h

/-- `match` returns `(rule, values)` only from a successful first search followed by conversion -/
theorem matchSM_ok_inv {root : State} {mg rd : Bool} {q : Req} {dom path : Str} {r : Rule} {vals}
    (h : matchSM root mg rd q dom path = .ok r vals) :
    ∃ vs, (dfs q root (segments dom path) []).res = .found r vs ∧
      ∃ res, convertValues r.convs vs = some res ∧ vals = dictUpdate res r.defaults := by
  simp only [matchSM] at h
  cases h1 : (dfs q root (dom :: splitOn '/' path) []).res with
  | slash => simp [h1] at h
  | found r0 vs =>
    simp only [h1] at h
    obtain ⟨rfl, hres⟩ := finishMatch_ok_inv h
    exact ⟨vs, h1, hres⟩
  | none =>
    simp only [h1] at h
    split at h
    · cases h2 : (dfs q root (dom :: splitOn '/' (mergeSlashes path)) []).res with
      | slash => simp [h2] at h
      | none => simp [h2] at h
      | found r0 vs => simp only [h2] at h; split at h <;> cases h
    · cases h

/-- the ways `match` raises `NoMatch(have_match_for, websocket_mismatch)` -/
theorem matchSM_noMatch_inv {root : State} {mg rd : Bool} {q : Req} {dom path : Str} {ms wsm}
    (h : matchSM root mg rd q dom path = .noMatch ms wsm) :
    let o1 := dfs q root (segments dom path) []
    let o2 := dfs q root (segments dom (mergeSlashes path)) []
    (∃ r vs, o1.res = .found r vs ∧ convertValues r.convs vs = none) ∨
    (o1.res = .none ∧ ((mg = false ∧ ms = o1.ms ∧ wsm = o1.wsm) ∨
      (mg = true ∧ ms = o1.ms ++ o2.ms ∧ wsm = (o1.wsm || o2.wsm) ∧
        (o2.res = .none ∨ ∃ r vs, o2.res = .found r vs ∧ r.merge = false)))) := by
  simp only [matchSM] at h
  simp only [segments]
  cases h1 : (dfs q root (dom :: splitOn '/' path) []).res with
  | slash => simp [h1] at h
  | found r0 vs =>
    simp only [h1] at h
    obtain ⟨hc, _, _⟩ := finishMatch_noMatch_inv h
    exact .inl ⟨r0, vs, rfl, hc⟩
  | none =>
    simp only [h1] at h
    right
    refine ⟨rfl, ?_⟩
    cases mg with
    | false =>
      simp only [Bool.false_eq_true, if_false] at h
      cases h
      exact .inl ⟨rfl, rfl, rfl⟩
    | true =>
      simp only [if_true] at h
      right
      cases h2 : (dfs q root (dom :: splitOn '/' (mergeSlashes path)) []).res with
      | slash => simp [h2] at h
      | none =>
        simp only [h2] at h
        cases h
        exact ⟨rfl, rfl, rfl, .inl rfl⟩
      | found r0 vs =>
        simp only [h2] at h
        split at h
        · cases h
        · rename_i hm
          cases h
          exact ⟨rfl, rfl, rfl, .inr ⟨r0, vs, rfl, by simpa using hm⟩⟩

theorem aliasOutcome_cases (u d p : Str) :
    aliasOutcome u d p = .error "AssertionError" ∨ aliasOutcome u d p = .redirect u := by
  unfold aliasOutcome
  split
  · exact .inl rfl
  · exact .inr rfl

/-- `MapAdapter.match` returns normally only when the matcher did -/
theorem matchAdapter_matched_inv {m : RMap} {a : Adapter} {p : Str} {meth : Option Str} {qa : QueryArgs} {ws : Option Bool}
    {r : Rule} {vals} (h : matchAdapter m a p meth qa ws = .matched r vals) :
    matchSM m.root m.cfg.mergeSlashes m.cfg.redirectDefaults (reqOf a meth ws) (domainPartOf m.cfg a) (pathPart p)
      = .ok r vals := by
  simp only [matchAdapter] at h
  cases hsm : matchSM m.root m.cfg.mergeSlashes m.cfg.redirectDefaults (reqOf a meth ws) (domainPartOf m.cfg a) (pathPart p) with
  | requestPath p' => simp [hsm] at h
  | aliasRedirect r' v' =>
    simp only [hsm] at h
    split at h
    · cases h
    · rename_i u _
      rcases aliasOutcome_cases (if (effQa a qa).truthy = true then u ++ '?' :: encodeQueryArgs (effQa a qa) else u)
        (domainPartOf m.cfg a) (pathPart p) with hh | hh <;> rw [hh] at h <;> cases h
  | noMatch ms wsm =>
    simp only [hsm] at h
    split at h
    · cases h
    · split at h <;> cases h
  | ok r' v' =>
    simp only [hsm] at h
    split at h
    · split at h
      · cases h
      · cases h
      · cases h; rfl
    · cases h; rfl

/-- `NotFound` is raised only for `NoMatch(set(), False)` -/
theorem matchAdapter_notFound_inv {m : RMap} {a : Adapter} {p : Str} {meth : Option Str} {qa : QueryArgs} {ws : Option Bool}
    (h : matchAdapter m a p meth qa ws = .notFound) :
    matchSM m.root m.cfg.mergeSlashes m.cfg.redirectDefaults (reqOf a meth ws) (domainPartOf m.cfg a) (pathPart p)
      = .noMatch [] false := by
  simp only [matchAdapter] at h
  cases hsm : matchSM m.root m.cfg.mergeSlashes m.cfg.redirectDefaults (reqOf a meth ws) (domainPartOf m.cfg a) (pathPart p) with
  | requestPath p' => simp [hsm] at h
  | aliasRedirect r' v' =>
    simp only [hsm] at h
    split at h
    · cases h
    · rename_i u _
      rcases aliasOutcome_cases (if (effQa a qa).truthy = true then u ++ '?' :: encodeQueryArgs (effQa a qa) else u)
        (domainPartOf m.cfg a) (pathPart p) with hh | hh <;> rw [hh] at h <;> cases h
  | noMatch ms wsm =>
    simp only [hsm] at h
    split at h
    · cases h
    · rename_i hms
      split at h
      · cases h
      · rename_i hw
        cases ms with
        | nil => simp at hw; subst hw; rfl
        | cons x t => simp at hms
  | ok r' v' =>
    simp only [hsm] at h
    split at h
    · split at h <;> cases h
    · cases h

/-- `MethodNotAllowed(valid_methods)` is raised only for `NoMatch(have_match_for, _)` with a
non-empty set, and lists that set -/
theorem matchAdapter_405_inv {m : RMap} {a : Adapter} {p : Str} {meth : Option Str} {qa : QueryArgs} {ws : Option Bool}
    {ms : List Str} (h : matchAdapter m a p meth qa ws = .methodNotAllowed ms) :
    ∃ ms0 wsm, matchSM m.root m.cfg.mergeSlashes m.cfg.redirectDefaults (reqOf a meth ws) (domainPartOf m.cfg a) (pathPart p)
      = .noMatch ms0 wsm ∧ ms0 ≠ [] ∧ ms = ms0.eraseDups := by
  simp only [matchAdapter] at h
  cases hsm : matchSM m.root m.cfg.mergeSlashes m.cfg.redirectDefaults (reqOf a meth ws) (domainPartOf m.cfg a) (pathPart p) with
  | requestPath p' => simp [hsm] at h
  | aliasRedirect r' v' =>
    simp only [hsm] at h
    split at h
    · cases h
    · rename_i u _
      rcases aliasOutcome_cases (if (effQa a qa).truthy = true then u ++ '?' :: encodeQueryArgs (effQa a qa) else u)
        (domainPartOf m.cfg a) (pathPart p) with hh | hh <;> rw [hh] at h <;> cases h
  | noMatch ms0 wsm =>
    simp only [hsm] at h
    split at h
    · rename_i hms
      cases h
      refine ⟨ms0, wsm, rfl, ?_, rfl⟩
      intro h0; subst h0; simp at hms
    · split at h <;> cases h
  | ok r' v' =>
    simp only [hsm] at h
    split at h
    · split at h <;> cases h
    · cases h

/-- conversely: `NoMatch` with a non-empty method set becomes `MethodNotAllowed` -/
theorem matchAdapter_of_noMatch {m : RMap} {a : Adapter} {p : Str} {meth : Option Str} {qa : QueryArgs} {ws : Option Bool}
    {ms0 wsm} (hsm : matchSM m.root m.cfg.mergeSlashes m.cfg.redirectDefaults (reqOf a meth ws) (domainPartOf m.cfg a) (pathPart p)
      = .noMatch ms0 wsm) (hne : ms0 ≠ []) :
    matchAdapter m a p meth qa ws = .methodNotAllowed ms0.eraseDups := by
  simp only [matchAdapter, hsm]
  cases ms0 with
  | nil => exact absurd rfl hne
  | cons x t => simp

end Wz.Routing
