import WzVerif.Model.Date
set_option linter.unusedSimpArgs false
namespace Wz.Date

theorem isLeap_iff (y : Nat) : isLeap y = true ↔ (y % 4 = 0 ∧ (y % 100 ≠ 0 ∨ y % 400 = 0)) := by
  simp [isLeap]

def monthDayOk (leap : Bool) (r : Nat) : Bool :=
  1 ≤ (monthDay leap r).1 && (monthDay leap r).1 ≤ 12 && 1 ≤ (monthDay leap r).2 &&
    (monthDay leap r).2 ≤ daysInMonth leap (monthDay leap r).1 &&
    daysBeforeMonth leap (monthDay leap r).1 + (monthDay leap r).2 == r + 1

theorem monthDay_table : ∀ r, r < 366 → (r < 365 → monthDayOk false r = true) ∧ monthDayOk true r = true := by
  decide +kernel

theorem monthDay_spec (leap : Bool) (r : Nat) (h : r < 365 + leap.toNat) : monthDayOk leap r = true := by
  cases leap with
  | false => exact (monthDay_table r (by simp at h; omega)).1 (by simpa using h)
  | true => exact (monthDay_table r (by simpa using h)).2

theorem dby_decomp (a b c d : Nat) (hb : b ≤ 3) (hc : c ≤ 24) (hd : d ≤ 3) :
    daysBeforeYear (400 * a + 100 * b + 4 * c + d + 1) = 146097 * a + 36524 * b + 1461 * c + 365 * d := by
  simp only [daysBeforeYear, Nat.add_sub_cancel]
  omega

end Wz.Date
namespace Wz.Date

theorem dby_special1 (a : Nat) : daysBeforeYear (400 * a + 400) = 146097 * a + 145731 := by
  simp only [daysBeforeYear]
  omega

theorem dby_special2 (a b c : Nat) (hb : b ≤ 3) (hc : c ≤ 23) :
    daysBeforeYear (400 * a + 100 * b + 4 * c + 4) = 146097 * a + 36524 * b + 1461 * c + 1095 := by
  simp only [daysBeforeYear]
  omega

structure YmdOk (n : Nat) (r : Nat × Nat × Nat) : Prop where
  y1 : 1 ≤ r.1
  m1 : 1 ≤ r.2.1
  m12 : r.2.1 ≤ 12
  d1 : 1 ≤ r.2.2
  dmax : r.2.2 ≤ daysInMonth (isLeap r.1) r.2.1
  ord : ymd2ord r.1 r.2.1 r.2.2 = n
  /-- the year is the one whose day count brackets `n` -/
  ylo : daysBeforeYear r.1 < n

theorem ymdOk_special1 (a : Nat) : YmdOk (146097 * a + 146097) (400 * a + 400, 12, 31) := by
  have hleap : isLeap (400 * a + 400) = true := by rw [isLeap_iff]; omega
  refine ⟨by simp, by simp, by simp, by simp, by simp [hleap, daysInMonth], ?_, ?_⟩
  · simp only [ymd2ord, hleap, daysBeforeMonth, Bool.toNat_true, dby_special1]
  · simp only [dby_special1]; omega

theorem ymdOk_special2 (a b c : Nat) (hb : b ≤ 3) (hc : c ≤ 23) :
    YmdOk (146097 * a + 36524 * b + 1461 * c + 1461) (400 * a + 100 * b + 4 * c + 4, 12, 31) := by
  have hleap : isLeap (400 * a + 100 * b + 4 * c + 4) = true := by rw [isLeap_iff]; omega
  refine ⟨by simp, by simp, by simp, by simp, by simp [hleap, daysInMonth], ?_, ?_⟩
  · simp only [ymd2ord, hleap, daysBeforeMonth, Bool.toNat_true, dby_special2 a b c hb hc]
  · simp only [dby_special2 a b c hb hc]; omega

theorem ymdOk_general (a b c d r4 : Nat) (hb : b ≤ 3) (hc : c ≤ 24) (hd : d ≤ 3) (hr : r4 < 365) :
    YmdOk (146097 * a + 36524 * b + 1461 * c + 365 * d + r4 + 1)
      (400 * a + 100 * b + 4 * c + d + 1,
        (monthDay (isLeap (400 * a + 100 * b + 4 * c + d + 1)) r4).1,
        (monthDay (isLeap (400 * a + 100 * b + 4 * c + d + 1)) r4).2) := by
  have hdby := dby_decomp a b c d hb hc hd
  have hm := monthDay_spec (isLeap (400 * a + 100 * b + 4 * c + d + 1)) r4 (by omega)
  simp only [monthDayOk, Bool.and_eq_true, decide_eq_true_eq, beq_iff_eq] at hm
  obtain ⟨⟨⟨⟨m1, m12⟩, d1⟩, dmax⟩, hsum⟩ := hm
  refine ⟨by simp, m1, m12, d1, dmax, ?_, ?_⟩
  · simp only [ymd2ord, hdby]
    omega
  · rw [hdby]; omega

theorem ord2ymd_spec (n : Nat) (h1 : 1 ≤ n) : YmdOk n (ord2ymd n) := by
  unfold ord2ymd
  simp only
  generalize ha : (n - 1) / 146097 = a
  generalize hr1 : (n - 1) % 146097 = r1
  generalize hb : r1 / 36524 = b
  generalize hr2 : r1 % 36524 = r2
  generalize hc : r2 / 1461 = c
  generalize hr3 : r2 % 1461 = r3
  generalize hd : r3 / 365 = d
  generalize hr4 : r3 % 365 = r4
  have e0 : n - 1 = 146097 * a + r1 := by omega
  have e1 : r1 = 36524 * b + r2 := by omega
  have e2 : r2 = 1461 * c + r3 := by omega
  have e3 : r3 = 365 * d + r4 := by omega
  have b1 : r1 < 146097 := by omega
  have b2 : r2 < 36524 := by omega
  have b3 : r3 < 1461 := by omega
  have b4 : r4 < 365 := by omega
  by_cases hsp : (d == 4 || b == 4) = true
  · simp only [hsp, if_true]
    simp only [Bool.or_eq_true, beq_iff_eq] at hsp
    by_cases hb4 : b = 4
    · have : r2 = 0 := by omega
      have hc0 : c = 0 := by omega
      have hd0 : d = 0 := by omega
      have hn : n = 146097 * a + 146097 := by omega
      have hy : a * 400 + b * 100 + c * 4 + d + 1 - 1 = 400 * a + 400 := by omega
      rw [hy, hn]
      exact ymdOk_special1 a
    · have hd4 : d = 4 := by omega
      have hb3 : b ≤ 3 := by omega
      have hc23 : c ≤ 23 := by omega
      have hn : n = 146097 * a + 36524 * b + 1461 * c + 1461 := by omega
      have hy : a * 400 + b * 100 + c * 4 + d + 1 - 1 = 400 * a + 100 * b + 4 * c + 4 := by omega
      rw [hy, hn]
      exact ymdOk_special2 a b c hb3 hc23
  · simp only [hsp, Bool.false_eq_true, if_false]
    simp only [Bool.or_eq_true, beq_iff_eq, not_or] at hsp
    have hb3 : b ≤ 3 := by omega
    have hd3 : d ≤ 3 := by omega
    have hc24 : c ≤ 24 := by omega
    have hy : a * 400 + b * 100 + c * 4 + d + 1 = 400 * a + 100 * b + 4 * c + d + 1 := by omega
    have hn : n = 146097 * a + 36524 * b + 1461 * c + 365 * d + r4 + 1 := by omega
    rw [hy, hn]
    exact ymdOk_general a b c d r4 hb3 hc24 hd3 b4

end Wz.Date
