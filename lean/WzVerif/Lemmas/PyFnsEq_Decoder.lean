/-
PyFnsEq_Decoder — three methods of `werkzeug.sansio.multipart.MultipartDecoder`
(src/werkzeug/sansio/multipart.py: `next_event`, `_parse_headers`, `_parse_data`) *as regenerated from
werkzeug's source* by `tools/py2lean.py` (`Gen/PyFns_Decoder.lean`, rewritten on every check run:
`next_event`, `parse_headers` + its loop `parse_headers.loop1`, `parse_data`) are equal, for all
inputs, to the hand-written model of `Model/Multipart.lean` (`nextEvent`, `parseHeaders`, `parseData`)
that the C01 / C10 property theorems are about. A change of the Python source changes the generated
definitions and breaks these obligations.

How the two sides are related.
* The regex calls of the Python code are mapped by the hand-written glue at the top of the generated
  file to the matchers of the model (`lbLen`, `searchDelim`, `searchDelimFrom`, `searchBlankFrom`);
  a match object is a triple `(start, end, closing?)`. `last_newline` is itself translated
  (`Props.C01T.last_newline_eq`). The remaining CPython primitives (`find`, `rfind`, slicing, slice
  deletion, `partition`, `strip`, `dict.get`, integer `max` / `min` / `//`) come from
  `Util/PyPrelude.lean` and are related to the kernels of the model in the first section.
* `parse_data self.state data start self.boundary self.buffer` returns
  `(new self.state, (payload, del_index, more_data) / exception)`; the model's `parseData` returns a
  record whose `next` field (`none` = more data, `some closing`) carries the delimiter decision.
  `next_event` always calls `_parse_data(self.buffer, …)`, so `data` and `self.buffer` are the same
  object: `parse_data_eq`. `parse_data_general` is the statement for two different arguments.
* `next_event parse_options_header self.buffer self.state self._search_position self._parts_decoded
  self.boundary self.complete self.max_parts` returns
  `((buffer, state, _search_position, _parts_decoded) after the call, returned event / exception)`.
  The model's `nextEvent : Decoder → Except String (Event × Decoder)` forgets the decoder when the
  call raises, but the real method keeps every attribute it assigned before the `raise`
  (`del self.buffer[:headers_end]` before "Missing Content-Disposition header", the three assignments
  before `RequestEntityTooLarge`, `_search_position` before the final `ValueError`, …). Therefore
  `raisedSt d` spells out the four attributes after a raising call, `view d` reads a model outcome as
  a translated outcome (`.ok (ev, d')` ↦ `(toSt d', .ok ev)`, `.error e` ↦ `(raisedSt d, .error e)`)
  and the main theorem is the plain equality `next_event_eq : nextEventT d = view d (nextEvent d)`
  for every decoder `d` (`nextEventT d` = the translated function applied to the attributes of `d`,
  with `parse_options := FormOptions.parseOptionsHeader` — the types agree — and
  `self.max_parts := d.maxParts.map Int.ofNat`). The model's `extra` is read with
  `FormOptions.lookup`, the translation's with `Pre.dictGet?`: `lookup_eq_dictGet?`.
  The weaker forms asked for follow: `next_event_result_eq` (result component, all inputs),
  `next_event_state_eq` (state component on a normal return), `next_event_raised_state_eq`,
  `nextEvent_frame` (the model changes nothing but the four attributes).

Content.
* helpers (no generated definition involved): `findIdx?_isSome`, `find_neg_one`, `slice_nonneg`,
  `slice_none_nonneg`, `slice_zero_nat`, `setSlice_del_prefix`, `setSlice_del_all`,
  `rfindIdx?_nil_of_ne`, `rfindFrom_model_eq`, `rfindFrom_eq`, `partition_colon`, `strip_eq`,
  `max_zero_sub`, `max_zero_sub1`, `fdiv_two_nat`, `lookup_eq_dictGet?`, `cdKey`, `nameKey`,
  `filenameKey`; the model's header fold `hdrStep` (`parseHeaders_unfold`, `hdrStep_none`,
  `hdrStep_error`, `hdrStep_ok`, `hdrFold_error`); `dataCutG`, `dataCutG_self`, `dataCut_next_some`,
  `parseData_ok`, `parseData_next_some`; `toSt`, `raisedSt`, `view`, `raisedSt_buffer_le`,
  `nextEvent_frame`;
* `_parse_data`: `parse_data_general`, `parse_data_eq`;
* `_parse_headers`: `parse_headers_loop_eq`, `parse_headers_eq`;
* `next_event`, one lemma per decoder state: `next_event_preamble`, `next_event_part`,
  `next_event_dataStart`, `next_event_data`, `next_event_epilogue`, `next_event_complete`; combined:
  `next_event_eq`, `next_event_result_eq`, `next_event_state_eq`, `next_event_raised_state_eq`;
* C10 theorems restated on the translated `next_event`: `next_event_never_grows_translated`,
  `next_event_never_grows_always`, `next_event_parts_bounded_translated`;
* three concrete raising calls (`example`s at the end), replayed on the real code.

No input was found on which translation and model differ (neither in the exception class nor in the
order in which several possible exceptions are raised); nothing is weakened or left open.
`raisedSt` was checked against the real method on raising calls in every state (Missing
Content-Disposition, RequestEntityTooLarge, UnicodeDecodeError, AttributeError, the final ValueError
in the states PREAMBLE / PART / DATA_START / DATA / COMPLETE): buffer, state, `_search_position` and
`_parts_decoded` after the raise are as `raisedSt` says.
-/
import WzVerif.Gen.PyFns_Decoder
import WzVerif.Props.C01T
import WzVerif.Lemmas.Multipart
import WzVerif.Lemmas.FormLimits
namespace Wz.PyFnsEq.Decoder
open Wz Wz.Multipart Wz.Gen.PyFns_Decoder

/-! ## helpers (no generated definition involved) -/

/-! ### prelude primitives against the kernels of the model -/

/-- `sub` occurs somewhere in `buf` (the prelude's `find` found an index) exactly when the model's
`containsSub` says so -/
theorem findIdx?_isSome (sub buf : Bytes) : (Pre.findIdx? sub buf).isSome = containsSub sub buf := by
  induction buf with
  | nil => cases sub <;> simp [Pre.findIdx?, containsSub]
  | cons a t ih =>
    simp only [Pre.findIdx?, containsSub]
    cases h : sub.isPrefixOf (a :: t) <;> simp [← ih]

/-- the test `buf.find(sub) == -1` of `_parse_data` is the negation of the model's `containsSub` -/
theorem find_neg_one (buf sub : Bytes) : (Pre.find buf sub == -1) = !containsSub sub buf := by
  rw [← findIdx?_isSome]
  unfold Pre.find
  cases h : Pre.findIdx? sub buf with
  | none => simp
  | some i =>
    have : ¬ ((i : Int) = -1) := by omega
    simp [this]

/-- `d[a:b]` for two non-negative bounds: the first `b` items without the first `a` -/
theorem slice_nonneg (d : List α) (a b : Int) (ha : 0 ≤ a) (hb : 0 ≤ b) :
    Pre.slice d (some a) (some b) = (d.take b.toNat).drop a.toNat := by
  obtain ⟨i, rfl⟩ : ∃ i : Nat, a = i := ⟨a.toNat, by omega⟩
  obtain ⟨j, rfl⟩ : ∃ j : Nat, b = j := ⟨b.toNat, by omega⟩
  rw [Pre.slice_nat]; simp

/-- `d[:n]` for a non-negative `n`: the first `n` items -/
theorem slice_none_nonneg (d : List α) (n : Int) (hn : 0 ≤ n) :
    Pre.slice d none (some n) = d.take n.toNat := by
  obtain ⟨j, rfl⟩ : ∃ j : Nat, n = j := ⟨n.toNat, by omega⟩
  rw [Pre.slice_none_nat]; simp

/-- `d[0:b]`: the first `b` items -/
theorem slice_zero_nat (d : List α) (b : Nat) :
    Pre.slice d (some 0) (some (b : Int)) = d.take b := by
  have := Pre.slice_nat d 0 b
  simpa using this

/-- `del b[:n]` for a non-negative `n` leaves the list without its first `n` items -/
theorem setSlice_del_prefix (b : List α) (n : Int) (hn : 0 ≤ n) :
    Pre.setSlice b none (some n) [] = b.drop n.toNat := by
  simp only [Pre.setSlice, Pre.clamp_of_nonneg _ _ hn, List.take_zero, List.nil_append, Nat.zero_max]
  rcases Nat.le_total n.toNat b.length with h | h
  · rw [Nat.min_eq_left h]
  · rw [Nat.min_eq_right h, List.drop_eq_nil_of_le (Nat.le_refl _), List.drop_eq_nil_of_le h]

/-- `del b[:]` leaves the empty list -/
theorem setSlice_del_all (b : List α) : Pre.setSlice b none none [] = [] := by
  simp [Pre.setSlice]

/-- a non-empty text does not occur in the empty text -/
theorem rfindIdx?_nil_of_ne {sub : Bytes} (h : sub ≠ []) : Pre.rfindIdx? sub ([] : Bytes) = none := by
  cases sub with
  | nil => exact absurd rfl h
  | cons x t => simp [Pre.rfindIdx?]

/-- the model's `rfindFrom sub buf i start` (`buf` is the part of the buffer that starts at index `i`,
occurrences before `start` do not count) in terms of the prelude's plain `rfind` on the rest of the
buffer from `start` on -/
theorem rfindFrom_model_eq (sub : Bytes) (hs : sub ≠ []) (buf : Bytes) (i start : Nat) :
    rfindFrom sub buf i start =
      (Pre.rfindIdx? sub (buf.drop (start - i))).map (· + max i start) := by
  induction buf generalizing i with
  | nil => simp [rfindFrom, rfindIdx?_nil_of_ne hs]
  | cons a t ih =>
    unfold rfindFrom
    rw [ih (i + 1)]
    by_cases hle : start ≤ i
    · have e0 : start - i = 0 := by omega
      have e1 : start - (i + 1) = 0 := by omega
      have m0 : max i start = i := by omega
      have m1 : max (i + 1) start = i + 1 := by omega
      rw [e0, e1, m0, m1]
      simp only [List.drop_zero, Pre.rfindIdx?]
      cases h : Pre.rfindIdx? sub t with
      | some j => simp; omega
      | none =>
        cases hp : sub.isPrefixOf (a :: t) <;> simp [hle]
    · obtain ⟨k, hk⟩ : ∃ k, start - i = k + 1 := ⟨start - i - 1, by omega⟩
      have e1 : start - (i + 1) = k := by omega
      have m0 : max i start = start := by omega
      have m1 : max (i + 1) start = start := by omega
      rw [hk, e1, m0, m1, List.drop_succ_cons]
      cases h : Pre.rfindIdx? sub (t.drop k) with
      | some j => simp
      | none => simp [hle]

/-- `buf.rfind(sub, start)` for a non-empty `sub` and a non-negative `start` is the model's
`rfindFrom sub buf 0 start` (with -1 for "not found") -/
theorem rfindFrom_eq (buf sub : Bytes) (hs : sub ≠ []) (start : Int) (h0 : 0 ≤ start) :
    Pre.rfindFrom buf sub start =
      match rfindFrom sub buf 0 start.toNat with
      | some p => (p : Int)
      | none => -1 := by
  rw [rfindFrom_model_eq sub hs]
  unfold Pre.rfindFrom
  have hn : ¬ (start < 0) := by omega
  simp only [hn, if_false, Nat.sub_zero, Nat.zero_max]
  by_cases hgt : start > (buf.length : Int)
  · have : buf.drop start.toNat = [] := List.drop_eq_nil_of_le (by omega)
    simp [hgt, this, rfindIdx?_nil_of_ne hs]
  · simp only [hgt, if_false]
    cases Pre.rfindIdx? sub (buf.drop start.toNat) with
    | none => rfl
    | some j => simp; omega

/-- `name, _, value = s.partition(":")`: `name` and `value` are the two components of the model's
`partitionColon s` -/
theorem partition_colon (s : Pre.Str) :
    (Pre.partition s [':']).1 = (partitionColon s).1 ∧
    (Pre.partition s [':']).2.2 = (partitionColon s).2 := by
  unfold partitionColon
  rcases Pre.split_at_first ':' s with ⟨h1, h2, h3⟩ | ⟨pre, post, h1, h2, h3, h4⟩
  · simp [Pre.partition, Pre.findIdx?_singleton_not_mem ':' s h1, h2, h3]
  · rw [h3, h4]
    simp [Pre.partition, h1, Pre.findIdx?_singleton_append ':' pre post h2]

/-- the prelude's `str.strip()` is the `Py.strip` that `parseHeaders` applies to name and value -/
theorem strip_eq (s : Pre.Str) : Pre.strip s = Py.strip s := rfl

/-- `max(0, a - b - c)` on Python integers is the truncated subtraction of the model -/
theorem max_zero_sub (a b c : Nat) :
    max (0 : Int) (((a : Int) - (b : Int)) - (c : Int)) = ((a - b - c : Nat) : Int) := by
  omega

/-- `max(0, a - c)` on Python integers is the truncated subtraction of the model -/
theorem max_zero_sub1 (a c : Nat) :
    max (0 : Int) ((a : Int) - (c : Int)) = ((a - c : Nat) : Int) := by
  omega

/-- `(a + b) // 2` on non-negative Python integers is the division of the model -/
theorem fdiv_two_nat (a b : Nat) : Int.fdiv ((a : Int) + (b : Int)) 2 = (((a + b) / 2 : Nat) : Int) := by
  rw [Int.fdiv_eq_ediv_of_nonneg _ (by omega)]
  omega

/-- `extra.get(k)` on the list of pairs of the translation is the model's `FormOptions.lookup` -/
theorem lookup_eq_dictGet? (k : List Char) (l : List (List Char × List Char)) :
    Pre.dictGet? l k = FormOptions.lookup k l := by
  induction l with
  | nil => rfl
  | cons p t ih =>
    rcases p with ⟨k', v⟩
    unfold Pre.dictGet? at ih ⊢
    simp only [List.find?_cons, FormOptions.lookup]
    cases h : k' == k <;> simp [ih]

/-- the key `"content-disposition"` as a list of characters -/
theorem cdKey : "content-disposition".toList =
    ['c', 'o', 'n', 't', 'e', 'n', 't', '-', 'd', 'i', 's', 'p', 'o', 's', 'i', 't', 'i', 'o', 'n'] := by
  decide

/-- the key `"name"` as a list of characters -/
theorem nameKey : "name".toList = ['n', 'a', 'm', 'e'] := by decide

/-- the key `"filename"` as a list of characters -/
theorem filenameKey : "filename".toList = ['f', 'i', 'l', 'e', 'n', 'a', 'm', 'e'] := by decide

/-! ### the model's `parseHeaders` as a right fold -/

/-- the per-line step of the model's `parseHeaders` fold (`acc` = the outcome for the lines after
this one) -/
def hdrStep (ln : Bytes) (acc : Except String Headers) : Except String Headers :=
  match utf8Dec? ln, acc with
  | none, _ => .error "UnicodeDecodeError"
  | _, .error e => .error e
  | some s, .ok hs =>
    let (n, v) := partitionColon s
    .ok ((Py.strip n, Py.strip v) :: hs)

/-- `parseHeaders` is the right fold of `hdrStep` over the stripped, non-empty lines -/
theorem parseHeaders_unfold (data : Bytes) :
    parseHeaders data =
      (((splitLines (foldContinuations data)).map stripBytes).filter (!·.isEmpty)).foldr hdrStep (.ok []) :=
  rfl

/-- a line that is not UTF-8 makes the fold answer `UnicodeDecodeError`, whatever follows -/
theorem hdrStep_none {ln : Bytes} (acc : Except String Headers) (h : utf8Dec? ln = none) :
    hdrStep ln acc = .error "UnicodeDecodeError" := by
  unfold hdrStep; rw [h]

/-- a UTF-8 line passes on the error of the lines after it -/
theorem hdrStep_error {ln : Bytes} {s : Str} (e : String) (h : utf8Dec? ln = some s) :
    hdrStep ln (.error e) = .error e := by
  unfold hdrStep; rw [h]

/-- a UTF-8 line puts its `(name, value)` pair before the pairs of the lines after it -/
theorem hdrStep_ok {ln : Bytes} {s : Str} (hs : Headers) (h : utf8Dec? ln = some s) :
    hdrStep ln (.ok hs) =
      .ok ((Py.strip (partitionColon s).1, Py.strip (partitionColon s).2) :: hs) := by
  unfold hdrStep; rw [h]

/-- the only error of the model's header fold is `UnicodeDecodeError`: it does not matter which of
several undecodable lines is blamed (the Python loop stops at the first, the right fold reports the
last one it meets) -/
theorem hdrFold_error (L : List Bytes) (e : String) (h : L.foldr hdrStep (.ok []) = .error e) :
    e = "UnicodeDecodeError" := by
  induction L with
  | nil => simp at h
  | cons ln t ih =>
    simp only [List.foldr_cons] at h
    cases hd : utf8Dec? ln with
    | none => rw [hdrStep_none _ hd] at h; cases h; rfl
    | some s =>
      cases ht : t.foldr hdrStep (.ok []) with
      | error e' => rw [ht, hdrStep_error _ hd] at h; cases h; exact ih ht
      | ok hs => rw [ht, hdrStep_ok _ hd] at h; cases h

/-! ### the model's `dataCut` / `parseData` -/

/-- `dataCut` of the model with the two roles of the buffer kept apart: `buf` (`self.buffer`) is only
asked whether it contains `--boundary`, everything else is computed on `data` -/
def dataCutG (bnd data buf : Bytes) : Nat × Nat × Option Bool :=
  if !containsSub (45 :: 45 :: bnd) buf then
    let k := lastNewline data
    if data.length - k > bnd.length + 2 + 1 then (data.length, data.length, none) else (k, k, none)
  else
    match searchDelim bnd false data with
    | some (s, e, f) => (s, e, some f)
    | none => let k := lastNewline data; (k, k, none)

/-- on `data = self.buffer` this is the model's `dataCut` -/
theorem dataCutG_self (bnd buf : Bytes) : dataCutG bnd buf buf = dataCut bnd buf := rfl

/-- when `_parse_data` recognises a delimiter, `del_index` (the end of the match) is positive -/
theorem dataCut_next_some {bnd buf : Bytes} {f : Bool} (h : (dataCut bnd buf).2.2 = some f) :
    0 < (dataCut bnd buf).2.1 := by
  unfold dataCut at h ⊢
  cases hc : containsSub (45 :: 45 :: bnd) buf
  · simp [hc] at h
    split at h <;> simp at h
  · cases hs : searchDelim bnd false buf with
    | none => simp [hc, hs] at h
    | some r =>
      rcases r with ⟨s, e, f'⟩
      have := searchDelim_bounds hs
      simp [hc]
      omega

/-- `del_index` and the delimiter decision of a successful `parseData` are those of `dataCut` -/
theorem parseData_ok {bnd buf : Bytes} {start : Bool} {r : DataRes} (h : parseData bnd buf start = .ok r) :
    r.delIndex = (dataCut bnd buf).2.1 ∧ r.next = (dataCut bnd buf).2.2 := by
  unfold parseData at h
  by_cases hb : (start && (if start then lbLen buf else 0) == 0) = true
  · simp [hb] at h
  · simp [hb] at h
    subst h
    exact ⟨rfl, rfl⟩

/-- a successful `parseData` that recognised a delimiter consumes at least one byte -/
theorem parseData_next_some {bnd buf : Bytes} {start : Bool} {r : DataRes} {f : Bool}
    (h : parseData bnd buf start = .ok r) (hn : r.next = some f) : 0 < r.delIndex := by
  have ⟨h1, h2⟩ := parseData_ok h
  rw [h1]; exact dataCut_next_some (h2 ▸ hn)

/-! ### reading a model outcome as an outcome of the translated `next_event` -/

/-- the four attributes `next_event` assigns: `(buffer, state, _search_position, _parts_decoded)` -/
def toSt (d : Decoder) : Bytes × State × Int × Int :=
  (d.buffer, d.state, (d.searchPos : Int), (d.partsDecoded : Int))

/-- the four attributes after a call of `next_event` that raised: every assignment made before the
`raise` is kept.
* PREAMBLE (only the final `ValueError` is possible): `_search_position` was updated;
* PART: nothing changed when no blank line was found except `_search_position`, nothing at all when
  `_parse_headers` raised; the header block was deleted from the buffer when Content-Disposition is
  missing or `parse_options_header` raised; for `RequestEntityTooLarge` also `state`,
  `_search_position` and `_parts_decoded` were assigned;
* DATA (the final `ValueError`, reached with an empty payload): `del self.buffer[:del_index]` ran;
* DATA_START, EPILOGUE, COMPLETE: nothing changed. -/
def raisedSt (d : Decoder) : Bytes × State × Int × Int :=
  match d.state with
  | .preamble =>
    (d.buffer, .preamble, (nextSearchPos d.boundary d.buffer d.searchPos : Nat), (d.partsDecoded : Int))
  | .part =>
    match searchBlankFrom d.searchPos d.buffer with
    | none => (d.buffer, .part, ((d.buffer.length - searchExtra : Nat) : Int), (d.partsDecoded : Int))
    | some (s, e) =>
      match parseHeaders (d.buffer.take s) with
      | .error _ => toSt d
      | .ok headers =>
        let buf' := d.buffer.drop ((s + e) / 2)
        match headerGet "content-disposition".toList headers with
        | none => (buf', .part, (d.searchPos : Int), (d.partsDecoded : Int))
        | some cd =>
          match FormOptions.parseOptionsHeader cd with
          | .error _ => (buf', .part, (d.searchPos : Int), (d.partsDecoded : Int))
          | .ok _ => (buf', .dataStart, 0, (d.partsDecoded : Int) + 1)
  | .data =>
    (d.buffer.drop (dataCut d.boundary d.buffer).2.1, .data, (d.searchPos : Int), (d.partsDecoded : Int))
  | _ => toSt d

/-- a model outcome read as an outcome of the translated `next_event` called on the decoder `d`:
the attributes after the call and the event / exception -/
def view (d : Decoder) : Except String (Event × Decoder) → (Bytes × State × Int × Int) × Except String Event
  | .ok (ev, d') => (toSt d', .ok ev)
  | .error e => (raisedSt d, .error e)

/-- a raising `next_event` call never leaves more bytes in the buffer than it found -/
theorem raisedSt_buffer_le (d : Decoder) : (raisedSt d).1.length ≤ d.buffer.length := by
  unfold raisedSt
  repeat' split
  all_goals simp [toSt]

/-- the model's `nextEvent` changes nothing but buffer, state, search position and part counter:
boundary, `complete` and the two limits of the returned decoder are those of the given one -/
theorem nextEvent_frame {d d' : Decoder} {ev : Event} (h : nextEvent d = .ok (ev, d')) :
    d'.boundary = d.boundary ∧ d'.complete = d.complete ∧ d'.maxMem = d.maxMem ∧ d'.maxParts = d.maxParts := by
  rcases step_ok (nextEvent_ok h) with ⟨⟨h1, h2, h3⟩, _, _, _, h5⟩
  exact ⟨h1, h5, h2, h3⟩

/-! ## `_parse_data` -/

/-- `MultipartDecoder._parse_data(data, start=…)` as translated from the current source, for any
`data` and any `self.buffer`: `AttributeError` when `start` and `data` does not begin with a line
break (`LINE_BREAK_RE.match` returned `None`); otherwise the payload is `data[data_start:data_end]`,
`del_index` and `more_data` are as `dataCutG` computes them (`self.buffer` is only asked whether it
contains `--boundary`), and `self.state` becomes EPILOGUE / PART exactly when `boundary_re` matched
(closing / not closing delimiter) and is left alone otherwise. -/
theorem parse_data_general (st : State) (bnd data buf : Bytes) (start : Bool) :
    parse_data st data start bnd buf =
      if start && lbLen data == 0 then (st, .error "AttributeError")
      else
        ((match (dataCutG bnd data buf).2.2 with | some f => afterDelim f | none => st),
          .ok (((data.take (dataCutG bnd data buf).1).drop (if start then lbLen data else 0)),
            ((dataCutG bnd data buf).2.1 : Int), (dataCutG bnd data buf).2.2.isNone)) := by
  have hiff : ((bnd.length : Int) + 1 + 1 + 1 < (data.length : Int) - (lastNewline data : Int)) ↔
      (bnd.length + 1 + 1 + 1 < data.length - lastNewline data) := by omega
  unfold parse_data dataCutG
  simp only [find_neg_one, Props.C01T.last_newline_eq, lineBreakReMatch, boundaryReSearch, mpEnd, mpClosing]
  cases start
  · simp
    cases hc : containsSub (45 :: 45 :: bnd) buf
    · by_cases hl : bnd.length + 1 + 1 + 1 < data.length - lastNewline data
      · simp [hl, hiff.mpr hl, slice_zero_nat]
      · simp [hl, mt hiff.mp hl, slice_zero_nat]
    · cases hs : searchDelim bnd false data with
      | none => simp [slice_zero_nat]
      | some r =>
        rcases r with ⟨s, e, f⟩
        cases f <;> simp [slice_zero_nat, afterDelim]
  · simp
    by_cases hlb : 0 < lbLen data
    · have hne : ¬ (lbLen data = 0) := by omega
      simp [hlb, hne]
      cases hc : containsSub (45 :: 45 :: bnd) buf
      · by_cases hl : bnd.length + 1 + 1 + 1 < data.length - lastNewline data
        · simp [hl, hiff.mpr hl, Pre.slice_nat]
        · simp [hl, mt hiff.mp hl, Pre.slice_nat]
      · cases hs : searchDelim bnd false data with
        | none => simp [Pre.slice_nat]
        | some r =>
          rcases r with ⟨s, e, f⟩
          cases f <;> simp [Pre.slice_nat, afterDelim]
    · have he : lbLen data = 0 := by omega
      simp [he]

/-- `MultipartDecoder._parse_data(self.buffer, start=…)` as translated from the current source (the
way `next_event` calls it: `data` is `self.buffer`) is the model's `parseData`: the same exception,
or the same payload, `del_index` and `more_data` (`more_data` = no delimiter recognised), and
`self.state` is assigned EPILOGUE / PART exactly when the model reports a closing / non-closing
delimiter and keeps its value otherwise. -/
theorem parse_data_eq (st : State) (bnd buf : Bytes) (start : Bool) :
    parse_data st buf start bnd buf =
      match parseData bnd buf start with
      | .error e => (st, .error e)
      | .ok r => ((match r.next with | some f => afterDelim f | none => st),
                  .ok (r.payload, (r.delIndex : Int), r.next.isNone)) := by
  rw [parse_data_general, dataCutG_self]
  unfold parseData
  by_cases h : (start && lbLen buf == 0) = true
  · have h' : (start && (if start = true then lbLen buf else 0) == 0) = true := by
      cases start <;> simp_all
    simp [h, h']
  · have h' : ¬ (start && (if start = true then lbLen buf else 0) == 0) = true := by
      cases start <;> simp_all
    simp [h, h']

/-! ## `_parse_headers` -/

/-- the `for line in data.splitlines():` loop of `_parse_headers`, started with the headers `acc`
collected so far: it returns from inside the loop with `UnicodeDecodeError` exactly when the model's
fold over the stripped non-empty lines fails, and otherwise runs to its end having appended the
model's `(name, value)` pairs to `acc` in order -/
theorem parse_headers_loop_eq (L : List Bytes) (acc : Headers) :
    parse_headers.loop1 L acc =
      match ((L.map stripBytes).filter (!·.isEmpty)).foldr hdrStep (.ok []) with
      | .error _ => .ret (.error "UnicodeDecodeError")
      | .ok hs => .fall (acc ++ hs) := by
  induction L generalizing acc with
  | nil => simp [parse_headers.loop1]
  | cons line rest ih =>
    unfold parse_headers.loop1
    cases hl : stripBytes line with
    | nil => simp [hl, ih]
    | cons x t =>
      simp only [List.map_cons, hl]
      simp [decodeUtf8Strict]
      cases hd : utf8Dec? (x :: t) with
      | none => simp [hdrStep_none _ hd]
      | some s =>
        simp only [ih]
        cases ht : (((rest.map stripBytes).filter (!·.isEmpty)).foldr hdrStep (.ok [])) with
        | error e' => simp [hdrStep_error _ hd]
        | ok hs =>
          simp [hdrStep_ok _ hd, (partition_colon s).1, (partition_colon s).2, strip_eq]

/-- `MultipartDecoder._parse_headers(data)` as translated from the current source is the model's
`parseHeaders data` for every byte string: the continuation lines are folded, every line is stripped,
empty lines are skipped, a line that is not UTF-8 raises `UnicodeDecodeError`, and otherwise the
headers are the stripped texts before and after the first `:` of every line, in order. -/
theorem parse_headers_eq (data : Bytes) : parse_headers data = parseHeaders data := by
  unfold parse_headers
  simp only [parse_headers_loop_eq, parseHeaders_unfold, List.nil_append, id]
  cases h : (((splitLines (foldContinuations data)).map stripBytes).filter (!·.isEmpty)).foldr hdrStep (.ok []) with
  | error e => simp [hdrFold_error _ _ h]
  | ok hs => simp

/-! ## `next_event` -/

/-- the translated `next_event` called on a decoder whose attributes are those of `d`, with
`parse_options_header` read as the model `FormOptions.parseOptionsHeader` -/
def nextEventT (d : Decoder) : (Bytes × State × Int × Int) × Except String Event :=
  next_event FormOptions.parseOptionsHeader d.buffer d.state (d.searchPos : Int) (d.partsDecoded : Int)
    d.boundary d.complete (d.maxParts.map Int.ofNat)

/-- `next_event()` in state PREAMBLE: when `preamble_re` matches from `_search_position` on, the
Preamble event, the deletion up to the end of the match, the new state and `_search_position = 0`
are the model's; when it does not match, `_search_position` becomes the model's `nextSearchPos`
(the `max` / `rfind` / `min` computation) and the call returns NEED_DATA, or raises `ValueError`
when the input is complete. -/
theorem next_event_preamble (d : Decoder) (hs : d.state = .preamble) :
    nextEventT d = view d (nextEvent d) := by
  rcases d with ⟨bnd, buf, st, cpl, sp, pd, mm, mp⟩
  simp only at hs
  subst hs
  unfold nextEventT next_event nextEvent step
  simp only [isNeedData, preambleReSearch, Int.toNat_natCast]
  cases h : searchDelimFrom bnd true sp buf with
  | none =>
    have hr := rfindFrom_eq buf (45 :: 45 :: bnd) (by simp) (sp : Int) (by omega)
    simp only [Int.toNat_natCast] at hr
    simp [hr, view, raisedSt, toSt, nextSearchPos, max_zero_sub]
    cases hp : rfindFrom (45 :: 45 :: bnd) buf 0 sp with
    | none => cases cpl <;> simp
    | some p =>
      have hne : ¬ ((p : Int) = -1) := by omega
      have hm : min (((buf.length - bnd.length - searchExtra : Nat)) : Int) (max 0 ((p : Int) - 2))
          = ((min (buf.length - bnd.length - searchExtra) (p - 2) : Nat) : Int) := by omega
      cases cpl <;> simp [hne, hm]
  | some r =>
    rcases r with ⟨s, e, f⟩
    cases f <;>
      simp [mpClosing, mpEnd, view, toSt, afterDelim, Pre.slice_none_nat,
        setSlice_del_prefix _ _ (Int.natCast_nonneg _)]

/-- `next_event()` in state PART: without a blank line only `_search_position` moves; with one, the
exceptions come in the model's order (`_parse_headers`, missing Content-Disposition,
`parse_options_header`, `RequestEntityTooLarge` for too many parts), and otherwise the Field / File
event, the deletion of the header block, state DATA_START, `_search_position = 0` and the part
counter are the model's. -/
theorem next_event_part (d : Decoder) (hs : d.state = .part) :
    nextEventT d = view d (nextEvent d) := by
  rcases d with ⟨bnd, buf, st, cpl, sp, pd, mm, mp⟩
  simp only at hs
  subst hs
  unfold nextEventT next_event nextEvent step
  simp only [isNeedData, beq_iff_eq, reduceCtorEq, ↓reduceIte, blankLineReSearch, Int.toNat_natCast]
  cases h : searchBlankFrom sp buf with
  | none =>
    cases cpl <;> simp [view, raisedSt, toSt, h, max_zero_sub1]
  | some r =>
    rcases r with ⟨s, e⟩
    simp only [parse_headers_eq, Pre.slice_none_nat, mpEnd, Option.map_some]
    cases hh : parseHeaders (List.take s buf) with
    | error err => simp only [view, raisedSt, toSt, h, hh]
    | ok headers =>
      simp only [headersHas, headersGetD, view, raisedSt, toSt, h, hh, cdKey, nameKey, filenameKey,
        fdiv_two_nat, setSlice_del_prefix _ _ (Int.natCast_nonneg _), Int.toNat_natCast, lookup_eq_dictGet?]
      generalize ['c', 'o', 'n', 't', 'e', 'n', 't', '-', 'd', 'i', 's', 'p', 'o', 's', 'i', 't', 'i', 'o', 'n'] = kcd
      generalize ['f', 'i', 'l', 'e', 'n', 'a', 'm', 'e'] = kf
      generalize ['n', 'a', 'm', 'e'] = kn
      cases hcd : headerGet kcd headers with
      | none => simp
      | some cd =>
        simp only [Option.isSome_some, Option.getD_some]
        cases hpo : FormOptions.parseOptionsHeader cd with
        | error err => simp
        | ok r =>
          rcases r with ⟨v, extra⟩
          simp only []
          cases mp with
          | none => cases hf : FormOptions.lookup kf extra <;> cases cpl <;> simp
          | some m =>
            have hiff : ((m : Int) < (pd : Int) + 1) ↔ (m < pd + 1) := by omega
            by_cases hlt : m < pd + 1
            · cases hf : FormOptions.lookup kf extra <;> simp [hlt, hiff.mpr hlt]
            · cases hf : FormOptions.lookup kf extra <;> cases cpl <;> simp [hlt, mt hiff.mp hlt]

/-- `next_event()` in state DATA_START: `_parse_data(self.buffer, start=True)`; nothing is consumed
and NEED_DATA is answered while `del_index == 0` (then no delimiter was recognised, so `self.state`
is untouched); otherwise the Data event, the deletion and the new state (DATA, or the state
`_parse_data` assigned) are the model's. -/
theorem next_event_dataStart (d : Decoder) (hs : d.state = .dataStart) :
    nextEventT d = view d (nextEvent d) := by
  rcases d with ⟨bnd, buf, st, cpl, sp, pd, mm, mp⟩
  simp only at hs
  subst hs
  unfold nextEventT next_event nextEvent step stepData dataStep
  simp only [isNeedData, beq_iff_eq, reduceCtorEq, ↓reduceIte, parse_data_eq]
  cases hp : parseData bnd buf true with
  | error err => simp [view, raisedSt, toSt]
  | ok r =>
    by_cases hz : r.delIndex = 0
    · have hn : r.next = none := by
        cases hn : r.next with
        | none => rfl
        | some f => have := parseData_next_some hp hn; omega
      cases cpl <;> simp [hz, hn, view, raisedSt, toSt]
    · have hpos : 0 < r.delIndex := by omega
      cases hn : r.next <;> cases cpl <;>
        simp [hz, hpos, hn, view, toSt, setSlice_del_prefix _ _ (Int.natCast_nonneg _)]

/-- `next_event()` in state DATA: `_parse_data(self.buffer, start=False)`, the deletion of
`del_index` bytes, a Data event unless the payload is empty and more data is expected, and the state
`_parse_data` assigned (or DATA) - all as in the model. -/
theorem next_event_data (d : Decoder) (hs : d.state = .data) :
    nextEventT d = view d (nextEvent d) := by
  rcases d with ⟨bnd, buf, st, cpl, sp, pd, mm, mp⟩
  simp only at hs
  subst hs
  unfold nextEventT next_event nextEvent step stepData dataStep
  simp only [isNeedData, beq_iff_eq, reduceCtorEq, ↓reduceIte, parse_data_eq]
  cases hp : parseData bnd buf false with
  | error err => simp [parseData] at hp
  | ok r =>
    have ⟨h1, h2⟩ := parseData_ok hp
    cases hn : r.next with
    | some f =>
      cases cpl <;> simp [hn, view, toSt, setSlice_del_prefix _ _ (Int.natCast_nonneg _)]
    | none =>
      cases hpl : r.payload <;> cases cpl <;>
        simp [hn, hpl, h1, view, raisedSt, toSt, setSlice_del_prefix _ _ (Int.natCast_nonneg _)]

/-- `next_event()` in state EPILOGUE: once the input is complete the whole buffer is the Epilogue
event, the buffer is emptied and the state becomes COMPLETE; before that NEED_DATA. -/
theorem next_event_epilogue (d : Decoder) (hs : d.state = .epilogue) :
    nextEventT d = view d (nextEvent d) := by
  rcases d with ⟨bnd, buf, st, cpl, sp, pd, mm, mp⟩
  simp only at hs
  subst hs
  unfold nextEventT next_event nextEvent step
  cases cpl <;> simp [isNeedData, view, toSt, setSlice_del_all]

/-- `next_event()` in state COMPLETE: NEED_DATA, or `ValueError` when the input is complete; nothing
is assigned. -/
theorem next_event_complete (d : Decoder) (hs : d.state = .complete) :
    nextEventT d = view d (nextEvent d) := by
  rcases d with ⟨bnd, buf, st, cpl, sp, pd, mm, mp⟩
  simp only at hs
  subst hs
  unfold nextEventT next_event nextEvent step
  cases cpl <;> simp [isNeedData, view, raisedSt, toSt]

/-- **`MultipartDecoder.next_event()` as translated from the current source is the model's
`nextEvent`**, for every decoder: the same event on a normal return, the same exception class
otherwise (with several possible exceptions raised in the same order), and the four attributes the
method assigns (`buffer`, `state`, `_search_position`, `_parts_decoded`) are afterwards those of the
decoder the model returns - or, when the call raises, those described by `raisedSt`. -/
theorem next_event_eq (d : Decoder) : nextEventT d = view d (nextEvent d) := by
  cases hs : d.state
  · exact next_event_preamble d hs
  · exact next_event_part d hs
  · exact next_event_dataStart d hs
  · exact next_event_data d hs
  · exact next_event_epilogue d hs
  · exact next_event_complete d hs

/-- what the translated `next_event` returns or raises is, for every decoder, what the model's
`nextEvent` returns (its event) or raises -/
theorem next_event_result_eq (d : Decoder) :
    (nextEventT d).2 = (nextEvent d).map (·.1) := by
  rw [next_event_eq]
  cases nextEvent d with
  | error e => rfl
  | ok r => rcases r with ⟨ev, d'⟩; rfl

/-- when the model's `nextEvent` returns normally with the decoder `d'`, the translated `next_event`
leaves `buffer`, `state`, `_search_position` and `_parts_decoded` as in `d'` (`nextEvent_frame`: the
other fields of `d'` are those of `d`) -/
theorem next_event_state_eq {d d' : Decoder} {ev : Event} (h : nextEvent d = .ok (ev, d')) :
    (nextEventT d).1 = toSt d' := by
  rw [next_event_eq, h]; rfl

/-- when the model's `nextEvent` raises, the translated `next_event` leaves the four attributes as
`raisedSt` describes (the assignments made before the `raise` are kept) -/
theorem next_event_raised_state_eq {d : Decoder} {e : String} (h : nextEvent d = .error e) :
    (nextEventT d).1 = raisedSt d := by
  rw [next_event_eq, h]; rfl

/-! ## raising calls keep the assignments made before the `raise` (replayed on the real code) -/

/-- state PART, buffer `b"X\r\n\r\na"`, three parts decoded: `ValueError("Missing Content-Disposition
header")` is raised after `del self.buffer[:headers_end]` - the buffer is `b"\r\na"` afterwards
(real code: the same) -/
example :
    let r := next_event FormOptions.parseOptionsHeader [88, 13, 10, 13, 10, 97] .part 0 3 [98] false none
    r.1 = ([13, 10, 97], .part, 0, 3) ∧ r.2.toBool = false := by decide +kernel

/-- state PREAMBLE, buffer `b"x" * 12`, boundary `b"b"`, input complete: the final `ValueError` is
raised after `_search_position` became `12 - 1 - 8 = 3` (real code: the same) -/
example :
    let r := next_event FormOptions.parseOptionsHeader (List.replicate 12 120) .preamble 0 0 [98] true none
    r.1 = (List.replicate 12 120, .preamble, 3, 0) ∧ r.2.toBool = false := by decide +kernel

/-- state PART, buffer `b"content-disposition: form-data; name=a\r\n\r\nz"`, `max_parts = 0`:
`RequestEntityTooLarge` is raised after the header block was deleted, the state became DATA_START and
`_parts_decoded` became 1 (real code: the same) -/
example :
    let r := next_event FormOptions.parseOptionsHeader
      [99, 111, 110, 116, 101, 110, 116, 45, 100, 105, 115, 112, 111, 115, 105, 116, 105, 111, 110, 58, 32,
       102, 111, 114, 109, 45, 100, 97, 116, 97, 59, 32, 110, 97, 109, 101, 61, 97, 13, 10, 13, 10, 122]
      .part 0 0 [98] false (some 0)
    r.1 = ([13, 10, 122], .dataStart, 0, 1) ∧ r.2.toBool = false := by decide +kernel

end Wz.PyFnsEq.Decoder
