import WzVerif.Model.RequestAttrs
import WzVerif.Lemmas.HttpSafeKeys
set_option linter.unusedSimpArgs false
namespace Wz.Req
open Wz Wz.Http

theorem safe_map {α β : Type} {x : Except String α} (f : α → β) (h : Safe x) : Safe (x.map f) := by
  obtain ⟨a, rfl⟩ := h
  exact ⟨f a, rfl⟩

/-- every character is a latin-1 code point (what PEP 3333 guarantees for environ strings) -/
def Latin1 (s : Str) : Bool := s.all fun c => c.toNat < 256

theorem latin1Enc_some (s : Str) (h : Latin1 s = true) : ∃ bs, Py.latin1Enc s = some bs := by
  induction s with
  | nil => exact ⟨[], rfl⟩
  | cons c t ih =>
    simp only [Latin1, List.all_cons, Bool.and_eq_true, decide_eq_true_eq] at h
    obtain ⟨bs, hbs⟩ := ih (by simpa [Latin1] using h.2)
    exact ⟨UInt8.ofNat c.toNat :: bs, by simp [Py.latin1Enc, h.1, hbs]⟩

theorem args_safe (e : Env) (h : Latin1 e.queryString = true) : Safe (args e) := by
  obtain ⟨bs, hbs⟩ := latin1Enc_some _ h
  unfold args queryBytes
  rw [hbs]
  exact ⟨_, rfl⟩

theorem acceptOf_safe {σ : Type} (N : Wz.Accept.Neg σ Wz.Accept.Q) (hdr : Option Str) : Safe (acceptOf N hdr) := by
  unfold acceptOf
  obtain ⟨items, hi⟩ := parseAcceptHeader_safe (hdr.getD [])
  rw [hi]
  exact ⟨_, rfl⟩

theorem date_safe (pd : Str → Option Nat) (e : Env) : Safe (date pd e) :=
  headerProperty_safe _ _ _ (fun v e he => by simp at he)

/-- the host text `get_host` computes before the trust check -/
def hostText (idna : Wz.Dbg.Idna) (scheme : Str) (h : Option Str) (srv : Option (Str × Option Nat)) : Str :=
  match Wz.Dbg.getHost idna scheme h srv none with
  | .ok v => v
  | .error _ => []

theorem getHost_some (idna : Wz.Dbg.Idna) (scheme : Str) (h : Option Str) (srv : Option (Str × Option Nat))
    (tl : List Str) :
    Wz.Dbg.getHost idna scheme h srv (some tl) =
      if Wz.Dbg.hostIsTrusted idna (some (hostText idna scheme h srv)) tl
      then .ok (hostText idna scheme h srv) else .error "SecurityError" := rfl

theorem getHost_spec (idna : Wz.Dbg.Idna) (scheme : Str) (h : Option Str) (srv : Option (Str × Option Nat))
    (tr : Option (List Str)) :
    (∃ v, Wz.Dbg.getHost idna scheme h srv tr = .ok v) ∨
      (tr.isSome = true ∧ Wz.Dbg.getHost idna scheme h srv tr = .error "SecurityError") := by
  cases tr with
  | none => left; exact ⟨_, rfl⟩
  | some tl =>
    rw [getHost_some]
    split
    · left; exact ⟨_, rfl⟩
    · right; exact ⟨rfl, rfl⟩

/-- reading a modelled attribute returns a value; the one exception is `SecurityError` (an
HTTPException) from `host` when `trusted_hosts` rejects the Host header -/
theorem outcome_spec (x : Ext) (e : Env) (a : Attr) (h : Latin1 e.queryString = true) :
    outcome x e a = .ok () ∨ (a = .host ∧ e.trustedHosts.isSome = true ∧ outcome x e a = .error "SecurityError") := by
  have ok_of_safe : ∀ {α : Type} {y : Except String α}, Safe y → (y.map fun _ => ()) = Except.ok () := by
    intro α y hy
    obtain ⟨v, rfl⟩ := hy
    rfl
  cases a
  case host =>
    simp only [outcome, host]
    rcases getHost_spec x.idna e.scheme e.host (some (e.serverName, e.serverPort)) e.trustedHosts with ⟨v, hv⟩ | ⟨h1, h2⟩
    · left; rw [hv]; rfl
    · right; rw [h2]; exact ⟨trivial, h1, rfl⟩
  case args => left; exact ok_of_safe (args_safe e h)
  case cookies => left; rfl
  case acceptMimetypes => left; exact ok_of_safe (acceptOf_safe _ _)
  case acceptCharsets => left; exact ok_of_safe (acceptOf_safe _ _)
  case acceptEncodings => left; exact ok_of_safe (acceptOf_safe _ _)
  case acceptLanguages => left; exact ok_of_safe (acceptOf_safe _ _)
  case cacheControl => left; exact ok_of_safe (parseCacheControl_safe _)
  case ifMatch => left; rfl
  case ifNoneMatch => left; rfl
  case ifModifiedSince => left; rfl
  case ifUnmodifiedSince => left; rfl
  case ifRange => left; rfl
  case date => left; exact ok_of_safe (date_safe _ _)
  case range => left; exact ok_of_safe (parseRangeHeader_safe _)
  case authorization => left; exact ok_of_safe (authorizationFromHeader_safe _)
  case mimetype => left; exact ok_of_safe (safe_map _ (parseOptionsHeader_safe _))
  case mimetypeParams => left; exact ok_of_safe (safe_map _ (parseOptionsHeader_safe _))
  case isJson => left; exact ok_of_safe (safe_map _ (safe_map _ (parseOptionsHeader_safe _)))
  case contentLength => left; exact ok_of_safe (getContentLength_safe _ _)
  case maxForwards => left; exact ok_of_safe (requestMaxForwards_safe _)
  case accessControlRequestHeaders => left; exact ok_of_safe (requestAcrh_safe _)
  case pragma => left; rfl
  case accessRoute => left; rfl

end Wz.Req
