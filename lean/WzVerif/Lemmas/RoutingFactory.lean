/-
Rule factories commute with matching and building: a rule under `Submount('/a/b', …)` admits exactly the
paths `/a/b` + p for the paths p the inner rule admits (same groups), and builds `/a/b` + what the inner
rule builds; `EndpointPrefix` / `Subdomain` leave the path side untouched.
-/
import WzVerif.Model.RoutingFactory
import WzVerif.Lemmas.RoutingRender
import WzVerif.Lemmas.RoutingMatchBuild
namespace Wz.Routing

/-- tokens of a literal mount path `/s1/s2/…` -/
def mountToks (lits : List Str) : List Tok := lits.flatMap fun s => [.slash, .lit s]

/-- text of a literal mount path -/
def mountText (lits : List Str) : Str := lits.flatMap fun s => '/' :: s

theorem rstripSlashToks_snoc (a : List Tok) (x : Tok) (hx : x ≠ .slash) : rstripSlashToks (a ++ [x]) = a ++ [x] := by
  have : (x == Tok.slash) = false := by simpa using hx
  simp [rstripSlashToks, this]

theorem mountToks_shape (lits : List Str) : mountToks lits = [] ∨ ∃ a s, mountToks lits = a ++ [.lit s] := by
  induction lits with
  | nil => exact .inl rfl
  | cons s t ih =>
    right
    rcases ih with h | ⟨a, s', h⟩
    · exact ⟨[.slash], s, by simp [mountToks] at h ⊢; simp [h]⟩
    · refine ⟨[.slash, .lit s] ++ a, s', ?_⟩
      simp only [mountToks, List.flatMap_cons] at h ⊢
      rw [h]; simp

theorem rstripSlashToks_mount (lits : List Str) : rstripSlashToks (mountToks lits) = mountToks lits := by
  rcases mountToks_shape lits with h | ⟨a, s, h⟩
  · rw [h]; rfl
  · rw [h]; exact rstripSlashToks_snoc a _ (by intro hc; cases hc)

/-- a trailing slash on the mount path is stripped (`Submount.__init__`: `path.rstrip("/")`) -/
theorem rstripSlashToks_mount_slash (lits : List Str) : rstripSlashToks (mountToks lits ++ [.slash]) = mountToks lits := by
  have : rstripSlashToks (mountToks lits ++ [.slash]) = rstripSlashToks (mountToks lits) := by
    simp [rstripSlashToks]
  rw [this, rstripSlashToks_mount]

/-! ### compilation -/

theorem parseToks_mount (lits : List Str) (toks' : List Tok) :
    parseToks (mountToks lits ++ .slash :: toks') {} =
      (parseToks toks' {}).map fun (ps, cs) => (.static [] :: (lits.map Part.static ++ ps), cs) := by
  -- generalise over the literal collected so far
  suffices H : ∀ (lits : List Str) (pre : Str) (sw : List (Int × Int)),
      parseToks (mountToks lits ++ .slash :: toks') { pre := pre, staticWeights := sw } =
        (parseToks toks' {}).map fun (ps, cs) => (.static pre :: (lits.map Part.static ++ ps), cs) by
    exact H lits [] []
  intro lits
  induction lits with
  | nil =>
    intro pre sw
    simp only [mountToks, List.flatMap_nil, List.nil_append, parseToks, Bool.false_eq_true, if_false]
    cases parseToks toks' {} with
    | none => rfl
    | some pc => simp [PState.emit]
  | cons s t ih =>
    intro pre sw
    simp only [mountToks, List.flatMap_cons, List.cons_append, List.nil_append, parseToks, Bool.false_eq_true, if_false]
    have := ih s [((0 : Int), -(s.length : Int))]
    simp only [mountToks] at this
    simp only [List.length_nil, Int.ofNat_zero] at *
    rw [this]
    cases parseToks toks' {} with
    | none => rfl
    | some pc => simp [PState.emit]

/-! ### matching -/

theorem walkVia_static_cons (via : Via) (s : Str) (more : List Part) (xs : List Str) (h : more ≠ []) :
    walkVia via (.static s :: more) (s :: xs) = walkVia via more xs := by
  rw [walkVia]
  simp only [h, false_and, and_false, if_false, step_static, beq_self_eq_true, if_true]
  cases walkVia via more xs <;> simp

theorem walkVia_statics (via : Via) : ∀ (lits : List Str) (ps : List Part) (rest : List Str), ps ≠ [] →
    walkVia via (lits.map Part.static ++ ps) (lits ++ rest) = walkVia via ps rest := by
  intro lits
  induction lits with
  | nil => intro ps rest _; rfl
  | cons s t ih =>
    intro ps rest hps
    have hne : t.map Part.static ++ ps ≠ [] := by
      intro h; exact hps (List.append_eq_nil_iff.1 h).2
    simp only [List.map_cons, List.cons_append]
    rw [walkVia_static_cons via s _ _ hne, ih ps rest hps]

/-- **a rule under a literal Submount admits `mount + p` exactly when the inner rule admits `p`**, with
the same converter groups — for each of the three ways of admitting (direct, extra slash, missing
slash), behind any one-segment domain part `d`. -/
theorem walkVia_submount (via : Via) (d : Part) (lits : List Str) (ps : List Part) (hps : ps ≠ [])
    (dom : Str) (rest : List Str) (hd : ∀ xs, step d (dom :: xs) = (step d [dom]).map fun ar => (ar.1, xs)) :
    walkVia via (d :: .static [] :: (lits.map Part.static ++ ps)) (dom :: [] :: (lits ++ rest)) =
      walkVia via (d :: .static [] :: ps) (dom :: [] :: rest) := by
  have h1 : ∀ (tail : List Part) (xs : List Str), tail ≠ [] →
      walkVia via (d :: .static [] :: tail) (dom :: [] :: xs) =
        match step d [dom] with
        | some (a, _) => (walkVia via tail xs).map (a ++ ·)
        | none => none := by
    intro tail xs htail
    rw [walkVia]
    simp only [List.cons_ne_nil, and_false, if_false]
    rw [hd ([] :: xs)]
    cases step d [dom] with
    | none => rfl
    | some ar =>
      simp only [Option.map_some]
      rw [walkVia_static_cons via [] tail xs htail]
  rw [h1 _ _ (by intro h; exact hps (List.append_eq_nil_iff.1 h).2), h1 _ _ hps, walkVia_statics via lits ps rest hps]

theorem splitOn_mount_aux : ∀ (t : List Str) (s : Str), noSlash s → (∀ x ∈ t, noSlash x) → ∀ (p : Str),
    splitOn '/' (s ++ (mountText t ++ '/' :: p)) = s :: (t ++ splitOn '/' p) := by
  intro t
  induction t with
  | nil => intro s hs _ p; simpa [mountText] using splitOn_append_slash s p hs
  | cons s2 t2 ih =>
    intro s hs ht p
    have h2 := ih s2 (ht s2 (by simp)) (fun x hx => ht x (List.mem_cons_of_mem _ hx)) p
    simp only [mountText, List.flatMap_cons, List.cons_append, List.append_assoc] at h2 ⊢
    rw [splitOn_append_slash s _ hs, h2]

theorem splitOn_mount (lits : List Str) (hl : ∀ s ∈ lits, noSlash s) (p : Str) :
    splitOn '/' (mountText lits ++ '/' :: p) = [] :: (lits ++ splitOn '/' p) := by
  cases lits with
  | nil => simp [mountText, splitOn]
  | cons s t =>
    have := splitOn_mount_aux t s (hl s (by simp)) (fun x hx => hl x (List.mem_cons_of_mem _ hx)) p
    simp only [mountText, List.flatMap_cons, List.cons_append, List.append_assoc] at this ⊢
    simp only [splitOn, beq_self_eq_true, if_true]
    rw [this]

/-! ### building -/

theorem traceToks_append (a b : List Tok) : traceToks (a ++ b) = traceToks a ++ traceToks b := by
  induction a with
  | nil => rfl
  | cons x t ih => cases x <;> simp [traceToks, ih]

theorem buildSide_mount (r : Rule) (values : List (Str × Value)) (lits : List Str) (tr : List TraceItem) :
    buildSide r values (traceToks (mountToks lits) ++ tr) =
      (buildSide r values tr).map fun u => (lits.flatMap fun s => '/' :: quote pathSafe s) ++ u := by
  induction lits with
  | nil => simp [mountToks, traceToks]; cases buildSide r values tr <;> rfl
  | cons s t ih =>
    simp only [mountToks, List.flatMap_cons, List.cons_append, List.nil_append, traceToks, buildSide] at ih ⊢
    rw [ih]
    cases buildSide r values tr with
    | error e => rfl
    | ok u =>
      simp only [Except.map, bind, Except.bind, pure, Except.pure]
      have : quote pathSafe ['/'] = ['/'] := by decide +kernel
      simp [this]

theorem mergeSlashToks_mount (lits : List Str) (t : List Tok) :
    mergeSlashToks (mountToks lits ++ t) = mountToks lits ++ mergeSlashToks t := by
  induction lits with
  | nil => rfl
  | cons s l ih =>
    simp only [mountToks, List.flatMap_cons, List.cons_append, List.nil_append] at ih ⊢
    simp only [mergeSlashToks]
    rw [ih]

theorem parseToks_ne_nil : ∀ (toks : List Tok) (p : PState) {ps : List Part} {cs : List (Str × Conv)},
    parseToks toks p = some (ps, cs) → ps ≠ [] := by
  intro toks
  induction toks with
  | nil =>
    intro p ps cs h
    simp only [parseToks] at h
    injection h with h
    injection h with h1 _
    subst h1
    split <;> simp
  | cons t toks ih =>
    intro p ps cs h
    cases t with
    | lit s =>
      simp only [parseToks] at h
      split at h <;> exact ih _ h
    | var c n =>
      simp only [parseToks] at h
      split at h
      · cases h
      · exact ih _ h
    | slash =>
      simp only [parseToks] at h
      split at h
      · exact ih _ h
      · split at h
        · cases h
        · injection h with h
          injection h with h1 _
          subst h1
          simp

end Wz.Routing
