/-
EnvironBuilder's argument forms and the remaining request attributes (C15): the general
`builderInit` agrees with `builderEnviron` on the (path, base_url, str) form; `Request.args` and
`Request.full_path` read back what the builder put into QUERY_STRING. Uses C02's lemmas about
`_urlencode` / `parse_qsl` (read-only import).
-/
import WzVerif.Model.UrlBuilder
import WzVerif.Lemmas.UrlBuilder
import WzVerif.Lemmas.Urlencode
namespace Wz.Url
open Wz

theorem bind_ok {α β : Type} {x : Except String α} {f : α → Except String β} {b : β}
    (h : x.bind f = .ok b) : ∃ a, x = .ok a ∧ f a = .ok b := by
  cases x with
  | error e => cases h
  | ok a => exact ⟨a, rfl, h⟩

/-- inversion of `builderInit`: every step succeeded -/
theorem builderInit_inv {o : UrlOpaque} {path : Str} {base : Option Str} {q : QueryArg} {b : Builder}
    (h : builderInit o path base q = .ok b) :
    (q.given && path.contains '?') = false ∧
    ∃ ru selfPath base' scheme netloc root, urlsplit o path = .ok ru ∧ iriToUriText o ru.path = .ok selfPath ∧
      baseIri o base = .ok base' ∧ baseUrlSetter o base' = .ok (scheme, netloc, root) ∧
      b = mkBuilder selfPath path root netloc scheme (effectiveQuery path ru.query q) := by
  unfold builderInit at h
  split at h
  · cases h
  · rename_i hg
    obtain ⟨ru, h1, h⟩ := bind_ok h
    obtain ⟨sp, h2, h⟩ := bind_ok h
    obtain ⟨b', h3, h⟩ := bind_ok h
    obtain ⟨t, h4, h⟩ := bind_ok h
    simp only [Except.ok.injEq] at h
    exact ⟨by simpa using hg, ru, sp, b', t.1, t.2.1, t.2.2, h1, h2, h3, h4, h.symm⟩

/-- the (path, base_url, query_string: str) form of the general constructor is `builderEnviron` -/
theorem builderEnviron_eq_init (o : UrlOpaque) (path base qs : Str) :
    builderEnviron o path base qs =
      (builderInit o path (some base) (.text qs)).map (fun b => b.environ.toEnviron) := by
  unfold builderEnviron builderInit
  by_cases hq : path.contains '?' = true
  · simp only [hq, QueryArg.given, Bool.true_and, if_true]
    rfl
  · simp only [hq, QueryArg.given, Bool.true_and, Bool.false_eq_true, if_false]
    cases urlsplit o path with
    | error e => rfl
    | ok ru =>
      simp only [Except.bind]
      cases iriToUriText o ru.path with
      | error e => rfl
      | ok sp =>
        simp only [baseIri]
        cases iriToUriText o base with
        | error e => rfl
        | ok b =>
          simp only [Except.map, baseUrlSetter]
          cases urlsplit o b with
          | error e => rfl
          | ok bb =>
            simp only
            by_cases hb : (!bb.query.isEmpty || !bb.fragment.isEmpty) = true
            · simp only [hb, if_true]
            · simp only [hb, Bool.false_eq_true, if_false]
              rfl

/-- `Request.args` of an environ whose QUERY_STRING is the dance of `s` is `parse_qsl(s)` - for
every Unicode string -/
theorem requestArgs_dance (e : Environ) (s : Str) (h : e.queryString = encodingDance s) :
    requestArgs e = some (Urlencode.parseQsl true s) := by
  unfold requestArgs
  rw [h]
  have hq : Py.latin1Enc (encodingDance s) = some (utf8Enc s) := latin1Enc_latin1Dec _
  rw [hq]
  simp only [Option.map_some, Urlencode.decodeUrlQuote_utf8Enc]

/-- `Request.full_path` of an environ whose PATH_INFO / QUERY_STRING are the dances of `p`, `qs` is
`path + "?" + qs` - the `?` is there even when the query is empty -/
theorem requestFullPath_dance (scheme host root p qs : Str) :
    requestFullPath (danceEnviron scheme host root p qs) = some (('/' :: lstripSlash p) ++ '?' :: qs) := by
  unfold requestFullPath danceEnviron
  simp only [dance_roundtrip']
  have hq : Py.latin1Enc (encodingDance qs) = some (utf8Enc qs) := latin1Enc_latin1Dec _
  simp only [hq]
  rw [decodeQ_eq (Nat.le_succ _), decode_utf8Enc render (fun _ _ => rfl)]

/-- the query string a builder sends for each form of the `query_string` argument: the `str` as
given, `_urlencode` of the mapping, the query component of `path` when only the path carries one,
and the empty string otherwise -/
theorem builderInit_queryText {o : UrlOpaque} {path : Str} {base : Option Str} {q : QueryArg} {b : Builder}
    (h : builderInit o path base q = .ok b) :
    ∃ ru, urlsplit o path = .ok ru ∧ b.queryText = (match q with
      | .text s => s
      | .items l => urlencodeText l
      | .absent => if path.contains '?' then ru.query else []) := by
  obtain ⟨_, ru, sp, b', sch, net, root, h1, _, _, _, hb⟩ := builderInit_inv h
  refine ⟨ru, h1, ?_⟩
  subst hb
  cases q with
  | absent =>
    by_cases hc : path.contains '?' = true
    · simp only [Builder.queryText, mkBuilder, effectiveQuery, hc, if_true]
    · simp only [Builder.queryText, mkBuilder, effectiveQuery, hc, Bool.false_eq_true, if_false]
      decide
  | text s => simp [Builder.queryText, mkBuilder, effectiveQuery]
  | items l => simp [Builder.queryText, mkBuilder, effectiveQuery]

/-- a path with a query next to a `query_string` argument is refused -/
theorem builderInit_both_refused (o : UrlOpaque) (path : Str) (base : Option Str) (q : QueryArg)
    (hq : q.given = true) (hp : '?' ∈ path) : builderInit o path base q = .error "ValueError" := by
  unfold builderInit
  have : path.contains '?' = true := by simpa using hp
  simp only [hq, this, Bool.and_self, if_true]

/-- **`Request.args` reads back the mapping given to the builder**: for every list of pairs over
Unicode (repeated / empty keys, `&`, `=`, `+`, `%` inside keys and values) - by C02's
`parse_qsl(_urlencode(items)) = items` and the losslessness of the dance. -/
theorem builder_args_roundtrip {o : UrlOpaque} {path : Str} {base : Option Str} {l : List (Str × Str)}
    {b : Builder} (hs : Urlencode.SafeOk Gen.Urlencode.urlencodeSafe)
    (h : builderInit o path base (.items l) = .ok b) :
    b.argsProp = .ok l ∧ requestArgs b.environ.toEnviron = some l := by
  obtain ⟨ru, _, hq⟩ := builderInit_queryText h
  obtain ⟨_, ru', sp, b', sch, net, root, _, _, _, _, hb⟩ := builderInit_inv h
  refine ⟨by subst hb; rfl, ?_⟩
  rw [requestArgs_dance _ b.queryText rfl, hq]
  simp only [urlencodeText, Urlencode.wzUrlencode]
  rw [Urlencode.parseQsl_urlencode_lemma hs l]

/-- ... and for the `str` form, `Request.args` is `parse_qsl` of that string (the `args` property
of the builder is then unavailable: `AttributeError`) -/
theorem builder_text_args {o : UrlOpaque} {path : Str} {base : Option Str} {s : Str} {b : Builder}
    (h : builderInit o path base (.text s) = .ok b) :
    b.argsProp = .error "AttributeError" ∧
    requestArgs b.environ.toEnviron = some (Urlencode.parseQsl true s) := by
  obtain ⟨ru, _, hq⟩ := builderInit_queryText h
  obtain ⟨_, ru', sp, b', sch, net, root, _, _, _, _, hb⟩ := builderInit_inv h
  refine ⟨by subst hb; rfl, ?_⟩
  rw [requestArgs_dance _ b.queryText rfl, hq]

end Wz.Url
