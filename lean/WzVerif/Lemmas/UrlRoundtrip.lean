/-
The UTF-8 decoder of the model inverts Lean's UTF-8 encoder; `unquote ∘ quote` is the identity on
text without `%` (C15: the path given to EnvironBuilder reaches Request.path unchanged).
Core Lean only.
-/
import WzVerif.Lemmas.UrlPartial
namespace Wz.Url
open Wz

/-- `leadInfo` by numeric value of the lead byte (checked on all 256 bytes) -/
theorem leadInfo_table : ∀ n, n < 256 → leadInfo (UInt8.ofNat n) =
    (if 0xC2 ≤ n ∧ n ≤ 0xDF then some (1, 0x80, 0xBF)
     else if n = 0xE0 then some (2, 0xA0, 0xBF)
     else if n = 0xED then some (2, 0x80, 0x9F)
     else if 0xE1 ≤ n ∧ n ≤ 0xEF then some (2, 0x80, 0xBF)
     else if n = 0xF0 then some (3, 0x90, 0xBF)
     else if n = 0xF4 then some (3, 0x80, 0x8F)
     else if 0xF1 ≤ n ∧ n ≤ 0xF3 then some (3, 0x80, 0xBF)
     else none) := by decide +kernel

theorem takeCont_exact : ∀ (cs : Bytes) (lo hi : UInt8) (rest : Bytes),
    (∀ b, cs.head? = some b → lo.toNat ≤ b.toNat ∧ b.toNat ≤ hi.toNat) →
    (∀ b ∈ cs.tail, 0x80 ≤ b.toNat ∧ b.toNat ≤ 0xBF) →
    takeCont cs.length lo hi (cs ++ rest) = cs
  | [], _, _, _, _, _ => by simp [takeCont]
  | b :: cs, lo, hi, rest, h1, h2 => by
    have hb := (inRange_iff b lo hi).mpr (h1 b rfl)
    simp only [List.length_cons, List.cons_append, takeCont, hb, if_true, List.cons.injEq, true_and]
    apply takeCont_exact cs 0x80 0xBF rest
    · intro x hx
      cases cs with
      | nil => cases hx
      | cons y ys =>
        simp only [List.head?_cons, Option.some.injEq] at hx
        subst hx
        exact h2 y (by simp)
    · intro x hx
      cases cs with
      | nil => cases hx
      | cons y ys => exact h2 x (by simp at hx ⊢; exact Or.inr hx)

theorem firstItem_multi {b0 : UInt8} {n : Nat} {lo hi : UInt8} (hge : ¬ b0 < 0x80)
    (hl : leadInfo b0 = some (n, lo, hi)) (cs : Bytes) (hlen : cs.length = n)
    (hh : ∀ b, cs.head? = some b → lo.toNat ≤ b.toNat ∧ b.toNat ≤ hi.toNat)
    (ht : ∀ b ∈ cs.tail, 0x80 ≤ b.toNat ∧ b.toNat ≤ 0xBF) (rest : Bytes) :
    firstItem b0 (cs ++ rest) = .chr (Char.ofNat (codePoint b0 cs)) (b0 :: cs) := by
  unfold firstItem
  rw [if_neg hge, hl]
  simp only
  rw [← hlen, takeCont_exact cs lo hi rest hh ht, if_pos rfl]

theorem not_lt_80 {n : Nat} (h1 : 128 ≤ n) (h2 : n < 256) : ¬ UInt8.ofNat n < 0x80 := by
  rw [UInt8.lt_iff_toNat_lt, uint8_toNat_ofNat_lt h2]; simp; omega

theorem leadInfo_nat (b0 : UInt8) : leadInfo b0 =
    (if 0xC2 ≤ b0.toNat ∧ b0.toNat ≤ 0xDF then some (1, 0x80, 0xBF)
     else if b0.toNat = 0xE0 then some (2, 0xA0, 0xBF)
     else if b0.toNat = 0xED then some (2, 0x80, 0x9F)
     else if 0xE1 ≤ b0.toNat ∧ b0.toNat ≤ 0xEF then some (2, 0x80, 0xBF)
     else if b0.toNat = 0xF0 then some (3, 0x90, 0xBF)
     else if b0.toNat = 0xF4 then some (3, 0x80, 0x8F)
     else if 0xF1 ≤ b0.toNat ∧ b0.toNat ≤ 0xF3 then some (3, 0x80, 0xBF)
     else none) := by
  have := leadInfo_table b0.toNat b0.toNat_lt
  rwa [uint8_ofNat_toNat] at this

theorem not_lt_80' {b : UInt8} (h : 128 ≤ b.toNat) : ¬ b < 0x80 := by
  rw [UInt8.lt_iff_toNat_lt]; simp; omega

theorem dec2 (b0 b1 : UInt8) (v : Nat) (h0 : b0.toNat = v / 64 % 32 + 192) (h1 : b1.toNat = v % 64 + 128)
    (hv1 : 128 ≤ v) (hv2 : v ≤ 2047) (rest : Bytes) :
    firstItem b0 ([b1] ++ rest) = .chr (Char.ofNat v) [b0, b1] := by
  have hl := leadInfo_nat b0
  rw [if_pos (by omega)] at hl
  rw [firstItem_multi (not_lt_80' (by omega)) hl [b1] rfl
    (by intro b hb; simp only [List.head?_cons, Option.some.injEq] at hb; subst hb; simp; omega)
    (by simp) rest]
  have : codePoint b0 [b1] = v := by
    simp only [codePoint, List.foldl, List.length_singleton, h0, h1]; omega
  rw [this]

theorem dec3 (b0 b1 b2 : UInt8) (v : Nat) (h0 : b0.toNat = v / 4096 % 16 + 224)
    (h1 : b1.toNat = v / 64 % 64 + 128) (h2 : b2.toNat = v % 64 + 128)
    (hv1 : 2048 ≤ v) (hv2 : v ≤ 65535) (hvalid : v < 0xD800 ∨ 0xDFFF < v) (rest : Bytes) :
    firstItem b0 ([b1, b2] ++ rest) = .chr (Char.ofNat v) [b0, b1, b2] := by
  have hcp : codePoint b0 [b1, b2] = v := by
    simp only [codePoint, List.foldl, List.length_cons, List.length_nil, h0, h1, h2]; omega
  have key : ∀ (lo hi : UInt8), lo.toNat ≤ b1.toNat → b1.toNat ≤ hi.toNat →
      leadInfo b0 = some (2, lo, hi) → firstItem b0 ([b1, b2] ++ rest) = .chr (Char.ofNat v) [b0, b1, b2] := by
    intro lo hi g1 g2 hl
    rw [firstItem_multi (not_lt_80' (by omega)) hl [b1, b2] rfl
      (by intro b hb; simp only [List.head?_cons, Option.some.injEq] at hb; subst hb; exact ⟨g1, g2⟩)
      (by intro b hb
          simp only [List.tail_cons, List.mem_cons, List.not_mem_nil, or_false] at hb
          subst hb; omega) rest, hcp]
  have hl := leadInfo_nat b0
  rw [if_neg (by omega)] at hl
  by_cases e0 : b0.toNat = 0xE0
  · rw [if_pos e0] at hl
    exact key _ _ (by simp; omega) (by simp; omega) hl
  · rw [if_neg e0] at hl
    by_cases ed : b0.toNat = 0xED
    · rw [if_pos ed] at hl
      exact key _ _ (by simp; omega) (by simp; omega) hl
    · rw [if_neg ed, if_pos (by omega)] at hl
      exact key _ _ (by simp; omega) (by simp; omega) hl

theorem dec4 (b0 b1 b2 b3 : UInt8) (v : Nat) (h0 : b0.toNat = v / 262144 % 8 + 240)
    (h1 : b1.toNat = v / 4096 % 64 + 128) (h2 : b2.toNat = v / 64 % 64 + 128)
    (h3 : b3.toNat = v % 64 + 128) (hv1 : 65536 ≤ v) (hv2 : v < 0x110000) (rest : Bytes) :
    firstItem b0 ([b1, b2, b3] ++ rest) = .chr (Char.ofNat v) [b0, b1, b2, b3] := by
  have hcp : codePoint b0 [b1, b2, b3] = v := by
    simp only [codePoint, List.foldl, List.length_cons, List.length_nil, h0, h1, h2, h3]; omega
  have key : ∀ (lo hi : UInt8), lo.toNat ≤ b1.toNat → b1.toNat ≤ hi.toNat →
      leadInfo b0 = some (3, lo, hi) →
      firstItem b0 ([b1, b2, b3] ++ rest) = .chr (Char.ofNat v) [b0, b1, b2, b3] := by
    intro lo hi g1 g2 hl
    rw [firstItem_multi (not_lt_80' (by omega)) hl [b1, b2, b3] rfl
      (by intro b hb; simp only [List.head?_cons, Option.some.injEq] at hb; subst hb; exact ⟨g1, g2⟩)
      (by intro b hb
          simp only [List.tail_cons, List.mem_cons, List.not_mem_nil, or_false] at hb
          rcases hb with rfl | rfl <;> omega) rest, hcp]
  have hl := leadInfo_nat b0
  rw [if_neg (by omega), if_neg (by omega), if_neg (by omega), if_neg (by omega)] at hl
  by_cases e0 : b0.toNat = 0xF0
  · rw [if_pos e0] at hl
    exact key _ _ (by simp; omega) (by simp; omega) hl
  · rw [if_neg e0] at hl
    by_cases e4 : b0.toNat = 0xF4
    · rw [if_pos e4] at hl
      exact key _ _ (by simp; omega) (by simp; omega) hl
    · rw [if_neg e4, if_pos (by omega)] at hl
      exact key _ _ (by simp; omega) (by simp; omega) hl

/-- the decoder inverts the encoder: the front item of `utf8(c) ++ rest` is `c` -/
theorem firstItem_encode (c : Char) (rest : Bytes) :
    ∃ b0 cs, String.utf8EncodeChar c = b0 :: cs ∧ firstItem b0 (cs ++ rest) = .chr c (b0 :: cs) := by
  have hvalid : c.toNat < 0xD800 ∨ (0xDFFF < c.toNat ∧ c.toNat < 0x110000) := c.valid
  have hc : Char.ofNat c.toNat = c := Char.ofNat_toNat c
  generalize hv : c.toNat = v at hvalid hc
  have hv' : c.val.toNat = v := hv
  unfold String.utf8EncodeChar
  simp only [hv']
  by_cases h1 : v ≤ 0x7f
  · refine ⟨UInt8.ofNat v, [], by simp [h1], ?_⟩
    have hlt : UInt8.ofNat v < 0x80 := by
      rw [UInt8.lt_iff_toNat_lt, uint8_toNat_ofNat_lt (by omega)]; simp; omega
    simp [firstItem, hlt, uint8_toNat_ofNat_lt (show v < 256 by omega), hc]
  · rw [if_neg h1]
    by_cases h2 : v ≤ 0x7ff
    · rw [if_pos h2]
      refine ⟨_, _, rfl, ?_⟩
      rw [dec2 _ _ v (uint8_toNat_ofNat_lt (by omega)) (uint8_toNat_ofNat_lt (by omega)) (by omega) h2, hc]
    · rw [if_neg h2]
      by_cases h3 : v ≤ 0xffff
      · rw [if_pos h3]
        refine ⟨_, _, rfl, ?_⟩
        rw [dec3 _ _ _ v (uint8_toNat_ofNat_lt (by omega)) (uint8_toNat_ofNat_lt (by omega))
          (uint8_toNat_ofNat_lt (by omega)) (by omega) h3 (by omega), hc]
      · rw [if_neg h3]
        refine ⟨_, _, rfl, ?_⟩
        rw [dec4 _ _ _ _ v (uint8_toNat_ofNat_lt (by omega)) (uint8_toNat_ofNat_lt (by omega))
          (uint8_toNat_ofNat_lt (by omega)) (uint8_toNat_ofNat_lt (by omega)) (by omega) (by omega), hc]

theorem its_utf8Enc : ∀ (s : Str) (rest : Bytes),
    its (utf8Enc s ++ rest) = s.map (fun c => Item.chr c (String.utf8EncodeChar c)) ++ its rest
  | [], rest => by simp [utf8Enc]
  | c :: s, rest => by
    obtain ⟨b0, cs, h1, h2⟩ := firstItem_encode c (utf8Enc s ++ rest)
    have : utf8Enc (c :: s) ++ rest = b0 :: (cs ++ (utf8Enc s ++ rest)) := by
      simp [utf8Enc, h1]
    rw [this, its_cons, h2]
    simp only [Item.raw, List.length_cons, Nat.add_sub_cancel, List.drop_left, List.map_cons, h1,
      List.cons_append]
    rw [its_utf8Enc s rest]

/-- decoding what the encoder produced gives the text back, with either treatment of errors -/
theorem decode_utf8Enc (r : Item → Str) (hr : ∀ c raw, r (.chr c raw) = [c]) (s : Str) :
    (its (utf8Enc s)).flatMap r = s := by
  have := its_utf8Enc s []
  simp only [List.append_nil, its_nil] at this
  rw [this]
  clear this
  induction s with
  | nil => rfl
  | cons c s ih => simp only [List.map_cons, List.flatMap_cons, hr, ih, List.singleton_append]

theorem utf8EncodeChar_no_pct {c : Char} (hc : c ≠ '%') : (0x25 : UInt8) ∉ String.utf8EncodeChar c := by
  obtain ⟨b0, cs, h1, h2⟩ := firstItem_encode c []
  rw [h1]
  simp only [List.append_nil] at h2
  rcases firstItem_cases b0 cs with ⟨hb, hI⟩ | ⟨span, hI, _⟩ | ⟨c', raw, hI, hc', hcont⟩
  · rw [h2] at hI
    simp only [Item.chr.injEq] at hI
    obtain ⟨e1, e2⟩ := hI
    simp only [List.cons.injEq, true_and] at e2
    subst e2
    simp only [List.mem_singleton]
    intro e
    apply hc
    rw [e1, ← e]; rfl
  · rw [h2] at hI; cases hI
  · -- a multi-byte character: every byte is ≥ 0x80
    intro hm
    have hraw : ∀ b ∈ b0 :: cs, 0x80 ≤ b := by
      -- re-read the item as produced by firstItem: lead byte ≥ 0xC2, continuation bytes ≥ 0x80
      have hge : ¬ b0 < 0x80 := by
        intro hlt
        have : firstItem b0 cs = .chr (Char.ofNat b0.toNat) [b0] := by simp [firstItem, hlt]
        rw [hI] at this
        simp only [Item.chr.injEq] at this
        rw [this.1] at hc'
        rw [UInt8.lt_iff_toNat_lt] at hlt
        simp at hlt
        rw [char_toNat_ofNat_lt (by omega)] at hc'
        omega
      have hb0 : 0x80 ≤ b0 := by
        rw [UInt8.le_iff_toNat_le]; rw [UInt8.lt_iff_toNat_lt] at hge; simp at hge ⊢; omega
      unfold firstItem at h2
      rw [if_neg hge] at h2
      cases hl : leadInfo b0 with
      | none => rw [hl] at h2; cases h2
      | some v =>
        obtain ⟨n, lo, hi⟩ := v
        rw [hl] at h2
        simp only at h2
        split at h2
        · simp only [Item.chr.injEq, List.cons.injEq, true_and] at h2
          intro b hb
          rcases List.mem_cons.mp hb with rfl | hb
          · exact hb0
          · rw [← h2.2] at hb
            exact takeCont_ge n lo hi cs (leadInfo_range hl).1 b hb
        · cases h2
    have := hraw _ hm
    exact absurd this (by decide)

theorem utf8Enc_no_pct : ∀ (s : Str), '%' ∉ s → (0x25 : UInt8) ∉ utf8Enc s
  | [], _ => by simp [utf8Enc]
  | c :: s, h => by
    have hc : c ≠ '%' := fun e => h (by simp [e])
    have hs : '%' ∉ s := fun m => h (List.mem_cons_of_mem _ m)
    simp only [utf8Enc, List.flatMap_cons, List.mem_append, not_or]
    exact ⟨utf8EncodeChar_no_pct hc, utf8Enc_no_pct s hs⟩

theorem unquoteBytes_quoteBytes (safe : Str) : ∀ (B rest : Bytes), (0x25 : UInt8) ∉ B →
    unquoteBytes (toBytes (quoteBytes safe B) ++ rest) = B ++ unquoteBytes rest
  | [], rest, _ => by simp [quoteBytes, toBytes]
  | b :: B, rest, h => by
    have hb : b ≠ 0x25 := fun e => h (by simp [e])
    have hB : (0x25 : UInt8) ∉ B := fun m => h (List.mem_cons_of_mem _ m)
    simp only [quoteBytes, List.flatMap_cons, toBytes_append, List.append_assoc]
    have ih := unquoteBytes_quoteBytes safe B rest hB
    simp only [quoteBytes] at ih
    by_cases hs : isSafe safe b = true
    · have hq : quoteByte safe b = [Char.ofNat b.toNat] := by simp [quoteByte, hs]
      have hlt : b.toNat < 128 := by
        simp only [isSafe, Bool.and_eq_true, decide_eq_true_eq] at hs; exact hs.1
      rw [hq]
      have : toBytes [Char.ofNat b.toNat] = [b] := by
        simp [toBytes, char_toNat_ofNat_lt (show b.toNat < 256 by omega)]
      rw [this, List.singleton_append, unquoteBytes_cons_ne hb, ih]
      rfl
    · have hq : quoteByte safe b = pct b := by simp [quoteByte, hs]
      rw [hq, unquoteBytes_pct, ih]
      rfl

/-- **`unquote` inverts `quote`** on text without `%`, for every safe set: percent-encoding followed
by decoding (with werkzeug's error handler) gives the text back. -/
theorem unquote_quote (safe s : Str) (h : '%' ∉ s) : unquote (quote safe s) = s := by
  unfold quote
  rw [unquote_ascii (quoteBytes_ascii safe _)]
  have := unquoteBytes_quoteBytes safe (utf8Enc s) [] (utf8Enc_no_pct s h)
  simp only [List.append_nil, unquoteBytes] at this
  rw [this]
  exact decode_utf8Enc render (fun _ _ => rfl) s

theorem unquoteAuxR_ascii : ∀ (a rest : Str) (acc : Bytes), (∀ c ∈ a, c.toNat < 128) →
    unquoteAuxR (a ++ rest) acc = unquoteAuxR rest ((toBytes a).reverse ++ acc)
  | [], _, _, _ => by simp [toBytes]
  | c :: a, rest, acc, h => by
    have hc := h c (by simp)
    simp only [List.cons_append, unquoteAuxR, hc, if_true]
    rw [unquoteAuxR_ascii a rest _ (fun x hx => h x (List.mem_cons_of_mem _ hx))]
    simp [toBytes]

/-- the same with `errors="replace"` (what `EnvironBuilder` uses): no undecodable span arises -/
theorem unquoteReplace_quote (safe s : Str) (h : '%' ∉ s) : unquoteReplace (quote safe s) = s := by
  unfold quote
  have h1 := unquoteAuxR_ascii (quoteBytes safe (utf8Enc s)) [] [] (quoteBytes_ascii safe _)
  simp only [List.append_nil] at h1
  rw [unquoteReplace, h1]
  simp only [unquoteAuxR, List.reverse_reverse, unquoteRunR]
  have := unquoteBytes_quoteBytes safe (utf8Enc s) [] (utf8Enc_no_pct s h)
  simp only [List.append_nil, unquoteBytes] at this
  rw [this, items_eq_its (Nat.le_succ _)]
  exact decode_utf8Enc renderR (fun _ _ => rfl) s

/-! ### the encoder inverts the decoder -/

theorem uint8_eq_of_toNat {b : UInt8} {n : Nat} (h : b.toNat = n) : UInt8.ofNat n = b := by
  rw [← h, uint8_ofNat_toNat]

theorem encodeChar_of_nat {v : Nat} (hvalid : v.isValidChar) :
    String.utf8EncodeChar (Char.ofNat v) =
      if v ≤ 0x7f then [UInt8.ofNat v]
      else if v ≤ 0x7ff then [UInt8.ofNat (v / 64 % 0x20 + 0xc0), UInt8.ofNat (v % 0x40 + 0x80)]
      else if v ≤ 0xffff then
        [UInt8.ofNat (v / 4096 % 0x10 + 0xe0), UInt8.ofNat (v / 64 % 0x40 + 0x80), UInt8.ofNat (v % 0x40 + 0x80)]
      else [UInt8.ofNat (v / 262144 % 0x08 + 0xf0), UInt8.ofNat (v / 4096 % 0x40 + 0x80),
        UInt8.ofNat (v / 64 % 0x40 + 0x80), UInt8.ofNat (v % 0x40 + 0x80)] := by
  unfold String.utf8EncodeChar
  simp only [Char.toNat_val, char_toNat_ofNat_valid hvalid]

theorem enc2 (b0 b1 : UInt8) (h0 : 0xC2 ≤ b0.toNat ∧ b0.toNat ≤ 0xDF) (h1 : 0x80 ≤ b1.toNat ∧ b1.toNat ≤ 0xBF) :
    String.utf8EncodeChar (Char.ofNat (codePoint b0 [b1])) = [b0, b1] := by
  have hcp : codePoint b0 [b1] = (b0.toNat - 0xC0) * 64 + (b1.toNat - 0x80) := by
    simp [codePoint, List.foldl]
  rw [hcp]
  generalize hv : (b0.toNat - 0xC0) * 64 + (b1.toNat - 0x80) = v
  have hvalid : v.isValidChar := Or.inl (by omega)
  rw [encodeChar_of_nat hvalid]
  have e1 : ¬ v ≤ 0x7f := by omega
  have e2 : v ≤ 0x7ff := by omega
  rw [if_neg e1, if_pos e2]
  have a0 : UInt8.ofNat (v / 64 % 0x20 + 0xc0) = b0 := uint8_eq_of_toNat (by omega)
  have a1 : UInt8.ofNat (v % 0x40 + 0x80) = b1 := uint8_eq_of_toNat (by omega)
  rw [a0, a1]

theorem enc3 (b0 b1 b2 : UInt8) (h0 : 0xE0 ≤ b0.toNat ∧ b0.toNat ≤ 0xEF)
    (h1 : 0x80 ≤ b1.toNat ∧ b1.toNat ≤ 0xBF) (h2 : 0x80 ≤ b2.toNat ∧ b2.toNat ≤ 0xBF)
    (he0 : b0.toNat = 0xE0 → 0xA0 ≤ b1.toNat) (hed : b0.toNat = 0xED → b1.toNat ≤ 0x9F) :
    String.utf8EncodeChar (Char.ofNat (codePoint b0 [b1, b2])) = [b0, b1, b2] := by
  have hcp : codePoint b0 [b1, b2] = ((b0.toNat - 0xE0) * 64 + (b1.toNat - 0x80)) * 64 + (b2.toNat - 0x80) := by
    simp [codePoint, List.foldl]
  rw [hcp]
  generalize hv : ((b0.toNat - 0xE0) * 64 + (b1.toNat - 0x80)) * 64 + (b2.toNat - 0x80) = v
  have hvalid : v.isValidChar := by
    by_cases e : b0.toNat ≤ 0xEC
    · exact Or.inl (by omega)
    · by_cases e' : b0.toNat = 0xED
      · have := hed e'; exact Or.inl (by omega)
      · exact Or.inr ⟨by omega, by omega⟩
  have hlow : 0x800 ≤ v := by
    by_cases e : b0.toNat = 0xE0
    · have := he0 e; omega
    · omega
  rw [encodeChar_of_nat hvalid]
  have e1 : ¬ v ≤ 0x7f := by omega
  have e2 : ¬ v ≤ 0x7ff := by omega
  have e3 : v ≤ 0xffff := by omega
  rw [if_neg e1, if_neg e2, if_pos e3]
  have a0 : UInt8.ofNat (v / 4096 % 0x10 + 0xe0) = b0 := uint8_eq_of_toNat (by omega)
  have a1 : UInt8.ofNat (v / 64 % 0x40 + 0x80) = b1 := uint8_eq_of_toNat (by omega)
  have a2 : UInt8.ofNat (v % 0x40 + 0x80) = b2 := uint8_eq_of_toNat (by omega)
  rw [a0, a1, a2]

theorem enc4 (b0 b1 b2 b3 : UInt8) (h0 : 0xF0 ≤ b0.toNat ∧ b0.toNat ≤ 0xF4)
    (h1 : 0x80 ≤ b1.toNat ∧ b1.toNat ≤ 0xBF) (h2 : 0x80 ≤ b2.toNat ∧ b2.toNat ≤ 0xBF)
    (h3 : 0x80 ≤ b3.toNat ∧ b3.toNat ≤ 0xBF)
    (he0 : b0.toNat = 0xF0 → 0x90 ≤ b1.toNat) (he4 : b0.toNat = 0xF4 → b1.toNat ≤ 0x8F) :
    String.utf8EncodeChar (Char.ofNat (codePoint b0 [b1, b2, b3])) = [b0, b1, b2, b3] := by
  have hcp : codePoint b0 [b1, b2, b3] =
      (((b0.toNat - 0xF0) * 64 + (b1.toNat - 0x80)) * 64 + (b2.toNat - 0x80)) * 64 + (b3.toNat - 0x80) := by
    simp [codePoint, List.foldl]
  rw [hcp]
  generalize hv : (((b0.toNat - 0xF0) * 64 + (b1.toNat - 0x80)) * 64 + (b2.toNat - 0x80)) * 64 + (b3.toNat - 0x80) = v
  have hhigh : v < 0x110000 := by
    by_cases e : b0.toNat = 0xF4
    · have := he4 e; omega
    · omega
  have hlow : 0x10000 ≤ v := by
    by_cases e : b0.toNat = 0xF0
    · have := he0 e; omega
    · omega
  have hvalid : v.isValidChar := Or.inr ⟨by omega, hhigh⟩
  rw [encodeChar_of_nat hvalid]
  have e1 : ¬ v ≤ 0x7f := by omega
  have e2 : ¬ v ≤ 0x7ff := by omega
  have e3 : ¬ v ≤ 0xffff := by omega
  rw [if_neg e1, if_neg e2, if_neg e3]
  have a0 : UInt8.ofNat (v / 262144 % 0x08 + 0xf0) = b0 := uint8_eq_of_toNat (by omega)
  have a1 : UInt8.ofNat (v / 4096 % 0x40 + 0x80) = b1 := uint8_eq_of_toNat (by omega)
  have a2 : UInt8.ofNat (v / 64 % 0x40 + 0x80) = b2 := uint8_eq_of_toNat (by omega)
  have a3 : UInt8.ofNat (v % 0x40 + 0x80) = b3 := uint8_eq_of_toNat (by omega)
  rw [a0, a1, a2, a3]

/-- the encoder inverts the decoder: a character item's raw bytes are the UTF-8 encoding of its
character -/
theorem encode_firstItem {b0 : UInt8} {t : Bytes} {c : Char} {raw : Bytes}
    (h : firstItem b0 t = .chr c raw) : String.utf8EncodeChar c = raw := by
  unfold firstItem at h
  by_cases h0 : b0 < 0x80
  · rw [if_pos h0] at h
    simp only [Item.chr.injEq] at h
    obtain ⟨rfl, rfl⟩ := h
    have hlt : b0.toNat < 128 := by rw [UInt8.lt_iff_toNat_lt] at h0; simpa using h0
    rw [utf8EncodeChar_ascii (by rw [char_toNat_ofNat_lt (by omega)]; exact hlt),
      char_toNat_ofNat_lt (by omega), uint8_ofNat_toNat]
  · rw [if_neg h0] at h
    cases hl : leadInfo b0 with
    | none => rw [hl] at h; cases h
    | some v =>
      obtain ⟨n, lo, hi⟩ := v
      rw [hl] at h
      simp only at h
      split at h
      · rename_i hlen
        simp only [Item.chr.injEq] at h
        obtain ⟨rfl, rfl⟩ := h
        obtain ⟨g1, g2⟩ := takeCont_full n lo hi t hlen
        generalize takeCont n lo hi t = cs at hlen g1 g2
        rw [leadInfo_nat] at hl
        split at hl
        · rename_i hr
          cases hl
          cases cs with
          | nil => simp at hlen
          | cons b1 r =>
            cases r with
            | cons _ _ => simp at hlen
            | nil =>
              have := g1 b1 rfl
              exact enc2 b0 b1 hr (by simpa using this)
        · rename_i hr
          split at hl
          · rename_i e0
            cases hl
            cases cs with
            | nil => simp at hlen
            | cons b1 r =>
              cases r with
              | nil => simp at hlen
              | cons b2 r =>
                cases r with
                | cons _ _ => simp at hlen
                | nil =>
                  have h1 := g1 b1 rfl
                  have h2 := g2 b2 (by simp)
                  simp at h1
                  exact enc3 b0 b1 b2 (by omega) (by omega) h2 (by intro; omega) (by intro; omega)
          · rename_i e0
            split at hl
            · rename_i ed
              cases hl
              cases cs with
              | nil => simp at hlen
              | cons b1 r =>
                cases r with
                | nil => simp at hlen
                | cons b2 r =>
                  cases r with
                  | cons _ _ => simp at hlen
                  | nil =>
                    have h1 := g1 b1 rfl
                    have h2 := g2 b2 (by simp)
                    simp at h1
                    exact enc3 b0 b1 b2 (by omega) (by omega) h2 (by intro; omega) (by intro; omega)
            · rename_i ed
              split at hl
              · rename_i hr3
                cases hl
                cases cs with
                | nil => simp at hlen
                | cons b1 r =>
                  cases r with
                  | nil => simp at hlen
                  | cons b2 r =>
                    cases r with
                    | cons _ _ => simp at hlen
                    | nil =>
                      have h1 := g1 b1 rfl
                      have h2 := g2 b2 (by simp)
                      simp at h1
                      exact enc3 b0 b1 b2 (by omega) (by omega) h2 (by intro; omega) (by intro; omega)
              · rename_i hr3
                have four : ∀ (lo hi : UInt8), (lo.toNat = 0x90 ∨ lo.toNat = 0x80) → (hi.toNat = 0xBF ∨ hi.toNat = 0x8F) →
                    (b0.toNat = 0xF0 → lo.toNat = 0x90) → (b0.toNat = 0xF4 → hi.toNat = 0x8F) →
                    0xF0 ≤ b0.toNat ∧ b0.toNat ≤ 0xF4 → cs.length = 3 →
                    (∀ b, cs.head? = some b → lo.toNat ≤ b.toNat ∧ b.toNat ≤ hi.toNat) →
                    String.utf8EncodeChar (Char.ofNat (codePoint b0 cs)) = b0 :: cs := by
                  intro lo hi hlo hhi f0 f4 hr hlen g1
                  cases cs with
                  | nil => simp at hlen
                  | cons b1 r =>
                    cases r with
                    | nil => simp at hlen
                    | cons b2 r =>
                      cases r with
                      | nil => simp at hlen
                      | cons b3 r =>
                        cases r with
                        | cons _ _ => simp at hlen
                        | nil =>
                          have h1 := g1 b1 rfl
                          have h2 := g2 b2 (by simp)
                          have h3 := g2 b3 (by simp)
                          exact enc4 b0 b1 b2 b3 hr (by omega) h2 h3 (by intro e; have := f0 e; omega)
                            (by intro e; have := f4 e; omega)
                split at hl
                · rename_i e
                  cases hl
                  exact four _ _ (Or.inl rfl) (Or.inl rfl) (fun _ => rfl) (fun h => by omega) (by omega) hlen g1
                · rename_i e
                  split at hl
                  · rename_i e4
                    cases hl
                    exact four _ _ (Or.inr rfl) (Or.inr rfl) (fun h => by omega) (fun _ => rfl) (by omega) hlen g1
                  · rename_i e4
                    split at hl
                    · rename_i hr4
                      cases hl
                      exact four _ _ (Or.inr rfl) (Or.inl rfl) (fun h => by omega) (fun h => by omega) (by omega) hlen g1
                    · cases hl
      · cases h


end Wz.Url
