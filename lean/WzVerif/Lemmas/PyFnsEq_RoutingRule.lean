/-
PyFnsEq_RoutingRule — the three build-side predicates of `werkzeug.routing.rules.Rule` *as regenerated
from the source* by `tools/py2lean.py` (`Gen/PyFns_RoutingRule.lean`, rewritten on every check run:
`Rule.suitable_for`, `Rule.build_compare_key`, `Rule.provides_defaults_for`) are equal, for all inputs,
to the hand-written model the routing theorems are about (`Model/RoutingBuild.lean`: `Rule.suitableFor`,
`Rule.buildCompareKey`; `Model/RoutingAdapter.lean`: `providesDefaultsFor`). A change of the Python
source changes the generated definition and breaks these obligations.

The model keeps `self.defaults` as a list (empty = `None` or `{}`); the translation keeps Python's
`None | dict`. Every theorem is therefore stated for any `d : Option (List (Str × Value))` with
`d.getD [] = r.defaults`, which covers `None`, `{}` (both when `r.defaults = []`) and a non-empty dict.

Main theorems: `rule_suitable_for_eq`, `rule_build_compare_key_eq`, `rule_provides_defaults_for_eq`:
plain equalities without side conditions. No difference between translation and model was found.
In particular the `KeyError` arm of `values[key]` in `suitable_for` is unreachable (the translation
returns `.ok _` on every input, by `rule_suitable_for_eq`), `==` is applied in the same order on both
sides (`default == given value`), and `values[key]` (`Pre.dictGetItem`, via `find?`) and the model's
`lookupVal` both take the first entry of an association list with a repeated key
(`dictGetItem_eq_lookupVal`, `dictHas_eq_lookupVal`).

`rule_suitable_for_ok` states the unreachability of that `KeyError` for every value type and every `==`
(not only for the model's `Value` / `Value.pyEq`).

Section 1 holds helpers about the prelude dict functions and the two loops; section 2 the theorems;
section 3 the general no-raise statement.
-/
import WzVerif.Gen.PyFns_RoutingRule
import WzVerif.Model.RoutingAdapter
set_option linter.unusedSimpArgs false
namespace Wz.PyFnsEq.RoutingRule
open Wz Wz.Routing Wz.Gen.PyFns_RoutingRule

/-! ## 1. Helpers: prelude dict functions and the two loops -/

/-- `k in d` on an association list is the model's `d.any (·.1 == k)` (by definition) -/
theorem dictHas_eq_any {ν : Type} (d : List (Str × ν)) (k : Str) :
    Pre.dictHas d k = d.any (·.1 == k) := rfl

/-- `key in values` holds exactly when the model's `lookupVal` finds the key -/
theorem dictHas_eq_lookupVal (values : List (Str × Value)) (k : Str) :
    Pre.dictHas values k = (lookupVal k values).isSome := by
  induction values with
  | nil => rfl
  | cons p t ih =>
    obtain ⟨k', v⟩ := p
    unfold Pre.dictHas at ih ⊢
    simp only [List.any_cons, lookupVal]
    by_cases h : (k' == k) = true
    · simp [h]
    · simp [h, ih]

/-- `values[key]` and the model's `lookupVal` read the same entry, also when a key is repeated in the
association list (both take the first); `KeyError` exactly when `lookupVal` finds nothing -/
theorem dictGetItem_eq_lookupVal (values : List (Str × Value)) (k : Str) :
    Pre.dictGetItem values k =
      (match lookupVal k values with | some v => .ok v | none => .error "KeyError") := by
  induction values with
  | nil => rfl
  | cons p t ih =>
    obtain ⟨k', v⟩ := p
    unfold Pre.dictGetItem Pre.dictGet? at ih ⊢
    simp only [List.find?_cons, lookupVal]
    by_cases h : (k' == k) = true
    · simp [h]
    · simp [h, ih]

/-- the `for key in self.arguments` loop: falls through when every argument is a key of `defaults` or
of `values`, otherwise returns `False` -/
theorem loop1_eq {V : Type} (veq : V → V → Bool) (values defaults : List (Str × V)) (l : List Str) :
    rule_suitable_for.loop1 veq values defaults l =
      bif l.all (fun k => Pre.dictHas defaults k || Pre.dictHas values k) then .fall ()
      else .ret (.ok false) := by
  induction l with
  | nil => rfl
  | cons k t ih =>
    cases h1 : Pre.dictHas defaults k <;> cases h2 : Pre.dictHas values k <;>
      simp [rule_suitable_for.loop1, h1, h2, ih]

/-- the `for key, value in defaults.items()` loop: falls through when every default whose key is in
`values` equals (`veq default given`) the given value, otherwise returns `False`; it never raises -/
theorem loop2_eq (veq : Value → Value → Bool) (values l : List (Str × Value)) :
    rule_suitable_for.loop2 veq values l =
      bif l.all (fun p => match lookupVal p.1 values with | some v => veq p.2 v | none => true)
      then .fall () else .ret (.ok false) := by
  induction l with
  | nil => rfl
  | cons p t ih =>
    cases hlk : lookupVal p.1 values with
    | none =>
      have h1 : Pre.dictHas values p.1 = false := by rw [dictHas_eq_lookupVal, hlk]; rfl
      simp [rule_suitable_for.loop2, h1, hlk, ih]
    | some v =>
      have h1 : Pre.dictHas values p.1 = true := by rw [dictHas_eq_lookupVal, hlk]; rfl
      have h2 : Pre.dictGetItem values p.1 = .ok v := by rw [dictGetItem_eq_lookupVal, hlk]
      cases h3 : veq p.2 v <;> simp [rule_suitable_for.loop2, h1, h2, h3, hlk, ih]

/-- `self.defaults or ()` for a dict that is present: the dict itself (an empty dict and `()` are both
the empty list) -/
theorem defaults_or_empty {α : Type} (l : List α) : (if (!l.isEmpty) = true then l else []) = l := by
  cases l <;> rfl

/-- the model's test for the first loop of `suitable_for` -/
def argsOk (r : Routing.Rule) (values : List (Str × Value)) : Bool :=
  r.arguments.all (fun k => r.defaults.any (·.1 == k) || values.any (·.1 == k))

/-- the model's test for the second loop of `suitable_for` -/
def dfltOk (r : Routing.Rule) (values : List (Str × Value)) : Bool :=
  r.defaults.all (fun (k, d) => match lookupVal k values with | some v => d.pyEq v | none => true)

/-- the model's method test of `suitable_for` -/
def methodOk (r : Routing.Rule) (method : Option Str) : Bool :=
  match method, r.methods with
  | some m, some ms => ms.contains m
  | _, _ => true

/-- the model's `suitableFor` is the conjunction of the three tests (by definition) -/
theorem suitableFor_split (r : Routing.Rule) (values : List (Str × Value)) (method : Option Str) :
    r.suitableFor values method = (methodOk r method && argsOk r values && dfltOk r values) := rfl

/-- `loop1_eq` for the arguments and defaults of a rule -/
theorem loop1_rule (veq : Value → Value → Bool) (r : Routing.Rule) (values : List (Str × Value)) :
    rule_suitable_for.loop1 veq values r.defaults r.arguments =
      bif argsOk r values then .fall () else .ret (.ok false) := by
  rw [loop1_eq]; rfl

/-- `loop2_eq` for the defaults of a rule, with `Value.pyEq` as Python's `==` -/
theorem loop2_rule (r : Routing.Rule) (values : List (Str × Value)) :
    rule_suitable_for.loop2 (fun a b : Value => a.pyEq b) values r.defaults =
      bif dfltOk r values then .fall () else .ret (.ok false) := by
  rw [loop2_eq]; rfl

/-- without defaults the second test holds -/
theorem dfltOk_nil (r : Routing.Rule) (values : List (Str × Value)) (h : r.defaults = []) :
    dfltOk r values = true := by
  unfold dfltOk; rw [h]; rfl

/-! ## 2. The translated methods equal the model -/

/-- `Rule.suitable_for(values, method)` as translated from the source returns, without raising, what the
model's `Rule.suitableFor` returns; `d` is `self.defaults` (`None`, `{}` or a dict) and the model's
`r.defaults` its list reading; `==` is `Value.pyEq` with the default as the left operand on both sides -/
theorem rule_suitable_for_eq (r : Routing.Rule) (d : Option (List (Str × Value)))
    (hd : d.getD [] = r.defaults) (values : List (Str × Value)) (method : Option Str) :
    rule_suitable_for (fun a b => a.pyEq b) r.methods d r.arguments values method
      = .ok (r.suitableFor values method) := by
  have h1 := loop1_rule (fun a b => a.pyEq b) r values
  have h2 := loop2_rule r values
  rw [suitableFor_split]
  unfold rule_suitable_for
  cases d with
  | none =>
    simp only [Option.getD_none] at hd
    have h3 := dfltOk_nil r values hd.symm
    rw [← hd] at h1
    cases hA : argsOk r values <;>
      cases method <;> cases hm : r.methods <;> simp [h1, hA, h3, methodOk, hm] <;>
      split <;> simp_all
  | some l =>
    simp only [Option.getD_some] at hd
    subst hd
    simp only [defaults_or_empty, Pre.dictItems]
    cases hl : r.defaults.isEmpty
    · cases hA : argsOk r values <;> cases hB : dfltOk r values <;>
        cases method <;> cases hm : r.methods <;> simp [h1, h2, hA, hB, methodOk, hm, hl] <;>
        split <;> simp_all
    · have h3 := dfltOk_nil r values (List.isEmpty_iff.mp hl)
      cases hA : argsOk r values <;>
        cases method <;> cases hm : r.methods <;> simp [h1, hA, h3, methodOk, hm, hl] <;>
        split <;> simp_all

/-- `Rule.build_compare_key()` as translated from the source is the model's `Rule.buildCompareKey`
(`self.alias` is the model's `r.alias = r.spec.alias`); `d` is `self.defaults` as above -/
theorem rule_build_compare_key_eq (r : Routing.Rule) (d : Option (List (Str × Value)))
    (hd : d.getD [] = r.defaults) :
    rule_build_compare_key r.alias r.arguments d = r.buildCompareKey := by
  unfold rule_build_compare_key Rule.buildCompareKey
  cases d with
  | none =>
    simp only [Option.getD_none] at hd
    rw [← hd]; rfl
  | some l =>
    simp only [Option.getD_some] at hd
    subst hd
    simp only [defaults_or_empty]; rfl

/-- `Rule.provides_defaults_for(rule)` as translated from the source is the model's
`providesDefaultsFor`, the three comparisons of the source being read as: `self.endpoint == rule.endpoint`
= equality of the endpoints, `self != rule` = the traces differ (`Rule.__eq__` compares `_trace`),
`self.arguments == rule.arguments` = equality of the argument sets (`sameSet`) -/
theorem rule_provides_defaults_for_eq (cfg : MapCfg) (r rule : Routing.Rule)
    (d : Option (List (Str × Value))) (hd : d.getD [] = r.defaults) :
    rule_provides_defaults_for (r.endpoint == rule.endpoint) (r.trace cfg != rule.trace cfg)
      (sameSet r.arguments rule.arguments) r.spec.buildOnly d () = providesDefaultsFor cfg r rule := by
  unfold rule_provides_defaults_for providesDefaultsFor
  cases d with
  | none =>
    simp only [Option.getD_none] at hd
    rw [← hd]; simp
  | some l =>
    simp only [Option.getD_some] at hd
    subst hd
    rfl

/-! ## 3. `suitable_for` never raises, for any value type and any `==` -/

/-- `values[key]` does not raise when `key in values` -/
theorem dictGetItem_of_has {V : Type} (values : List (Str × V)) (k : Str)
    (h : Pre.dictHas values k = true) : ∃ v, Pre.dictGetItem values k = .ok v := by
  unfold Pre.dictHas at h
  unfold Pre.dictGetItem Pre.dictGet?
  cases hf : values.find? (·.1 == k) with
  | none =>
    rw [List.find?_eq_none] at hf
    rw [List.any_eq_true] at h
    obtain ⟨x, hx, hk⟩ := h
    exact absurd hk (hf x hx)
  | some p => exact ⟨p.2, rfl⟩

/-- the first loop of `suitable_for` falls through or returns `False` -/
theorem loop1_ok {V : Type} (veq : V → V → Bool) (values defaults : List (Str × V)) (l : List Str) :
    rule_suitable_for.loop1 veq values defaults l = .fall () ∨
    rule_suitable_for.loop1 veq values defaults l = .ret (.ok false) := by
  rw [loop1_eq]
  cases l.all (fun k => Pre.dictHas defaults k || Pre.dictHas values k)
  · exact .inr rfl
  · exact .inl rfl

/-- the second loop of `suitable_for` falls through or returns `False`: `values[key]` is guarded by
`key in values` -/
theorem loop2_ok {V : Type} (veq : V → V → Bool) (values l : List (Str × V)) :
    rule_suitable_for.loop2 veq values l = .fall () ∨
    rule_suitable_for.loop2 veq values l = .ret (.ok false) := by
  induction l with
  | nil => exact .inl rfl
  | cons p t ih =>
    cases h1 : Pre.dictHas values p.1 with
    | false => simpa [rule_suitable_for.loop2, h1] using ih
    | true =>
      obtain ⟨v, h2⟩ := dictGetItem_of_has values p.1 h1
      cases h3 : veq p.2 v
      · simp [rule_suitable_for.loop2, h1, h2, h3]
      · simpa [rule_suitable_for.loop2, h1, h2, h3] using ih

/-- `Rule.suitable_for` as translated never raises (the `KeyError` of `values[key]` is unreachable),
whatever the type of the values and whatever `==` does -/
theorem rule_suitable_for_ok {V : Type} (veq : V → V → Bool) (ms : Option (List Str))
    (d : Option (List (Str × V))) (args : List Str) (values : List (Str × V)) (method : Option Str) :
    ∃ b, rule_suitable_for veq ms d args values method = .ok b := by
  unfold rule_suitable_for
  have key : ∀ defaults : List (Str × V), ∃ b,
      (match rule_suitable_for.loop1 veq values defaults args with
        | .ret r_ => r_
        | .fall () =>
          if !defaults.isEmpty then
            match rule_suitable_for.loop2 veq values (Pre.dictItems defaults) with
            | .ret r_ => r_
            | .fall () => .ok true
          else .ok true) = .ok b := by
    intro defaults
    rcases loop1_ok veq values defaults args with h | h <;> rw [h]
    · rcases loop2_ok veq values (Pre.dictItems defaults) with h' | h' <;> rw [h'] <;>
        cases defaults.isEmpty <;> simp
    · exact ⟨false, rfl⟩
  cases d with
  | none =>
    obtain ⟨b, hb⟩ := key []
    cases method <;> cases ms <;> simp only [] <;> first | exact ⟨b, hb⟩ | skip
    split
    · exact ⟨false, rfl⟩
    · exact ⟨b, hb⟩
  | some l =>
    obtain ⟨b, hb⟩ := key (if !l.isEmpty then l else [])
    cases method <;> cases ms <;> simp only [] <;> first | exact ⟨b, hb⟩ | skip
    split
    · exact ⟨false, rfl⟩
    · exact ⟨b, hb⟩

end Wz.PyFnsEq.RoutingRule
