/-
C10, request level: limits are pure guards over every access history (simulation between a request
with limits and the same request with all three limits removed). Core Lean only.
-/
import WzVerif.Lemmas.FormLimitsSim
import WzVerif.Lemmas.FormLimitsRequest
namespace Wz.FormReq
open Wz Wz.Multipart

/-- the same request without any limit -/
def free (c : Cfg) : Cfg := { c with mcl := none, mm := none, mp := none }

/-- on a server-terminated input the body stays strictly below the streaming maximum (at the maximum
the parser's last read is refused; above it `read()` truncates silently: F09b / F10b) -/
def Fits (c : Cfg) (body : Bytes) : Prop :=
  c.terminated = true → ∀ m, c.mcl = some m → body.length < m

def NoMax : Strm → Prop
  | .limited _ _ true => False
  | _ => True

/-- the stream of the limited request and the stream of the free request deliver the same bytes -/
def SSim (s s' : Strm) (i : Bytes) : Prop :=
  (s = s' ∧ NoMax s) ∨ ∃ m p, s = .limited m p true ∧ s' = .raw ∧ p + i.length < m

theorem ssim_avail {s s' : Strm} {i : Bytes} (h : SSim s s' i) : avail s i = avail s' i := by
  rcases h with ⟨rfl, _⟩ | ⟨m, p, rfl, rfl, hlt⟩
  · rfl
  · simp only [avail]
    exact List.take_of_length_le (by omega)

theorem ssim_endErr {s s' : Strm} {i : Bytes} (h : SSim s s' i) : endErr s i = endErr s' i := by
  rcases h with ⟨rfl, _⟩ | ⟨m, p, rfl, rfl, hlt⟩
  · rfl
  · have : ¬ (m - p ≤ i.length) := by omega
    simp [endErr, this]

theorem ssim_advance {s s' : Strm} {i : Bytes} {k : Nat} (h : SSim s s' i) (hk : k ≤ (avail s i).length) :
    (advance s i k).2 = (advance s' i k).2 ∧ SSim (advance s i k).1 (advance s' i k).1 (advance s i k).2 := by
  rcases h with ⟨rfl, hn⟩ | ⟨m, p, rfl, rfl, hlt⟩
  · refine ⟨rfl, Or.inl ⟨rfl, ?_⟩⟩
    cases s with
    | limited l p mx => cases mx <;> simp [advance, NoMax] at hn ⊢
    | _ => simp [advance, NoMax]
  · simp only [avail, List.length_take] at hk
    refine ⟨rfl, Or.inr ⟨m, p + k, rfl, rfl, ?_⟩⟩
    simp only [advance, List.length_drop]
    omega

theorem sReadAll_nomax {s : Strm} (i : Bytes) (hn : NoMax s) :
    sReadAll s i =
      (match endErr s i with
        | none => .ok (avail s i)
        | some e => .error e, advance s i (avail s i).length) := by
  cases s with
  | empty => rfl
  | raw => rfl
  | bio r => rfl
  | limited l p mx =>
    cases mx with
    | true => simp [NoMax] at hn
    | false =>
      simp only [sReadAll, endErr, avail, List.length_take]
      by_cases h1 : l ≤ p
      · have h0 : l - p = 0 := by omega
        simp [h1, h0, advance]
      · simp only [h1, if_false]
        by_cases h2 : l - p ≤ i.length
        · simp [h2, Nat.min_eq_left h2]
        · have : min (l - p) i.length = i.length := by omega
          simp [h2, this]

theorem sReadAll_max_fits {m p : Nat} {i : Bytes} (h : p + i.length < m) :
    sReadAll (.limited m p true) i = (.ok i, advance (.limited m p true) i i.length) := by
  have h1 : ¬ m ≤ p := by omega
  have h2 : ¬ m - p ≤ i.length := by omega
  simp [sReadAll, h1, h2]

/-- `stream.read()` on related streams: same outcome, related streams afterwards -/
theorem ssim_readAll {s s' : Strm} {i : Bytes} (h : SSim s s' i) :
    (sReadAll s i).1 = (sReadAll s' i).1 ∧ (sReadAll s i).2.2 = (sReadAll s' i).2.2 ∧
      SSim (sReadAll s i).2.1 (sReadAll s' i).2.1 (sReadAll s i).2.2 := by
  rcases h with ⟨rfl, hn⟩ | ⟨m, p, rfl, rfl, hlt⟩
  · refine ⟨rfl, rfl, ?_⟩
    rw [sReadAll_nomax i hn]
    exact (ssim_advance (Or.inl ⟨rfl, hn⟩) (Nat.le_refl _)).2
  · rw [sReadAll_max_fits hlt]
    have hadv := ssim_advance (k := i.length) (Or.inr ⟨m, p, rfl, rfl, hlt⟩ : SSim (.limited m p true) .raw i)
      (by simp [avail, List.length_take]; omega)
    refine ⟨rfl, hadv.1, ?_⟩
    exact hadv.2

/-- outcome of a parse function under limits vs. without: RequestEntityTooLarge, or the same outcome
with the same bytes consumed -/
def PSim (x x' : Except String FormRes × Strm × Bytes) : Prop :=
  x.1 = .error R413 ∨ (x.1 = x'.1 ∧ x.2.2 = x'.2.2 ∧ SSim x.2.1 x'.2.1 x.2.2)

theorem esim_map {r r' : Except String FormState} (h : ESim r r') :
    r.map (fun st => (st.fields, st.files)) = r'.map (fun st => (st.fields, st.files)) := by
  cases r with
  | error e =>
    cases r' with
    | error e' => simp only [ESim] at h; subst h; rfl
    | ok b => exact absurd h id
  | ok a =>
    cases r' with
    | error e' => exact absurd h id
    | ok b =>
      rcases h with ⟨_, h2, h3⟩
      simp [Except.map, h2, h3]

theorem lenSum_take_readChunks_le (D : Bytes) (k : Nat) :
    lenSum ((readChunks bufferSize D.length [] D).take k) ≤ D.length := by
  have := lenSum_take_le (readChunks bufferSize D.length [] D) k
  rw [lenSum_readChunks] at this
  exact this

theorem parseMultipartS_sim (bnd : Bytes) (mm mp : Option Nat) {s s' : Strm} {i : Bytes} (h : SSim s s' i) :
    PSim (parseMultipartS bnd mm mp s i) (parseMultipartS bnd none none s' i) := by
  have ha := ssim_avail h
  have he := ssim_endErr h
  unfold parseMultipartS
  simp only []
  rw [← ha, ← he]
  have hu : unl (mkDecoder bnd mm mp) = mkDecoder bnd none none := rfl
  have hle : ∀ k, lenSum ((readChunks bufferSize (avail s i).length [] (avail s i)).take k) ≤ (avail s i).length :=
    lenSum_take_readChunks_le (avail s i)
  generalize readChunks bufferSize (avail s i).length [] (avail s i) = L at hle ⊢
  cases hee : endErr s i with
  | none =>
    simp only
    rcases formLoopN_unl' (m := mm) (L.map some ++ [none])
      (mkDecoder bnd mm mp) (st := {}) (st1 := {}) ⟨rfl, rfl, rfl⟩ with h1 | ⟨h1, h2⟩
    · left; simp [h1, Except.map]
    · right
      rw [hu] at h1 h2
      rw [← h2]
      have hadv := ssim_advance h (hle (formLoopN mm (mkDecoder bnd mm mp) {} (L.map some ++ [none])).2)
      exact ⟨esim_map h1, hadv.1, hadv.2⟩
  | some e =>
    simp only
    rcases formLoopN_unl' (m := mm) (L.map some)
      (mkDecoder bnd mm mp) (st := {}) (st1 := {}) ⟨rfl, rfl, rfl⟩ with h1 | ⟨h1, h2⟩
    · left; simp [h1]
    · right
      rw [hu] at h1 h2
      rw [← h2]
      cases hr : (formLoopN mm (mkDecoder bnd mm mp) {} (L.map some)).1 with
      | error e1 =>
        rw [hr] at h1
        cases hr' : (formLoopN none (mkDecoder bnd none none) {} (L.map some)).1 with
        | ok b => rw [hr'] at h1; exact absurd h1 id
        | error e2 =>
          rw [hr'] at h1
          have : e1 = e2 := h1
          subst this
          have hadv := ssim_advance h (hle (formLoopN mm (mkDecoder bnd mm mp) {} (L.map some)).2)
          exact ⟨rfl, hadv.1, hadv.2⟩
      | ok a =>
        rw [hr] at h1
        cases hr' : (formLoopN none (mkDecoder bnd none none) {} (L.map some)).1 with
        | error e2 => rw [hr'] at h1; exact absurd h1 id
        | ok b =>
          have hadv := ssim_advance h (Nat.le_refl (avail s i).length)
          exact ⟨rfl, hadv.1, hadv.2⟩

theorem parseUrlencodedS_sim (mm cl : Option Nat) {s s' : Strm} {i : Bytes} (h : SSim s s' i) :
    PSim (parseUrlencodedS mm cl s i) (parseUrlencodedS none cl s' i) := by
  have hra := ssim_readAll h
  cases mm with
  | none =>
    right
    unfold parseUrlencodedS
    simp only []
    rcases h1 : sReadAll s i with ⟨r1, s1, i1⟩
    rcases h2 : sReadAll s' i with ⟨r2, s2, i2⟩
    rw [h1, h2] at hra
    simp only at hra
    rcases hra with ⟨rfl, rfl, hs⟩
    cases r1 with
    | error e => exact ⟨rfl, rfl, hs⟩
    | ok d => exact ⟨rfl, rfl, hs⟩
  | some m =>
    have ha := ssim_avail h
    have he := ssim_endErr h
    -- the free side reads everything with `stream.read()`
    have hfree : parseUrlencodedS none cl s' i =
        (match (sReadAll s' i).1 with
          | .error e => .error e
          | .ok data =>
            match utf8Dec? data with
            | none => .error "UnicodeDecodeError"
            | some t => .ok ((Urlencode.parseQsl true t).map (fun (k, v) => (some k, v)), []),
         (sReadAll s' i).2.1, (sReadAll s' i).2.2) := by
      unfold parseUrlencodedS
      simp only []
      rcases sReadAll s' i with ⟨r2, s2, i2⟩
      cases r2 <;> rfl
    rw [hfree]
    unfold parseUrlencodedS
    simp only []
    split
    · left; rfl
    · split
      · left; rfl
      · right
        -- what `read()` does on the limited side's stream, transported to the free side
        have hlim : sReadAll s i =
            (match endErr s i with
              | none => .ok (avail s i)
              | some e => .error e, advance s i (avail s i).length) := by
          rcases h with ⟨rfl, hn⟩ | ⟨mx, p, rfl, rfl, hlt⟩
          · exact sReadAll_nomax i hn
          · rw [sReadAll_max_fits hlt]
            have h2 : ¬ mx - p ≤ i.length := by omega
            have h3 : i.take (mx - p) = i := List.take_of_length_le (by omega)
            simp [endErr, avail, h2, h3]
        rw [← hra.1, ← hra.2.1, hlim]
        have hadv := ssim_advance h (Nat.le_refl (avail s i).length)
        rw [hlim] at hra
        cases hee : endErr s i with
        | some e => exact ⟨rfl, rfl, by simpa [hee] using hra.2.2⟩
        | none => exact ⟨rfl, rfl, by simpa [hee] using hra.2.2⟩

theorem psim_silent {x x' : Except String FormRes × Strm × Bytes} (h : PSim x x') :
    PSim (silentRes x) (silentRes x') := by
  unfold PSim
  rw [silentRes_snd, silentRes_snd, silentRes_fst, silentRes_fst]
  rcases h with h | ⟨h1, h2, h3⟩
  · left
    rw [h]
    have : isValueError R413 = false := by decide
    simp [silence, this]
  · right
    exact ⟨by rw [h1], h2, h3⟩

theorem parseDispatch_sim (mime : Mime) (mm mp cl : Option Nat) {s s' : Strm} {i : Bytes} (h : SSim s s' i) :
    PSim (parseDispatch mime mm mp cl s i) (parseDispatch mime none none cl s' i) := by
  unfold parseDispatch
  cases mime with
  | multipart bnd =>
    simp only
    split
    · right; exact ⟨rfl, rfl, h⟩
    · exact psim_silent (parseMultipartS_sim bnd mm mp h)
  | urlencoded => exact psim_silent (parseUrlencodedS_sim mm cl h)
  | other => right; exact ⟨rfl, rfl, h⟩
  | absent => right; exact ⟨rfl, rfl, h⟩

/-! ### request states -/

def StreamSim (body : Bytes) (w w' : RS) : Prop :=
  match w.stream, w'.stream with
  | none, none => w.input.length = body.length
  | some s, some s' => SSim s s' w.input
  | _, _ => False

/-- the request with limits and the request without are in the same state, up to the kind of stream
object they hold -/
def WSim (body : Bytes) (w w' : RS) : Prop :=
  w.input = w'.input ∧ w.cached = w'.cached ∧ w.form = w'.form ∧ w.dataProp = w'.dataProp ∧
    w.jsonDone = w'.jsonDone ∧ StreamSim body w w'

theorem chooseStream_sim (c : Cfg) (body : Bytes) (hf : Fits c body) :
    chooseStream c = none ∨ ∃ s s', chooseStream c = some s ∧ chooseStream (free c) = some s' ∧
      ∀ i : Bytes, i.length = body.length → SSim s s' i := by
  rcases c with ⟨mcl, mm, mp, mime, declared, terminated⟩
  unfold Fits at hf
  simp only at hf
  cases mcl with
  | none =>
    right
    cases terminated with
    | true => exact ⟨.raw, .raw, by simp [chooseStream], by simp [chooseStream, free], fun i _ => Or.inl ⟨rfl, trivial⟩⟩
    | false =>
      cases declared with
      | none => exact ⟨.empty, .empty, by simp [chooseStream], by simp [chooseStream, free], fun i _ => Or.inl ⟨rfl, trivial⟩⟩
      | some n =>
        exact ⟨.limited n 0 false, .limited n 0 false, by simp [chooseStream], by simp [chooseStream, free],
          fun i _ => Or.inl ⟨rfl, trivial⟩⟩
  | some m =>
    cases terminated with
    | true =>
      have hb := hf rfl m rfl
      cases declared with
      | none =>
        right
        exact ⟨.limited m 0 true, .raw, by simp [chooseStream], by simp [chooseStream, free],
          fun i hi => Or.inr ⟨m, 0, rfl, rfl, by omega⟩⟩
      | some n =>
        by_cases hov : n > m
        · left; simp [chooseStream, hov]
        · right
          exact ⟨.limited m 0 true, .raw, by simp [chooseStream, hov], by simp [chooseStream, free],
            fun i hi => Or.inr ⟨m, 0, rfl, rfl, by omega⟩⟩
    | false =>
      cases declared with
      | none =>
        right
        exact ⟨.empty, .empty, by simp [chooseStream], by simp [chooseStream, free], fun i _ => Or.inl ⟨rfl, trivial⟩⟩
      | some n =>
        by_cases hov : n > m
        · left; simp [chooseStream, hov]
        · right
          exact ⟨.limited n 0 false, .limited n 0 false, by simp [chooseStream, hov], by simp [chooseStream, free],
            fun i _ => Or.inl ⟨rfl, trivial⟩⟩

theorem getStream_eq {c : Cfg} {w w1 : RS} {s : Strm} (h : getStream c w = .ok (s, w1)) :
    w1 = { w with stream := some s } := by
  unfold getStream at h
  cases hs : w.stream with
  | some s0 =>
    rw [hs] at h; simp at h
    rcases h with ⟨rfl, rfl⟩
    cases w; simp_all
  | none =>
    rw [hs] at h
    cases hc : chooseStream c with
    | none => rw [hc] at h; simp at h
    | some s1 => rw [hc] at h; simp at h; rcases h with ⟨rfl, rfl⟩; rfl

theorem getStream_sim {c : Cfg} {body : Bytes} (hf : Fits c body) {w w' : RS} (hw : WSim body w w') :
    getStream c w = .error R413 ∨
    ∃ s s', getStream c w = .ok (s, { w with stream := some s }) ∧
      getStream (free c) w' = .ok (s', { w' with stream := some s' }) ∧ SSim s s' w.input := by
  rcases hw with ⟨hi, _, _, _, _, hs⟩
  unfold StreamSim at hs
  cases h1 : w.stream with
  | none =>
    cases h2 : w'.stream with
    | some s' => rw [h1, h2] at hs; exact absurd hs id
    | none =>
      rw [h1, h2] at hs
      simp only at hs
      rcases chooseStream_sim c body hf with hc | ⟨s, s', hc, hc', hss⟩
      · left; simp [getStream, h1, hc, R413]
      · right
        exact ⟨s, s', by simp [getStream, h1, hc], by simp [getStream, h2, hc'], hss _ hs⟩
  | some s =>
    cases h2 : w'.stream with
    | none => rw [h1, h2] at hs; exact absurd hs id
    | some s' =>
      rw [h1, h2] at hs
      right
      refine ⟨s, s', ?_, ?_, hs⟩
      · have : ({ w with stream := some s } : RS) = w := by cases w; simp_all
        simp [getStream, h1, this]
      · have : ({ w' with stream := some s' } : RS) = w' := by cases w'; simp_all
        simp [getStream, h2, this]

/-- outcome of `_load_form_data` -/
def LSim (body : Bytes) (r r' : Option String × RS) : Prop :=
  r.1 = some R413 ∨ (r.1 = r'.1 ∧ WSim body r.2 r'.2)

theorem parseFrom_free (c : Cfg) (s : Strm) (i : Bytes) :
    parseFrom (free c) s i = parseDispatch c.mime none none c.declared s i := rfl

theorem loadCached_sim {c : Cfg} {body : Bytes} {w w' : RS} (d : Bytes) (hw : WSim body w w') :
    LSim body (loadCached c w d) (loadCached (free c) w' d) := by
  rcases hw with ⟨hi, h2, h3, h4, h5, hs⟩
  unfold loadCached
  simp only []
  rw [parseFrom_free, ← hi]
  unfold parseFrom
  have hp := parseDispatch_sim c.mime c.mm c.mp c.declared (s := .bio d) (s' := .bio d) (i := w.input)
    (Or.inl ⟨rfl, trivial⟩)
  rcases hp with hp | ⟨hp1, hp2, hp3⟩
  · left; simp [hp]
  · right
    rw [← hp1]
    cases hr : (parseDispatch c.mime c.mm c.mp c.declared (.bio d) w.input).1 with
    | error e =>
      simp only
      refine ⟨by first | rfl | trivial, by first | rfl | exact hi, h2, h3, h4, h5, ?_⟩
      exact hs
    | ok res =>
      simp only
      refine ⟨by first | rfl | trivial, by first | rfl | exact hi, h2, rfl, h4, h5, ?_⟩
      simp only [StreamSim]
      -- the BytesIO never touches the input
      have hadv := parseDispatch_adv c.mime c.mm c.mp c.declared (.bio d) w.input
      rcases hadv with ⟨k, _, hk⟩
      have : (parseDispatch c.mime c.mm c.mp c.declared (.bio d) w.input).2.2 = w.input := by
        have := congrArg Prod.snd hk
        simpa [advance] using this
      rw [this] at hp3
      exact hp3

theorem loadStream_sim {c : Cfg} {body : Bytes} (hf : Fits c body) {w w' : RS} (hw : WSim body w w') :
    LSim body (loadStream c w) (loadStream (free c) w') := by
  have hw0 := hw
  rcases hw with ⟨hi, h2, h3, h4, h5, hs⟩
  unfold loadStream
  rcases getStream_sim hf hw0 with hg | ⟨s, s', hg, hg', hss⟩
  · left; simp [hg]
  · rw [hg, hg']
    simp only []
    rw [parseFrom_free, ← hi]
    unfold parseFrom
    rcases parseDispatch_sim c.mime c.mm c.mp c.declared hss with hp | ⟨hp1, hp2, hp3⟩
    · left; simp [hp]
    · right
      rw [← hp1]
      cases hr : (parseDispatch c.mime c.mm c.mp c.declared s w.input).1 with
      | error e => exact ⟨rfl, hp2, h2, h3, h4, h5, hp3⟩
      | ok res => exact ⟨rfl, hp2, h2, rfl, h4, h5, hp3⟩

theorem loadPlain_sim {c : Cfg} {body : Bytes} (hf : Fits c body) {w w' : RS} (hw : WSim body w w') :
    LSim body (loadPlain c w) (loadPlain (free c) w') := by
  have hw0 := hw
  rcases hw with ⟨hi, h2, h3, h4, h5, hs⟩
  unfold loadPlain
  rcases getStream_sim hf hw0 with hg | ⟨s, s', hg, hg', hss⟩
  · left; simp [hg]
  · rw [hg, hg']
    right
    exact ⟨rfl, hi, h2, rfl, h4, h5, hss⟩

theorem loadForm_sim {c : Cfg} {body : Bytes} (hf : Fits c body) {w w' : RS} (hw : WSim body w w') :
    LSim body (loadForm c w) (loadForm (free c) w') := by
  have hw0 := hw
  rcases hw with ⟨hi, h2, h3, h4, h5, hs⟩
  unfold loadForm
  have hm : (free c).mime = c.mime := rfl
  rw [← h3, ← h2, hm]
  split
  · right; exact ⟨rfl, hw0⟩
  · split
    · cases w.cached with
      | some d => exact loadCached_sim d hw0
      | none => exact loadStream_sim hf hw0
    · exact loadPlain_sim hf hw0

/-- outcome of an access that returns bytes -/
def BSim (body : Bytes) (r r' : Except String Bytes × RS) : Prop :=
  r.1 = .error R413 ∨ (r.1 = r'.1 ∧ WSim body r.2 r'.2)

theorem streamReadAll_sim {c : Cfg} {body : Bytes} (hf : Fits c body) {w w' : RS} (hw : WSim body w w') :
    BSim body (streamReadAll c w) (streamReadAll (free c) w') := by
  have hw0 := hw
  rcases hw with ⟨hi, h2, h3, h4, h5, hs⟩
  unfold streamReadAll
  rcases getStream_sim hf hw0 with hg | ⟨s, s', hg, hg', hss⟩
  · left; simp [hg]
  · rw [hg, hg']
    simp only []
    rw [← hi]
    rcases ssim_readAll hss with ⟨hr1, hr2, hr3⟩
    right
    exact ⟨hr1, hr2, h2, h3, h4, h5, hr3⟩

theorem getData_sim {c : Cfg} {body : Bytes} (hf : Fits c body) (cache parse : Bool) {w w' : RS}
    (hw : WSim body w w') :
    BSim body (getData c cache parse w) (getData (free c) cache parse w') := by
  have hw0 := hw
  rcases hw with ⟨hi, h2, h3, h4, h5, hs⟩
  unfold getData
  rw [← h2]
  cases hcd : w.cached with
  | some d => right; exact ⟨rfl, hw0⟩
  | none =>
    simp only
    have hl : LSim body (if parse then loadForm c w else (none, w))
        (if parse then loadForm (free c) w' else (none, w')) := by
      cases parse with
      | true => exact loadForm_sim hf hw0
      | false => right; exact ⟨rfl, hw0⟩
    rcases hl with hl | ⟨hl1, hl2⟩
    · left; simp [hl]
    · rw [← hl1]
      cases he : (if parse then loadForm c w else (none, w)).1 with
      | some e => right; exact ⟨rfl, hl2⟩
      | none =>
        simp only
        rcases streamReadAll_sim hf hl2 with hr | ⟨hr1, hr2⟩
        · left
          rcases hx : streamReadAll c (if parse then loadForm c w else (none, w)).2 with ⟨r, w2⟩
          rw [hx] at hr
          simp only at hr
          subst hr
          rfl
        · right
          rcases hx : streamReadAll c (if parse then loadForm c w else (none, w)).2 with ⟨r, w2⟩
          rcases hx' : streamReadAll (free c) (if parse then loadForm (free c) w' else (none, w')).2 with ⟨r', w2'⟩
          rw [hx, hx'] at hr1 hr2
          simp only at hr1 hr2
          subst hr1
          cases r with
          | error e => exact ⟨by first | rfl | trivial, hr2⟩
          | ok dd =>
            simp only
            cases cache with
            | false => exact ⟨by first | rfl | trivial, hr2⟩
            | true =>
              rcases hr2 with ⟨a1, a2, a3, a4, a5, a6⟩
              exact ⟨by first | rfl | trivial, a1, rfl, a3, a4, a5, a6⟩

/-- outcome of one access -/
def OSim (body : Bytes) (r r' : Obs × RS) : Prop :=
  r.1 = .exc R413 ∨ (r.1 = r'.1 ∧ WSim body r.2 r'.2)

theorem obsBytes_413 {r : Except String Bytes} (h : r = .error R413) : obsBytes r = .exc R413 := by
  subst h; rfl

theorem formOp_sim {c : Cfg} {body : Bytes} (hf : Fits c body) {w w' : RS} (hw : WSim body w w')
    (g : FormRes → Obs) :
    OSim body
      (match loadForm c w with
        | (some e, w1) => (.exc e, w1)
        | (none, w1) => (g (w1.form.getD ([], [])), w1))
      (match loadForm (free c) w' with
        | (some e, w1) => (.exc e, w1)
        | (none, w1) => (g (w1.form.getD ([], [])), w1)) := by
  rcases loadForm_sim hf hw with hl | ⟨hl1, hl2⟩
  · left
    rcases hx : loadForm c w with ⟨e, w1⟩
    rw [hx] at hl
    simp only at hl
    subst hl
    rfl
  · right
    rcases hx : loadForm c w with ⟨e, w1⟩
    rcases hx' : loadForm (free c) w' with ⟨e', w1'⟩
    rw [hx, hx'] at hl1 hl2
    simp only at hl1 hl2
    subst hl1
    cases e with
    | some err => exact ⟨by first | rfl | trivial, hl2⟩
    | none =>
      have hform : w1.form = w1'.form := hl2.2.2.1
      simp only [hform]
      exact ⟨by first | rfl | trivial, hl2⟩

theorem stepOp_sim {c : Cfg} {body : Bytes} (hf : Fits c body) (op : Op) {w w' : RS} (hw : WSim body w w') :
    OSim body (stepOp c w op) (stepOp (free c) w' op) := by
  have hw0 := hw
  rcases hw with ⟨hi, h2, h3, h4, h5, hs⟩
  cases op with
  | getData cache parse =>
    simp only [stepOp]
    rcases getData_sim hf cache parse hw0 with hg | ⟨hg1, hg2⟩
    · left; exact obsBytes_413 hg
    · right; exact ⟨by rw [hg1], hg2⟩
  | streamRead =>
    simp only [stepOp]
    rcases streamReadAll_sim hf hw0 with hg | ⟨hg1, hg2⟩
    · left; exact obsBytes_413 hg
    · right; exact ⟨by rw [hg1], hg2⟩
  | form => simp only [stepOp]; exact formOp_sim hf hw0 (fun r => .fields r.1)
  | values => simp only [stepOp]; exact formOp_sim hf hw0 (fun r => .fields r.1)
  | files => simp only [stepOp]; exact formOp_sim hf hw0 (fun r => .files r.2)
  | data =>
    simp only [stepOp]
    rw [← h4]
    cases hd : w.dataProp with
    | some d => right; exact ⟨rfl, hw0⟩
    | none =>
      simp only
      rcases getData_sim hf true true hw0 with hg | ⟨hg1, hg2⟩
      · left
        rcases hx : getData c true true w with ⟨r, w1⟩
        rw [hx] at hg
        simp only at hg
        subst hg
        rfl
      · right
        rcases hx : getData c true true w with ⟨r, w1⟩
        rcases hx' : getData (free c) true true w' with ⟨r', w1'⟩
        rw [hx, hx'] at hg1 hg2
        simp only at hg1 hg2
        subst hg1
        cases r with
        | error e => exact ⟨by first | rfl | trivial, hg2⟩
        | ok d =>
          rcases hg2 with ⟨a1, a2, a3, a4, a5, a6⟩
          exact ⟨by first | rfl | trivial, a1, a2, a3, rfl, a5, a6⟩
  | json cache =>
    simp only [stepOp]
    rw [← h5]
    split
    · right; exact ⟨rfl, hw0⟩
    · rcases getData_sim hf cache false hw0 with hg | ⟨hg1, hg2⟩
      · left
        rcases hx : getData c cache false w with ⟨r, w1⟩
        rw [hx] at hg
        simp only at hg
        subst hg
        rfl
      · right
        rcases hx : getData c cache false w with ⟨r, w1⟩
        rcases hx' : getData (free c) cache false w' with ⟨r', w1'⟩
        rw [hx, hx'] at hg1 hg2
        simp only at hg1 hg2
        subst hg1
        cases r with
        | error e => exact ⟨by first | rfl | trivial, hg2⟩
        | ok d =>
          rcases hg2 with ⟨a1, a2, a3, a4, a5, a6⟩
          exact ⟨by first | rfl | trivial, a1, a2, a3, a4, by simp only; rw [a5], a6⟩

/-- **pure guard over histories**: as long as no access under limits answers RequestEntityTooLarge,
every access shows what it shows on the request without limits -/
theorem run_sim {c : Cfg} {body : Bytes} (hf : Fits c body) (ops : List Op) : ∀ {w w' : RS}, WSim body w w' →
    (∀ o ∈ (run c w ops).1, o ≠ .exc R413) → (run c w ops).1 = (run (free c) w' ops).1 := by
  induction ops with
  | nil => intro w w' _ _; rfl
  | cons op t ih =>
    intro w w' hw hno
    simp only [run] at hno ⊢
    rcases stepOp_sim hf op hw with h | ⟨h1, h2⟩
    · exact absurd h (hno _ (by simp))
    · rw [h1, ih h2 (fun o ho => hno o (by simp [ho]))]

theorem fresh_wsim (body : Bytes) : WSim body (fresh body) (fresh body) := by
  simp [WSim, StreamSim, fresh]

theorem run_take (c : Cfg) (w : RS) (ops : List Op) (k : Nat) :
    (run c w (ops.take k)).1 = (run c w ops).1.take k := by
  induction ops generalizing w k with
  | nil => simp [run]
  | cons op t ih =>
    cases k with
    | zero => simp [run]
    | succ n => simp [run, ih]

end Wz.FormReq
