/-
Routing lemmas, part 18 (C12): the alias redirect — `build()` tries the endpoint's rules in
`build_compare_key` order (non-alias rules first) and takes the first suitable one, so when a
non-alias rule is suitable the canonical URL is a non-alias rule's.
-/
import WzVerif.Lemmas.RoutingDefaults
import WzVerif.Lemmas.RoutingOrder
namespace Wz.Routing

def tripleLt1 (a b : Int × Int × Int) : Bool := decide (a.1 < b.1)
def tripleLt2 (a b : Int × Int × Int) : Bool := decide (a.2.1 < b.2.1)
def tripleLt3 (a b : Int × Int × Int) : Bool := decide (a.2.2 < b.2.2)

set_option linter.unusedSimpArgs false in
theorem swo_keyLt : SWO keyLt := by
  have h := SWO.lex (SWO.int_key (fun (x : Int × Int × Int) => x.1))
    (SWO.lex (SWO.int_key (fun (x : Int × Int × Int) => x.2.1)) (SWO.int_key (fun (x : Int × Int × Int) => x.2.2)))
  have heq : keyLt = lexLt (fun a b => decide (a.1 < b.1))
      (lexLt (fun a b => decide (a.2.1 < b.2.1)) (fun a b => decide (a.2.2 < b.2.2))) := by
    funext a b
    simp only [keyLt, lexLt]
    have e1 : (a.1 == b.1) = (!decide (b.1 < a.1) && !decide (a.1 < b.1)) := by
      by_cases h1 : a.1 < b.1
      · have : ¬ a.1 = b.1 := by omega
        have h2 : ¬ b.1 < a.1 := by omega
        simp [h1, h2, this]
      · by_cases h2 : b.1 < a.1
        · have : ¬ a.1 = b.1 := by omega
          simp [h1, h2, this]
        · have : a.1 = b.1 := by omega
          simp [h1, h2, this]
    have e2 : (a.2.1 == b.2.1) = (!decide (b.2.1 < a.2.1) && !decide (a.2.1 < b.2.1)) := by
      by_cases h1 : a.2.1 < b.2.1
      · have : ¬ a.2.1 = b.2.1 := by omega
        have h2 : ¬ b.2.1 < a.2.1 := by omega
        simp [h1, h2, this]
      · by_cases h2 : b.2.1 < a.2.1
        · have : ¬ a.2.1 = b.2.1 := by omega
          simp [h1, h2, this]
        · have : a.2.1 = b.2.1 := by omega
          simp [h1, h2, this]
    rw [e1, e2]
    cases decide (a.1 < b.1) <;> cases decide (b.1 < a.1) <;>
      cases decide (a.2.1 < b.2.1) <;> cases decide (b.2.1 < a.2.1) <;> simp
  rw [heq]; exact h

/-- no later rule has a strictly smaller build key -/
def RulesSorted (l : List Rule) : Prop :=
  l.Pairwise (fun a b => keyLt b.buildCompareKey a.buildCompareKey = false)

theorem insertRule_sorted {x : Rule} {l : List Rule} (h : RulesSorted l) : RulesSorted (insertRule x l) := by
  induction l with
  | nil => simp [insertRule, RulesSorted]
  | cons y t ih =>
    simp only [RulesSorted, List.pairwise_cons] at h
    obtain ⟨hy, ht⟩ := h
    simp only [insertRule]
    split
    · rename_i hlt
      simp only [RulesSorted, List.pairwise_cons]
      refine ⟨?_, ih ht⟩
      intro z hz
      rcases mem_insertRule.1 hz with rfl | hz
      · exact swo_keyLt.asymm _ _ hlt
      · exact hy z hz
    · rename_i hlt
      have hlt : keyLt y.buildCompareKey x.buildCompareKey = false := by simpa using hlt
      simp only [RulesSorted, List.pairwise_cons]
      refine ⟨?_, hy, ht⟩
      intro z hz
      rcases List.mem_cons.1 hz with rfl | hz
      · exact hlt
      · exact swo_keyLt.negtrans _ _ _ hlt (hy z hz)

theorem sortRules_sorted (l : List Rule) : RulesSorted (sortRules l) := by
  induction l with
  | nil => simp [sortRules, RulesSorted]
  | cons x t ih => exact insertRule_sorted ih

/-- in `build_compare_key` order an alias rule never precedes a non-alias rule -/
theorem sorted_alias_last {l1 l2 : List Rule} {x y : Rule} (h : RulesSorted (l1 ++ x :: l2)) (hy : y ∈ l2)
    (hx : x.alias = true) : y.alias = true := by
  have h2 := (List.pairwise_append.1 h).2.1
  have := (List.pairwise_cons.1 h2).1 y hy
  cases hya : y.alias with
  | true => rfl
  | false =>
    exfalso
    simp [keyLt, Rule.buildCompareKey, hx, hya] at this

/-- `_partial_build` (no host matching) returns the FIRST suitable rule's URL -/
theorem partialBuild1_first {cfg : MapCfg} {a : Adapter} {values : List (Str × Value)} {method : Option Str} {au : Bool}
    (hhm : cfg.hostMatching = false) : ∀ {cands : List Rule} {d u : Str} {w : Bool},
    partialBuild1 cfg a cands values method au none = .ok (some (d, u, w)) →
    ∃ l1 r l2, cands = l1 ++ r :: l2 ∧ (∀ x ∈ l1, x.suitableFor values method = false) ∧
      r.suitableFor values method = true ∧ r.build cfg values au = .ok (d, u) := by
  intro cands
  induction cands with
  | nil => intro d u w h; simp [partialBuild1] at h
  | cons r t ih =>
    intro d u w h
    simp only [partialBuild1] at h
    split at h
    · rename_i hs
      split at h
      · cases h
      · rename_i d' u' hb
        simp only [hhm, Bool.false_eq_true, if_false, Except.ok.injEq, Option.some.injEq, Prod.mk.injEq] at h
        obtain ⟨rfl, rfl, _⟩ := h
        exact ⟨[], r, t, rfl, by simp, hs, hb⟩
    · rename_i hs
      obtain ⟨l1, r', l2, hc, hl1, hs', hb⟩ := ih h
      refine ⟨r :: l1, r', l2, by simp [hc], ?_, hs', hb⟩
      intro x hx
      rcases List.mem_cons.1 hx with rfl | hx
      · simpa using hs
      · exact hl1 x hx

/-- when a non-alias rule of the endpoint is suitable, `build()` does not take an alias rule -/
theorem build_prefers_canonical {cfg : MapCfg} {a : Adapter} {rules : List Rule} {ep : Str} {values : List (Str × Value)}
    {mth : Str} {au : Bool} (hhm : cfg.hostMatching = false) {d u : Str} {w : Bool}
    (h : partialBuild cfg a rules ep values (some mth) au = .ok (some (d, u, w)))
    (hcanon : ∃ rc ∈ rules, rc.endpoint = ep ∧ rc.alias = false ∧ rc.suitableFor values (some mth) = true) :
    ∃ r0 ∈ rules, r0.endpoint = ep ∧ r0.alias = false ∧ r0.suitableFor values (some mth) = true ∧
      r0.build cfg values au = .ok (d, u) := by
  simp only [partialBuild] at h
  obtain ⟨l1, r0, l2, hc, hl1, hs, hb⟩ := partialBuild1_first hhm h
  have hmem : r0 ∈ rulesByEndpoint rules ep := by rw [hc]; simp
  simp only [rulesByEndpoint, mem_sortRules, List.mem_filter, beq_iff_eq] at hmem
  refine ⟨r0, hmem.1, hmem.2, ?_, hs, hb⟩
  obtain ⟨rc, hrc, hep, hal, hsu⟩ := hcanon
  have hrcm : rc ∈ rulesByEndpoint rules ep := by
    simp only [rulesByEndpoint, mem_sortRules, List.mem_filter, beq_iff_eq]; exact ⟨hrc, hep⟩
  rw [hc] at hrcm
  rcases List.mem_append.1 hrcm with hin | hin
  · rw [hl1 rc hin] at hsu; cases hsu
  · rcases List.mem_cons.1 hin with heq | hin
    · rw [← heq]; exact hal
    · cases h0 : r0.alias with
      | false => rfl
      | true =>
        have hsorted : RulesSorted (l1 ++ r0 :: l2) := by rw [← hc]; exact sortRules_sorted _
        have := sorted_alias_last hsorted hin h0
        rw [hal] at this; cases this

end Wz.Routing

namespace Wz.Routing

theorem adapterBuild_ok_inv {cfg : MapCfg} {a : Adapter} {rules : List Rule} {ep : Str} {values : List (Str × Value)}
    {method : Option Str} {fe au : Bool} {u : Str} (h : adapterBuild cfg a rules ep values method fe au = .ok u) :
    ∃ d path w, partialBuild cfg a rules ep values method au = .ok (some (d, path, w)) := by
  simp only [adapterBuild] at h
  split at h
  · cases h
  · cases h
  · rename_i d path w hp
    exact ⟨d, path, w, hp⟩

def SMResult.isAlias : SMResult → Bool
  | .aliasRedirect .. => true
  | _ => false

/-- index and values of the last outcome of a redirect chain when it is a match -/
def finalMatch (l : List Outcome) : Option (Nat × List (Str × Value)) :=
  match l.getLast? with
  | some (.matched r vals) => some (r.idx, vals)
  | _ => none

end Wz.Routing
