import WzVerif.Lemmas.Http
set_option linter.unusedSimpArgs false
namespace Wz.Http
open Wz

/-- does the text contain the literal `%22`? -/
def hasPct22 : Str → Bool
  | x :: y :: z :: t => (x == '%' && y == '2' && z == '2') || hasPct22 (y :: z :: t)
  | _ => false

theorem replace3_id (v : Str) (h : hasPct22 v = false) : replace3 '%' '2' '2' ['"'] v = v := by
  fun_induction hasPct22 v with
  | case1 x y z t ih =>
    simp only [Bool.or_eq_false_iff] at h
    rw [replace3]
    simp only [h.1, Bool.false_eq_true, if_false]
    rw [ih h.2]
  | case2 l hl =>
    unfold replace3
    split
    · next x y z t => exact absurd rfl (hl x y z t)
    · rfl

theorem scanQuoted_escaped (v rest acc : Str) :
    scanQuoted (escapeDq v ++ '"' :: rest) acc = some (('"' :: ((escapeDq v).reverse ++ acc)).reverse, rest) := by
  induction v generalizing acc with
  | nil => simp [escapeDq_nil, scanQuoted]
  | cons c t ih =>
    rw [escapeDq_cons]
    by_cases h1 : c = '\\'
    · subst h1
      simp [escUnit, scanQuoted, ih]
    · by_cases h2 : c = '"'
      · subst h2
        simp [escUnit, scanQuoted, ih]
      · simp only [escUnit, h1, h2, if_false, List.cons_append, List.nil_append]
        rw [scanQuoted.eq_def]
        simp [h1, h2, ih]


theorem isKeyCh_eq (c : Char) : isKeyCh c = isToken c := by
  have h1 : Gen.Http.paramKeyCls = Gen.Http.tokenTbl := by decide +kernel
  have h2 : Gen.Http.paramKeyHigh = Gen.Http.tokenHigh := by decide
  simp [isKeyCh, isToken, h1, h2]

theorem isTokValCh_eq (c : Char) : isTokValCh c = isToken c := by
  have h1 : Gen.Http.paramTokCls = Gen.Http.tokenTbl := by decide +kernel
  have h2 : Gen.Http.paramTokHigh = Gen.Http.tokenHigh := by decide
  simp [isTokValCh, isToken, h1, h2]

theorem isKeyCh_fun : isKeyCh = isToken := funext isKeyCh_eq
theorem isTokValCh_fun : isTokValCh = isToken := funext isTokValCh_eq

theorem takeWhile_stop {p : Char → Bool} {k : Str} {d : Char} {x : Str}
    (hk : k.all p = true) (hd : p d = false) :
    (k ++ d :: x).takeWhile p = k ∧ (k ++ d :: x).dropWhile p = d :: x := by
  induction k with
  | nil => simp [hd]
  | cons a t ih =>
    simp only [List.all_cons, Bool.and_eq_true] at hk
    have := ih hk.2
    simp [List.takeWhile_cons, List.dropWhile_cons, hk.1, this]

theorem takeWhile_all {p : Char → Bool} {k : Str} (hk : k.all p = true) :
    k.takeWhile p = k ∧ k.dropWhile p = [] := by
  induction k with
  | nil => simp
  | cons a t ih =>
    simp only [List.all_cons, Bool.and_eq_true] at hk
    have := ih hk.2
    simp [List.takeWhile_cons, List.dropWhile_cons, hk.1, this]

/-- what may follow a parameter in the dumped header: nothing, or the `;` of the next one -/
def SegEnd (r : Str) : Prop := r = [] ∨ ∃ x, r = ';' :: x

theorem isToken_semi : isToken ';' = false := by decide
theorem isToken_eq : isToken '=' = false := by decide
theorem isToken_dq : isToken '"' = false := by decide

theorem takeWhile_token_segEnd {v r : Str} (hv : v.all isToken = true) (hr : SegEnd r) :
    (v ++ r).takeWhile isToken = v := by
  rcases hr with rfl | ⟨x, rfl⟩
  · simp [(takeWhile_all hv).1]
  · exact (takeWhile_stop hv isToken_semi).1

theorem afterSemi_append {v r : Str} (hv : ';' ∉ v) : afterSemi? (v ++ r) = afterSemi? r := by
  unfold afterSemi?
  have : (v ++ r).dropWhile (· != ';') = r.dropWhile (· != ';') := by
    induction v with
    | nil => rfl
    | cons a t ih =>
      have ha : a ≠ ';' := fun e => hv (by simp [e])
      have ht : ';' ∉ t := fun e => hv (by simp [e])
      simp [List.dropWhile_cons, ha, ih ht]
  rw [this]

theorem isToken_ne_semi {c : Char} (h : isToken c = true) : c ≠ ';' := by
  intro e; subst e; simp [isToken_semi] at h

theorem token_no_semi {v : Str} (hv : v.all isToken = true) : ';' ∉ v := by
  intro hm
  exact isToken_ne_semi ((List.all_eq_true.mp hv) _ hm) rfl

def seg (kv : Str × Str) : Str := kv.1 ++ '=' :: quoteHeaderValue kv.2

def OptKeyOk (k : Str) : Bool := KeyOk k && (pyLower k == k)

theorem optKeyOk_keyOk {k : Str} (h : OptKeyOk k = true) : KeyOk k = true := by
  simp [OptKeyOk] at h; exact h.1

theorem optKeyOk_lower {k : Str} (h : OptKeyOk k = true) : pyLower k = k := by
  simp [OptKeyOk] at h; exact h.2

theorem quote_cases (v : Str) :
    (v ≠ [] ∧ v.all isToken = true ∧ quoteHeaderValue v = v) ∨
    (quoteHeaderValue v = '"' :: (escapeDq v ++ ['"'])) := by
  unfold quoteHeaderValue
  by_cases h0 : v.isEmpty = true
  · right
    cases v with
    | nil => simp [escapeDq_nil]
    | cons _ _ => simp at h0
  · by_cases h1 : v.all isToken = true
    · left
      refine ⟨fun e => h0 (by simp [e]), h1, ?_⟩
      simp [h0, h1]
    · right; simp [h0, h1]

theorem optStep_seg (k v r : Str) (hk : OptKeyOk k = true) (hr : SegEnd r) :
    ∃ r1, optStep (seg (k, v) ++ r) = (r1, some (k, quoteHeaderValue v)) ∧ afterSemi? r1 = afterSemi? r := by
  have hK := optKeyOk_keyOk hk
  have hall := keyOk_all hK
  have hne := keyOk_ne_nil hK
  have hkne : k.isEmpty = false := by
    cases k with
    | nil => exact absurd rfl hne
    | cons _ _ => rfl
  unfold optStep seg
  simp only [isKeyCh_fun, isTokValCh_fun, List.append_assoc, List.cons_append]
  have h1 := takeWhile_stop (x := quoteHeaderValue v ++ r) hall isToken_eq
  rw [h1.1, h1.2]
  simp only [hkne, optKeyOk_lower hk]
  rcases quote_cases v with ⟨hv0, hv1, hq⟩ | hq
  · rw [hq, takeWhile_token_segEnd hv1 hr]
    have : v.isEmpty = false := by
      cases v with
      | nil => exact absurd rfl hv0
      | cons _ _ => rfl
    simp only [this, Bool.not_false, if_true]
    exact ⟨_, rfl, afterSemi_append (token_no_semi hv1)⟩
  · rw [hq]
    simp only [List.cons_append, List.takeWhile_cons, isToken_dq, Bool.false_eq_true, if_false,
      List.isEmpty_nil, Bool.not_true]
    rw [List.append_assoc]
    simp only [List.cons_append, List.nil_append]
    rw [scanQuoted_escaped]
    refine ⟨r, ?_, rfl⟩
    simp

end Wz.Http
