/-
Helper lemmas for C17: `Accept.to_header()` followed by `parse_accept_header` (normal form).
`to_header` writes `value` or `value;q=<repr(float)>` joined by commas — exactly the element grammar
of Lemmas/AcceptText.lean without parameters.
-/
import WzVerif.Lemmas.AcceptText
namespace Wz.Accept
open Wz

def isTokenB (s : Str) : Bool := !s.isEmpty && s.all isTokChar

theorem isTokenB_iff (s : Str) : isTokenB s = true ↔ IsToken s := by
  unfold isTokenB IsToken
  cases s with
  | nil => simp
  | cons c t => simp

/-- qualities equivalent as numbers -/
def Q.equiv (a b : Q) : Bool := a.le b && b.le a

/-- the quality prints (if it is not 1) as a token that `_q_value_re` and the range check accept and
that denotes the same number -/
def ReprOk (q : Q) : Bool :=
  q.isOne || (match qRepr q with
    | some r => isTokenB r && (match parseQ r with
      | some q' => Q.equiv q' q
      | none => false)
    | none => false)

/-- the header element `to_header` writes for an item -/
def elemOf (it : Str × Q) : Elem := if it.2.isOne then ⟨it.1, [], none⟩ else ⟨it.1, [], qRepr it.2⟩

/-- what the element parses back to -/
def reparsed (it : Str × Q) : Str × Q :=
  (it.1, if it.2.isOne then Q.one else ((qRepr it.2).bind parseQ).getD Q.zero)

theorem reprOk_cases {q : Q} (h : ReprOk q = true) :
    q.isOne = true ∨ (q.isOne = false ∧ ∃ r q', qRepr q = some r ∧ IsToken r ∧ parseQ r = some q' ∧
      Q.equiv q' q = true) := by
  unfold ReprOk at h
  cases h1 : q.isOne with
  | true => exact Or.inl rfl
  | false =>
    right
    refine ⟨rfl, ?_⟩
    rw [h1] at h
    simp only [Bool.false_or] at h
    cases hr : qRepr q with
    | none => rw [hr] at h; cases h
    | some r =>
      rw [hr] at h
      simp only [Bool.and_eq_true] at h
      cases hp : parseQ r with
      | none => rw [hp] at h; simp at h
      | some q' =>
        rw [hp] at h
        exact ⟨r, q', rfl, (isTokenB_iff r).mp h.1, hp, h.2⟩

theorem itemHeader_elem (it : Str × Q) (h : ReprOk it.2 = true) :
    itemHeader it = some (elemOf it).text := by
  rcases reprOk_cases h with h1 | ⟨h1, r, q', hr, _, _, _⟩
  · simp [itemHeader, elemOf, h1, Elem.text, Elem.opts, semiParams]
  · simp [itemHeader, elemOf, h1, hr, Elem.text, Elem.opts, semiParams, qKey]

theorem elemOf_wf (it : Str × Q) (hv : IsValueText it.1) (h : ReprOk it.2 = true) : (elemOf it).WF := by
  rcases reprOk_cases h with h1 | ⟨h1, r, q', hr, htok, _, _⟩
  · simp only [elemOf, h1, ↓reduceIte]
    exact ⟨hv, by simp, by simp, by simp⟩
  · simp only [elemOf, h1, Bool.false_eq_true, ↓reduceIte, hr]
    refine ⟨hv, by simp, by simp, ?_⟩
    intro qs hqs
    simp only [Option.some.injEq] at hqs
    subst hqs; exact htok

theorem elemOf_item (it : Str × Q) (h : ReprOk it.2 = true) : (elemOf it).item = some (reparsed it) := by
  rcases reprOk_cases h with h1 | ⟨h1, r, q', hr, _, hp, _⟩
  · simp [elemOf, h1, Elem.item, Elem.itemText, reparsed]
  · simp [elemOf, h1, hr, Elem.item, Elem.itemText, reparsed, hp]

theorem reparsed_equiv (it : Str × Q) (h : ReprOk it.2 = true) :
    (reparsed it).1 = it.1 ∧ Q.equiv (reparsed it).2 it.2 = true := by
  refine ⟨rfl, ?_⟩
  rcases reprOk_cases h with h1 | ⟨h1, r, q', hr, _, hp, he⟩
  · simp only [reparsed, h1, ↓reduceIte]
    unfold Q.isOne at h1
    unfold Q.equiv
    simp only [Bool.and_eq_true] at h1 ⊢
    exact ⟨h1.2, h1.1⟩
  · simp [reparsed, h1, hr, hp, he]

theorem intercalate_headerText (es : List Elem) :
    [','].intercalate (es.map Elem.text) = headerText es := by
  induction es with
  | nil => rfl
  | cons e rest ih =>
    cases rest with
    | nil => simp [headerText, List.intercalate]
    | cons e' rest' =>
      have : [','].intercalate ((e :: e' :: rest').map Elem.text) =
          e.text ++ ',' :: [','].intercalate ((e' :: rest').map Elem.text) := by
        simp [List.intercalate]
      rw [this, ih]
      rfl

theorem mapM_itemHeader (self : List (Str × Q)) (h : ∀ it ∈ self, ReprOk it.2 = true) :
    self.mapM itemHeader = some (self.map fun it => (elemOf it).text) := by
  induction self with
  | nil => rfl
  | cons it rest ih =>
    rw [List.mapM_cons, itemHeader_elem it (h it (by simp)), ih (fun x hx => h x (by simp [hx]))]
    rfl

theorem toHeader_headerText (self : List (Str × Q)) (h : ∀ it ∈ self, ReprOk it.2 = true) :
    toHeader self = some (headerText (self.map elemOf)) := by
  unfold toHeader
  rw [mapM_itemHeader self h]
  simp only [Option.map_some, Option.some.injEq]
  rw [← intercalate_headerText, List.map_map]
  rfl

theorem filterMap_elemOf (self : List (Str × Q)) (h : ∀ it ∈ self, ReprOk it.2 = true) :
    (self.map elemOf).filterMap Elem.item = self.map reparsed := by
  induction self with
  | nil => rfl
  | cons it rest ih =>
    simp only [List.map_cons, List.filterMap_cons, elemOf_item it (h it (by simp))]
    rw [ih (fun x hx => h x (by simp [hx]))]

end Wz.Accept
