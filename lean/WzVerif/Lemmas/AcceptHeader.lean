/-
Helper lemmas for C17: `Accept.to_header()` followed by `parse_accept_header` (normal form).
`to_header` writes `value` or `value;q=<repr(float)>` joined by commas — exactly the element grammar
of Lemmas/AcceptText.lean without parameters.
-/
import WzVerif.Lemmas.AcceptText
namespace Wz.Accept
open Wz

def isTokenB (s : Str) : Bool := !s.isEmpty && s.all isTokChar

theorem isTokenB_iff (s : Str) : isTokenB s = true ↔ IsToken s := by
  unfold isTokenB IsToken
  cases s with
  | nil => simp
  | cons c t => simp

/-- qualities equivalent as numbers -/
def Q.equiv (a b : Q) : Bool := a.le b && b.le a

/-- the quality prints (if it is not 1) as a token that `_q_value_re` and the range check accept and
that denotes the same number -/
def ReprOk (q : Q) : Bool :=
  q.isOne || (match qRepr q with
    | some r => isTokenB r && (match parseQ r with
      | some q' => Q.equiv q' q
      | none => false)
    | none => false)

/-- the header element `to_header` writes for an item -/
def elemOf (it : Str × Q) : Elem := if it.2.isOne then ⟨it.1, [], none⟩ else ⟨it.1, [], qRepr it.2⟩

/-- what the element parses back to -/
def reparsed (it : Str × Q) : Str × Q :=
  (it.1, if it.2.isOne then Q.one else ((qRepr it.2).bind parseQ).getD Q.zero)

theorem reprOk_cases {q : Q} (h : ReprOk q = true) :
    q.isOne = true ∨ (q.isOne = false ∧ ∃ r q', qRepr q = some r ∧ IsToken r ∧ parseQ r = some q' ∧
      Q.equiv q' q = true) := by
  unfold ReprOk at h
  cases h1 : q.isOne with
  | true => exact Or.inl rfl
  | false =>
    right
    refine ⟨rfl, ?_⟩
    rw [h1] at h
    simp only [Bool.false_or] at h
    cases hr : qRepr q with
    | none => rw [hr] at h; cases h
    | some r =>
      rw [hr] at h
      simp only [Bool.and_eq_true] at h
      cases hp : parseQ r with
      | none => rw [hp] at h; simp at h
      | some q' =>
        rw [hp] at h
        exact ⟨r, q', rfl, (isTokenB_iff r).mp h.1, hp, h.2⟩

theorem itemHeader_elem (it : Str × Q) (h : ReprOk it.2 = true) :
    itemHeader it = some (elemOf it).text := by
  rcases reprOk_cases h with h1 | ⟨h1, r, q', hr, _, _, _⟩
  · simp [itemHeader, elemOf, h1, Elem.text, Elem.opts, semiParams]
  · simp [itemHeader, elemOf, h1, hr, Elem.text, Elem.opts, semiParams, qKey]

theorem elemOf_wf (it : Str × Q) (hv : IsValueText it.1) (h : ReprOk it.2 = true) : (elemOf it).WF := by
  rcases reprOk_cases h with h1 | ⟨h1, r, q', hr, htok, _, _⟩
  · simp only [elemOf, h1, ↓reduceIte]
    exact ⟨hv, by simp, by simp, by simp⟩
  · simp only [elemOf, h1, Bool.false_eq_true, ↓reduceIte, hr]
    refine ⟨hv, by simp, by simp, ?_⟩
    intro qs hqs
    simp only [Option.some.injEq] at hqs
    subst hqs; exact htok

theorem elemOf_item (it : Str × Q) (h : ReprOk it.2 = true) : (elemOf it).item = some (reparsed it) := by
  rcases reprOk_cases h with h1 | ⟨h1, r, q', hr, _, hp, _⟩
  · simp [elemOf, h1, Elem.item, Elem.itemText, reparsed]
  · simp [elemOf, h1, hr, Elem.item, Elem.itemText, reparsed, hp]

theorem reparsed_equiv (it : Str × Q) (h : ReprOk it.2 = true) :
    (reparsed it).1 = it.1 ∧ Q.equiv (reparsed it).2 it.2 = true := by
  refine ⟨rfl, ?_⟩
  rcases reprOk_cases h with h1 | ⟨h1, r, q', hr, _, hp, he⟩
  · simp only [reparsed, h1, ↓reduceIte]
    unfold Q.isOne at h1
    unfold Q.equiv
    simp only [Bool.and_eq_true] at h1 ⊢
    exact ⟨h1.2, h1.1⟩
  · simp [reparsed, h1, hr, hp, he]

theorem intercalate_headerText (es : List Elem) :
    [','].intercalate (es.map Elem.text) = headerText es := by
  induction es with
  | nil => rfl
  | cons e rest ih =>
    cases rest with
    | nil => simp [headerText, List.intercalate]
    | cons e' rest' =>
      have : [','].intercalate ((e :: e' :: rest').map Elem.text) =
          e.text ++ ',' :: [','].intercalate ((e' :: rest').map Elem.text) := by
        simp [List.intercalate]
      rw [this, ih]
      rfl

theorem mapM_itemHeader (self : List (Str × Q)) (h : ∀ it ∈ self, ReprOk it.2 = true) :
    self.mapM itemHeader = some (self.map fun it => (elemOf it).text) := by
  induction self with
  | nil => rfl
  | cons it rest ih =>
    rw [List.mapM_cons, itemHeader_elem it (h it (by simp)), ih (fun x hx => h x (by simp [hx]))]
    rfl

theorem toHeader_headerText (self : List (Str × Q)) (h : ∀ it ∈ self, ReprOk it.2 = true) :
    toHeader self = some (headerText (self.map elemOf)) := by
  unfold toHeader
  rw [mapM_itemHeader self h]
  simp only [Option.map_some, Option.some.injEq]
  rw [← intercalate_headerText, List.map_map]
  rfl

theorem filterMap_elemOf (self : List (Str × Q)) (h : ∀ it ∈ self, ReprOk it.2 = true) :
    (self.map elemOf).filterMap Elem.item = self.map reparsed := by
  induction self with
  | nil => rfl
  | cons it rest ih =>
    simp only [List.map_cons, List.filterMap_cons, elemOf_item it (h it (by simp))]
    rw [ih (fun x hx => h x (by simp [hx]))]

end Wz.Accept

/-! ### every quality in `[1e-4, 1]` (and 0) reprints: the general theorem -/

namespace Wz.Accept
open Wz

theorem norm_go_spec (n s : Nat) :
    (Q.norm.go n s).num * 10 ^ s = n * 10 ^ (Q.norm.go n s).scale ∧
    ((Q.norm.go n s).scale > 0 → (Q.norm.go n s).num % 10 ≠ 0) ∧ (Q.norm.go n s).scale ≤ s := by
  induction s generalizing n with
  | zero => simp [Q.norm.go]
  | succ s ih =>
    unfold Q.norm.go
    by_cases h : (n % 10 == 0) = true
    · simp only [h, ↓reduceIte]
      obtain ⟨h1, h2, h3⟩ := ih (n / 10)
      refine ⟨?_, h2, by omega⟩
      have hdiv : n / 10 * 10 = n := by
        have : n % 10 = 0 := by simpa using h
        omega
      generalize Q.norm.go (n / 10) s = r at h1
      calc r.num * 10 ^ (s + 1) = (r.num * 10 ^ s) * 10 := by rw [Nat.pow_succ, Nat.mul_assoc]
        _ = (n / 10 * 10 ^ r.scale) * 10 := by rw [h1]
        _ = (n / 10 * 10) * 10 ^ r.scale := by rw [Nat.mul_right_comm]
        _ = n * 10 ^ r.scale := by rw [hdiv]
    · have h' : (n % 10 == 0) = false := by simpa using h
      simp only [h', Bool.false_eq_true, ↓reduceIte]
      refine ⟨by simp, fun _ => by simpa using h, by simp⟩

theorem norm_spec (q : Q) :
    q.norm.num * 10 ^ q.scale = q.num * 10 ^ q.norm.scale ∧
    (q.norm.scale > 0 → q.norm.num % 10 ≠ 0) := by
  obtain ⟨h1, h2, _⟩ := norm_go_spec q.num q.scale
  exact ⟨h1, h2⟩

theorem digitsVal_eq_ofDigitChars (l : Str) : digitsVal l = Nat.ofDigitChars 10 l 0 := rfl

theorem isDigit_isDigitA {c : Char} (h : c.isDigit = true) : isDigitA c = true := by
  simp only [Char.isDigit, Bool.and_eq_true, decide_eq_true_eq] at h
  simp only [isDigitA, Bool.and_eq_true, decide_eq_true_eq]
  exact ⟨h.1, h.2⟩

theorem isDigit_isTokChar {c : Char} (h : c.isDigit = true) : isTokChar c = true := by
  simp [isTokChar, Char.isAlphanum, h]

theorem toDigits_digits (n : Nat) : ∀ c ∈ Nat.toDigits 10 n, c.isDigit = true :=
  fun _ hc => Nat.isDigit_of_mem_toDigits (by decide) (by decide) hc

/-- the decimal text of a quality strictly between 0 and 1 whose normal form has `scale` fraction
digits: `0.` followed by the numerator left-padded with zeros -/
theorem parseQ_padded (num scale : Nat) (hs : 0 < scale) (hlt : num < 10 ^ scale) :
    parseQ ('0' :: '.' :: padZeros scale (toString num).toList) = some ⟨num, scale⟩ ∧
    isTokenB ('0' :: '.' :: padZeros scale (toString num).toList) = true := by
  have hd : (toString num).toList = Nat.toDigits 10 num := by simp
  have hlen : (Nat.toDigits 10 num).length ≤ scale := (Nat.length_toDigits_le_iff (by decide) hs).mpr hlt
  have hfr : ∀ c ∈ padZeros scale (toString num).toList, c.isDigit = true := by
    intro c hc
    rw [hd] at hc
    simp only [padZeros, List.mem_append, List.mem_replicate] at hc
    rcases hc with ⟨_, rfl⟩ | hc
    · decide
    · exact toDigits_digits num c hc
  have hfl : (padZeros scale (toString num).toList).length = scale := by
    rw [hd]; simp [padZeros]; omega
  have hval : digitsVal (['0'] ++ padZeros scale (toString num).toList) = num := by
    rw [hd, digitsVal_eq_ofDigitChars, padZeros, Nat.ofDigitChars_append, Nat.ofDigitChars_append]
    have e0 : Nat.ofDigitChars 10 ['0'] 0 = 0 := by decide
    rw [e0, Nat.ofDigitChars_replicate_zero, Nat.mul_zero, Nat.ofDigitChars_ten_toDigits]
  constructor
  · apply parseQ_complete
    refine ⟨false, ['0'], padZeros scale (toString num).toList, by simp, ?_, ?_, ?_, ?_, ?_, by simp⟩
    · intro c hc; simp at hc; subst hc; decide
    · intro c hc; exact isDigit_isDigitA (hfr c hc)
    · have hne : (padZeros scale (toString num).toList).isEmpty = false := by
        cases h : padZeros scale (toString num).toList with
        | nil => rw [h] at hfl; simp at hfl; omega
        | cons _ _ => rfl
      simp only [Bool.false_eq_true, ↓reduceIte, List.nil_append, hne, List.cons_append]
    · rw [hval, hfl]
    · show num ≤ 10 ^ scale
      omega
  · rw [isTokenB_iff]
    refine ⟨by simp, ?_⟩
    intro c hc
    rcases List.mem_cons.mp hc with rfl | hc
    · decide
    · rcases List.mem_cons.mp hc with rfl | hc
      · decide
      · exact isDigit_isTokChar (hfr c hc)

/-- **General reprint theorem.** Every quality `q ≤ 1` that `to_header` can print in positional
notation (`qRepr q ≠ none`: zero, or at least `1e-4`) prints as a token that `_q_value_re` and the
range check accept and that denotes the same number. -/
theorem reprOk_of_le_one (q : Q) (hle : q.le Q.one = true) (hr : (qRepr q).isSome = true) :
    ReprOk q = true := by
  unfold ReprOk
  cases hone : q.isOne with
  | true => rfl
  | false =>
    simp only [Bool.false_or]
    obtain ⟨hv, hmod⟩ := norm_spec q
    have hle' : q.num ≤ 10 ^ q.scale := by simpa [Q.le, Q.one] using hle
    -- the normal form is at most one as well
    have hnle : q.norm.num ≤ 10 ^ q.norm.scale := by
      have h1 : q.norm.num * 10 ^ q.scale ≤ 10 ^ q.norm.scale * 10 ^ q.scale := by
        rw [hv, Nat.mul_comm]; exact Nat.mul_le_mul_left _ hle'
      exact Nat.le_of_mul_le_mul_right h1 (Nat.pow_pos (by decide))
    unfold qRepr at hr ⊢
    by_cases h0 : (q.norm.num == 0) = true
    · -- zero prints as 0.0
      simp only [h0, ↓reduceIte]
      have hz : q.norm.num = 0 := by simpa using h0
      have hq0 : q.num = 0 := by
        rw [hz] at hv
        have : q.num * 10 ^ q.norm.scale = 0 := by omega
        rcases Nat.mul_eq_zero.mp this with h | h
        · exact h
        · exact absurd h (Nat.pos_iff_ne_zero.mp (Nat.pow_pos (by decide)))
      have hp : parseQ ['0', '.', '0'] = some ⟨0, 1⟩ := by decide
      have ht : isTokenB ['0', '.', '0'] = true := by decide
      simp [hp, ht, Q.equiv, Q.le, hq0]
    · have h0' : (q.norm.num == 0) = false := by simpa using h0
      simp only [h0', Bool.false_eq_true, ↓reduceIte] at hr ⊢
      by_cases hs : (q.norm.scale == 0) = true
      · -- scale 0 and not zero: the quality is 1, excluded
        exfalso
        have hs0 : q.norm.scale = 0 := by simpa using hs
        have hn1 : q.norm.num = 1 := by
          have : q.norm.num ≠ 0 := by simpa using h0'
          rw [hs0] at hnle; simp at hnle; omega
        rw [hn1, hs0] at hv
        simp only [Nat.one_mul, Nat.pow_zero, Nat.mul_one] at hv
        have : q.isOne = true := by
          simp [Q.isOne, Q.le, Q.one, hv]
        rw [this] at hone; cases hone
      · have hs' : (q.norm.scale == 0) = false := by simpa using hs
        simp only [hs', Bool.false_eq_true, ↓reduceIte] at hr ⊢
        have hspos : 0 < q.norm.scale := by
          have : q.norm.scale ≠ 0 := by simpa using hs'
          omega
        by_cases hx : (decide (q.norm.scale > 4) && decide (q.norm.num * 10000 < 10 ^ q.norm.scale)) = true
        · simp [hx] at hr
        · have hx' : (decide (q.norm.scale > 4) && decide (q.norm.num * 10000 < 10 ^ q.norm.scale)) = false := by
            simpa using hx
          simp only [hx', Bool.false_eq_true, ↓reduceIte]
          have hlt : q.norm.num < 10 ^ q.norm.scale := by
            rcases Nat.lt_or_ge q.norm.num (10 ^ q.norm.scale) with h | h
            · exact h
            · exfalso
              have heq : q.norm.num = 10 ^ q.norm.scale := by omega
              have := hmod hspos
              rw [heq] at this
              obtain ⟨k, hk⟩ : ∃ k, q.norm.scale = k + 1 := ⟨q.norm.scale - 1, by omega⟩
              rw [hk, Nat.pow_succ] at this
              simp at this
          obtain ⟨hp, ht⟩ := parseQ_padded q.norm.num q.norm.scale hspos hlt
          simp only [hp, ht, Bool.true_and]
          simp only [Q.equiv, Q.le, Bool.and_eq_true, decide_eq_true_eq]
          constructor <;> omega

/-- … and `to_header` leaves positional notation only for a non-zero quality below `1e-4` -/
theorem qRepr_none_iff (q : Q) :
    qRepr q = none ↔ q.norm.num ≠ 0 ∧ 4 < q.norm.scale ∧ q.norm.num * 10000 < 10 ^ q.norm.scale := by
  unfold qRepr
  by_cases h0 : (q.norm.num == 0) = true
  · have : q.norm.num = 0 := by simpa using h0
    simp [h0, this]
  · have h0' : (q.norm.num == 0) = false := by simpa using h0
    have hne : q.norm.num ≠ 0 := by simpa using h0'
    simp only [h0', Bool.false_eq_true, ↓reduceIte]
    by_cases hs : (q.norm.scale == 0) = true
    · have : q.norm.scale = 0 := by simpa using hs
      simp [hs, this]
    · have hs' : (q.norm.scale == 0) = false := by simpa using hs
      simp only [hs', Bool.false_eq_true, ↓reduceIte]
      by_cases hx : (decide (q.norm.scale > 4) && decide (q.norm.num * 10000 < 10 ^ q.norm.scale)) = true
      · simp only [hx, ↓reduceIte, true_iff]
        simp only [Bool.and_eq_true, decide_eq_true_eq] at hx
        exact ⟨hne, hx.1, hx.2⟩
      · have hx' : (decide (q.norm.scale > 4) && decide (q.norm.num * 10000 < 10 ^ q.norm.scale)) = false := by
          simpa using hx
        simp only [hx', Bool.false_eq_true, ↓reduceIte, reduceCtorEq, false_iff]
        intro ⟨_, h1, h2⟩
        simp [h1, h2] at hx'

end Wz.Accept
