/-
`sansio.utils.get_current_url` on URL text (C15): what it assembles splits back into the expected
components, and what it quotes decodes back exactly. Core Lean only.
-/
import WzVerif.Lemmas.UrlTextUri
import WzVerif.Model.UrlEnviron
namespace Wz.Url
open Wz

/-! ### quoting with a safe set that does not contain `%` -/

theorem quoteBytes_chars (safe : Str) (B : Bytes) : ∀ c ∈ quoteBytes safe B, c = '%' ∨ Fixed safe c := by
  intro c hc
  obtain ⟨b, _, hb⟩ := List.mem_flatMap.mp hc
  unfold quoteByte at hb
  split at hb
  · rename_i hs
    have hlt : b.toNat < 128 := by
      simp only [isSafe, Bool.and_eq_true, decide_eq_true_eq] at hs; exact hs.1
    simp only [List.mem_singleton] at hb
    subst hb
    right
    refine ⟨by rw [char_toNat_ofNat_lt (by omega)]; exact hlt, ?_⟩
    rw [char_toNat_ofNat_lt (by omega), uint8_ofNat_toNat]; exact hs
  · have hbl := b.toNat_lt
    have hex : ∀ d, d < 16 → Fixed safe (hexU d) := by
      intro d hd
      have h1 := hexU_ascii d hd
      refine ⟨h1, ?_⟩
      simp only [isSafe, Bool.and_eq_true, decide_eq_true_eq, Bool.or_eq_true]
      rw [uint8_toNat_ofNat_lt (by omega)]
      exact ⟨h1, Or.inl (hexU_alwaysSafe d hd)⟩
    simp only [pct, List.mem_cons, List.mem_nil_iff, or_false] at hb
    rcases hb with rfl | rfl | rfl
    · exact Or.inl rfl
    · exact Or.inr (hex _ (by omega))
    · exact Or.inr (hex _ (Nat.mod_lt _ (by decide)))

theorem unquoteBytes_quoteBytes_all {safe : Str} (hp : isSafe safe 0x25 = false) : ∀ (B rest : Bytes),
    unquoteBytes (toBytes (quoteBytes safe B) ++ rest) = B ++ unquoteBytes rest
  | [], rest => by simp [quoteBytes, toBytes]
  | b :: B, rest => by
    simp only [quoteBytes, List.flatMap_cons, toBytes_append, List.append_assoc]
    have ih := unquoteBytes_quoteBytes_all hp B rest
    simp only [quoteBytes] at ih
    by_cases hs : isSafe safe b = true
    · have hq : quoteByte safe b = [Char.ofNat b.toNat] := by simp [quoteByte, hs]
      have hlt : b.toNat < 128 := by
        simp only [isSafe, Bool.and_eq_true, decide_eq_true_eq] at hs; exact hs.1
      have hb : b ≠ 0x25 := by intro e; rw [e, hp] at hs; cases hs
      rw [hq]
      have : toBytes [Char.ofNat b.toNat] = [b] := by
        simp [toBytes, char_toNat_ofNat_lt (show b.toNat < 256 by omega)]
      rw [this, List.singleton_append, unquoteBytes_cons_ne hb, ih]
      rfl
    · have hq : quoteByte safe b = pct b := by simp [quoteByte, hs]
      rw [hq, unquoteBytes_pct, ih]
      rfl

/-- with `%` outside the safe set, `unquote` inverts `quote` on EVERY text -/
theorem unquote_quote_all {safe : Str} (hp : isSafe safe 0x25 = false) (s : Str) :
    unquote (quote safe s) = s := by
  unfold quote
  rw [unquote_ascii (quoteBytes_ascii safe _)]
  have := unquoteBytes_quoteBytes_all hp (utf8Enc s) []
  simp only [List.append_nil, unquoteBytes] at this
  rw [this]
  exact decode_utf8Enc render (fun _ _ => rfl) s

theorem wfk_nil_quoteBytes_all {safe : Str} (hp : isSafe safe 0x25 = false) (Y : Str) : ∀ (B : Bytes),
    wfk [] (quoteBytes safe B ++ Y) = wfk [] Y
  | [] => rfl
  | b :: B => by
    have ih := wfk_nil_quoteBytes_all hp Y B
    simp only [quoteBytes, List.flatMap_cons, List.append_assoc] at ih ⊢
    by_cases hs : isSafe safe b = true
    · have hq : quoteByte safe b = [Char.ofNat b.toNat] := by simp [quoteByte, hs]
      have hlt : b.toNat < 128 := by
        simp only [isSafe, Bool.and_eq_true, decide_eq_true_eq] at hs; exact hs.1
      have hb : b ≠ 0x25 := by intro e; rw [e, hp] at hs; cases hs
      rw [hq]
      simp only [List.cons_append, List.nil_append]
      rw [wfk_cons_ne, ih]
      intro e
      apply hb
      have := congrArg Char.toNat e
      rw [char_toNat_ofNat_lt (by omega)] at this
      apply UInt8.toNat_inj.mp
      rw [this]; rfl
    · have hq : quoteByte safe b = pct b := by simp [quoteByte, hs]
      rw [hq, wfk_pct' (by simp [tbl]), ih]

/-! ### the safe sets of get_current_url (regenerated) -/

theorem cur_no_pct : isSafe Gen.UrlTables.curRootSafe 0x25 = false ∧
    isSafe Gen.UrlTables.curPathSafe 0x25 = false := by decide

theorem cur_path_ok : ∀ n, n < 128 →
    (isSafe Gen.UrlTables.curRootSafe (UInt8.ofNat n) = true →
      Char.ofNat n ≠ '?' ∧ Char.ofNat n ≠ '#' ∧ isTabCrLf (Char.ofNat n) = false) ∧
    (isSafe Gen.UrlTables.curPathSafe (UInt8.ofNat n) = true →
      Char.ofNat n ≠ '?' ∧ Char.ofNat n ≠ '#' ∧ isTabCrLf (Char.ofNat n) = false) ∧
    (isSafe Gen.UrlTables.curQuerySafe (UInt8.ofNat n) = true →
      Char.ofNat n ≠ '#' ∧ isTabCrLf (Char.ofNat n) = false) := by decide +kernel

theorem quoted_char_ok {safe : Str} {P : Char → Prop} (hpct : P '%')
    (tblP : ∀ n, n < 128 → isSafe safe (UInt8.ofNat n) = true → P (Char.ofNat n)) {B : Bytes} {c : Char}
    (hc : c ∈ quoteBytes safe B) : P c := by
  rcases quoteBytes_chars safe B c hc with rfl | h
  · exact hpct
  · exact fixed_transfer tblP h

/-- the path text `get_current_url` assembles -/
def curPathText (root path : Str) : Str :=
  quote Gen.UrlTables.curRootSafe (rstripSlash root) ++ '/' :: quote Gen.UrlTables.curPathSafe (lstripSlash path)

theorem rstripSlash_prefix (s : Str) : rstripSlash s <+: s := by
  unfold rstripSlash
  have := List.dropWhile_suffix (fun c => c == '/') (l := s.reverse)
  rw [← List.reverse_prefix] at this
  simpa using this

theorem curPathText_facts (root path : Str) (hroot : root = [] ∨ root.head? = some '/') :
    (curPathText root path).head? = some '/' ∧ '?' ∉ curPathText root path ∧ '#' ∉ curPathText root path ∧
    noTab (curPathText root path) ∧ wellFormed (curPathText root path) = true := by
  have hchars : ∀ c ∈ curPathText root path, c ≠ '?' ∧ c ≠ '#' ∧ isTabCrLf c = false := by
    intro c hc
    unfold curPathText at hc
    rcases List.mem_append.mp hc with hc | hc
    · exact quoted_char_ok (P := fun c => c ≠ '?' ∧ c ≠ '#' ∧ isTabCrLf c = false)
        ⟨by decide, by decide, by decide⟩ (fun n hn h => (cur_path_ok n hn).1 h) hc
    · rcases List.mem_cons.mp hc with rfl | hc
      · exact ⟨by decide, by decide, by decide⟩
      · exact quoted_char_ok (P := fun c => c ≠ '?' ∧ c ≠ '#' ∧ isTabCrLf c = false)
          ⟨by decide, by decide, by decide⟩ (fun n hn h => (cur_path_ok n hn).2.1 h) hc
  refine ⟨?_, fun hm => (hchars _ hm).1 rfl, fun hm => (hchars _ hm).2.1 rfl, fun c hc => (hchars c hc).2.2, ?_⟩
  · unfold curPathText
    cases hr : rstripSlash root with
    | nil => rfl
    | cons x xs =>
      have hpre := rstripSlash_prefix root
      rw [hr] at hpre
      obtain ⟨w, hw⟩ := hpre
      have hx : x = '/' := by
        rcases hroot with h | h
        · rw [h] at hw; cases hw
        · rw [← hw] at h; simpa using h
      subst hx
      have hfix : Fixed Gen.UrlTables.curRootSafe '/' := ⟨by decide, by decide⟩
      rw [quote_cons_fixed hfix]
      rfl
  · unfold curPathText wellFormed quote
    rw [wfk_nil_quoteBytes_all cur_no_pct.1, wfk_cons_ne (by decide)]
    have := wfk_nil_quoteBytes_all cur_no_pct.2 [] (utf8Enc (lstripSlash path))
    simpa [wfk] using this

/-! ### get_host -/

theorem endsWith_split {s suf : Str} (h : endsWith s suf = true) :
    s = s.take (s.length - suf.length) ++ suf := by
  unfold endsWith at h
  obtain ⟨t, ht⟩ := List.isPrefixOf_iff_prefix.mp h
  have hs : s = t.reverse ++ suf := by
    have := congrArg List.reverse ht
    simpa using this.symm
  have hl : s.length - suf.length = t.reverse.length := by rw [hs]; simp
  rw [hl]
  conv => lhs; rw [hs]
  rw [hs, List.take_left']
  simp

theorem endsWith_append (h suf : Str) : endsWith (h ++ suf) suf = true := by
  unfold endsWith
  simp [List.isPrefixOf_iff_prefix]

/-- `get_host` removes exactly the suffix `:80` (http, ws) resp. `:443` (https, wss) and nothing
else: the result is the host text with that suffix cut off, or the host text itself. -/
theorem getHost_spec (scheme host : Str) :
    (∃ suf, host = getHost scheme host ++ suf ∧
      (suf = [] ∨ ((scheme = "http".toList ∨ scheme = "ws".toList) ∧ suf = ":80".toList) ∨
        ((scheme = "https".toList ∨ scheme = "wss".toList) ∧ suf = ":443".toList))) ∧
    (∀ h, (scheme = "http".toList ∨ scheme = "ws".toList) → getHost scheme (h ++ ":80".toList) = h) ∧
    (∀ h, (scheme = "https".toList ∨ scheme = "wss".toList) → getHost scheme (h ++ ":443".toList) = h) := by
  refine ⟨?_, ?_, ?_⟩
  · unfold getHost
    split
    · rename_i hc
      simp only [Bool.and_eq_true, Bool.or_eq_true, beq_iff_eq] at hc
      exact ⟨":80".toList, by have := endsWith_split hc.2; simpa using this, Or.inr (Or.inl ⟨hc.1, rfl⟩)⟩
    · split
      · rename_i hc
        simp only [Bool.and_eq_true, Bool.or_eq_true, beq_iff_eq] at hc
        exact ⟨":443".toList, by have := endsWith_split hc.2; simpa using this, Or.inr (Or.inr ⟨hc.1, rfl⟩)⟩
      · exact ⟨[], by simp, Or.inl rfl⟩
  · intro h hs
    unfold getHost
    have hc : ((scheme == "http".toList || scheme == "ws".toList) && endsWith (h ++ ":80".toList) ":80".toList) = true := by
      simp only [Bool.and_eq_true, Bool.or_eq_true, beq_iff_eq]
      exact ⟨hs, endsWith_append _ _⟩
    rw [if_pos hc]
    simp
  · intro h hs
    unfold getHost
    have hn : ¬ (((scheme == "http".toList || scheme == "ws".toList) && endsWith (h ++ ":443".toList) ":80".toList) = true) := by
      simp only [Bool.and_eq_true, Bool.or_eq_true, beq_iff_eq, not_and]
      intro h1
      rcases hs with rfl | rfl <;> rcases h1 with h1 | h1 <;> exact absurd h1 (by decide)
    have hc : ((scheme == "https".toList || scheme == "wss".toList) && endsWith (h ++ ":443".toList) ":443".toList) = true := by
      simp only [Bool.and_eq_true, Bool.or_eq_true, beq_iff_eq]
      exact ⟨hs, endsWith_append _ _⟩
    rw [if_neg hn, if_pos hc]
    simp

/-! ### get_current_url -/

structure CurInput (o : UrlOpaque) (scheme ha : Str) (port : Option Nat) (root : Str) (q : Bytes) : Prop where
  scheme : validScheme scheme = true ∧ scheme.map asciiLower = scheme ∧ noTab scheme
  host_ne : ha ≠ []
  host_chars : ∀ c ∈ ha, hostChar c = true
  port : ∀ k, port = some k → k ≤ 65535
  bracket : ha.contains ':' = true → o.bracketOk ha = true
  root_form : root = [] ∨ root.head? = some '/'
  query_wf : wellFormed (quoteBytes Gen.UrlTables.curQuerySafe q) = true

theorem quoteBytes_isEmpty (safe : Str) (q : Bytes) : (quoteBytes safe q).isEmpty = q.isEmpty := by
  cases q with
  | nil => rfl
  | cons b t =>
    simp only [quoteBytes, List.flatMap_cons, List.isEmpty_cons]
    unfold quoteByte
    split <;> simp [pct]

/-- **`get_current_url`, structurally.** For a valid scheme, a host in URI form without userinfo
(`hostBr ha ++ portText port`: what `get_host` yields), any root path, any path and any query bytes
whose quoting is in the `%XX` grammar: the URL is produced, and it splits back into the scheme, the
decoded host with the same port, the partially unquoted path text and query text. -/
theorem getCurrentUrl_splits {o : UrlOpaque} (laws : HostLaws o)
    (kt : KeepOK Gen.UrlTables.keepPath ∧ KeepOK Gen.UrlTables.keepQuery ∧
      KeepOK Gen.UrlTables.keepFragment ∧ KeepOK Gen.UrlTables.keepUser)
    {scheme ha hu root path : Str} {port : Option Nat} {q : Bytes}
    (ci : CurInput o scheme ha port root q) (hconv : o.hostToUnicode ha = some hu) :
    ∃ r, getCurrentUrl o scheme (hostBr ha ++ portText port) root path q = .ok r ∧
      urlsplit o r = .ok
        { scheme := scheme, netloc := hostBr hu ++ portText port,
          path := unquotePartial Gen.UrlTables.keepPath (curPathText root path),
          query := unquotePartial Gen.UrlTables.keepQuery (quoteBytes Gen.UrlTables.curQuerySafe q),
          fragment := [] } := by
  let p0 : Parts := { scheme := scheme, host := ha, port := port }
  let F0 : Conv :=
    { fu := id, fp := id, fpath := fun _ => curPathText root path,
      fquery := fun _ => quoteBytes Gen.UrlTables.curQuerySafe q, ffrag := fun _ => [] }
  obtain ⟨pf1, pf2, pf3, pf4, pf5⟩ := curPathText_facts root path ci.root_form
  have hq : ∀ c ∈ quoteBytes Gen.UrlTables.curQuerySafe q, c ≠ '#' ∧ isTabCrLf c = false := fun c hc =>
    quoted_char_ok (P := fun c => c ≠ '#' ∧ isTabCrLf c = false) ⟨by decide, by decide⟩
      (fun n hn h => (cur_path_ok n hn).2.2 h) hc
  have np0 : NetlocParts F0.fu F0.fp p0 :=
    ⟨ci.host_ne, ci.host_chars, fun u hu => by simp [p0, truthy] at hu, fun u hu => by simp [p0, truthy] at hu,
      ci.port⟩
  have g0 : GoodSplit o (F0.apply p0) :=
    good_apply np0 ci.scheme ci.bracket (netlocOk_of_law laws.nfkc _)
      ⟨Or.inr pf1, pf2, pf3, pf4⟩ ⟨fun hm => (hq _ hm).1 rfl, fun c hc => (hq c hc).2⟩
      (fun c hc => by cases hc)
  have hnet0 : netloc F0.fu F0.fp p0 = hostBr ha ++ portText port := by
    rw [netloc_eq]; simp [authText, p0, truthy]
  -- the text get_current_url assembles is the unsplit of that tuple
  have htext : scheme ++ "://".toList ++ (hostBr ha ++ portText port)
      ++ quote Gen.UrlTables.curRootSafe (rstripSlash root) ++ ['/']
      ++ quote Gen.UrlTables.curPathSafe (lstripSlash path)
      ++ (if q.isEmpty then [] else '?' :: quoteBytes Gen.UrlTables.curQuerySafe q)
      = urlunsplit (F0.apply p0) := by
    rw [urlunsplit_good g0]
    simp only [Conv.apply, hnet0, tailOf, F0, p0, curPathText, quoteBytes_isEmpty, List.isEmpty_nil,
      if_true, List.append_nil]
    by_cases hqe : q.isEmpty = true <;> simp [hqe, List.append_assoc]
  obtain ⟨s1, r1⟩ := pass_reparse (conv' := o.hostToUnicode) (h' := hu) g0 np0 hconv
  -- the uri_to_iri pass
  have b1 : PartsBase (reparsed F0 p0 hu) :=
    ⟨ci.scheme, (laws.u_chars _ _ hconv).1, (laws.u_chars _ _ hconv).2, by
      intro k hk
      simp only [reparsed, p0] at hk
      cases hp : port with
      | none => simp [hp] at hk
      | some j =>
        cases j with
        | zero => simp [hp] at hk
        | succ j => simp only [hp, Option.some.injEq] at hk; rw [← hk]; exact ci.port _ hp,
      Or.inr pf1⟩
  have ui1 : UriInput (reparsed F0 p0 hu) :=
    ⟨fun u hu' => by simp [reparsed, p0, truthy] at hu', fun u hu' => by simp [reparsed, p0, truthy] at hu',
      ⟨pf5, pf2, pf3, pf4⟩, ⟨ci.query_wf, fun hm => (hq _ hm).1 rfl, fun c hc => (hq c hc).2⟩,
      ⟨rfl, fun c hc => by cases hc⟩⟩
  obtain ⟨np1, g1⟩ := uri_pass laws b1 ui1 (laws.bracket_u _ _ hconv) kt
  refine ⟨urlunsplit (uriConv.apply (reparsed F0 p0 hu)), ?_, ?_⟩
  · unfold getCurrentUrl
    simp only
    rw [htext, uriToIriText_unfold, s1]
    simp only [r1]
  · rw [urlsplit_urlunsplit g1]
    have hnet1 : netloc uriConv.fu uriConv.fp (reparsed F0 p0 hu) = hostBr hu ++ portText port := by
      rw [netloc_eq]
      have : portText (reparsed F0 p0 hu).port = portText port := portText_norm port
      rw [this]
      simp [authText, reparsed, p0, truthy]
    simp only [Conv.apply, hnet1]
    rfl

end Wz.Url
