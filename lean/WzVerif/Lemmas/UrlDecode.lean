/-
Lemmas about the UTF-8 decoder with error spans (`items` / `decodeQ`) and `unquote`:
towards the one-step fixpoint of `uri_to_iri` (C15). Core Lean only.
-/
import WzVerif.Lemmas.Url
namespace Wz.Url
open Wz

def isCont (b : UInt8) : Bool := Py.inRange b 0x80 0xBF

/-! ### takeCont / firstItem -/

theorem takeCont_prefix : ∀ (n : Nat) (lo hi : UInt8) (t : Bytes), takeCont n lo hi t <+: t
  | 0, _, _, _ => by simp [takeCont]
  | _ + 1, _, _, [] => by simp [takeCont]
  | n + 1, lo, hi, b :: t => by
    simp only [takeCont]
    split
    · exact List.prefix_cons_inj _ |>.mpr (takeCont_prefix n _ _ t)
    · simp

theorem takeCont_length_le : ∀ (n : Nat) (lo hi : UInt8) (t : Bytes), (takeCont n lo hi t).length ≤ n
  | 0, _, _, _ => by simp [takeCont]
  | _ + 1, _, _, [] => by simp [takeCont]
  | n + 1, lo, hi, b :: t => by
    simp only [takeCont]
    split
    · simp only [List.length_cons]; have := takeCont_length_le n 0x80 0xBF t; omega
    · simp

/-- continuation bytes taken are ≥ 0x80 when the admissible range is -/
theorem takeCont_ge : ∀ (n : Nat) (lo hi : UInt8) (t : Bytes), 0x80 ≤ lo →
    ∀ b ∈ takeCont n lo hi t, 0x80 ≤ b
  | 0, _, _, _, _ => by simp [takeCont]
  | _ + 1, _, _, [], _ => by simp [takeCont]
  | n + 1, lo, hi, b :: t, hlo => by
    simp only [takeCont]
    split
    · rename_i hb
      intro x hx
      rcases List.mem_cons.mp hx with rfl | hx
      · simp only [Py.inRange, Bool.and_eq_true, decide_eq_true_eq] at hb
        exact UInt8.le_trans hlo hb.1
      · exact takeCont_ge n 0x80 0xBF t (by decide) x hx
    · simp

/-- the decoder never looks past a byte that is not a continuation byte -/
theorem takeCont_append : ∀ (n : Nat) (lo hi : UInt8) (x r : Bytes), 0x80 ≤ lo → hi ≤ 0xBF →
    (∀ b, r.head? = some b → isCont b = false) →
    takeCont n lo hi (x ++ r) = takeCont n lo hi x
  | 0, _, _, _, _, _, _, _ => by simp [takeCont]
  | n + 1, lo, hi, [], r, hlo, hhi, hr => by
    cases r with
    | nil => simp [takeCont]
    | cons b t =>
      have hb := hr b rfl
      simp only [List.nil_append, takeCont]
      rw [if_neg]
      intro h
      simp only [Py.inRange, Bool.and_eq_true, decide_eq_true_eq] at h
      simp only [isCont, Py.inRange, Bool.and_eq_false_iff, decide_eq_false_iff_not] at hb
      rcases hb with hb | hb
      · exact hb (UInt8.le_trans hlo h.1)
      · exact hb (UInt8.le_trans h.2 hhi)
  | n + 1, lo, hi, b :: x, r, hlo, hhi, hr => by
    simp only [List.cons_append, takeCont]
    split
    · rw [takeCont_append n 0x80 0xBF x r (by decide) (by decide) hr]
    · rfl

theorem leadInfo_range {b0 : UInt8} {n : Nat} {lo hi : UInt8} (h : leadInfo b0 = some (n, lo, hi)) :
    0x80 ≤ lo ∧ hi ≤ 0xBF ∧ 0xC2 ≤ b0 ∧ 1 ≤ n := by
  unfold leadInfo at h
  split at h
  · rename_i h0
    simp only [Py.inRange, Bool.and_eq_true, decide_eq_true_eq] at h0
    cases h; exact ⟨by decide, by decide, h0.1, by decide⟩
  · split at h
    · rename_i h0
      simp only [Py.inRange, Bool.and_eq_true, decide_eq_true_eq] at h0
      cases h
      refine ⟨?_, ?_, UInt8.le_trans (by decide) h0.1, by decide⟩
      · split <;> decide
      · split <;> decide
    · split at h
      · rename_i h0
        simp only [Py.inRange, Bool.and_eq_true, decide_eq_true_eq] at h0
        cases h
        refine ⟨?_, ?_, UInt8.le_trans (by decide) h0.1, by decide⟩
        · split <;> decide
        · split <;> decide
      · cases h

theorem firstItem_append (b0 : UInt8) (x r : Bytes) (hr : ∀ b, r.head? = some b → isCont b = false) :
    firstItem b0 (x ++ r) = firstItem b0 x := by
  unfold firstItem
  split
  · rfl
  · cases h : leadInfo b0 with
    | none => rfl
    | some v =>
      obtain ⟨n, lo, hi⟩ := v
      obtain ⟨h1, h2, _, _⟩ := leadInfo_range h
      simp only [takeCont_append n lo hi x r h1 h2 hr]

/-- the bytes an item was made of: a non-empty prefix of the input -/
theorem firstItem_raw (b0 : UInt8) (t : Bytes) :
    ∃ cs, (firstItem b0 t).raw = b0 :: cs ∧ cs <+: t := by
  unfold firstItem
  split
  · exact ⟨[], rfl, by simp⟩
  · cases h : leadInfo b0 with
    | none => exact ⟨[], rfl, by simp⟩
    | some v =>
      obtain ⟨n, lo, hi⟩ := v
      simp only
      split
      · exact ⟨_, rfl, takeCont_prefix n lo hi t⟩
      · exact ⟨_, rfl, takeCont_prefix n lo hi t⟩

/-! ### code points of valid sequences -/

theorem inRange_iff (b lo hi : UInt8) : Py.inRange b lo hi = true ↔ lo.toNat ≤ b.toNat ∧ b.toNat ≤ hi.toNat := by
  simp [Py.inRange, UInt8.le_iff_toNat_le]

theorem takeCont_full : ∀ (n : Nat) (lo hi : UInt8) (t : Bytes), (takeCont n lo hi t).length = n →
    (∀ b, (takeCont n lo hi t).head? = some b → lo.toNat ≤ b.toNat ∧ b.toNat ≤ hi.toNat) ∧
    (∀ b ∈ (takeCont n lo hi t).tail, 0x80 ≤ b.toNat ∧ b.toNat ≤ 0xBF)
  | 0, _, _, _, _ => by simp [takeCont]
  | _ + 1, _, _, [], h => by simp [takeCont] at h
  | n + 1, lo, hi, b :: t, h => by
    simp only [takeCont] at h ⊢
    split at h
    · rename_i hb
      rw [if_pos hb]
      simp only [List.length_cons, Nat.add_right_cancel_iff] at h
      have ih := takeCont_full n 0x80 0xBF t h
      refine ⟨?_, ?_⟩
      · intro x hx; simp at hx; subst hx; exact (inRange_iff _ _ _).mp hb
      · intro x hx
        simp only [List.tail_cons] at hx
        cases hc : takeCont n 0x80 0xBF t with
        | nil => rw [hc] at hx; cases hx
        | cons y ys =>
          rw [hc] at hx ih
          rcases List.mem_cons.mp hx with rfl | hx
          · have := ih.1 x rfl; simpa using this
          · exact ih.2 x (by simpa using hx)
    · simp at h

theorem cp_bounds {b0 : UInt8} {n : Nat} {lo hi : UInt8} (h : leadInfo b0 = some (n, lo, hi))
    {cs : Bytes} (hlen : cs.length = n)
    (hhead : ∀ b, cs.head? = some b → lo.toNat ≤ b.toNat ∧ b.toNat ≤ hi.toNat)
    (htail : ∀ b ∈ cs.tail, 0x80 ≤ b.toNat ∧ b.toNat ≤ 0xBF) :
    128 ≤ codePoint b0 cs ∧ (codePoint b0 cs < 0xD800 ∨ (0xDFFF < codePoint b0 cs ∧ codePoint b0 cs < 0x110000)) := by
  unfold leadInfo at h
  split at h
  · rename_i h0
    have h0 := (inRange_iff _ _ _).mp h0
    cases h
    match cs, hlen, hhead, htail with
    | [b1], _, hhead, _ =>
      have := hhead b1 rfl
      simp only [codePoint, List.foldl, List.length_singleton]
      simp at h0 this
      omega
  · split at h
    · rename_i h0
      have h0 := (inRange_iff _ _ _).mp h0
      cases h
      match cs, hlen, hhead, htail with
      | [b1, b2], _, hhead, htail =>
        have h1 := hhead b1 rfl
        have h2 := htail b2 (by simp)
        simp only [codePoint, List.foldl, List.length_cons, List.length_nil]
        by_cases e0 : b0 = 0xE0
        · subst e0; simp at h1 h2 ⊢; omega
        · by_cases ed : b0 = 0xED
          · subst ed; simp at h1 h2 ⊢; omega
          · have e0' : b0.toNat ≠ 0xE0 := fun e => e0 (UInt8.toNat_inj.mp e)
            have ed' : b0.toNat ≠ 0xED := fun e => ed (UInt8.toNat_inj.mp e)
            simp [e0, ed] at h0 h1 h2 ⊢
            omega
    · split at h
      · rename_i h0
        have h0 := (inRange_iff _ _ _).mp h0
        cases h
        match cs, hlen, hhead, htail with
        | [b1, b2, b3], _, hhead, htail =>
          have h1 := hhead b1 rfl
          have h2 := htail b2 (by simp)
          have h3 := htail b3 (by simp)
          simp only [codePoint, List.foldl, List.length_cons, List.length_nil]
          by_cases e0 : b0 = 0xF0
          · subst e0; simp at h1 h2 h3 ⊢; omega
          · by_cases e4 : b0 = 0xF4
            · subst e4; simp at h1 h2 h3 ⊢; omega
            · have e0' : b0.toNat ≠ 0xF0 := fun e => e0 (UInt8.toNat_inj.mp e)
              have e4' : b0.toNat ≠ 0xF4 := fun e => e4 (UInt8.toNat_inj.mp e)
              simp [e0, e4] at h0 h1 h2 h3 ⊢
              omega
      · cases h

theorem char_toNat_ofNat_valid {n : Nat} (h : n.isValidChar) : (Char.ofNat n).toNat = n := by
  rw [Char.ofNat, dif_pos h]
  rfl

/-- the three kinds of front item -/
theorem firstItem_cases (b0 : UInt8) (t : Bytes) :
    (b0 < 0x80 ∧ firstItem b0 t = .chr (Char.ofNat b0.toNat) [b0]) ∨
    (∃ span, firstItem b0 t = .bad span ∧ ∀ b ∈ span, 0x80 ≤ b) ∨
    (∃ c raw, firstItem b0 t = .chr c raw ∧ 128 ≤ c.toNat ∧ isCont b0 = false) := by
  unfold firstItem
  by_cases h0 : b0 < 0x80
  · left; simp [h0]
  · right
    rw [if_neg h0]
    have hge : 0x80 ≤ b0 := by
      rw [UInt8.le_iff_toNat_le]; rw [UInt8.lt_iff_toNat_lt] at h0; simp at h0 ⊢; omega
    cases h : leadInfo b0 with
    | none => left; exact ⟨[b0], rfl, by simp [hge]⟩
    | some v =>
      obtain ⟨n, lo, hi⟩ := v
      obtain ⟨h1, h2, h3, _⟩ := leadInfo_range h
      simp only
      split
      · rename_i hlen
        right
        obtain ⟨g1, g2⟩ := takeCont_full n lo hi t hlen
        obtain ⟨c1, c2⟩ := cp_bounds h hlen g1 g2
        refine ⟨_, _, rfl, ?_, ?_⟩
        · rw [char_toNat_ofNat_valid]
          · exact c1
          · rcases c2 with c2 | c2
            · exact Or.inl c2
            · exact Or.inr c2
        · simp only [isCont, Py.inRange, Bool.and_eq_false_iff, decide_eq_false_iff_not]
          right
          rw [UInt8.le_iff_toNat_le] at h3 ⊢
          simp at h3 ⊢; omega
      · left
        refine ⟨_, rfl, ?_⟩
        intro b hb
        rcases List.mem_cons.mp hb with rfl | hb
        · exact hge
        · exact takeCont_ge n lo hi t h1 b hb

/-! ### items -/

theorem items_nil (f : Nat) : items f [] = [] := by cases f <;> rfl

theorem items_fuel_eq : ∀ (f1 f2 : Nat) (bs : Bytes), bs.length ≤ f1 → bs.length ≤ f2 →
    items f1 bs = items f2 bs
  | f1, f2, [], _, _ => by rw [items_nil, items_nil]
  | 0, _, _ :: _, h, _ => by simp at h
  | _, 0, _ :: _, _, h => by simp at h
  | f1 + 1, f2 + 1, b0 :: t, h1, h2 => by
    simp only [items]
    congr 1
    have hl : (t.drop ((firstItem b0 t).raw.length - 1)).length ≤ t.length := by simp
    simp only [List.length_cons] at h1 h2
    exact items_fuel_eq f1 f2 _ (by omega) (by omega)

/-- the decoder's items of a byte string -/
def its (bs : Bytes) : List Item := items bs.length bs

theorem items_eq_its {fuel : Nat} {bs : Bytes} (h : bs.length ≤ fuel) : items fuel bs = its bs :=
  items_fuel_eq fuel bs.length bs h (Nat.le_refl _)

theorem its_nil : its [] = [] := rfl

theorem its_cons (b0 : UInt8) (t : Bytes) :
    its (b0 :: t) = firstItem b0 t :: its (t.drop ((firstItem b0 t).raw.length - 1)) := by
  simp only [its, List.length_cons, items]
  congr 1
  exact items_fuel_eq _ _ _ (by simp) (Nat.le_refl _)

theorem decodeQ_eq {fuel : Nat} {bs : Bytes} (h : bs.length ≤ fuel) :
    decodeQ fuel bs = (its bs).flatMap render := by
  simp [decodeQ, items_eq_its h]

/-- the front item splits the input: `b0 :: t = raw ++ rest` -/
theorem firstItem_split (b0 : UInt8) (t : Bytes) :
    b0 :: t = (firstItem b0 t).raw ++ t.drop ((firstItem b0 t).raw.length - 1) := by
  obtain ⟨cs, h1, ⟨r, h2⟩⟩ := firstItem_raw b0 t
  rw [h1]
  simp only [List.length_cons, Nat.add_sub_cancel, List.cons_append, List.cons.injEq, true_and]
  rw [← h2, List.drop_left]

/-- the raw bytes of the items are the input -/
theorem its_raw : ∀ (n : Nat) (bs : Bytes), bs.length ≤ n → (its bs).flatMap Item.raw = bs
  | _, [], _ => rfl
  | 0, _ :: _, h => by simp at h
  | n + 1, b0 :: t, h => by
    rw [its_cons, List.flatMap_cons]
    have := its_raw n (t.drop ((firstItem b0 t).raw.length - 1)) (by simp at h ⊢; omega)
    rw [this]
    exact (firstItem_split b0 t).symm

/-! ### unquote over the decoder's output -/

def toBytes (t : Str) : Bytes := t.map fun c => UInt8.ofNat c.toNat

theorem toBytes_append (a b : Str) : toBytes (a ++ b) = toBytes a ++ toBytes b := by simp [toBytes]

theorem unquoteAux_ascii : ∀ (a rest : Str) (acc : Bytes), (∀ c ∈ a, c.toNat < 128) →
    unquoteAux (a ++ rest) acc = unquoteAux rest ((toBytes a).reverse ++ acc)
  | [], _, _, _ => by simp [toBytes]
  | c :: a, rest, acc, h => by
    have hc := h c (by simp)
    simp only [List.cons_append, unquoteAux, hc, if_true]
    rw [unquoteAux_ascii a rest _ (fun x hx => h x (List.mem_cons_of_mem _ hx))]
    simp [toBytes]

theorem unquoteAux_nonascii (c : Char) (rest : Str) (acc : Bytes) (h : 128 ≤ c.toNat) :
    unquoteAux (c :: rest) acc = unquoteRun acc.reverse ++ c :: unquoteAux rest [] := by
  have : ¬ c.toNat < 128 := by omega
  simp [unquoteAux, this]

/-- ASCII character items and undecodable spans: what stays inside one ASCII run of the output -/
def AB : Item → Prop
  | .chr c raw => ∃ b : UInt8, b < 0x80 ∧ c = Char.ofNat b.toNat ∧ raw = [b]
  | .bad span => ∀ b ∈ span, 0x80 ≤ b

theorem unquoteBytes_cons_ne {b : UInt8} (h : b ≠ 0x25) (rest : Bytes) :
    unquoteBytes (b :: rest) = b :: unquoteBytes rest := by
  match rest with
  | [] => simp [unquoteBytes]
  | [x] => simp [unquoteBytes]
  | x :: y :: t => simp [unquoteBytes, h]

theorem hexVal_hexU : ∀ d, d < 16 → hexVal? (Char.ofNat (UInt8.ofNat (hexU d).toNat).toNat) = some d := by
  decide

theorem unquoteBytes_pct (b : UInt8) (rest : Bytes) :
    unquoteBytes (toBytes (pct b) ++ rest) = b :: unquoteBytes rest := by
  have hb := b.toNat_lt
  have h1 := hexVal_hexU (b.toNat / 16) (by omega)
  have h2 := hexVal_hexU (b.toNat % 16) (Nat.mod_lt _ (by decide))
  have h0 : UInt8.ofNat '%'.toNat = 0x25 := by decide
  simp only [toBytes, pct, List.map_cons, List.map_nil, List.cons_append, List.nil_append,
    unquoteBytes, h0, h1, h2, if_true]
  congr 1
  have : 16 * (b.toNat / 16) + b.toNat % 16 = b.toNat := by omega
  rw [this, uint8_ofNat_toNat]

theorem requote_bad {span : Bytes} (h : ∀ b ∈ span, 0x80 ≤ b) : requote span = span.flatMap pct := by
  unfold requote quoteBytes
  induction span with
  | nil => rfl
  | cons b t ih =>
    have := h b (by simp)
    have hn : ¬ b.toNat < 128 := by
      rw [UInt8.le_iff_toNat_le] at this; simp at this; omega
    simp only [List.flatMap_cons]
    rw [ih (fun x hx => h x (List.mem_cons_of_mem _ hx))]
    simp [quoteByte, isSafe, hn]

theorem render_AB_ascii {I : Item} (h : AB I) : ∀ c ∈ render I, c.toNat < 128 := by
  cases I with
  | chr c raw =>
    obtain ⟨b, hb, rfl, _⟩ := h
    intro x hx
    simp only [render, List.mem_singleton] at hx
    subst hx
    rw [UInt8.lt_iff_toNat_lt] at hb
    simp at hb
    rw [char_toNat_ofNat_lt (by omega)]; exact hb
  | bad span => exact quoteBytes_ascii _ _

theorem unquoteBytes_render {I : Item} (h : AB I) (h25 : (0x25 : UInt8) ∉ I.raw) (rest : Bytes) :
    unquoteBytes (toBytes (render I) ++ rest) = I.raw ++ unquoteBytes rest := by
  cases I with
  | chr c raw =>
    obtain ⟨b, hb, rfl, rfl⟩ := h
    have hne : b ≠ 0x25 := fun e => h25 (by simp [Item.raw, e])
    rw [UInt8.lt_iff_toNat_lt] at hb
    simp at hb
    simp only [render, toBytes, List.map_cons, List.map_nil, List.cons_append, List.nil_append,
      Item.raw, char_toNat_ofNat_lt (show b.toNat < 256 by omega), uint8_ofNat_toNat]
    exact unquoteBytes_cons_ne hne rest
  | bad span =>
    simp only [render, Item.raw]
    rw [requote_bad h]
    clear h25 h
    induction span with
    | nil => simp [toBytes]
    | cons b t ih =>
      simp only [List.flatMap_cons, toBytes_append, List.append_assoc, List.cons_append]
      rw [unquoteBytes_pct, ih]

/-- lookahead: items that end where a non-continuation byte starts are the items of the prefix -/
theorem its_of_append : ∀ (Is : List Item) (P B : Bytes),
    its (P ++ B) = Is ++ its B → Is.flatMap Item.raw = P →
    (∀ b, B.head? = some b → isCont b = false) → its P = Is
  | [], P, B, _, h2, _ => by simp at h2; subst h2; rfl
  | I :: Is, P, B, h1, h2, hB => by
    simp only [List.flatMap_cons] at h2
    cases P with
    | nil =>
      exfalso
      obtain ⟨b0, t, hB'⟩ : ∃ b0 t, B = b0 :: t := by
        cases B with
        | nil => simp [its_nil] at h1
        | cons b0 t => exact ⟨b0, t, rfl⟩
      have := congrArg List.length h2
      simp only [List.length_append, List.length_nil] at this
      subst hB'
      simp only [List.nil_append, its_cons, List.cons_append, List.cons.injEq] at h1
      obtain ⟨cs, hr, _⟩ := firstItem_raw b0 t
      rw [h1.1] at hr
      rw [hr] at this
      simp at this
    | cons p0 Pt =>
      simp only [List.cons_append, its_cons, List.cons.injEq] at h1
      obtain ⟨hI, hrest⟩ := h1
      rw [firstItem_append p0 Pt B hB] at hI
      obtain ⟨cs, hr, _⟩ := firstItem_raw p0 Pt
      rw [hI] at hr
      rw [hr] at h2
      simp only [List.cons_append, List.cons.injEq, true_and] at h2
      -- Pt = cs ++ (rest of P)
      have hlen : (firstItem p0 (Pt ++ B)).raw.length - 1 = cs.length := by
        rw [firstItem_append p0 Pt B hB, hI, hr]; simp
      have hlen' : (firstItem p0 Pt).raw.length - 1 = cs.length := by rw [hI, hr]; simp
      rw [hlen, ← h2, List.append_assoc, List.drop_left] at hrest
      have ih := its_of_append Is (Is.flatMap Item.raw) B hrest rfl hB
      rw [its_cons, hI]
      have hl2 : I.raw.length - 1 = cs.length := by rw [hr]; simp
      rw [hl2, ← h2, List.drop_left, ih]

theorem unquoteBytes_renders : ∀ (Is : List Item), (∀ I ∈ Is, AB I) →
    (0x25 : UInt8) ∉ Is.flatMap Item.raw →
    unquoteBytes (toBytes (Is.flatMap render)) = Is.flatMap Item.raw
  | [], _, _ => by simp [toBytes, unquoteBytes]
  | I :: Is, hab, h25 => by
    simp only [List.flatMap_cons, toBytes_append] at h25 ⊢
    have h1 : (0x25 : UInt8) ∉ I.raw := fun h => h25 (List.mem_append_left _ h)
    have h2 : (0x25 : UInt8) ∉ Is.flatMap Item.raw := fun h => h25 (List.mem_append_right _ h)
    rw [unquoteBytes_render (hab I (by simp)) h1,
      unquoteBytes_renders Is (fun J hJ => hab J (List.mem_cons_of_mem _ hJ)) h2]

/-- flushing an ASCII run made of the rendered items of `P` gives the same text back -/
theorem flush_fix {P : Bytes} {Is : List Item} (hP : its P = Is) (hraw : Is.flatMap Item.raw = P)
    (hab : ∀ I ∈ Is, AB I) (h25 : (0x25 : UInt8) ∉ P) :
    unquoteRun (toBytes (Is.flatMap render)) = Is.flatMap render := by
  unfold unquoteRun
  simp only
  rw [unquoteBytes_renders Is hab (by rw [hraw]; exact h25), hraw, decodeQ_eq (Nat.le_succ _), hP]

theorem run_fix_aux : ∀ (n : Nat) (B : Bytes), B.length ≤ n → ∀ (P : Bytes) (Is : List Item),
    its (P ++ B) = Is ++ its B → Is.flatMap Item.raw = P → (∀ I ∈ Is, AB I) →
    (0x25 : UInt8) ∉ P ++ B →
    unquoteAux ((its B).flatMap render) (toBytes (Is.flatMap render)).reverse
      = Is.flatMap render ++ (its B).flatMap render
  | _, [], _, P, Is, h1, h2, h3, h4 => by
    simp only [its_nil, List.flatMap_nil, List.append_nil, unquoteAux, List.reverse_reverse] at h1 ⊢
    exact flush_fix h1 h2 h3 (by simpa using h4)
  | 0, _ :: _, h, _, _, _, _, _, _ => by simp at h
  | n + 1, b0 :: t, hlen, P, Is, h1, h2, h3, h4 => by
    have hsplit := firstItem_split b0 t
    have hB' : (t.drop ((firstItem b0 t).raw.length - 1)).length ≤ n := by
      simp at hlen ⊢; omega
    have step : ∀ (hI : AB (firstItem b0 t)),
        unquoteAux ((its (b0 :: t)).flatMap render) (toBytes (Is.flatMap render)).reverse
          = Is.flatMap render ++ (its (b0 :: t)).flatMap render := by
      intro hI
      rw [its_cons, List.flatMap_cons, unquoteAux_ascii _ _ _ (render_AB_ascii hI)]
      have ih := run_fix_aux n _ hB' (P ++ (firstItem b0 t).raw) (Is ++ [firstItem b0 t])
        (by rw [List.append_assoc, ← hsplit, h1, its_cons]; simp)
        (by simp [h2])
        (by intro J hJ
            rcases List.mem_append.mp hJ with hJ | hJ
            · exact h3 J hJ
            · simp at hJ; subst hJ; exact hI)
        (by rw [List.append_assoc, ← hsplit]; exact h4)
      simp only [List.flatMap_append, List.flatMap_cons, List.flatMap_nil, List.append_nil,
        toBytes_append, List.reverse_append, List.append_assoc] at ih ⊢
      exact ih
    rcases firstItem_cases b0 t with ⟨hb, hI⟩ | ⟨span, hI, hs⟩ | ⟨c, raw, hI, hc, hcont⟩
    · exact step (by rw [hI]; exact ⟨b0, hb, rfl, rfl⟩)
    · exact step (by rw [hI]; exact hs)
    · rw [its_cons, hI, List.flatMap_cons]
      simp only [render, List.cons_append, List.nil_append]
      rw [unquoteAux_nonascii c _ _ hc, List.reverse_reverse]
      have hP : its P = Is := its_of_append Is P (b0 :: t) h1 h2 (by intro b hb; simp at hb; subst hb; exact hcont)
      rw [flush_fix hP h2 h3 (fun h => h4 (List.mem_append_left _ h))]
      have h25' : (0x25 : UInt8) ∉ ([] : Bytes) ++ t.drop ((firstItem b0 t).raw.length - 1) := by
        intro h
        apply h4
        apply List.mem_append_right
        rw [hsplit]
        exact List.mem_append_right _ (by simpa using h)
      have ih := run_fix_aux n _ hB' [] [] (by simp) rfl (by simp) h25'
      simp only [List.flatMap_nil, toBytes, List.map_nil, List.reverse_nil, List.nil_append] at ih
      rw [hI] at ih
      simp only [Item.raw] at ih ⊢
      rw [ih]

/-- **Run lemma.** Decoding a byte string without `%` (0x25) with werkzeug's error handler yields
text that `unquote` maps to itself: decoded characters stay, re-quoted undecodable bytes are
undecodable again. -/
theorem unquote_decodeQ (B : Bytes) (h25 : (0x25 : UInt8) ∉ B) :
    unquote ((its B).flatMap render) = (its B).flatMap render := by
  have := run_fix_aux B.length B (Nat.le_refl _) [] [] (by simp) rfl (by simp) (by simpa using h25)
  simpa [unquote, toBytes] using this

end Wz.Url
