import WzVerif.Lemmas.HttpSafeRange
set_option linter.unusedSimpArgs false
namespace Wz.Http
open Wz

theorem splitWs2_onlyRaises (s : Str) : OnlyRaises ["ValueError"] (splitWs2 s) := by
  intro e he
  unfold splitWs2 at he
  simp only at he
  split at he
  · simp at he; subst he; simp
  · simp at he

theorem parseLength_safe (s : Str) : Safe (parseLength s) := by
  unfold parseLength
  split
  · exact ⟨_, rfl⟩
  · exact catching_safe (onlyRaises_map _ (plainInt_onlyRaises s))

theorem startStop_safe (a b : Str) :
    Safe (catching ["ValueError"] (do
        let s ← plainInt a
        let e ← plainInt b
        pure (some (s, e + 1))) none) := by
  apply catching_safe
  intro e he
  cases ha : plainInt a with
  | error ea =>
    rw [ha] at he
    simp at he
    subst he
    exact plainInt_onlyRaises a _ ha
  | ok va =>
    rw [ha] at he
    simp only [ok_bind] at he
    cases hb : plainInt b with
    | error eb =>
      rw [hb] at he
      simp at he
      subst he
      exact plainInt_onlyRaises b _ hb
    | ok vb => rw [hb] at he; simp at he

theorem parseContentRangeHeader_safe (s : Str) : Safe (parseContentRangeHeader s) := by
  unfold parseContentRangeHeader
  obtain ⟨r, hr⟩ : Safe (catching ["ValueError"] ((splitWs2 (strip s)).map some) none) :=
    catching_safe (onlyRaises_map _ (splitWs2_onlyRaises _))
  rw [hr]
  simp only [ok_bind]
  cases r with
  | none => exact ⟨none, rfl⟩
  | some ur =>
    obtain ⟨units, rangedef⟩ := ur
    simp only
    split
    · exact ⟨none, rfl⟩
    · generalize partition '/' rangedef = p
      obtain ⟨rng, f, lengthStr⟩ := p
      simp only
      obtain ⟨ol, hol⟩ := parseLength_safe lengthStr
      rw [hol]
      simp only [ok_bind]
      cases ol with
      | none => exact ⟨none, rfl⟩
      | some length =>
        simp only
        split
        · split <;> exact ⟨_, rfl⟩
        · split
          · exact ⟨none, rfl⟩
          · generalize partition '-' rng = q
            obtain ⟨a, g, b⟩ := q
            simp only
            obtain ⟨se, hse⟩ := startStop_safe a b
            rw [hse]
            simp only [ok_bind]
            cases se with
            | none => exact ⟨none, rfl⟩
            | some x =>
              obtain ⟨s0, e0⟩ := x
              simp only
              split <;> exact ⟨_, rfl⟩

theorem parseAge_safe (s : Str) : Safe (parseAge s) := by
  unfold parseAge
  split
  · exact ⟨none, rfl⟩
  · obtain ⟨r, hr⟩ : Safe (catching ["ValueError"] ((pyInt s).map some) none) :=
      catching_safe (onlyRaises_map _ (pyInt_onlyRaises s))
    rw [hr]
    simp only [ok_bind]
    cases r with
    | none => exact ⟨none, rfl⟩
    | some secs =>
      simp only
      split
      · exact ⟨none, rfl⟩
      · split <;> exact ⟨_, rfl⟩

theorem parseCacheControl_safe (s : Str) : Safe (parseCacheControl s) := by
  unfold parseCacheControl
  split
  · exact ⟨_, rfl⟩
  · exact parseDictHeader_safe s

theorem getCacheValue_safe (d : Dict (Option Str)) (key : Str) (empty : CCVal) (ty : CCType) :
    Safe (getCacheValue d key empty ty) := by
  unfold getCacheValue
  cases ty with
  | bool => exact ⟨_, rfl⟩
  | int =>
    simp only
    split
    · exact ⟨_, rfl⟩
    · exact ⟨_, rfl⟩
    · next v _ => exact catching_safe (onlyRaises_map _ (pyInt_onlyRaises v))
  | str =>
    simp only
    split <;> exact ⟨_, rfl⟩

theorem b64DecodeGo_onlyRaises (s : Str) (q l p : Nat) (out : Bytes) :
    OnlyRaises ["binascii.Error"] (b64DecodeGo s q l p out) := by
  induction s generalizing q l p out with
  | nil =>
    intro e he
    simp only [b64DecodeGo] at he
    split at he
    · simp at he
    · simp at he; subst he; simp
  | cons c t ih =>
    intro e he
    rw [b64DecodeGo] at he
    split at he
    · split at he
      · simp at he
      · exact ih _ _ _ _ e he
    · split at he
      · exact ih _ _ _ _ e he
      · split at he <;> exact ih _ _ _ _ e he

theorem basicDecode_safe (rest : Str) :
    Safe (catching basicCaught (do
      let bs ← b64Decode rest
      let txt ← utf8Strict bs
      pure (some txt)) none) := by
  apply catching_safe
  intro e he
  cases hb : b64Decode rest with
  | error eb =>
    rw [hb] at he
    simp at he
    subst he
    unfold b64Decode at hb
    split at hb
    · simp at hb; subst hb; simp [basicCaught]
    · have := b64DecodeGo_onlyRaises rest 0 0 0 [] _ hb
      simp at this; subst this; simp [basicCaught]
  | ok bs =>
    rw [hb] at he
    simp only [ok_bind] at he
    unfold utf8Strict at he
    split at he
    · simp at he
    · simp at he; subst he; simp [basicCaught]

theorem authRest_safe (scheme rest : Str) : Safe (authRest scheme rest) := by
  unfold authRest
  split
  · obtain ⟨d, hd⟩ := parseDictHeader_safe rest
    simp [hd]; exact ⟨_, rfl⟩
  · exact ⟨_, rfl⟩

theorem authorizationFromHeader_safe (s : Str) : Safe (authorizationFromHeader s) := by
  unfold authorizationFromHeader
  split
  · exact ⟨none, rfl⟩
  · generalize partition ' ' s = p
    obtain ⟨sc, f, r⟩ := p
    simp only
    split
    · obtain ⟨dec, hdec⟩ := basicDecode_safe (strip r)
      rw [hdec]
      simp only [ok_bind]
      cases dec with
      | none => exact ⟨none, rfl⟩
      | some txt => exact ⟨_, rfl⟩
    · obtain ⟨a, ha⟩ := authRest_safe (pyLower sc) (strip r)
      rw [ha]; exact ⟨_, rfl⟩

theorem wwwFromHeader_safe (s : Str) : Safe (wwwFromHeader s) := by
  unfold wwwFromHeader
  split
  · exact ⟨none, rfl⟩
  · generalize partition ' ' s = p
    obtain ⟨sc, f, r⟩ := p
    simp only
    obtain ⟨a, ha⟩ := authRest_safe (pyLower sc) (strip r)
    rw [ha]; exact ⟨_, rfl⟩

/-! ### the descriptor layer -/

theorem headerProperty_safe {α : Type} (load : Str → Except String α) (dflt : α) (hdr : Option Str)
    (h : ∀ v, OnlyRaises ["ValueError", "TypeError"] (load v)) : Safe (headerProperty load dflt hdr) := by
  unfold headerProperty
  cases hdr with
  | none => exact ⟨_, rfl⟩
  | some v => exact catching_safe (h v)

theorem onlyRaises_mono {α : Type} {c1 c2 : List String} {x : Except String α}
    (h : OnlyRaises c1 x) (hs : ∀ e ∈ c1, e ∈ c2) : OnlyRaises c2 x :=
  fun e he => hs e (h e he)

theorem requestMaxForwards_safe (hdr : Option Str) : Safe (requestMaxForwards hdr) :=
  headerProperty_safe _ _ _ (fun v =>
    onlyRaises_mono (onlyRaises_map _ (pyInt_onlyRaises v)) (by intro e he; simp at he; subst he; simp))

theorem getContentLength_safe (cl te : Option Str) : Safe (getContentLength cl te) := by
  unfold getContentLength
  split
  · exact ⟨_, rfl⟩
  · cases cl with
    | none => exact ⟨_, rfl⟩
    | some v => exact catching_safe (onlyRaises_map _ (plainInt_onlyRaises v))

theorem requestAcrh_safe (hdr : Option Str) : Safe (requestAccessControlRequestHeaders hdr) :=
  headerProperty_safe _ _ _ (fun v e he => by simp at he)

end Wz.Http
