/-
Full unquoting after partial unquoting (C15): `unquote (_unquote_partial u) = unquote u` for text
of the `%XX` grammar - what `uri_to_iri` leaves quoted still denotes the same characters.
Core Lean only.
-/
import WzVerif.Lemmas.UrlCurrent
namespace Wz.Url
open Wz

/-- decoding is compositional at a byte that is not a continuation byte -/
theorem its_append : ∀ (n : Nat) (P B : Bytes), P.length ≤ n →
    (∀ b, B.head? = some b → isCont b = false) → its (P ++ B) = its P ++ its B
  | _, [], B, _, _ => by simp [its_nil]
  | 0, _ :: _, _, h, _ => by simp at h
  | n + 1, p0 :: Pt, B, hl, hB => by
    obtain ⟨cs, hr, ⟨w, hw⟩⟩ := firstItem_raw p0 Pt
    have hk : (firstItem p0 Pt).raw.length - 1 = cs.length := by rw [hr]; simp
    rw [List.cons_append, its_cons, its_cons, firstItem_append p0 Pt B hB, hk]
    have hd : (Pt ++ B).drop cs.length = Pt.drop cs.length ++ B := by
      rw [← hw]; simp
    rw [hd]
    have := its_append n (Pt.drop cs.length) B (by simp at hl ⊢; omega) hB
    rw [this]
    rfl

theorem its_ascii_cons {a : UInt8} (ha : a < 0x80) (B : Bytes) :
    its (a :: B) = .chr (Char.ofNat a.toNat) [a] :: its B := by
  rw [its_cons]
  have : firstItem a B = .chr (Char.ofNat a.toNat) [a] := by simp [firstItem, ha]
  rw [this]
  simp [Item.raw]

theorem ascii_not_cont {a : UInt8} (ha : a < 0x80) : isCont a = false := by
  simp only [isCont, Py.inRange, Bool.and_eq_false_iff, decide_eq_false_iff_not]
  left
  rw [UInt8.le_iff_toNat_le]; rw [UInt8.lt_iff_toNat_lt] at ha
  simp at ha ⊢; omega

/-- percent-decoding is compositional at a token boundary -/
theorem unquoteBytes_append_wf : ∀ (X : Str) (rest : Bytes), (∀ c ∈ X, c.toNat < 128) →
    wfk [] X = true → unquoteBytes (toBytes X ++ rest) = unquoteBytes (toBytes X) ++ unquoteBytes rest
  | [], rest, _, _ => by simp [toBytes, unquoteBytes]
  | [c], rest, ha, h => by
    have hc : c ≠ '%' := by intro e; simp [wfk, e] at h
    have hb := byte_ne_pct (ha c (by simp)) hc
    simp only [toBytes, List.map_cons, List.map_nil, List.cons_append, List.nil_append]
    rw [unquoteBytes_cons_ne hb]
    simp [unquoteBytes]
  | [c, x], rest, ha, h => by
    have hc : c ≠ '%' := by intro e; simp [wfk, e] at h
    rw [wfk_cons_ne hc] at h
    have hx : x ≠ '%' := by intro e; simp [wfk, e] at h
    have hb := byte_ne_pct (ha c (by simp)) hc
    have hb2 := byte_ne_pct (ha x (by simp)) hx
    simp only [toBytes, List.map_cons, List.map_nil, List.cons_append, List.nil_append]
    rw [unquoteBytes_cons_ne hb, unquoteBytes_cons_ne hb2]
    simp [unquoteBytes]
  | c :: x :: y :: t, rest, ha, h => by
    have hat : ∀ d ∈ t, d.toNat < 128 := fun d hd => ha d (by simp [hd])
    by_cases hc : c = '%'
    · subst hc
      simp only [wfk, if_true] at h
      cases hx : hexVal? x <;> cases hy : hexVal? y <;> simp only [hx, hy] at h <;> try (simp at h; done)
      simp only [Bool.and_eq_true] at h
      have h0 : UInt8.ofNat '%'.toNat = 0x25 := by decide
      have ih := unquoteBytes_append_wf t rest hat h.2
      simp only [toBytes, List.map_cons, List.cons_append, unquoteBytes, h0, if_true,
        char_of_byte (ha x (by simp)), char_of_byte (ha y (by simp)), hx, hy] at ih ⊢
      rw [ih]
    · have hb := byte_ne_pct (ha c (by simp)) hc
      rw [wfk_cons_ne hc] at h
      have ih := unquoteBytes_append_wf (x :: y :: t) rest (fun d hd => ha d (List.mem_cons_of_mem _ hd)) h
      have e1 : toBytes (c :: x :: y :: t) = UInt8.ofNat c.toNat :: toBytes (x :: y :: t) := rfl
      rw [e1, List.cons_append, unquoteBytes_cons_ne hb, unquoteBytes_cons_ne hb, ih]
      rfl

theorem unquoteRun_eq (R : Bytes) : unquoteRun R = (its (unquoteBytes R)).flatMap render := by
  unfold unquoteRun
  exact decodeQ_eq (Nat.le_succ _)

/-- an escape whose value is an ASCII byte splits the run it sits in -/
theorem run_split {Xa Ya : Str} {x y : Char} {hi lo : Nat} (hXa : ∀ c ∈ Xa, c.toNat < 128)
    (_hYa : ∀ c ∈ Ya, c.toNat < 128) (hw : wfk [] Xa = true) (hx : hexVal? x = some hi)
    (hy : hexVal? y = some lo) (hv : 16 * hi + lo < 128) :
    unquoteRun (toBytes (Xa ++ '%' :: x :: y :: Ya)) =
      unquoteRun (toBytes Xa) ++ Char.ofNat (16 * hi + lo) :: unquoteRun (toBytes Ya) := by
  have hxa : x.toNat < 128 := by
    by_cases h : x.toNat < 128
    · exact h
    · rw [hexVal_nonascii (by omega)] at hx; cases hx
  have hya : y.toNat < 128 := by
    by_cases h : y.toNat < 128
    · exact h
    · rw [hexVal_nonascii (by omega)] at hy; cases hy
  have h0 : UInt8.ofNat '%'.toNat = 0x25 := by decide
  have hk : unquoteBytes (toBytes ('%' :: x :: y :: Ya))
      = UInt8.ofNat (16 * hi + lo) :: unquoteBytes (toBytes Ya) := by
    simp only [toBytes, List.map_cons, unquoteBytes, h0, if_true, char_of_byte hxa, char_of_byte hya, hx, hy]
  have hvn : (UInt8.ofNat (16 * hi + lo)).toNat = 16 * hi + lo := uint8_toNat_ofNat_lt (by omega)
  generalize UInt8.ofNat (16 * hi + lo) = vb at hk hvn
  have hlt : vb < 0x80 := by
    rw [UInt8.lt_iff_toNat_lt, hvn]; simp; omega
  have hnc : ∀ b, (vb :: unquoteBytes (toBytes Ya)).head? = some b → isCont b = false := by
    intro b hb
    simp only [List.head?_cons, Option.some.injEq] at hb
    subst hb; exact ascii_not_cont hlt
  rw [unquoteRun_eq, unquoteRun_eq, unquoteRun_eq, toBytes_append, unquoteBytes_append_wf Xa _ hXa hw, hk,
    its_append _ _ _ (Nat.le_refl _) hnc, its_ascii_cons hlt]
  simp only [List.flatMap_append, List.flatMap_cons, render, hvn, List.singleton_append]

theorem unquote_run_tail (Ya : Str) (hYa : ∀ c ∈ Ya, c.toNat < 128) (acc : Bytes) (c : Char) (hc : 128 ≤ c.toNat)
    (Y' : Str) : unquoteAux (Ya ++ c :: Y') acc = unquoteRun (acc.reverse ++ toBytes Ya) ++ c :: unquoteAux Y' [] := by
  rw [unquoteAux_ascii Ya _ acc hYa, unquoteAux_nonascii c Y' _ hc]
  simp

/-- an ASCII-valued escape after token-aligned text splits `unquote` -/
theorem unquote_split_ascii {Xa : Str} {x y : Char} {hi lo : Nat} (hXa : ∀ c ∈ Xa, c.toNat < 128)
    (hw : wfk [] Xa = true) (hx : hexVal? x = some hi) (hy : hexVal? y = some lo) (hv : 16 * hi + lo < 128)
    (Y : Str) :
    unquote (Xa ++ '%' :: x :: y :: Y) = unquote Xa ++ Char.ofNat (16 * hi + lo) :: unquote Y := by
  have hxa : x.toNat < 128 := by
    by_cases h : x.toNat < 128
    · exact h
    · rw [hexVal_nonascii (by omega)] at hx; cases hx
  have hya : y.toNat < 128 := by
    by_cases h : y.toNat < 128
    · exact h
    · rw [hexVal_nonascii (by omega)] at hy; cases hy
  have hXu : unquote Xa = unquoteRun (toBytes Xa) := by
    have := unquoteAux_ascii Xa [] [] hXa
    simp only [List.append_nil] at this
    rw [unquote, this]; simp [unquoteAux]
  obtain ⟨Ya, rest, h1, h2, h3⟩ := ascii_span Y
  have hpre : ∀ c ∈ Xa ++ '%' :: x :: y :: Ya, c.toNat < 128 := by
    intro c hc
    simp only [List.mem_append, List.mem_cons] at hc
    rcases hc with hc | rfl | rfl | rfl | hc
    · exact hXa c hc
    · decide
    · exact hxa
    · exact hya
    · exact h2 c hc
  rcases h3 with h3 | ⟨c, Y', h3, hc⟩
  · subst h3
    simp only [List.append_nil] at h1
    subst h1
    have e : unquote (Xa ++ '%' :: x :: y :: Y) = unquoteRun (toBytes (Xa ++ '%' :: x :: y :: Y)) := by
      have := unquoteAux_ascii (Xa ++ '%' :: x :: y :: Y) [] [] hpre
      simp only [List.append_nil] at this
      rw [unquote, this]; simp [unquoteAux]
    have e2 : unquote Y = unquoteRun (toBytes Y) := by
      have := unquoteAux_ascii Y [] [] h2
      simp only [List.append_nil] at this
      rw [unquote, this]; simp [unquoteAux]
    rw [e, run_split hXa h2 hw hx hy hv, hXu, e2]
  · subst h3; subst h1
    have e : Xa ++ '%' :: x :: y :: (Ya ++ c :: Y') = (Xa ++ '%' :: x :: y :: Ya) ++ c :: Y' := by simp
    rw [e, unquote_append_nonascii hc, unquote_append_nonascii hc]
    have e1 : unquote (Xa ++ '%' :: x :: y :: Ya) = unquoteRun (toBytes (Xa ++ '%' :: x :: y :: Ya)) := by
      have := unquoteAux_ascii (Xa ++ '%' :: x :: y :: Ya) [] [] hpre
      simp only [List.append_nil] at this
      rw [unquote, this]; simp [unquoteAux]
    have e2 : unquote Ya = unquoteRun (toBytes Ya) := by
      have := unquoteAux_ascii Ya [] [] h2
      simp only [List.append_nil] at this
      rw [unquote, this]; simp [unquoteAux]
    rw [e1, run_split hXa h2 hw hx hy hv, hXu, e2]
    simp

/-- ... and after any token-aligned text -/
theorem unquote_split {x y : Char} {hi lo : Nat} (hx : hexVal? x = some hi) (hy : hexVal? y = some lo)
    (hv : 16 * hi + lo < 128) (Y : Str) : ∀ (n : Nat) (X : Str), X.length ≤ n → wfk [] X = true →
    unquote (X ++ '%' :: x :: y :: Y) = unquote X ++ Char.ofNat (16 * hi + lo) :: unquote Y := by
  intro n
  induction n with
  | zero =>
    intro X hl hw
    have : X = [] := List.eq_nil_of_length_eq_zero (by omega)
    subst this
    exact unquote_split_ascii (by simp) rfl hx hy hv Y
  | succ n ih =>
    intro X hl hw
    obtain ⟨a, rest, h1, h2, h3⟩ := ascii_span X
    rcases h3 with h3 | ⟨c, r, h3, hc⟩
    · subst h3
      simp only [List.append_nil] at h1
      subst h1
      exact unquote_split_ascii h2 hw hx hy hv Y
    · subst h3; subst h1
      obtain ⟨hwa, hwr⟩ := wfk_split hc r a hw
      have e : (a ++ c :: r) ++ '%' :: x :: y :: Y = a ++ c :: (r ++ '%' :: x :: y :: Y) := by simp
      rw [e, unquote_append_nonascii hc, unquote_append_nonascii hc, ih r (by simp at hl; omega) hwr]
      simp

theorem wfk_mono {keep : List Bool} : ∀ (G : Str), wfk keep G = true → wfk [] G = true
  | [], _ => rfl
  | [c], h => by
    have hc : c ≠ '%' := by intro e; simp [wfk, e] at h
    simp [wfk, hc]
  | [c, x], h => by
    have hc : c ≠ '%' := by intro e; simp [wfk, e] at h
    rw [wfk_cons_ne hc] at h ⊢
    have hx : x ≠ '%' := by intro e; simp [wfk, e] at h
    simp [wfk, hx]
  | c :: x :: y :: t, h => by
    by_cases hc : c = '%'
    · subst hc
      simp only [wfk, if_true] at h ⊢
      cases hx : hexVal? x <;> cases hy : hexVal? y <;> simp only [hx, hy] at h ⊢ <;> try (simp at h; done)
      simp only [Bool.and_eq_true] at h
      simp [tbl, wfk_mono t h.2]
    · rw [wfk_cons_ne hc] at h ⊢
      exact wfk_mono (x :: y :: t) h

theorem unquote_upSpec {keep : List Bool} (hk : KeepOK keep) : ∀ (u seg : Str),
    wfk keep seg.reverse = true → wellFormed u = true →
    unquote (upSpec keep u seg) = unquote (seg.reverse ++ u)
  | [], seg, hseg, _ => by
    simp only [upSpec, List.append_nil]
    exact unquote_idem hk _ hseg
  | [c], seg, hseg, hs => by
    have hc : c ≠ '%' := by intro e; simp [wellFormed, wfk, e] at hs
    rw [upSpec_cons_ne hc]
    have := unquote_upSpec hk [] (c :: seg) (by
      simp only [List.reverse_cons]; rw [wfk_append _ _ hseg]; simp [wfk, hc]) rfl
    simpa using this
  | [c, x], seg, hseg, hs => by
    have hc : c ≠ '%' := by intro e; simp [wellFormed, wfk, e] at hs
    rw [wellFormed_cons_ne hc] at hs
    rw [upSpec_cons_ne hc]
    have := unquote_upSpec hk [x] (c :: seg) (by
      simp only [List.reverse_cons]; rw [wfk_append _ _ hseg]; simp [wfk, hc]) hs
    simpa using this
  | c :: x :: y :: t, seg, hseg, hs => by
    by_cases hc : c = '%'
    · subst hc
      simp only [wellFormed, wfk, if_true] at hs
      cases hx : hexVal? x <;> cases hy : hexVal? y <;> simp only [hx, hy] at hs <;> try (simp at hs; done)
      rename_i hi lo
      simp only [Bool.and_eq_true] at hs
      have hst : wellFormed t = true := hs.2
      simp only [upSpec, if_true, hx, hy]
      by_cases hkept : tbl keep (16 * hi + lo) = true
      · simp only [hkept, if_true]
        have hv : 16 * hi + lo < 128 := by
          have h1 := hexVal_lt hx
          have h2 := hexVal_lt hy
          by_cases hlt : 16 * hi + lo < 128
          · exact hlt
          · have := hk.2 (16 * hi + lo) (by omega) (by omega)
            rw [hkept] at this; cases this
        have ih := unquote_upSpec hk t [] rfl hst
        simp only [List.reverse_nil, List.nil_append] at ih
        rw [unquote_split hx hy hv _ _ _ (Nat.le_refl _) (wfk_mono _ (wfk_unquote hk _ hseg)),
          unquote_idem hk _ hseg, ih,
          unquote_split hx hy hv _ _ _ (Nat.le_refl _) (wfk_mono _ hseg)]
      · simp only [hkept, Bool.false_eq_true, if_false]
        have := unquote_upSpec hk t (y :: x :: '%' :: seg) (by
          simp only [List.reverse_cons, List.append_assoc, List.cons_append, List.nil_append]
          rw [wfk_append _ _ hseg]
          simp [wfk, hx, hy, hkept]) hst
        simpa using this
    · rw [wellFormed_cons_ne hc] at hs
      rw [upSpec_cons_ne hc]
      have := unquote_upSpec hk (x :: y :: t) (c :: seg) (by
        simp only [List.reverse_cons]; rw [wfk_append _ _ hseg]; simp [wfk, hc]) hs
      simpa using this

/-- **Full unquoting absorbs partial unquoting**: for text of the `%XX` grammar, what
`_unquote_partial` leaves quoted still denotes the same characters. -/
theorem unquote_unquotePartial {keep : List Bool} (hk : KeepOK keep) (u : Str) (hu : wellFormed u = true) :
    unquote (unquotePartial keep u) = unquote u := by
  rw [unquotePartial_eq]
  have := unquote_upSpec hk u [] rfl hu
  simpa using this

/-- the path text of `get_current_url` denotes `root_path.rstrip("/") + "/" + path.lstrip("/")` -/
theorem unquote_curPathText (root path : Str) :
    unquote (curPathText root path) = rstripSlash root ++ '/' :: lstripSlash path := by
  have hascii : ∀ c ∈ curPathText root path, c.toNat < 128 := by
    intro c hc
    unfold curPathText at hc
    rcases List.mem_append.mp hc with hc | hc
    · exact quoteBytes_ascii _ _ c hc
    · rcases List.mem_cons.mp hc with rfl | hc
      · decide
      · exact quoteBytes_ascii _ _ c hc
  rw [unquote_ascii hascii]
  unfold curPathText quote
  have e : toBytes (quoteBytes Gen.UrlTables.curRootSafe (utf8Enc (rstripSlash root)) ++
      '/' :: quoteBytes Gen.UrlTables.curPathSafe (utf8Enc (lstripSlash path)))
      = toBytes (quoteBytes Gen.UrlTables.curRootSafe (utf8Enc (rstripSlash root))) ++
        (0x2F :: (toBytes (quoteBytes Gen.UrlTables.curPathSafe (utf8Enc (lstripSlash path))) ++ [])) := by
    simp [toBytes]
  rw [e, unquoteBytes_quoteBytes_all cur_no_pct.1, unquoteBytes_cons_ne (by decide),
    unquoteBytes_quoteBytes_all cur_no_pct.2]
  have e2 : utf8Enc (rstripSlash root) ++ 0x2F :: (utf8Enc (lstripSlash path) ++ unquoteBytes [])
      = utf8Enc (rstripSlash root ++ '/' :: lstripSlash path) := by
    simp [utf8Enc, unquoteBytes, utf8EncodeChar_ascii (show ('/' : Char).toNat < 128 by decide)]
  rw [e2]
  exact decode_utf8Enc render (fun _ _ => rfl) _

theorem dropWhile_self {q : Char → Bool} {s : Str} (h : ∀ c, s.head? = some c → q c = false) :
    s.dropWhile q = s := by
  cases s with
  | nil => rfl
  | cons x t => simp [List.dropWhile, h x (by simp)]

/-- the environ of a request whose SCRIPT_NAME / PATH_INFO / QUERY_STRING are the dances of the
given texts -/
def danceEnviron (scheme host root p qs : Str) : Environ :=
  { scriptName := encodingDance root
    pathInfo := encodingDance p
    queryString := encodingDance qs
    httpHost := host
    urlScheme := scheme }

theorem rstripSlash_idem (s : Str) : rstripSlash (rstripSlash s) = rstripSlash s := by
  unfold rstripSlash
  simp only [List.reverse_reverse]
  congr 1
  apply dropWhile_self
  intro c hc
  have := List.head?_dropWhile_not (fun c => c == '/') s.reverse
  rw [hc] at this
  simpa using this

theorem lstripSlash_cons (p : Str) : lstripSlash ('/' :: lstripSlash p) = lstripSlash p := by
  unfold lstripSlash
  simp only [List.dropWhile_cons, beq_self_eq_true, if_true]
  apply dropWhile_self
  intro c hc
  have := List.head?_dropWhile_not (fun c => c == '/') p
  rw [hc] at this
  simpa using this

theorem getCurrentUrl_eq_opt (o : UrlOpaque) (scheme host root path : Str) (q : Bytes) :
    getCurrentUrl o scheme host root path q = getCurrentUrlOpt o scheme host (some root) (some path) q := by
  simp [getCurrentUrl, getCurrentUrlOpt, List.append_assoc]

/-- `werkzeug.wsgi.get_current_url(environ)` is `Request(environ).url`: the environ-level function
applies the same dances, and the normalisation `Request` applies to SCRIPT_NAME / PATH_INFO
(`rstrip("/")`, `"/" + lstrip("/")`) is absorbed by `get_current_url`'s own stripping. -/
theorem wsgiCurrentUrl_eq_request_url (o : UrlOpaque) (e : Environ) :
    wsgiCurrentUrl o e false false false = (requestView o e).map (fun r => r.url) := by
  unfold wsgiCurrentUrl requestView
  cases decodingDance e.scriptName <;> cases decodingDance e.pathInfo <;>
    cases Py.latin1Enc e.queryString <;> try rfl
  rename_i root p q
  simp only [Bool.false_eq_true, if_false, Bool.or_self, getCurrentUrl_eq_opt]
  have h : getCurrentUrlOpt o e.urlScheme (getHost e.urlScheme e.httpHost) (some (rstripSlash root))
      (some ('/' :: lstripSlash p)) q
      = getCurrentUrlOpt o e.urlScheme (getHost e.urlScheme e.httpHost) (some root) (some p) q := by
    simp only [getCurrentUrlOpt, rstripSlash_idem, lstripSlash_cons]
  rw [h]
  cases getCurrentUrlOpt o e.urlScheme (getHost e.urlScheme e.httpHost) (some root) (some p) q <;> rfl

/-- **What the request reports as its URL denotes its root path, path and query.** For an environ
whose SCRIPT_NAME / PATH_INFO / QUERY_STRING are the latin-1 dances of `root`, `p`, `qs`, whose
host is a URI-form netloc without userinfo that `get_host` leaves alone: `Request.url` is
produced, splits back, its path component unquotes to exactly `root_path + path`, its query
component unquotes to what the query string unquotes to, scheme and port are kept, the host is the
decoded host. -/
theorem request_url_denotes {o : UrlOpaque} (laws : HostLaws o)
    (kt : KeepOK Gen.UrlTables.keepPath ∧ KeepOK Gen.UrlTables.keepQuery ∧
      KeepOK Gen.UrlTables.keepFragment ∧ KeepOK Gen.UrlTables.keepUser)
    {scheme ha hu root p qs : Str} {port : Option Nat}
    (ci : CurInput o scheme ha port (rstripSlash root) (utf8Enc qs)) (hconv : o.hostToUnicode ha = some hu)
    (hgh : getHost scheme (hostBr ha ++ portText port) = hostBr ha ++ portText port) :
    ∃ rv t, requestView o (danceEnviron scheme (hostBr ha ++ portText port) root p qs) = .ok rv ∧
      rv.path = '/' :: lstripSlash p ∧ rv.rootPath = rstripSlash root ∧
      urlsplit o rv.url = .ok t ∧ t.scheme = scheme ∧ t.netloc = hostBr hu ++ portText port ∧
      unquote t.path = rv.rootPath ++ rv.path ∧
      unquote t.query = unquote (quote Gen.UrlTables.curQuerySafe qs) ∧ t.fragment = [] := by
  obtain ⟨r, hr, hsplit⟩ := getCurrentUrl_splits laws kt (path := '/' :: lstripSlash p) ci hconv
  refine ⟨⟨'/' :: lstripSlash p, rstripSlash root, hostBr ha ++ portText port, r⟩, _, ?_, rfl, rfl, hsplit,
    rfl, rfl, ?_, ?_, rfl⟩
  · unfold requestView danceEnviron
    simp only [dance_roundtrip']
    have hq : Py.latin1Enc (encodingDance qs) = some (utf8Enc qs) := latin1Enc_latin1Dec _
    simp only [hq, hgh, hr]
  · simp only
    rw [unquote_unquotePartial kt.1 _ (curPathText_facts _ _ ci.root_form).2.2.2.2, unquote_curPathText,
      rstripSlash_idem, lstripSlash_cons]
  · simp only
    rw [unquote_unquotePartial kt.2.1 _ ci.query_wf]
    rfl

end Wz.Url
