/-
Helper lemmas for Props/C20T (translated `werkzeug.sansio.utils` functions against the
hand-written model of `Model/Debugger.lean`): facts about the model and the prelude that do not
mention the generated definitions.
-/
import WzVerif.Model.Debugger
import WzVerif.Lemmas.PyFns_Prelude
namespace Wz.PyFnsHost
open Wz Wz.Pre

theorem find_singleton_not_mem [BEq α] [LawfulBEq α] (c : α) (s : List α) (h : c ∉ s) :
    find s [c] = -1 := by
  simp [find, findIdx?_singleton_not_mem c s h]

theorem find_singleton_append [BEq α] [LawfulBEq α] (c : α) (pre post : List α) (h : c ∉ pre) :
    find (pre ++ c :: post) [c] = (pre.length : Int) := by
  simp [find, findIdx?_singleton_append c pre post h]

/-- the model's fall-through arm: a host that does not start with `[` -/
theorem stripPort_other (x : Char) (rest : List Char) (hx : x ≠ '[') :
    Dbg.stripPort (x :: rest) = Dbg.beforeColon (x :: rest) := by
  unfold Dbg.stripPort
  split
  · rename_i h; simp at h; exact absurd h.1 hx
  · rfl

/-- the Bool a function returns after a loop whose fall-through answer is `False` -/
def loopVal : Pre.Loop Bool Unit → Bool
  | .ret r => r
  | .fall () => false

@[simp] theorem loopVal_ret (r : Bool) : loopVal (.ret r) = r := rfl
@[simp] theorem loopVal_fall : loopVal (.fall ()) = false := rfl

theorem loopVal_ite (c : Prop) [Decidable c] (a b : Pre.Loop Bool Unit) :
    loopVal (if c then a else b) = if c then loopVal a else loopVal b := by
  split <;> rfl

theorem refParts_dot (t : List Char) : Dbg.refParts ('.' :: t) = (true, t) := rfl
theorem refParts_nil : Dbg.refParts [] = (false, []) := rfl
theorem refParts_other (x : Char) (t : List Char) (h : x ≠ '.') :
    Dbg.refParts (x :: t) = (false, x :: t) := by
  unfold Dbg.refParts
  split
  · rename_i h'; simp at h'; exact absurd h'.1 h
  · rfl

end Wz.PyFnsHost
