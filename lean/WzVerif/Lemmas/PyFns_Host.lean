/-
Helper lemmas for Props/C20T (translated `werkzeug.sansio.utils` functions against the
hand-written model of `Model/Debugger.lean`): facts about the model and the prelude that do not
mention the generated definitions.
-/
import WzVerif.Model.Debugger
import WzVerif.Lemmas.PyFns_Prelude
namespace Wz.PyFnsHost
open Wz Wz.Pre

theorem find_singleton_not_mem [BEq α] [LawfulBEq α] (c : α) (s : List α) (h : c ∉ s) :
    find s [c] = -1 := by
  simp [find, findIdx?_singleton_not_mem c s h]

theorem find_singleton_append [BEq α] [LawfulBEq α] (c : α) (pre post : List α) (h : c ∉ pre) :
    find (pre ++ c :: post) [c] = (pre.length : Int) := by
  simp [find, findIdx?_singleton_append c pre post h]

/-- the model's fall-through arm: a host that does not start with `[` -/
theorem stripPort_other (x : Char) (rest : List Char) (hx : x ≠ '[') :
    Dbg.stripPort (x :: rest) = Dbg.beforeColon (x :: rest) := by
  unfold Dbg.stripPort
  split
  · rename_i h; simp at h; exact absurd h.1 hx
  · rfl

/-- the Bool a function returns after a loop whose fall-through answer is `False` -/
def loopVal : Pre.Loop Bool Unit → Bool
  | .ret r => r
  | .fall () => false

@[simp] theorem loopVal_ret (r : Bool) : loopVal (.ret r) = r := rfl
@[simp] theorem loopVal_fall : loopVal (.fall ()) = false := rfl

theorem loopVal_ite (c : Prop) [Decidable c] (a b : Pre.Loop Bool Unit) :
    loopVal (if c then a else b) = if c then loopVal a else loopVal b := by
  split <;> rfl

theorem refParts_dot (t : List Char) : Dbg.refParts ('.' :: t) = (true, t) := rfl
theorem refParts_nil : Dbg.refParts [] = (false, []) := rfl
theorem refParts_other (x : Char) (t : List Char) (h : x ≠ '.') :
    Dbg.refParts (x :: t) = (false, x :: t) := by
  unfold Dbg.refParts
  split
  · rename_i h'; simp at h'; exact absurd h'.1 h
  · rfl

/-! ### `get_host`: the shared tail (default-port stripping, trust check) and the host text -/

theorem ite_not_swap {α : Type} (b : Bool) (x y : α) :
    (if (!b) = true then x else y) = if b = true then y else x := by
  cases b <;> rfl

theorem tail_none (scheme host : List Char) :
      (if ((scheme == ['h', 't', 't', 'p'] || scheme == ['w', 's']) && (Pre.endswith host [':', '8', '0'])) = true then
        (Except.ok (slice host none (some (-3))) : Except String (List Char))
      else
        Except.ok (if ((scheme == ['h', 't', 't', 'p', 's'] || scheme == ['w', 's', 's']) && (Pre.endswith host [':', '4', '4', '3'])) = true then slice host none (some (-4)) else host))
      = .ok (Dbg.stripDefaultPort scheme host) := by
  have e80 : ":80".toList = [':', '8', '0'] := by decide
  have e443 : ":443".toList = [':', '4', '4', '3'] := by decide
  have eh : "http".toList = ['h', 't', 't', 'p'] := by decide
  have ew : "ws".toList = ['w', 's'] := by decide
  have ehs : "https".toList = ['h', 't', 't', 'p', 's'] := by decide
  have ews : "wss".toList = ['w', 's', 's'] := by decide
  have s3 : ∀ h : List Char, slice h none (some (-3)) = h.take (h.length - 3) := fun h => slice_none_neg h 3 (by decide)
  have s4 : ∀ h : List Char, slice h none (some (-4)) = h.take (h.length - 4) := fun h => slice_none_neg h 4 (by decide)
  unfold Dbg.stripDefaultPort Dbg.endsWith Pre.endswith
  simp only [e80, e443, eh, ew, ehs, ews, s3, s4]
  split <;> simp_all

theorem tail_some (idna : Dbg.Idna) (scheme host : List Char) (tl : List (List Char)) :
      (if ((scheme == ['h', 't', 't', 'p'] || scheme == ['w', 's']) && (Pre.endswith host [':', '8', '0'])) = true then
        (if (!(Dbg.hostIsTrusted idna (some (slice host none (some (-3)))) tl)) = true then Except.error "SecurityError" else Except.ok (slice host none (some (-3))))
      else
        (if (!(Dbg.hostIsTrusted idna (some (if ((scheme == ['h', 't', 't', 'p', 's'] || scheme == ['w', 's', 's']) && (Pre.endswith host [':', '4', '4', '3'])) = true then slice host none (some (-4)) else host)) tl)) = true then Except.error "SecurityError" else Except.ok (if ((scheme == ['h', 't', 't', 'p', 's'] || scheme == ['w', 's', 's']) && (Pre.endswith host [':', '4', '4', '3'])) = true then slice host none (some (-4)) else host)))
      = (if Dbg.hostIsTrusted idna (some (Dbg.stripDefaultPort scheme host)) tl = true then .ok (Dbg.stripDefaultPort scheme host) else .error "SecurityError") := by
  have e80 : ":80".toList = [':', '8', '0'] := by decide
  have e443 : ":443".toList = [':', '4', '4', '3'] := by decide
  have eh : "http".toList = ['h', 't', 't', 'p'] := by decide
  have ew : "ws".toList = ['w', 's'] := by decide
  have ehs : "https".toList = ['h', 't', 't', 'p', 's'] := by decide
  have ews : "wss".toList = ['w', 's', 's'] := by decide
  have s3 : ∀ h : List Char, slice h none (some (-3)) = h.take (h.length - 3) := fun h => slice_none_neg h 3 (by decide)
  have s4 : ∀ h : List Char, slice h none (some (-4)) = h.take (h.length - 4) := fun h => slice_none_neg h 4 (by decide)
  unfold Dbg.stripDefaultPort Dbg.endsWith Pre.endswith
  simp only [e80, e443, eh, ew, ehs, ews, s3, s4, ite_not_swap]
  split <;> simp_all

/-- the host text `get_host` starts from -/
def hostText (hostHeader : Option (List Char)) (server : Option (List Char × Option Nat)) : List Char :=
  match hostHeader with
  | some h => h
  | none =>
    match server with
    | none => []
    | some (name, port) =>
      let name := if name.contains ':' && name.head? != some '[' then '[' :: name ++ [']'] else name
      match port with
      | some p => name ++ ':' :: (toString p).toList
      | none => name

theorem getHost_none (idna : Dbg.Idna) (scheme : List Char) (hostHeader : Option (List Char))
    (server : Option (List Char × Option Nat)) :
    Dbg.getHost idna scheme hostHeader server none = .ok (Dbg.stripDefaultPort scheme (hostText hostHeader server)) := rfl

theorem getHost_some (idna : Dbg.Idna) (scheme : List Char) (hostHeader : Option (List Char))
    (server : Option (List Char × Option Nat)) (tl : List (List Char)) :
    Dbg.getHost idna scheme hostHeader server (some tl) =
      if Dbg.hostIsTrusted idna (some (Dbg.stripDefaultPort scheme (hostText hostHeader server))) tl = true
      then .ok (Dbg.stripDefaultPort scheme (hostText hostHeader server)) else .error "SecurityError" := rfl

end Wz.PyFnsHost
