/-
Encoder output decoded by the decoder (C02, single shot). Core Lean only.
-/
import WzVerif.Lemmas.HeaderBlock
import WzVerif.Lemmas.Utf8Facts
import WzVerif.Lemmas.FormOptions
namespace Wz.Multipart
open Wz Wz.Utf8Facts

/-! ### header lines -/

def NoNlChars (s : Str) : Prop := '\r' ∉ s ∧ '\n' ∉ s

/-- first and last character are not white space (what `strip()` would remove); not empty -/
def edgeOk (s : Str) : Bool :=
  match s.head?, s.getLast? with
  | some a, some b => !Py.isSpace a && !Py.isSpace b
  | _, _ => false

/-- a header (name, value) the encoder can write and the decoder reads back unchanged -/
def HeaderOk (kv : Str × Str) : Prop :=
  edgeOk kv.1 = true ∧ edgeOk kv.2 = true ∧ NoNlChars kv.1 ∧ NoNlChars kv.2 ∧ ':' ∉ kv.1

instance (s : Str) : Decidable (NoNlChars s) := by unfold NoNlChars; infer_instance
instance (kv : Str × Str) : Decidable (HeaderOk kv) := by unfold HeaderOk; infer_instance

/-- the bytes of one header line (without the CRLF) -/
def lineOf (kv : Str × Str) : Bytes := utf8Enc (kv.1 ++ ':' :: ' ' :: kv.2)

theorem edgeOk_split {s : Str} (h : edgeOk s = true) :
    ∃ a t, s = a :: t ∧ Py.isSpace a = false ∧ ∃ i b, s = i ++ [b] ∧ Py.isSpace b = false := by
  unfold edgeOk at h
  cases s with
  | nil => simp at h
  | cons a t =>
    have hl : (a :: t).getLast? = some ((a :: t).getLast (by simp)) := List.getLast?_eq_some_getLast (by simp)
    rw [hl] at h
    simp at h
    refine ⟨a, t, rfl, h.1, (a :: t).dropLast, (a :: t).getLast (by simp), ?_, h.2⟩
    exact (List.dropLast_concat_getLast (by simp)).symm

theorem bytesSpace_of_char : ∀ n, n < 128 → Py.isSpace (Char.ofNat n) = false →
    isBytesSpace (UInt8.ofNat n) = false := by decide

theorem bytesSpace_high : ∀ n, n < 256 → 128 ≤ n → isBytesSpace (UInt8.ofNat n) = false := by
  decide +kernel

theorem head_not_space (a : Char) (t : Str) (h : Py.isSpace a = false) :
    ∃ b r, utf8Enc (a :: t) = b :: r ∧ isBytesSpace b = false := by
  rcases utf8Enc_head a t with ⟨b, r, he, hc⟩
  refine ⟨b, r, he, ?_⟩
  split at hc
  · rename_i hlt
    subst hc
    have := bytesSpace_of_char a.toNat hlt (by rw [Char.ofNat_toNat]; exact h)
    exact this
  · have := bytesSpace_high b.toNat b.toNat_lt hc
    rwa [UInt8.ofNat_toNat] at this

theorem last_not_space (i : Str) (a : Char) (h : Py.isSpace a = false) :
    ∃ r b, utf8Enc (i ++ [a]) = r ++ [b] ∧ isBytesSpace b = false := by
  rcases utf8Enc_last i a with ⟨r, b, he, hc⟩
  refine ⟨r, b, he, ?_⟩
  split at hc
  · rename_i hlt
    subst hc
    exact bytesSpace_of_char a.toNat hlt (by rw [Char.ofNat_toNat]; exact h)
  · have := bytesSpace_high b.toNat b.toNat_lt hc
    rwa [UInt8.ofNat_toNat] at this

theorem hasNl_utf8Enc {s : Str} (h : NoNlChars s) : hasNl (utf8Enc s) = false := by
  unfold hasNl
  rw [List.any_eq_false]
  intro b hb hn
  rcases isNl_iff.1 hn with h1 | h1 <;> subst h1
  · exact h.2 (by simpa using (mem_utf8Enc_ascii s 10 (by decide)).1 hb)
  · exact h.1 (by simpa using (mem_utf8Enc_ascii s 13 (by decide)).1 hb)

theorem lineOk_of_headerOk {kv : Str × Str} (h : HeaderOk kv) : LineOk (lineOf kv) := by
  rcases kv with ⟨k, v⟩
  rcases h with ⟨hk, hv, hnk, hnv, _⟩
  rcases edgeOk_split hk with ⟨a, t, rfl, ha, _⟩
  rcases edgeOk_split hv with ⟨_, _, _, _, i, b, rfl, hbsp⟩
  have hnl : NoNlChars ((a :: t) ++ ':' :: ' ' :: (i ++ [b])) := by
    constructor
    · intro hm
      simp only [List.mem_append, List.mem_cons] at hm
      rcases hm with hm | hm | hm | hm
      · exact hnk.1 (by simpa using hm)
      · exact absurd hm (by decide)
      · exact absurd hm (by decide)
      · exact hnv.1 (by simpa using hm)
    · intro hm
      simp only [List.mem_append, List.mem_cons] at hm
      rcases hm with hm | hm | hm | hm
      · exact hnk.2 (by simpa using hm)
      · exact absurd hm (by decide)
      · exact absurd hm (by decide)
      · exact hnv.2 (by simpa using hm)
  rcases head_not_space a (t ++ ':' :: ' ' :: (i ++ [b])) ha with ⟨b0, r0, he0, hs0⟩
  have hlast : (a :: t) ++ ':' :: ' ' :: (i ++ [b]) = ((a :: t) ++ ':' :: ' ' :: i) ++ [b] := by simp
  rcases last_not_space ((a :: t) ++ ':' :: ' ' :: i) b hbsp with ⟨r1, b1, he1, hs1⟩
  unfold lineOf
  refine ⟨?_, hasNl_utf8Enc hnl, ?_, ?_⟩
  · simp only [List.cons_append] at he0 ⊢; rw [he0]; simp
  · simp only [List.cons_append] at he0 ⊢; rw [he0]; simpa using hs0
  · simp only at hlast ⊢
    rw [hlast, he1]; simpa using hs1

/-! ### one parsed line -/

theorem strip_edgeOk {s : Str} (h : edgeOk s = true) : Py.strip s = s := by
  rcases edgeOk_split h with ⟨a, t, hs, ha, i, b, hs2, hb⟩
  unfold Py.strip
  have h1 : s.dropWhile Py.isSpace = s := by rw [hs]; simp [List.dropWhile, ha]
  rw [h1, hs2]
  simp [Py.rstripBy, hb]

theorem strip_space_edgeOk {s : Str} (h : edgeOk s = true) : Py.strip (' ' :: s) = s := by
  rcases edgeOk_split h with ⟨a, t, hs, ha, i, b, hs2, hb⟩
  unfold Py.strip
  have hsp : Py.isSpace ' ' = true := by decide
  have h1 : (' ' :: s).dropWhile Py.isSpace = s := by rw [hs]; simp [List.dropWhile, hsp, ha]
  rw [h1, hs2]
  simp [Py.rstripBy, hb]

theorem partitionColon_line {k v : Str} (h : ':' ∉ k) :
    partitionColon (k ++ ':' :: ' ' :: v) = (k, ' ' :: v) := by
  have hall : ∀ c ∈ k, (c != ':') = true := by
    intro c hc; simp; intro he; subst he; exact h hc
  have hcol : ((':' : Char) != ':') = false := by decide
  unfold partitionColon
  rw [List.takeWhile_append_of_pos hall, List.dropWhile_append_of_pos hall]
  simp

/-- `_parse_headers` on the block of the encoder's header lines gives the headers back -/
theorem parseHeaders_block (nl : Nl) (hs : Headers) (hok : ∀ kv ∈ hs, HeaderOk kv) :
    parseHeaders (joinNl nl (hs.map lineOf)) = .ok hs := by
  have hlines : ∀ l ∈ hs.map lineOf, LineOk l := by
    intro l hl
    rcases List.mem_map.1 hl with ⟨kv, hkv, rfl⟩
    exact lineOk_of_headerOk (hok kv hkv)
  unfold parseHeaders
  rw [fold_block nl _ hlines, split_block nl _ hlines, strip_filter_block _ hlines]
  simp only
  induction hs with
  | nil => rfl
  | cons kv t ih =>
    rcases kv with ⟨k, v⟩
    have hkv := hok (k, v) (by simp)
    have ih' := ih (fun x hx => hok x (by simp [hx]))
      (fun l hl => hlines l (by simp only [List.map_cons, List.mem_cons]; exact Or.inr hl))
    simp only [List.map_cons, List.foldr_cons]
    rw [ih']
    simp only [lineOf, utf8Dec_utf8Enc, partitionColon_line hkv.2.2.2.2, strip_edgeOk hkv.1,
      strip_space_edgeOk hkv.2.1]

/-! ### what the encoder writes -/

def kCD : Str := "Content-Disposition".toList

/-- the Content-Disposition header of a part -/
def cdHeader (n : Str) (f : Option Str) : Str × Str := (kCD, FormOptions.dispositionValue n f)

/-- a part the encoder can write and the decoder reads back (decidable): a name, names free of
`"`, `\`, `%22`, CR, LF; `isFile` iff there is a filename; extra headers that survive a header
line and are not Content-Disposition; a payload none of whose lines starts with `--boundary` and which is free of the other newline kind
(`nl` is the line break the body uses: CRLF as the encoder writes it, or bare LF / bare CR) -/
def ValidPart (nl : Nl) (bnd : Bytes) (p : Part) : Prop :=
  match p.name with
  | none => False
  | some n =>
    FormOptions.NameOk n ∧ NoNlChars n ∧
    (match p.filename with
     | none => True
     | some f => FormOptions.NameOk f ∧ NoNlChars f) ∧
    p.isFile = p.filename.isSome ∧
    (∀ kv ∈ p.headers, HeaderOk kv ∧ lowerAscii kv.1 ≠ "content-disposition".toList) ∧
    PayloadOkNl nl bnd p.payload

instance (nl : Nl) (bnd : Bytes) (p : Part) : Decidable (ValidPart nl bnd p) := by
  unfold ValidPart
  cases p.name with
  | none => exact isFalse (fun h => h)
  | some n =>
    cases p.filename with
    | none => simp only; infer_instance
    | some f => simp only; infer_instance

/-- the header block of a part as bytes (lines joined by the line break) -/
def hdrBlock (nl : Nl) (n : Str) (p : Part) : Bytes :=
  joinNl nl ((cdHeader n p.filename :: p.headers).map lineOf)

/-- the body line break and the payload (nothing at all for an empty payload) -/
def framedNl (nl : Nl) (payload : Bytes) : Bytes := if payload.isEmpty then [] else nl.bytes ++ payload

/-- one part on the wire (`nl = .crlf`: what the encoder writes) -/
def encPart (nl : Nl) (bnd : Bytes) (n : Str) (p : Part) : Bytes :=
  nl.bytes ++ (delim bnd ++ (nl.bytes ++ (hdrBlock nl n p ++ (nl.bytes ++ framedNl nl p.payload))))

theorem joinCrlf_flatten (l0 : Bytes) (ls : List Bytes) :
    l0 ++ crlf ++ (ls.map fun l => l ++ crlf).flatten = joinNl .crlf (l0 :: ls) ++ crlf := by
  induction ls generalizing l0 with
  | nil => simp [joinNl]
  | cons l t ih =>
    simp only [List.map_cons, List.flatten_cons, joinNl_cons_cons]
    rw [ih l]
    simp [crlf, Nl.bytes]

theorem str_cd_name : str "Content-Disposition: form-data; name=\"" =
    utf8Enc (kCD ++ ':' :: ' ' :: (FormOptions.kFormData ++ ';' :: ' ' :: (FormOptions.kName ++ ['=', '"']))) := by
  decide +kernel

theorem str_filename : str "; filename=\"" = utf8Enc (';' :: ' ' :: (FormOptions.kFilename ++ ['=', '"'])) := by
  decide +kernel

theorem utf8Enc_quote : utf8Enc ['"'] = [34] := by decide +kernel

/-- the Content-Disposition line as the encoder assembles it -/
theorem cd_line (n : Str) (f : Option Str) :
    (match f with
     | some f => str "Content-Disposition: form-data; name=\"" ++ utf8Enc n ++ [34] ++ str "; filename=\"" ++ utf8Enc f ++ [34]
     | none => str "Content-Disposition: form-data; name=\"" ++ utf8Enc n ++ [34]) =
    lineOf (cdHeader n f) := by
  cases f with
  | none =>
    simp only [lineOf, cdHeader, FormOptions.dispositionValue]
    rw [str_cd_name, ← utf8Enc_quote]
    simp only [← utf8Enc_append]
    congr 1
  | some f =>
    simp only [lineOf, cdHeader, FormOptions.dispositionValue]
    rw [str_cd_name, str_filename, ← utf8Enc_quote]
    simp only [← utf8Enc_append]
    congr 1
    simp

theorem filter_headers_valid {hs : Headers}
    (h : ∀ kv ∈ hs, HeaderOk kv ∧ lowerAscii kv.1 ≠ "content-disposition".toList) :
    hs.filter (fun (k, _) => lowerAscii k != "content-disposition".toList) = hs := by
  rw [List.filter_eq_self]
  intro kv hkv
  rcases kv with ⟨k, v⟩
  have := (h (k, v) hkv).2
  simpa using this

/-- `send_event(Field/File)` in the states where it is allowed -/
theorem sendEvent_part {bnd : Bytes} {p : Part} {n : Str} {st : State} (hst : st = .part ∨ st = .data)
    (hn : p.name = some n)
    (hh : ∀ kv ∈ p.headers, HeaderOk kv ∧ lowerAscii kv.1 ≠ "content-disposition".toList) :
    sendEvent bnd st (partHeadEvent p) =
      .ok (13 :: 10 :: (delim bnd ++ 13 :: 10 :: (hdrBlock .crlf n p ++ [13, 10])), .dataStart) := by
  have hstb : (st == .preamble || st == .part || st == .data) = true := by
    rcases hst with h | h <;> subst h <;> rfl
  have hline := cd_line n p.filename
  have hjoin := joinCrlf_flatten (lineOf (cdHeader n p.filename)) (p.headers.map lineOf)
  simp only [List.map_map] at hjoin
  cases hf : p.filename with
  | none =>
    rw [hf] at hline hjoin
    simp only [partHeadEvent, hf, sendEvent, hstb, if_true, hn, filter_headers_valid hh]
    simp only at hline
    rw [show (crlf ++ 45 :: 45 :: bnd ++ crlf ++ str "Content-Disposition: form-data; name=\"" ++ utf8Enc n ++ [34] : Bytes) =
      crlf ++ 45 :: 45 :: bnd ++ crlf ++ (str "Content-Disposition: form-data; name=\"" ++ utf8Enc n ++ [34]) by simp]
    rw [hline]
    simp only [hdrBlock, hf, List.map_cons]
    have e : ∀ (a b c : Bytes), crlf ++ 45 :: 45 :: bnd ++ crlf ++ a ++ crlf ++ b =
        13 :: 10 :: (delim bnd ++ 13 :: 10 :: (a ++ crlf ++ b)) := by
      intro a b c; simp [crlf, delim]
    rw [e _ _ []]
    have hj : lineOf (cdHeader n none) ++ crlf ++
        (p.headers.map fun (kv : Str × Str) => utf8Enc (kv.1 ++ ':' :: ' ' :: kv.2) ++ crlf).flatten =
        joinNl .crlf (lineOf (cdHeader n none) :: p.headers.map lineOf) ++ crlf := by
      have := hjoin
      simpa [Function.comp_def, lineOf] using this
    rw [hj]; rfl
  | some f =>
    rw [hf] at hline hjoin
    simp only [partHeadEvent, hf, sendEvent, hstb, if_true, hn, filter_headers_valid hh]
    simp only at hline
    rw [show (crlf ++ 45 :: 45 :: bnd ++ crlf ++ str "Content-Disposition: form-data; name=\"" ++ utf8Enc n ++ [34] ++
        str "; filename=\"" ++ utf8Enc f ++ [34] : Bytes) =
      crlf ++ 45 :: 45 :: bnd ++ crlf ++ (str "Content-Disposition: form-data; name=\"" ++ utf8Enc n ++ [34] ++
        str "; filename=\"" ++ utf8Enc f ++ [34]) by simp]
    rw [hline]
    simp only [hdrBlock, hf, List.map_cons]
    have e : ∀ (a b c : Bytes), crlf ++ 45 :: 45 :: bnd ++ crlf ++ a ++ crlf ++ b =
        13 :: 10 :: (delim bnd ++ 13 :: 10 :: (a ++ crlf ++ b)) := by
      intro a b c; simp [crlf, delim]
    rw [e _ _ []]
    have hj : lineOf (cdHeader n (some f)) ++ crlf ++
        (p.headers.map fun (kv : Str × Str) => utf8Enc (kv.1 ++ ':' :: ' ' :: kv.2) ++ crlf).flatten =
        joinNl .crlf (lineOf (cdHeader n (some f)) :: p.headers.map lineOf) ++ crlf := by
      have := hjoin
      simpa [Function.comp_def, lineOf] using this
    rw [hj]; rfl

/-! ### the whole encoder output -/

def nameOf (p : Part) : Str := p.name.getD []

variable {nl : Nl} {ep : Bytes}

/-- the closing delimiter followed by whatever comes after `--boundary--` (`ep`; the encoder writes
CRLF, a client may add an epilogue or omit the line break) -/
def closing (nl : Nl) (bnd ep : Bytes) : Bytes := nl.bytes ++ (delim bnd ++ 45 :: 45 :: ep)

/-- what is left of `ep` once the closing delimiter (with its padding and line break) is consumed -/
def epiOf (ep : Bytes) : Bytes := ep.drop ((ep.takeWhile isHws).length + lbLen (ep.dropWhile isHws))

/-- what the encoder writes after `--boundary--` -/
def stdEp : Bytes := [13, 10]

/-- the body `encodeAll` produces -/
def encBody (nl : Nl) (bnd ep : Bytes) : List Part → Bytes
  | [] => closing nl bnd ep
  | p :: ps => encPart nl bnd (nameOf p) p ++ encBody nl bnd ep ps

theorem validPart_name {bnd : Bytes} {p : Part} (h : ValidPart nl bnd p) : p.name = some (nameOf p) := by
  unfold ValidPart at h
  cases hn : p.name with
  | none => rw [hn] at h; exact absurd h (by simp)
  | some n => simp [nameOf, hn]

theorem validPart_facts {bnd : Bytes} {p : Part} (h : ValidPart nl bnd p) :
    FormOptions.NameOk (nameOf p) ∧ NoNlChars (nameOf p) ∧
    (∀ f, p.filename = some f → FormOptions.NameOk f ∧ NoNlChars f) ∧
    p.isFile = p.filename.isSome ∧
    (∀ kv ∈ p.headers, HeaderOk kv ∧ lowerAscii kv.1 ≠ "content-disposition".toList) ∧
    PayloadOkNl nl bnd p.payload := by
  have hn := validPart_name h
  unfold ValidPart at h
  rw [hn] at h
  simp only at h
  refine ⟨h.1, h.2.1, ?_, h.2.2.2.1, h.2.2.2.2.1, h.2.2.2.2.2⟩
  intro f hf
  have := h.2.2.1
  rw [hf] at this
  exact this

/-- the Data events of a part whose payload arrives in pieces: `more_data` on all but the last -/
def dataEvents (pieces : List Bytes) (last : Bytes) : List Event :=
  pieces.map (fun x => Event.data x true) ++ [.data last false]

/-- the body line break and the payload, as the encoder frames them -/
def framed (payload : Bytes) : Bytes := if payload.isEmpty then [] else 13 :: 10 :: payload

/-- in state DATA the encoder copies the data -/
theorem encodeEvents_data_tail {bnd : Bytes} (pieces : List Bytes) (last : Bytes) (rest : List Event)
    {out : Bytes} (hrest : encodeEvents bnd .data rest = .ok out) :
    encodeEvents bnd .data (dataEvents pieces last ++ rest) = .ok (pieces.flatten ++ last ++ out) := by
  induction pieces with
  | nil => simp [dataEvents, encodeEvents, sendEvent, hrest]
  | cons x t ih =>
    simp only [dataEvents, List.map_cons, List.cons_append] at ih ⊢
    simp only [encodeEvents, sendEvent]
    simp only [show (State.data == State.dataStart) = false from rfl, Bool.false_eq_true, if_false,
      show (State.data == State.data) = true from rfl, if_true]
    rw [ih]
    simp

/-- at the start of the body: nothing is written for empty chunks, the line break comes with the
first non-empty one (as repaired by d57c0c6) -/
theorem encodeEvents_data_start {bnd : Bytes} (pieces : List Bytes) (last : Bytes) (rest : List Event)
    {out : Bytes} (hrest : encodeEvents bnd .data rest = .ok out) :
    encodeEvents bnd .dataStart (dataEvents pieces last ++ rest) =
      .ok (framed (pieces.flatten ++ last) ++ out) := by
  induction pieces with
  | nil =>
    cases last with
    | nil => simp [dataEvents, encodeEvents, sendEvent, hrest, framed]
    | cons a t => simp [dataEvents, encodeEvents, sendEvent, hrest, framed, crlf]
  | cons x t ih =>
    cases x with
    | nil =>
      simp only [dataEvents, List.map_cons, List.cons_append] at ih ⊢
      simp only [encodeEvents, sendEvent]
      simp only [show (State.dataStart == State.dataStart) = true from rfl, if_true, List.length_nil,
        Nat.lt_irrefl, if_false]
      rw [ih]
      simp
    | cons a x' =>
      have htail := encodeEvents_data_tail (bnd := bnd) t last rest hrest
      simp only [dataEvents, List.map_cons, List.cons_append] at htail ⊢
      simp only [encodeEvents, sendEvent]
      simp only [show (State.dataStart == State.dataStart) = true from rfl, if_true]
      have : 0 < (a :: x').length := by simp
      simp only [gt_iff_lt, this, if_true]
      rw [htail]
      simp [framed, crlf]

theorem encodeEvents_part_chunked {bnd : Bytes} {p : Part} {st : State} (hst : st = .part ∨ st = .data)
    (hv : ValidPart .crlf bnd p) (pieces : List Bytes) (last : Bytes) (hp : pieces.flatten ++ last = p.payload)
    (rest : List Event) {out : Bytes} (hrest : encodeEvents bnd .data rest = .ok out) :
    encodeEvents bnd st (partHeadEvent p :: (dataEvents pieces last ++ rest)) =
      .ok (encPart .crlf bnd (nameOf p) p ++ out) := by
  have hs := sendEvent_part (bnd := bnd) hst (validPart_name hv) (validPart_facts hv).2.2.2.2.1
  simp only [encodeEvents, hs]
  rw [encodeEvents_data_start pieces last rest hrest, hp]
  simp only
  congr 1
  simp [encPart, framedNl, framed, Nl.bytes]

theorem encodeEvents_part {bnd : Bytes} {p : Part} {st : State} (hst : st = .part ∨ st = .data)
    (hv : ValidPart .crlf bnd p) (rest : List Event) {out : Bytes}
    (hrest : encodeEvents bnd .data rest = .ok out) :
    encodeEvents bnd st (partEvents p ++ rest) = .ok (encPart .crlf bnd (nameOf p) p ++ out) := by
  have := encodeEvents_part_chunked hst hv [] p.payload (by simp) rest hrest
  simpa [partEvents, dataEvents] using this

theorem encodeEvents_parts {bnd : Bytes} (ps : List Part) (hv : ∀ p ∈ ps, ValidPart .crlf bnd p) :
    ∀ st, st = .part ∨ st = .data →
    encodeEvents bnd st (ps.flatMap partEvents ++ [.epilogue []]) = .ok (encBody .crlf bnd stdEp ps) := by
  induction ps with
  | nil =>
    intro st hst
    rcases hst with h | h <;> subst h <;>
      simp [encodeEvents, sendEvent, encBody, closing, crlf, delim, stdEp, Nl.bytes]
  | cons p ps ih =>
    intro st hst
    have := ih (fun q hq => hv q (by simp [hq])) .data (Or.inr rfl)
    simp only [List.flatMap_cons, List.append_assoc]
    rw [encodeEvents_part hst (hv p (by simp)) _ this]
    rfl

/-- a part together with a chunking of its payload into Data events -/
abbrev ChunkedPart := Part × List Bytes × Bytes

/-- Field/File event, then one Data event per piece (`more_data` on all but the last) -/
def chunkedEvents (c : ChunkedPart) : List Event := partHeadEvent c.1 :: dataEvents c.2.1 c.2.2

theorem encodeEvents_chunked_parts {bnd : Bytes} (cs : List ChunkedPart)
    (hv : ∀ c ∈ cs, ValidPart .crlf bnd c.1 ∧ c.2.1.flatten ++ c.2.2 = c.1.payload) :
    ∀ st, st = .part ∨ st = .data →
    encodeEvents bnd st (cs.flatMap chunkedEvents ++ [.epilogue []]) = .ok (encBody .crlf bnd stdEp (cs.map (·.1))) := by
  induction cs with
  | nil =>
    intro st hst
    rcases hst with h | h <;> subst h <;>
      simp [encodeEvents, sendEvent, encBody, closing, crlf, delim, stdEp, Nl.bytes]
  | cons c cs ih =>
    intro st hst
    have := ih (fun q hq => hv q (by simp [hq])) .data (Or.inr rfl)
    have hc := hv c (by simp)
    simp only [List.flatMap_cons, chunkedEvents, List.cons_append, List.append_assoc, List.map_cons]
    rw [encodeEvents_part_chunked hst hc.1 c.2.1 c.2.2 hc.2 _ this]
    rfl

/-- **every event sequence of the shape the encoder is meant for** — `Preamble(b"")`, per part a
Field/File event and any number of Data events (`more_data` on all but the last, empty chunks
anywhere), `Epilogue(b"")` — encodes to the same bytes as one Data event per part -/
theorem encodeEvents_chunked {bnd : Bytes} (cs : List ChunkedPart)
    (hv : ∀ c ∈ cs, ValidPart .crlf bnd c.1 ∧ c.2.1.flatten ++ c.2.2 = c.1.payload) :
    encodeEvents bnd .preamble (.preamble [] :: (cs.flatMap chunkedEvents ++ [.epilogue []])) =
      .ok (encBody .crlf bnd stdEp (cs.map (·.1))) := by
  simp only [encodeEvents, sendEvent]
  simp only [beq_self_eq_true, if_true]
  rw [encodeEvents_chunked_parts cs hv .part (Or.inl rfl)]
  simp

/-- **what `encodeAll` writes** -/
theorem encodeAll_eq {bnd : Bytes} (ps : List Part) (hv : ∀ p ∈ ps, ValidPart .crlf bnd p) :
    encodeAll bnd ps = .ok (encBody .crlf bnd stdEp ps) := by
  unfold encodeAll
  simp only [encodeEvents, sendEvent]
  simp only [beq_self_eq_true, if_true]
  rw [encodeEvents_parts ps hv .part (Or.inl rfl)]
  simp

/-! ### the decoder on the encoder output: one step at a time -/

/-- a decoder without limits that has not seen the end of the input -/
def mkD (bnd buf : Bytes) (st : State) (k : Nat) : Decoder :=
  { boundary := bnd, buffer := buf, state := st, complete := false, searchPos := 0, partsDecoded := k,
    maxMem := none, maxParts := none }

/-- the buffer after the line break that ends the last header line of part `p` -/
def dataOf (nl : Nl) (bnd ep : Bytes) (p : Part) (ps : List Part) : Bytes :=
  framedNl nl p.payload ++ encBody nl bnd ep ps

/-- what follows `NL--boundary` in the body for the remaining parts -/
def tailOf (nl : Nl) (bnd ep : Bytes) : List Part → Bytes
  | [] => 45 :: 45 :: ep
  | p :: ps => nl.bytes ++ (hdrBlock nl (nameOf p) p ++ (nl.bytes ++ dataOf nl bnd ep p ps))

/-- the buffer once that delimiter has been consumed -/
def afterOf (nl : Nl) (bnd ep : Bytes) : List Part → Bytes
  | [] => epiOf ep
  | p :: ps => hdrBlock nl (nameOf p) p ++ (nl.bytes ++ dataOf nl bnd ep p ps)

theorem encBody_eq (bnd : Bytes) (ps : List Part) :
    encBody nl bnd ep ps = nl.bytes ++ (delim bnd ++ tailOf nl bnd ep ps) := by
  cases ps with
  | nil => rfl
  | cons p ps => simp [encBody, encPart, tailOf, dataOf]

theorem lineOf_cd_head (n : Str) (f : Option Str) : ∃ r, lineOf (cdHeader n f) = 67 :: r := by
  unfold lineOf cdHeader kCD
  have : ("Content-Disposition".toList ++ ':' :: ' ' :: FormOptions.dispositionValue n f) =
      'C' :: ("ontent-Disposition".toList ++ ':' :: ' ' :: FormOptions.dispositionValue n f) := by
    rfl
  rw [this, utf8Enc_cons]
  exact ⟨_, by rw [utf8EncodeChar_ascii 'C' (by decide)]; rfl⟩

theorem hdrBlock_head (nl : Nl) (n : Str) (p : Part) : ∃ r, hdrBlock nl n p = 67 :: r := by
  rcases lineOf_cd_head n p.filename with ⟨r, hr⟩
  unfold hdrBlock
  simp only [List.map_cons]
  cases p.headers.map lineOf with
  | nil => exact ⟨r, by simp [joinNl, hr]⟩
  | cons l t => exact ⟨r ++ (nl.bytes ++ joinNl nl (l :: t)), by simp [joinNl_cons_cons, hr]⟩

theorem afterDelim_tailOf (bnd : Bytes) (ps : List Part) :
    AfterDelimNl nl (tailOf nl bnd ep ps) ps.isEmpty (afterOf nl bnd ep ps) := by
  cases ps with
  | nil => exact Or.inl ⟨rfl, ep, rfl, rfl⟩
  | cons p ps =>
    rcases hdrBlock_head nl (nameOf p) p with ⟨r, hr⟩
    refine Or.inr ⟨rfl, [], 67, r ++ (nl.bytes ++ dataOf nl bnd ep p ps), by simp, by decide, ?_, ?_⟩
    · simp only [tailOf, hr, List.cons_append, List.nil_append]
    · simp only [afterOf, hr, List.cons_append]

/-- PREAMBLE: the first delimiter is at offset 0 -/
theorem step_preamble (bnd : Bytes) (ps : List Part) (k : Nat) :
    nextEvent (mkD bnd (encBody nl bnd ep ps) .preamble k) =
      .ok (.preamble [], mkD bnd (afterOf nl bnd ep ps) (afterDelim ps.isEmpty) k) := by
  rcases matchTail_afterDelimNl (afterDelim_tailOf (nl := nl) (ep := ep) bnd ps) with ⟨m, hm, hdrop⟩
  have hl := nl.lbLen_delim bnd (tailOf nl bnd ep ps)
  have hmatch : matchDelimAt bnd true (encBody nl bnd ep ps) = some (nl.len + (bnd.length + 2) + m, ps.isEmpty) := by
    rw [encBody_eq]
    apply matchDelimAt_iff'.2
    exact ⟨tailOf nl bnd ep ps, m, by simp, by rw [hl]; simp [Nl.len], hm, by rw [hl]⟩
  have hsearch : searchDelimFrom bnd true 0 (encBody nl bnd ep ps) = some (0, nl.len + (bnd.length + 2) + m, ps.isEmpty) := by
    rw [searchDelimFrom_eq_shift]
    simp only [List.drop_zero]
    rw [encBody_eq] at hmatch ⊢
    rcases nl.head_isNl (delim bnd ++ tailOf nl bnd ep ps) with ⟨a, t, he, _⟩
    rw [he] at hmatch ⊢
    rw [searchDelim_cons_some hmatch]; rfl
  have hd : (encBody nl bnd ep ps).drop (nl.len + (bnd.length + 2) + m) = afterOf nl bnd ep ps := by
    rw [encBody_eq]
    have e2 : nl.len + (bnd.length + 2) + m = (m + (delim bnd).length) + nl.bytes.length := by
      simp [delim, Nl.len]; omega
    rw [e2, drop_add_append, drop_add_append, hdrop]
  simp only [nextEvent, step, mkD, hsearch, List.take_zero, hd]
  rfl

theorem headerGet_cd (n : Str) (f : Option Str) (hs : Headers) :
    headerGet "content-disposition".toList (cdHeader n f :: hs) = some (FormOptions.dispositionValue n f) := by
  have : lowerAscii kCD = "content-disposition".toList := by decide
  simp [headerGet, cdHeader, this]

theorem noNl_all {s : Str} : NoNlChars s ↔ s.all (fun c => c != '\r' && c != '\n') = true := by
  unfold NoNlChars
  rw [List.all_eq_true]
  constructor
  · intro h c hc
    simp only [Bool.and_eq_true, bne_iff_ne, ne_eq]
    exact ⟨fun e => h.1 (e ▸ hc), fun e => h.2 (e ▸ hc)⟩
  · intro h
    exact ⟨fun hm => by have := h _ hm; simp at this, fun hm => by have := h _ hm; simp at this⟩

/-- the Content-Disposition header itself is a well-formed header -/
theorem headerOk_cd {n : Str} {f : Option Str} (hn : NoNlChars n)
    (hf : ∀ x, f = some x → NoNlChars x) : HeaderOk (cdHeader n f) := by
  have hk : edgeOk kCD = true := by decide
  have hkn : NoNlChars kCD := by constructor <;> decide
  have hkc : ':' ∉ kCD := by decide
  refine ⟨hk, ?_, hkn, ?_, hkc⟩
  · -- starts with 'f', ends with '"'
    have hlast : ∃ xs, FormOptions.dispositionValue n f = xs ++ ['"'] := by
      cases f with
      | none =>
        exact ⟨FormOptions.kFormData ++ ';' :: ' ' :: (FormOptions.kName ++ '=' :: '"' :: n), by
          simp [FormOptions.dispositionValue]⟩
      | some x =>
        exact ⟨FormOptions.kFormData ++ ';' :: ' ' :: (FormOptions.kName ++ '=' :: '"' :: n ++ '"' ::
          ';' :: ' ' :: (FormOptions.kFilename ++ '=' :: '"' :: x)), by
          simp [FormOptions.dispositionValue]⟩
    rcases hlast with ⟨xs, hxs⟩
    have hhead : (FormOptions.dispositionValue n f).head? = some 'f' := rfl
    simp only [cdHeader, edgeOk, hhead]
    rw [hxs, List.getLast?_append]
    simp
    decide
  · rw [noNl_all] at hn ⊢
    cases f with
    | none =>
      simp only [cdHeader, FormOptions.dispositionValue, FormOptions.kFormData, FormOptions.kName,
        List.all_append, List.all_cons, List.all_nil, hn]
      decide
    | some x =>
      have hx := hf x rfl
      rw [noNl_all] at hx
      simp only [cdHeader, FormOptions.dispositionValue, FormOptions.kFormData, FormOptions.kName,
        FormOptions.kFilename, List.all_append, List.all_cons, List.all_nil, hn, hx]
      decide

/-- the part as the decoder reports it: the Content-Disposition header comes first -/
def decodedPart (p : Part) : Part :=
  { p with headers := cdHeader (nameOf p) p.filename :: p.headers }

theorem afterOf_cons (bnd : Bytes) (p : Part) (ps : List Part) :
    afterOf nl bnd ep (p :: ps) = hdrBlock nl (nameOf p) p ++ (nl.bytes ++ dataOf nl bnd ep p ps) := rfl

theorem dataOf_blank (bnd : Bytes) (p : Part) (ps : List Part) :
    ∃ Z, dataOf nl bnd ep p ps = nl.bytes ++ Z := by
  unfold dataOf framedNl
  cases hp : p.payload.isEmpty with
  | true => simp only [if_true, List.nil_append]; rw [encBody_eq]; exact ⟨_, rfl⟩
  | false => exact ⟨p.payload ++ encBody nl bnd ep ps, by simp⟩

theorem allHeadersOk {bnd : Bytes} {p : Part} (hv : ValidPart nl bnd p) :
    ∀ kv ∈ cdHeader (nameOf p) p.filename :: p.headers, HeaderOk kv := by
  have hf := validPart_facts hv
  intro kv hkv
  simp only [List.mem_cons] at hkv
  rcases hkv with rfl | h
  · exact headerOk_cd hf.2.1 (fun x hx => (hf.2.2.1 x hx).2)
  · exact (hf.2.2.2.2.1 kv h).1

theorem lookup_name (n : Str) (rest : List (Str × Str)) :
    FormOptions.lookup "name".toList ((FormOptions.kName, n) :: rest) = some n := by
  simp [FormOptions.lookup, FormOptions.kName]

theorem lookup_filename (n : Str) (f : Option Str) :
    FormOptions.lookup "filename".toList ((FormOptions.kName, n) :: FormOptions.filenameOpt f) = f := by
  cases f with
  | none => simp [FormOptions.lookup, FormOptions.kName, FormOptions.filenameOpt]
  | some x => simp [FormOptions.lookup, FormOptions.kName, FormOptions.kFilename, FormOptions.filenameOpt]

/-- PART: the header block is found, parsed, and the Field / File event carries the right names -/
theorem step_part {bnd : Bytes} (p : Part) (ps : List Part) (k : Nat) (hv : ValidPart nl bnd p) :
    nextEvent (mkD bnd (afterOf nl bnd ep (p :: ps)) .part k) =
      .ok (partHeadEvent (decodedPart p), mkD bnd (dataOf nl bnd ep p ps) .dataStart (k + 1)) := by
  have hf := validPart_facts hv
  have hok := allHeadersOk hv
  have hlines : ∀ l ∈ (cdHeader (nameOf p) p.filename :: p.headers).map lineOf, LineOk l := by
    intro l hl
    rcases List.mem_map.1 hl with ⟨kv, hkv, rfl⟩
    exact lineOk_of_headerOk (hok kv hkv)
  rcases dataOf_blank bnd p ps with ⟨Z, hZ⟩
  have hblank : searchBlankFrom 0 (afterOf nl bnd ep (p :: ps)) =
      some ((hdrBlock nl (nameOf p) p).length, (hdrBlock nl (nameOf p) p).length + 2 * nl.len) := by
    rw [searchBlankFrom_eq_shift, afterOf_cons, hZ]
    simp only [List.drop_zero, hdrBlock]
    rw [searchBlank_block nl _ Z (by simp) hlines]
    simp [shift2]
  have htake : (afterOf nl bnd ep (p :: ps)).take (hdrBlock nl (nameOf p) p).length = hdrBlock nl (nameOf p) p := by
    rw [afterOf_cons]; simp
  have hdrop : (afterOf nl bnd ep (p :: ps)).drop
      (((hdrBlock nl (nameOf p) p).length + ((hdrBlock nl (nameOf p) p).length + 2 * nl.len)) / 2) = dataOf nl bnd ep p ps := by
    have : ((hdrBlock nl (nameOf p) p).length + ((hdrBlock nl (nameOf p) p).length + 2 * nl.len)) / 2 =
        nl.len + (hdrBlock nl (nameOf p) p).length := by omega
    rw [this, afterOf_cons, drop_add_append]
    simp [Nl.len]
  have hparse : parseHeaders (hdrBlock nl (nameOf p) p) = .ok (cdHeader (nameOf p) p.filename :: p.headers) :=
    parseHeaders_block nl _ hok
  have hopt := FormOptions.parseOptions_disposition_lemma (nameOf p) p.filename hf.1
    (fun x hx => (hf.2.2.1 x hx).1)
  have hnm := validPart_name hv
  have hstep : step (mkD bnd (afterOf nl bnd ep (p :: ps)) .part k) =
      .ok (partHeadEvent (decodedPart p), mkD bnd (dataOf nl bnd ep p ps) .dataStart (k + 1)) := by
    unfold step
    simp only [mkD]
    rw [hblank]
    simp only
    rw [htake, hparse]
    simp only
    rw [headerGet_cd]
    simp only
    rw [hopt]
    simp only
    rw [lookup_name, lookup_filename, hdrop]
    cases hfn : p.filename with
    | none => simp [partHeadEvent, decodedPart, hfn, hnm]
    | some x => simp [partHeadEvent, decodedPart, hfn, hnm]
  unfold nextEvent
  rw [hstep]
  cases hfn : p.filename with
  | none => simp [partHeadEvent, decodedPart, hfn, mkD]
  | some x => simp [partHeadEvent, decodedPart, hfn, mkD]

/-- reference semantics of the data stretch of part `p` -/
theorem dataSpec_dataOf {bnd : Bytes} (hb : BoundaryOk bnd) (p : Part) (ps : List Part)
    (hv : ValidPart nl bnd p) :
    dataSpec bnd true (dataOf nl bnd ep p ps) = some (p.payload, ps.isEmpty, afterOf nl bnd ep ps) := by
  have hf := validPart_facts hv
  unfold dataOf framedNl
  rw [encBody_eq]
  cases hp : p.payload with
  | nil =>
    simp only [List.isEmpty_nil, if_true, List.nil_append]
    exact dataSpec_encoded_empty_nl (bnd := bnd) _ (afterDelim_tailOf bnd ps)
  | cons a t =>
    simp only [List.isEmpty_cons, Bool.false_eq_true, if_false]
    exact dataSpec_encoded_nl hb (a :: t) (tailOf nl bnd ep ps) (by rw [← hp]; exact hf.2.2.2.2.2)
      (afterDelim_tailOf bnd ps)

/-- the data stretch starts with exactly the line break -/
theorem lbLen_dataOf {bnd : Bytes} (p : Part) (ps : List Part) (hv : ValidPart nl bnd p) :
    lbLen (dataOf nl bnd ep p ps) = nl.len := by
  have hf := validPart_facts hv
  unfold dataOf framedNl
  rw [encBody_eq]
  cases hp : p.payload.isEmpty with
  | true => simp only [if_true, List.nil_append]; exact nl.lbLen_delim bnd _
  | false =>
    simp only [Bool.false_eq_true, if_false]
    exact Nl.lbLen_data _ _ hf.2.2.2.2.2.2

/-- DATA_START: the payload and the delimiter that ends it -/
theorem step_dataStart {bnd : Bytes} (hb : BoundaryOk bnd) (p : Part) (ps : List Part) (k : Nat)
    (hv : ValidPart nl bnd p) :
    nextEvent (mkD bnd (dataOf nl bnd ep p ps) .dataStart k) =
      .ok (.data p.payload false, mkD bnd (afterOf nl bnd ep ps) (afterDelim ps.isEmpty) k) := by
  have hf := validPart_facts hv
  -- reference semantics of this stretch of the stream
  have hspec := dataSpec_dataOf (nl := nl) (ep := ep) hb p ps hv
  have hlb := lbLen_dataOf (nl := nl) (ep := ep) p ps hv
  have hlp := nl.len_pos
  rw [dataSpec_true] at hspec
  cases hs : searchDelim bnd false (dataOf nl bnd ep p ps) with
  | none => rw [hs] at hspec; simp at hspec
  | some v =>
    rcases v with ⟨s, e, f⟩
    rw [hs] at hspec
    simp only [Option.some.injEq, Prod.mk.injEq] at hspec
    rcases hspec with ⟨hpay, hfe, hrest⟩
    have hbd := searchDelim_bounds hs
    have he0 : e ≠ 0 := by omega
    have hcut := dataCut_of_search hs
    have hds : dataStep bnd true (dataOf nl bnd ep p ps) = .ok (p.payload, afterOf nl bnd ep ps, false, some ps.isEmpty) := by
      rw [dataStep_true (by omega), hcut]
      simp only [he0, if_false]
      rw [hpay, hrest, hfe]
    have hstep : step (mkD bnd (dataOf nl bnd ep p ps) .dataStart k) =
        .ok (.data p.payload false, mkD bnd (afterOf nl bnd ep ps) (afterDelim ps.isEmpty) k) := by
      unfold step
      simp only [mkD, stepData, hds]
      simp
    unfold nextEvent
    rw [hstep]
    simp [mkD]

/-! ### the whole run -/

theorem drain_data {d d' : Decoder} {x : Bytes} {m : Bool} (fuel : Nat) (acc : List Event)
    (h : nextEvent d = .ok (.data x m, d')) :
    drain (fuel + 1) d acc = drain fuel d' (.data x m :: acc) := by
  simp [drain, h]

theorem drain_pre {d d' : Decoder} {x : Bytes} (fuel : Nat) (acc : List Event)
    (h : nextEvent d = .ok (.preamble x, d')) :
    drain (fuel + 1) d acc = drain fuel d' (.preamble x :: acc) := by
  simp [drain, h]

theorem drain_head {d d' : Decoder} {q : Part} (fuel : Nat) (acc : List Event)
    (h : nextEvent d = .ok (partHeadEvent q, d')) :
    drain (fuel + 1) d acc = drain fuel d' (partHeadEvent q :: acc) := by
  unfold partHeadEvent at h ⊢
  cases hq : q.filename with
  | none => rw [hq] at h; simp [drain, h]
  | some f => rw [hq] at h; simp [drain, h]

theorem drain_parts {bnd : Bytes} (hb : BoundaryOk bnd) (ps : List Part) :
    ∀ (fuel : Nat) (acc : List Event) (k : Nat), (∀ p ∈ ps, ValidPart nl bnd p) →
      2 * ps.length + 1 ≤ fuel →
      drain fuel (mkD bnd (afterOf nl bnd ep ps) (afterDelim ps.isEmpty) k) acc =
        { events := acc.reverse ++ ps.flatMap (fun p => partEvents (decodedPart p)),
          err := none,
          dec := mkD bnd (epiOf ep) .epilogue (k + ps.length) } := by
  induction ps with
  | nil =>
    intro fuel acc k _ hf
    cases fuel with
    | zero => omega
    | succ fuel =>
      have : nextEvent (mkD bnd (epiOf ep) .epilogue k) = .ok (.needData, mkD bnd (epiOf ep) .epilogue k) := by
        simp [nextEvent, step, mkD]
      simp [drain, afterOf, afterDelim, this]
  | cons p ps ih =>
    intro fuel acc k hv hf
    have hvp := hv p (by simp)
    match fuel, hf with
    | fuel + 2, hf =>
      have h1 := step_part (nl := nl) (ep := ep) p ps k hvp
      have h2 := step_dataStart (nl := nl) (ep := ep) hb p ps (k + 1) hvp
      have e : afterDelim (p :: ps).isEmpty = .part := rfl
      rw [e, drain_head _ _ h1, drain_data _ _ h2,
        ih fuel _ (k + 1) (fun q hq => hv q (by simp [hq])) (by simp at hf; omega)]
      simp [partEvents, decodedPart, Nat.add_assoc, Nat.add_comm 1]

theorem encBody_length (bnd : Bytes) (ps : List Part) : 2 * ps.length + 2 ≤ (encBody nl bnd ep ps).length := by
  induction ps with
  | nil => simp [encBody, closing]; omega
  | cons p ps ih =>
    have := nl.len_pos
    simp [encBody, encPart, Nl.len] at ih this ⊢; omega

theorem partsGo_part (q : Part) (hq : q.isFile = q.filename.isSome) (cur : Option Part)
    (rest : List Event) :
    partsGo cur (partEvents q ++ rest) = cur.toList ++ partsGo (some q) rest := by
  rcases q with ⟨isFile, name, filename, headers, payload⟩
  simp only at hq
  cases filename with
  | none =>
    simp only [Option.isSome_none] at hq
    subst hq
    simp [partEvents, partHeadEvent, partsGo]
  | some f =>
    simp only [Option.isSome_some] at hq
    subst hq
    simp [partEvents, partHeadEvent, partsGo]

theorem partsGo_all (qs : List Part) (x : Bytes) (hq : ∀ q ∈ qs, q.isFile = q.filename.isSome) :
    ∀ cur : Option Part,
      partsGo cur (qs.flatMap partEvents ++ [.epilogue x]) = cur.toList ++ qs := by
  induction qs with
  | nil => intro cur; cases cur <;> simp [partsGo]
  | cons q qs ih =>
    intro cur
    simp only [List.flatMap_cons, List.append_assoc]
    rw [partsGo_part q (hq q (by simp)), ih (fun x hx => hq x (by simp [hx]))]
    simp

theorem flatMap_decoded (ps : List Part) :
    ps.flatMap (fun p => partEvents (decodedPart p)) = (ps.map decodedPart).flatMap partEvents := by
  induction ps with
  | nil => rfl
  | cons p ps ih => simp only [List.flatMap_cons, List.map_cons, ih]

theorem partsGo_decoded {bnd : Bytes} (ps : List Part) (cur : Option Part) (x : Bytes)
    (hv : ∀ p ∈ ps, ValidPart nl bnd p) :
    partsGo cur (ps.flatMap (fun p => partEvents (decodedPart p)) ++ [.epilogue x]) =
      cur.toList ++ ps.map decodedPart := by
  rw [flatMap_decoded]
  apply partsGo_all
  intro q hq
  rcases List.mem_map.1 hq with ⟨p, hp, rfl⟩
  exact (validPart_facts (hv p hp)).2.2.2.1

/-- **decode ∘ encode = id (single shot).** -/
theorem decode_encode_lemma {bnd : Bytes} (hb : BoundaryOk bnd) (ps : List Part)
    (hv : ∀ p ∈ ps, ValidPart nl bnd p) :
    (decodeChunks bnd none none [encBody nl bnd ep ps]).err = none ∧
    partsOf (decodeChunks bnd none none [encBody nl bnd ep ps]).events = ps.map decodedPart := by
  -- first chunk: the whole body
  have hrecv : receive (mkDecoder bnd none none) (some (encBody nl bnd ep ps)) =
      .ok (mkD bnd (encBody nl bnd ep ps) .preamble 0) := by
    simp [receive, mkDecoder, mkD]
  have hlen := encBody_length (nl := nl) (ep := ep) bnd ps
  have hfeed1 : feed (mkDecoder bnd none none) (some (encBody nl bnd ep ps)) =
      { events := Event.preamble [] :: ps.flatMap (fun p => partEvents (decodedPart p)),
        err := none, dec := mkD bnd (epiOf ep) .epilogue (0 + ps.length) } := by
    unfold feed
    rw [hrecv]
    simp only [drainFuel, mkD]
    have : (encBody nl bnd ep ps).length + 3 = ((encBody nl bnd ep ps).length + 2) + 1 := by omega
    rw [this]
    have hp := step_preamble (nl := nl) (ep := ep) bnd ps 0
    have hdp := drain_parts (nl := nl) (ep := ep) hb ps ((encBody nl bnd ep ps).length + 2) [Event.preamble []] 0 hv (by omega)
    simp only [mkD] at hp hdp
    rw [drain_pre _ _ hp, hdp]
    simp
  have hfeed2 : feed (mkD bnd (epiOf ep) .epilogue (0 + ps.length)) none =
      { events := [Event.epilogue (epiOf ep)], err := none,
        dec := { mkD bnd [] .epilogue (0 + ps.length) with complete := true, state := .complete } } := by
    simp [feed, receive, mkD, drainFuel, drain, nextEvent, step]
  have hrun : decodeChunks bnd none none [encBody nl bnd ep ps] =
      { events := Event.preamble [] :: (ps.flatMap (fun p => partEvents (decodedPart p)) ++ [Event.epilogue (epiOf ep)]),
        err := none,
        dec := { mkD bnd [] .epilogue (0 + ps.length) with complete := true, state := .complete } } := by
    simp only [decodeChunks, feedAll, hfeed1, hfeed2]
    simp
  rw [hrun]
  refine ⟨rfl, ?_⟩
  simp only [partsOf, partsGo]
  rw [partsGo_decoded ps none _ hv]
  simp

end Wz.Multipart
