/-
`uri_to_iri` on whole URL text and the IRI → URI → IRI round trip (C15). Core Lean only.
-/
import WzVerif.Lemmas.UrlTextIri
import WzVerif.Lemmas.UrlPartialChars
namespace Wz.Url
open Wz

/-- laws assumed of the opaque host conversions (lower-casing + IDNA codec / `_decode_idna`), of the
`ipaddress` check and of the NFKC test -/
structure HostLaws (o : UrlOpaque) : Prop where
  a_chars : ∀ h r, o.hostToAscii h = some r → r ≠ [] ∧ ∀ c ∈ r, hostChar c = true
  u_chars : ∀ h r, o.hostToUnicode h = some r → r ≠ [] ∧ ∀ c ∈ r, hostChar c = true
  u_fixed : ∀ h r, o.hostToUnicode h = some r → o.hostToUnicode r = some r
  /-- encoding a decoded host and decoding again gives the decoded host -/
  a_of_u : ∀ h r, o.hostToUnicode h = some r → ∃ a, o.hostToAscii r = some a ∧ o.hostToUnicode a = some r
  /-- decoding an encoded host succeeds -/
  u_of_a : ∀ h a, o.hostToAscii h = some a → ∃ r, o.hostToUnicode a = some r
  bracket_a : ∀ h r, o.hostToAscii h = some r → r.contains ':' = true → o.bracketOk r = true
  bracket_u : ∀ h r, o.hostToUnicode h = some r → r.contains ':' = true → o.bracketOk r = true
  nfkc : ∀ n, o.nfkcOk n = true

/-- what a pass needs to know about the parts it converts -/
structure PartsBase (p : Parts) : Prop where
  scheme : validScheme p.scheme = true ∧ p.scheme.map asciiLower = p.scheme ∧ noTab p.scheme
  host_ne : p.host ≠ []
  host_chars : ∀ c ∈ p.host, hostChar c = true
  port : ∀ k, p.port = some k → k ≤ 65535
  path_form : p.path = [] ∨ p.path.head? = some '/'

theorem netlocOk_of_law {o : UrlOpaque} (h : ∀ n, o.nfkcOk n = true) (n : Str) : netlocOk o n = true := by
  simp [netlocOk, h n]

theorem fixed_noDelims {safe : Str} {s : Str}
    (tblP : ∀ n, n < 128 → isSafe safe (UInt8.ofNat n) = true → isTabCrLf (Char.ofNat n) = false)
    (hp : safe.contains '%' = true) : noTab (quote safe s) := fun c hc =>
  fixed_transfer (P := fun c => isTabCrLf c = false) tblP (quote_fixed hp s c hc)

/-- facts about an `iri_to_uri` pass over arbitrary well-shaped parts -/
theorem iri_pass {o : UrlOpaque} (laws : HostLaws o) {p : Parts} (b : PartsBase p)
    (hb : p.host.contains ':' = true → o.bracketOk p.host = true) :
    NetlocParts iriConv.fu iriConv.fp p ∧ GoodSplit o (iriConv.apply p) := by
  have hpU : Gen.UrlTables.iriUserSafe.contains '%' = true := by decide
  have hpP : Gen.UrlTables.iriPasswordSafe.contains '%' = true := by decide
  have hpF : Gen.UrlTables.iriPathSafe.contains '%' = true := by decide
  have hqF : Gen.UrlTables.iriQuerySafe.contains '%' = true := by decide
  have hfF : Gen.UrlTables.iriFragmentSafe.contains '%' = true := by decide
  have np : NetlocParts iriConv.fu iriConv.fp p := by
    refine ⟨b.host_ne, b.host_chars, ?_, ?_, b.port⟩
    · intro u hu
      exact ⟨quote_ne (truthy_ne hu), fun c hc =>
        fixed_transfer (P := fun c => plainChar c = true) (fun n hn h => (safe_user_plain n hn).1 h)
          (quote_fixed hpU u c hc)⟩
    · intro pw hpw
      exact ⟨quote_ne (truthy_ne hpw), fun c hc =>
        fixed_transfer (P := fun c => plainChar c = true) (fun n hn h => (safe_user_plain n hn).2 h)
          (quote_fixed hpP pw c hc)⟩
  refine ⟨np, ?_⟩
  apply good_apply np b.scheme hb (netlocOk_of_law laws.nfkc _)
  · refine ⟨?_, ?_, ?_, ?_⟩
    · show quote Gen.UrlTables.iriPathSafe p.path = [] ∨ _
      rcases b.path_form with h | h
      · left; rw [h]; rfl
      · right
        cases hpath : p.path with
        | nil => rw [hpath] at h; cases h
        | cons x xs =>
          rw [hpath] at h
          simp at h
          subst h
          show (quote Gen.UrlTables.iriPathSafe ('/' :: xs)).head? = some '/'
          rw [quote_cons_fixed (show Fixed Gen.UrlTables.iriPathSafe '/' from ⟨by decide, by decide⟩)]
          rfl
    · intro hm
      exact (fixed_transfer (P := fun c => c ≠ '?' ∧ c ≠ '#' ∧ isTabCrLf c = false) safe_path_ok
        (quote_fixed hpF p.path _ hm)).1 rfl
    · intro hm
      exact (fixed_transfer (P := fun c => c ≠ '?' ∧ c ≠ '#' ∧ isTabCrLf c = false) safe_path_ok
        (quote_fixed hpF p.path _ hm)).2.1 rfl
    · exact fixed_noDelims (fun n hn h => (safe_path_ok n hn h).2.2) hpF
  · refine ⟨?_, fixed_noDelims (fun n hn h => (safe_query_ok n hn h).2) hqF⟩
    intro hm
    exact (fixed_transfer (P := fun c => c ≠ '#' ∧ isTabCrLf c = false) safe_query_ok
      (quote_fixed hqF p.query _ hm)).1 rfl
  · exact fixed_noDelims safe_frag_ok hfF

/-! ### the `uri_to_iri` pass -/

theorem keptChar_tab {keep : List Bool} (hk : ∀ n, n ≤ 0x20 → tbl keep n = true) {c : Char}
    (h : isTabCrLf c = true) : KeptChar keep c := by
  simp only [isTabCrLf, Bool.or_eq_true, beq_iff_eq] at h
  rcases h with (rfl | rfl) | rfl
  · exact ⟨by decide, hk _ (by decide), by decide, by decide⟩
  · exact ⟨by decide, hk _ (by decide), by decide, by decide⟩
  · exact ⟨by decide, hk _ (by decide), by decide, by decide⟩

theorem keep_low : (∀ n, n ≤ 0x20 → tbl Gen.UrlTables.keepPath n = true) ∧
    (∀ n, n ≤ 0x20 → tbl Gen.UrlTables.keepQuery n = true) ∧
    (∀ n, n ≤ 0x20 → tbl Gen.UrlTables.keepFragment n = true) ∧
    (∀ n, n ≤ 0x20 → tbl Gen.UrlTables.keepUser n = true) := by
  have h : ∀ t : List Bool, (∀ n, n < 33 → tbl t n = true) → ∀ n, n ≤ 0x20 → tbl t n = true :=
    fun t h n hn => h n (by omega)
  exact ⟨h _ (by decide), h _ (by decide), h _ (by decide), h _ (by decide)⟩

/-- every non-plain character is kept quoted in the userinfo (regenerated table; includes `[` `]`) -/
theorem user_kept {c : Char} (h : plainChar c = false) : KeptChar Gen.UrlTables.keepUser c := by
  by_cases ht : isTabCrLf c = true
  · exact keptChar_tab keep_low.2.2.2 ht
  · simp only [plainChar, hostChar, isNetlocDelim, Bool.and_eq_false_iff, Bool.not_eq_false',
      Bool.or_eq_true, beq_iff_eq, bne_eq_false_iff_eq] at h
    rcases h with ((((((h | h) | h) | h) | h) | h) | h) | h
    · subst h; exact ⟨by decide, by decide, by decide, by decide⟩
    · subst h; exact ⟨by decide, by decide, by decide, by decide⟩
    · subst h; exact ⟨by decide, by decide, by decide, by decide⟩
    · subst h; exact ⟨by decide, by decide, by decide, by decide⟩
    · subst h; exact ⟨by decide, by decide, by decide, by decide⟩
    · subst h; exact ⟨by decide, by decide, by decide, by decide⟩
    · exact absurd h ht
    · subst h; exact ⟨by decide, by decide, by decide, by decide⟩

theorem unquoteUser_plain {s : Str} (hw : wellFormed s = true) (hs : ∀ c ∈ s, plainChar c = true)
    (hk : KeepOK Gen.UrlTables.keepUser) : ∀ c ∈ unquotePartial Gen.UrlTables.keepUser s, plainChar c = true := by
  intro c hc
  cases hp : plainChar c with
  | true => rfl
  | false =>
    have := kept_mem_unquotePartial hk (user_kept hp) hw hc
    rw [hs c this] at hp; cases hp

theorem unquote_noTab {keep : List Bool} (hk : KeepOK keep) (hlow : ∀ n, n ≤ 0x20 → tbl keep n = true)
    {s : Str} (hw : wellFormed s = true) (hs : noTab s) : noTab (unquotePartial keep s) := by
  intro c hc
  cases ht : isTabCrLf c with
  | false => rfl
  | true =>
    have := kept_mem_unquotePartial hk (keptChar_tab hlow ht) hw hc
    rw [hs c this] at ht; cases ht

/-- what the `uri_to_iri` pass needs of the text components -/
structure UriInput (p : Parts) : Prop where
  user : ∀ u, truthy p.username = some u → wellFormed u = true ∧ ∀ c ∈ u, plainChar c = true
  pass : ∀ pw, truthy p.password = some pw → wellFormed pw = true ∧ ∀ c ∈ pw, plainChar c = true
  path : wellFormed p.path = true ∧ '?' ∉ p.path ∧ '#' ∉ p.path ∧ noTab p.path
  query : wellFormed p.query = true ∧ '#' ∉ p.query ∧ noTab p.query
  fragment : wellFormed p.fragment = true ∧ noTab p.fragment

theorem uri_pass {o : UrlOpaque} (laws : HostLaws o) {p : Parts} (b : PartsBase p) (ui : UriInput p)
    (hb : p.host.contains ':' = true → o.bracketOk p.host = true)
    (kt : KeepOK Gen.UrlTables.keepPath ∧ KeepOK Gen.UrlTables.keepQuery ∧
      KeepOK Gen.UrlTables.keepFragment ∧ KeepOK Gen.UrlTables.keepUser) :
    NetlocParts uriConv.fu uriConv.fp p ∧ GoodSplit o (uriConv.apply p) := by
  have np : NetlocParts uriConv.fu uriConv.fp p := by
    refine ⟨b.host_ne, b.host_chars, ?_, ?_, b.port⟩
    · intro u hu
      obtain ⟨h1, h2⟩ := ui.user u hu
      exact ⟨unquotePartial_ne (truthy_ne hu), unquoteUser_plain h1 h2 kt.2.2.2⟩
    · intro pw hpw
      obtain ⟨h1, h2⟩ := ui.pass pw hpw
      exact ⟨unquotePartial_ne (truthy_ne hpw), unquoteUser_plain h1 h2 kt.2.2.2⟩
  refine ⟨np, ?_⟩
  apply good_apply np b.scheme hb (netlocOk_of_law laws.nfkc _)
  · obtain ⟨w, q1, q2, q3⟩ := ui.path
    refine ⟨?_, ?_, ?_, unquote_noTab kt.1 keep_low.1 w q3⟩
    · show unquotePartial Gen.UrlTables.keepPath p.path = [] ∨ _
      rcases b.path_form with h | h
      · left; rw [h]; rfl
      · right
        cases hpath : p.path with
        | nil => rw [hpath] at h; cases h
        | cons x xs =>
          rw [hpath] at h
          simp at h
          subst h
          show (unquotePartial Gen.UrlTables.keepPath ('/' :: xs)).head? = some '/'
          rw [unquotePartial_slash]
          rfl
    · intro hm
      exact q1 (kept_mem_unquotePartial kt.1 ⟨by decide, by decide, by decide, by decide⟩ w hm)
    · intro hm
      exact q2 (kept_mem_unquotePartial kt.1 ⟨by decide, by decide, by decide, by decide⟩ w hm)
  · obtain ⟨w, q1, q2⟩ := ui.query
    refine ⟨?_, unquote_noTab kt.2.1 keep_low.2.1 w q2⟩
    intro hm
    exact q1 (kept_mem_unquotePartial kt.2.1 ⟨by decide, by decide, by decide, by decide⟩ w hm)
  · exact unquote_noTab kt.2.2.1 keep_low.2.2.1 ui.fragment.1 ui.fragment.2

/-! ### URL text theorems -/

theorem partsOf_userinfo {conv : Str → Option Str} {sp : Split} {p : Parts} (h : partsOf conv sp = .ok p) :
    p.username = (userinfo sp.netloc).1 ∧ p.password = (userinfo sp.netloc).2 := by
  unfold partsOf at h
  simp only at h
  generalize (if (hostinfo sp.netloc).1.isEmpty = true then (Except.ok [] : Except String Str)
    else match conv (hostinfo sp.netloc).1 with
      | some h => Except.ok h
      | none => Except.error "UnicodeError") = hx at h
  cases hx with
  | error e => simp at h
  | ok hh =>
    simp only at h
    cases hp : portOf sp.netloc with
    | error e => simp [hp] at h
    | ok port =>
      simp only [hp, Except.ok.injEq] at h
      subst h
      exact ⟨rfl, rfl⟩

/-- a URL of the grammar whose text components are in the `%XX` grammar and whose userinfo has no
raw delimiter -/
structure InGrammarU (o : UrlOpaque) (url : Str) (sp : Split) : Prop where
  split : urlsplit o url = .ok sp
  scheme : sp.scheme ≠ []
  host : (hostinfo sp.netloc).1 ≠ []
  user : ∀ u, truthy (userinfo sp.netloc).1 = some u → wellFormed u = true ∧ ∀ c ∈ u, plainChar c = true
  pass : ∀ pw, truthy (userinfo sp.netloc).2 = some pw → wellFormed pw = true ∧ ∀ c ∈ pw, plainChar c = true
  path : wellFormed sp.path = true
  query : wellFormed sp.query = true
  fragment : wellFormed sp.fragment = true

theorem base_of_split {o : UrlOpaque} {url : Str} {sp : Split} (g : InGrammarU o url sp)
    {conv : Str → Option Str} {p : Parts} (hp : partsOf conv sp = .ok p)
    (hchars : ∀ h r, conv h = some r → r ≠ [] ∧ ∀ c ∈ r, hostChar c = true) :
    PartsBase p ∧ UriInput p ∧ conv (hostinfo sp.netloc).1 = some p.host := by
  have shape := urlsplit_shape g.split
  obtain ⟨e1, e2, e3, e4, hconv, hport⟩ := partsOf_spec hp g.host
  obtain ⟨u1, u2⟩ := partsOf_userinfo hp
  obtain ⟨hne, hc⟩ := hchars _ _ hconv
  have hnetne : sp.netloc ≠ [] := by
    intro e; apply g.host; rw [e]; rfl
  refine ⟨⟨?_, hne, hc, hport, ?_⟩, ⟨?_, ?_, ?_, ?_, ?_⟩, hconv⟩
  · rw [e1]
    rcases shape.scheme with h | h
    · exact absurd h g.scheme
    · exact ⟨h.1, h.2, shape.tabs.1⟩
  · rw [e2]; exact shape.path_form hnetne
  · rw [u1]; exact g.user
  · rw [u2]; exact g.pass
  · rw [e2]; exact ⟨g.path, shape.path_chars.1, shape.path_chars.2, shape.tabs.2.2.1⟩
  · rw [e3]; exact ⟨g.query, shape.query_chars, shape.tabs.2.2.2.1⟩
  · rw [e4]; exact ⟨g.fragment, shape.tabs.2.2.2.2⟩

theorem uriToIriText_unfold (o : UrlOpaque) (url : Str) :
    uriToIriText o url =
      (match urlsplit o url with
       | .error e => .error e
       | .ok sp =>
         match partsOf o.hostToUnicode sp with
         | .error e => .error e
         | .ok p => .ok (urlunsplit (uriConv.apply p))) := rfl

/-- **`uri_to_iri` is a fixpoint after one step on URL text.** -/
theorem uriToIriText_fix {o : UrlOpaque} (laws : HostLaws o)
    (kt : KeepOK Gen.UrlTables.keepPath ∧ KeepOK Gen.UrlTables.keepQuery ∧
      KeepOK Gen.UrlTables.keepFragment ∧ KeepOK Gen.UrlTables.keepUser)
    {url r : Str} {sp : Split} (g : InGrammarU o url sp) (h : uriToIriText o url = .ok r) :
    uriToIriText o r = .ok r := by
  rw [uriToIriText_unfold, g.split] at h
  simp only at h
  cases hp : partsOf o.hostToUnicode sp with
  | error e => rw [hp] at h; cases h
  | ok p =>
    rw [hp] at h
    simp only [Except.ok.injEq] at h
    subst h
    obtain ⟨b, ui, hconv⟩ := base_of_split g hp laws.u_chars
    obtain ⟨np, gs⟩ := uri_pass laws b ui (laws.bracket_u _ _ hconv) kt
    obtain ⟨h1, h2⟩ := pass_reparse gs np (laws.u_fixed _ _ hconv)
    rw [uriToIriText_unfold, h1]
    simp only [h2]
    rw [apply_reparsed (F := uriConv)
      (fun u hu => ⟨unquotePartial_ne (truthy_ne hu), unquotePartial_fix kt.2.2.2 u (ui.user u hu).1⟩)
      (fun pw hpw => ⟨unquotePartial_ne (truthy_ne hpw), unquotePartial_fix kt.2.2.2 pw (ui.pass pw hpw).1⟩)
      (unquotePartial_fix kt.1 _ ui.path.1) (unquotePartial_fix kt.2.1 _ ui.query.1)
      (unquotePartial_fix kt.2.2.1 _ ui.fragment.1)]

/-! ### IRI → URI → IRI on URL text -/

theorem base_reparsed {F : Conv} {p : Parts} (b : PartsBase p) {h' : Str}
    (hh : h' ≠ [] ∧ ∀ c ∈ h', hostChar c = true)
    (hform : ∀ s : Str, (s = [] ∨ s.head? = some '/') → (F.fpath s = [] ∨ (F.fpath s).head? = some '/')) :
    PartsBase (reparsed F p h') := by
  refine ⟨b.scheme, hh.1, hh.2, ?_, hform _ b.path_form⟩
  intro k hk
  simp only [reparsed] at hk
  cases hp : p.port with
  | none => simp [hp] at hk
  | some j =>
    cases j with
    | zero => simp [hp] at hk
    | succ j => simp only [hp, Option.some.injEq] at hk; rw [← hk]; exact b.port _ hp

theorem quote_form (s : Str) (h : s = [] ∨ s.head? = some '/') :
    quote Gen.UrlTables.iriPathSafe s = [] ∨ (quote Gen.UrlTables.iriPathSafe s).head? = some '/' := by
  rcases h with h | h
  · left; rw [h]; rfl
  · right
    cases hs : s with
    | nil => rw [hs] at h; cases h
    | cons x xs =>
      rw [hs] at h
      simp at h
      subst h
      rw [quote_cons_fixed (show Fixed Gen.UrlTables.iriPathSafe '/' from ⟨by decide, by decide⟩)]
      rfl

theorem unquote_form (s : Str) (h : s = [] ∨ s.head? = some '/') :
    unquotePartial Gen.UrlTables.keepPath s = [] ∨ (unquotePartial Gen.UrlTables.keepPath s).head? = some '/' := by
  rcases h with h | h
  · left; rw [h]; rfl
  · right
    cases hs : s with
    | nil => rw [hs] at h; cases h
    | cons x xs =>
      rw [hs] at h
      simp at h
      subst h
      rw [unquotePartial_slash]
      rfl

/-- the parts read back after an `iri_to_uri` pass are fit for `uri_to_iri` -/
theorem uriInput_after_iri {p : Parts} (ui : UriInput p) (h' : Str) : UriInput (reparsed iriConv p h') := by
  have hpU : Gen.UrlTables.iriUserSafe.contains '%' = true := by decide
  have hpP : Gen.UrlTables.iriPasswordSafe.contains '%' = true := by decide
  have hpF : Gen.UrlTables.iriPathSafe.contains '%' = true := by decide
  have hqF : Gen.UrlTables.iriQuerySafe.contains '%' = true := by decide
  have hfF : Gen.UrlTables.iriFragmentSafe.contains '%' = true := by decide
  refine ⟨?_, ?_, ?_, ?_, ?_⟩
  · intro u hu
    simp only [reparsed] at hu
    cases hx : truthy p.username with
    | none => rw [hx] at hu; simp [truthy] at hu
    | some v =>
      have hq : quote Gen.UrlTables.iriUserSafe v ≠ [] := quote_ne (truthy_ne hx)
      simp only [hx, Option.map_some, iriConv, truthy_some_ne hq, Option.some.injEq] at hu
      subst hu
      exact ⟨wellFormed_quote hpU v (ui.user v hx).1, fun c hc =>
        fixed_transfer (P := fun c => plainChar c = true) (fun n hn h => (safe_user_plain n hn).1 h)
          (quote_fixed hpU v c hc)⟩
  · intro pw hpw
    simp only [reparsed] at hpw
    cases hx : truthy p.username with
    | none => rw [hx] at hpw; simp [truthy] at hpw
    | some v =>
      simp only [hx] at hpw
      cases hy : truthy p.password with
      | none => rw [hy] at hpw; simp [truthy] at hpw
      | some w =>
        have hq : quote Gen.UrlTables.iriPasswordSafe w ≠ [] := quote_ne (truthy_ne hy)
        simp only [hy, Option.map_some, iriConv, truthy_some_ne hq, Option.some.injEq] at hpw
        subst hpw
        exact ⟨wellFormed_quote hpP w (ui.pass w hy).1, fun c hc =>
          fixed_transfer (P := fun c => plainChar c = true) (fun n hn h => (safe_user_plain n hn).2 h)
            (quote_fixed hpP w c hc)⟩
  · refine ⟨wellFormed_quote hpF _ ui.path.1, ?_, ?_, fixed_noDelims (fun n hn h => (safe_path_ok n hn h).2.2) hpF⟩
    · intro hm
      exact (fixed_transfer (P := fun c => c ≠ '?' ∧ c ≠ '#' ∧ isTabCrLf c = false) safe_path_ok
        (quote_fixed hpF p.path _ hm)).1 rfl
    · intro hm
      exact (fixed_transfer (P := fun c => c ≠ '?' ∧ c ≠ '#' ∧ isTabCrLf c = false) safe_path_ok
        (quote_fixed hpF p.path _ hm)).2.1 rfl
  · refine ⟨wellFormed_quote hqF _ ui.query.1, ?_, fixed_noDelims (fun n hn h => (safe_query_ok n hn h).2) hqF⟩
    intro hm
    exact (fixed_transfer (P := fun c => c ≠ '#' ∧ isTabCrLf c = false) safe_query_ok
      (quote_fixed hqF p.query _ hm)).1 rfl
  · exact ⟨wellFormed_quote hfF _ ui.fragment.1, fixed_noDelims safe_frag_ok hfF⟩

/-- component law of the round trip, for a text `s` of the `%XX` grammar -/
theorem uqu {safe : Str} {keep : List Bool} (hp : safe.contains '%' = true) (hk : KeepOK keep) {s : Str}
    (hs : wellFormed s = true) :
    unquotePartial keep (quote safe (unquotePartial keep (quote safe s))) = unquotePartial keep (quote safe s) :=
  unquotePartial_quote_stable hp hk _ (wellFormed_quote hp s hs) (quote_fixed hp s)

/-- the tuple after four passes equals the tuple after two -/
theorem roundtrip_apply {p : Parts} (ui : UriInput p) {h2 a3 : Str}
    (kt : KeepOK Gen.UrlTables.keepPath ∧ KeepOK Gen.UrlTables.keepQuery ∧
      KeepOK Gen.UrlTables.keepFragment ∧ KeepOK Gen.UrlTables.keepUser) :
    uriConv.apply (reparsed iriConv (reparsed uriConv (reparsed iriConv p h2) a3) h2)
      = uriConv.apply (reparsed iriConv p h2) := by
  have hpU : Gen.UrlTables.iriUserSafe.contains '%' = true := by decide
  have hpP : Gen.UrlTables.iriPasswordSafe.contains '%' = true := by decide
  unfold Conv.apply
  have hnet : netloc uriConv.fu uriConv.fp (reparsed iriConv (reparsed uriConv (reparsed iriConv p h2) a3) h2)
      = netloc uriConv.fu uriConv.fp (reparsed iriConv p h2) := by
    rw [netloc_eq, netloc_eq]
    have hport : portText (reparsed iriConv (reparsed uriConv (reparsed iriConv p h2) a3) h2).port
        = portText (reparsed iriConv p h2).port := by
      simp only [reparsed]
      cases p.port with
      | none => rfl
      | some k => cases k <;> rfl
    rw [hport]
    congr 1
    unfold authText
    simp only [reparsed, iriConv, uriConv]
    cases hx : truthy p.username with
    | none => simp [truthy]
    | some u =>
      have q1 : quote Gen.UrlTables.iriUserSafe u ≠ [] := quote_ne (truthy_ne hx)
      have q2 : unquotePartial Gen.UrlTables.keepUser (quote Gen.UrlTables.iriUserSafe u) ≠ [] :=
        unquotePartial_ne q1
      have q3 : quote Gen.UrlTables.iriUserSafe
          (unquotePartial Gen.UrlTables.keepUser (quote Gen.UrlTables.iriUserSafe u)) ≠ [] := quote_ne q2
      simp only [Option.map_some, truthy_some_ne q1, truthy_some_ne q2, truthy_some_ne q3,
        uqu hpU kt.2.2.2 (ui.user u hx).1]
      cases hy : truthy p.password with
      | none => simp [truthy]
      | some pw =>
        have r1 : quote Gen.UrlTables.iriPasswordSafe pw ≠ [] := quote_ne (truthy_ne hy)
        have r2 : unquotePartial Gen.UrlTables.keepUser (quote Gen.UrlTables.iriPasswordSafe pw) ≠ [] :=
          unquotePartial_ne r1
        have r3 : quote Gen.UrlTables.iriPasswordSafe
            (unquotePartial Gen.UrlTables.keepUser (quote Gen.UrlTables.iriPasswordSafe pw)) ≠ [] := quote_ne r2
        simp only [Option.map_some, truthy_some_ne r1, truthy_some_ne r2, truthy_some_ne r3,
          uqu hpP kt.2.2.2 (ui.pass pw hy).1]
  rw [hnet]
  have e1 := uqu (safe := Gen.UrlTables.iriPathSafe) (by decide) kt.1 ui.path.1
  have e2 := uqu (safe := Gen.UrlTables.iriQuerySafe) (by decide) kt.2.1 ui.query.1
  have e3 := uqu (safe := Gen.UrlTables.iriFragmentSafe) (by decide) kt.2.2.1 ui.fragment.1
  simp only [reparsed, iriConv, uriConv, e1, e2, e3]

/-- **IRI → URI → IRI is stable after one round, on URL text**: with `n` the normalised IRI
`uri_to_iri(iri_to_uri(url))`, converting `n` to a URI and back gives `n` again. -/
theorem iri_uri_iri_text {o : UrlOpaque} (laws : HostLaws o)
    (kt : KeepOK Gen.UrlTables.keepPath ∧ KeepOK Gen.UrlTables.keepQuery ∧
      KeepOK Gen.UrlTables.keepFragment ∧ KeepOK Gen.UrlTables.keepUser)
    {url u1 : Str} {sp : Split} (g : InGrammarU o url sp) (h1 : iriToUriText o url = .ok u1) :
    ∃ n u3, uriToIriText o u1 = .ok n ∧ iriToUriText o n = .ok u3 ∧ uriToIriText o u3 = .ok n := by
  rw [iriToUriText_unfold, g.split] at h1
  simp only at h1
  cases hp1 : partsOf o.hostToAscii sp with
  | error e => rw [hp1] at h1; cases h1
  | ok p1 =>
    rw [hp1] at h1
    simp only [Except.ok.injEq] at h1
    subst h1
    -- pass 1: iri_to_uri(url)
    obtain ⟨b1, ui1, hconv1⟩ := base_of_split g hp1 laws.a_chars
    obtain ⟨np1, g1⟩ := iri_pass laws b1 (laws.bracket_a _ _ hconv1)
    -- pass 2: uri_to_iri of that
    obtain ⟨h2, hu2⟩ := laws.u_of_a _ _ hconv1
    obtain ⟨s1, r1⟩ := pass_reparse g1 np1 hu2
    have b2 : PartsBase (reparsed iriConv p1 h2) := base_reparsed b1 (laws.u_chars _ _ hu2) quote_form
    have ui2 : UriInput (reparsed iriConv p1 h2) := uriInput_after_iri ui1 h2
    obtain ⟨np2, g2⟩ := uri_pass laws b2 ui2 (laws.bracket_u _ _ hu2) kt
    -- pass 3: iri_to_uri of the normalised IRI
    obtain ⟨a3, ha3, hu3⟩ := laws.a_of_u _ _ hu2
    obtain ⟨s2, r2⟩ := pass_reparse (conv' := o.hostToAscii) (h' := a3) g2 np2 ha3
    have b3 : PartsBase (reparsed uriConv (reparsed iriConv p1 h2) a3) :=
      base_reparsed b2 (laws.a_chars _ _ ha3) unquote_form
    obtain ⟨np3, g3⟩ := iri_pass laws b3 (laws.bracket_a _ _ ha3)
    -- pass 4: uri_to_iri again
    obtain ⟨s3, r3⟩ := pass_reparse (conv' := o.hostToUnicode) (h' := h2) g3 np3 hu3
    refine ⟨urlunsplit (uriConv.apply (reparsed iriConv p1 h2)),
      urlunsplit (iriConv.apply (reparsed uriConv (reparsed iriConv p1 h2) a3)), ?_, ?_, ?_⟩
    · rw [uriToIriText_unfold, s1]; simp only [r1]
    · rw [iriToUriText_unfold, s2]; simp only [r2]
    · rw [uriToIriText_unfold, s3]; simp only [r3]
      rw [roundtrip_apply ui1 kt]

end Wz.Url
