/-
`uri_to_iri` on whole URL text and the IRI → URI → IRI round trip (C15). Core Lean only.
-/
import WzVerif.Lemmas.UrlTextIri
import WzVerif.Lemmas.UrlPartialChars
namespace Wz.Url
open Wz

/-- laws assumed of the opaque host conversions (lower-casing + IDNA codec / `_decode_idna`), of the
`ipaddress` check and of the NFKC test -/
structure HostLaws (o : UrlOpaque) : Prop where
  a_chars : ∀ h r, o.hostToAscii h = some r → r ≠ [] ∧ ∀ c ∈ r, hostChar c = true
  u_chars : ∀ h r, o.hostToUnicode h = some r → r ≠ [] ∧ ∀ c ∈ r, hostChar c = true
  u_fixed : ∀ h r, o.hostToUnicode h = some r → o.hostToUnicode r = some r
  /-- encoding a decoded host and decoding again gives the decoded host -/
  a_of_u : ∀ h r, o.hostToUnicode h = some r → ∃ a, o.hostToAscii r = some a ∧ o.hostToUnicode a = some r
  /-- decoding an encoded host succeeds -/
  u_of_a : ∀ h a, o.hostToAscii h = some a → ∃ r, o.hostToUnicode a = some r
  bracket_a : ∀ h r, o.hostToAscii h = some r → r.contains ':' = true → o.bracketOk r = true
  bracket_u : ∀ h r, o.hostToUnicode h = some r → r.contains ':' = true → o.bracketOk r = true
  nfkc : ∀ n, o.nfkcOk n = true

/-- what a pass needs to know about the parts it converts -/
structure PartsBase (p : Parts) : Prop where
  scheme : validScheme p.scheme = true ∧ p.scheme.map asciiLower = p.scheme ∧ noTab p.scheme
  host_ne : p.host ≠ []
  host_chars : ∀ c ∈ p.host, hostChar c = true
  port : ∀ k, p.port = some k → k ≤ 65535
  path_form : p.path = [] ∨ p.path.head? = some '/'

theorem netlocOk_of_law {o : UrlOpaque} (h : ∀ n, o.nfkcOk n = true) (n : Str) : netlocOk o n = true := by
  simp [netlocOk, h n]

theorem fixed_noDelims {safe : Str} {s : Str}
    (tblP : ∀ n, n < 128 → isSafe safe (UInt8.ofNat n) = true → isTabCrLf (Char.ofNat n) = false)
    (hp : safe.contains '%' = true) : noTab (quote safe s) := fun c hc =>
  fixed_transfer (P := fun c => isTabCrLf c = false) tblP (quote_fixed hp s c hc)

/-- facts about an `iri_to_uri` pass over arbitrary well-shaped parts -/
theorem iri_pass {o : UrlOpaque} (laws : HostLaws o) {p : Parts} (b : PartsBase p)
    (hb : p.host.contains ':' = true → o.bracketOk p.host = true) :
    NetlocParts iriConv.fu iriConv.fp p ∧ GoodSplit o (iriConv.apply p) := by
  have hpU : Gen.UrlTables.iriUserSafe.contains '%' = true := by decide
  have hpP : Gen.UrlTables.iriPasswordSafe.contains '%' = true := by decide
  have hpF : Gen.UrlTables.iriPathSafe.contains '%' = true := by decide
  have hqF : Gen.UrlTables.iriQuerySafe.contains '%' = true := by decide
  have hfF : Gen.UrlTables.iriFragmentSafe.contains '%' = true := by decide
  have np : NetlocParts iriConv.fu iriConv.fp p := by
    refine ⟨b.host_ne, b.host_chars, ?_, ?_, b.port⟩
    · intro u hu
      exact ⟨quote_ne (truthy_ne hu), fun c hc =>
        fixed_transfer (P := fun c => plainChar c = true) (fun n hn h => (safe_user_plain n hn).1 h)
          (quote_fixed hpU u c hc)⟩
    · intro pw hpw
      exact ⟨quote_ne (truthy_ne hpw), fun c hc =>
        fixed_transfer (P := fun c => plainChar c = true) (fun n hn h => (safe_user_plain n hn).2 h)
          (quote_fixed hpP pw c hc)⟩
  refine ⟨np, ?_⟩
  apply good_apply np b.scheme hb (netlocOk_of_law laws.nfkc _)
  · refine ⟨?_, ?_, ?_, ?_⟩
    · show quote Gen.UrlTables.iriPathSafe p.path = [] ∨ _
      rcases b.path_form with h | h
      · left; rw [h]; rfl
      · right
        cases hpath : p.path with
        | nil => rw [hpath] at h; cases h
        | cons x xs =>
          rw [hpath] at h
          simp at h
          subst h
          show (quote Gen.UrlTables.iriPathSafe ('/' :: xs)).head? = some '/'
          rw [quote_cons_fixed (show Fixed Gen.UrlTables.iriPathSafe '/' from ⟨by decide, by decide⟩)]
          rfl
    · intro hm
      exact (fixed_transfer (P := fun c => c ≠ '?' ∧ c ≠ '#' ∧ isTabCrLf c = false) safe_path_ok
        (quote_fixed hpF p.path _ hm)).1 rfl
    · intro hm
      exact (fixed_transfer (P := fun c => c ≠ '?' ∧ c ≠ '#' ∧ isTabCrLf c = false) safe_path_ok
        (quote_fixed hpF p.path _ hm)).2.1 rfl
    · exact fixed_noDelims (fun n hn h => (safe_path_ok n hn h).2.2) hpF
  · refine ⟨?_, fixed_noDelims (fun n hn h => (safe_query_ok n hn h).2) hqF⟩
    intro hm
    exact (fixed_transfer (P := fun c => c ≠ '#' ∧ isTabCrLf c = false) safe_query_ok
      (quote_fixed hqF p.query _ hm)).1 rfl
  · exact fixed_noDelims safe_frag_ok hfF

/-! ### the `uri_to_iri` pass -/

theorem keptChar_tab {keep : List Bool} (hk : ∀ n, n ≤ 0x20 → tbl keep n = true) {c : Char}
    (h : isTabCrLf c = true) : KeptChar keep c := by
  simp only [isTabCrLf, Bool.or_eq_true, beq_iff_eq] at h
  rcases h with (rfl | rfl) | rfl
  · exact ⟨by decide, hk _ (by decide), by decide, by decide⟩
  · exact ⟨by decide, hk _ (by decide), by decide, by decide⟩
  · exact ⟨by decide, hk _ (by decide), by decide, by decide⟩

theorem keep_low : (∀ n, n ≤ 0x20 → tbl Gen.UrlTables.keepPath n = true) ∧
    (∀ n, n ≤ 0x20 → tbl Gen.UrlTables.keepQuery n = true) ∧
    (∀ n, n ≤ 0x20 → tbl Gen.UrlTables.keepFragment n = true) ∧
    (∀ n, n ≤ 0x20 → tbl Gen.UrlTables.keepUser n = true) := by
  have h : ∀ t : List Bool, (∀ n, n < 33 → tbl t n = true) → ∀ n, n ≤ 0x20 → tbl t n = true :=
    fun t h n hn => h n (by omega)
  exact ⟨h _ (by decide), h _ (by decide), h _ (by decide), h _ (by decide)⟩

/-- every non-plain character is kept quoted in the userinfo (regenerated table; includes `[` `]`) -/
theorem user_kept {c : Char} (h : plainChar c = false) : KeptChar Gen.UrlTables.keepUser c := by
  by_cases ht : isTabCrLf c = true
  · exact keptChar_tab keep_low.2.2.2 ht
  · simp only [plainChar, hostChar, isNetlocDelim, Bool.and_eq_false_iff, Bool.not_eq_false',
      Bool.or_eq_true, beq_iff_eq, bne_eq_false_iff_eq] at h
    rcases h with ((((((h | h) | h) | h) | h) | h) | h) | h
    · subst h; exact ⟨by decide, by decide, by decide, by decide⟩
    · subst h; exact ⟨by decide, by decide, by decide, by decide⟩
    · subst h; exact ⟨by decide, by decide, by decide, by decide⟩
    · subst h; exact ⟨by decide, by decide, by decide, by decide⟩
    · subst h; exact ⟨by decide, by decide, by decide, by decide⟩
    · subst h; exact ⟨by decide, by decide, by decide, by decide⟩
    · exact absurd h ht
    · subst h; exact ⟨by decide, by decide, by decide, by decide⟩

theorem unquoteUser_plain {s : Str} (hw : wellFormed s = true) (hs : ∀ c ∈ s, plainChar c = true)
    (hk : KeepOK Gen.UrlTables.keepUser) : ∀ c ∈ unquotePartial Gen.UrlTables.keepUser s, plainChar c = true := by
  intro c hc
  cases hp : plainChar c with
  | true => rfl
  | false =>
    have := kept_mem_unquotePartial hk (user_kept hp) hw hc
    rw [hs c this] at hp; cases hp

theorem unquote_noTab {keep : List Bool} (hk : KeepOK keep) (hlow : ∀ n, n ≤ 0x20 → tbl keep n = true)
    {s : Str} (hw : wellFormed s = true) (hs : noTab s) : noTab (unquotePartial keep s) := by
  intro c hc
  cases ht : isTabCrLf c with
  | false => rfl
  | true =>
    have := kept_mem_unquotePartial hk (keptChar_tab hlow ht) hw hc
    rw [hs c this] at ht; cases ht

/-- what the `uri_to_iri` pass needs of the text components -/
structure UriInput (p : Parts) : Prop where
  user : ∀ u, truthy p.username = some u → wellFormed u = true ∧ ∀ c ∈ u, plainChar c = true
  pass : ∀ pw, truthy p.password = some pw → wellFormed pw = true ∧ ∀ c ∈ pw, plainChar c = true
  path : wellFormed p.path = true ∧ '?' ∉ p.path ∧ '#' ∉ p.path ∧ noTab p.path
  query : wellFormed p.query = true ∧ '#' ∉ p.query ∧ noTab p.query
  fragment : wellFormed p.fragment = true ∧ noTab p.fragment

theorem uri_pass {o : UrlOpaque} (laws : HostLaws o) {p : Parts} (b : PartsBase p) (ui : UriInput p)
    (hb : p.host.contains ':' = true → o.bracketOk p.host = true)
    (kt : KeepOK Gen.UrlTables.keepPath ∧ KeepOK Gen.UrlTables.keepQuery ∧
      KeepOK Gen.UrlTables.keepFragment ∧ KeepOK Gen.UrlTables.keepUser) :
    NetlocParts uriConv.fu uriConv.fp p ∧ GoodSplit o (uriConv.apply p) := by
  have np : NetlocParts uriConv.fu uriConv.fp p := by
    refine ⟨b.host_ne, b.host_chars, ?_, ?_, b.port⟩
    · intro u hu
      obtain ⟨h1, h2⟩ := ui.user u hu
      exact ⟨unquotePartial_ne (truthy_ne hu), unquoteUser_plain h1 h2 kt.2.2.2⟩
    · intro pw hpw
      obtain ⟨h1, h2⟩ := ui.pass pw hpw
      exact ⟨unquotePartial_ne (truthy_ne hpw), unquoteUser_plain h1 h2 kt.2.2.2⟩
  refine ⟨np, ?_⟩
  apply good_apply np b.scheme hb (netlocOk_of_law laws.nfkc _)
  · obtain ⟨w, q1, q2, q3⟩ := ui.path
    refine ⟨?_, ?_, ?_, unquote_noTab kt.1 keep_low.1 w q3⟩
    · show unquotePartial Gen.UrlTables.keepPath p.path = [] ∨ _
      rcases b.path_form with h | h
      · left; rw [h]; rfl
      · right
        cases hpath : p.path with
        | nil => rw [hpath] at h; cases h
        | cons x xs =>
          rw [hpath] at h
          simp at h
          subst h
          show (unquotePartial Gen.UrlTables.keepPath ('/' :: xs)).head? = some '/'
          rw [unquotePartial_slash]
          rfl
    · intro hm
      exact q1 (kept_mem_unquotePartial kt.1 ⟨by decide, by decide, by decide, by decide⟩ w hm)
    · intro hm
      exact q2 (kept_mem_unquotePartial kt.1 ⟨by decide, by decide, by decide, by decide⟩ w hm)
  · obtain ⟨w, q1, q2⟩ := ui.query
    refine ⟨?_, unquote_noTab kt.2.1 keep_low.2.1 w q2⟩
    intro hm
    exact q1 (kept_mem_unquotePartial kt.2.1 ⟨by decide, by decide, by decide, by decide⟩ w hm)
  · exact unquote_noTab kt.2.2.1 keep_low.2.2.1 ui.fragment.1 ui.fragment.2

end Wz.Url
