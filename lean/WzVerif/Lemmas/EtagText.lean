/-
Helper lemmas for C11: entity-tag *lists* as header text. `parse_etags` on a rendered list of
quoted tags (`"t1", W/"t2", …` with any `\s*,\s*` separator) yields exactly those tags — whatever
the tag texts are, in particular when a tag's text looks like syntax (`*`, `W/`, `,`, empty).
Core Lean only.
-/
import WzVerif.Lemmas.Conditional
namespace Wz.Cond
open Wz

/-- `"tag"` or `W/"tag"` -/
def renderTag (t : Str × Bool) : Str := if t.2 then 'W' :: '/' :: quoteTag t.1 else quoteTag t.1

/-- a list separator `\s*,\s*` -/
def IsSep (sep : Str) : Prop :=
  ∃ a b, sep = a ++ ',' :: b ∧ (∀ c ∈ a, Py.isSpace c = true) ∧ (∀ c ∈ b, Py.isSpace c = true)

/-- the header text of a tag list -/
def renderTags (sep : Str) : List (Str × Bool) → Str
  | [] => []
  | [t] => renderTag t
  | t :: t' :: r => renderTag t ++ (sep ++ renderTags sep (t' :: r))

def strongOf (ts : List (Str × Bool)) : List (Option Str) := (ts.filter (!·.2)).map (some ·.1)
def weakOf (ts : List (Str × Bool)) : List (Option Str) := (ts.filter (·.2)).map (some ·.1)

theorem dropWhile_allSpace (a rest : Str) (h : ∀ c ∈ a, Py.isSpace c = true) :
    (a ++ rest).dropWhile Py.isSpace = rest.dropWhile Py.isSpace := by
  induction a with
  | nil => rfl
  | cons c t ih =>
    simp only [List.cons_append, List.dropWhile_cons, h c (by simp), ↓reduceIte]
    exact ih (fun x hx => h x (by simp [hx]))

theorem etagDelim_sep (sep rest : Str) (hs : IsSep sep)
    (hr : ∀ c, rest.head? = some c → Py.isSpace c = false) :
    etagDelim (sep ++ rest) = some rest := by
  obtain ⟨a, b, rfl, ha, hb⟩ := hs
  unfold etagDelim
  have hne : (a ++ ',' :: b ++ rest).isEmpty = false := by
    cases a <;> simp
  simp only [hne, Bool.false_eq_true, ↓reduceIte]
  have e1 : (a ++ ',' :: b ++ rest) = a ++ (',' :: (b ++ rest)) := by simp
  rw [e1, dropWhile_allSpace a _ ha]
  have hc : Py.isSpace ',' = false := by decide
  simp only [List.dropWhile_cons, hc, Bool.false_eq_true, ↓reduceIte]
  rw [dropWhile_allSpace b _ hb, dropWhile_head_false hr]

/-- the lazy `"(.*?)"` stops at the first quote that a delimiter follows; a clean tag has none inside -/
theorem quotedTag_clean_rest (tag acc rest r : Str) (h : CleanTag tag) (hd : etagDelim rest = some r) :
    quotedTag (tag ++ '"' :: rest) acc = some (acc.reverse ++ tag, r) := by
  induction tag generalizing acc with
  | nil => simp [quotedTag, hd]
  | cons c t ih =>
    have hc := h c (by simp)
    have ht : CleanTag t := fun x hx => h x (by simp [hx])
    simp only [List.cons_append, quotedTag]
    have h1 : (c == '"') = false := by simpa using hc.1
    have h2 : (c == '\n') = false := by simpa using hc.2
    simp only [h1, h2, Bool.false_eq_true, ↓reduceIte]
    rw [ih (c :: acc) ht]
    simp

/-- one iteration of the `parse_etags` loop on a quoted tag: the tag is stored as it is spelled —
**never** read as the wildcard, whatever its text -/
theorem parseEtagsLoop_tag (fuel : Nat) (t : Str × Bool) (rest r : Str) (st wk : List (Option Str))
    (h : CleanTag t.1) (hd : etagDelim rest = some r) :
    parseEtagsLoop (fuel + 1) (renderTag t ++ rest) st wk =
      if t.2 then parseEtagsLoop fuel r st (some t.1 :: wk)
      else parseEtagsLoop fuel r (some t.1 :: st) wk := by
  obtain ⟨tag, w⟩ := t
  have hq := quotedTag_clean_rest tag [] rest r h hd
  simp only [List.reverse_nil, List.nil_append] at hq
  cases w with
  | false =>
    simp only [renderTag, quoteTag, Bool.false_eq_true, ↓reduceIte, List.cons_append, List.append_assoc]
    rw [parseEtagsLoop]
    simp [weakPrefix, etagMatch, quotedAt, hq]
  | true =>
    simp only [renderTag, quoteTag, ↓reduceIte, List.cons_append, List.append_assoc]
    rw [parseEtagsLoop]
    simp [weakPrefix, etagMatch, quotedAt, hq]

theorem renderTag_head (t : Str × Bool) : ∃ c rest, renderTag t = c :: rest ∧ Py.isSpace c = false := by
  obtain ⟨tag, w⟩ := t
  cases w with
  | false => exact ⟨'"', tag ++ ['"'], rfl, by decide⟩
  | true => exact ⟨'W', '/' :: quoteTag tag, rfl, by decide⟩

theorem renderTags_head (sep : Str) (t : Str × Bool) (r : List (Str × Bool)) :
    ∀ c, (renderTags sep (t :: r)).head? = some c → Py.isSpace c = false := by
  intro c hc
  obtain ⟨c0, rest, he, hsp⟩ := renderTag_head t
  cases r with
  | nil =>
    simp only [renderTags, he, List.head?_cons, Option.some.injEq] at hc
    subst hc; exact hsp
  | cons t' r' =>
    simp only [renderTags, he, List.cons_append, List.head?_cons, Option.some.injEq] at hc
    subst hc; exact hsp

theorem parseEtagsLoop_render (sep : Str) (hs : IsSep sep) (ts : List (Str × Bool))
    (hc : ∀ t ∈ ts, CleanTag t.1) (fuel : Nat) (hf : ts.length < fuel) (st wk : List (Option Str)) :
    parseEtagsLoop fuel (renderTags sep ts) st wk =
      ⟨st.reverse ++ strongOf ts, wk.reverse ++ weakOf ts, false⟩ := by
  induction ts generalizing fuel st wk with
  | nil =>
    cases fuel with
    | zero => omega
    | succ f => simp [renderTags, parseEtagsLoop, strongOf, weakOf]
  | cons t r ih =>
    cases fuel with
    | zero => omega
    | succ f =>
      have hct : CleanTag t.1 := hc t (by simp)
      have hcr : ∀ x ∈ r, CleanTag x.1 := fun x hx => hc x (by simp [hx])
      have hfr : r.length < f := by simp only [List.length_cons] at hf; omega
      cases r with
      | nil =>
        have e : renderTags sep [t] = renderTag t ++ [] := by simp [renderTags]
        rw [e, parseEtagsLoop_tag f t [] [] st wk hct (by simp [etagDelim])]
        have h0 := ih hcr f hfr
        simp only [renderTags] at h0
        obtain ⟨tag, w⟩ := t
        cases w <;> simp [h0, strongOf, weakOf]
      | cons t' r' =>
        have e : renderTags sep (t :: t' :: r') = renderTag t ++ (sep ++ renderTags sep (t' :: r')) := rfl
        rw [e, parseEtagsLoop_tag f t _ _ st wk hct
          (etagDelim_sep sep _ hs (renderTags_head sep t' r'))]
        have h0 := ih hcr f hfr
        obtain ⟨tag, w⟩ := t
        cases w <;> simp [h0, strongOf, weakOf]

theorem renderTag_length (t : Str × Bool) : 2 ≤ (renderTag t).length := by
  obtain ⟨tag, w⟩ := t
  cases w <;> simp [renderTag, quoteTag] <;> omega

theorem renderTags_length (sep : Str) (ts : List (Str × Bool)) : ts.length ≤ (renderTags sep ts).length := by
  induction ts with
  | nil => simp
  | cons t r ih =>
    cases r with
    | nil => have := renderTag_length t; simp [renderTags]; omega
    | cons t' r' =>
      have := renderTag_length t
      simp only [renderTags, List.length_append, List.length_cons] at ih ⊢
      omega

/-- `parse_etags` on the header text of a non-empty list of quoted entity tags: exactly those tags,
strong and weak apart, and **no wildcard** — for every tag text without `"` and line feed, e.g.
`*`, `W/`, `,`, the empty text. -/
theorem parseEtags_render (sep : Str) (hs : IsSep sep) (ts : List (Str × Bool)) (hne : ts ≠ [])
    (hc : ∀ t ∈ ts, CleanTag t.1) :
    parseEtags (some (renderTags sep ts)) = ⟨strongOf ts, weakOf ts, false⟩ := by
  unfold parseEtags
  have hl := renderTags_length sep ts
  have hnE : (renderTags sep ts).isEmpty = false := by
    cases ts with
    | nil => exact absurd rfl hne
    | cons t r =>
      have := renderTags_head sep t r
      cases h : renderTags sep (t :: r) with
      | nil => simp [h] at hl
      | cons _ _ => rfl
  simp only [hnE, Bool.false_eq_true, ↓reduceIte]
  rw [parseEtagsLoop_render sep hs ts hc _ (by omega)]
  simp

theorem strip_renderTag (t : Str × Bool) : Py.strip (renderTag t) = renderTag t := by
  obtain ⟨tag, w⟩ := t
  cases w with
  | false => exact strip_quoteTag tag
  | true =>
    unfold Py.strip Py.rstripBy renderTag quoteTag
    have h1 : Py.isSpace '"' = false := by decide
    have h2 : Py.isSpace 'W' = false := by decide
    simp [h1, h2]

/-- `unquote_etag` inverts the rendering of one tag -/
theorem unquoteEtag_render (t : Str × Bool) : unquoteEtag (renderTag t) = some t := by
  unfold unquoteEtag
  rw [strip_renderTag]
  obtain ⟨tag, w⟩ := t
  cases w with
  | false => simp [renderTag, quoteTag, getLast_quote]
  | true => simp [renderTag, quoteTag, getLast_quote]

theorem mem_strongOf (ts : List (Str × Bool)) (e : Str) :
    (strongOf ts).contains (some e) = true ↔ (e, false) ∈ ts := by
  simp only [strongOf, List.contains_iff_mem, List.mem_map, List.mem_filter, Option.some.injEq]
  constructor
  · rintro ⟨⟨a, w⟩, ⟨hm, hw⟩, rfl⟩
    have : w = false := by simpa using hw
    subst this; exact hm
  · intro h; exact ⟨(e, false), ⟨h, rfl⟩, rfl⟩

theorem mem_weakOf (ts : List (Str × Bool)) (e : Str) :
    (weakOf ts).contains (some e) = true ↔ (e, true) ∈ ts := by
  simp only [weakOf, List.contains_iff_mem, List.mem_map, List.mem_filter, Option.some.injEq]
  constructor
  · rintro ⟨⟨a, w⟩, ⟨hm, hw⟩, rfl⟩
    have : w = true := by simpa using hw
    subst this; exact hm
  · intro h; exact ⟨(e, true), ⟨h, rfl⟩, rfl⟩

theorem truthy_render (ts : List (Str × Bool)) (hne : ts ≠ []) :
    (ETags.mk (strongOf ts) (weakOf ts) false).truthy = true := by
  cases ts with
  | nil => exact absurd rfl hne
  | cons t r =>
    obtain ⟨tag, w⟩ := t
    cases w <;> simp [ETags.truthy, strongOf, weakOf]

/-! ### an unquoted "plain" tag (what `is_resource_modified` hands to `parse_etags` for `If-Range`) -/

/-- tag text that `parse_etags` reads back as the single strong tag it is: no white space, `,`,
`"`, `/`, `*` -/
def PlainTag (tag : Str) : Prop :=
  tag ≠ [] ∧ ∀ c ∈ tag, Py.isSpace c = false ∧ c ≠ ',' ∧ c ≠ '"' ∧ c ≠ '/' ∧ c ≠ '*'

theorem etagDelim_plain (c : Char) (t : Str) (hs : Py.isSpace c = false) (hc : c ≠ ',') :
    etagDelim (c :: t) = none := by
  unfold etagDelim
  simp only [List.isEmpty_cons, Bool.false_eq_true, ↓reduceIte, List.dropWhile_cons, hs]
  split
  · rename_i heq
    simp only [List.cons.injEq] at heq
    exact absurd heq.1 hc
  · rfl

theorem rawTag_plain (tag acc : Str)
    (h : ∀ c ∈ tag, Py.isSpace c = false ∧ c ≠ ',' ∧ c ≠ '"' ∧ c ≠ '/' ∧ c ≠ '*') :
    rawTag tag acc = some (acc.reverse ++ tag, []) := by
  induction tag generalizing acc with
  | nil => unfold rawTag; simp
  | cons c t ih =>
    obtain ⟨hs, hc, _⟩ := h c (by simp)
    have hnl : (c == '\n') = false := by
      rw [beq_eq_false_iff_ne]; intro e; subst e; revert hs; decide
    conv => lhs; unfold rawTag
    simp only [etagDelim_plain c t hs hc, hnl, Bool.false_eq_true, ↓reduceIte]
    rw [ih (c :: acc) (fun x hx => h x (by simp [hx]))]
    simp

theorem weakPrefix_plain (tag : Str) (h : ∀ c ∈ tag, c ≠ '/') : weakPrefix tag = (false, tag) := by
  unfold weakPrefix
  split
  · exact absurd rfl (h '/' (by simp))
  · exact absurd rfl (h '/' (by simp))
  · rfl

theorem quotedAt_plain (tag : Str) (h : ∀ c ∈ tag, c ≠ '"') : quotedAt tag = none := by
  unfold quotedAt
  split
  · exact absurd rfl (h '"' (by simp))
  · rfl

theorem parseEtags_plain (tag : Str) (h : PlainTag tag) :
    parseEtags (some tag) = ⟨[some tag], [], false⟩ := by
  obtain ⟨hne, hall⟩ := h
  have hraw := rawTag_plain tag [] hall
  simp only [List.reverse_nil, List.nil_append] at hraw
  have hw := weakPrefix_plain tag (fun c hc => (hall c hc).2.2.2.1)
  have hq := quotedAt_plain tag (fun c hc => (hall c hc).2.2.1)
  have hstar : (tag == ['*']) = false := by
    rw [beq_eq_false_iff_ne]; intro e
    exact (hall '*' (by rw [e]; simp)).2.2.2.2 rfl
  have hE : tag.isEmpty = false := by
    cases tag with
    | nil => exact absurd rfl hne
    | cons _ _ => rfl
  unfold parseEtags
  simp only [hE, Bool.false_eq_true, ↓reduceIte]
  rw [parseEtagsLoop]
  simp only [hE, Bool.false_eq_true, ↓reduceIte, hw, etagMatch, hq, hraw, hstar]
  cases hl : tag.length with
  | zero => simp [parseEtagsLoop]
  | succ n => simp [parseEtagsLoop]

end Wz.Cond
