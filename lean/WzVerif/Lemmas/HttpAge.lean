import WzVerif.Lemmas.HttpInt
set_option linter.unusedSimpArgs false
namespace Wz.Http
open Wz

/-! ### `int()` on decimal text, Age -/

theorem decimal_tbl : ∀ n, n < 256 → 48 ≤ n → n ≤ 57 → tbl Gen.Http.decimalTbl n = true := by
  decide +kernel

theorem isDecimalCh_of_isDigit {c : Char} (h : c.isDigit = true) : isDecimalCh c = true := by
  simp only [Char.isDigit, Bool.and_eq_true, decide_eq_true_eq] at h
  have h1 : 48 ≤ c.toNat := UInt32.le_iff_toNat_le.mp h.1
  have h2 : c.toNat ≤ 57 := UInt32.le_iff_toNat_le.mp h.2
  have hlt : c.toNat < 256 := by omega
  simp [isDecimalCh, hlt, decimal_tbl _ hlt h1 h2]

theorem intBody_go_digits (t acc : Str) (h : t.all Char.isDigit = true) :
    intBody?.go t acc = some (acc.reverse ++ t) := by
  induction t generalizing acc with
  | nil => simp [intBody?.go]
  | cons d r ih =>
    simp only [List.all_cons, Bool.and_eq_true] at h
    have hd := isDecimalCh_of_isDigit h.1
    have hu : d ≠ '_' := isDigit_ne h.1 (by decide)
    rw [intBody?.go.eq_def]
    split
    · next heq => simp at heq
    · next d' t' heq => simp at heq; exact absurd heq.1 hu
    · next d' t' hno heq =>
      simp at heq
      obtain ⟨rfl, rfl⟩ := heq
      simp [hd, ih _ h.2]

theorem intBody_digits (ds : Str) (h : ds.all Char.isDigit = true) (hne : ds ≠ []) :
    intBody? ds = some ds := by
  cases ds with
  | nil => exact absurd rfl hne
  | cons c t =>
    simp only [List.all_cons, Bool.and_eq_true] at h
    simp [intBody?, isDecimalCh_of_isDigit h.1, intBody_go_digits t [c] h.2]

theorem signSplit2_digits {ds : Str} (h : ds.all Char.isDigit = true) : signSplit2 ds = (false, ds) := by
  unfold signSplit2
  split
  · next r =>
    have : ('-' : Char) ∈ ('-' :: r) := by simp
    exact absurd this (digits_not_mem h (by decide))
  · next r =>
    have : ('+' : Char) ∈ ('+' :: r) := by simp
    exact absurd this (digits_not_mem h (by decide))
  · rfl

theorem intStrip_tight {x : Str} (h : Tight x) : intStrip x = x := by
  have hp : ∀ c, Py.isSpace c = false → isIntSpace c = false := fun c hc => by simp [isIntSpace, hc]
  unfold intStrip Py.rstripBy
  have h1 : x.dropWhile isIntSpace = x := by
    cases x with
    | nil => rfl
    | cons a t => simp [List.dropWhile_cons, hp a (h.1 a rfl)]
  rw [h1]
  have : x.reverse.dropWhile isIntSpace = x.reverse := by
    cases hr : x.reverse with
    | nil => rfl
    | cons a t =>
      have : x.getLast? = some a := by
        rw [← List.head?_reverse, hr]; rfl
      simp [List.dropWhile_cons, hp a (h.2 a this)]
  rw [this, List.reverse_reverse]

/-- an ASCII character is left alone by the digit transformation (an ASCII digit maps to itself) -/
theorem decimalVal_ascii : ∀ n, n < 128 →
    (match decimalVal? (Char.ofNat n) with | some d => Char.ofNat (48 + d) | none => Char.ofNat n) = Char.ofNat n := by
  decide +kernel

theorem toAsciiDecimal_ascii (s : Str) (h : ∀ c ∈ s, c.toNat < 128) : toAsciiDecimal s = s := by
  unfold toAsciiDecimal
  conv => rhs; rw [← List.map_id s]
  apply List.map_congr_left
  intro c hc
  have := decimalVal_ascii c.toNat (h c hc)
  rw [Char.ofNat_toNat] at this
  exact this

theorem isDigit_lt128 {c : Char} (h : c.isDigit = true) : c.toNat < 128 := by
  simp only [Char.isDigit, Bool.and_eq_true, decide_eq_true_eq] at h
  have h2 : c.toNat ≤ 57 := UInt32.le_iff_toNat_le.mp h.2
  omega

theorem toAsciiDecimal_digits {ds : Str} (h : ds.all Char.isDigit = true) : toAsciiDecimal ds = ds :=
  toAsciiDecimal_ascii ds (fun c hc => isDigit_lt128 (List.all_eq_true.1 h c hc))

theorem pyInt_natText (n : Nat) : pyInt (natText n) = .ok (n : Int) := by
  have h := natText_all_digit n
  unfold pyInt
  rw [toAsciiDecimal_digits h, intStrip_tight (digits_tight h), signSplit2_digits h]
  simp [intBody_digits _ h (natText_ne_nil n), digitsVal_natText]

theorem pyInt_intText (i : Int) : pyInt (intText i) = .ok i := by
  cases i with
  | ofNat n => exact pyInt_natText n
  | negSucc n =>
    have h := natText_all_digit (n + 1)
    have ht : Tight ('-' :: natText (n + 1)) := by
      refine ⟨fun c hc => by simp at hc; subst hc; decide, fun c hc => ?_⟩
      cases hq : natText (n + 1) with
      | nil => exact absurd hq (natText_ne_nil _)
      | cons a t =>
        rw [hq, List.getLast?_cons_cons] at hc
        rw [hq] at h
        exact (digits_tight h).2 c hc
    simp only [intText]
    unfold pyInt
    rw [toAsciiDecimal_ascii _ (by
      intro c hc
      rcases List.mem_cons.1 hc with e | e
      · subst e; decide
      · exact isDigit_lt128 (List.all_eq_true.1 h c e)), intStrip_tight ht]
    simp [signSplit2, intBody_digits _ h (natText_ne_nil _), digitsVal_natText]
    rfl

theorem age_roundtrip_any (n : Nat) (h : n ≤ Gen.Http.timedeltaMaxSeconds) :
    parseAge (dumpAge n) = .ok (some n) := by
  unfold parseAge dumpAge
  have hemp : (natText n).isEmpty = false := by
    cases hq : natText n with
    | nil => exact absurd hq (natText_ne_nil _)
    | cons _ _ => rfl
  simp only [hemp, Bool.false_eq_true, if_false, pyInt_natText, Except.map, catching_ok, ok_bind]
  have : ¬ ((n : Int) < 0) := by omega
  have h2 : ¬ ((Gen.Http.timedeltaMaxSeconds : Int) < (n : Int)) := by omega
  simp [this, h2, h]

end Wz.Http
