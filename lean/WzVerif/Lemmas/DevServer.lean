/-
Helper lemmas for C19: make_environ and the response writer (Model/DevServer.lean).
-/
import WzVerif.Model.DevServer
import WzVerif.Lemmas.Chunked
namespace Wz.DevServer
open Wz Wz.Chunked

/-! ### bytes ↔ latin-1 characters -/

theorem byte_char_roundtrip : ∀ n, n < 256 → (Char.ofNat n).toNat = n := by decide +kernel

theorem toNat_toChar (b : UInt8) : (Char.ofNat b.toNat).toNat = b.toNat :=
  byte_char_roundtrip b.toNat b.toNat_lt

theorem ofNat_toChar (b : UInt8) : UInt8.ofNat (Char.ofNat b.toNat).toNat = b := by
  rw [toNat_toChar]; exact UInt8.ofNat_toNat

theorem latin1Enc_latin1Dec : ∀ bs : Bytes, Py.latin1Enc (Py.latin1Dec bs) = some bs := by
  intro bs
  induction bs with
  | nil => rfl
  | cons b t ih =>
    have h1 : (Char.ofNat b.toNat).toNat < 256 := by rw [toNat_toChar]; exact b.toNat_lt
    simp only [Py.latin1Dec, List.map_cons] at ih ⊢
    simp only [Py.latin1Enc, h1, if_true, ih, Option.map_some, ofNat_toChar]

/-- ASCII text passes through the latin-1 dance unchanged -/
theorem dance_ascii : ∀ s : Str, (∀ c ∈ s, c.toNat < 128) → dance s = s := by
  intro s
  induction s with
  | nil => intro _; rfl
  | cons c t ih =>
    intro h
    have hc : c.toNat < 128 := h c List.mem_cons_self
    have hsz : c.utf8Size = 1 := by
      unfold Char.utf8Size
      have : c.val ≤ 127 := by
        simp only [UInt32.le_iff_toNat_le]; exact Nat.le_of_lt_succ hc
      simp [this]
    have ih' := ih (fun x hx => h x (List.mem_cons_of_mem _ hx))
    simp only [dance, utf8Enc, Py.latin1Dec, List.flatMap_cons, List.map_append] at ih' ⊢
    rw [ih', String.utf8EncodeChar_eq_singleton hsz]
    simp only [List.map_cons, List.map_nil, List.singleton_append, List.cons.injEq, and_true]
    have : c.val.toUInt8.toNat = c.toNat := by
      have e : c.toNat = c.val.toNat := rfl
      simp only [UInt32.toNat_toUInt8]
      omega
    rw [this, Char.ofNat_toNat]

/-! ### percent-encoding -/

/-- how a client writes one byte: literally, or as `%XY` with a hex case per digit -/
inductive PEnc where
  | lit
  | pct (upHi upLo : Bool)

/-- bytes that may be written literally inside a path: printable ASCII except `%`, `?`, `#` -/
def litOk (b : UInt8) : Bool := 0x21 ≤ b.toNat && b.toNat ≤ 0x7E && b != 37 && b != 63 && b != 35

def encByte (b : UInt8) : PEnc → Str
  | .lit => [toChar b]
  | .pct u1 u2 => ['%', toChar (hexDigitChar u1 (b.toNat / 16)), toChar (hexDigitChar u2 (b.toNat % 16))]

/-- a percent-encoding of a byte string: one choice per byte -/
def pctEncode (l : List (UInt8 × PEnc)) : Str := l.flatMap fun p => encByte p.1 p.2

def ValidEnc (l : List (UInt8 × PEnc)) : Prop := ∀ p ∈ l, (match p.2 with | .lit => litOk p.1 = true | .pct _ _ => True)

theorem lit_char_facts : ∀ n, n < 256 → (0x21 ≤ n && n ≤ 0x7E && n != 37 && n != 63 && n != 35) = true →
    Char.ofNat n ≠ '%' ∧ Char.ofNat n ≠ '?' ∧ Char.ofNat n ≠ '#' ∧
    (0x21 ≤ (Char.ofNat n).toNat && (Char.ofNat n).toNat ≤ 0x7E) = true := by
  decide +kernel

theorem litOk_facts {b : UInt8} (h : litOk b = true) :
    toChar b ≠ '%' ∧ toChar b ≠ '?' ∧ toChar b ≠ '#' ∧ (0x21 ≤ (toChar b).toNat && (toChar b).toNat ≤ 0x7E) = true := by
  apply lit_char_facts b.toNat b.toNat_lt
  unfold litOk at h
  have e1 : (b != 37) = (b.toNat != 37) := by
    rw [Bool.eq_iff_iff]; simp [← UInt8.toNat_inj]
  have e2 : (b != 63) = (b.toNat != 63) := by
    rw [Bool.eq_iff_iff]; simp [← UInt8.toNat_inj]
  have e3 : (b != 35) = (b.toNat != 35) := by
    rw [Bool.eq_iff_iff]; simp [← UInt8.toNat_inj]
  rw [e1, e2, e3] at h
  exact h

theorem pctDecode_lit (c : Char) (t : Str) (h : c ≠ '%') :
    pctDecode (c :: t) = UInt8.ofNat c.toNat :: pctDecode t := by
  conv => lhs; unfold pctDecode
  split
  · rename_i heq; simp only [List.cons.injEq] at heq; exact absurd heq.1 h
  · rename_i heq; simp only [List.cons.injEq] at heq; rw [heq.1, heq.2]
  · rename_i heq; cases heq

theorem pctDecode_pct (a b : Char) (x y : Nat) (t : Str) (ha : hexVal a = some x) (hb : hexVal b = some y) :
    pctDecode ('%' :: a :: b :: t) = UInt8.ofNat (16 * x + y) :: pctDecode t := by
  simp [pctDecode, ha, hb]

/-- **percent-decoding inverts every percent-encoding** (any mix of literal and `%XY` bytes, any hex case) -/
theorem pctDecode_pctEncode : ∀ (l : List (UInt8 × PEnc)) (rest : Str), ValidEnc l →
    pctDecode (pctEncode l ++ rest) = l.map (·.1) ++ pctDecode rest := by
  intro l
  induction l with
  | nil => intro rest _; rfl
  | cons p t ih =>
    intro rest hv
    obtain ⟨b, e⟩ := p
    have hv' : ValidEnc t := fun q hq => hv q (List.mem_cons_of_mem _ hq)
    have ih' := ih rest hv'
    cases e with
    | lit =>
      have hl : litOk b = true := hv (b, .lit) List.mem_cons_self
      have hf := litOk_facts hl
      simp only [pctEncode, List.flatMap_cons, encByte, List.cons_append, List.nil_append,
        List.map_cons] at ih' ⊢
      rw [pctDecode_lit _ _ hf.1, ih']
      simp [toChar, ofNat_toChar]
    | pct u1 u2 =>
      have h1 := (hexDigit_facts u1 (b.toNat / 16) (by have := b.toNat_lt; omega)).1
      have h2 := (hexDigit_facts u2 (b.toNat % 16) (by omega)).1
      simp only [pctEncode, List.flatMap_cons, encByte, List.cons_append, List.nil_append, List.map_cons] at ih' ⊢
      rw [pctDecode_pct _ _ _ _ _ h1 h2, ih']
      have : 16 * (b.toNat / 16) + b.toNat % 16 = b.toNat := by omega
      rw [this, UInt8.ofNat_toNat]

theorem pctEncode_chars {l : List (UInt8 × PEnc)} (hv : ValidEnc l) :
    ∀ c ∈ pctEncode l, c ≠ '?' ∧ c ≠ '#' ∧ (0x21 ≤ c.toNat && c.toNat ≤ 0x7E) = true := by
  intro c hc
  simp only [pctEncode, List.mem_flatMap] at hc
  obtain ⟨⟨b, e⟩, hp, hce⟩ := hc
  cases e with
  | lit =>
    have hf := litOk_facts (hv (b, .lit) hp)
    simp only [encByte, List.mem_singleton] at hce
    subst hce
    exact ⟨hf.2.1, hf.2.2.1, hf.2.2.2⟩
  | pct u1 u2 =>
    have key : ∀ (u : Bool) (d : Nat), d < 16 → toChar (hexDigitChar u d) ≠ '?' ∧ toChar (hexDigitChar u d) ≠ '#' ∧
        (0x21 ≤ (toChar (hexDigitChar u d)).toNat && (toChar (hexDigitChar u d)).toNat ≤ 0x7E) = true := by
      intro u d hd
      have h1 : ∀ d, d < 16 → toChar (hexDigitChar true d) ≠ '?' ∧ toChar (hexDigitChar true d) ≠ '#' ∧
          (0x21 ≤ (toChar (hexDigitChar true d)).toNat && (toChar (hexDigitChar true d)).toNat ≤ 0x7E) = true := by decide
      have h2 : ∀ d, d < 16 → toChar (hexDigitChar false d) ≠ '?' ∧ toChar (hexDigitChar false d) ≠ '#' ∧
          (0x21 ≤ (toChar (hexDigitChar false d)).toNat && (toChar (hexDigitChar false d)).toNat ≤ 0x7E) = true := by decide
      cases u
      · exact h2 d hd
      · exact h1 d hd
    simp only [encByte, List.mem_cons, List.not_mem_nil, or_false] at hce
    rcases hce with rfl | rfl | rfl
    · decide
    · exact key u1 _ (by have := b.toNat_lt; omega)
    · exact key u2 _ (by omega)

/-! ### urlsplit on origin-form targets -/

theorem takeWhile_ne_append (c : Char) : ∀ (body rest : Str), c ∉ body →
    (body ++ c :: rest).takeWhile (· != c) = body ∧ (body ++ c :: rest).dropWhile (· != c) = c :: rest := by
  intro body
  induction body with
  | nil => intro rest _; simp
  | cons x body ih =>
    intro rest h
    have hx : (x != c) = true := by
      simp only [List.mem_cons, not_or] at h
      simpa using fun e => h.1 e.symm
    have := ih rest (fun hm => h (List.mem_cons_of_mem _ hm))
    simp [hx, this.1, this.2]

theorem takeWhile_ne_self (c : Char) : ∀ (body : Str), c ∉ body →
    body.takeWhile (· != c) = body ∧ body.dropWhile (· != c) = [] := by
  intro body
  induction body with
  | nil => intro _; simp
  | cons x body ih =>
    intro h
    have hx : (x != c) = true := by
      simp only [List.mem_cons, not_or] at h
      simpa using fun e => h.1 e.symm
    have := ih (fun hm => h (List.mem_cons_of_mem _ hm))
    simp [hx, this.1, this.2]

def domChar (c : Char) : Bool := 0x21 ≤ c.toNat && c.toNat ≤ 0x7E

/-- an origin-form target `/p'` (not starting with `//`) with an optional `?query`, made of printable
ASCII, no `?`/`#` in the path and no `#` in the query, splits into exactly that path and query -/
theorem urlsplit_origin (p' q : Str) (hasQ : Bool)
    (hp : ∀ c ∈ p', c ≠ '?' ∧ c ≠ '#' ∧ domChar c = true) (hp0 : p'.head? ≠ some '/')
    (hq : ∀ c ∈ q, c ≠ '#' ∧ domChar c = true) :
    urlsplit ('/' :: p' ++ (if hasQ then '?' :: q else [])) =
      some { scheme := [], netloc := [], path := '/' :: p', query := if hasQ then q else [] } := by
  have hdom : inDomain ('/' :: p' ++ (if hasQ then '?' :: q else [])) = true := by
    simp only [inDomain, List.all_eq_true, List.cons_append, List.mem_cons, List.mem_append]
    intro c hc
    rcases hc with rfl | hc | hc
    · decide
    · exact (hp c hc).2.2
    · cases hasQ with
      | false => simp at hc
      | true =>
        simp only [if_true, List.mem_cons] at hc
        rcases hc with rfl | hc
        · decide
        · exact (hq c hc).2
  have hsch : splitScheme ('/' :: p' ++ (if hasQ then '?' :: q else []))
      = ([], '/' :: p' ++ (if hasQ then '?' :: q else [])) := by
    unfold splitScheme
    have : headIsAlpha (('/' :: p' ++ (if hasQ then '?' :: q else [])).takeWhile (· != ':')) = false := by
      simp [headIsAlpha, show isAlphaAscii '/' = false by decide]
    simp only [this, Bool.and_false, Bool.false_and, Bool.false_eq_true, if_false]
  have hnohash : '#' ∉ ('/' :: p' ++ (if hasQ then '?' :: q else [])) := by
    simp only [List.cons_append, List.mem_cons, List.mem_append, not_or]
    refine ⟨by decide, fun h => (hp _ h).2.1 rfl, ?_⟩
    cases hasQ with
    | false => simp
    | true =>
      simp only [if_true, List.mem_cons, not_or]
      exact ⟨by decide, fun h => (hq _ h).1 rfl⟩
  have hnoq : '?' ∉ ('/' :: p') := by
    simp only [List.mem_cons, not_or]
    exact ⟨by decide, fun h => (hp _ h).1 rfl⟩
  unfold urlsplit
  simp only [hdom, Bool.not_true, Bool.false_eq_true, if_false, hsch]
  -- no `//`: the second character is not a slash
  have hrest : splitNetloc ('/' :: p' ++ (if hasQ then '?' :: q else []))
      = (([] : Str), '/' :: p' ++ (if hasQ then '?' :: q else [])) := by
    cases p' with
    | nil => cases hasQ <;> rfl
    | cons c t =>
      have : c ≠ '/' := by simpa using hp0
      simp only [List.cons_append]
      unfold splitNetloc
      split
      · rename_i heq; simp only [List.cons.injEq, true_and] at heq; exact absurd heq.1 this
      · rfl
  rw [hrest]
  simp only [List.contains_nil, Bool.or_self, Bool.false_eq_true, if_false, (takeWhile_ne_self '#' _ hnohash).1]
  cases hasQ with
  | false =>
    simp only [Bool.false_eq_true, if_false, List.append_nil]
    rw [(takeWhile_ne_self '?' _ hnoq).1, (takeWhile_ne_self '?' _ hnoq).2]
    rfl
  | true =>
    simp only [if_true]
    have := takeWhile_ne_append '?' ('/' :: p') q hnoq
    rw [this.1, this.2]
    rfl

/-! ### urlsplit on absolute-form targets -/

theorem takeWhile_append_stop (f : Char → Bool) : ∀ (a b : Str), (∀ x ∈ a, f x = true) →
    (b.head?.map f ≠ some true) → (a ++ b).takeWhile f = a ∧ (a ++ b).dropWhile f = b := by
  intro a
  induction a with
  | nil =>
    intro b _ hb
    cases b with
    | nil => simp
    | cons x t =>
      have : f x = false := by simpa using hb
      simp [this]
  | cons x a ih =>
    intro b ha hb
    have hx := ha x List.mem_cons_self
    have := ih b (fun y hy => ha y (List.mem_cons_of_mem _ hy)) hb
    simp [hx, this.1, this.2]

/-- path + optional query after the authority -/
theorem pathQuery_split (P q : Str) (hasQ : Bool) (hP : ∀ c ∈ P, c ≠ '?' ∧ c ≠ '#')
    (hq : ∀ c ∈ q, c ≠ '#') :
    ((P ++ (if hasQ then '?' :: q else [])).takeWhile (· != '#')).takeWhile (· != '?') = P ∧
    (((P ++ (if hasQ then '?' :: q else [])).takeWhile (· != '#')).dropWhile (· != '?')).drop 1
      = (if hasQ then q else []) := by
  have hnohash : '#' ∉ (P ++ (if hasQ then '?' :: q else [])) := by
    simp only [List.mem_append, not_or]
    refine ⟨fun h => (hP _ h).2 rfl, ?_⟩
    cases hasQ with
    | false => simp
    | true =>
      simp only [if_true, List.mem_cons, not_or]
      exact ⟨by decide, fun h => hq _ h rfl⟩
  have hnoq : '?' ∉ P := fun h => (hP _ h).1 rfl
  rw [(takeWhile_ne_self '#' _ hnohash).1]
  cases hasQ with
  | false =>
    simp only [Bool.false_eq_true, if_false, List.append_nil]
    rw [(takeWhile_ne_self '?' _ hnoq).1, (takeWhile_ne_self '?' _ hnoq).2]
    exact ⟨rfl, rfl⟩
  | true =>
    simp only [if_true]
    have := takeWhile_ne_append '?' P q hnoq
    rw [this.1, this.2]
    exact ⟨rfl, rfl⟩

/-- characters allowed in the authority of the modelled domain -/
def netlocChar (c : Char) : Bool := domChar c && !isNetlocEnd c && c != '[' && c != ']'

theorem scheme_char_facts (c : Char) (hc : isSchemeChar c = true) : domChar c = true ∧ c ≠ ':' := by
  have hle : ∀ x y : Char, x ≤ y ↔ x.toNat ≤ y.toNat := by
    intro x y
    show x.val ≤ y.val ↔ x.val.toNat ≤ y.val.toNat
    exact UInt32.le_iff_toNat_le
  simp only [isSchemeChar, isAlphaAscii, Bool.or_eq_true, Bool.and_eq_true, decide_eq_true_eq, beq_iff_eq,
    hle, Char.reduceToNat] at hc
  have hcases : (33 ≤ c.toNat ∧ c.toNat ≤ 126 ∧ c.toNat ≠ 58) := by
    rcases hc with ((((⟨h1, h2⟩ | ⟨h1, h2⟩) | ⟨h1, h2⟩) | h) | h) | h
    · omega
    · omega
    · omega
    · subst h; decide
    · subst h; decide
    · subst h; decide
  refine ⟨by simp [domChar]; omega, ?_⟩
  intro e; subst e; simp at hcases

theorem drop_length_succ (a : Str) (c : Char) (r : Str) : (a ++ c :: r).drop (a.length + 1) = r := by
  induction a with
  | nil => rfl
  | cons x a ih => simp [ih]

theorem urlsplit_abs_core (sch n P : Str)
    (hs0 : headIsAlpha sch = true)
    (hs : sch.all isSchemeChar = true) (hn : ∀ c ∈ n, netlocChar c = true)
    (hP0 : P.head? = some '/') (hPdom : ∀ c ∈ P, domChar c = true) :
    urlsplit (sch ++ ':' :: ('/' :: '/' :: (n ++ P))) =
      some { scheme := sch.map lowerAscii, netloc := n,
             path := (P.takeWhile (· != '#')).takeWhile (· != '?'),
             query := ((P.takeWhile (· != '#')).dropWhile (· != '?')).drop 1 } := by
  have hschar : ∀ c ∈ sch, isSchemeChar c = true := by simpa [List.all_eq_true] using hs
  have hnc : ∀ c ∈ n, domChar c = true ∧ isNetlocEnd c = false ∧ c ≠ '[' ∧ c ≠ ']' := by
    intro c hc
    have := hn c hc
    simp only [netlocChar, Bool.and_eq_true, Bool.not_eq_true', bne_iff_ne, ne_eq] at this
    exact ⟨this.1.1.1, this.1.1.2, this.1.2, this.2⟩
  have hne : sch ≠ [] := by intro e; subst e; simp [headIsAlpha] at hs0
  have hcolon : ':' ∉ sch := fun h => (scheme_char_facts _ (hschar _ h)).2 rfl
  have hdom : inDomain (sch ++ ':' :: ('/' :: '/' :: (n ++ P))) = true := by
    simp only [inDomain, List.all_eq_true, List.mem_append, List.mem_cons]
    intro c hc
    have hd : ∀ c, domChar c = true → (decide (33 ≤ c.toNat) && decide (c.toNat ≤ 126)) = true := fun c h => h
    rcases hc with hc | rfl | rfl | rfl | hc | hc
    · exact hd _ (scheme_char_facts _ (hschar _ hc)).1
    · decide
    · decide
    · decide
    · exact hd _ (hnc _ hc).1
    · exact hd _ (hPdom _ hc)
  have hsch : splitScheme (sch ++ ':' :: ('/' :: '/' :: (n ++ P))) = (sch.map lowerAscii, '/' :: '/' :: (n ++ P)) := by
    unfold splitScheme
    have htw := takeWhile_ne_append ':' sch ('/' :: '/' :: (n ++ P)) hcolon
    simp only [htw.1]
    have hemp : sch.isEmpty = false := by cases sch with | nil => exact absurd rfl hne | cons => rfl
    rw [if_pos (by simp [hemp, hs0, hs])]
    rw [drop_length_succ]
  have hnl : splitNetloc ('/' :: '/' :: (n ++ P)) = (n, P) := by
    have := takeWhile_append_stop (fun c => !isNetlocEnd c) n P
      (fun x hx => by simp [(hnc x hx).2.1]) (by simp [hP0, isNetlocEnd])
    simp only [splitNetloc, this.1, this.2]
  have hbr : (n.contains '[' || n.contains ']') = false := by
    simp only [Bool.or_eq_false_iff, List.contains_eq_mem, decide_eq_false_iff_not]
    exact ⟨fun h => (hnc _ h).2.2.1 rfl, fun h => (hnc _ h).2.2.2 rfl⟩
  unfold urlsplit
  simp only [hdom, Bool.not_true, Bool.false_eq_true, if_false, hsch, hnl, hbr]

/-- an absolute-form target `scheme://netloc/path?query` splits into exactly these parts
(scheme lower-cased); the path may itself start with `//` -/
theorem urlsplit_absolute (sch n p' q : Str) (hasQ : Bool)
    (hs0 : headIsAlpha sch = true)
    (hs : sch.all isSchemeChar = true) (hn : ∀ c ∈ n, netlocChar c = true)
    (hp : ∀ c ∈ p', c ≠ '?' ∧ c ≠ '#' ∧ domChar c = true) (hq : ∀ c ∈ q, c ≠ '#' ∧ domChar c = true) :
    urlsplit (sch ++ ':' :: ('/' :: '/' :: (n ++ ('/' :: p' ++ (if hasQ then '?' :: q else []))))) =
      some { scheme := sch.map lowerAscii, netloc := n, path := '/' :: p', query := if hasQ then q else [] } := by
  have hpq := pathQuery_split ('/' :: p') q hasQ
    (by
      intro c hc
      simp only [List.mem_cons] at hc
      rcases hc with rfl | hc
      · exact ⟨by decide, by decide⟩
      · exact ⟨(hp c hc).1, (hp c hc).2.1⟩)
    (fun c hc => (hq c hc).1)
  rw [urlsplit_abs_core sch n _ hs0 hs hn (by simp), hpq.1, hpq.2]
  intro c hc
  simp only [List.cons_append, List.mem_cons, List.mem_append] at hc
  rcases hc with rfl | hc | hc
  · decide
  · exact (hp c hc).2.2
  · cases hasQ with
    | false => simp at hc
    | true =>
      simp only [if_true, List.mem_cons] at hc
      rcases hc with rfl | hc
      · decide
      · exact (hq c hc).2

/-! ### the response writer -/

/-- the body bytes one `write(data)` adds -/
def framedPiece (chunked : Bool) (d : Bytes) : Bytes :=
  if d.isEmpty then [] else if chunked then hexOf false d.length ++ [13, 10] ++ d ++ [13, 10] else d

theorem bodyWire_eq (chunked : Bool) (pieces : List Bytes) :
    bodyWire chunked pieces = pieces.flatMap (framedPiece chunked) ++ (if chunked then [48, 13, 10, 13, 10] else []) := by
  unfold bodyWire framedPiece
  cases chunked <;> simp

theorem writeStep_sent (r : Resp) (st : WState) (d : Bytes) (h : st.sent = true) :
    writeStep r st d = { sent := true, wire := st.wire ++ framedPiece r.chunked d } := by
  unfold writeStep framedPiece
  simp only [h, if_true]
  by_cases hd : d.isEmpty = true
  · cases st; simp_all
  · by_cases hc : r.chunked = true
    · cases st; simp_all [crlf, List.append_assoc]
    · cases st; simp_all

theorem foldl_writeStep_sent (r : Resp) : ∀ (ps : List Bytes) (st : WState), st.sent = true →
    ps.foldl (writeStep r) st = { sent := true, wire := st.wire ++ ps.flatMap (framedPiece r.chunked) } := by
  intro ps
  induction ps with
  | nil => intro st h; cases st; simp_all
  | cons d ps ih =>
    intro st h
    simp only [List.foldl_cons, writeStep_sent r st d h]
    rw [ih _ rfl]
    simp [List.append_assoc]

theorem writeStep_fresh (r : Resp) (d : Bytes) :
    writeStep r {} d = { sent := true, wire := r.head ++ framedPiece r.chunked d } := by
  unfold writeStep framedPiece
  by_cases hd : d.isEmpty = true
  · simp [hd]
  · by_cases hc : r.chunked = true
    · simp [hd, hc, crlf, List.append_assoc]
    · simp [hd, hc]

/-- **headers exactly once, before the first body byte**: whatever the application writes and yields
(any number of pieces, empty ones included, none at all, an empty header list), the bytes on the wire
are the head — status line, headers, blank line — once, followed by the framed body -/
theorem runWsgi_closed (r : Resp) (written yielded : List Bytes) :
    runWsgi r written yielded = r.head ++ bodyWire r.chunked (written ++ yielded) := by
  unfold runWsgi
  rw [bodyWire_eq]
  cases hps : written ++ yielded with
  | nil =>
    simp only [List.foldl_nil, Bool.false_and, Bool.false_eq_true, if_false, writeStep_fresh, List.flatMap_nil,
      List.nil_append]
    cases r.chunked <;> simp [framedPiece]
  | cons d ps =>
    simp only [List.foldl_cons, writeStep_fresh]
    rw [foldl_writeStep_sent r ps _ rfl]
    simp only [Bool.true_and, List.flatMap_cons]
    by_cases he : r.headers.isEmpty = true
    · simp only [he, Bool.not_true, Bool.false_eq_true, if_false]
      rw [writeStep_sent r _ [] rfl]
      cases r.chunked <;> simp [framedPiece, List.append_assoc]
    · simp only [he, Bool.not_false, if_true]
      cases r.chunked <;> simp [List.append_assoc]

/-! ### parsing the head back -/

/-- the bytes up to the first CRLF, and what follows it -/
def readCrlfLine : Bytes → Option (Bytes × Bytes)
  | [] => none
  | 13 :: 10 :: t => some ([], t)
  | b :: t => (readCrlfLine t).map fun p => (b :: p.1, p.2)

/-- lines up to the first empty line, and the body after it -/
def parseHead : Nat → Bytes → Option (List Bytes × Bytes)
  | 0, _ => none
  | f + 1, w =>
    match readCrlfLine w with
    | none => none
    | some (l, rest) =>
      if l.isEmpty then some ([], rest)
      else (parseHead f rest).map fun p => (l :: p.1, p.2)

/-- `name: value` → (name, value) -/
def splitHeaderLine (l : Bytes) : Bytes × Bytes := (l.takeWhile (· != 58), (l.dropWhile (· != 58)).drop 2)

theorem readCrlfLine_line : ∀ (l rest : Bytes), 13 ∉ l → readCrlfLine (l ++ 13 :: 10 :: rest) = some (l, rest) := by
  intro l
  induction l with
  | nil => intro rest _; rfl
  | cons b l ih =>
    intro rest h
    have hb : b ≠ 13 := fun e => h (by rw [e]; exact List.mem_cons_self)
    have := ih rest (fun hm => h (List.mem_cons_of_mem _ hm))
    simp only [List.cons_append]
    unfold readCrlfLine
    split
    · rename_i heq; cases heq
    · rename_i heq; simp only [List.cons.injEq] at heq; exact absurd heq.1 hb
    · rename_i heq
      simp only [List.cons.injEq] at heq
      rw [← heq.1, ← heq.2, this]; rfl

theorem parseHead_lines : ∀ (lines : List Bytes) (body : Bytes), (∀ l ∈ lines, 13 ∉ l ∧ l ≠ []) →
    parseHead (lines.length + 1) (lines.flatMap (· ++ crlf) ++ crlf ++ body) = some (lines, body) := by
  intro lines
  induction lines with
  | nil => intro body _; rfl
  | cons l ls ih =>
    intro body h
    have hl := h l List.mem_cons_self
    have ih' := ih body (fun x hx => h x (List.mem_cons_of_mem _ hx))
    have hw : (l :: ls).flatMap (· ++ crlf) ++ crlf ++ body
        = l ++ 13 :: 10 :: (ls.flatMap (· ++ crlf) ++ crlf ++ body) := by
      simp [crlf, List.append_assoc]
    have hne : l.isEmpty = false := by
      cases l with
      | nil => exact absurd rfl hl.2
      | cons => rfl
    rw [hw]
    simp only [List.length_cons, parseHead, readCrlfLine_line l _ hl.1, hne, Bool.false_eq_true, if_false, ih',
      Option.map_some]

theorem splitHeaderLine_render (k v : Bytes) (hk : 58 ∉ k) :
    splitHeaderLine (k ++ [58, 32] ++ v) = (k, v) := by
  unfold splitHeaderLine
  have hx : ∀ (body rest : Bytes), (58 : UInt8) ∉ body →
      (body ++ 58 :: rest).takeWhile (· != 58) = body ∧ (body ++ 58 :: rest).dropWhile (· != 58) = 58 :: rest := by
    intro body
    induction body with
    | nil => intro rest _; simp
    | cons x body ih =>
      intro rest h
      have hx : (x != 58) = true := by
        simp only [List.mem_cons, not_or] at h
        simpa using fun e => h.1 e.symm
      have := ih rest (fun hm => h (List.mem_cons_of_mem _ hm))
      simp [hx, this.1, this.2]
  have := hx k (32 :: v) hk
  have e : k ++ [58, 32] ++ v = k ++ 58 :: (32 :: v) := by simp
  rw [e, this.1, this.2]
  rfl

end Wz.DevServer
