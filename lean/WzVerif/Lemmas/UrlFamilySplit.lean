/-
`unquote` / `_unquote_partial` split at a literal `/` (C15): the path text of `Request.base_url` is the
path text of `Request.root_url` followed by the path text of `Request.path`. Core Lean only.
-/
import WzVerif.Lemmas.UrlFamily
namespace Wz.Url
open Wz

/-- a literal `/` splits the ASCII run it sits in -/
theorem run_split_lit {Xa Ya : Str} (hXa : ∀ c ∈ Xa, c.toNat < 128) (hw : wfk [] Xa = true) :
    unquoteRun (toBytes (Xa ++ '/' :: Ya)) = unquoteRun (toBytes Xa) ++ '/' :: unquoteRun (toBytes Ya) := by
  have hk : unquoteBytes (toBytes ('/' :: Ya)) = 0x2F :: unquoteBytes (toBytes Ya) := by
    have : toBytes ('/' :: Ya) = 0x2F :: toBytes Ya := rfl
    rw [this, unquoteBytes_cons_ne (by decide)]
  have hlt : (0x2F : UInt8) < 0x80 := by decide
  have hnc : ∀ b, ((0x2F : UInt8) :: unquoteBytes (toBytes Ya)).head? = some b → isCont b = false := by
    intro b hb
    simp only [List.head?_cons, Option.some.injEq] at hb
    subst hb; exact ascii_not_cont hlt
  rw [unquoteRun_eq, unquoteRun_eq, unquoteRun_eq, toBytes_append, unquoteBytes_append_wf Xa _ hXa hw, hk,
    its_append _ _ _ (Nat.le_refl _) hnc, its_ascii_cons hlt]
  simp only [List.flatMap_append, List.flatMap_cons, render, List.singleton_append]
  rfl

theorem unquote_eq_run {Xa : Str} (hXa : ∀ c ∈ Xa, c.toNat < 128) : unquote Xa = unquoteRun (toBytes Xa) := by
  have := unquoteAux_ascii Xa [] [] hXa
  simp only [List.append_nil] at this
  rw [unquote, this]; simp [unquoteAux]

/-- a literal `/` after token-aligned ASCII text splits `unquote` -/
theorem unquote_split_lit_ascii {Xa : Str} (hXa : ∀ c ∈ Xa, c.toNat < 128) (hw : wfk [] Xa = true) (Y : Str) :
    unquote (Xa ++ '/' :: Y) = unquote Xa ++ '/' :: unquote Y := by
  obtain ⟨Ya, rest, h1, h2, h3⟩ := ascii_span Y
  have hpre : ∀ c ∈ Xa ++ '/' :: Ya, c.toNat < 128 := by
    intro c hc
    simp only [List.mem_append, List.mem_cons] at hc
    rcases hc with hc | rfl | hc
    · exact hXa c hc
    · decide
    · exact h2 c hc
  rcases h3 with h3 | ⟨c, Y', h3, hc⟩
  · subst h3
    simp only [List.append_nil] at h1
    subst h1
    rw [unquote_eq_run hpre, run_split_lit hXa hw, unquote_eq_run hXa, unquote_eq_run h2]
  · subst h3; subst h1
    have e : Xa ++ '/' :: (Ya ++ c :: Y') = (Xa ++ '/' :: Ya) ++ c :: Y' := by simp
    rw [e, unquote_append_nonascii hc, unquote_append_nonascii hc, unquote_eq_run hpre, run_split_lit hXa hw,
      unquote_eq_run hXa, unquote_eq_run h2]
    simp

/-- ... and after any token-aligned text -/
theorem unquote_split_lit (Y : Str) : ∀ (n : Nat) (X : Str), X.length ≤ n → wfk [] X = true →
    unquote (X ++ '/' :: Y) = unquote X ++ '/' :: unquote Y := by
  intro n
  induction n with
  | zero =>
    intro X hl hw
    have : X = [] := List.eq_nil_of_length_eq_zero (by omega)
    subst this
    exact unquote_split_lit_ascii (by simp) rfl Y
  | succ n ih =>
    intro X hl hw
    obtain ⟨a, rest, h1, h2, h3⟩ := ascii_span X
    rcases h3 with h3 | ⟨c, r, h3, hc⟩
    · subst h3
      simp only [List.append_nil] at h1
      subst h1
      exact unquote_split_lit_ascii h2 hw Y
    · subst h3; subst h1
      obtain ⟨hwa, hwr⟩ := wfk_split hc r a hw
      have e : (a ++ c :: r) ++ '/' :: Y = a ++ c :: (r ++ '/' :: Y) := by simp
      rw [e, unquote_append_nonascii hc, unquote_append_nonascii hc, ih r (by simp at hl; omega) hwr]
      simp

theorem unquote_snoc_slash {X : Str} (hw : wfk [] X = true) : unquote (X ++ ['/']) = unquote X ++ ['/'] := by
  rw [unquote_split_lit [] _ X (Nat.le_refl _) hw]
  rfl

/-- text accumulated before a literal `/` can be flushed at the `/` -/
theorem upSpec_flush_slash {keep : List Bool} {seg : Str} (hw : wfk [] seg.reverse = true) : ∀ (B T : Str),
    upSpec keep B (T ++ '/' :: seg) = unquote (seg.reverse ++ ['/']) ++ upSpec keep B T
  | [], T => by
    simp only [upSpec, List.reverse_append, List.reverse_cons, List.append_assoc, List.singleton_append]
    rw [unquote_split_lit _ _ _ (Nat.le_refl _) hw, unquote_snoc_slash hw]
    simp
  | [c], T => by
    have := upSpec_flush_slash (keep := keep) hw [] (c :: T)
    simp only [upSpec] at this ⊢
    exact this
  | [c, x], T => by
    have := upSpec_flush_slash (keep := keep) hw [] (x :: c :: T)
    simp only [upSpec] at this ⊢
    exact this
  | c :: x :: y :: t, T => by
    simp only [upSpec]
    split
    · split
      · split
        · have := upSpec_flush_slash (keep := keep) hw [] T
          simp only [upSpec] at this
          rw [this]
          simp
        · exact upSpec_flush_slash hw t (y :: x :: c :: T)
      · exact upSpec_flush_slash hw (x :: y :: t) (c :: T)
    · exact upSpec_flush_slash hw (x :: y :: t) (c :: T)

/-- `_unquote_partial` splits at a literal `/` that follows `%XX`-well-formed text -/
theorem upSpec_split_slash {keep : List Bool} (B : Str) : ∀ (A seg : Str), wellFormed A = true →
    wfk [] seg.reverse = true →
    upSpec keep (A ++ '/' :: B) seg = upSpec keep (A ++ ['/']) seg ++ upSpec keep B []
  | [], seg, _, hseg => by
    simp only [List.nil_append]
    rw [upSpec_cons_ne (by decide), upSpec_cons_ne (by decide)]
    have := upSpec_flush_slash (keep := keep) hseg B []
    simp only [List.nil_append] at this
    rw [this]
    simp [upSpec]
  | [c], seg, hA, hseg => by
    have hc : c ≠ '%' := by intro e; simp [wellFormed, wfk, e] at hA
    simp only [List.cons_append, List.nil_append]
    rw [upSpec_cons_ne hc, upSpec_cons_ne hc]
    have := upSpec_split_slash (keep := keep) B [] (c :: seg) rfl (by
      simp only [List.reverse_cons]; rw [wfk_append _ _ hseg]; simp [wfk, hc])
    simpa using this
  | [c, x], seg, hA, hseg => by
    have hc : c ≠ '%' := by intro e; simp [wellFormed, wfk, e] at hA
    rw [wellFormed_cons_ne hc] at hA
    simp only [List.cons_append, List.nil_append]
    rw [upSpec_cons_ne hc, upSpec_cons_ne hc]
    have := upSpec_split_slash (keep := keep) B [x] (c :: seg) hA (by
      simp only [List.reverse_cons]; rw [wfk_append _ _ hseg]; simp [wfk, hc])
    simpa using this
  | c :: x :: y :: t, seg, hA, hseg => by
    by_cases hc : c = '%'
    · subst hc
      simp only [wellFormed, wfk, if_true] at hA
      cases hx : hexVal? x <;> cases hy : hexVal? y <;> simp only [hx, hy] at hA <;> try (simp at hA; done)
      rename_i hi lo
      simp only [Bool.and_eq_true] at hA
      have hst : wellFormed t = true := hA.2
      simp only [List.cons_append, upSpec, if_true, hx, hy]
      by_cases hkept : tbl keep (16 * hi + lo) = true
      · simp only [hkept, if_true]
        have := upSpec_split_slash (keep := keep) B t [] hst rfl
        rw [this]
        simp
      · simp only [hkept, Bool.false_eq_true, if_false]
        exact upSpec_split_slash B t (y :: x :: '%' :: seg) hst (by
          simp only [List.reverse_cons, List.append_assoc, List.cons_append, List.nil_append]
          rw [wfk_append _ _ hseg]
          simp [wfk, hx, hy, tbl])
    · rw [wellFormed_cons_ne hc] at hA
      simp only [List.cons_append]
      rw [upSpec_cons_ne hc, upSpec_cons_ne hc]
      have := upSpec_split_slash (keep := keep) B (x :: y :: t) (c :: seg) hA (by
        simp only [List.reverse_cons]; rw [wfk_append _ _ hseg]; simp [wfk, hc])
      simpa using this

theorem unquotePartial_split_slash (keep : List Bool) {A : Str} (hA : wellFormed A = true) (B : Str) :
    unquotePartial keep (A ++ '/' :: B) = unquotePartial keep (A ++ ['/']) ++ unquotePartial keep B := by
  rw [unquotePartial_eq, unquotePartial_eq, unquotePartial_eq]
  exact upSpec_split_slash B A [] hA rfl

/-- **`base_url`'s path text is `root_url`'s path text followed by the path's text**:
`unquote_path(quote(root) + "/" + quote(path)) = unquote_path(quote(root) + "/") + unquote_path(quote(path))` -/
theorem curPathText_split (root path : Str) :
    unquotePartial Gen.UrlTables.keepPath (curPathText root path) =
      unquotePartial Gen.UrlTables.keepPath (curPathText root []) ++
      unquotePartial Gen.UrlTables.keepPath (quote Gen.UrlTables.curPathSafe (lstripSlash path)) := by
  have hw : wellFormed (quote Gen.UrlTables.curRootSafe (rstripSlash root)) = true := by
    have := wfk_nil_quoteBytes_all cur_no_pct.1 [] (utf8Enc (rstripSlash root))
    simpa [wellFormed, quote, wfk] using this
  have e0 : curPathText root [] = quote Gen.UrlTables.curRootSafe (rstripSlash root) ++ ['/'] := by
    simp [curPathText, lstripSlash, quote, quoteBytes, utf8Enc]
  rw [e0]
  unfold curPathText
  exact unquotePartial_split_slash _ hw _

end Wz.Url
