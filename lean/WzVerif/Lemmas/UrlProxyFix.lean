/-
Lemmas about the ProxyFix model (C15). Core Lean only.
-/
import WzVerif.Model.UrlProxyFix
import WzVerif.Lemmas.UrlText
namespace Wz.Url
open Wz

theorem applyFor_keeps (c : PFConfig) (h : PFHeaders) (e : PFEnviron) :
    (applyFor c h e).pathInfo = e.pathInfo ∧ (applyFor c h e).scriptName = e.scriptName ∧
    (applyFor c h e).urlScheme = e.urlScheme ∧ (applyFor c h e).httpHost = e.httpHost := by
  unfold applyFor; split <;> exact ⟨rfl, rfl, rfl, rfl⟩

theorem applyProto_keeps (c : PFConfig) (h : PFHeaders) (e : PFEnviron) :
    (applyProto c h e).pathInfo = e.pathInfo ∧ (applyProto c h e).scriptName = e.scriptName ∧
    (applyProto c h e).httpHost = e.httpHost := by
  unfold applyProto; split <;> exact ⟨rfl, rfl, rfl⟩

theorem applyHost_keeps (c : PFConfig) (h : PFHeaders) (e : PFEnviron) :
    (applyHost c h e).pathInfo = e.pathInfo ∧ (applyHost c h e).scriptName = e.scriptName ∧
    (applyHost c h e).urlScheme = e.urlScheme := by
  unfold applyHost
  split
  · split <;> exact ⟨rfl, rfl, rfl⟩
  · exact ⟨rfl, rfl, rfl⟩

theorem applyPort_keeps (c : PFConfig) (h : PFHeaders) (e : PFEnviron) :
    (applyPort c h e).pathInfo = e.pathInfo ∧ (applyPort c h e).scriptName = e.scriptName ∧
    (applyPort c h e).urlScheme = e.urlScheme := by
  unfold applyPort
  split
  · split <;> exact ⟨rfl, rfl, rfl⟩
  · exact ⟨rfl, rfl, rfl⟩

theorem applyPrefix_keeps (c : PFConfig) (h : PFHeaders) (e : PFEnviron) :
    (applyPrefix c h e).pathInfo = e.pathInfo ∧ (applyPrefix c h e).urlScheme = e.urlScheme ∧
    (applyPrefix c h e).httpHost = e.httpHost := by
  unfold applyPrefix; split <;> exact ⟨rfl, rfl, rfl⟩

theorem proxyFix_pathInfo (c : PFConfig) (h : PFHeaders) (e : PFEnviron) :
    (proxyFix c h e).pathInfo = e.pathInfo := by
  unfold proxyFix
  rw [(applyPrefix_keeps _ _ _).1, (applyPort_keeps _ _ _).1, (applyHost_keeps _ _ _).1,
    (applyProto_keeps _ _ _).1, (applyFor_keeps _ _ _).1]

theorem proxyFix_scriptName (c : PFConfig) (h : PFHeaders) (e : PFEnviron) :
    (proxyFix c h e).scriptName =
      (match truthyV (realValue c.xPrefix h.pfx) with | some v => v | none => e.scriptName) := by
  unfold proxyFix
  have : (applyPort c h (applyHost c h (applyProto c h (applyFor c h e)))).scriptName = e.scriptName := by
    rw [(applyPort_keeps _ _ _).2.1, (applyHost_keeps _ _ _).2.1, (applyProto_keeps _ _ _).2.1,
      (applyFor_keeps _ _ _).2.1]
  cases hv : truthyV (realValue c.xPrefix h.pfx) with
  | none => simp only [applyPrefix, hv]; exact this
  | some v => simp only [applyPrefix, hv]

theorem proxyFix_urlScheme (c : PFConfig) (h : PFHeaders) (e : PFEnviron) :
    (proxyFix c h e).urlScheme =
      (match truthyV (realValue c.xProto h.proto) with | some v => v | none => e.urlScheme) := by
  unfold proxyFix
  rw [(applyPrefix_keeps _ _ _).2.1, (applyPort_keeps _ _ _).2.2, (applyHost_keeps _ _ _).2.2]
  cases hv : truthyV (realValue c.xProto h.proto) with
  | none => simp only [applyProto, hv]; exact (applyFor_keeps _ _ _).2.2.1
  | some v => simp only [applyProto, hv]

/-- `_get_real_value` picks the `n`-th value counted from the right end -/
theorem realValue_spec (n : Nat) (vs : List Str) (v : Str) :
    realValue n (some vs) = some v ↔ 0 < n ∧ vs.reverse[n - 1]? = some v := by
  unfold realValue
  by_cases h0 : n = 0
  · subst h0; simp
  · simp only [h0, if_false]
    by_cases hl : n ≤ vs.length
    · simp only [hl, if_true]
      have : vs.reverse[n - 1]? = vs[vs.length - n]? := by
        rw [List.getElem?_reverse (by omega)]
        congr 1
        omega
      rw [this]
      constructor
      · intro h; exact ⟨by omega, h⟩
      · intro h; exact h.2
    · simp only [hl, if_false]
      constructor
      · intro h; cases h
      · intro h
        have : vs.reverse[n - 1]? = none := by
          apply List.getElem?_eq_none
          simp; omega
        rw [this] at h; cases h.2

theorem getLast?_digits (X : Str) (k : Nat) :
    (X ++ ':' :: (toString k).toList).getLast? ≠ some ']' := by
  obtain ⟨dne, ddig, _⟩ := digits_spec k
  intro h
  have hm : ']' ∈ (toString k).toList := by
    cases hd : (toString k).toList.getLast? with
    | none => exact absurd (List.getLast?_eq_none_iff.mp hd) dne
    | some d =>
      have : (X ++ ':' :: (toString k).toList).getLast? = some d := by
        rw [List.getLast?_append, List.getLast?_cons, hd]; rfl
      rw [this] at h
      simp only [Option.some.injEq] at h
      subst h
      exact List.mem_of_getLast? hd
  exact (hostChar_ne (digit_facts (ddig _ hm)).1).2.2.1 rfl

/-- `host.rsplit(":", 1)[0]` (guarded by `":" in host and not host.endswith("]")`) removes exactly
the port of an assembled `host[:port]` - name, IPv4 or bracketed IPv6 literal alike -/
theorem stripPort_hostport (h : Str) (p : Option Nat) : stripPort (hostBr h ++ portText p) = hostBr h := by
  have key : ∀ j, j ≠ 0 → portText (some j) = ':' :: (toString j).toList := by
    intro j hj; cases j with
    | zero => exact absurd rfl hj
    | succ j => rfl
  have withPort : ∀ j, j ≠ 0 → stripPort (hostBr h ++ portText (some j)) = hostBr h := by
    intro j hj
    rw [key j hj]
    have hcj : ':' ∉ (toString j).toList := fun hm => (digit_facts ((digits_spec j).2.1 _ hm)).2.1 rfl
    have hp : hasPort (hostBr h ++ ':' :: (toString j).toList) = true := by
      unfold hasPort endsBracket
      simp only [Bool.and_eq_true, Bool.not_eq_true', beq_eq_false_iff_ne]
      exact ⟨by simp, getLast?_digits _ _⟩
    unfold stripPort
    rw [if_pos hp, rpartitionChar_append _ _ hcj]
    rfl
  have noPort : stripPort (hostBr h) = hostBr h := by
    unfold stripPort
    by_cases hc : h.contains ':' = true
    · have : hasPort (hostBr h) = false := by
        unfold hasPort endsBracket hostBr
        rw [if_pos hc]
        have : ('[' :: (h ++ [']'])).getLast? = some ']' := by
          rw [← List.cons_append, List.getLast?_append]; rfl
        simp only [List.cons_append, this]
        simp
      rw [this]; rfl
    · have : hasPort (hostBr h) = false := by
        unfold hasPort hostBr
        rw [if_neg hc]
        simp only [Bool.and_eq_false_iff]
        left
        simpa using hc
      rw [this]; rfl
  cases p with
  | none => simpa [portText] using noPort
  | some j =>
    by_cases hj : j = 0
    · subst hj; simpa [portText] using noPort
    · exact withPort j hj

end Wz.Url
