/-
Routing lemmas, part 10 (C12): the shape of redirect URLs and the character set of `quote`.
-/
import WzVerif.Lemmas.RoutingTop
import WzVerif.Model.RoutingFollow
namespace Wz.Routing

/-! ### `quote` emits only unreserved / safe ASCII and percent escapes -/

/-- characters `quote(_, safe=pathSafe)` can emit -/
def pathChar (c : Char) : Bool :=
  c.toNat < 128 && 32 < c.toNat && c != '?' && c != '#' && c != '\\' && c != '"' && c != '<' && c != '>'

theorem quoteByte_pathSafe : ∀ b : Fin 256, (quoteByte (pathSafe.toList.map Char.toNat) (UInt8.ofNat b.val)).all pathChar = true := by
  decide +kernel

theorem quote_pathSafe_chars (s : Str) : ∀ c ∈ quote pathSafe s, pathChar c = true := by
  intro c hc
  simp only [quote, List.mem_flatMap] at hc
  obtain ⟨b, _, hb⟩ := hc
  have := quoteByte_pathSafe ⟨b.toNat, b.toNat_lt⟩
  simp only [UInt8.ofNat_toNat, List.all_eq_true] at this
  exact this c hb

/-! ### redirect URLs -/

theorem lstripChar_head (c : Char) (s : Str) : (lstripChar c s).head? ≠ some c := by
  induction s with
  | nil => simp [lstripChar]
  | cons x t ih =>
    simp only [lstripChar, List.dropWhile_cons]
    split
    · exact ih
    · rename_i h
      simp only [List.head?_cons, ne_eq, Option.some.injEq]
      intro hx; subst hx; simp at h

theorem rstripChar_prefix (c : Char) (s : Str) : rstripChar c s <+: s := by
  simp only [rstripChar]
  have := List.dropWhile_suffix (l := s.reverse) (fun x => x == c)
  have := List.reverse_prefix.2 this
  simpa using this

theorem stripChar_head (s : Str) : (stripChar '/' s).head? ≠ some '/' := by
  intro h
  have hp := rstripChar_prefix '/' (lstripChar '/' s)
  simp only [stripChar] at h
  cases hr : rstripChar '/' (lstripChar '/' s) with
  | nil => rw [hr] at h; cases h
  | cons x t =>
    rw [hr] at h hp
    simp only [List.head?_cons, Option.some.injEq] at h
    subst h
    obtain ⟨u, hu⟩ := hp
    have := lstripChar_head '/' s
    rw [← hu] at this
    simp at this

/-- the query part of a redirect URL -/
def querySuffix (a : Adapter) (qa : QueryArgs) : Str :=
  let qa := effQa a qa
  if qa.truthy && !(encodeQueryArgs qa).isEmpty then '?' :: encodeQueryArgs qa else []

def schemeOf (a : Adapter) : Str := if a.urlScheme.isEmpty then "http".toList else a.urlScheme

theorem schemeOf_ne_nil (a : Adapter) : (schemeOf a).isEmpty = false := by
  simp only [schemeOf]
  split
  · rfl
  · rename_i h; simpa using h

theorem urlunsplit_host {scheme host path : Str} {q : Option Str} (hs : scheme.isEmpty = false) (hh : host.isEmpty = false) :
    urlunsplit scheme host path q =
      scheme ++ "://".toList ++ host ++ (if !path.isEmpty && path.take 1 != ['/'] then '/' :: path else path) ++
        (match q with | some q => if q.isEmpty then [] else '?' :: q | none => []) := by
  simp only [urlunsplit, hh, hs, Bool.not_false, Bool.true_or, if_true, Bool.false_eq_true, if_false]
  cases q with
  | none => simp
  | some q =>
    by_cases hq : q = []
    · simp [hq]
    · simp [hq]

/-- **shape of `make_redirect_url`**: bound scheme, `://`, host of the bound adapter (never anything
from the path), the script root, the path without its leading slashes, the query. -/
theorem makeRedirectUrl_shape (hm : Bool) (a : Adapter) (p : Str) (qa : QueryArgs) (dp : Option Str)
    (hhost : getHost hm a dp ≠ []) :
    makeRedirectUrl hm a p qa dp =
      boundPrefix hm a dp ++ scriptRoot a ++ lstripChar '/' p ++ querySuffix a qa := by
  have hne : (getHost hm a dp).isEmpty = false := by
    cases h : getHost hm a dp with
    | nil => exact absurd h hhost
    | cons x t => rfl
  have hsch := schemeOf_ne_nil a
  simp only [makeRedirectUrl]
  rw [show (if a.urlScheme.isEmpty = true then "http".toList else a.urlScheme) = schemeOf a from rfl,
    urlunsplit_host hsch hne]
  simp only [boundPrefix, scriptRoot, querySuffix]
  rw [show (if a.urlScheme.isEmpty = true then "http".toList else a.urlScheme) = schemeOf a from rfl]
  generalize effQa a qa = qq
  have hpath : (if (!(stripChar '/' a.scriptName ++ '/' :: lstripChar '/' p).isEmpty &&
        (stripChar '/' a.scriptName ++ '/' :: lstripChar '/' p).take 1 != ['/']) = true
      then '/' :: (stripChar '/' a.scriptName ++ '/' :: lstripChar '/' p)
      else stripChar '/' a.scriptName ++ '/' :: lstripChar '/' p) =
      (if (stripChar '/' a.scriptName).isEmpty = true then ['/'] else '/' :: stripChar '/' a.scriptName ++ ['/']) ++
        lstripChar '/' p := by
    cases hs : (stripChar '/' a.scriptName) with
    | nil => simp
    | cons x t =>
      have hx : x ≠ '/' := by
        intro hx; subst hx
        have := stripChar_head a.scriptName
        rw [hs] at this; simp at this
      simp [hx]
  rw [hpath]
  cases ht : qq.truthy with
  | false => simp
  | true =>
    by_cases he : encodeQueryArgs qq = []
    · simp [he]
    · simp [he]


/-! ### the target of a slash redirect is admitted directly -/

theorem splitOn_ne_nil (c : Char) (s : Str) : splitOn c s ≠ [] := by
  cases s with
  | nil => simp [splitOn]
  | cons x t =>
    simp only [splitOn]
    split
    · simp
    · split <;> simp

theorem splitOn_append_sep (c : Char) (s : Str) : splitOn c (s ++ [c]) = splitOn c s ++ [[]] := by
  induction s with
  | nil => simp [splitOn]
  | cons x t ih =>
    simp only [List.cons_append, splitOn]
    split
    · simp [ih]
    · rw [ih]
      cases h : splitOn c t with
      | nil => exact absurd h (splitOn_ne_nil c t)
      | cons a b => simp

theorem segments_append_slash (dom path : Str) : segments dom (path ++ ['/']) = segments dom path ++ [[]] := by
  simp [segments, splitOn_append_sep]

theorem joinWith_append_nil (c : Char) : ∀ (l : List Str), l ≠ [] → joinWith c (l ++ [[]]) = joinWith c l ++ [c]
  | [], h => absurd rfl h
  | [x], _ => by simp [joinWith]
  | x :: y :: t, _ => by
    have := joinWith_append_nil c (y :: t) (by simp)
    simp only [List.cons_append] at this ⊢
    simp only [joinWith, this, List.append_assoc, List.cons_append]

/-- what `_parse_rule` guarantees about a slash-consuming (`final`) part: it is the last part, or — when
`suffixed` — it is followed by exactly the empty static part -/
def FinalShape : List Part → Prop
  | [] => True
  | .static _ :: t => FinalShape t
  | .dyn _ _ _ final suffixed _ :: t =>
    if final then (if suffixed then t = [.static []] else t = []) else (suffixed = false ∧ FinalShape t)

theorem endsWithChar_append (s : Str) (c : Char) : endsWithChar (s ++ [c]) c = true := by
  simp [endsWithChar]

theorem matchDyn_suffixed_extend {pre kind post target v}
    (h : matchDyn pre kind post true target = some (v, false)) :
    matchDyn pre kind post true (target ++ ['/']) = some (v, true) := by
  unfold matchDyn at h ⊢
  have he : endsWithChar target '/' = false := by
    cases hc : endsWithChar target '/' with
    | false => rfl
    | true =>
      simp only [hc, Bool.and_self, if_true] at h
      split at h
      · cases h
      · simp at h
  have h' : matchCore pre kind post target = some v := by
    simp only [he, Bool.and_false, Bool.false_eq_true, if_false, Option.map_eq_some_iff, Prod.mk.injEq] at h
    obtain ⟨v', hv, rfl, _⟩ := h
    exact hv
  simp [endsWithChar_append, he, h']

/-- a path that a branch rule admits but for its final slash is admitted directly once the slash is added -/
theorem noslash_to_direct : ∀ {ps : List Part} {input vs}, FinalShape ps →
    walkVia .noslash ps input = some vs → walkVia .direct ps (input ++ [[]]) = some vs := by
  intro ps
  induction ps with
  | nil => intro input vs _ h; simp [walkVia] at h
  | cons p t ih =>
    intro input vs hshape h
    rcases walkVia_cons_inv h with ⟨_, ht, hp, hin, hvs⟩ | ⟨a, rem, vs', hs, hw, rfl⟩
    · subst ht hp hin hvs
      simp [walkVia, step_static]
    · cases input with
      | nil => rw [step_nil] at hs; cases hs
      | cons x xs =>
        cases p with
        | static c =>
          simp only [step_static] at hs
          split at hs
          · cases hs
            refine walkVia_cons_of_step (a := []) (rem := rem ++ [[]]) ?_ (ih hshape hw)
            simp_all [step_static]
          · cases hs
        | dyn pre kind post final suffixed w =>
          cases final with
          | false =>
            simp only [FinalShape, Bool.false_eq_true, if_false] at hshape
            obtain ⟨hsf, hshape⟩ := hshape
            subst hsf
            simp only [step, Bool.false_eq_true, if_false, Bool.false_and] at hs
            cases hm : matchDyn pre kind post false x with
            | none => simp [hm] at hs
            | some vsl =>
              obtain ⟨v, sl⟩ := vsl
              simp only [hm, Option.some.injEq, Prod.mk.injEq] at hs
              obtain ⟨rfl, rfl⟩ := hs
              refine walkVia_cons_of_step (a := [v]) (rem := xs ++ [[]]) ?_ (ih hshape hw)
              simp [step, hm]
          | true =>
            simp only [FinalShape, if_true] at hshape
            cases suffixed with
            | false =>
              simp only [Bool.false_eq_true, if_false] at hshape
              subst hshape
              simp [walkVia] at hw
            | true =>
              simp only [if_true] at hshape
              subst hshape
              simp only [step, if_true, Bool.true_and] at hs
              cases hm : matchDyn pre kind post true (joinWith '/' (x :: xs)) with
              | none => simp [hm] at hs
              | some vsl =>
                obtain ⟨v, sl⟩ := vsl
                simp only [hm, Option.some.injEq, Prod.mk.injEq] at hs
                obtain ⟨rfl, rfl⟩ := hs
                cases sl with
                | true => simp [walkVia, step_static] at hw
                | false =>
                  simp only [Bool.false_eq_true, if_false] at hw
                  have hvs' : vs' = [] := by simpa [walkVia] using hw.symm
                  subst hvs'
                  have hext := matchDyn_suffixed_extend hm
                  have hj : joinWith '/' (x :: (xs ++ [[]])) = joinWith '/' (x :: xs) ++ ['/'] := by
                    have := joinWith_append_nil '/' (x :: xs) (by simp)
                    simpa using this
                  refine walkVia_cons_of_step (a := [v]) (rem := [[]]) ?_ (by simp [walkVia, step_static])
                  simp [step, hj, hext]


/-! ### `_parse_rule` yields `FinalShape` parts -/

theorem emit_shape (p : PState) (_hinv : p.final = true → p.conv.isSome = true) (hf : p.final = false) (t : List Part)
    (ht : FinalShape t) : FinalShape (p.emit false :: t) := by
  simp only [PState.emit]
  cases hc : p.conv with
  | none => exact ht
  | some cn => simp [FinalShape, hf, ht]

theorem parseToks_finalShape : ∀ (toks : List Tok) (p : PState), (p.final = true → p.conv.isSome = true) →
    ∀ {parts convs}, parseToks toks p = some (parts, convs) → FinalShape parts := by
  intro toks
  induction toks with
  | nil =>
    intro p hinv parts convs h
    simp only [parseToks] at h
    cases h
    cases hf : p.final with
    | false =>
      simp only [Bool.false_and, Bool.false_eq_true, if_false]
      simp only [PState.emit]
      cases hc : p.conv with
      | none => trivial
      | some cn => simp [FinalShape, hf]
    | true =>
      obtain ⟨cn, hc⟩ := Option.isSome_iff_exists.1 (hinv hf)
      cases hs : endsWithChar p.post '/' with
      | true => simp [PState.emit, hc, FinalShape]
      | false => simp [PState.emit, hc, FinalShape]
  | cons t toks ih =>
    intro p hinv parts convs h
    cases t with
    | lit s =>
      simp only [parseToks] at h
      split at h
      · exact ih _ (by simpa using hinv) h
      · exact ih _ (by simpa using hinv) h
    | var c n =>
      simp only [parseToks] at h
      split at h
      · cases h
      · exact ih _ (by simp) h
    | slash =>
      simp only [parseToks] at h
      split at h
      · exact ih _ (by simpa using hinv) h
      · rename_i hf
        cases hrec : parseToks toks {} with
        | none => simp [hrec] at h
        | some pc =>
          obtain ⟨parts', convs'⟩ := pc
          simp only [hrec, Option.some.injEq, Prod.mk.injEq] at h
          obtain ⟨rfl, rfl⟩ := h
          exact emit_shape p hinv (by simpa using hf) parts' (ih {} (by simp) hrec)

/-- rules without a subdomain / host rule (the domain part is the empty static part) -/
theorem bindRule_finalShape {cfg : MapCfg} {i : Nat} {s : RuleSpec} {r : Rule} (h : bindRule cfg i s = some r)
    (hdom : (if cfg.hostMatching then s.domain.getD [] else s.domain.getD cfg.defaultSubdomain) = []) :
    FinalShape r.parts := by
  simp only [bindRule, hdom, List.isEmpty_nil, if_true] at h
  split at h
  · rename_i dp dc pp pc hd hpath
    cases h
    cases hd
    show FinalShape (Part.static [] :: pp)
    exact parseToks_finalShape _ {} (by intro h; cases h) (parts := pp) hpath
  · cases h


/-! ### which redirects `MapAdapter.match` raises -/

theorem effQa_idem (a : Adapter) (qa : QueryArgs) : effQa a (effQa a qa) = effQa a qa := by
  cases qa with
  | none => simp only [effQa]; cases a.queryArgs <;> rfl
  | text s => rfl
  | pairs l => rfl

theorem getDefaultRedirect_some {m : RMap} {a : Adapter} {rule : Rule} {meth : Str} {vals qa} {url : Str} :
    ∀ {l : List Rule}, getDefaultRedirect m a rule meth vals qa l = .ok (some url) →
      ∃ path dom, url = makeRedirectUrl m.cfg.hostMatching a path qa (some dom) := by
  intro l
  induction l with
  | nil => intro h; simp [getDefaultRedirect] at h
  | cons r t ih =>
    intro h
    simp only [getDefaultRedirect] at h
    split at h
    · cases h
    · split at h
      · split at h
        · cases h
        · rename_i dom path _
          cases h
          exact ⟨path, dom, rfl⟩
      · exact ih h

theorem adapterBuild_external {cfg : MapCfg} {a : Adapter} {rules : List Rule} {ep : Str} {vals meth au} {u : Str}
    (hne : a.urlScheme ≠ [])
    (h : adapterBuild cfg a rules ep vals meth true au = .ok u) :
    ∃ s dom path, u = s ++ ':' :: '/' :: '/' :: getHost cfg.hostMatching a (some dom) ++ a.scriptName.dropLast ++ '/' :: lstripChar '/' path ∧
      s ∈ ["http".toList, "https".toList, "ws".toList, "wss".toList] := by
  have hemp : a.urlScheme.isEmpty = false := by
    cases hs : a.urlScheme with
    | nil => exact absurd hs hne
    | cons x t => rfl
  simp only [adapterBuild] at h
  split at h
  · cases h
  · cases h
  · rename_i dom path websocket _
    simp only [Bool.true_or, Bool.not_true, Bool.false_and, Bool.false_eq_true, if_false, hemp, Bool.not_false, if_true] at h
    cases h
    cases websocket <;> cases (a.urlScheme == "https".toList || a.urlScheme == "wss".toList)
    · exact ⟨"http".toList, dom, path, by simp, by simp⟩
    · exact ⟨"https".toList, dom, path, by simp, by simp⟩
    · exact ⟨"ws".toList, dom, path, by simp, by simp⟩
    · exact ⟨"wss".toList, dom, path, by simp, by simp⟩

/-- the three kinds of redirect `MapAdapter.match` raises on its own -/
theorem matchAdapter_redirect_inv {m : RMap} {a : Adapter} {p : Str} {meth : Option Str} {qa : QueryArgs} {ws : Option Bool}
    {url : Str} (h : matchAdapter m a p meth qa ws = .redirect url) :
    (∃ p', matchSM m.root m.cfg.mergeSlashes m.cfg.redirectDefaults (reqOf a meth ws) (domainPartOf m.cfg a) (pathPart p) = .requestPath p' ∧
        url = makeRedirectUrl m.cfg.hostMatching a (quote pathSafe p') (effQa a qa) none) ∨
    (∃ r vals u, matchSM m.root m.cfg.mergeSlashes m.cfg.redirectDefaults (reqOf a meth ws) (domainPartOf m.cfg a) (pathPart p) = .aliasRedirect r vals ∧
        adapterBuild m.cfg a m.rules r.endpoint vals (some (reqOf a meth ws).method) true false = .ok u ∧
        url = (if (effQa a qa).truthy then u ++ '?' :: encodeQueryArgs (effQa a qa) else u)) ∨
    (∃ r vals path dom, matchSM m.root m.cfg.mergeSlashes m.cfg.redirectDefaults (reqOf a meth ws) (domainPartOf m.cfg a) (pathPart p) = .ok r vals ∧
        url = makeRedirectUrl m.cfg.hostMatching a path (effQa a qa) (some dom)) := by
  simp only [matchAdapter] at h
  cases hsm : matchSM m.root m.cfg.mergeSlashes m.cfg.redirectDefaults (reqOf a meth ws) (domainPartOf m.cfg a) (pathPart p) with
  | requestPath p' =>
    simp only [hsm] at h
    cases h
    exact .inl ⟨p', rfl, rfl⟩
  | aliasRedirect r vals =>
    simp only [hsm] at h
    split at h
    · cases h
    · rename_i u hu
      rcases aliasOutcome_cases (if (effQa a qa).truthy = true then u ++ '?' :: encodeQueryArgs (effQa a qa) else u)
        (domainPartOf m.cfg a) (pathPart p) with hh | hh
      · rw [hh] at h; cases h
      · rw [hh] at h
        cases h
        exact .inr (.inl ⟨r, vals, u, rfl, hu, rfl⟩)
  | noMatch ms wsm =>
    simp only [hsm] at h
    split at h
    · cases h
    · split at h <;> cases h
  | ok r vals =>
    simp only [hsm] at h
    split at h
    · split at h
      · cases h
      · rename_i url' hd
        cases h
        obtain ⟨path, dom, hu⟩ := getDefaultRedirect_some hd
        exact .inr (.inr ⟨r, vals, path, dom, rfl, hu⟩)
      · cases h
    · cases h

theorem getHost_ne_nil (a : Adapter) (dp : Option Str) (h : a.serverName ≠ []) : getHost false a dp ≠ [] := by
  have key : ∀ sub : Str, (if sub.isEmpty then a.serverName else sub ++ '.' :: a.serverName) ≠ [] := by
    intro sub
    split
    · exact h
    · simp
  simp only [getHost, Bool.false_eq_true, if_false]
  cases dp with
  | none => exact key _
  | some d => exact key _

theorem scriptRoot_dropLast (a : Adapter) : (scriptRoot a).dropLast ++ ['/'] = scriptRoot a := by
  simp only [scriptRoot]
  split
  · rfl
  · rw [show ('/' :: stripChar '/' a.scriptName ++ ['/']) = ('/' :: stripChar '/' a.scriptName) ++ ['/'] from rfl,
      List.dropLast_concat]

theorem urlencode_ne_nil (x : Str × Str) (l : List (Str × Str)) : urlencode (x :: l) ≠ [] := by
  obtain ⟨k, v⟩ := x
  simp only [urlencode, List.map_cons]
  cases hl : l.map (fun (kv : Str × Str) => quotePlus querySafe kv.1 ++ '=' :: quotePlus querySafe kv.2) with
  | nil => simp [joinWith]
  | cons y t => simp [joinWith]

theorem encodeQueryArgs_ne_nil {qa : QueryArgs} (h : qa.truthy = true) : encodeQueryArgs qa ≠ [] := by
  cases qa with
  | none => cases h
  | text s =>
    simp only [QueryArgs.truthy, Bool.not_eq_true', List.isEmpty_eq_false_iff] at h
    exact h
  | pairs l =>
    cases l with
    | nil => cases h
    | cons x t => exact urlencode_ne_nil x t

/-- how `StateMachineMatcher.match` comes to raise `RequestPath` -/
theorem matchSM_requestPath_inv {root : State} {mg rd : Bool} {q : Req} {dom path p' : Str}
    (h : matchSM root mg rd q dom path = .requestPath p') :
    ((dfs q root (segments dom path) []).res = .slash ∧ p' = path ++ ['/']) ∨
    ((dfs q root (segments dom path) []).res = .none ∧ mg = true ∧
      (((dfs q root (segments dom (mergeSlashes path)) []).res = .slash ∧ p' = mergeSlashes path ++ ['/']) ∨
       (∃ r vs, (dfs q root (segments dom (mergeSlashes path)) []).res = .found r vs ∧ r.merge = true ∧ p' = mergeSlashes path))) := by
  simp only [matchSM] at h
  simp only [segments]
  cases h1 : (dfs q root (dom :: splitOn '/' path) []).res with
  | slash => simp only [h1] at h; cases h; exact .inl ⟨rfl, rfl⟩
  | found r vs =>
    simp only [h1, finishMatch] at h
    split at h
    · cases h
    · split at h <;> cases h
  | none =>
    simp only [h1] at h
    right
    refine ⟨rfl, ?_⟩
    cases mg with
    | false => simp at h
    | true =>
      refine ⟨rfl, ?_⟩
      simp only [if_true] at h
      cases h2 : (dfs q root (dom :: splitOn '/' (mergeSlashes path)) []).res with
      | slash => simp only [h2] at h; cases h; exact .inl ⟨rfl, rfl⟩
      | none => simp [h2] at h
      | found r vs =>
        simp only [h2] at h
        split at h
        · rename_i hm; cases h; exact .inr ⟨r, vs, rfl, hm, rfl⟩
        · cases h

/-- maps without subdomain / host rules: every rule's parts have the `_parse_rule` shape -/
theorem mkMap_finalShape {cfg : MapCfg} {specs : List RuleSpec} {m : RMap} (h : mkMap cfg specs = some m)
    (hsub : cfg.defaultSubdomain = []) (hdom : ∀ s ∈ specs, s.domain = none) :
    ∀ r ∈ m.rules, FinalShape r.parts := by
  simp only [mkMap, Option.map_eq_some_iff] at h
  obtain ⟨rules, hb, rfl⟩ := h
  intro r hr
  obtain ⟨j, s, hs, hbr⟩ := bindRulesFrom_mem hb r hr
  apply bindRule_finalShape hbr
  simp [hdom s hs, hsub]

def Res.isSlash : Res → Bool
  | .slash => true
  | _ => false

end Wz.Routing
