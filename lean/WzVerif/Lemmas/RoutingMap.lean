/-
Routing lemmas, part 6: from the search to `StateMachineMatcher.match` / `MapAdapter.match` on a
map built by `mkMap`: the groups a rule's recogniser yields are accepted by its converters' regexes
(`walkVia_accepts` + `bindRule_kinds`), the three ways of admitting are mutually exclusive.
-/
import WzVerif.Lemmas.RoutingComplete
namespace Wz.Routing
open State

/-! ### converter groups -/

def dynKinds : List Part → List RKind
  | [] => []
  | .static _ :: t => dynKinds t
  | .dyn _ k _ _ _ _ :: t => k :: dynKinds t

theorem dynKinds_append (a b : List Part) : dynKinds (a ++ b) = dynKinds a ++ dynKinds b := by
  induction a with
  | nil => rfl
  | cons p t ih => cases p <;> simp [dynKinds, ih]

/-- every group is accepted by the regex of the corresponding dynamic part -/
def AllAccept : List RKind → List Str → Prop
  | [], [] => True
  | k :: ks, v :: vs => k.accepts v = true ∧ AllAccept ks vs
  | _, _ => False

theorem AllAccept.append : ∀ {k1 v1 k2 v2}, AllAccept k1 v1 → AllAccept k2 v2 → AllAccept (k1 ++ k2) (v1 ++ v2)
  | [], [], _, _, _, h2 => h2
  | _ :: _, _ :: _, _, _, ⟨h, h1⟩, h2 => ⟨h, AllAccept.append h1 h2⟩
  | [], _ :: _, _, _, h1, _ => h1.elim
  | _ :: _, [], _, _, h1, _ => h1.elim

theorem matchCore_accepts {pre kind post t v} (h : matchCore pre kind post t = some v) : kind.accepts v = true := by
  simp only [matchCore] at h
  split at h
  · cases h
  · split at h
    · cases h
    · split at h
      · rename_i hacc; cases h; exact hacc
      · cases h

theorem matchDyn_accepts {pre kind post suffixed target v sl}
    (h : matchDyn pre kind post suffixed target = some (v, sl)) : kind.accepts v = true := by
  unfold matchDyn at h
  by_cases hsl : (suffixed && endsWithChar target '/') = true
  · simp only [hsl, if_true] at h
    split at h
    · cases h
    · simp only [Option.map_eq_some_iff, Prod.mk.injEq] at h
      obtain ⟨v', hv, rfl, _⟩ := h
      exact matchCore_accepts hv
  · simp only [hsl, Bool.false_eq_true, if_false] at h
    simp only [Option.map_eq_some_iff, Prod.mk.injEq] at h
    obtain ⟨v', hv, rfl, _⟩ := h
    exact matchCore_accepts hv

theorem step_accepts {p : Part} {input a rem} (h : step p input = some (a, rem)) :
    AllAccept (dynKinds [p]) a := by
  cases input with
  | nil => rw [step_nil] at h; cases h
  | cons x xs =>
    cases p with
    | static c =>
      simp only [step_static] at h
      split at h
      · cases h; trivial
      · cases h
    | dyn pre kind post final suffixed w =>
      simp only [step] at h
      split at h
      · rename_i v sl hm
        cases h
        exact ⟨matchDyn_accepts hm, trivial⟩
      · cases h

/-- the groups a rule's recogniser returns are accepted by the regexes of its dynamic parts, in order -/
theorem walkVia_accepts {via : Via} : ∀ {ps : List Part} {input vs}, walkVia via ps input = some vs →
    AllAccept (dynKinds ps) vs := by
  intro ps
  induction ps with
  | nil =>
    intro input vs h
    cases via <;> simp only [walkVia] at h
    · split at h <;> cases h; trivial
    · split at h <;> cases h; trivial
    · cases h
  | cons p ps ih =>
    intro input vs h
    rcases walkVia_cons_inv h with ⟨_, hps, hp, _, hw⟩ | ⟨a, rem, vs', hs, hw, rfl⟩
    · subst hps hp hw; trivial
    · have h1 := step_accepts hs
      have h2 := ih hw
      have : dynKinds (p :: ps) = dynKinds [p] ++ dynKinds ps := dynKinds_append [p] ps
      rw [this]
      exact h1.append h2

/-! ### the three ways of admitting exclude each other -/

theorem walkVia_exclusive : ∀ {ps : List Part} {input a b} {v1 v2 : Via},
    walkVia v1 ps input = some a → walkVia v2 ps input = some b → v1 = v2 := by
  intro ps
  induction ps with
  | nil =>
    intro input a b v1 v2 h1 h2
    cases v1 <;> cases v2 <;> simp only [walkVia] at h1 h2 <;> first | rfl | (split at h1 <;> split at h2 <;> simp_all) | cases h1 | cases h2
  | cons p ps ih =>
    intro input a b v1 v2 h1 h2
    rcases walkVia_cons_inv h1 with ⟨hv1, _, _, hin, _⟩ | ⟨a1, rem1, vs1, hs1, hw1, _⟩
    · rcases walkVia_cons_inv h2 with ⟨hv2, _⟩ | ⟨a2, rem2, vs2, hs2, _⟩
      · rw [hv1, hv2]
      · subst hin; rw [step_nil] at hs2; cases hs2
    · rcases walkVia_cons_inv h2 with ⟨_, _, _, hin, _⟩ | ⟨a2, rem2, vs2, hs2, hw2, _⟩
      · subst hin; rw [step_nil] at hs1; cases hs1
      · rw [hs1] at hs2; cases hs2
        exact ih hw1 hw2

/-- a rule's recogniser admitting the input in an allowed way is what `admitsGroups` returns -/
theorem admitsGroups_of_walkVia {r : Rule} {input vs via} (hw : walkVia via r.parts input = some vs)
    (ha : viaAllowed r via = true) : admitsGroups r input = some vs := by
  simp only [admitsGroups]
  cases hd : walkVia .direct r.parts input with
  | some vs' =>
    have := walkVia_exclusive hw hd
    subst this; rw [hd] at hw; cases hw; rfl
  | none =>
    cases via with
    | direct => rw [hd] at hw; cases hw
    | trailing =>
      have hs : r.strict = false := by simpa [viaAllowed] using ha
      simp [hs, hw]
    | noslash =>
      have hs : r.strict = false := by simpa [viaAllowed] using ha
      cases ht : walkVia .trailing r.parts input with
      | some vs' => have := walkVia_exclusive hw ht; cases this
      | none => simp [hs, hw]


/-! ### `_parse_rule`: the converters line up with the dynamic parts -/

def pendingKinds (p : PState) : List RKind := match p.conv with | some (c, _) => [c.kind] | none => []
def pendingConvs (p : PState) : List (Str × Conv) := match p.conv with | some (c, n) => [(n, c)] | none => []

theorem emit_kinds (p : PState) (sfx : Bool) : dynKinds [p.emit sfx] = pendingKinds p := by
  simp only [PState.emit, pendingKinds]
  cases p.conv with
  | none => rfl
  | some cn => rfl

theorem parseToks_kinds : ∀ (toks : List Tok) (p : PState) {parts convs},
    parseToks toks p = some (parts, convs) → dynKinds parts = convs.map (·.2.kind) := by
  intro toks
  induction toks with
  | nil =>
    intro p parts convs h
    simp only [parseToks] at h
    cases h
    have hk : ∀ (p' : PState) sfx, p'.conv = p.conv →
        dynKinds [p'.emit sfx] = (match p.conv with | some (c, n) => [(n, c)] | none => []).map (fun (x : Str × Conv) => x.2.kind) := by
      intro p' sfx hc
      rw [emit_kinds, pendingKinds, hc]
      cases p.conv with
      | none => rfl
      | some cn => rfl
    split
    · rename_i hs
      have := hk { p with post := p.post.dropLast } true rfl
      simp only [hs] at this ⊢
      rw [show [PState.emit { p with post := p.post.dropLast } true, Part.static []] =
            [PState.emit { p with post := p.post.dropLast } true] ++ [Part.static []] from rfl, dynKinds_append, this]
      simp only [dynKinds, List.append_nil]
      rfl
    · rename_i hs
      have := hk p false rfl
      simp only [hs] at this ⊢
      exact this
  | cons t toks ih =>
    intro p parts convs h
    cases t with
    | lit s =>
      simp only [parseToks] at h
      split at h <;> exact ih _ h
    | var c n =>
      simp only [parseToks] at h
      split at h
      · cases h
      · exact ih _ h
    | slash =>
      simp only [parseToks] at h
      split at h
      · exact ih _ h
      · cases hrec : parseToks toks {} with
        | none => simp [hrec] at h
        | some pc =>
          obtain ⟨parts', convs'⟩ := pc
          simp only [hrec, Option.some.injEq, Prod.mk.injEq] at h
          obtain ⟨rfl, rfl⟩ := h
          have := ih _ hrec
          rw [show p.emit false :: parts' = [p.emit false] ++ parts' from rfl, dynKinds_append, emit_kinds, this,
            List.map_append]
          congr 1
          simp only [pendingKinds]
          cases p.conv with
          | none => rfl
          | some cn => rfl

theorem bindRule_kinds {cfg : MapCfg} {i : Nat} {s : RuleSpec} {r : Rule} (h : bindRule cfg i s = some r) :
    dynKinds r.parts = r.convs.map (·.2.kind) := by
  have hdomk : ∀ (toks : List Tok) dp dc,
      (if toks.isEmpty then some ([Part.static []], []) else parseRule toks) = some (dp, dc) →
      dynKinds dp = dc.map (fun (x : Str × Conv) => x.2.kind) := by
    intro toks dp dc h
    split at h
    · cases h; rfl
    · exact parseToks_kinds _ _ h
  simp only [bindRule] at h
  split at h
  · rename_i dp dc pp pc hdom hpath
    cases h
    simp only [dynKinds_append, List.map_append]
    congr 1
    · exact hdomk _ _ _ hdom
    · exact parseToks_kinds _ _ hpath
  · cases h

theorem bindRulesFrom_mem {cfg : MapCfg} : ∀ {specs : List RuleSpec} {i : Nat} {rules : List Rule},
    bindRulesFrom cfg i specs = some rules → ∀ r ∈ rules, ∃ j s, s ∈ specs ∧ bindRule cfg j s = some r := by
  intro specs
  induction specs with
  | nil => intro i rules h r hr; simp [bindRulesFrom] at h; subst h; cases hr
  | cons s t ih =>
    intro i rules h r hr
    simp only [bindRulesFrom] at h
    split at h
    · rename_i r0 rs h0 hrest
      cases h
      rcases List.mem_cons.1 hr with rfl | hr
      · exact ⟨i, s, by simp, h0⟩
      · obtain ⟨j, s', hs', hb⟩ := ih hrest r hr
        exact ⟨j, s', List.mem_cons_of_mem _ hs', hb⟩
    · cases h

/-- what `mkMap` guarantees about the map it returns -/
structure Built (cfg : MapCfg) (m : RMap) : Prop where
  cfg_eq : m.cfg = cfg
  root_eq : m.root = buildRoot m.rules
  kinds : ∀ r ∈ m.rules, dynKinds r.parts = r.convs.map (·.2.kind)

theorem mkMap_built {cfg : MapCfg} {specs : List RuleSpec} {m : RMap} (h : mkMap cfg specs = some m) : Built cfg m := by
  simp only [mkMap, Option.map_eq_some_iff] at h
  obtain ⟨rules, hb, rfl⟩ := h
  refine ⟨rfl, rfl, ?_⟩
  intro r hr
  obtain ⟨j, s, _, hbr⟩ := bindRulesFrom_mem hb r hr
  exact bindRule_kinds hbr

/-! ### conversions -/

/-- the hypothesis under which NotFound / 405 are exact: each converter's `to_python` accepts every
text its regex accepts (F03 is the complement) -/
def ConvOK (rules : List Rule) : Prop :=
  ∀ r ∈ rules, ∀ nc ∈ r.convs, ∀ s, regexAccepts nc.2 s = true → (toPython nc.2 s).isSome = true

theorem convertValues_isSome : ∀ {convs : List (Str × Conv)} {vs : List Str},
    AllAccept (convs.map (·.2.kind)) vs →
    (∀ nc ∈ convs, ∀ s, regexAccepts nc.2 s = true → (toPython nc.2 s).isSome = true) →
    (convertValues convs vs).isSome = true := by
  intro convs
  induction convs with
  | nil => intro vs _ _; cases vs <;> rfl
  | cons nc t ih =>
    intro vs hacc hok
    obtain ⟨n, c⟩ := nc
    cases vs with
    | nil => exact hacc.elim
    | cons v vs =>
      obtain ⟨hv, hrest⟩ := hacc
      simp only [convertValues]
      have := hok (n, c) (by simp) v hv
      obtain ⟨x, hx⟩ := Option.isSome_iff_exists.1 this
      simp only [hx]
      have := ih hrest (fun nc hnc => hok nc (List.mem_cons_of_mem _ hnc))
      obtain ⟨y, hy⟩ := Option.isSome_iff_exists.1 this
      simp [hy]

/-- converters without `fixed_digits` / `min` / `max` convert everything (a fortiori what their
regex accepts): string, any, uuid, path, float, plain int -/
theorem Conv.total_ok {c : Conv} (h : c.total = true) (s : Str) : (toPython c s).isSome = true := by
  cases c with
  | string mn mx ln => rfl
  | any items => rfl
  | uuid => rfl
  | path => rfl
  | int fixed sg mn mx =>
    simp only [Conv.total, Bool.and_eq_true, beq_iff_eq, Option.isNone_iff_eq_none] at h
    obtain ⟨⟨hf, hmn⟩, hmx⟩ := h
    subst hf hmn hmx
    simp [toPython]
  | float sg mn mx =>
    simp only [Conv.total, Bool.and_eq_true, Option.isNone_iff_eq_none] at h
    obtain ⟨hmn, hmx⟩ := h
    subst hmn hmx
    simp [toPython]

theorem convOK_of_total {rules : List Rule} (h : ∀ r ∈ rules, r.convTotal = true) : ConvOK rules := by
  intro r hr nc hnc s _
  have := h r hr
  simp only [Rule.convTotal, List.all_eq_true] at this
  exact Conv.total_ok (this nc hnc) s

end Wz.Routing
