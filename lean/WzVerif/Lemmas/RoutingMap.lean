/-
Routing lemmas, part 6: from the search to `StateMachineMatcher.match` / `MapAdapter.match` on a
map built by `mkMap`: the groups a rule's recogniser yields are accepted by its converters' regexes
(`walkVia_accepts` + `bindRule_kinds`), the three ways of admitting are mutually exclusive.
-/
import WzVerif.Lemmas.RoutingComplete
namespace Wz.Routing
open State

/-! ### converter groups -/

def dynKinds : List Part → List RKind
  | [] => []
  | .static _ :: t => dynKinds t
  | .dyn _ k _ _ _ _ :: t => k :: dynKinds t

theorem dynKinds_append (a b : List Part) : dynKinds (a ++ b) = dynKinds a ++ dynKinds b := by
  induction a with
  | nil => rfl
  | cons p t ih => cases p <;> simp [dynKinds, ih]

/-- every group is accepted by the regex of the corresponding dynamic part -/
def AllAccept : List RKind → List Str → Prop
  | [], [] => True
  | k :: ks, v :: vs => k.accepts v = true ∧ AllAccept ks vs
  | _, _ => False

theorem AllAccept.append : ∀ {k1 v1 k2 v2}, AllAccept k1 v1 → AllAccept k2 v2 → AllAccept (k1 ++ k2) (v1 ++ v2)
  | [], [], _, _, _, h2 => h2
  | _ :: _, _ :: _, _, _, ⟨h, h1⟩, h2 => ⟨h, AllAccept.append h1 h2⟩
  | [], _ :: _, _, _, h1, _ => h1.elim
  | _ :: _, [], _, _, h1, _ => h1.elim

theorem matchCore_accepts {pre kind post t v} (h : matchCore pre kind post t = some v) : kind.accepts v = true := by
  simp only [matchCore] at h
  split at h
  · cases h
  · split at h
    · cases h
    · split at h
      · rename_i hacc; cases h; exact hacc
      · cases h

theorem matchDyn_accepts {pre kind post suffixed target v sl}
    (h : matchDyn pre kind post suffixed target = some (v, sl)) : kind.accepts v = true := by
  unfold matchDyn at h
  by_cases hsl : (suffixed && endsWithChar target '/') = true
  · simp only [hsl, if_true] at h
    split at h
    · cases h
    · simp only [Option.map_eq_some_iff, Prod.mk.injEq] at h
      obtain ⟨v', hv, rfl, _⟩ := h
      exact matchCore_accepts hv
  · simp only [hsl, Bool.false_eq_true, if_false] at h
    split at h
    · cases h
    · simp only [Option.map_eq_some_iff, Prod.mk.injEq] at h
      obtain ⟨v', hv, rfl, _⟩ := h
      exact matchCore_accepts hv

theorem step_accepts {p : Part} {input a rem} (h : step p input = some (a, rem)) :
    AllAccept (dynKinds [p]) a := by
  cases input with
  | nil => rw [step_nil] at h; cases h
  | cons x xs =>
    cases p with
    | static c =>
      simp only [step_static] at h
      split at h
      · cases h; trivial
      · cases h
    | dyn pre kind post final suffixed w =>
      simp only [step] at h
      split at h
      · rename_i v sl hm
        cases h
        exact ⟨matchDyn_accepts hm, trivial⟩
      · cases h

/-- the groups a rule's recogniser returns are accepted by the regexes of its dynamic parts, in order -/
theorem walkVia_accepts {via : Via} : ∀ {ps : List Part} {input vs}, walkVia via ps input = some vs →
    AllAccept (dynKinds ps) vs := by
  intro ps
  induction ps with
  | nil =>
    intro input vs h
    cases via <;> simp only [walkVia] at h
    · split at h <;> cases h; trivial
    · split at h <;> cases h; trivial
    · cases h
  | cons p ps ih =>
    intro input vs h
    rcases walkVia_cons_inv h with ⟨_, hps, hp, _, hw⟩ | ⟨a, rem, vs', hs, hw, rfl⟩
    · subst hps hp hw; trivial
    · have h1 := step_accepts hs
      have h2 := ih hw
      have : dynKinds (p :: ps) = dynKinds [p] ++ dynKinds ps := dynKinds_append [p] ps
      rw [this]
      exact h1.append h2

/-! ### the three ways of admitting exclude each other -/

theorem walkVia_exclusive : ∀ {ps : List Part} {input a b} {v1 v2 : Via},
    walkVia v1 ps input = some a → walkVia v2 ps input = some b → v1 = v2 := by
  intro ps
  induction ps with
  | nil =>
    intro input a b v1 v2 h1 h2
    cases v1 <;> cases v2 <;> simp only [walkVia] at h1 h2 <;> first | rfl | (split at h1 <;> split at h2 <;> simp_all) | cases h1 | cases h2
  | cons p ps ih =>
    intro input a b v1 v2 h1 h2
    rcases walkVia_cons_inv h1 with ⟨hv1, _, _, hin, _⟩ | ⟨a1, rem1, vs1, hs1, hw1, _⟩
    · rcases walkVia_cons_inv h2 with ⟨hv2, _⟩ | ⟨a2, rem2, vs2, hs2, _⟩
      · rw [hv1, hv2]
      · subst hin; rw [step_nil] at hs2; cases hs2
    · rcases walkVia_cons_inv h2 with ⟨_, _, _, hin, _⟩ | ⟨a2, rem2, vs2, hs2, hw2, _⟩
      · subst hin; rw [step_nil] at hs1; cases hs1
      · rw [hs1] at hs2; cases hs2
        exact ih hw1 hw2

/-- a rule's recogniser admitting the input in an allowed way is what `admitsGroups` returns -/
theorem admitsGroups_of_walkVia {r : Rule} {input vs via} (hw : walkVia via r.parts input = some vs)
    (ha : viaAllowed r via = true) : admitsGroups r input = some vs := by
  simp only [admitsGroups]
  cases hd : walkVia .direct r.parts input with
  | some vs' =>
    have := walkVia_exclusive hw hd
    subst this; rw [hd] at hw; cases hw; rfl
  | none =>
    cases via with
    | direct => rw [hd] at hw; cases hw
    | trailing =>
      have hs : r.strict = false := by simpa [viaAllowed] using ha
      simp [hs, hw]
    | noslash =>
      have hs : r.strict = false := by simpa [viaAllowed] using ha
      cases ht : walkVia .trailing r.parts input with
      | some vs' => have := walkVia_exclusive hw ht; cases this
      | none => simp [hs, hw]

end Wz.Routing
