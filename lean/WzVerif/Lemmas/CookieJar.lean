/-
Helper lemmas for the test-client jar part of Props/C13.lean (Model/CookieJar.lean).
-/
import WzVerif.Lemmas.CookieRound
import WzVerif.Lemmas.CookieAttrs
import WzVerif.Model.CookieJar
namespace Wz.Cookie
open Wz

/-! ### `partition` / `split` -/

theorem takeDrop_ne (sep : Char) (p rest : Str) (hp : ∀ c ∈ p, c ≠ sep) :
    (p ++ sep :: rest).takeWhile (· != sep) = p ∧
    (p ++ sep :: rest).dropWhile (· != sep) = sep :: rest := by
  induction p with
  | nil => simp
  | cons a t ih =>
    have ha : a ≠ sep := hp a (by simp)
    have := ih (fun c hc => hp c (by simp [hc]))
    simp [ha, this]

theorem partitionAt_found (sep : Char) (p rest : Str) (hp : ∀ c ∈ p, c ≠ sep) :
    partitionAt sep (p ++ sep :: rest) = (p, true, rest) := by
  obtain ⟨h1, h2⟩ := takeDrop_ne sep p rest hp
  simp [partitionAt, h1, h2]

theorem dropWhile_ne_nil (sep : Char) (p : Str) (hp : ∀ c ∈ p, c ≠ sep) :
    p.dropWhile (· != sep) = [] := by
  induction p with
  | nil => rfl
  | cons a t ih =>
    have ha : a ≠ sep := hp a (by simp)
    rw [List.dropWhile_cons_of_pos (by simpa using ha)]
    exact ih (fun c hc => hp c (by simp [hc]))

theorem partitionAt_none (sep : Char) (p : Str) (hp : ∀ c ∈ p, c ≠ sep) :
    partitionAt sep p = (p, false, []) := by
  simp [partitionAt, dropWhile_ne_nil sep p hp]

theorem splitOn_none (sep : Char) (p : Str) (hp : ∀ c ∈ p, c ≠ sep) : splitOn sep p = [p] := by
  induction p with
  | nil => rfl
  | cons c t ih =>
    have hc : c ≠ sep := hp c (by simp)
    simp [splitOn, hc, ih (fun x hx => hp x (by simp [hx]))]

theorem splitOn_append (sep : Char) (p rest : Str) (hp : ∀ c ∈ p, c ≠ sep) :
    splitOn sep (p ++ sep :: rest) = p :: splitOn sep rest := by
  induction p with
  | nil => simp [splitOn]
  | cons c t ih =>
    have hc : c ≠ sep := hp c (by simp)
    simp [splitOn, hc, ih (fun x hx => hp x (by simp [hx]))]

theorem intercalate_cons2 (p q : Str) (r : List Str) :
    List.intercalate "; ".toList (p :: q :: r) = p ++ ';' :: ' ' :: List.intercalate "; ".toList (q :: r) := by
  simp [List.intercalate, List.intersperse]

/-- the attribute string after the pair: `" A; B; C"` splits at `;` into `" A"`, `" B"`, `" C"` -/
theorem splitOn_attrs (parts : List Str) (hne : parts ≠ []) (hp : ∀ p ∈ parts, ∀ c ∈ p, c ≠ ';') :
    splitOn ';' (' ' :: List.intercalate "; ".toList parts) = parts.map (' ' :: ·) := by
  induction parts with
  | nil => exact absurd rfl hne
  | cons p t ih =>
    cases t with
    | nil =>
      have : List.intercalate "; ".toList [p] = p := by simp [List.intercalate]
      rw [this]
      exact splitOn_none ';' (' ' :: p) (by
        intro c hc
        simp only [List.mem_cons] at hc
        rcases hc with rfl | hc
        · decide
        · exact hp p (by simp) c hc)
    | cons q r =>
      rw [intercalate_cons2]
      have : ' ' :: (p ++ ';' :: ' ' :: List.intercalate "; ".toList (q :: r)) =
          (' ' :: p) ++ ';' :: (' ' :: List.intercalate "; ".toList (q :: r)) := by simp
      rw [this, splitOn_append ';' (' ' :: p) _ (by
        intro c hc
        simp only [List.mem_cons] at hc
        rcases hc with rfl | hc
        · decide
        · exact hp p (by simp) c hc)]
      rw [ih (by simp) (fun x hx => hp x (by simp [hx]))]
      rfl

/-- `header.partition(";")` on a dumped header -/
theorem partition_header (pair : Str) (parts : List Str) (hpair : ∀ c ∈ pair, c ≠ ';') :
    partitionAt ';' (List.intercalate "; ".toList (pair :: parts)) =
      (pair, !parts.isEmpty, if parts.isEmpty then [] else ' ' :: List.intercalate "; ".toList parts) := by
  cases parts with
  | nil =>
    have : List.intercalate "; ".toList [pair] = pair := by simp [List.intercalate]
    rw [this, partitionAt_none ';' pair hpair]; rfl
  | cons q r =>
    rw [intercalate_cons2, partitionAt_found ';' pair _ hpair]; rfl

/-! ### one attribute item -/

theorem parseItem_kv (name x key : Str) (hn : ∀ c ∈ name, c ≠ '=')
    (hk : lowerAscii (Py.strip (' ' :: name)) = key) :
    parseItem (' ' :: (name ++ '=' :: x)) = (key, some (Py.strip x)) := by
  have : ' ' :: (name ++ '=' :: x) = (' ' :: name) ++ '=' :: x := by simp
  unfold parseItem
  rw [this, partitionAt_found '=' (' ' :: name) x (by
    intro c hc
    simp only [List.mem_cons] at hc
    rcases hc with rfl | hc
    · decide
    · exact hn c hc)]
  simp [hk]

theorem parseItem_flag (name key : Str) (hn : ∀ c ∈ name, c ≠ '=')
    (hk : lowerAscii (Py.strip (' ' :: name)) = key) :
    parseItem (' ' :: name) = (key, none) := by
  unfold parseItem
  rw [partitionAt_none '=' (' ' :: name) (by
    intro c hc
    simp only [List.mem_cons] at hc
    rcases hc with rfl | hc
    · decide
    · exact hn c hc)]
  simp [hk]

/-! ### the parameter dict of a dumped header -/

def kvParam (k : String) (v : Option Str) : List (Str × Option Str) :=
  match v with | none => [] | some x => [(k.toList, some (Py.strip x))]

def flagParam (k : String) (b : Bool) : List (Str × Option Str) := if b then [(k.toList, none)] else []

/-- what `_from_response_header` reads out of the attributes `dump_cookie` wrote -/
def attrParams (a : Attrs) (ss : Option Str) : List (Str × Option Str) :=
  kvParam "domain" a.domain ++ (kvParam "expires" a.expires ++ (kvParam "max-age" (a.maxAge.map intText)
    ++ (flagParam "secure" (a.secure || a.partitioned) ++ (flagParam "httponly" a.httponly
    ++ (kvParam "path" a.path ++ (kvParam "samesite" ss ++ (flagParam "partitioned" a.partitioned ++ [])))))))

theorem kvPart_params (K k : String) (v : Option Str) (hn : ∀ c ∈ K.toList, c ≠ '=')
    (hk : lowerAscii (Py.strip (' ' :: K.toList)) = k.toList) :
    (kvPart K v).map (fun p => parseItem (' ' :: p)) = kvParam k v := by
  cases v with
  | none => rfl
  | some x => simp [kvPart, kvParam, parseItem_kv K.toList x k.toList hn hk]

theorem flagPart_params (K k : String) (b : Bool) (hn : ∀ c ∈ K.toList, c ≠ '=')
    (hk : lowerAscii (Py.strip (' ' :: K.toList)) = k.toList) :
    (flagPart K b).map (fun p => parseItem (' ' :: p)) = flagParam k b := by
  cases b with
  | false => rfl
  | true => simp [flagPart, flagParam, parseItem_flag K.toList k.toList hn hk]

theorem attrParts_params (a : Attrs) (ss : Option Str) :
    (attrParts a ss).map (fun p => parseItem (' ' :: p)) = attrParams a ss := by
  unfold attrParts attrParams
  simp only [List.map_append, List.append_assoc, List.append_nil]
  rw [kvPart_params "Domain" "domain" _ (by decide) (by decide),
    kvPart_params "Expires" "expires" _ (by decide) (by decide),
    kvPart_params "Max-Age" "max-age" _ (by decide) (by decide),
    flagPart_params "Secure" "secure" _ (by decide) (by decide),
    flagPart_params "HttpOnly" "httponly" _ (by decide) (by decide),
    kvPart_params "Path" "path" _ (by decide) (by decide),
    kvPart_params "SameSite" "samesite" _ (by decide) (by decide),
    flagPart_params "Partitioned" "partitioned" _ (by decide) (by decide)]

/-! ### dict lookups in that parameter list -/

def NoKey (ps : List (Str × Option Str)) (k : String) : Prop := ∀ p ∈ ps, p.1 ≠ k.toList

theorem noKey_nil (k : String) : NoKey [] k := by intro p hp; simp at hp

theorem noKey_kv (K k : String) (v : Option Str) (rest : List (Str × Option Str)) (hne : K.toList ≠ k.toList)
    (hr : NoKey rest k) : NoKey (kvParam K v ++ rest) k := by
  intro p hp
  simp only [List.mem_append] at hp
  rcases hp with hp | hp
  · cases v with
    | none => simp [kvParam] at hp
    | some x => simp only [kvParam, List.mem_singleton] at hp; subst hp; exact hne
  · exact hr p hp

theorem noKey_flag (K k : String) (b : Bool) (rest : List (Str × Option Str)) (hne : K.toList ≠ k.toList)
    (hr : NoKey rest k) : NoKey (flagParam K b ++ rest) k := by
  intro p hp
  simp only [List.mem_append] at hp
  rcases hp with hp | hp
  · cases b with
    | false => simp [flagParam] at hp
    | true => simp only [flagParam, if_true, List.mem_singleton] at hp; subst hp; exact hne
  · exact hr p hp

theorem find_none_of_noKey (ps : List (Str × Option Str)) (k : String) (h : NoKey ps k) :
    ps.reverse.find? (fun p => p.1 == k.toList) = none := by
  apply List.find?_eq_none.mpr
  intro p hp
  have := h p (by simpa using hp)
  simpa using this

theorem paramGet_noKey (ps : List (Str × Option Str)) (k : String) (h : NoKey ps k) : paramGet ps k = none := by
  simp [paramGet, find_none_of_noKey ps k h]

theorem paramGet_skip (A rest : List (Str × Option Str)) (k : String) (h : NoKey A k) :
    paramGet (A ++ rest) k = paramGet rest k := by
  unfold paramGet
  rw [List.reverse_append, List.find?_append]
  cases hf : rest.reverse.find? (fun p => p.1 == k.toList) with
  | some x => simp
  | none => simp [find_none_of_noKey A k h]

theorem paramGet_hit (A rest : List (Str × Option Str)) (k : String) (h : NoKey rest k) :
    paramGet (A ++ rest) k = paramGet A k := by
  unfold paramGet
  rw [List.reverse_append, List.find?_append, find_none_of_noKey rest k h]
  simp

theorem noKey_kv_self (K k : String) (v : Option Str) (hne : K.toList ≠ k.toList) : NoKey (kvParam K v) k := by
  have := noKey_kv K k v [] hne (noKey_nil k)
  simpa using this

theorem noKey_flag_self (K k : String) (b : Bool) (hne : K.toList ≠ k.toList) : NoKey (flagParam K b) k := by
  have := noKey_flag K k b [] hne (noKey_nil k)
  simpa using this

theorem paramGet_kv (k : String) (v : Option Str) : paramGet (kvParam k v) k = v.map (fun x => some (Py.strip x)) := by
  cases v <;> simp [kvParam, paramGet]

theorem paramGet_flag (k : String) (b : Bool) : paramGet (flagParam k b) k = if b then some none else none := by
  cases b <;> simp [flagParam, paramGet]

section lookups
variable (a : Attrs) (ss : Option Str)

local macro "nokey" : tactic =>
  `(tactic| repeat (first
      | exact noKey_nil _
      | (apply noKey_kv _ _ _ _ (by decide))
      | (apply noKey_flag _ _ _ _ (by decide))))

theorem get_domain : paramGet (attrParams a ss) "domain" = a.domain.map (fun x => some (Py.strip x)) := by
  unfold attrParams
  rw [paramGet_hit _ _ _ (by nokey), paramGet_kv]

theorem get_expires : paramGet (attrParams a ss) "expires" = a.expires.map (fun x => some (Py.strip x)) := by
  unfold attrParams
  rw [paramGet_skip _ _ _ (noKey_kv_self _ _ _ (by decide)),
    paramGet_hit _ _ _ (by nokey), paramGet_kv]

theorem get_maxage : paramGet (attrParams a ss) "max-age" =
    (a.maxAge.map intText).map (fun x => some (Py.strip x)) := by
  unfold attrParams
  rw [paramGet_skip _ _ _ (noKey_kv_self _ _ _ (by decide)),
    paramGet_skip _ _ _ (noKey_kv_self _ _ _ (by decide)),
    paramGet_hit _ _ _ (by nokey), paramGet_kv]

theorem get_secure : paramGet (attrParams a ss) "secure" =
    if (a.secure || a.partitioned) then some none else none := by
  unfold attrParams
  rw [paramGet_skip _ _ _ (noKey_kv_self _ _ _ (by decide)),
    paramGet_skip _ _ _ (noKey_kv_self _ _ _ (by decide)),
    paramGet_skip _ _ _ (noKey_kv_self _ _ _ (by decide)),
    paramGet_hit _ _ _ (by nokey), paramGet_flag]

theorem get_httponly : paramGet (attrParams a ss) "httponly" = if a.httponly then some none else none := by
  unfold attrParams
  rw [paramGet_skip _ _ _ (noKey_kv_self _ _ _ (by decide)),
    paramGet_skip _ _ _ (noKey_kv_self _ _ _ (by decide)),
    paramGet_skip _ _ _ (noKey_kv_self _ _ _ (by decide)),
    paramGet_skip _ _ _ (noKey_flag_self _ _ _ (by decide)),
    paramGet_hit _ _ _ (by nokey), paramGet_flag]

theorem get_path : paramGet (attrParams a ss) "path" = a.path.map (fun x => some (Py.strip x)) := by
  unfold attrParams
  rw [paramGet_skip _ _ _ (noKey_kv_self _ _ _ (by decide)),
    paramGet_skip _ _ _ (noKey_kv_self _ _ _ (by decide)),
    paramGet_skip _ _ _ (noKey_kv_self _ _ _ (by decide)),
    paramGet_skip _ _ _ (noKey_flag_self _ _ _ (by decide)),
    paramGet_skip _ _ _ (noKey_flag_self _ _ _ (by decide)),
    paramGet_hit _ _ _ (by nokey), paramGet_kv]

theorem get_samesite : paramGet (attrParams a ss) "samesite" = ss.map (fun x => some (Py.strip x)) := by
  unfold attrParams
  rw [paramGet_skip _ _ _ (noKey_kv_self _ _ _ (by decide)),
    paramGet_skip _ _ _ (noKey_kv_self _ _ _ (by decide)),
    paramGet_skip _ _ _ (noKey_kv_self _ _ _ (by decide)),
    paramGet_skip _ _ _ (noKey_flag_self _ _ _ (by decide)),
    paramGet_skip _ _ _ (noKey_flag_self _ _ _ (by decide)),
    paramGet_skip _ _ _ (noKey_kv_self _ _ _ (by decide)),
    paramGet_hit _ _ _ (by nokey), paramGet_kv]

end lookups

/-! ### `int()` of the Max-Age text `dump_cookie` wrote -/

theorem digit_not_space (c : Char) (h : c.isDigit = true) : Py.isSpace c = false := by
  simp only [Char.isDigit, Bool.and_eq_true, decide_eq_true_eq] at h
  have h1 : ∀ a b : Char, a ≤ b → a.toNat ≤ b.toNat := fun a b hab => hab
  have l := h1 _ _ h.1
  have u := h1 _ _ h.2
  simp at l u
  simp only [Py.isSpace, Bool.or_eq_false_iff, Bool.and_eq_false_iff, decide_eq_false_iff_not,
    beq_eq_false_iff_ne]
  omega

theorem intBody_digits (ds : Str) (b : Bool) (hd : ∀ c ∈ ds, c.isDigit = true) (hne : ds ≠ [] ∨ b = true) :
    intBody ds b = some ds := by
  induction ds generalizing b with
  | nil =>
    rcases hne with h | h
    · exact absurd rfl h
    · simp [intBody, h]
  | cons c t ih =>
    unfold intBody
    rw [if_pos (hd c (by simp)), ih true (fun x hx => hd x (by simp [hx])) (Or.inr rfl)]
    rfl

theorem toDigits_digits (n : Nat) : ∀ c ∈ Nat.toDigits 10 n, c.isDigit = true :=
  fun _ hc => Nat.isDigit_of_mem_toDigits (by decide) (by decide) hc

theorem intText_ofNat (n : Nat) : intText (Int.ofNat n) = Nat.toDigits 10 n := by
  unfold intText
  have : toString (Int.ofNat n) = toString n := by simp [toString, Int.repr]
  rw [this]
  show (Nat.repr n).toList = _
  exact Nat.toList_repr

theorem intText_negSucc (n : Nat) : intText (Int.negSucc n) = '-' :: Nat.toDigits 10 (n + 1) := by
  unfold intText
  have : toString (Int.negSucc n) = "-" ++ toString (n + 1) := by simp [toString, Int.repr]
  rw [this, String.toList_append]
  show "-".toList ++ (Nat.repr (n + 1)).toList = _
  rw [Nat.toList_repr]
  rfl

/-- `asciiDigit` leaves ASCII text alone -/
theorem map_asciiDigit_ascii (s : Str) (h : ∀ c ∈ s, c.toNat < 128) : s.map asciiDigit = s := by
  induction s with
  | nil => rfl
  | cons c t ih =>
    rw [List.map_cons, ih (fun x hx => h x (by simp [hx]))]
    have := h c (by simp)
    simp [asciiDigit, this]

theorem isDigit_ascii {c : Char} (h : c.isDigit = true) : c.toNat < 128 := by
  simp only [Char.isDigit, Bool.and_eq_true, decide_eq_true_eq] at h
  have h1 : ∀ a b : Char, a ≤ b → a.toNat ≤ b.toNat := fun a b hab => hab
  have u := h1 _ _ h.2
  simp at u
  omega

theorem pyIntAscii_digits (ds : Str) (hd : ∀ c ∈ ds, c.isDigit = true) (hne : ds ≠ []) :
    pyIntAscii ds = some (digitsVal ds : Int) := by
  cases ds with
  | nil => exact absurd rfl hne
  | cons c t =>
    have hc := hd c (by simp)
    have h1 : c ≠ '-' := by intro e; subst e; simp [Char.isDigit] at hc
    have h2 : c ≠ '+' := by intro e; subst e; simp [Char.isDigit] at hc
    unfold pyIntAscii
    split
    · rename_i r heq; simp only [List.cons.injEq] at heq; exact absurd heq.1 h1
    · rename_i r heq; simp only [List.cons.injEq] at heq; exact absurd heq.1 h2
    · rw [intBody_digits _ false hd (Or.inl (by simp))]; rfl

theorem pyInt_digits (ds : Str) (hd : ∀ c ∈ ds, c.isDigit = true) (hne : ds ≠ []) :
    pyInt ds = some (digitsVal ds : Int) := by
  unfold pyInt
  rw [map_asciiDigit_ascii ds (fun c hc => isDigit_ascii (hd c hc))]
  exact pyIntAscii_digits ds hd hne

theorem pyInt_intText (i : Int) : pyInt (intText i) = some i := by
  cases i with
  | ofNat n =>
    rw [intText_ofNat, pyInt_digits _ (toDigits_digits n) Nat.toDigits_ne_nil]
    simp [digitsVal]
  | negSucc n =>
    rw [intText_negSucc]
    unfold pyInt
    rw [map_asciiDigit_ascii _ (by
      intro c hc
      rcases List.mem_cons.mp hc with rfl | hc
      · decide
      · exact isDigit_ascii (toDigits_digits (n + 1) c hc))]
    unfold pyIntAscii
    simp only
    rw [intBody_digits _ false (toDigits_digits (n + 1)) (Or.inl Nat.toDigits_ne_nil)]
    simp [digitsVal, Int.negSucc_eq]

theorem intText_ne_nil (i : Int) : intText i ≠ [] := by
  cases i with
  | ofNat n => rw [intText_ofNat]; exact Nat.toDigits_ne_nil
  | negSucc n => rw [intText_negSucc]; simp

theorem intText_strip (i : Int) : Py.strip (intText i) = intText i := by
  have hchars : ∀ c ∈ intText i, Py.isSpace c = false := by
    intro c hc
    cases i with
    | ofNat n => rw [intText_ofNat] at hc; exact digit_not_space c (toDigits_digits n c hc)
    | negSucc n =>
      rw [intText_negSucc] at hc
      simp only [List.mem_cons] at hc
      rcases hc with rfl | hc
      · decide
      · exact digit_not_space c (toDigits_digits (n + 1) c hc)
  exact strip_id _ (fun c hc => hchars c (List.mem_of_mem_head? hc))
    (fun c hc => hchars c (List.mem_of_getLast? hc))

/-! ### `_from_response_header` on a header `dump_cookie` produced -/

/-- the opaque attribute texts are free of `;` and of surrounding white space -/
structure CleanAttrs (a : Attrs) : Prop where
  dom : ∀ x, a.domain = some x → (∀ c ∈ x, c ≠ ';') ∧ Py.strip x = x
  exp : ∀ x, a.expires = some x → (∀ c ∈ x, c ≠ ';') ∧ Py.strip x = x
  path : ∀ x, a.path = some x → (∀ c ∈ x, c ≠ ';') ∧ Py.strip x = x

/-- Python truthiness of an optional string -/
def truthy (o : Option Str) : Option Str :=
  match o with
  | some x => if x.isEmpty then none else some x
  | none => none

/-- the path the jar files a cookie under: the (IRI form of the) Path attribute, else the
directory of the request path -/
def jarPath (lib : Lib) (reqPath : Str) (pathAttr : Option Str) : Str :=
  match (truthy pathAttr).map lib.iri with
  | some p => if p.isEmpty then defaultPath reqPath else p
  | none => defaultPath reqPath

theorem params_lookup (a : Attrs) (ss : Option Str)
    (hp : ∀ p ∈ attrParts a ss, ∀ c ∈ p, c ≠ ';') (k : String) (hk : k.toList ≠ []) :
    paramGet (parseParams (if (attrParts a ss).isEmpty then []
        else ' ' :: List.intercalate "; ".toList (attrParts a ss))) k = paramGet (attrParams a ss) k := by
  by_cases he : (attrParts a ss).isEmpty = true
  · have hnil : attrParts a ss = [] := by simpa using he
    have hp0 : attrParams a ss = [] := by rw [← attrParts_params, hnil]; rfl
    rw [if_pos he, hp0]
    have : parseParams [] = [([], none)] := by decide
    rw [this]
    simp only [paramGet, List.reverse_cons, List.reverse_nil, List.nil_append, List.find?_cons,
      List.find?_nil]
    have : (([] : Str) == k.toList) = false := by
      cases hkl : k.toList with
      | nil => exact absurd hkl hk
      | cons c t => rfl
    simp [this]
  · rw [if_neg he]
    unfold parseParams
    rw [splitOn_attrs _ (by intro h; simp [h] at he) hp, List.map_map]
    have : (parseItem ∘ fun x => ' ' :: x) = fun p => parseItem (' ' :: p) := rfl
    rw [this, attrParts_params]

theorem fromHeader_dump (lib : Lib) (server reqPath k v h : Str) (a : Attrs)
    (hk : ValidKey k) (hka : asciiText k = true) (hc : CleanAttrs a)
    (hd : dumpCookie k v a = .ok h) :
    ∃ hv ss, dumpValue v = .ok hv ∧ canonSameSite a.samesite = .ok ss ∧
      fromResponseHeader lib server reqPath h = .ok {
        key := k, value := hv, decodedKey := k, decodedValue := v,
        expires := a.expires.bind lib.parseDate, maxAge := a.maxAge,
        domain := (truthy a.domain).getD server, originOnly := a.domain.isNone,
        path := jarPath lib reqPath a.path,
        secure := a.secure || a.partitioned, httpOnly := a.httponly, sameSite := ss } := by
  obtain ⟨hv, ss, hdv, hss, rfl⟩ := dumpCookie_ok k v h a hd
  refine ⟨hv, ss, hdv, hss, ?_⟩
  have hcanon := canonSameSite_cases _ _ hss
  rw [key_dance_ascii k hka]
  have hkc : ∀ c ∈ k, isSep c = false := by
    intro c hcm
    have := List.all_eq_true.mp hk.2 c hcm
    simp only [keyChar, Bool.and_eq_true, Bool.not_eq_true'] at this
    exact this.1
  have hk_semi : ∀ c ∈ k, c ≠ ';' := by
    intro c hcm e; subst e; have := hkc _ hcm; simp [isSep] at this
  have hk_eq : ∀ c ∈ k, c ≠ '=' := by
    intro c hcm e; subst e; have := hkc _ hcm; simp [isSep] at this
  have hpair : ∀ c ∈ k ++ '=' :: hv, c ≠ ';' := by
    intro c hcm
    simp only [List.mem_append, List.mem_cons] at hcm
    rcases hcm with hcm | rfl | hcm
    · exact hk_semi c hcm
    · decide
    · exact dumpValue_no_semi v hv hdv c hcm
  have hparts := attrParts_no_semi a ss hcanon (fun x hx => (hc.dom x hx).1) (fun x hx => (hc.exp x hx).1)
    (fun x hx => (hc.path x hx).1)
  have L := fun (key : String) (hkey : key.toList ≠ []) => params_lookup a ss hparts key hkey
  unfold fromResponseHeader
  rw [partition_header _ _ hpair]
  simp only
  rw [partitionAt_found '=' k hv hk_eq, pair_roundtrip_env k v hv hk hka hdv]
  simp only [paramTruthy, L "path" (by decide), L "expires" (by decide), L "max-age" (by decide),
    L "domain" (by decide), L "secure" (by decide), L "httponly" (by decide), L "samesite" (by decide),
    get_domain, get_expires, get_maxage, get_secure, get_httponly, get_path, get_samesite,
    strip_key k hk.2, dumpValue_strip v hv hdv]
  -- Max-Age
  have hne : ∀ i : Int, (intText i).isEmpty = false := by
    intro i; cases hi : intText i with
    | nil => exact absurd hi (intText_ne_nil i)
    | cons _ _ => rfl
  have hfields : ∀ ma : Option Int, a.maxAge = ma → ∀ c1 c2 : JarCookie, c1 = c2 →
      (match (match Option.map (fun x => some (Py.strip x)) (Option.map intText ma) with
          | none => (Except.ok none : Except String (Option Int))
          | some none => Except.ok (some 0)
          | some (some v) => if v.isEmpty = true then Except.ok (some 0) else
              match pyInt v with
              | some i => Except.ok (some i)
              | none => Except.error "ValueError") with
        | Except.error e => (Except.error e : Except String JarCookie)
        | Except.ok ma' => Except.ok { c1 with maxAge := ma' }) = Except.ok { c2 with maxAge := ma } := by
    intro ma _ c1 c2 hcc
    subst hcc
    cases ma with
    | none => rfl
    | some i => simp only [Option.map_some, intText_strip, pyInt_intText, hne i]; rfl
  refine (hfields a.maxAge rfl
    { key := k, value := hv, decodedKey := k, decodedValue := v,
      expires := match Option.map (fun x => some (Py.strip x)) a.expires with
        | some (some v) => lib.parseDate v
        | _ => none,
      maxAge := none,
      domain := (match Option.map (fun x => some (Py.strip x)) a.domain with
          | some (some v) => if List.isEmpty v = true then none else some v
          | _ => none).getD server,
      originOnly := (Option.map (fun x => some (Py.strip x)) a.domain).isNone,
      path := match Option.map lib.iri (match Option.map (fun x => some (Py.strip x)) a.path with
            | some (some v) => if List.isEmpty v = true then none else some v
            | _ => none) with
        | some p => if List.isEmpty p = true then defaultPath reqPath else p
        | none => defaultPath reqPath,
      secure := (if (a.secure || a.partitioned) = true then some none else none : Option (Option Str)).isSome,
      httpOnly := (if a.httponly = true then some none else none : Option (Option Str)).isSome,
      sameSite := (Option.map (fun x => some (Py.strip x)) ss).bind id }
    { key := k, value := hv, decodedKey := k, decodedValue := v, expires := a.expires.bind lib.parseDate,
      maxAge := none, domain := (truthy a.domain).getD server, originOnly := a.domain.isNone,
      path := jarPath lib reqPath a.path, secure := a.secure || a.partitioned, httpOnly := a.httponly,
      sameSite := ss } ?_)
  simp only [JarCookie.mk.injEq, true_and]
  refine ⟨?_, ?_, ?_, ?_, ?_, ?_, ?_⟩
  · cases he : a.expires with
    | none => rfl
    | some x => simp [(hc.exp x he).2]
  · cases hdm : a.domain with
    | none => rfl
    | some x => by_cases hx : x.isEmpty = true <;> simp [truthy, (hc.dom x hdm).2, hx]
  · cases a.domain <;> rfl
  · unfold jarPath truthy
    cases hpm : a.path with
    | none => rfl
    | some x => by_cases hx : x.isEmpty = true <;> simp [(hc.path x hpm).2, hx]
  · cases (a.secure || a.partitioned) <;> rfl
  · cases a.httponly <;> rfl
  · rcases hcanon with h0 | h1 | h2 | h3
    · subst h0; rfl
    · subst h1; decide
    · subst h2; decide
    · subst h3; decide

end Wz.Cookie
