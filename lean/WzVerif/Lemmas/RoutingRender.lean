/-
Routing lemmas, part 12 (C04): a rule's own compiled parts admit the path rendered from the rule's
tokens and value texts (`parse_render_admits`) — the segment-level half of `match_build` for rules
without a path converter: literal text and the values of isolating converters contain no '/', so the
rendered path splits at '/' into exactly the rule's parts, and each part's anchored pattern
decomposes its segment in the one possible way.
-/
import WzVerif.Lemmas.RoutingMap
namespace Wz.Routing

/-- the decoded path a rule renders from value texts (one per variable, in order) -/
def renderToks : List Tok → List Str → Option Str
  | [], [] => some []
  | [], _ :: _ => none
  | .slash :: t, vs => (renderToks t vs).map ('/' :: ·)
  | .lit s :: t, vs => (renderToks t vs).map (s ++ ·)
  | .var _ _ :: t, v :: vs => (renderToks t vs).map (v ++ ·)
  | .var _ _ :: _, [] => none

def noSlash (s : Str) : Prop := '/' ∉ s

/-- the tokens use isolating converters only, literals contain no '/' -/
def IsoToks : List Tok → Prop
  | [] => True
  | .slash :: t => IsoToks t
  | .lit s :: t => noSlash s ∧ IsoToks t
  | .var c _ :: t => c.partIsolating = true ∧ IsoToks t

/-- converters of the variable tokens, in order -/
def tokConvs : List Tok → List Conv
  | [] => []
  | .var c _ :: t => c :: tokConvs t
  | _ :: t => tokConvs t

theorem splitOn_noSlash (s : Str) (h : noSlash s) : splitOn '/' s = [s] := by
  induction s with
  | nil => rfl
  | cons x t ih =>
    have hx : x ≠ '/' := fun hx => h (by simp [hx])
    have ht : noSlash t := fun ht => h (List.mem_cons_of_mem _ ht)
    simp [splitOn, hx, ih ht]

theorem splitOn_append_slash (s rest : Str) (h : noSlash s) :
    splitOn '/' (s ++ '/' :: rest) = s :: splitOn '/' rest := by
  induction s with
  | nil => simp [splitOn]
  | cons x t ih =>
    have hx : x ≠ '/' := fun hx => h (by simp [hx])
    have ht : noSlash t := fun ht => h (List.mem_cons_of_mem _ ht)
    simp [splitOn, hx, ih ht]

theorem stripPrefix_append (pre rest : Str) : stripPrefix? pre (pre ++ rest) = some rest := by
  simp [stripPrefix?]

theorem stripSuffix_append (v post : Str) : stripSuffix? post (v ++ post) = some v := by
  simp [stripSuffix?]

theorem matchDyn_render (pre : Str) (kind : RKind) (post v : Str) (h : kind.accepts v = true) :
    matchDyn pre kind post false (pre ++ v ++ post) = some (v, false) := by
  simp [matchDyn, matchCore, List.append_assoc, stripPrefix_append, stripSuffix_append, h]

/-- pending text of the accumulator: literal prefix, the pending variable's text, literal suffix -/
def pendText (p : PState) (pv : Option Str) : Str := p.pre ++ (pv.getD []) ++ p.post

/-- accumulator invariant: not slash-consuming, the pending value belongs to the pending converter and
is accepted by it, no '/' anywhere, no suffix text without a converter -/
structure PendOK (p : PState) (pv : Option Str) : Prop where
  notFinal : p.final = false
  conv_iff : p.conv.isSome = pv.isSome
  accepts : ∀ c n v, p.conv = some (c, n) → pv = some v → c.kind.accepts v = true
  pre_ns : noSlash p.pre
  post_ns : noSlash p.post
  pv_ns : ∀ v, pv = some v → noSlash v
  post_nil : p.conv = none → p.post = []

theorem noSlash_append {a b : Str} (ha : noSlash a) (hb : noSlash b) : noSlash (a ++ b) := by
  intro h; rcases List.mem_append.1 h with h | h
  · exact ha h
  · exact hb h

theorem pendText_noSlash {p : PState} {pv : Option Str} (h : PendOK p pv) : noSlash (pendText p pv) := by
  refine noSlash_append (noSlash_append h.pre_ns ?_) h.post_ns
  cases pv with
  | none => intro h; cases h
  | some v => exact h.pv_ns v rfl

/-- the part emitted at a boundary consumes exactly the pending text and yields the pending value -/
theorem step_emit {p : PState} {pv : Option Str} (h : PendOK p pv) (rest : List Str) :
    step (p.emit false) (pendText p pv :: rest) = some (pv.toList, rest) := by
  simp only [PState.emit]
  cases hc : p.conv with
  | none =>
    have hpv : pv = none := by
      have := h.conv_iff; rw [hc] at this
      cases pv with
      | none => rfl
      | some v => cases this
    subst hpv
    simp [step_static, pendText, h.post_nil hc]
  | some cn =>
    obtain ⟨c, n⟩ := cn
    have hpv : ∃ v, pv = some v := by
      have := h.conv_iff; rw [hc] at this
      cases pv with
      | none => cases this
      | some v => exact ⟨v, rfl⟩
    obtain ⟨v, rfl⟩ := hpv
    have hacc := h.accepts c n v hc rfl
    simp only [step, h.notFinal, Bool.false_eq_true, if_false, pendText, Option.getD_some,
      matchDyn_render p.pre c.kind p.post v hacc, Bool.false_and, Option.toList_some]

/-- **the rule's own parts admit what the rule renders** (isolating converters) -/
theorem parse_render_admits : ∀ (toks : List Tok) (p : PState) (pv : Option Str) (vs : List Str)
    {parts convs text}, PendOK p pv → IsoToks toks →
    parseToks toks p = some (parts, convs) → renderToks toks vs = some text →
    (∀ v ∈ vs, noSlash v) → AllAccept ((tokConvs toks).map Conv.kind) vs →
    walkVia .direct parts (splitOn '/' (pendText p pv ++ text)) = some (pv.toList ++ vs) := by
  intro toks
  induction toks with
  | nil =>
    intro p pv vs parts convs text hp _ hparse hrender _ _
    cases vs with
    | cons v vs => simp [renderToks] at hrender
    | nil =>
      simp only [renderToks, Option.some.injEq] at hrender
      subst hrender
      simp only [parseToks, hp.notFinal, Bool.false_and, Bool.false_eq_true, if_false, Option.some.injEq, Prod.mk.injEq] at hparse
      obtain ⟨rfl, _⟩ := hparse
      rw [List.append_nil, splitOn_noSlash _ (pendText_noSlash hp)]
      have hw : walkVia .direct [] [] = some [] := by simp [walkVia]
      have := walkVia_cons_of_step (via := .direct) (step_emit hp []) hw
      simpa using this
  | cons t toks ih =>
    intro p pv vs parts convs text hp hiso hparse hrender hns hacc
    cases t with
    | lit s =>
      simp only [IsoToks] at hiso
      simp only [renderToks, Option.map_eq_some_iff] at hrender
      obtain ⟨text', hr', rfl⟩ := hrender
      simp only [parseToks] at hparse
      split at hparse
      · rename_i hc
        have hpv : pv = none := by
          have := hp.conv_iff; rw [hc] at this
          cases pv with
          | none => rfl
          | some v => cases this
        have hp' : PendOK { p with pre := p.pre ++ s, staticWeights := p.staticWeights ++ [((p.staticWeights.length : Int), -(s.length : Int))] } pv :=
          ⟨hp.notFinal, hp.conv_iff, hp.accepts, noSlash_append hp.pre_ns hiso.1, hp.post_ns, hp.pv_ns, hp.post_nil⟩
        have := ih _ pv vs hp' hiso.2 hparse hr' hns (by simpa [tokConvs] using hacc)
        subst hpv
        simpa [pendText, hp.post_nil hc, List.append_assoc] using this
      · rename_i cn hc
        have hp' : PendOK { p with post := p.post ++ s, staticWeights := p.staticWeights ++ [((p.staticWeights.length : Int), -(s.length : Int))] } pv :=
          ⟨hp.notFinal, hp.conv_iff, hp.accepts, hp.pre_ns, noSlash_append hp.post_ns hiso.1, hp.pv_ns,
            fun h => by rw [hc] at h; cases h⟩
        have := ih _ pv vs hp' hiso.2 hparse hr' hns (by simpa [tokConvs] using hacc)
        simpa [pendText, List.append_assoc] using this
    | var c n =>
      simp only [IsoToks] at hiso
      cases vs with
      | nil => simp [renderToks] at hrender
      | cons v vs' =>
        simp only [renderToks, Option.map_eq_some_iff] at hrender
        obtain ⟨text', hr', rfl⟩ := hrender
        simp only [parseToks] at hparse
        split at hparse
        · cases hparse
        · rename_i hc
          have hpv : pv = none := by
            have := hp.conv_iff; rw [hc] at this
            cases pv with
            | none => rfl
            | some v => cases this
          subst hpv
          simp only [tokConvs, List.map_cons, AllAccept] at hacc
          have hp' : PendOK { p with conv := some (c, n), final := p.final || !c.partIsolating,
                                     argWeights := p.argWeights ++ [(c.weight : Int)] } (some v) := by
            refine ⟨by simp [hp.notFinal, hiso.1], rfl, ?_, hp.pre_ns, hp.post_ns, ?_, ?_⟩
            · intro c' n' v' h1 h2
              cases h1; cases h2; exact hacc.1
            · intro v' h
              cases h; exact hns v (by simp)
            · intro h; cases h
          have := ih _ (some v) vs' hp' hiso.2 hparse hr' (fun x hx => hns x (List.mem_cons_of_mem _ hx)) hacc.2
          simpa [pendText, hp.post_nil hc, List.append_assoc] using this
    | slash =>
      simp only [IsoToks] at hiso
      simp only [renderToks, Option.map_eq_some_iff] at hrender
      obtain ⟨text', hr', rfl⟩ := hrender
      simp only [parseToks, hp.notFinal, Bool.false_eq_true, if_false] at hparse
      cases hrec : parseToks toks {} with
      | none => simp [hrec] at hparse
      | some pc =>
        obtain ⟨parts', convs'⟩ := pc
        simp only [hrec, Option.some.injEq, Prod.mk.injEq] at hparse
        obtain ⟨rfl, _⟩ := hparse
        have hp0 : PendOK {} none := by
          refine ⟨rfl, rfl, ?_, ?_, ?_, ?_, ?_⟩
          · intro _ _ _ h; cases h
          · simp [noSlash]
          · simp [noSlash]
          · intro _ h; cases h
          · intro _; rfl
        have hrest := ih {} none vs hp0 hiso hrec hr' hns (by simpa [tokConvs] using hacc)
        simp only [pendText, List.nil_append, Option.getD_none, List.append_nil, Option.toList_none] at hrest
        rw [splitOn_append_slash _ _ (pendText_noSlash hp)]
        exact walkVia_cons_of_step (step_emit hp _) hrest

end Wz.Routing
