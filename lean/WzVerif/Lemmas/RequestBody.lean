import WzVerif.Model.RequestBody
import WzVerif.Lemmas.RequestAttrs
import WzVerif.Lemmas.MultipartSafe
set_option linter.unusedSimpArgs false
namespace Wz.Req
open Wz Wz.Http

/-- every exception `x` can raise satisfies `P` -/
def RaisesOnly {α : Type} (P : String → Prop) (x : Except String α) : Prop := ∀ e, x = .error e → P e

/-- the exception is one of werkzeug's HTTP exceptions (live subclass table) -/
abbrev Http (e : String) : Prop := isHttpExc e = true

theorem raisesOnly_ok {α : Type} {P : String → Prop} (a : α) : RaisesOnly P (.ok a : Except String α) := by
  intro e h; cases h

theorem raisesOnly_error {α : Type} {P : String → Prop} {e : String} (h : P e) :
    RaisesOnly P (.error e : Except String α) := by
  intro e' h'; cases h'; exact h

theorem raisesOnly_bind {α β : Type} {P : String → Prop} {x : Except String α} {f : α → Except String β}
    (hx : RaisesOnly P x) (hf : ∀ a, RaisesOnly P (f a)) : RaisesOnly P (x >>= f) := by
  cases x with
  | error e => intro e' h; cases h; exact hx e rfl
  | ok a => exact hf a

theorem raisesOnly_map {α β : Type} {P : String → Prop} {x : Except String α} (f : α → β)
    (hx : RaisesOnly P x) : RaisesOnly P (x.map f) := by
  cases x with
  | error e => intro e' h; cases h; exact hx e rfl
  | ok a => exact raisesOnly_ok _

theorem raisesOnly_of_safe {α : Type} {P : String → Prop} {x : Except String α} (h : Safe x) : RaisesOnly P x := by
  obtain ⟨a, rfl⟩ := h
  exact raisesOnly_ok a

theorem raisesOnly_mono {α : Type} {P Q : String → Prop} {x : Except String α} (h : RaisesOnly P x)
    (hpq : ∀ e, P e → Q e) : RaisesOnly Q x := fun e he => hpq e (h e he)

/-! ### the exception vocabulary (live subclass table) -/

theorem parseCaught_eq : Gen.RequestGlue.parseCaught = ["ValueError"] := by decide
theorem jsonCaught_eq : Gen.RequestGlue.jsonCaught = ["ValueError"] := by decide

theorem caught_of_valueError (e : String) (h : isValueError e = true) : caughtBy ["ValueError"] e = true := by
  simp [caughtBy, h]

theorem http_retl : Http "RequestEntityTooLarge" := by decide
theorem http_disc : Http "ClientDisconnected" := by decide
theorem http_badRequest : Http "BadRequest" := by decide
theorem http_unsupported : Http "UnsupportedMediaType" := by decide
theorem valueError_unicodeDecode : isValueError "UnicodeDecodeError" = true := by decide
theorem valueError_unicodeEncode : isValueError "UnicodeEncodeError" = true := by decide
theorem valueError_self : isValueError "ValueError" = true := by decide

/-- `try … except ValueError` leaves only what is not a ValueError -/
theorem tryExcept_raisesOnly {α : Type} {P : String → Prop} (body : Except String α) (dflt : α)
    (h : RaisesOnly (fun e => isValueError e = true ∨ P e) body) :
    RaisesOnly P (tryExcept ["ValueError"] body dflt) := by
  cases body with
  | ok a => exact raisesOnly_ok a
  | error e =>
    unfold tryExcept
    rcases h e rfl with hv | hp
    · simp only [caught_of_valueError e hv, if_true]; exact raisesOnly_ok _
    · by_cases hc : caughtBy ["ValueError"] e = true
      · simp only [hc, if_true]; exact raisesOnly_ok _
      · simp only [hc, if_false]; exact raisesOnly_error hp

/-! ### the urlencoded reader (C10's model, read-only) raises nothing but 413 -/

theorem boundedLoop_error (fuel remaining : Nat) (sched : List Nat) (body held : Bytes) (e : String)
    (h : (Wz.Urlencode.boundedLoop fuel remaining sched body held).1 = .error e) : e = "RequestEntityTooLarge" := by
  induction fuel generalizing remaining sched body held with
  | zero => simp [Wz.Urlencode.boundedLoop] at h; exact h.symm
  | succ n ih =>
    unfold Wz.Urlencode.boundedLoop at h
    split at h
    · simp at h; exact h.symm
    · simp only at h
      split at h
      · simp at h
      · exact ih _ _ _ _ h

theorem urlencodedRead_error (m cl : Option Nat) (sched : List Nat) (body : Bytes) (e : String)
    (h : (Wz.Urlencode.urlencodedRead m cl sched body).1 = .error e) : e = "RequestEntityTooLarge" := by
  unfold Wz.Urlencode.urlencodedRead at h
  cases m with
  | none => simp at h
  | some m =>
    simp only at h
    split at h
    · simp at h; exact h.symm
    · exact boundedLoop_error _ _ _ _ _ e h

/-! ### the dispatch (hypotheses) -/

/-- the hypothesis on the multipart parser (C01/C02/C10): nothing but ValueError (and subclasses)
or an HTTP exception (413, client disconnect) leaves `MultiPartParser.parse` -/
def MultipartRaisesOnly (bx : BodyExt) : Prop :=
  ∀ b cfg w, RaisesOnly (fun e => isValueError e = true ∨ Http e) (bx.mp b cfg w)

/-- the same with a larger set `P ⊇ Http` of exceptions that may pass (used to carry a model-only
error value of the multipart model through the glue) -/
def MultipartRaisesOnlyP (P : String → Prop) (bx : BodyExt) : Prop :=
  ∀ b cfg w, RaisesOnly (fun e => isValueError e = true ∨ P e) (bx.mp b cfg w)

/-- the hypothesis on `json.loads`: ValueError (JSONDecodeError, UnicodeDecodeError) only -/
def JsonRaisesOnly (bx : BodyExt) : Prop := ∀ bs, RaisesOnly (fun e => isValueError e = true) (bx.jl bs)

theorem parseUrlencodedBody_raises (P : String → Prop) (hP : ∀ e, Http e → P e) (cfg : BodyCfg) (cl : Option Nat) (w : Wire) :
    RaisesOnly (fun e => isValueError e = true ∨ P e) (parseUrlencodedBody cfg cl w) := by
  intro e h
  unfold parseUrlencodedBody at h
  split at h
  · next e' he =>
    cases h
    right
    rw [urlencodedRead_error _ _ _ _ _ he]; exact hP _ http_retl
  · split at h
    · cases h; right; exact hP _ http_disc
    · split at h
      · cases h; left; exact valueError_unicodeDecode
      · cases h

/-! ### the dispatch -/

theorem asciiEnc_raises (P : String → Prop) (s : Str) : RaisesOnly (fun e => isValueError e = true ∨ P e) (asciiEnc s) := by
  intro e h
  unfold asciiEnc at h
  split at h
  · cases h
  · cases h; left; exact valueError_unicodeEncode

theorem parseMultipart_raises (P : String → Prop) (hP : ∀ e, Http e → P e) (bx : BodyExt) (hmp : MultipartRaisesOnlyP P bx) (cfg : BodyCfg) (options : Dict Str) (w : Wire) :
    RaisesOnly (fun e => isValueError e = true ∨ P e) (parseMultipart bx cfg options w) := by
  unfold parseMultipart
  refine raisesOnly_bind (asciiEnc_raises P _) (fun b => ?_)
  
  split
  · exact raisesOnly_error (Or.inl valueError_self)
  · exact hmp b cfg w

theorem formDataParse_raises (P : String → Prop) (hP : ∀ e, Http e → P e) (bx : BodyExt) (hmp : MultipartRaisesOnlyP P bx) (cfg : BodyCfg) (mt : Str) (cl : Option Nat)
    (options : Dict Str) (w : Wire) : RaisesOnly P (formDataParse bx cfg mt cl options w) := by
  unfold formDataParse
  rw [parseCaught_eq]
  split
  · exact tryExcept_raisesOnly _ _ (parseMultipart_raises P hP bx hmp cfg options w)
  · split
    · exact tryExcept_raisesOnly _ _ (parseUrlencodedBody_raises P hP cfg cl w)
    · exact raisesOnly_ok _

theorem streamOutcome_raises (P : String → Prop) (hP : ∀ e, Http e → P e) (cfg : BodyCfg) (e : Env) : RaisesOnly P (streamOutcome cfg e) := by
  unfold streamOutcome
  refine raisesOnly_bind (raisesOnly_of_safe (getContentLength_safe _ _)) (fun cl => ?_)
  
  split
  · split
    · exact raisesOnly_error (hP _ http_retl)
    · exact raisesOnly_ok _
  · exact raisesOnly_ok _

theorem mimetype_safe (e : Env) : Safe (mimetype e) := safe_map _ (parseOptionsHeader_safe _)
theorem mimetypeParams_safe (e : Env) : Safe (mimetypeParams e) := safe_map _ (parseOptionsHeader_safe _)
theorem isJson_safe (e : Env) : Safe (isJson e) := safe_map _ (mimetype_safe e)

theorem loadFormData_raises (P : String → Prop) (hP : ∀ e, Http e → P e) (bx : BodyExt) (hmp : MultipartRaisesOnlyP P bx) (cfg : BodyCfg) (e : Env) (w : Wire) :
    RaisesOnly P (loadFormData bx cfg e w) := by
  unfold loadFormData
  refine raisesOnly_bind (streamOutcome_raises P hP cfg e) (fun _ => ?_)
  
  split
  · refine raisesOnly_bind (raisesOnly_of_safe (mimetype_safe e)) (fun mt => ?_)
    
    refine raisesOnly_bind (raisesOnly_of_safe (getContentLength_safe _ _)) (fun cl => ?_)
    
    refine raisesOnly_bind (raisesOnly_of_safe (mimetypeParams_safe e)) (fun ps => ?_)
    
    exact formDataParse_raises P hP bx hmp cfg mt _ ps w
  · exact raisesOnly_ok _

theorem readAll_raises (P : String → Prop) (hP : ∀ e, Http e → P e) (w : Wire) : RaisesOnly P (readAll w) := by
  unfold readAll
  split
  · exact raisesOnly_error (hP _ http_disc)
  · exact raisesOnly_ok _

theorem getData_raises (P : String → Prop) (hP : ∀ e, Http e → P e) (cfg : BodyCfg) (e : Env) (w : Wire) : RaisesOnly P (getData cfg e w) := by
  unfold getData
  exact raisesOnly_bind (streamOutcome_raises P hP cfg e) (fun _ => readAll_raises P hP w)

/-- every body attribute: a value or an HTTP exception -/
theorem bodyOutcome_raisesP (P : String → Prop) (hP : ∀ e, Http e → P e) (bx : BodyExt) (hmp : MultipartRaisesOnlyP P bx) (hjl : JsonRaisesOnly bx) (cfg : BodyCfg)
    (e : Env) (method : Str) (w : Wire) (a : BodyAttr) (hq : Latin1 e.queryString = true) :
    RaisesOnly P (bodyOutcome bx cfg e method w a) := by
  cases a with
  | form => exact raisesOnly_map _ (loadFormData_raises P hP bx hmp cfg e w)
  | files => exact raisesOnly_map _ (loadFormData_raises P hP bx hmp cfg e w)
  | values =>
    simp only [bodyOutcome]
    refine raisesOnly_bind (raisesOnly_of_safe (args_safe e hq)) (fun _ => ?_)
    
    split
    · refine raisesOnly_bind (loadFormData_raises P hP bx hmp cfg e w) (fun _ => ?_)
      exact raisesOnly_ok _
    · exact raisesOnly_ok _
  | data =>
    simp only [bodyOutcome]
    refine raisesOnly_bind (loadFormData_raises P hP bx hmp cfg e w) (fun _ => ?_)
    
    split
    · exact raisesOnly_error (hP _ http_disc)
    · exact raisesOnly_ok _
  | getData => exact raisesOnly_map _ (getData_raises P hP cfg e w)
  | json =>
    simp only [bodyOutcome]
    refine raisesOnly_bind (raisesOnly_of_safe (isJson_safe e)) (fun j => ?_)
    
    cases j with
    | false => exact raisesOnly_error (hP _ http_unsupported)
    | true =>
      simp only [Bool.not_true, Bool.false_eq_true, if_false]
      refine raisesOnly_bind (getData_raises P hP cfg e w) (fun data => ?_)
      
      rw [jsonCaught_eq]
      cases hj : bx.jl data with
      | ok u => exact raisesOnly_ok _
      | error x =>
        have hv := hjl data x hj
        simp only [caught_of_valueError x hv, if_true]
        exact raisesOnly_error (hP _ http_badRequest)
  | getJsonSilent =>
    simp only [bodyOutcome]
    refine raisesOnly_bind (raisesOnly_of_safe (isJson_safe e)) (fun j => ?_)
    
    cases j with
    | false => exact raisesOnly_ok _
    | true =>
      simp only [Bool.not_true, Bool.false_eq_true, if_false]
      refine raisesOnly_bind (getData_raises P hP cfg e w) (fun data => ?_)
      
      rw [jsonCaught_eq]
      exact tryExcept_raisesOnly _ _ (raisesOnly_mono (hjl data) (fun e h => Or.inl h))
  | stream => exact streamOutcome_raises P hP cfg e
  | wantFormDataParsed => exact raisesOnly_ok _


/-- every body attribute: a value or an HTTP exception -/
theorem bodyOutcome_raises (bx : BodyExt) (hmp : MultipartRaisesOnly bx) (hjl : JsonRaisesOnly bx) (cfg : BodyCfg)
    (e : Env) (method : Str) (w : Wire) (a : BodyAttr) (hq : Latin1 e.queryString = true) :
    RaisesOnly Http (bodyOutcome bx cfg e method w a) :=
  bodyOutcome_raisesP Http (fun _ h => h) bx hmp hjl cfg e method w a hq

/-! ### the multipart branch instantiated with C01/C02/C10's model -/

/-- the exception classes of the multipart model: ValueError (missing / malformed part headers, data
after the end), UnicodeDecodeError (part headers), 413 (limits) - and the model-only value `UNMODELLED`
(an RFC 2231 `name*=` part parameter, which C01's option-header model does not interpret) -/
def mpAllowed : List String := ["ValueError", "UnicodeDecodeError", "RequestEntityTooLarge", "UNMODELLED"]

/-- what has to hold of C01/C02/C10's `formParse` / `formLoop` started from a fresh decoder -/
def MultipartModelRaises : Prop :=
  (∀ bnd mm mp bs sched body e, Wz.Multipart.formParse bnd mm mp bs sched body = .error e → e ∈ mpAllowed) ∧
  (∀ bnd mm mp cs e, Wz.Multipart.formLoop mm (Wz.Multipart.mkDecoder bnd mm mp) {} cs = .error e → e ∈ mpAllowed)

/-- an HTTP exception, or the model-only value -/
def HttpOrUnmodelled (e : String) : Prop := Http e ∨ e = "UNMODELLED"

theorem mpAllowed_ok (e : String) (h : e ∈ mpAllowed) : isValueError e = true ∨ HttpOrUnmodelled e := by
  simp only [mpAllowed, List.mem_cons, List.mem_nil_iff, or_false] at h
  rcases h with rfl | rfl | rfl | rfl
  · left; decide
  · left; decide
  · right; left; decide
  · right; right; rfl

theorem mpModel_raises (hm : MultipartModelRaises) (jl : Bytes → Except String Unit) :
    MultipartRaisesOnlyP HttpOrUnmodelled ⟨mpModel, jl⟩ := by
  intro b cfg w e he
  simp only at he
  unfold mpModel at he
  simp only at he
  split at he
  · split at he
    · next e' hl =>
      cases he
      exact mpAllowed_ok _ (hm.2 _ _ _ _ _ hl)
    · cases he; right; left; exact http_disc
  · split at he
    · next e' hl =>
      cases he
      exact mpAllowed_ok _ (hm.1 _ _ _ _ _ _ _ hl)
    · cases he

theorem raisable_allowed {e : String} (h : Wz.Multipart.Raisable e) : e ∈ mpAllowed := by
  rcases h with rfl | rfl | rfl | rfl <;> simp [mpAllowed]

/-- the exception set of C01/C02/C10's multipart model, proved in that slice
(Lemmas/MultipartSafe.lean: `formParse_raises`, `formLoop_raises` from a fresh decoder) -/
theorem multipartModelRaises : MultipartModelRaises := by
  constructor
  · intro bnd mm mp bs sched body e h
    exact raisable_allowed (Wz.Multipart.formParse_raises h)
  · intro bnd mm mp cs e h
    exact raisable_allowed (Wz.Multipart.formLoop_raises cs _ _ e (Wz.Multipart.ds_mkDecoder bnd mm mp)
      (by intro ho; simp [Wz.Multipart.openS, Wz.Multipart.mkDecoder] at ho) h)

end Wz.Req
