/-
Chunk independence of the decoder on whole bodies (C01 P1): preamble, raw parts with arbitrary header
blocks, epilogue; CRLF / bare-LF / bare-CR line breaks.
Core Lean only.
-/
import WzVerif.Lemmas.MultipartRaw
import WzVerif.Lemmas.SearchPos
import WzVerif.Lemmas.FormLimits
namespace Wz.Multipart
open Wz

variable {nl : Nl} {ep pr : Bytes} {lead : Bool}

/-! ### the fuel of `drain` is irrelevant once it suffices -/

theorem drain_succ (fuel : Nat) (d : Decoder) (acc : List Event) :
    drain (fuel + 1) d acc =
      match nextEvent d with
      | .error e => { events := acc.reverse, err := some e, dec := d }
      | .ok (.needData, d') => { events := acc.reverse, dec := d' }
      | .ok (.epilogue x, d') => { events := (Event.epilogue x :: acc).reverse, dec := d' }
      | .ok (ev, d') => drain fuel d' (ev :: acc) := by
  rfl

theorem drain_fuel_mono (fuel : Nat) : ∀ (d : Decoder) (acc : List Event),
    (drain fuel d acc).err ≠ some "FUEL" → drain (fuel + 1) d acc = drain fuel d acc := by
  induction fuel with
  | zero => intro d acc h; simp [drain] at h
  | succ fuel ih =>
    intro d acc h
    rw [drain_succ fuel] at h
    rw [drain_succ (fuel + 1), drain_succ fuel]
    cases hn : nextEvent d with
    | error e => rfl
    | ok v =>
      rcases v with ⟨ev, d'⟩
      rw [hn] at h
      cases ev with
      | needData => rfl
      | epilogue x => rfl
      | preamble x => exact ih d' _ h
      | field n hd => exact ih d' _ h
      | file n f hd => exact ih d' _ h
      | data x m => exact ih d' _ h

theorem drain_fuel_add (fuel k : Nat) (d : Decoder) (acc : List Event)
    (h : (drain fuel d acc).err ≠ some "FUEL") : drain (fuel + k) d acc = drain fuel d acc := by
  induction k with
  | zero => rfl
  | succ k ih =>
    rw [← Nat.add_assoc, drain_fuel_mono (fuel + k) d acc (by rw [ih]; exact h), ih]

/-- `Drains d acc r`: with enough fuel, draining `d` gives `r` -/
def Drains (d : Decoder) (acc : List Event) (r : Run) : Prop :=
  ∃ fuel, drain fuel d acc = r ∧ r.err ≠ some "FUEL"

theorem Drains.unique {d : Decoder} {acc : List Event} {r1 r2 : Run}
    (h1 : Drains d acc r1) (h2 : Drains d acc r2) : r1 = r2 := by
  rcases h1 with ⟨f1, e1, n1⟩
  rcases h2 with ⟨f2, e2, n2⟩
  have a := drain_fuel_add f1 f2 d acc (by rw [e1]; exact n1)
  have b := drain_fuel_add f2 f1 d acc (by rw [e2]; exact n2)
  rw [Nat.add_comm] at b
  rw [← e1, ← e2, ← a, b]

theorem Drains.of_fuel {d : Decoder} {acc : List Event} {r : Run} (h : Drains d acc r) (fuel : Nat)
    (hf : (drain fuel d acc).err ≠ some "FUEL") : drain fuel d acc = r :=
  Drains.unique ⟨fuel, rfl, hf⟩ h

theorem Drains.stop {d d' : Decoder} (acc : List Event) (h : nextEvent d = .ok (.needData, d')) :
    Drains d acc { events := acc.reverse, dec := d' } :=
  ⟨1, by simp [drain, h], by simp⟩

theorem Drains.step_data {d d' : Decoder} {x : Bytes} {m : Bool} {acc : List Event} {r : Run}
    (h : nextEvent d = .ok (.data x m, d')) (hr : Drains d' (.data x m :: acc) r) : Drains d acc r := by
  rcases hr with ⟨fuel, e, n⟩
  exact ⟨fuel + 1, by rw [drain_data _ _ h, e], n⟩

theorem Drains.step_head {d d' : Decoder} {q : Part} {acc : List Event} {r : Run}
    (h : nextEvent d = .ok (partHeadEvent q, d')) (hr : Drains d' (partHeadEvent q :: acc) r) :
    Drains d acc r := by
  rcases hr with ⟨fuel, e, n⟩
  exact ⟨fuel + 1, by rw [drain_head _ _ h, e], n⟩

/-! ### enough fuel: every event consumes at least one buffered byte -/

theorem dataCut_facts (bnd buf : Bytes) :
    (dataCut bnd buf).1 ≤ (dataCut bnd buf).2.1 ∧ (dataCut bnd buf).2.1 ≤ buf.length ∧
      ((dataCut bnd buf).2.2.isSome = true → 0 < (dataCut bnd buf).2.1) := by
  have hle := lastNewline_le buf
  cases hc : containsSub (45 :: 45 :: bnd) buf with
  | false =>
    by_cases hfar : buf.length - lastNewline buf > (45 :: 45 :: bnd).length + 1
    · have : dataCut bnd buf = (buf.length, buf.length, none) := by simp [dataCut, hc]; intro h; simp at hfar; omega
      rw [this]; simp
    · have : dataCut bnd buf = (lastNewline buf, lastNewline buf, none) := by
        simp [dataCut, hc]; intro h; simp at hfar; omega
      rw [this]; simp; exact hle
  | true =>
    cases hs : searchDelim bnd false buf with
    | none =>
      have : dataCut bnd buf = (lastNewline buf, lastNewline buf, none) := by simp [dataCut, hc, hs]
      rw [this]; simp; exact hle
    | some v =>
      rcases v with ⟨s, e, f⟩
      have hb := searchDelim_bounds hs
      rw [dataCut_of_search hs]
      simp; omega

theorem dataStep_consumes {bnd buf p buf' : Bytes} {start : Bool} {nx : Option Bool}
    (h : dataStep bnd start buf = .ok (p, buf', false, nx))
    (hev : start = true ∨ p ≠ [] ∨ nx.isSome = true) : buf'.length < buf.length := by
  have hf := dataCut_facts bnd buf
  cases start with
  | false =>
    rw [dataStep_false] at h
    simp only [Except.ok.injEq, Prod.mk.injEq, true_and] at h
    rcases h with ⟨hp, hb, hn⟩
    subst hb
    have hpos : 0 < (dataCut bnd buf).2.1 := by
      rcases hev with h1 | h1 | h1
      · simp at h1
      · have : (dataCut bnd buf).1 ≠ 0 := by
          intro h0; rw [h0] at hp; simp at hp; exact h1 hp
        omega
      · rw [← hn] at h1; exact hf.2.2 h1
    simp [List.length_drop]; omega
  | true =>
    by_cases hl : 0 < lbLen buf
    · rw [dataStep_true hl] at h
      split at h
      · simp at h
      · rename_i hd
        simp only [Except.ok.injEq, Prod.mk.injEq, true_and] at h
        rcases h with ⟨_, hb, _⟩
        subst hb
        simp [List.length_drop]; omega
    · have : lbLen buf = 0 := by omega
      simp [dataStep, parseData, this] at h

theorem matchDelimAt_bounds_any {bnd s : Bytes} {o : Bool} {n : Nat} {f : Bool}
    (h : matchDelimAt bnd o s = some (n, f)) : 0 < n ∧ n ≤ s.length := by
  rcases matchDelimAt_iff'.1 h with ⟨r, m, _, hd, hm, rfl⟩
  have := matchTail_le hm
  have hlen := congrArg List.length hd
  simp [delim] at hlen
  have := lbLen_le_length s
  omega

theorem searchDelim_bounds_any {bnd b : Bytes} {o : Bool} {s e : Nat} {f : Bool}
    (h : searchDelim bnd o b = some (s, e, f)) : s < e ∧ e ≤ b.length := by
  induction b generalizing s e with
  | nil => simp [searchDelim] at h
  | cons a t ih =>
    cases hm : matchDelimAt bnd o (a :: t) with
    | some v =>
      rcases v with ⟨n, f'⟩
      rw [searchDelim_cons_some hm] at h
      simp at h
      rcases h with ⟨rfl, rfl, rfl⟩
      exact matchDelimAt_bounds_any hm
    | none =>
      rw [searchDelim_cons_none hm] at h
      rcases shift_eq_some h with ⟨s2, e2, ht, rfl, rfl⟩
      have := ih ht
      simp; omega

theorem shift2_eq_some {k : Nat} {r : Option (Nat × Nat)} {s e : Nat} (h : shift2 k r = some (s, e)) :
    ∃ s2 e2, r = some (s2, e2) ∧ s = s2 + k ∧ e = e2 + k := by
  cases r with
  | none => simp [shift2] at h
  | some v => rcases v with ⟨s2, e2⟩; simp [shift2] at h; exact ⟨s2, e2, rfl, h.1.symm, h.2.symm⟩

theorem searchBlank_bounds {b : Bytes} {s e : Nat} (h : searchBlank b = some (s, e)) :
    s + 2 ≤ e ∧ e ≤ b.length := by
  induction b generalizing s e with
  | nil => simp [searchBlank] at h
  | cons a t ih =>
    by_cases hb : 0 < blankLen (a :: t)
    · simp [searchBlank, hb] at h
      rcases h with ⟨rfl, rfl⟩
      have h1 := blankLen_le_length (a :: t)
      have h2 : 2 ≤ blankLen (a :: t) := by
        unfold blankLen at hb ⊢
        split; · omega
        split; · omega
        split; · omega
        rename_i h1 h2 h3; simp [h1, h2, h3] at hb
      omega
    · have h0 : blankLen (a :: t) = 0 := by omega
      rw [searchBlank_cons_zero h0] at h
      rcases shift2_eq_some h with ⟨s2, e2, ht, rfl, rfl⟩
      have := ih ht
      simp; omega

theorem searchBlankFrom_bounds {pos : Nat} {b : Bytes} {s e : Nat}
    (h : searchBlankFrom pos b = some (s, e)) : s + 2 ≤ e ∧ e ≤ b.length := by
  rw [searchBlankFrom_eq_shift] at h
  rcases shift2_eq_some h with ⟨s2, e2, ht, rfl, rfl⟩
  have := searchBlank_bounds ht
  simp [List.length_drop] at this
  omega

/-- every event other than NEED_DATA / Epilogue consumes at least one buffered byte -/
theorem nextEvent_consumes {d d' : Decoder} {ev : Event} (h : nextEvent d = .ok (ev, d'))
    (hne : ev ≠ .needData) (hep : ∀ x, ev ≠ .epilogue x) : d'.buffer.length < d.buffer.length := by
  have hs := nextEvent_ok h
  unfold step at hs
  cases hst : d.state with
  | preamble =>
    simp only [hst] at hs
    cases hq : searchDelimFrom d.boundary true d.searchPos d.buffer with
    | none => rw [hq] at hs; simp at hs; exact absurd hs.1.symm hne
    | some v =>
      rcases v with ⟨s, e, f⟩
      rw [hq] at hs
      simp at hs
      rcases hs with ⟨_, rfl⟩
      rw [searchDelimFrom_eq_shift] at hq
      rcases shift_eq_some hq with ⟨s2, e2, hq2, rfl, rfl⟩
      have hb := searchDelim_bounds_any hq2
      simp [List.length_drop] at hb ⊢
      omega
  | part =>
    simp only [hst] at hs
    cases hq : searchBlankFrom d.searchPos d.buffer with
    | none => rw [hq] at hs; simp at hs; exact absurd hs.1.symm hne
    | some v =>
      rcases v with ⟨s, e⟩
      rw [hq] at hs
      simp only at hs
      have hbb := searchBlankFrom_bounds hq
      cases hh : parseHeaders (d.buffer.take s) with
      | error err => rw [hh] at hs; simp at hs
      | ok headers =>
        rw [hh] at hs
        simp only at hs
        cases hcd : headerGet "content-disposition".toList headers with
        | none => rw [hcd] at hs; simp at hs
        | some cd =>
          rw [hcd] at hs
          simp only at hs
          cases hpo : FormOptions.parseOptionsHeader cd with
          | error err => rw [hpo] at hs; simp at hs
          | ok v =>
            rcases v with ⟨v0, ex⟩
            rw [hpo] at hs
            simp only at hs
            cases hm : d.maxParts with
            | none =>
              rw [hm] at hs; simp at hs; rcases hs with ⟨_, rfl⟩
              simp [List.length_drop]; omega
            | some m =>
              rw [hm] at hs
              simp only at hs
              split at hs
              · simp at hs
              · simp at hs; rcases hs with ⟨_, rfl⟩
                simp [List.length_drop]; omega
  | dataStart =>
    simp only [hst] at hs
    unfold stepData at hs
    cases hds : dataStep d.boundary true d.buffer with
    | error e => rw [hds] at hs; simp at hs
    | ok v =>
      rcases v with ⟨p, buf', start', nx⟩
      rw [hds] at hs
      simp only at hs
      cases start' with
      | true => simp at hs; exact absurd hs.1.symm hne
      | false =>
        simp at hs
        rcases hs with ⟨_, rfl⟩
        exact dataStep_consumes hds (Or.inl rfl)
  | data =>
    simp only [hst] at hs
    unfold stepData at hs
    cases hds : dataStep d.boundary false d.buffer with
    | error e => rw [hds] at hs; simp at hs
    | ok v =>
      rcases v with ⟨p, buf', start', nx⟩
      rw [hds] at hs
      simp only at hs
      cases start' with
      | true => simp at hs; exact absurd hs.1.symm hne
      | false =>
        simp only [Bool.false_eq_true, if_false, Bool.false_or] at hs
        split at hs
        · rename_i hc
          simp at hs
          rcases hs with ⟨_, rfl⟩
          refine dataStep_consumes hds (Or.inr ?_)
          simp at hc
          rcases hc with hc | hc
          · left; exact hc
          · right; exact hc
        · simp at hs; exact absurd hs.1.symm hne
  | epilogue =>
    simp only [hst] at hs
    split at hs
    · simp at hs; exact absurd hs.1.symm (hep _)
    · simp at hs; exact absurd hs.1.symm hne
  | complete =>
    simp only [hst] at hs
    simp at hs; exact absurd hs.1.symm hne

/-- a successful drain needs no more fuel than one unit per buffered byte, plus one -/
theorem drain_enough (f0 : Nat) : ∀ (d : Decoder) (acc : List Event) (r : Run),
    drain f0 d acc = r → r.err = none → ∀ fuel, d.buffer.length < fuel → drain fuel d acc = r := by
  induction f0 with
  | zero => intro d acc r h he; rw [← h] at he; simp [drain] at he
  | succ f0 ih =>
    intro d acc r h he fuel hf
    cases fuel with
    | zero => omega
    | succ k =>
      rw [drain_succ] at h ⊢
      cases hn : nextEvent d with
      | error e => rw [hn] at h; rw [← h] at he; simp at he
      | ok v =>
        rcases v with ⟨ev, d'⟩
        rw [hn] at h
        cases ev with
        | needData => exact h
        | epilogue x => exact h
        | preamble x =>
          have := nextEvent_consumes hn (by simp) (by simp)
          exact ih d' _ r h he k (by omega)
        | field n hd =>
          have := nextEvent_consumes hn (by simp) (by simp)
          exact ih d' _ r h he k (by omega)
        | file n f hd =>
          have := nextEvent_consumes hn (by simp) (by simp)
          exact ih d' _ r h he k (by omega)
        | data x m =>
          have := nextEvent_consumes hn (by simp) (by simp)
          exact ih d' _ r h he k (by omega)

/-- `Ok d acc evs d'`: draining `d` succeeds, appends the events `evs` and leaves `d'` -/
def DrainsOk (d : Decoder) (acc evs : List Event) (d' : Decoder) : Prop :=
  ∃ fuel, drain fuel d acc = { events := acc.reverse ++ evs, err := none, dec := d' }

theorem DrainsOk.toFeed {d d1 d' : Decoder} {c : Option Bytes} {evs : List Event}
    (hr : receive d c = .ok d1) (h : DrainsOk d1 [] evs d') :
    Multipart.feed d c = { events := evs, err := none, dec := d' } := by
  rcases h with ⟨f0, h0⟩
  unfold Multipart.feed
  rw [hr]
  simp only
  have := drain_enough f0 d1 [] _ h0 rfl (drainFuel d1) (by simp [drainFuel])
  rw [this]; simp

theorem DrainsOk.stop {d d' : Decoder} (acc : List Event) (h : nextEvent d = .ok (.needData, d')) :
    DrainsOk d acc [] d' :=
  ⟨1, by simp [drain, h]⟩

theorem DrainsOk.epilogue {d d' : Decoder} {x : Bytes} (acc : List Event)
    (h : nextEvent d = .ok (.epilogue x, d')) : DrainsOk d acc [.epilogue x] d' :=
  ⟨1, by simp [drain, h]⟩

theorem DrainsOk.step_data {d d1 d' : Decoder} {x : Bytes} {m : Bool} {acc evs : List Event}
    (h : nextEvent d = .ok (.data x m, d1)) (hr : DrainsOk d1 (.data x m :: acc) evs d') :
    DrainsOk d acc (.data x m :: evs) d' := by
  rcases hr with ⟨fuel, e⟩
  exact ⟨fuel + 1, by rw [drain_data _ _ h, e]; simp⟩

theorem DrainsOk.step_pre {d d1 d' : Decoder} {x : Bytes} {acc evs : List Event}
    (h : nextEvent d = .ok (.preamble x, d1)) (hr : DrainsOk d1 (.preamble x :: acc) evs d') :
    DrainsOk d acc (.preamble x :: evs) d' := by
  rcases hr with ⟨fuel, e⟩
  exact ⟨fuel + 1, by rw [drain_pre _ _ h, e]; simp⟩

theorem DrainsOk.step_head {d d1 d' : Decoder} {q : Part} {acc evs : List Event}
    (h : nextEvent d = .ok (partHeadEvent q, d1)) (hr : DrainsOk d1 (partHeadEvent q :: acc) evs d') :
    DrainsOk d acc (partHeadEvent q :: evs) d' := by
  rcases hr with ⟨fuel, e⟩
  exact ⟨fuel + 1, by rw [drain_head _ _ h, e]; simp⟩

/-! ### BLANK_LINE_RE on prefixes of a stream -/

/-- a blank line found in a buffer is the first blank line of every extension of the buffer -/
theorem searchBlank_append_stable {x : Bytes} {s e : Nat} (c : Bytes) (h : searchBlank x = some (s, e)) :
    searchBlank (x ++ c) = some (s, e) := by
  induction x generalizing s e with
  | nil => simp [searchBlank] at h
  | cons a t ih =>
    by_cases hb : 0 < blankLen (a :: t)
    · -- a match at the head is the same match in the extension
      simp [searchBlank, hb] at h
      rcases h with ⟨rfl, rfl⟩
      have hle := blankLen_le_length (a :: t)
      have hr := blankLen_restrict (x := a :: t) (c := c) ?_
      · have hb' : 0 < blankLen (a :: (t ++ c)) := by rw [← List.cons_append, ← hr]; exact hb
        simp only [List.cons_append, searchBlank, hb', if_true]
        rw [← List.cons_append, ← hr]
      · -- the extension cannot match something longer than the buffer: its match is determined by
        -- the first two bytes
        unfold blankLen at hb ⊢
        by_cases h1 : [13, 10, 13, 10].isPrefixOf (a :: t) = true
        · rw [isPrefixOf_append_of_isPrefixOf c h1]; simp
          have := List.isPrefixOf_iff_prefix.1 h1 |>.length_le
          simpa using this
        · rw [if_neg h1] at hb
          by_cases h2 : [13, 13].isPrefixOf (a :: t) = true
          · have h1' : ¬ [13, 10, 13, 10].isPrefixOf (a :: t ++ c) = true := by
              rw [List.isPrefixOf_iff_prefix] at h2 ⊢
              rcases h2 with ⟨r, hr⟩
              intro ⟨r', hr'⟩
              rw [← hr] at hr'
              simp at hr'
            rw [if_neg h1', isPrefixOf_append_of_isPrefixOf c h2]; simp
            have := List.isPrefixOf_iff_prefix.1 h2 |>.length_le
            simpa using this
          · rw [if_neg h2] at hb
            by_cases h3 : [10, 10].isPrefixOf (a :: t) = true
            · have h1' : ¬ [13, 10, 13, 10].isPrefixOf (a :: t ++ c) = true := by
                rw [List.isPrefixOf_iff_prefix] at h3 ⊢
                rcases h3 with ⟨r, hr⟩
                intro ⟨r', hr'⟩
                rw [← hr] at hr'
                simp at hr'
              have h2' : ¬ [13, 13].isPrefixOf (a :: t ++ c) = true := by
                rw [List.isPrefixOf_iff_prefix] at h3 ⊢
                rcases h3 with ⟨r, hr⟩
                intro ⟨r', hr'⟩
                rw [← hr] at hr'
                simp at hr'
              rw [if_neg h1', if_neg h2', isPrefixOf_append_of_isPrefixOf c h3]; simp
              have := List.isPrefixOf_iff_prefix.1 h3 |>.length_le
              simpa using this
            · rw [if_neg h3] at hb; omega
    · have h0 : blankLen (a :: t) = 0 := by omega
      rw [searchBlank_cons_zero h0] at h
      rcases shift2_eq_some h with ⟨s2, e2, ht, rfl, rfl⟩
      -- no match at the head of the extension either: a blank line at the head of `a :: t ++ c`
      -- that is not one of `a :: t` would have to overlap the match found in `t`
      have hbt := searchBlank_bounds ht
      have h0' : blankLen (a :: (t ++ c)) = 0 := by
        apply Nat.eq_zero_of_not_pos
        intro hp
        by_cases hfit : blankLen (a :: t ++ c) ≤ (a :: t).length
        · have := blankLen_restrict (x := a :: t) (c := c) hfit
          rw [h0] at this
          simp only [List.cons_append] at this
          omega
        · -- the only way not to fit: a four byte blank line over a three byte buffer
          have h4 := blankLen_le (a :: t ++ c)
          simp only [List.cons_append] at hfit h4
          have hlen : t.length = 2 := by simp at hfit; omega
          match t, hlen with
          | [x, y], _ =>
            have hpre : [13, 10, 13, 10].isPrefixOf (a :: ([x, y] ++ c)) = true := by
              unfold blankLen at hfit
              by_cases h1 : [13, 10, 13, 10].isPrefixOf (a :: ([x, y] ++ c)) = true
              · exact h1
              · rw [if_neg h1] at hfit
                split at hfit <;> (try split at hfit) <;> simp at hfit
            simp [List.isPrefixOf] at hpre
            rcases hpre with ⟨_, hx, hy, _⟩
            subst hx; subst hy
            simp [searchBlank, blankLen, List.isPrefixOf] at ht
      rw [List.cons_append, searchBlank_cons_zero h0', ih ht]
      rfl

/-- a blank line of the extension that lies inside the buffer is a blank line of the buffer -/
theorem searchBlank_restrict {x c : Bytes} {s e : Nat} (h : searchBlank (x ++ c) = some (s, e))
    (he : e ≤ x.length) : searchBlank x = some (s, e) := by
  cases hx : searchBlank x with
  | some v =>
    rcases v with ⟨s', e'⟩
    rw [searchBlank_append_stable c hx] at h
    exact h
  | none =>
    exfalso
    -- position s of x carries the same blank line
    induction x generalizing s e with
    | nil =>
      have := searchBlank_bounds h
      simp at he; omega
    | cons a t ih =>
      by_cases hb : 0 < blankLen (a :: (t ++ c))
      · simp only [List.cons_append, searchBlank, hb, if_true] at h
        simp at h
        rcases h with ⟨rfl, rfl⟩
        have := blankLen_restrict (x := a :: t) (c := c) (by simpa using he)
        have h0 := searchBlank_none_drop hx 0
        simp at h0
        simp only [List.cons_append] at this
        omega
      · have h0 : blankLen (a :: (t ++ c)) = 0 := by omega
        rw [List.cons_append, searchBlank_cons_zero h0] at h
        rcases shift2_eq_some h with ⟨s2, e2, ht, rfl, rfl⟩
        have hxt : searchBlank t = none := by
          have hz := searchBlank_none_drop hx 0
          simp at hz
          rw [searchBlank_cons_zero hz] at hx
          cases hq : searchBlank t with
          | none => rfl
          | some v => rw [hq] at hx; rcases v with ⟨a1, a2⟩; simp [shift2] at hx
        exact ih ht (by simp at he; omega) hxt

/-! ### the header block, possibly preceded by the LF of a split CRLF -/

def lfPre (lf : Bool) : Bytes := if lf then [10] else []

theorem searchBlank_lf_pre (lf : Bool) {x : UInt8} (r : Bytes) (hx : isNl x = false) :
    searchBlank (lfPre lf ++ x :: r) = shift2 (lfPre lf).length (searchBlank (x :: r)) := by
  cases lf with
  | false =>
    simp only [lfPre, Bool.false_eq_true, if_false, List.nil_append, List.length_nil]
    cases searchBlank (x :: r) with
    | none => rfl
    | some v => simp [shift2]
  | true =>
    simp only [lfPre, if_true, List.cons_append, List.nil_append]
    have h0 : blankLen (10 :: x :: r) = 0 := by
      simp [isNl] at hx
      have h2 : ((10 : UInt8) == x) = false := by simp; exact fun e => hx.1 e.symm
      simp [blankLen, List.isPrefixOf, h2]
    rw [searchBlank_cons_zero h0]; rfl

theorem fold_lf {x : UInt8} (r : Bytes) (h32 : x ≠ 32) (h9 : x ≠ 9) :
    foldContinuations (10 :: x :: r) = 10 :: foldContinuations (x :: r) := by
  simp [foldContinuations, foldContinuations.go, lbLen_lf, h32, h9]

/-- in front of a SP / TAB the stray LF is a folded continuation: it becomes one SP and the white space
itself is skipped -/
theorem fold_lf_ws {x : UInt8} (r : Bytes) (h : x = 32 ∨ x = 9) :
    foldContinuations (10 :: x :: r) = 32 :: foldContinuations r := by
  rcases h with rfl | rfl <;> simp [foldContinuations, foldContinuations.go, lbLen_lf]

theorem fold_ws {x : UInt8} (r : Bytes) (h : x = 32 ∨ x = 9) :
    foldContinuations (x :: r) = x :: foldContinuations r := by
  rcases h with rfl | rfl <;> simp [foldContinuations, foldContinuations.go, lbLen]

theorem splitLines_lf (rest : Bytes) : splitLines (10 :: rest) = [] :: splitLines rest := by
  simp [splitLines, splitLines.go]

theorem stripBytes_ws_cons {x : UInt8} (l : Bytes) (h : isBytesSpace x = true) :
    stripBytes (x :: l) = stripBytes l := by
  simp [stripBytes, List.dropWhile_cons, h]

/-- a white-space byte in front of the text only changes the first line `splitlines` yields, by that
byte, which `strip` removes (a first line consisting of it alone is dropped as empty) -/
theorem splitLinesGo_ws {w : UInt8} (hw : isBytesSpace w = true) : ∀ (t c : Bytes),
    ((splitLines.go t (c ++ [w]) false).map stripBytes).filter (!·.isEmpty) =
      ((splitLines.go t c false).map stripBytes).filter (!·.isEmpty) := by
  intro t
  induction t with
  | nil =>
    intro c
    cases c with
    | nil =>
      have : stripBytes [w] = [] := by rw [stripBytes_ws_cons [] hw]; rfl
      simp [splitLines.go, this]
    | cons a c' =>
      have hrev : ((a :: c') ++ [w]).reverse = w :: (a :: c').reverse := by simp
      simp only [splitLines.go, List.isEmpty_cons, List.cons_append, Bool.false_eq_true, if_false]
      have : (a :: (c' ++ [w])).reverse = w :: (a :: c').reverse := by simpa using hrev
      rw [this]
      simp [stripBytes_ws_cons _ hw]
  | cons a t ih =>
    intro c
    have hrev : (c ++ [w]).reverse = w :: c.reverse := by simp
    by_cases h10 : a = 10
    · subst h10
      have e : ((10 : UInt8) == 10) = true := by decide
      simp only [splitLines.go, e, if_true, Bool.false_eq_true, if_false, List.map_cons, hrev,
        stripBytes_ws_cons _ hw]
    · by_cases h13 : a = 13
      · subst h13
        have e1 : ((13 : UInt8) == 10) = false := by decide
        have e2 : ((13 : UInt8) == 13) = true := by decide
        simp only [splitLines.go, e1, e2, Bool.false_eq_true, if_false, if_true, List.map_cons, hrev,
          stripBytes_ws_cons _ hw]
      · have e10 : (a == 10) = false := by simpa using h10
        have e13 : (a == 13) = false := by simpa using h13
        simp only [splitLines.go, e10, e13, Bool.false_eq_true, if_false]
        have := ih (a :: c)
        simpa using this

theorem splitLines_ws_cons {w : UInt8} (hw : isBytesSpace w = true) (hn : isNl w = false) (t : Bytes) :
    ((splitLines (w :: t)).map stripBytes).filter (!·.isEmpty) =
      ((splitLines t).map stripBytes).filter (!·.isEmpty) := by
  have e10 : (w == 10) = false := by
    cases h : w == 10 with
    | false => rfl
    | true => have : w = 10 := by simpa using h
              subst this; simp [isNl] at hn
  have e13 : (w == 13) = false := by
    cases h : w == 13 with
    | false => rfl
    | true => have : w = 13 := by simpa using h
              subst this; simp [isNl] at hn
  have := splitLinesGo_ws hw t []
  simp only [List.nil_append] at this
  simp only [splitLines, splitLines.go, e10, e13, Bool.false_eq_true, if_false]
  exact this

/-- a stray LF in front of the header block (the second half of a split CRLF) is an empty line to
`_parse_headers` — or, in front of SP / TAB, a folded continuation whose white space is stripped -/
theorem parseHeaders_lf_pre (lf : Bool) {x : UInt8} (r : Bytes) (hx : isNl x = false) :
    parseHeaders (lfPre lf ++ x :: r) = parseHeaders (x :: r) := by
  cases lf with
  | false => simp [lfPre]
  | true =>
    simp only [lfPre, if_true, List.cons_append, List.nil_append]
    by_cases hws : x = 32 ∨ x = 9
    · -- LF SP … folds to SP …, SP … stays as it is: the same lines up to the first byte of the first
      -- line, which `strip` removes
      unfold parseHeaders
      rw [fold_lf_ws r hws, fold_ws r hws]
      have hsp : isBytesSpace x = true := by rcases hws with rfl | rfl <;> decide
      have h1 := splitLines_ws_cons (w := 32) (by decide) (by decide) (foldContinuations r)
      have h2 := splitLines_ws_cons hsp hx (foldContinuations r)
      simp only []
      rw [h1, h2]
    · have h32 : x ≠ 32 := fun e => hws (Or.inl e)
      have h9 : x ≠ 9 := fun e => hws (Or.inr e)
      unfold parseHeaders
      rw [fold_lf r h32 h9, splitLines_lf]
      simp only [List.map_cons]
      have hs0 : stripBytes [] = [] := rfl
      rw [hs0]
      simp only [List.filter_cons, List.isEmpty_nil, Bool.not_true, Bool.false_eq_true, if_false]

theorem headEvent_lf_pre (lf : Bool) {x : UInt8} (r : Bytes) (hx : isNl x = false) :
    headEvent (lfPre lf ++ x :: r) = headEvent (x :: r) := by
  unfold headEvent
  rw [parseHeaders_lf_pre lf r hx]

/-! ### bodies with a preamble -/

/-- the whole body: preamble bytes `pr`, then either `NL--boundary…` (`lead = true`) or — only
without a preamble — `--boundary…` directly, as browsers send it (`lead = false`); `nl` is the line
break of the delimiter lines -/
def bodyOfR (nl : Nl) (bnd ep pr : Bytes) (lead : Bool) (ps : List RawPart) : Bytes :=
  pr ++ (if lead then rawBody nl bnd ep ps else (rawBody nl bnd ep ps).drop nl.len)

/-- the most general admissible preamble (decidable): `preamble_re` matches nowhere inside it when the
whole body is searched, i.e. the first delimiter the decoder can find is the intended one. The
preamble may contain `--boundary` as long as the occurrence is not a delimiter line (`--boundaryX`,
`--boundary junk`). -/
def PreFreeR (nl : Nl) (bnd ep pr : Bytes) (lead : Bool) (ps : List RawPart) : Prop :=
  if lead then ∀ j, j < pr.length → matchDelimAt bnd true ((pr ++ rawBody nl bnd ep ps).drop j) = none
  else pr = []

instance (nl : Nl) (bnd ep pr : Bytes) (lead : Bool) (ps : List RawPart) :
    Decidable (PreFreeR nl bnd ep pr lead ps) := by
  unfold PreFreeR; split <;> infer_instance

/-! ### phases of the run over the encoder output -/

inductive Phase where
  | pre (ps : List RawPart)
  | hdr (lf : Bool) (p : RawPart) (ps : List RawPart)
  | dataS (p : RawPart) (ps : List RawPart)
  | dataM (p : RawPart) (ps : List RawPart) (E : Bytes)
  | epi

def Plain (bnd : Bytes) (d : Decoder) : Prop :=
  d.boundary = bnd ∧ d.complete = false ∧ d.maxMem = none ∧ d.maxParts = none

/-- data phases: where the delimiter that ends part `p` lies in what remains (`buf ++ fut`), what
precedes it (after the bytes `pre` already released) and what follows it -/
def DataInv (nl : Nl) (bnd ep : Bytes) (p : RawPart) (ps : List RawPart) (pre buf fut : Bytes) : Prop :=
  ∃ s0 e0, searchDelim bnd false (buf ++ fut) = some (s0, e0, ps.isEmpty) ∧
    (pre ++ (buf ++ fut).take s0).drop nl.len = p.payload ∧ (buf ++ fut).drop e0 = rAfterOf nl bnd ep ps

def Good (nl : Nl) (bnd ep pr : Bytes) (lead : Bool) (d : Decoder) (fut : Bytes) : Phase → Prop
  | .pre ps =>
    Plain bnd d ∧ d.state = .preamble ∧ d.buffer ++ fut = bodyOfR nl bnd ep pr lead ps ∧
      PreFreeR nl bnd ep pr lead ps ∧ NoEarly bnd d.searchPos d.buffer
  | .hdr lf p ps =>
    Plain bnd d ∧ d.state = .part ∧ d.buffer ++ fut = lfPre lf ++ rAfterOf nl bnd ep (p :: ps) ∧
      ∃ b0 c0, d.buffer = b0 ++ c0 ∧ searchBlank b0 = none ∧ d.searchPos = b0.length - searchExtra
  | .dataS p ps =>
    Plain bnd d ∧ d.state = .dataStart ∧ d.searchPos = 0 ∧ 0 < lbLen d.buffer ∧
      lbLen (d.buffer ++ fut) = nl.len ∧ DataInv nl bnd ep p ps [] d.buffer fut
  | .dataM p ps E =>
    Plain bnd d ∧ d.state = .data ∧ d.searchPos = 0 ∧
      ∃ pre, pre.drop nl.len = E ∧ nl.len ≤ pre.length ∧ DataInv nl bnd ep p ps pre d.buffer fut
  | .epi => Plain bnd d ∧ d.state = .epilogue

/-- the single-shot facts about the data stretch of part `p` -/
theorem rDataOf_search {bnd : Bytes} (hb : BoundaryOk bnd) (p : RawPart) (ps : List RawPart) (hv : RawOk nl bnd p)
    (hvs : ∀ q ∈ ps, RawOk nl bnd q) :
    DataInv nl bnd ep p ps [] (rDataOf nl bnd ep p ps) [] := by
  have hspec := dataSpec_rDataOf (nl := nl) (ep := ep) hb p ps hv hvs
  have hlb := lbLen_rDataOf (nl := nl) (ep := ep) p ps hv
  rw [dataSpec_true, hlb] at hspec
  cases hs : searchDelim bnd false (rDataOf nl bnd ep p ps) with
  | none => rw [hs] at hspec; simp at hspec
  | some v =>
    rcases v with ⟨s, e, f⟩
    rw [hs] at hspec
    simp only [Option.some.injEq, Prod.mk.injEq] at hspec
    rcases hspec with ⟨hpay, hfe, hrest⟩
    subst hfe
    exact ⟨s, e, by simpa using hs, by simpa using hpay, by simpa using hrest⟩

theorem rAfterOf_cons_blank (bnd : Bytes) (p : RawPart) (ps : List RawPart) :
    ∃ Z, rAfterOf nl bnd ep (p :: ps) = p.hdr ++ (nl.bytes ++ (nl.bytes ++ Z)) ∧
      rDataOf nl bnd ep p ps = nl.bytes ++ Z := by
  rcases rDataOf_blank bnd p ps with ⟨Z, hZ⟩
  exact ⟨Z, by rw [rAfterOf_cons, hZ], hZ⟩

/-- one `next_event` in the PART phase, on any prefix of the stream -/
theorem step_hdr {bnd : Bytes} (hb : BoundaryOk bnd) {d : Decoder} {fut : Bytes} {lf : Bool} {p : RawPart}
    {ps : List RawPart} (hv : RawOk nl bnd p) (hvs : ∀ q ∈ ps, RawOk nl bnd q)
    (hg : Good nl bnd ep pr lead d fut (.hdr lf p ps)) :
    (∃ d', nextEvent d = .ok (.needData, d') ∧ Good nl bnd ep pr lead d' fut (.hdr lf p ps) ∧ fut ≠ []) ∨
    (∃ d', nextEvent d = .ok (partHeadEvent p.out, d') ∧ Good nl bnd ep pr lead d' fut (.dataS p ps)) := by
  rcases hg with ⟨⟨hbn, hcomp, hmm, hmp⟩, hst, hcat, b0, c0, hbc, hb0, hpos⟩
  rcases rawOk_head hv with ⟨x, t, hx, hsp⟩
  have hxn : isNl x = false := hsp
  have hev := (rawOk_event hv).1
  rcases rAfterOf_cons_blank (nl := nl) (ep := ep) bnd p ps with ⟨Z, hZ, hdZ⟩
  -- the whole stream and its first blank line
  have hW : d.buffer ++ fut = lfPre lf ++ (p.hdr ++ (nl.bytes ++ (nl.bytes ++ Z))) := by
    rw [hcat, hZ]
  let L := (lfPre lf).length + p.hdr.length
  have hsb0 : searchBlank (p.hdr ++ (nl.bytes ++ (nl.bytes ++ Z))) =
      some (p.hdr.length, p.hdr.length + 2 * nl.len) := by
    have := searchBlank_append_stable Z hv.2.1
    simpa [List.append_assoc] using this
  have hsbW : searchBlank (d.buffer ++ fut) = some (L, L + 2 * nl.len) := by
    rw [hW]
    have e1 : p.hdr ++ (nl.bytes ++ (nl.bytes ++ Z)) = x :: (t ++ (nl.bytes ++ (nl.bytes ++ Z))) := by
      rw [hx]; rfl
    rw [e1, searchBlank_lf_pre lf _ hxn, ← e1, hsb0]
    simp [shift2, L]; omega
  -- the retained search position does not matter
  have hfrom : searchBlankFrom d.searchPos d.buffer = searchBlank d.buffer := by
    rw [hpos, hbc]; exact searchPos_irrelevant_blank_lemma hb0
  by_cases hlen : L + 2 * nl.len ≤ d.buffer.length
  · right
    have hsb : searchBlank d.buffer = some (L, L + 2 * nl.len) := searchBlank_restrict hsbW hlen
    have htake : d.buffer.take L = lfPre lf ++ p.hdr := by
      have : (d.buffer ++ fut).take L = lfPre lf ++ p.hdr := by
        rw [hW, ← List.append_assoc]; exact List.take_left' (by simp [L])
      rw [List.take_append_of_le_length (by omega)] at this
      exact this
    have hevL : headEvent (lfPre lf ++ p.hdr) = .ok (partHeadEvent p.out) := by
      rw [hx, headEvent_lf_pre lf t hsp, ← hx]; exact hev
    have hdropW : (d.buffer ++ fut).drop (L + nl.len) = rDataOf nl bnd ep p ps := by
      rw [hW, ← List.append_assoc, hdZ]
      have : L + nl.len = nl.len + (lfPre lf ++ p.hdr).length := by simp [L]; omega
      rw [this, drop_add_append]; simp [Nl.len]
    have hdrop : d.buffer.drop (L + nl.len) ++ fut = rDataOf nl bnd ep p ps := by
      rw [← hdropW, List.drop_append_of_le_length (by omega)]
    have hhalf : (L + (L + 2 * nl.len)) / 2 = L + nl.len := by omega
    let d' : Decoder := { d with buffer := d.buffer.drop (L + nl.len), state := .dataStart, searchPos := 0,
                                 partsDecoded := d.partsDecoded + 1 }
    have hstep : step d = .ok (partHeadEvent p.out, d') := by
      have := step_part_of_headEvent hst hmp (by rw [hfrom, hsb]) (by rw [htake]; exact hevL)
      rw [hhalf] at this
      exact this
    refine ⟨d', ?_, ?_⟩
    · unfold nextEvent
      rw [hstep, hcomp]
      simp
    · have hpre : d'.buffer ++ fut = nl.bytes ++ Z := by simp only [d']; rw [hdrop, hdZ]
      have hlbW : lbLen (d'.buffer ++ fut) = nl.len := by
        simp only [d']; rw [hdrop]; exact lbLen_rDataOf p ps hv
      refine ⟨⟨hbn, hcomp, hmm, hmp⟩, rfl, rfl, ?_, hlbW, ?_⟩
      · -- the new buffer starts with the line break
        have hnp := nl.len_pos
        have h1 : 1 ≤ d'.buffer.length := by simp [d']; omega
        rcases nl.head_isNl Z with ⟨a, t2, he, ha⟩
        match hbuf : d'.buffer, h1 with
        | y :: t', _ =>
          rw [hbuf, he] at hpre
          simp at hpre
          exact lbLen_pos_iff.2 ⟨y, t', rfl, by rw [hpre.1]; exact ha⟩
      · have := rDataOf_search (nl := nl) (ep := ep) hb p ps hv hvs
        rcases this with ⟨s0, e0, h1, h2, h3⟩
        simp only [List.append_nil] at h1 h2 h3
        exact ⟨s0, e0, by simp only [d']; rw [hdrop]; exact h1, by simp only [d']; rw [hdrop]; exact h2,
          by simp only [d']; rw [hdrop]; exact h3⟩
  · left
    have hnone : searchBlank d.buffer = none := by
      cases hq : searchBlank d.buffer with
      | none => rfl
      | some v =>
        rcases v with ⟨s, e⟩
        have := searchBlank_append_stable fut hq
        rw [hsbW] at this
        simp at this
        have hbd := searchBlank_bounds hq
        omega
    let d' : Decoder := { d with searchPos := d.buffer.length - searchExtra }
    have hstep : step d = .ok (.needData, d') := by
      unfold step
      rw [hst]
      simp only
      rw [hfrom, hnone]
      simp only [d']
      congr 2
      cases d; simp_all
    refine ⟨d', ?_, ⟨⟨hbn, hcomp, hmm, hmp⟩, hst, hcat, d.buffer, [], by simp [d'], hnone, rfl⟩, ?_⟩
    · unfold nextEvent; rw [hstep, hcomp]; simp
    · intro hfe
      rw [hfe, List.append_nil] at hW
      have := congrArg List.length hW
      simp [Nl.len] at this
      simp [L, Nl.len] at hlen
      omega

theorem lbLen_of_crlf_prefix {b fut Z : Bytes} (h : b ++ fut = 13 :: 10 :: Z) (h2 : 2 ≤ b.length) :
    lbLen b = 2 := by
  match b, h2 with
  | x :: y :: t, _ =>
    simp at h
    rw [h.1, h.2.1]; simp [lbLen]

/-! ### PREAMBLE: the first delimiter of the body -/

theorem matchDelimAt_true_of_false {bnd x : Bytes} {n : Nat} {f : Bool}
    (h : matchDelimAt bnd false x = some (n, f)) : matchDelimAt bnd true x = some (n, f) := by
  rcases matchDelimAt_iff.1 h with ⟨r, m, hl, hd, hm, hn⟩
  exact matchDelimAt_iff'.2 ⟨r, m, by simp, hd, hm, hn⟩

theorem matchDelimAt_false_of_true {bnd x : Bytes} {n : Nat} {f : Bool} (hl : 0 < lbLen x)
    (h : matchDelimAt bnd true x = some (n, f)) : matchDelimAt bnd false x = some (n, f) := by
  rcases matchDelimAt_iff'.1 h with ⟨r, m, _, hd, hm, hn⟩
  exact matchDelimAt_iff.2 ⟨r, m, hl, hd, hm, hn⟩

/-- the first byte of the line break; it is LF only for bare-LF bodies -/
theorem Nl.head_spec (nl : Nl) (x : Bytes) :
    ∃ a t, nl.bytes ++ x = a :: t ∧ isNl a = true ∧ (a = 10 → nl = .lf) := by
  cases nl
  · exact ⟨13, 10 :: x, rfl, by decide, by decide⟩
  · exact ⟨10, x, rfl, by decide, fun _ => rfl⟩
  · exact ⟨13, x, rfl, by decide, by decide⟩

theorem searchDelim_none_of_nl_append {nl : Nl} {bnd b : Bytes} {o : Bool}
    (h : searchDelim bnd o (nl.bytes ++ b) = none) : searchDelim bnd o b = none := by
  cases nl with
  | crlf => exact (searchDelim_cons_eq_none.1 (searchDelim_cons_eq_none.1 h).2).2
  | lf => exact (searchDelim_cons_eq_none.1 h).2
  | cr => exact (searchDelim_cons_eq_none.1 h).2

/-- the whole body has its first delimiter at offset 0 -/
theorem rawBody_match {bnd : Bytes} (ps : List RawPart) (hvs : ∀ q ∈ ps, RawOk nl bnd q) :
    ∃ m, matchDelimAt bnd false (rawBody nl bnd ep ps) = some (nl.len + (bnd.length + 2) + m, ps.isEmpty) ∧
      (rawBody nl bnd ep ps).drop (nl.len + (bnd.length + 2) + m) = rAfterOf nl bnd ep ps ∧
      (∀ p ps', ps = p :: ps' → m = p.pad.length + nl.len) := by
  have hl := nl.lbLen_delim bnd (rTailOf nl bnd ep ps)
  have hA := rAfterDelim_tailOf (nl := nl) (ep := ep) ps hvs
  rcases matchTail_afterDelimNl hA with ⟨m, hm, hdrop⟩
  refine ⟨m, ?_, ?_, ?_⟩
  · rw [rawBody_eq]
    apply matchDelimAt_iff.2
    exact ⟨rTailOf nl bnd ep ps, m, by rw [hl]; exact nl.len_pos, by rw [hl]; simp [Nl.len], hm, by rw [hl]⟩
  · rw [rawBody_eq]
    have e2 : nl.len + (bnd.length + 2) + m = (m + (delim bnd).length) + nl.bytes.length := by
      simp [delim, Nl.len]; omega
    rw [e2, drop_add_append, drop_add_append, hdrop]
  · intro p ps' hps
    subst hps
    rcases rawOk_head (hvs p (by simp)) with ⟨x, t, hx, hsp⟩
    have hx10 : x ≠ 10 := by intro e; subst e; simp [isNl] at hsp
    have := matchTail_pad_nl (nl := nl) (t ++ (nl.bytes ++ rDataOf nl bnd ep p ps')) (hvs p (by simp)).2.2.2.1 hx10
    simp only [rTailOf, hx, List.cons_append, List.isEmpty_cons] at hm
    rw [this] at hm
    simp only [Option.some.injEq, Prod.mk.injEq, and_true] at hm
    exact hm.symm

theorem not_nl_of_mem {l : Bytes} (h : hasNl l = false) {y : UInt8} (hy : y ∈ l) : isNl y = false := by
  unfold hasNl at h
  rw [List.any_eq_false] at h
  simpa using h y hy

/-- while the first delimiter line is not complete in the buffer, `preamble_re` finds nothing at all —
whatever the amount of transport padding on that line -/
theorem pre_no_match {bnd : Bytes} (hb : BoundaryOk bnd) {ps : List RawPart} (hvs : ∀ q ∈ ps, RawOk nl bnd q)
    {b fut : Bytes}
    (hcat : b ++ fut = rawBody nl bnd ep ps) (h0 : matchDelimAt bnd true b = none) :
    searchDelim bnd true b = none := by
  rcases rawBody_match (nl := nl) (ep := ep) ps hvs with ⟨m, hM, _, hmn⟩
  have hMt := matchDelimAt_true_of_false hM
  have hlW : lbLen (b ++ fut) = nl.len := by rw [hcat, rawBody_eq]; exact nl.lbLen_delim bnd _
  have hnp := nl.len_pos
  have hn2 := nl.len_le_two
  -- the buffer ends before the first delimiter line does
  have hshort : b.length < nl.len + (bnd.length + 2) + (if ps.isEmpty then 2 else m) := by
    apply Nat.lt_of_not_le
    intro hge
    rw [← hcat] at hMt
    cases hf : ps.isEmpty with
    | true =>
      rw [hf] at hMt hge
      rcases matchDelimAt_restrict_true' hMt (by rw [hlW]; simpa using hge) with ⟨n', hn'⟩
      rw [h0] at hn'; simp at hn'
    | false =>
      rw [hf] at hMt hge
      have := matchDelimAt_restrict_false hMt (by simpa using hge)
      rw [h0] at this; simp at this
  -- no position of the buffer carries a match
  have hall : ∀ j, matchDelimAt bnd true (b.drop j) = none := by
    intro j
    cases hx : matchDelimAt bnd true (b.drop j) with
    | none => rfl
    | some v =>
      exfalso
      rcases v with ⟨n1, f1⟩
      by_cases hl : 0 < lbLen (b.drop j)
      · -- a match of `boundary_re`: by stability it is the first match of the whole body, at 0
        have hfm := matchDelimAt_false_of_true hl hx
        have hne := searchDelim_of_match_drop hfm
        cases hs : searchDelim bnd false b with
        | none => exact hne hs
        | some w =>
          rcases w with ⟨s', e', f'⟩
          rcases searchDelim_append_stable hb hs fut with ⟨e2, hst, _⟩
          have hS0 : searchDelim bnd false (rawBody nl bnd ep ps) =
              some (0, nl.len + (bnd.length + 2) + m, ps.isEmpty) := by
            rw [rawBody_eq] at hM ⊢
            rcases nl.head_isNl (delim bnd ++ rTailOf nl bnd ep ps) with ⟨a, t, he, _⟩
            rw [he] at hM ⊢
            exact searchDelim_cons_some hM
          rw [hcat, hS0] at hst
          simp only [Option.some.injEq, Prod.mk.injEq] at hst
          rcases hst with ⟨rfl, _, _⟩
          rcases searchDelim_some_iff hs with ⟨_, _, hm0, _⟩
          simp only [List.drop_zero, Nat.sub_zero] at hm0
          rw [matchDelimAt_true_of_false hm0] at h0; simp at h0
      · have hl0 : lbLen (b.drop j) = 0 := by omega
        rcases matchDelimAt_iff'.1 hx with ⟨r, m1, _, hd, hm1, _⟩
        rw [hl0, List.drop_zero] at hd
        have hjlen : (b.drop j).length = b.length - j := by simp
        have hdl : (delim bnd).length + r.length = b.length - j := by
          rw [← hjlen, hd]; simp
        rw [delim_length] at hdl
        by_cases hj1 : j < nl.len
        · -- inside the line break: offset 0 is excluded by `h0`, offset 1 of CRLF is LF, not `-`
          cases j with
          | zero => simp only [List.drop_zero] at hx; rw [h0] at hx; simp at hx
          | succ j' =>
            have hpre1 : b.drop (j' + 1) <+: (rawBody nl bnd ep ps).drop (j' + 1) := by
              refine ⟨fut, ?_⟩
              rw [← hcat, List.drop_append_of_le_length (by omega)]
            rw [rawBody_eq, hd] at hpre1
            rcases hpre1 with ⟨t, ht⟩
            cases nl with
            | lf => simp [Nl.len, Nl.bytes] at hj1
            | cr => simp [Nl.len, Nl.bytes] at hj1
            | crlf =>
              have hj' : j' = 0 := by simp [Nl.len, Nl.bytes] at hj1; omega
              subst hj'
              simp [Nl.bytes, delim] at ht
        · by_cases hj2 : j = nl.len
          · -- then the buffer itself matches at 0
            subst hj2
            have hbl : nl.len ≤ b.length := by omega
            have htake : b.take nl.len = nl.bytes := by
              have : (b ++ fut).take nl.len = nl.bytes := by rw [hcat, rawBody_eq]; simp [Nl.len]
              rwa [List.take_append_of_le_length hbl] at this
            have hb2 : b = nl.bytes ++ (delim bnd ++ r) := by
              rw [← List.take_append_drop nl.len b, htake, hd]
            have : matchDelimAt bnd true b = some (nl.len + (bnd.length + 2) + m1, f1) := by
              rw [hb2]
              have hl2 := nl.lbLen_delim bnd r
              exact matchDelimAt_iff'.2 ⟨r, m1, by simp, by rw [hl2]; simp [Nl.len], hm1, by rw [hl2]⟩
            rw [h0] at this; simp at this
          · -- a second `--boundary` after the first one, inside the unfinished delimiter line
            have hjb : j ≤ b.length := by omega
            -- what the body holds from offset j on
            have hbody : (delim bnd ++ rTailOf nl bnd ep ps).drop (j - nl.len) = delim bnd ++ (r ++ fut) := by
              have h1 : (b ++ fut).drop j = delim bnd ++ (r ++ fut) := by
                rw [List.drop_append_of_le_length hjb, hd, List.append_assoc]
              rw [hcat, rawBody_eq] at h1
              have e : j = (j - nl.len) + nl.bytes.length := by simp [Nl.len] at hj1 hj2 ⊢; omega
              rw [e, drop_add_append] at h1
              exact h1
            cases ps with
            | nil =>
              -- closing delimiter: nothing is left for the rest of the line
              simp only [List.isEmpty_nil, if_true] at hshort
              have hr0 : r = [] := List.eq_nil_of_length_eq_zero (by omega)
              rw [hr0] at hm1
              simp [matchTail, lbLen] at hm1
            | cons p ps' =>
              have hm2 := hmn p ps' rfl
              simp only [List.isEmpty_cons, Bool.false_eq_true, if_false] at hshort
              rcases rawOk_head (hvs p (by simp)) with ⟨x, t, hx, hsp⟩
              have hpad := (hvs p (by simp)).2.2.2.1
              let k := j - nl.len
              have hk1 : 1 ≤ k := by simp only [k]; omega
              -- R: the line break after the padding and what follows
              let R := nl.bytes ++ (p.hdr ++ (nl.bytes ++ rDataOf nl bnd ep p ps'))
              have hT : delim bnd ++ rTailOf nl bnd ep (p :: ps') = (delim bnd ++ p.pad) ++ R := by
                simp [rTailOf, R]
              rw [hT] at hbody
              have hDP : (delim bnd ++ p.pad).length = bnd.length + 2 + p.pad.length := by
                simp [delim]; omega
              by_cases hA : k + (bnd.length + 2) ≤ bnd.length + 2 + p.pad.length
              · -- entirely inside `--boundary` + padding: `--boundary` would be white space
                have hk : k ≤ (delim bnd ++ p.pad).length := by omega
                rw [List.drop_append_of_le_length hk] at hbody
                have hp : (delim bnd).isPrefixOf ((delim bnd ++ p.pad).drop k ++ R) = true := by
                  rw [hbody, List.isPrefixOf_iff_prefix]; exact List.prefix_append _ _
                rw [isPrefixOf_append_of_length_le R (by rw [delim_length]; simp [delim]; omega),
                  List.isPrefixOf_iff_prefix] at hp
                rcases hp with ⟨Z, hZ⟩
                have := self_overlap_hws hpad (delim bnd).length (delim bnd) (Nat.le_refl _) k hk1 ⟨Z, hZ.symm⟩
                have h45 := this 45 (by simp [delim])
                revert h45; decide
              · by_cases hB : k ≤ bnd.length + 2 + p.pad.length
                · -- it would contain the first byte of the line break
                  let i0 := bnd.length + 2 + p.pad.length - k
                  have hi0 : i0 < (delim bnd).length := by rw [delim_length]; simp only [i0]; omega
                  have h2 : ((delim bnd ++ p.pad) ++ R).drop (k + i0) = (delim bnd).drop i0 ++ (r ++ fut) := by
                    rw [← List.drop_drop, hbody, List.drop_append_of_le_length (by omega)]
                  have hki : k + i0 = (delim bnd ++ p.pad).length := by rw [hDP]; simp only [i0]; omega
                  rw [hki, List.drop_left] at h2
                  rcases nl.head_isNl (p.hdr ++ (nl.bytes ++ rDataOf nl bnd ep p ps')) with ⟨a, t', he, ha⟩
                  simp only [R] at h2
                  rw [he] at h2
                  match hq : (delim bnd).drop i0, h2 with
                  | [], _ =>
                    have := congrArg List.length hq
                    simp at this; omega
                  | y :: ys, h2 =>
                    simp at h2
                    have hy : y ∈ delim bnd := List.mem_of_mem_drop (by rw [hq]; simp)
                    have := not_nl_of_mem (delim_no_nl hb) hy
                    rw [← h2.1, ha] at this
                    simp at this
                · -- after the padding: the buffer is too short
                  omega
  have := searchDelim_skip (bnd := bnd) (o := true) b b.length (fun j _ => hall j)
  rw [this]
  simp [searchDelim]

/-- what comes after the delimiter that ends a part -/
def GoodNext (nl : Nl) (bnd ep pr : Bytes) (lead : Bool) (d : Decoder) (fut : Bytes) : List RawPart → Prop
  | [] => Good nl bnd ep pr lead d fut .epi
  | p :: ps => ∃ lf, Good nl bnd ep pr lead d fut (.hdr lf p ps)

/-- anchored `preamble_re` matches persist under extension -/
theorem matchDelimAt_true_append {bnd x : Bytes} {n : Nat} {f : Bool} (c : Bytes)
    (h : matchDelimAt bnd true x = some (n, f)) : ∃ n', matchDelimAt bnd true (x ++ c) = some (n', f) := by
  rcases matchDelimAt_iff'.1 h with ⟨r, m, _, hd, hm, _⟩
  rcases matchTail_append c hm with ⟨m', hm', _⟩
  have hlen : x.length = lbLen x + (bnd.length + 2) + r.length := by
    have := congrArg List.length hd
    simp [delim] at this
    have := lbLen_le_length x
    omega
  have hlb : lbLen (x ++ c) = lbLen x := lbLen_append_of_two_le c (by omega)
  refine ⟨_, matchDelimAt_iff'.2 ⟨r ++ c, m', by simp, ?_, hm', rfl⟩⟩
  rw [hlb, List.drop_append_of_le_length (lbLen_le_length x), hd]; simp

/-- `preamble_re` finds nothing that starts inside a preamble without `--boundary` (a preamble that
ends in CR would merge with a bare-LF delimiter, hence `hl`) -/
theorem no_match_in_pre {bnd : Bytes} (hb : BoundaryOk bnd) {pr : Bytes} {c : UInt8} (Y : Bytes)
    (hc : isNl c = true) (h : containsSub (delim bnd) pr = false) (hl : c = 10 → pr.getLast? ≠ some 13) :
    ∀ j, j < pr.length → matchDelimAt bnd true ((pr ++ c :: Y).drop j) = none := by
  intro j hj
  cases hx : matchDelimAt bnd true ((pr ++ c :: Y).drop j) with
  | none => rfl
  | some v =>
    exfalso
    rcases v with ⟨n, f⟩
    rw [List.drop_append_of_le_length (by omega)] at hx
    rcases matchDelimAt_iff'.1 hx with ⟨r, m, _, hd, _, _⟩
    have hu : 0 < (pr.drop j).length := by simp; omega
    -- the leading line break (if any) lies inside the preamble
    have hlb : lbLen (pr.drop j ++ c :: Y) ≤ (pr.drop j).length := by
      match hq : pr.drop j, hu with
      | [a], _ =>
        simp only [List.singleton_append, List.length_singleton]
        by_cases ha : a = 13
        · subst ha
          have hc10 : c ≠ 10 := by
            intro e
            have hg := List.getLast?_drop (l := pr) (i := j)
            rw [hq] at hg
            simp [Nat.not_le.2 hj] at hg
            exact hl e hg.symm
          rw [lbLen_cr_not_lf Y hc10]; omega
        · by_cases ha2 : a = 10
          · subst ha2; rw [lbLen_lf]; omega
          · rw [lbLen_cons_not_nl (by simp [isNl, ha, ha2])]; omega
      | a :: b :: t, _ =>
        have := lbLen_le_two ((a :: b :: t) ++ c :: Y)
        simp at this ⊢; omega
    rw [List.drop_append_of_le_length hlb] at hd
    have hp : (delim bnd).isPrefixOf ((pr.drop j).drop (lbLen (pr.drop j ++ c :: Y)) ++ c :: Y) = true := by
      rw [hd, List.isPrefixOf_iff_prefix]; exact List.prefix_append _ _
    rw [isPrefixOf_append_nl _ Y (delim_no_nl hb) hc, List.drop_drop] at hp
    have : containsSub (delim bnd) pr = true := by
      rw [← List.take_append_drop (j + lbLen (pr.drop j ++ c :: Y)) pr]
      exact containsSub_append_left _ (containsSub_of_prefix hp)
    rw [h] at this; simp at this

/-- the body from `NL--boundary` on: what `preamble_re` anchored at its start says about a prefix -/
theorem first_delim_core {bnd : Bytes} (hb : BoundaryOk bnd) {ps : List RawPart} (hvs : ∀ q ∈ ps, RawOk nl bnd q)
    {b fut : Bytes}
    (hcat : b ++ fut = rawBody nl bnd ep ps) :
    (matchDelimAt bnd true b = none → searchDelim bnd true b = none ∧ fut ≠ []) ∧
    (∀ e f, matchDelimAt bnd true b = some (e, f) →
      f = ps.isEmpty ∧ 0 < e ∧ e ≤ b.length ∧
      (f = false → ∃ lf, b.drop e ++ fut = lfPre lf ++ rAfterOf nl bnd ep ps)) := by
  rcases rawBody_match (nl := nl) (ep := ep) ps hvs with ⟨m, hM, hMdrop, hmn⟩
  constructor
  · intro h0
    refine ⟨pre_no_match hb hvs hcat h0, ?_⟩
    intro hfe
    rw [hfe, List.append_nil] at hcat
    rw [hcat, matchDelimAt_true_of_false hM] at h0; simp at h0
  · intro e f h0
    have hbnd0 := matchDelimAt_bounds_any h0
    have hlb : 0 < lbLen b := by
      rcases nl.head_isNl (delim bnd ++ rTailOf nl bnd ep ps) with ⟨a, t, he, ha⟩
      cases b with
      | nil => simp at hbnd0; omega
      | cons x b' =>
        rw [rawBody_eq, he] at hcat
        simp at hcat
        exact lbLen_pos_iff.2 ⟨x, b', rfl, by rw [hcat.1]; exact ha⟩
    have h0f := matchDelimAt_false_of_true hlb h0
    rcases matchDelimAt_append fut h0f with ⟨e', he', hrel⟩
    rw [hcat, hM] at he'
    simp only [Option.some.injEq, Prod.mk.injEq] at he'
    rcases he' with ⟨he', hF⟩
    refine ⟨hF.symm, hbnd0.1, hbnd0.2, ?_⟩
    · intro hf
      subst hf
      rcases hrel rfl with heq | ⟨heq, hlen, c', hc⟩
      · refine ⟨false, ?_⟩
        simp only [lfPre, Bool.false_eq_true, if_false, List.nil_append]
        rw [← hMdrop, he', heq, ← hcat, List.drop_append_of_le_length hbnd0.2]
      · refine ⟨true, ?_⟩
        simp only [lfPre, if_true]
        have hd0 : b.drop e = [] := by rw [← hlen]; simp
        simp only [hd0, List.nil_append, hc]
        rw [← hMdrop, he', heq, ← hcat, hc, ← hlen]
        have := drop_add_append b (10 :: c') 1
        rw [Nat.add_comm] at this
        rw [this]; rfl

/-- **the first delimiter of a body with preamble**, seen through any prefix of the body -/
theorem pre_search {bnd : Bytes} (hb : BoundaryOk bnd) {ps : List RawPart} (hvs : ∀ q ∈ ps, RawOk nl bnd q)
    (hpre : PreFreeR nl bnd ep pr lead ps)
    {b fut : Bytes} (hcat : b ++ fut = bodyOfR nl bnd ep pr lead ps) :
    (searchDelim bnd true b = none ∧ fut ≠ []) ∨
    (∃ e f, searchDelim bnd true b = some (pr.length, e, f) ∧ f = ps.isEmpty ∧ pr.length < e ∧
      e ≤ b.length ∧
      (f = false → ∃ lf, b.drop e ++ fut = lfPre lf ++ rAfterOf nl bnd ep ps)) := by
  have hnp : 0 < nl.bytes.length := nl.len_pos
  cases lead with
  | true =>
    simp only [PreFreeR, if_true] at hpre
    simp only [bodyOfR, if_true] at hcat
    rcases nl.head_isNl (delim bnd ++ rTailOf nl bnd ep ps) with ⟨c, Y, hcY, _⟩
    have hY : rawBody nl bnd ep ps = c :: Y := by rw [rawBody_eq, hcY]
    -- nothing matches at a position inside the preamble, in the buffer or in the body
    have hnone : ∀ j, j < pr.length → matchDelimAt bnd true (b.drop j) = none := by
      intro j hj
      cases hx : matchDelimAt bnd true (b.drop j) with
      | none => rfl
      | some v =>
        exfalso
        rcases v with ⟨n, f⟩
        have hjb : j ≤ b.length := by
          apply Nat.le_of_not_lt; intro hlt
          rw [List.drop_eq_nil_of_le (by omega)] at hx
          simp [matchDelimAt, lbLen] at hx
        rcases matchDelimAt_true_append fut hx with ⟨n', hn'⟩
        rw [← List.drop_append_of_le_length hjb, hcat, hpre j hj] at hn'; simp at hn'
    by_cases hlen : b.length ≤ pr.length
    · left
      constructor
      · have := searchDelim_skip (bnd := bnd) (o := true) b b.length (fun j hj => hnone j (by omega))
        rw [this]; simp [searchDelim]
      · intro hfe
        rw [hfe, List.append_nil] at hcat
        have := congrArg List.length hcat
        rw [hY] at this
        simp at this; omega
    · have hsplit : b = pr ++ b.drop pr.length := by
        have h1 : b.take pr.length = pr := by
          have : (b ++ fut).take pr.length = pr := by rw [hcat]; simp
          rw [List.take_append_of_le_length (by omega)] at this; exact this
        have h2 := List.take_append_drop pr.length b
        rw [h1] at h2
        exact h2.symm
      have hcat' : b.drop pr.length ++ fut = rawBody nl bnd ep ps := by
        have : (b ++ fut).drop pr.length = rawBody nl bnd ep ps := by rw [hcat]; simp
        rw [List.drop_append_of_le_length (by omega)] at this; exact this
      have hskip := searchDelim_skip (bnd := bnd) (o := true) b pr.length hnone
      rcases first_delim_core hb hvs hcat' with ⟨hA, hB⟩
      cases h0 : matchDelimAt bnd true (b.drop pr.length) with
      | none =>
        left
        rcases hA h0 with ⟨h1, h2⟩
        exact ⟨by rw [hskip, h1]; rfl, h2⟩
      | some v =>
        right
        rcases v with ⟨e, f⟩
        rcases hB e f h0 with ⟨hf, he0, hle, hnext⟩
        have hs0 : searchDelim bnd true (b.drop pr.length) = some (0, e, f) := by
          cases hq : b.drop pr.length with
          | nil => rw [hq] at hle; simp at hle; omega
          | cons a t => rw [hq] at h0; exact searchDelim_cons_some h0
        refine ⟨e + pr.length, f, by rw [hskip, hs0]; simp [shift], hf, by omega, ?_, ?_⟩
        · simp at hle; omega
        · intro h
          rcases hnext h with ⟨lf, hl⟩
          refine ⟨lf, ?_⟩
          rw [← hl, Nat.add_comm, ← List.drop_drop]
  | false =>
    simp only [PreFreeR, Bool.false_eq_true, if_false] at hpre
    subst hpre
    simp only [bodyOfR, Bool.false_eq_true, if_false, List.nil_append] at hcat
    have hY : rawBody nl bnd ep ps = nl.bytes ++ (delim bnd ++ rTailOf nl bnd ep ps) := rawBody_eq bnd ps
    have hdropY : (rawBody nl bnd ep ps).drop nl.len = delim bnd ++ rTailOf nl bnd ep ps := by
      rw [hY]; simp [Nl.len]
    rw [hdropY] at hcat
    have hcat2 : (nl.bytes ++ b) ++ fut = rawBody nl bnd ep ps := by rw [hY, List.append_assoc, hcat]
    rcases first_delim_core hb hvs hcat2 with ⟨hA, hB⟩
    have hlbb : lbLen (nl.bytes ++ b) = nl.len := by
      cases b with
      | nil => cases nl <;> simp [Nl.bytes, Nl.len, lbLen]
      | cons x b' =>
        have hx : x = 45 := by
          simp [delim] at hcat; exact hcat.1
        subst hx
        exact Nl.lbLen_append b' (by decide)
    -- the same match with and without the leading line break
    have hrel : ∀ e f, matchDelimAt bnd true (nl.bytes ++ b) = some (e, f) →
        matchDelimAt bnd true b = some (e - nl.len, f) ∧ nl.len ≤ e := by
      intro e f h
      rcases matchDelimAt_iff'.1 h with ⟨r, m, _, hd, hm, hn⟩
      rw [hlbb] at hd hn
      have hd' : b = delim bnd ++ r := by simpa [Nl.len] using hd
      have hl0 : lbLen b = 0 := by rw [hd']; exact lbLen_cons_not_nl (by decide)
      exact ⟨matchDelimAt_iff'.2 ⟨r, m, by simp, by rw [hl0]; simpa using hd', hm, by rw [hl0]; omega⟩, by omega⟩
    cases h0 : matchDelimAt bnd true (nl.bytes ++ b) with
    | none =>
      left
      rcases hA h0 with ⟨h1, h2⟩
      exact ⟨searchDelim_none_of_nl_append h1, h2⟩
    | some v =>
      right
      rcases v with ⟨e, f⟩
      rcases hB e f h0 with ⟨hf, he0, hle, hnext⟩
      rcases hrel e f h0 with ⟨hm, he2⟩
      have hbounds := matchDelimAt_bounds_any hm
      have hs0 : searchDelim bnd true b = some (0, e - nl.len, f) := by
        cases hq : b with
        | nil => rw [hq] at hbounds; simp at hbounds; omega
        | cons a t => rw [hq] at hm; exact searchDelim_cons_some hm
      refine ⟨e - nl.len, f, by simpa using hs0, hf, by simp; omega, hbounds.2, ?_⟩
      · intro h
        rcases hnext h with ⟨lf, hl⟩
        refine ⟨lf, ?_⟩
        rw [← hl]
        have h3 := drop_add_append nl.bytes b (e - nl.len)
        have h4 : e - nl.len + nl.bytes.length = e := by simp [Nl.len] at he2 ⊢; omega
        rw [h4] at h3
        rw [h3]

theorem nextEvent_of_step' {d d' : Decoder} {ev : Event} (hc : d.complete = false)
    (h : step d = .ok (ev, d')) : nextEvent d = .ok (ev, d') := by
  unfold nextEvent; rw [h, hc]; simp

/-- one `next_event` in the PREAMBLE phase, on any prefix of the body -/
theorem step_pre {bnd : Bytes} (hb : BoundaryOk bnd) {d : Decoder} {fut : Bytes}
    {ps : List RawPart} (hvs : ∀ q ∈ ps, RawOk nl bnd q) (hg : Good nl bnd ep pr lead d fut (.pre ps)) :
    (∃ d', nextEvent d = .ok (.needData, d') ∧ Good nl bnd ep pr lead d' fut (.pre ps) ∧ fut ≠ []) ∨
    (∃ x d', nextEvent d = .ok (.preamble x, d') ∧ GoodNext nl bnd ep pr lead d' fut ps) := by
  rcases hg with ⟨hpl, hst, hcat, hpre, hearly⟩
  have hpl' := hpl
  rcases hpl with ⟨hbn, hcomp, hmm, hmp⟩
  have hps := pre_search (nl := nl) (ep := ep) hb hvs hpre hcat
  -- the retained search position does not matter (`noEarly_next`: no bound on padding)
  have hfrom : searchDelimFrom d.boundary true d.searchPos d.buffer = searchDelim bnd true d.buffer := by
    rw [hbn]; exact hearly.search
  rcases hps with ⟨hnone, hfut⟩ | ⟨e, f, hsome, hf, hlt, hle, hnext⟩
  · left
    let d' : Decoder := { d with searchPos := nextSearchPos d.boundary d.buffer d.searchPos }
    refine ⟨d', ?_, ⟨hpl', hst, hcat, hpre, by simp only [d']; rw [hbn]; exact noEarly_next hearly hnone⟩, hfut⟩
    apply nextEvent_of_step' hcomp
    unfold step
    rw [hst]
    simp only
    rw [hfrom, hnone]
    simp only [d']
    congr 2
    cases d
    simp only at hst
    subst hst
    rfl
  · right
    let d' : Decoder := { d with buffer := d.buffer.drop e, state := afterDelim f, searchPos := 0 }
    refine ⟨d.buffer.take pr.length, d', ?_, ?_⟩
    · apply nextEvent_of_step' hcomp
      unfold step
      rw [hst]
      simp only
      rw [hfrom, hsome]
    · cases ps with
      | nil =>
        simp only [List.isEmpty_nil] at hf
        subst hf
        exact ⟨hpl', rfl⟩
      | cons p' ps' =>
        simp only [List.isEmpty_cons] at hf
        subst hf
        rcases hnext rfl with ⟨lf, hl⟩
        exact ⟨lf, hpl', rfl, by simpa [d'] using hl, [], d.buffer.drop e, by simp [d'],
          by simp [searchBlank], by simp [d']⟩

/-- a delimiter recognised in the buffer: it is the one that ends the part -/
theorem decision_next {bnd : Bytes} (hb : BoundaryOk bnd) {d : Decoder} {fut pre : Bytes} {p : RawPart}
    {ps : List RawPart} (hpl : Plain bnd d) (hsp : d.searchPos = 0)
    (hinv : DataInv nl bnd ep p ps pre d.buffer fut) {s1 e1 : Nat} {f1 : Bool}
    (hs : searchDelim bnd false d.buffer = some (s1, e1, f1)) :
    f1 = ps.isEmpty ∧ (pre ++ d.buffer.take s1).drop nl.len = p.payload ∧
      GoodNext nl bnd ep pr lead { d with buffer := d.buffer.drop e1, state := afterDelim f1 } fut ps := by
  rcases hinv with ⟨s0, e0, h1, h2, h3⟩
  rcases searchDelim_append_stable hb hs fut with ⟨e1', hst, hrel⟩
  rw [h1] at hst
  simp only [Option.some.injEq, Prod.mk.injEq] at hst
  rcases hst with ⟨rfl, rfl, hF⟩
  have hbd := searchDelim_bounds hs
  refine ⟨hF.symm, ?_, ?_⟩
  · rw [List.take_append_of_le_length (by omega)] at h2; exact h2
  · cases ps with
    | nil =>
      simp only [List.isEmpty_nil] at hF
      subst hF
      exact ⟨hpl, rfl⟩
    | cons p' ps' =>
      simp only [List.isEmpty_cons] at hF
      subst hF
      rcases hrel rfl with he | ⟨he, hlen, c', hc⟩
      · refine ⟨false, hpl, rfl, ?_, [], d.buffer.drop e1, by simp, by simp [searchBlank], by simp [hsp]⟩
        simp only [lfPre, Bool.false_eq_true, if_false, List.nil_append]
        rw [← h3, he, List.drop_append_of_le_length hbd.2]
      · refine ⟨true, hpl, rfl, ?_, [], d.buffer.drop e1, by simp, by simp [searchBlank], by simp [hsp]⟩
        simp only [lfPre, if_true]
        have hd0 : d.buffer.drop e1 = [] := by rw [← hlen]; simp
        simp only [hd0, List.nil_append, hc]
        rw [← h3, he, hc, ← hlen]
        have := drop_add_append d.buffer (10 :: c') 1
        rw [Nat.add_comm] at this
        rw [this]; rfl

/-- a hold-back release keeps the invariant -/
theorem hold_next {bnd : Bytes} {pre buf fut : Bytes} {p : RawPart} {ps : List RawPart} {k : Nat}
    (hinv : DataInv nl bnd ep p ps pre buf fut) (hk : k ≤ buf.length)
    (hsafe : searchDelim bnd false (buf ++ fut) = shift k (searchDelim bnd false (buf.drop k ++ fut))) :
    DataInv nl bnd ep p ps (pre ++ buf.take k) (buf.drop k) fut := by
  rcases hinv with ⟨s0, e0, h1, h2, h3⟩
  rw [h1] at hsafe
  rcases shift_eq_some hsafe.symm with ⟨s2, e2, hs2, rfl, rfl⟩
  refine ⟨s2, e2, hs2, ?_, ?_⟩
  · rw [← h2]
    congr 1
    have hsplit : buf ++ fut = buf.take k ++ (buf.drop k ++ fut) := by
      rw [← List.append_assoc, List.take_append_drop]
    rw [hsplit]
    have hlen : (buf.take k).length = k := by simp [Nat.min_eq_left hk]
    have := take_add_append (buf.take k) (buf.drop k ++ fut) s2
    rw [hlen] at this
    rw [this]; simp
  · rw [← h3]
    have hsplit : buf ++ fut = buf.take k ++ (buf.drop k ++ fut) := by
      rw [← List.append_assoc, List.take_append_drop]
    rw [hsplit]
    have hlen : (buf.take k).length = k := by simp [Nat.min_eq_left hk]
    have := drop_add_append (buf.take k) (buf.drop k ++ fut) e2
    rw [hlen] at this
    rw [this]

theorem nextEvent_data_eq {d : Decoder} (hc : d.complete = false) (hst : d.state = .data) :
    nextEvent d = stepData d false ∨ ∃ d', stepData d false = .ok (.needData, d') ∧ nextEvent d = .ok (.needData, d') := by
  unfold nextEvent step
  rw [hst]
  simp only
  cases hs : stepData d false with
  | error e => left; rfl
  | ok v => rcases v with ⟨ev, d'⟩; left; simp [hc]

theorem nextEvent_of_step {d d' : Decoder} {ev : Event} (hc : d.complete = false)
    (h : step d = .ok (ev, d')) : nextEvent d = .ok (ev, d') := by
  unfold nextEvent; rw [h, hc]; simp

/-- one `next_event` in the DATA phase, on any prefix of the stream -/
theorem step_dataM {bnd : Bytes} (hb : BoundaryOk bnd) {d : Decoder} {fut : Bytes} {p : RawPart}
    {ps : List RawPart} {E : Bytes} (hg : Good nl bnd ep pr lead d fut (.dataM p ps E)) :
    (∃ d', nextEvent d = .ok (.needData, d') ∧ Good nl bnd ep pr lead d' fut (.dataM p ps E) ∧ fut ≠ []) ∨
    (∃ x d', nextEvent d = .ok (.data x true, d') ∧ Good nl bnd ep pr lead d' fut (.dataM p ps (E ++ x))) ∨
    (∃ x d', E ++ x = p.payload ∧ nextEvent d = .ok (.data x false, d') ∧ GoodNext nl bnd ep pr lead d' fut ps) := by
  rcases hg with ⟨hpl, hst, hsp, pre, hE, hpre2, hinv⟩
  have hpl' := hpl
  rcases hpl with ⟨hbn, hcomp, hmm, hmp⟩
  cases hs : searchDelim bnd false d.buffer with
  | some v =>
    rcases v with ⟨s1, e1, f1⟩
    right; right
    rcases decision_next hb hpl' hsp hinv hs with ⟨hf, hpay, hnext⟩
    refine ⟨d.buffer.take s1, { d with buffer := d.buffer.drop e1, state := afterDelim f1 }, ?_, ?_, hnext⟩
    · rw [← hpay, List.drop_append_of_le_length hpre2, hE]
    · apply nextEvent_of_step hcomp
      unfold step
      rw [hst]
      simp only [stepData, hbn, dataStep_false, dataCut_of_search hs]
      simp
  | none =>
    rcases dataCut_of_no_search hb hs with ⟨k, hk, hkle, _, hsafe⟩
    have hinv' := hold_next hinv hkle (hsafe fut)
    cases hx : (d.buffer.take k).isEmpty with
    | true =>
      left
      have hnil : d.buffer.take k = [] := by simpa using hx
      have hdrop : d.buffer.drop k = d.buffer := by
        have h2 := List.take_append_drop k d.buffer
        rw [hnil] at h2; simpa using h2
      refine ⟨{ d with buffer := d.buffer.drop k, state := .data }, ?_, ?_, ?_⟩
      · apply nextEvent_of_step hcomp
        unfold step
        rw [hst]
        simp only [stepData, hbn, dataStep_false, hk, hx]
        simp
      · refine ⟨hpl', rfl, hsp, pre, hE, hpre2, ?_⟩
        rw [hnil, List.append_nil] at hinv'
        exact hinv'
      · intro hfe
        rcases hinv with ⟨s0, e0, h1, _, _⟩
        rw [hfe, List.append_nil, hs] at h1; simp at h1
    | false =>
      right; left
      refine ⟨d.buffer.take k, { d with buffer := d.buffer.drop k, state := .data }, ?_, ?_⟩
      · apply nextEvent_of_step hcomp
        unfold step
        rw [hst]
        simp only [stepData, hbn, dataStep_false, hk, hx]
        simp
      · refine ⟨hpl', rfl, hsp, pre ++ d.buffer.take k, ?_, by simp; omega, hinv'⟩
        rw [List.drop_append_of_le_length hpre2, hE]

/-- one `next_event` in the DATA_START phase, on any prefix of the stream -/
theorem step_dataS {bnd : Bytes} (hb : BoundaryOk bnd) {d : Decoder} {fut : Bytes} {p : RawPart}
    {ps : List RawPart} (hg : Good nl bnd ep pr lead d fut (.dataS p ps)) :
    (nextEvent d = .ok (.needData, d) ∧ fut ≠ []) ∨
    (∃ x d', nextEvent d = .ok (.data x true, d') ∧ Good nl bnd ep pr lead d' fut (.dataM p ps x)) ∨
    (∃ d', nextEvent d = .ok (.data p.payload false, d') ∧ GoodNext nl bnd ep pr lead d' fut ps) := by
  rcases hg with ⟨hpl, hst, hsp, hlb, hZ, hinv⟩
  have hpl' := hpl
  rcases hpl with ⟨hbn, hcomp, hmm, hmp⟩
  cases hs : searchDelim bnd false d.buffer with
  | some v =>
    rcases v with ⟨s1, e1, f1⟩
    right; right
    rcases decision_next hb hpl' hsp hinv hs with ⟨hf, hpay, hnext⟩
    have hbd := searchDelim_bounds hs
    have he0 : e1 ≠ 0 := by omega
    have hlb2 : lbLen d.buffer = nl.len := by
      rw [← hZ, lbLen_append_of_two_le fut (searchDelim_some_two_le hs)]
    refine ⟨{ d with buffer := d.buffer.drop e1, state := afterDelim f1 }, ?_, hnext⟩
    apply nextEvent_of_step hcomp
    unfold step
    rw [hst]
    simp only [stepData, hbn, dataStep_true hlb, dataCut_of_search hs, he0, if_false]
    rw [hlb2]
    simp only [List.nil_append] at hpay
    rw [hpay]
    simp
  | none =>
    rcases dataCut_of_no_search hb hs with ⟨k, hk, hkle, hkk, hsafe⟩
    by_cases hk0 : k = 0
    · left
      subst hk0
      constructor
      · apply nextEvent_of_step hcomp
        unfold step
        rw [hst]
        simp only [stepData, hbn, dataStep_true hlb, hk, if_true]
        congr 2
        cases d; simp_all
      · intro hfe
        rcases hinv with ⟨s0, e0, h1, _, _⟩
        rw [hfe, List.append_nil, hs] at h1; simp at h1
    · right; left
      have hlbk := lb_le_hold hlb (by omega) hkk
      have hlb2 : lbLen d.buffer = nl.len := by
        rw [← hlbk.2 fut, hZ]
      have hinv' := hold_next hinv hkle (hsafe fut)
      refine ⟨(d.buffer.take k).drop nl.len, { d with buffer := d.buffer.drop k, state := .data }, ?_, ?_⟩
      · apply nextEvent_of_step hcomp
        unfold step
        rw [hst]
        simp only [stepData, hbn, dataStep_true hlb, hk, hk0, if_false]
        rw [hlb2]
        simp
      · refine ⟨hpl', rfl, hsp, d.buffer.take k, rfl, ?_, ?_⟩
        · have := hlbk.1
          rw [hlb2] at this
          simp [List.length_take]; omega
        · simpa using hinv'

theorem step_epi {bnd : Bytes} {d : Decoder} {fut : Bytes} (hg : Good nl bnd ep pr lead d fut .epi) :
    nextEvent d = .ok (.needData, d) := by
  rcases hg with ⟨⟨_, hcomp, _, _⟩, hst⟩
  apply nextEvent_of_step hcomp
  unfold step
  rw [hst]
  simp [hcomp]

/-! ### accounting: what `partsOf` makes of the events -/

/-- the accumulator of `partsGo` that a phase expects -/
def CurOk : Phase → Option Part → Prop
  | .pre _, _ => True
  | .hdr _ _ _, _ => True
  | .dataS p _, cur => cur = some { p.out with payload := [] }
  | .dataM p _ E, cur => cur = some { p.out with payload := E }
  | .epi, _ => True

/-- what `partsGo` will have produced at the end -/
def Exp : Phase → Option Part → List Part
  | .pre ps, cur => cur.toList ++ ps.map RawPart.out
  | .hdr _ p ps, cur => cur.toList ++ (p :: ps).map RawPart.out
  | .dataS p ps, _ => (p :: ps).map RawPart.out
  | .dataM p ps _, _ => (p :: ps).map RawPart.out
  | .epi, cur => cur.toList

/-- the events `evs` take the accounting from phase `ph` to phase `ph'` -/
def Acct (ph ph' : Phase) (evs : List Event) : Prop :=
  ∀ cur, CurOk ph cur → ∃ cur' out, CurOk ph' cur' ∧
    (∀ rest, partsGo cur (evs ++ rest) = out ++ partsGo cur' rest) ∧ Exp ph cur = out ++ Exp ph' cur'

theorem Acct.refl (ph : Phase) : Acct ph ph [] :=
  fun cur h => ⟨cur, [], h, fun _ => rfl, rfl⟩

theorem Acct.trans {a b c : Phase} {e1 e2 : List Event} (h1 : Acct a b e1) (h2 : Acct b c e2) :
    Acct a c (e1 ++ e2) := by
  intro cur hc
  rcases h1 cur hc with ⟨cur1, out1, hc1, hp1, hx1⟩
  rcases h2 cur1 hc1 with ⟨cur2, out2, hc2, hp2, hx2⟩
  refine ⟨cur2, out1 ++ out2, hc2, ?_, ?_⟩
  · intro rest
    rw [List.append_assoc, hp1, hp2, List.append_assoc]
  · rw [hx1, hx2, List.append_assoc]

/-- the parts of a phase are valid -/
def PhaseValid (nl : Nl) (bnd : Bytes) : Phase → Prop
  | .pre ps => ∀ q ∈ ps, RawOk nl bnd q
  | .hdr _ p ps => RawOk nl bnd p ∧ ∀ q ∈ ps, RawOk nl bnd q
  | .dataS p ps => RawOk nl bnd p ∧ ∀ q ∈ ps, RawOk nl bnd q
  | .dataM p ps _ => RawOk nl bnd p ∧ ∀ q ∈ ps, RawOk nl bnd q
  | .epi => True

theorem acct_head {bnd : Bytes} {lf : Bool} {p : RawPart} {ps : List RawPart} (hv : RawOk nl bnd p) :
    Acct (.hdr lf p ps) (.dataS p ps) [partHeadEvent p.out] := by
  intro cur _
  have hf := (rawOk_event hv).2
  refine ⟨some { p.out with payload := [] }, cur.toList, rfl, ?_, rfl⟩
  intro rest
  generalize p.out = q at hf ⊢
  rcases q with ⟨isFile, name, filename, headers, payload⟩
  simp only at hf
  cases filename with
  | none =>
    have hfile : isFile = false := by simpa using hf
    subst hfile
    simp [partHeadEvent, partsGo]
  | some f =>
    have hfile : isFile = true := by simpa using hf
    subst hfile
    simp [partHeadEvent, partsGo]

theorem acct_dataS_more {p : RawPart} {ps : List RawPart} {x : Bytes} :
    Acct (.dataS p ps) (.dataM p ps x) [.data x true] := by
  intro cur hc
  simp only [CurOk] at hc
  subst hc
  exact ⟨some { p.out with payload := x }, [], rfl, fun rest => by simp [partsGo], rfl⟩

theorem acct_dataM_more {p : RawPart} {ps : List RawPart} {E x : Bytes} :
    Acct (.dataM p ps E) (.dataM p ps (E ++ x)) [.data x true] := by
  intro cur hc
  simp only [CurOk] at hc
  subst hc
  exact ⟨some { p.out with payload := E ++ x }, [], rfl, fun rest => by simp [partsGo], rfl⟩

/-- the phase after the last Data event of a part -/
def nextPhaseOk (ph' : Phase) (ps : List RawPart) : Prop :=
  match ps with
  | [] => ph' = .epi
  | p' :: ps' => ∃ lf, ph' = .hdr lf p' ps'

theorem acct_last {p : RawPart} {ps : List RawPart} {ph ph' : Phase} {E x : Bytes}
    (hph : ph = .dataS p ps ∧ E = [] ∨ ph = .dataM p ps E) (hx : E ++ x = p.payload)
    (hn : nextPhaseOk ph' ps) : Acct ph ph' [.data x false] := by
  intro cur hc
  have hcur : cur = some { p.out with payload := E } := by
    rcases hph with ⟨rfl, rfl⟩ | rfl <;> simpa [CurOk] using hc
  subst hcur
  have hq : ({ p.out with payload := E ++ x } : Part) = p.out := by
    rw [hx]; rfl
  have hexp : Exp ph (some { p.out with payload := E }) = (p :: ps).map RawPart.out := by
    rcases hph with ⟨rfl, _⟩ | rfl <;> rfl
  cases ps with
  | nil =>
    simp only [nextPhaseOk] at hn
    subst hn
    refine ⟨some (p.out), [], trivial, ?_, ?_⟩
    · intro rest; simp [partsGo, hq]
    · rw [hexp]; simp [Exp]
  | cons p' ps' =>
    rcases hn with ⟨lf, rfl⟩
    refine ⟨some (p.out), [], trivial, ?_, ?_⟩
    · intro rest; simp [partsGo, hq]
    · rw [hexp]; simp [Exp]

theorem acct_pre {ps : List RawPart} {ph' : Phase} (x : Bytes) (hn : nextPhaseOk ph' ps) :
    Acct (.pre ps) ph' [.preamble x] := by
  intro cur _
  cases ps with
  | nil =>
    simp only [nextPhaseOk] at hn
    subst hn
    exact ⟨cur, [], trivial, fun rest => by cases cur <;> simp [partsGo], by simp [Exp]⟩
  | cons p' ps' =>
    rcases hn with ⟨lf, rfl⟩
    exact ⟨cur, [], trivial, fun rest => by cases cur <;> simp [partsGo], by simp [Exp]⟩

/-! ### accounting for `MultiPartParser.parse`: fields and files -/

abbrev FormOut := List (Option Str × Str) × List FileItem

/-- what `MultiPartParser.parse` does when a part is complete -/
def finishP (acc : FormOut) (q : Part) : Except String FormOut :=
  if q.isFile then .ok (acc.1, acc.2 ++ [⟨q.name, q.filename.getD [], q.headers, q.payload⟩])
  else
    match partCharset q.headers with
    | .error e => .error e
    | .ok cs => .ok (acc.1 ++ [(q.name, decodeCharset cs q.payload)], acc.2)

/-- the fields and files of a list of decoded parts, in order -/
def formOfParts (acc : FormOut) : List Part → Except String FormOut
  | [] => .ok acc
  | q :: t =>
    match finishP acc q with
    | .error e => .error e
    | .ok a => formOfParts a t

def outOf (st : FormState) : FormOut := (st.fields, st.files)

def CurOkF : Phase → FormState → Prop
  | .pre _, _ => True
  | .hdr _ _ _, _ => True
  | .dataS p _, st => st.cur = some { p.out with payload := [] }
  | .dataM p _ E, st => st.cur = some { p.out with payload := E }
  | .epi, _ => True

/-- what the parser will return from this phase on -/
def ExpF : Phase → FormState → Except String FormOut
  | .pre ps, st => formOfParts (outOf st) (ps.map RawPart.out)
  | .hdr _ p ps, st => formOfParts (outOf st) ((p :: ps).map RawPart.out)
  | .dataS p ps, st => formOfParts (outOf st) ((p :: ps).map RawPart.out)
  | .dataM p ps _, st => formOfParts (outOf st) ((p :: ps).map RawPart.out)
  | .epi, st => .ok (outOf st)

/-- the events `evs` take the parser from phase `ph` to phase `ph'` (or make it fail the way the
reference does) -/
def FAcct (ph ph' : Phase) (evs : List Event) : Prop :=
  ∀ st, CurOkF ph st →
    (∃ st', CurOkF ph' st' ∧ (∀ rest, formEvents none st (evs ++ rest) = formEvents none st' rest) ∧
      ExpF ph st = ExpF ph' st') ∨
    (∃ e, (∀ rest, formEvents none st (evs ++ rest) = .error e) ∧ ExpF ph st = .error e)

theorem FAcct.refl (ph : Phase) : FAcct ph ph [] :=
  fun st h => Or.inl ⟨st, h, fun _ => rfl, rfl⟩

theorem FAcct.trans {a b c : Phase} {e1 e2 : List Event} (h1 : FAcct a b e1) (h2 : FAcct b c e2) :
    FAcct a c (e1 ++ e2) := by
  intro st hc
  rcases h1 st hc with ⟨st1, hc1, hp1, hx1⟩ | ⟨e, hp1, hx1⟩
  · rcases h2 st1 hc1 with ⟨st2, hc2, hp2, hx2⟩ | ⟨e, hp2, hx2⟩
    · exact Or.inl ⟨st2, hc2, fun rest => by rw [List.append_assoc, hp1, hp2], by rw [hx1, hx2]⟩
    · exact Or.inr ⟨e, fun rest => by rw [List.append_assoc, hp1, hp2], by rw [hx1, hx2]⟩
  · exact Or.inr ⟨e, fun rest => by rw [List.append_assoc, hp1], hx1⟩

theorem formEvents_cons (m : Option Nat) (st : FormState) (ev : Event) (rest : List Event) :
    formEvents m st (ev :: rest) =
      match formEvent m st ev with
      | .error e => .error e
      | .ok st' => formEvents m st' rest := rfl

theorem facct_pre {ps : List RawPart} {ph' : Phase} (x : Bytes) (hn : nextPhaseOk ph' ps) :
    FAcct (.pre ps) ph' [.preamble x] := by
  intro st _
  left
  cases ps with
  | nil =>
    simp only [nextPhaseOk] at hn
    subst hn
    exact ⟨st, trivial, fun rest => by simp [formEvents_cons, formEvent], by simp [ExpF, formOfParts]⟩
  | cons p' ps' =>
    rcases hn with ⟨lf, rfl⟩
    exact ⟨st, trivial, fun rest => by simp [formEvents_cons, formEvent], rfl⟩

theorem facct_head {bnd : Bytes} {lf : Bool} {p : RawPart} {ps : List RawPart} (hv : RawOk nl bnd p) :
    FAcct (.hdr lf p ps) (.dataS p ps) [partHeadEvent p.out] := by
  intro st _
  left
  have hf := (rawOk_event hv).2
  cases hfn : p.out.filename with
  | none =>
    have hfile : p.out.isFile = false := by rw [hf, hfn]; rfl
    refine ⟨{ st with cur := some { p.out with payload := [] }, fieldSize := some 0 }, ?_, ?_, rfl⟩
    · rfl
    · intro rest
      simp [formEvents_cons, formEvent, partHeadEvent, hfn, hfile]
  | some f =>
    have hfile : p.out.isFile = true := by rw [hf, hfn]; rfl
    refine ⟨{ st with cur := some { p.out with payload := [] }, fieldSize := none }, ?_, ?_, rfl⟩
    · rfl
    · intro rest
      simp [formEvents_cons, formEvent, partHeadEvent, hfn, hfile]

theorem facct_more {p : RawPart} {ps : List RawPart} {ph : Phase} {E x : Bytes}
    (hph : ph = .dataS p ps ∧ E = [] ∨ ph = .dataM p ps E) :
    FAcct ph (.dataM p ps (E ++ x)) [.data x true] := by
  intro st hc
  left
  have hcur : st.cur = some { p.out with payload := E } := by
    rcases hph with ⟨rfl, rfl⟩ | rfl <;> simpa [CurOkF] using hc
  refine ⟨{ st with cur := some { p.out with payload := E ++ x } }, rfl, ?_, ?_⟩
  · intro rest
    simp [formEvents_cons, formEvent, fieldSizeStep, hcur]
  · rcases hph with ⟨rfl, _⟩ | rfl <;> rfl

theorem facct_last {p : RawPart} {ps : List RawPart} {ph ph' : Phase} {E x : Bytes}
    (hph : ph = .dataS p ps ∧ E = [] ∨ ph = .dataM p ps E) (hx : E ++ x = p.payload)
    (hn : nextPhaseOk ph' ps) : FAcct ph ph' [.data x false] := by
  intro st hc
  have hcur : st.cur = some { p.out with payload := E } := by
    rcases hph with ⟨rfl, rfl⟩ | rfl <;> simpa [CurOkF] using hc
  have hq : ({ p.out with payload := E ++ x } : Part) = p.out := by rw [hx]; rfl
  have hx' : E ++ x = (p.out).payload := hx
  have hexp : ExpF ph st = formOfParts (outOf st) (p.out :: ps.map RawPart.out) := by
    rcases hph with ⟨rfl, _⟩ | rfl <;> rfl
  have hnext : ∀ st' : FormState, ExpF ph' st' = formOfParts (outOf st') (ps.map RawPart.out) := by
    intro st'
    cases ps with
    | nil => simp only [nextPhaseOk] at hn; subst hn; simp [ExpF, formOfParts]
    | cons p' ps' => rcases hn with ⟨lf, rfl⟩; rfl
  have hcok : ∀ st' : FormState, CurOkF ph' st' := by
    intro st'
    cases ps with
    | nil => simp only [nextPhaseOk] at hn; subst hn; trivial
    | cons p' ps' => rcases hn with ⟨lf, rfl⟩; trivial
  rw [hexp]
  simp only [formOfParts, finishP]
  cases hfile : (p.out).isFile with
  | true =>
    left
    refine ⟨{ st with cur := some (p.out),
                      files := st.files ++ [⟨(p.out).name, (p.out).filename.getD [],
                        (p.out).headers, (p.out).payload⟩] }, hcok _, ?_, ?_⟩
    · intro rest
      simp only [List.cons_append, List.nil_append, formEvents_cons, formEvent, fieldSizeStep, hcur, hq]
      simp [hfile, hx']
    · simp only [if_true]; rw [hnext]; rfl
  | false =>
    simp only [Bool.false_eq_true, if_false]
    cases hcs : partCharset (p.out).headers with
    | error e =>
      right
      refine ⟨e, ?_, rfl⟩
      intro rest
      simp only [List.cons_append, List.nil_append, formEvents_cons, formEvent, fieldSizeStep, hcur, hq]
      simp [hfile, hcs]
    | ok cs =>
      left
      refine ⟨{ st with cur := some (p.out),
                        fields := st.fields ++ [((p.out).name, decodeCharset cs (p.out).payload)] },
        hcok _, ?_, ?_⟩
      · intro rest
        simp only [List.cons_append, List.nil_append, formEvents_cons, formEvent, fieldSizeStep, hcur, hq]
        simp [hfile, hcs, hx']
      · simp only; rw [hnext]; rfl

theorem goodNext_phase {bnd : Bytes} {d : Decoder} {fut : Bytes} {ps : List RawPart}
    (h : GoodNext nl bnd ep pr lead d fut ps) (hv : ∀ q ∈ ps, RawOk nl bnd q) :
    ∃ ph', Good nl bnd ep pr lead d fut ph' ∧ PhaseValid nl bnd ph' ∧ nextPhaseOk ph' ps := by
  cases ps with
  | nil => exact ⟨.epi, h, trivial, rfl⟩
  | cons p' ps' =>
    rcases h with ⟨lf, hg⟩
    exact ⟨.hdr lf p' ps', hg, ⟨hv p' (by simp), fun q hq => hv q (by simp [hq])⟩, lf, rfl⟩

theorem shrink_step {d d1 : Decoder} {ev : Event} {n : Nat} (hn : nextEvent d = .ok (ev, d1))
    (hne : ev ≠ .needData) (hep : ∀ x, ev ≠ .epilogue x) (hle : d.buffer.length ≤ n) :
    ∃ k, n = k + 1 ∧ d1.buffer.length ≤ k := by
  have := nextEvent_consumes hn hne hep
  cases n with
  | zero => omega
  | succ k => exact ⟨k, rfl, by omega⟩

/-- **draining keeps the run on track**: from any good configuration, `drain` delivers events that
account for the expected parts and stops in a good configuration; when nothing more is to come it
stops after the closing delimiter. -/
theorem drain_good {bnd : Bytes} (hb : BoundaryOk bnd) (fut : Bytes) :
    ∀ (n : Nat) (d : Decoder) (ph : Phase) (acc : List Event), d.buffer.length ≤ n →
      Good nl bnd ep pr lead d fut ph → PhaseValid nl bnd ph →
      ∃ evs d' ph', DrainsOk d acc evs d' ∧ Good nl bnd ep pr lead d' fut ph' ∧ PhaseValid nl bnd ph' ∧ Acct ph ph' evs ∧
        FAcct ph ph' evs ∧ (fut = [] → ph' = .epi) := by
  intro n
  induction n with
  | zero =>
    intro d ph acc hle hg hv
    cases ph with
    | epi => exact ⟨[], d, .epi, DrainsOk.stop acc (step_epi hg), hg, trivial, Acct.refl _, FAcct.refl _, fun _ => rfl⟩
    | pre ps =>
      rcases step_pre hb hv hg with ⟨d', h1, h2, h3⟩ | ⟨x, d', h1, _⟩
      · exact ⟨[], d', _, DrainsOk.stop acc h1, h2, hv, Acct.refl _, FAcct.refl _, fun h => absurd h h3⟩
      · rcases shrink_step h1 (by simp) (by simp) hle with ⟨k, hk, _⟩; omega
    | hdr lf p ps =>
      rcases step_hdr hb hv.1 hv.2 hg with ⟨d', h1, h2, h3⟩ | ⟨d', h1, _⟩
      · exact ⟨[], d', _, DrainsOk.stop acc h1, h2, hv, Acct.refl _, FAcct.refl _, fun h => absurd h h3⟩
      · rcases shrink_step h1 (by unfold partHeadEvent; split <;> simp) (by unfold partHeadEvent; intro x; split <;> simp) hle
          with ⟨k, hk, _⟩
        omega
    | dataS p ps =>
      rcases step_dataS hb hg with ⟨h1, h3⟩ | ⟨x, d', h1, _⟩ | ⟨d', h1, _⟩
      · exact ⟨[], d, _, DrainsOk.stop acc h1, hg, hv, Acct.refl _, FAcct.refl _, fun h => absurd h h3⟩
      · rcases shrink_step h1 (by simp) (by simp) hle with ⟨k, hk, _⟩; omega
      · rcases shrink_step h1 (by simp) (by simp) hle with ⟨k, hk, _⟩; omega
    | dataM p ps E =>
      rcases step_dataM hb hg with ⟨d', h1, h2, h3⟩ | ⟨x, d', h1, _⟩ | ⟨x, d', _, h1, _⟩
      · exact ⟨[], d', _, DrainsOk.stop acc h1, h2, hv, Acct.refl _, FAcct.refl _, fun h => absurd h h3⟩
      · rcases shrink_step h1 (by simp) (by simp) hle with ⟨k, hk, _⟩; omega
      · rcases shrink_step h1 (by simp) (by simp) hle with ⟨k, hk, _⟩; omega
  | succ n ih =>
    intro d ph acc hle hg hv
    cases ph with
    | epi => exact ⟨[], d, .epi, DrainsOk.stop acc (step_epi hg), hg, trivial, Acct.refl _, FAcct.refl _, fun _ => rfl⟩
    | pre ps =>
      rcases step_pre hb hv hg with ⟨d', h1, h2, h3⟩ | ⟨x, d', h1, h2⟩
      · exact ⟨[], d', _, DrainsOk.stop acc h1, h2, hv, Acct.refl _, FAcct.refl _, fun h => absurd h h3⟩
      · rcases shrink_step h1 (by simp) (by simp) hle with ⟨k, hk, hle'⟩
        have hk' : k = n := by omega
        subst hk'
        rcases goodNext_phase h2 hv with ⟨ph1, hg1, hv1, hn1⟩
        rcases ih d' ph1 (.preamble x :: acc) hle' hg1 hv1 with ⟨evs, d2, ph2, hd, hg2, hv2, ha, hfa, hf⟩
        exact ⟨_, d2, ph2, DrainsOk.step_pre h1 hd, hg2, hv2, Acct.trans (acct_pre x hn1) ha,
          FAcct.trans (facct_pre x hn1) hfa, hf⟩
    | hdr lf p ps =>
      rcases step_hdr hb hv.1 hv.2 hg with ⟨d', h1, h2, h3⟩ | ⟨d', h1, h2⟩
      · exact ⟨[], d', _, DrainsOk.stop acc h1, h2, hv, Acct.refl _, FAcct.refl _, fun h => absurd h h3⟩
      · rcases shrink_step h1 (by unfold partHeadEvent; split <;> simp) (by unfold partHeadEvent; intro x; split <;> simp) hle
          with ⟨k, hk, hle'⟩
        have hk' : k = n := by omega
        subst hk'
        rcases ih d' (.dataS p ps) (partHeadEvent (p.out) :: acc) hle' h2 hv with
          ⟨evs, d2, ph2, hd, hg2, hv2, ha, hfa, hf⟩
        exact ⟨_, d2, ph2, DrainsOk.step_head h1 hd, hg2, hv2, Acct.trans (acct_head hv.1) ha, FAcct.trans (facct_head hv.1) hfa, hf⟩
    | dataS p ps =>
      rcases step_dataS hb hg with ⟨h1, h3⟩ | ⟨x, d', h1, h2⟩ | ⟨d', h1, h2⟩
      · exact ⟨[], d, _, DrainsOk.stop acc h1, hg, hv, Acct.refl _, FAcct.refl _, fun h => absurd h h3⟩
      · rcases shrink_step h1 (by simp) (by simp) hle with ⟨k, hk, hle'⟩
        have hk' : k = n := by omega
        subst hk'
        rcases ih d' (.dataM p ps x) (.data x true :: acc) hle' h2 hv with ⟨evs, d2, ph2, hd, hg2, hv2, ha, hfa, hf⟩
        exact ⟨_, d2, ph2, DrainsOk.step_data h1 hd, hg2, hv2, Acct.trans acct_dataS_more ha,
          FAcct.trans (facct_more (E := []) (Or.inl ⟨rfl, rfl⟩)) hfa, hf⟩
      · rcases shrink_step h1 (by simp) (by simp) hle with ⟨k, hk, hle'⟩
        have hk' : k = n := by omega
        subst hk'
        rcases goodNext_phase h2 hv.2 with ⟨ph1, hg1, hv1, hn1⟩
        rcases ih d' ph1 (.data p.payload false :: acc) hle' hg1 hv1 with ⟨evs, d2, ph2, hd, hg2, hv2, ha, hfa, hf⟩
        exact ⟨_, d2, ph2, DrainsOk.step_data h1 hd, hg2, hv2,
          Acct.trans (acct_last (E := []) (Or.inl ⟨rfl, rfl⟩) (by simp) hn1) ha,
          FAcct.trans (facct_last (E := []) (Or.inl ⟨rfl, rfl⟩) (by simp) hn1) hfa, hf⟩
    | dataM p ps E =>
      rcases step_dataM hb hg with ⟨d', h1, h2, h3⟩ | ⟨x, d', h1, h2⟩ | ⟨x, d', hx, h1, h2⟩
      · exact ⟨[], d', _, DrainsOk.stop acc h1, h2, hv, Acct.refl _, FAcct.refl _, fun h => absurd h h3⟩
      · rcases shrink_step h1 (by simp) (by simp) hle with ⟨k, hk, hle'⟩
        have hk' : k = n := by omega
        subst hk'
        rcases ih d' (.dataM p ps (E ++ x)) (.data x true :: acc) hle' h2 hv with
          ⟨evs, d2, ph2, hd, hg2, hv2, ha, hfa, hf⟩
        exact ⟨_, d2, ph2, DrainsOk.step_data h1 hd, hg2, hv2, Acct.trans acct_dataM_more ha,
          FAcct.trans (facct_more (Or.inr rfl)) hfa, hf⟩
      · rcases shrink_step h1 (by simp) (by simp) hle with ⟨k, hk, hle'⟩
        have hk' : k = n := by omega
        subst hk'
        rcases goodNext_phase h2 hv.2 with ⟨ph1, hg1, hv1, hn1⟩
        rcases ih d' ph1 (.data x false :: acc) hle' hg1 hv1 with ⟨evs, d2, ph2, hd, hg2, hv2, ha, hfa, hf⟩
        exact ⟨_, d2, ph2, DrainsOk.step_data h1 hd, hg2, hv2,
          Acct.trans (acct_last (Or.inr rfl) hx hn1) ha,
          FAcct.trans (facct_last (Or.inr rfl) hx hn1) hfa, hf⟩

/-! ### chunk after chunk -/

theorem good_receive {bnd : Bytes} {d : Decoder} {c fut : Bytes} {ph : Phase}
    (hg : Good nl bnd ep pr lead d (c ++ fut) ph) :
    ∃ d1, receive d (some c) = .ok d1 ∧ Good nl bnd ep pr lead d1 fut ph := by
  have hpl : Plain bnd d := by cases ph <;> exact hg.1
  rcases hpl with ⟨hbn, hcomp, hmm, hmp⟩
  refine ⟨{ d with buffer := d.buffer ++ c }, by simp [receive, hmm], ?_⟩
  cases ph with
  | epi => exact ⟨⟨hbn, hcomp, hmm, hmp⟩, hg.2⟩
  | pre ps =>
    rcases hg with ⟨_, hst, hcat, hfree, hearly⟩
    exact ⟨⟨hbn, hcomp, hmm, hmp⟩, hst, by simpa using hcat, hfree, hearly.append c⟩
  | hdr lf p ps =>
    rcases hg with ⟨_, hst, hcat, b0, c0, hbc, hb0, hpos⟩
    exact ⟨⟨hbn, hcomp, hmm, hmp⟩, hst, by simpa using hcat, b0, c0 ++ c, by simp [hbc], hb0, hpos⟩
  | dataS p ps =>
    rcases hg with ⟨_, hst, hsp, hlb, hZ, hinv⟩
    refine ⟨⟨hbn, hcomp, hmm, hmp⟩, hst, hsp, Nat.lt_of_lt_of_le hlb (lbLen_append_ge _ _),
      by simpa using hZ, ?_⟩
    rcases hinv with ⟨s0, e0, h1, h2, h3⟩
    exact ⟨s0, e0, by simpa using h1, by simpa using h2, by simpa using h3⟩
  | dataM p ps E =>
    rcases hg with ⟨_, hst, hsp, pre, hE, hp2, hinv⟩
    refine ⟨⟨hbn, hcomp, hmm, hmp⟩, hst, hsp, pre, hE, hp2, ?_⟩
    rcases hinv with ⟨s0, e0, h1, h2, h3⟩
    exact ⟨s0, e0, by simpa using h1, by simpa using h2, by simpa using h3⟩

theorem feed_none_epi {bnd : Bytes} {d : Decoder} (hg : Good nl bnd ep pr lead d [] .epi) :
    feed d none = { events := [.epilogue d.buffer], err := none,
                    dec := { d with complete := true, buffer := [], state := .complete } } := by
  rcases hg with ⟨⟨_, hcomp, _, _⟩, hst⟩
  have hn : nextEvent { d with complete := true } =
      .ok (.epilogue d.buffer, { d with complete := true, buffer := [], state := .complete }) := by
    simp [nextEvent, step, hst]
  simp [feed, receive, drainFuel, drain_succ, hn]

theorem feedAll_good {bnd : Bytes} (hb : BoundaryOk bnd) (chunks : List Bytes) :
    ∀ (d : Decoder) (ph : Phase), Good nl bnd ep pr lead d chunks.flatten ph → PhaseValid nl bnd ph →
      (chunks.flatten = [] → ph = .epi) → ∀ cur, CurOk ph cur →
      (feedAll d chunks).err = none ∧ partsGo cur (feedAll d chunks).events = Exp ph cur := by
  induction chunks with
  | nil =>
    intro d ph hg hv hepi cur hc
    have := hepi rfl
    subst this
    simp only [feedAll, List.flatten_nil] at hg ⊢
    rw [feed_none_epi hg]
    exact ⟨rfl, by cases cur <;> simp [partsGo, Exp]⟩
  | cons c cs ih =>
    intro d ph hg hv hepi cur hc
    simp only [List.flatten_cons] at hg
    rcases good_receive hg with ⟨d1, hr, hg1⟩
    rcases drain_good hb cs.flatten d1.buffer.length d1 ph [] (Nat.le_refl _) hg1 hv with
      ⟨evs, d2, ph2, hd, hg2, hv2, ha, _, hf⟩
    have hfeed := DrainsOk.toFeed hr hd
    rcases ha cur hc with ⟨cur2, out, hc2, hp, hx⟩
    rcases ih d2 ph2 hg2 hv2 hf cur2 hc2 with ⟨herr, hparts⟩
    simp only [feedAll, hfeed]
    exact ⟨herr, by rw [hp, hparts, hx]⟩

theorem bodyOfR_nonempty (nl : Nl) (bnd ep pr : Bytes) (lead : Bool) (ps : List RawPart) : bodyOfR nl bnd ep pr lead ps ≠ [] := by
  unfold bodyOfR
  rw [rawBody_eq]
  cases lead
  · simp [delim, Nl.len]
  · simp [delim]

/-- **chunk independence on encoder output, from the first header block on** -/
theorem decode_chunks_lemma {bnd : Bytes} (hb : BoundaryOk bnd) (ps : List RawPart)
    (hv : ∀ p ∈ ps, RawOk nl bnd p) (chunks : List Bytes) (hjoin : chunks.flatten = rAfterOf nl bnd ep ps) :
    (feedAll (mkD bnd [] (afterDelim ps.isEmpty) 0) chunks).err = none ∧
    partsOf (feedAll (mkD bnd [] (afterDelim ps.isEmpty) 0) chunks).events = ps.map RawPart.out := by
  cases ps with
  | nil =>
    have hg : Good nl bnd ep [] true (mkD bnd [] (afterDelim ([] : List RawPart).isEmpty) 0) chunks.flatten .epi :=
      ⟨⟨rfl, rfl, rfl, rfl⟩, rfl⟩
    have := feedAll_good hb chunks _ .epi hg trivial (fun _ => rfl) none trivial
    simpa [partsOf, Exp] using this
  | cons p ps =>
    have hg : Good nl bnd ep [] true (mkD bnd [] (afterDelim (p :: ps).isEmpty) 0) chunks.flatten
        (.hdr false p ps) := by
      refine ⟨⟨rfl, rfl, rfl, rfl⟩, rfl, by simp [mkD, lfPre, hjoin], [], [], rfl, by simp [searchBlank], by simp [mkD]⟩
    have hne : chunks.flatten = [] → Phase.hdr false p ps = .epi := by
      intro h0
      rw [hjoin] at h0
      rcases rawOk_head (hv p (by simp)) with ⟨x, r, hr, _⟩
      rw [rAfterOf_cons, hr] at h0
      simp at h0
    have := feedAll_good hb chunks _ (.hdr false p ps) hg
      ⟨hv p (by simp), fun q hq => hv q (by simp [hq])⟩ hne none trivial
    simpa [partsOf, Exp] using this

/-- **chunk independence from the first byte, with preamble and epilogue** -/
theorem decode_chunks_full_raw {bnd : Bytes} (hb : BoundaryOk bnd) (ps : List RawPart)
    (hpre : PreFreeR nl bnd ep pr lead ps) (hv : ∀ p ∈ ps, RawOk nl bnd p) (chunks : List Bytes)
    (hjoin : chunks.flatten = bodyOfR nl bnd ep pr lead ps) :
    (decodeChunks bnd none none chunks).err = none ∧
    partsOf (decodeChunks bnd none none chunks).events = ps.map RawPart.out := by
  have hg : Good nl bnd ep pr lead (mkDecoder bnd none none) chunks.flatten (.pre ps) :=
    ⟨⟨rfl, rfl, rfl, rfl⟩, rfl, by simp [mkDecoder, hjoin], hpre, NoEarly.zero _ _⟩
  have hne : chunks.flatten = [] → Phase.pre ps = .epi := by
    intro h0
    rw [hjoin] at h0
    exact absurd h0 (bodyOfR_nonempty nl bnd ep pr lead ps)
  have := feedAll_good hb chunks _ (.pre ps) hg hv hne none trivial
  simpa [partsOf, Exp, decodeChunks] using this

/-! ### one level up: `MultiPartParser.parse` over any read schedule -/

theorem formLoop_good {bnd : Bytes} (hb : BoundaryOk bnd) (chunks : List Bytes) :
    ∀ (d : Decoder) (ph : Phase) (st : FormState), Good nl bnd ep pr lead d chunks.flatten ph → PhaseValid nl bnd ph →
      (chunks.flatten = [] → ph = .epi) → CurOkF ph st →
      (formLoop none d st (chunks.map some ++ [none])).map outOf = ExpF ph st := by
  induction chunks with
  | nil =>
    intro d ph st hg hv hepi hc
    have := hepi rfl
    subst this
    simp only [List.flatten_nil] at hg
    simp only [List.map_nil, List.nil_append, formLoop, feed_none_epi hg]
    simp [formEvents, formEvent, formLoop, ExpF, Except.map]
  | cons c cs ih =>
    intro d ph st hg hv hepi hc
    simp only [List.flatten_cons] at hg
    rcases good_receive hg with ⟨d1, hr, hg1⟩
    rcases drain_good hb cs.flatten d1.buffer.length d1 ph [] (Nat.le_refl _) hg1 hv with
      ⟨evs, d2, ph2, hd, hg2, hv2, _, hfa, hf⟩
    have hfeed := DrainsOk.toFeed hr hd
    simp only [List.map_cons, List.cons_append, formLoop, hfeed]
    rcases hfa st hc with ⟨st2, hc2, hp, hx⟩ | ⟨e, hp, hx⟩
    · have := hp []
      simp only [List.append_nil, formEvents] at this
      rw [this]
      simp only
      rw [hx]
      exact ih d2 ph2 st2 hg2 hv2 hf hc2
    · have := hp []
      simp only [List.append_nil] at this
      rw [this, hx]
      rfl

theorem readChunks_flatten (bufSize : Nat) : ∀ (fuel : Nat) (sched : List Nat) (body : Bytes),
    body.length ≤ fuel → (readChunks bufSize fuel sched body).flatten = body := by
  intro fuel
  induction fuel with
  | zero => intro sched body h; have : body = [] := List.eq_nil_of_length_eq_zero (by omega); simp [this, readChunks]
  | succ fuel ih =>
    intro sched body h
    cases body with
    | nil => simp [readChunks]
    | cons a t =>
      simp only [readChunks, List.flatten_cons]
      rw [ih]
      · simp
      · have : 1 ≤ max 1 (min bufSize (sched.headD bufSize)) := Nat.le_max_left _ _
        simp only [List.length_drop, List.length_cons] at h ⊢
        omega

/-- **the form parser**: fields and files for every buffer size and read schedule -/
theorem formParse_raw {bnd : Bytes} (hb : BoundaryOk bnd) (ps : List RawPart)
    (hpre : PreFreeR nl bnd ep pr lead ps)
    (hv : ∀ p ∈ ps, RawOk nl bnd p) (bufSize : Nat) (sched : List Nat) :
    formParse bnd none none bufSize sched (bodyOfR nl bnd ep pr lead ps) =
      formOfParts ([], []) (ps.map RawPart.out) := by
  generalize hB : bodyOfR nl bnd ep pr lead ps = body
  have hfl := readChunks_flatten bufSize body.length sched body (Nat.le_refl _)
  have hg : Good nl bnd ep pr lead (mkDecoder bnd none none)
      (readChunks bufSize body.length sched body).flatten (.pre ps) :=
    ⟨⟨rfl, rfl, rfl, rfl⟩, rfl, by simp [mkDecoder, hfl, hB], hpre, NoEarly.zero _ _⟩
  have hne : (readChunks bufSize body.length sched body).flatten = [] → Phase.pre ps = .epi := by
    intro h0
    rw [hfl, ← hB] at h0
    exact absurd h0 (bodyOfR_nonempty nl bnd ep pr lead ps)
  have := formLoop_good hb _ _ (.pre ps) {} hg hv hne trivial
  unfold formParse
  simp only
  cases hl : formLoop none (mkDecoder bnd none none) {}
      ((readChunks bufSize body.length sched body).map some ++ [none]) with
  | error e => rw [hl] at this; simpa [Except.map, ExpF, outOf] using this
  | ok st => rw [hl] at this; simpa [Except.map, ExpF, outOf] using this

/-! ### the retained search position over a whole run of failed PREAMBLE searches -/

/-- `preamble_re` finds nothing in a prefix of a buffer in which it finds nothing -/
theorem searchDelim_true_none_prefix {bnd x c : Bytes} (h : searchDelim bnd true (x ++ c) = none) :
    searchDelim bnd true x = none := by
  have hall : ∀ j, matchDelimAt bnd true (x.drop j) = none := by
    intro j
    cases hx : matchDelimAt bnd true (x.drop j) with
    | none => rfl
    | some v =>
      exfalso
      rcases v with ⟨n, f⟩
      have hjb : j ≤ x.length := by
        apply Nat.le_of_not_lt; intro hlt
        rw [List.drop_eq_nil_of_le (by omega)] at hx
        simp [matchDelimAt, lbLen] at hx
      rcases matchDelimAt_true_append c hx with ⟨n', hn'⟩
      rw [← List.drop_append_of_le_length hjb] at hn'
      exact searchDelim_of_match_drop hn' h
  have := searchDelim_skip (bnd := bnd) (o := true) x x.length (fun j _ => hall j)
  rw [this]; simp [searchDelim]

/-- the `_search_position` after the chunks `cs` have been appended one by one to `buf` (search
position `sp`), `preamble_re` failing each time -/
def spAfter (bnd : Bytes) : List Bytes → Bytes → Nat → Nat
  | [], _, sp => sp
  | c :: cs, buf, sp => spAfter bnd cs (buf ++ c) (nextSearchPos bnd (buf ++ c) sp)

theorem spAfter_noEarly {bnd : Bytes} : ∀ (cs : List Bytes) (buf : Bytes) (sp : Nat), NoEarly bnd sp buf →
    searchDelim bnd true (buf ++ cs.flatten) = none → NoEarly bnd (spAfter bnd cs buf sp) (buf ++ cs.flatten) := by
  intro cs
  induction cs with
  | nil => intro buf sp h _; simpa [spAfter] using h
  | cons c cs ih =>
    intro buf sp h hnone
    simp only [spAfter, List.flatten_cons] at hnone ⊢
    rw [← List.append_assoc] at hnone ⊢
    exact ih (buf ++ c) _ (noEarly_next (h.append c) (searchDelim_true_none_prefix hnone)) hnone

/-! ### parts with `Name: value` header lines (the shape the encoder writes) -/

/-- the whole body for encoder-shaped parts -/
def bodyOf (nl : Nl) (bnd ep pr : Bytes) (lead : Bool) (ps : List Part) : Bytes :=
  pr ++ (if lead then encBody nl bnd ep ps else (encBody nl bnd ep ps).drop nl.len)

/-- the preamble does not contain `--boundary` (it may contain anything else, line breaks and dashes
included) and, for bare-LF bodies, does not end in CR (which would merge with the LF of the first
delimiter); without the leading line break there is no preamble -/
def PreOk (nl : Nl) (bnd pr : Bytes) (lead : Bool) : Prop :=
  if lead then containsSub (delim bnd) pr = false ∧ (nl = .lf → pr.getLast? ≠ some 13) else pr = []

instance (nl : Nl) (bnd pr : Bytes) (lead : Bool) : Decidable (PreOk nl bnd pr lead) := by
  unfold PreOk; split <;> infer_instance

/-- `PreFreeR` for encoder-shaped parts -/
def PreFree (nl : Nl) (bnd ep pr : Bytes) (lead : Bool) (ps : List Part) : Prop :=
  if lead then ∀ j, j < pr.length → matchDelimAt bnd true ((pr ++ encBody nl bnd ep ps).drop j) = none
  else pr = []

instance (nl : Nl) (bnd ep pr : Bytes) (lead : Bool) (ps : List Part) : Decidable (PreFree nl bnd ep pr lead ps) := by
  unfold PreFree; split <;> infer_instance

theorem bodyOf_raw (bnd : Bytes) (ps : List Part) :
    bodyOfR nl bnd ep pr lead (ps.map (rawOf nl)) = bodyOf nl bnd ep pr lead ps := by
  simp only [bodyOfR, bodyOf, rawBody_map]

theorem preFree_raw {bnd : Bytes} {ps : List Part} (h : PreFree nl bnd ep pr lead ps) :
    PreFreeR nl bnd ep pr lead (ps.map (rawOf nl)) := by
  simpa only [PreFreeR, PreFree, rawBody_map] using h

/-- a preamble without `--boundary` is admissible, whatever raw parts follow -/
theorem preFreeR_of_preOk {bnd : Bytes} (hb : BoundaryOk bnd) (ps : List RawPart) (hpre : PreOk nl bnd pr lead) :
    PreFreeR nl bnd ep pr lead ps := by
  cases lead with
  | false => simpa [PreOk, PreFreeR] using hpre
  | true =>
    simp only [PreOk, if_true] at hpre
    simp only [PreFreeR, if_true]
    rcases nl.head_spec (delim bnd ++ rTailOf nl bnd ep ps) with ⟨c, Y, hcY, hcn, hc10⟩
    rw [rawBody_eq, hcY]
    exact no_match_in_pre hb Y hcn hpre.1 (fun e => hpre.2 (hc10 e))

theorem preFree_of_preOk {bnd : Bytes} (hb : BoundaryOk bnd) (ps : List Part) (hpre : PreOk nl bnd pr lead) :
    PreFree nl bnd ep pr lead ps := by
  have := preFreeR_of_preOk (nl := nl) (ep := ep) hb (ps.map (rawOf nl)) hpre
  simpa only [PreFreeR, PreFree, rawBody_map] using this

theorem preFree_trivial (nl : Nl) (bnd ep : Bytes) (ps : List Part) : PreFree nl bnd ep [] true ps := by
  simp [PreFree]

theorem rawOk_map {bnd : Bytes} {ps : List Part} (hv : ∀ p ∈ ps, ValidPart nl bnd p) :
    ∀ q ∈ ps.map (rawOf nl), RawOk nl bnd q := by
  intro q hq
  rcases List.mem_map.1 hq with ⟨p, hp, rfl⟩
  exact rawOk_of_validPart (hv p hp)

/-- **chunk independence from the first byte, with preamble and epilogue** (encoder-shaped parts) -/
theorem decode_chunks_full_lemma {bnd : Bytes} (hb : BoundaryOk bnd) (ps : List Part)
    (hpre : PreFree nl bnd ep pr lead ps) (hv : ∀ p ∈ ps, ValidPart nl bnd p) (chunks : List Bytes)
    (hjoin : chunks.flatten = bodyOf nl bnd ep pr lead ps) :
    (decodeChunks bnd none none chunks).err = none ∧
    partsOf (decodeChunks bnd none none chunks).events = ps.map decodedPart := by
  have := decode_chunks_full_raw (nl := nl) (ep := ep) hb (ps.map (rawOf nl)) (preFree_raw hpre) (rawOk_map hv)
    chunks (by rw [hjoin, bodyOf_raw])
  rw [map_rawOf_out ps hv] at this
  exact this

/-- **the form parser**: fields and files for every buffer size and read schedule (encoder-shaped parts) -/
theorem formParse_lemma {bnd : Bytes} (hb : BoundaryOk bnd) (ps : List Part)
    (hpre : PreFree nl bnd ep pr lead ps)
    (hv : ∀ p ∈ ps, ValidPart nl bnd p) (bufSize : Nat) (sched : List Nat) :
    formParse bnd none none bufSize sched (bodyOf nl bnd ep pr lead ps) =
      formOfParts ([], []) (ps.map decodedPart) := by
  have := formParse_raw (nl := nl) (ep := ep) hb (ps.map (rawOf nl)) (preFree_raw hpre) (rawOk_map hv)
    bufSize sched
  rw [map_rawOf_out ps hv, bodyOf_raw] at this
  exact this

end Wz.Multipart
