/-
Chunk independence of the decoder on encoder output, from the first header block on (C01 P1, partial).
Core Lean only.
-/
import WzVerif.Lemmas.MultipartCodec
import WzVerif.Lemmas.FormLimits
namespace Wz.Multipart
open Wz

/-! ### the fuel of `drain` is irrelevant once it suffices -/

theorem drain_succ (fuel : Nat) (d : Decoder) (acc : List Event) :
    drain (fuel + 1) d acc =
      match nextEvent d with
      | .error e => { events := acc.reverse, err := some e, dec := d }
      | .ok (.needData, d') => { events := acc.reverse, dec := d' }
      | .ok (.epilogue x, d') => { events := (Event.epilogue x :: acc).reverse, dec := d' }
      | .ok (ev, d') => drain fuel d' (ev :: acc) := by
  rfl

theorem drain_fuel_mono (fuel : Nat) : ∀ (d : Decoder) (acc : List Event),
    (drain fuel d acc).err ≠ some "FUEL" → drain (fuel + 1) d acc = drain fuel d acc := by
  induction fuel with
  | zero => intro d acc h; simp [drain] at h
  | succ fuel ih =>
    intro d acc h
    rw [drain_succ fuel] at h
    rw [drain_succ (fuel + 1), drain_succ fuel]
    cases hn : nextEvent d with
    | error e => rfl
    | ok v =>
      rcases v with ⟨ev, d'⟩
      rw [hn] at h
      cases ev with
      | needData => rfl
      | epilogue x => rfl
      | preamble x => exact ih d' _ h
      | field n hd => exact ih d' _ h
      | file n f hd => exact ih d' _ h
      | data x m => exact ih d' _ h

theorem drain_fuel_add (fuel k : Nat) (d : Decoder) (acc : List Event)
    (h : (drain fuel d acc).err ≠ some "FUEL") : drain (fuel + k) d acc = drain fuel d acc := by
  induction k with
  | zero => rfl
  | succ k ih =>
    rw [← Nat.add_assoc, drain_fuel_mono (fuel + k) d acc (by rw [ih]; exact h), ih]

/-- `Drains d acc r`: with enough fuel, draining `d` gives `r` -/
def Drains (d : Decoder) (acc : List Event) (r : Run) : Prop :=
  ∃ fuel, drain fuel d acc = r ∧ r.err ≠ some "FUEL"

theorem Drains.unique {d : Decoder} {acc : List Event} {r1 r2 : Run}
    (h1 : Drains d acc r1) (h2 : Drains d acc r2) : r1 = r2 := by
  rcases h1 with ⟨f1, e1, n1⟩
  rcases h2 with ⟨f2, e2, n2⟩
  have a := drain_fuel_add f1 f2 d acc (by rw [e1]; exact n1)
  have b := drain_fuel_add f2 f1 d acc (by rw [e2]; exact n2)
  rw [Nat.add_comm] at b
  rw [← e1, ← e2, ← a, b]

theorem Drains.of_fuel {d : Decoder} {acc : List Event} {r : Run} (h : Drains d acc r) (fuel : Nat)
    (hf : (drain fuel d acc).err ≠ some "FUEL") : drain fuel d acc = r :=
  Drains.unique ⟨fuel, rfl, hf⟩ h

theorem Drains.stop {d d' : Decoder} (acc : List Event) (h : nextEvent d = .ok (.needData, d')) :
    Drains d acc { events := acc.reverse, dec := d' } :=
  ⟨1, by simp [drain, h], by simp⟩

theorem Drains.step_data {d d' : Decoder} {x : Bytes} {m : Bool} {acc : List Event} {r : Run}
    (h : nextEvent d = .ok (.data x m, d')) (hr : Drains d' (.data x m :: acc) r) : Drains d acc r := by
  rcases hr with ⟨fuel, e, n⟩
  exact ⟨fuel + 1, by rw [drain_data _ _ h, e], n⟩

theorem Drains.step_head {d d' : Decoder} {q : Part} {acc : List Event} {r : Run}
    (h : nextEvent d = .ok (partHeadEvent q, d')) (hr : Drains d' (partHeadEvent q :: acc) r) :
    Drains d acc r := by
  rcases hr with ⟨fuel, e, n⟩
  exact ⟨fuel + 1, by rw [drain_head _ _ h, e], n⟩

/-! ### enough fuel: every event consumes at least one buffered byte -/

theorem dataCut_facts (bnd buf : Bytes) :
    (dataCut bnd buf).1 ≤ (dataCut bnd buf).2.1 ∧ (dataCut bnd buf).2.1 ≤ buf.length ∧
      ((dataCut bnd buf).2.2.isSome = true → 0 < (dataCut bnd buf).2.1) := by
  have hle := lastNewline_le buf
  cases hc : containsSub (45 :: 45 :: bnd) buf with
  | false =>
    by_cases hfar : buf.length - lastNewline buf > (45 :: 45 :: bnd).length + 1
    · have : dataCut bnd buf = (buf.length, buf.length, none) := by simp [dataCut, hc]; intro h; simp at hfar; omega
      rw [this]; simp
    · have : dataCut bnd buf = (lastNewline buf, lastNewline buf, none) := by
        simp [dataCut, hc]; intro h; simp at hfar; omega
      rw [this]; simp; exact hle
  | true =>
    cases hs : searchDelim bnd false buf with
    | none =>
      have : dataCut bnd buf = (lastNewline buf, lastNewline buf, none) := by simp [dataCut, hc, hs]
      rw [this]; simp; exact hle
    | some v =>
      rcases v with ⟨s, e, f⟩
      have hb := searchDelim_bounds hs
      rw [dataCut_of_search hs]
      simp; omega

theorem dataStep_consumes {bnd buf p buf' : Bytes} {start : Bool} {nx : Option Bool}
    (h : dataStep bnd start buf = .ok (p, buf', false, nx))
    (hev : start = true ∨ p ≠ [] ∨ nx.isSome = true) : buf'.length < buf.length := by
  have hf := dataCut_facts bnd buf
  cases start with
  | false =>
    rw [dataStep_false] at h
    simp only [Except.ok.injEq, Prod.mk.injEq, true_and] at h
    rcases h with ⟨hp, hb, hn⟩
    subst hb
    have hpos : 0 < (dataCut bnd buf).2.1 := by
      rcases hev with h1 | h1 | h1
      · simp at h1
      · have : (dataCut bnd buf).1 ≠ 0 := by
          intro h0; rw [h0] at hp; simp at hp; exact h1 hp
        omega
      · rw [← hn] at h1; exact hf.2.2 h1
    simp [List.length_drop]; omega
  | true =>
    by_cases hl : 0 < lbLen buf
    · rw [dataStep_true hl] at h
      split at h
      · simp at h
      · rename_i hd
        simp only [Except.ok.injEq, Prod.mk.injEq, true_and] at h
        rcases h with ⟨_, hb, _⟩
        subst hb
        simp [List.length_drop]; omega
    · have : lbLen buf = 0 := by omega
      simp [dataStep, parseData, this] at h

theorem matchDelimAt_bounds_any {bnd s : Bytes} {o : Bool} {n : Nat} {f : Bool}
    (h : matchDelimAt bnd o s = some (n, f)) : 0 < n ∧ n ≤ s.length := by
  rcases matchDelimAt_iff'.1 h with ⟨r, m, _, hd, hm, rfl⟩
  have := matchTail_le hm
  have hlen := congrArg List.length hd
  simp [delim] at hlen
  have := lbLen_le_length s
  omega

theorem searchDelim_bounds_any {bnd b : Bytes} {o : Bool} {s e : Nat} {f : Bool}
    (h : searchDelim bnd o b = some (s, e, f)) : s < e ∧ e ≤ b.length := by
  induction b generalizing s e with
  | nil => simp [searchDelim] at h
  | cons a t ih =>
    cases hm : matchDelimAt bnd o (a :: t) with
    | some v =>
      rcases v with ⟨n, f'⟩
      rw [searchDelim_cons_some hm] at h
      simp at h
      rcases h with ⟨rfl, rfl, rfl⟩
      exact matchDelimAt_bounds_any hm
    | none =>
      rw [searchDelim_cons_none hm] at h
      rcases shift_eq_some h with ⟨s2, e2, ht, rfl, rfl⟩
      have := ih ht
      simp; omega

theorem shift2_eq_some {k : Nat} {r : Option (Nat × Nat)} {s e : Nat} (h : shift2 k r = some (s, e)) :
    ∃ s2 e2, r = some (s2, e2) ∧ s = s2 + k ∧ e = e2 + k := by
  cases r with
  | none => simp [shift2] at h
  | some v => rcases v with ⟨s2, e2⟩; simp [shift2] at h; exact ⟨s2, e2, rfl, h.1.symm, h.2.symm⟩

theorem searchBlank_bounds {b : Bytes} {s e : Nat} (h : searchBlank b = some (s, e)) :
    s + 2 ≤ e ∧ e ≤ b.length := by
  induction b generalizing s e with
  | nil => simp [searchBlank] at h
  | cons a t ih =>
    by_cases hb : 0 < blankLen (a :: t)
    · simp [searchBlank, hb] at h
      rcases h with ⟨rfl, rfl⟩
      have h1 := blankLen_le_length (a :: t)
      have h2 : 2 ≤ blankLen (a :: t) := by
        unfold blankLen at hb ⊢
        split; · omega
        split; · omega
        split; · omega
        rename_i h1 h2 h3; simp [h1, h2, h3] at hb
      omega
    · have h0 : blankLen (a :: t) = 0 := by omega
      rw [searchBlank_cons_zero h0] at h
      rcases shift2_eq_some h with ⟨s2, e2, ht, rfl, rfl⟩
      have := ih ht
      simp; omega

theorem searchBlankFrom_bounds {pos : Nat} {b : Bytes} {s e : Nat}
    (h : searchBlankFrom pos b = some (s, e)) : s + 2 ≤ e ∧ e ≤ b.length := by
  rw [searchBlankFrom_eq_shift] at h
  rcases shift2_eq_some h with ⟨s2, e2, ht, rfl, rfl⟩
  have := searchBlank_bounds ht
  simp [List.length_drop] at this
  omega

/-- every event other than NEED_DATA / Epilogue consumes at least one buffered byte -/
theorem nextEvent_consumes {d d' : Decoder} {ev : Event} (h : nextEvent d = .ok (ev, d'))
    (hne : ev ≠ .needData) (hep : ∀ x, ev ≠ .epilogue x) : d'.buffer.length < d.buffer.length := by
  have hs := nextEvent_ok h
  unfold step at hs
  cases hst : d.state with
  | preamble =>
    simp only [hst] at hs
    cases hq : searchDelimFrom d.boundary true d.searchPos d.buffer with
    | none => rw [hq] at hs; simp at hs; exact absurd hs.1.symm hne
    | some v =>
      rcases v with ⟨s, e, f⟩
      rw [hq] at hs
      simp at hs
      rcases hs with ⟨_, rfl⟩
      rw [searchDelimFrom_eq_shift] at hq
      rcases shift_eq_some hq with ⟨s2, e2, hq2, rfl, rfl⟩
      have hb := searchDelim_bounds_any hq2
      simp [List.length_drop] at hb ⊢
      omega
  | part =>
    simp only [hst] at hs
    cases hq : searchBlankFrom d.searchPos d.buffer with
    | none => rw [hq] at hs; simp at hs; exact absurd hs.1.symm hne
    | some v =>
      rcases v with ⟨s, e⟩
      rw [hq] at hs
      simp only at hs
      have hbb := searchBlankFrom_bounds hq
      cases hh : parseHeaders (d.buffer.take s) with
      | error err => rw [hh] at hs; simp at hs
      | ok headers =>
        rw [hh] at hs
        simp only at hs
        cases hcd : headerGet "content-disposition".toList headers with
        | none => rw [hcd] at hs; simp at hs
        | some cd =>
          rw [hcd] at hs
          simp only at hs
          cases hpo : FormOptions.parseOptionsHeader cd with
          | error err => rw [hpo] at hs; simp at hs
          | ok v =>
            rcases v with ⟨v0, ex⟩
            rw [hpo] at hs
            simp only at hs
            cases hm : d.maxParts with
            | none =>
              rw [hm] at hs; simp at hs; rcases hs with ⟨_, rfl⟩
              simp [List.length_drop]; omega
            | some m =>
              rw [hm] at hs
              simp only at hs
              split at hs
              · simp at hs
              · simp at hs; rcases hs with ⟨_, rfl⟩
                simp [List.length_drop]; omega
  | dataStart =>
    simp only [hst] at hs
    unfold stepData at hs
    cases hds : dataStep d.boundary true d.buffer with
    | error e => rw [hds] at hs; simp at hs
    | ok v =>
      rcases v with ⟨p, buf', start', nx⟩
      rw [hds] at hs
      simp only at hs
      cases start' with
      | true => simp at hs; exact absurd hs.1.symm hne
      | false =>
        simp at hs
        rcases hs with ⟨_, rfl⟩
        exact dataStep_consumes hds (Or.inl rfl)
  | data =>
    simp only [hst] at hs
    unfold stepData at hs
    cases hds : dataStep d.boundary false d.buffer with
    | error e => rw [hds] at hs; simp at hs
    | ok v =>
      rcases v with ⟨p, buf', start', nx⟩
      rw [hds] at hs
      simp only at hs
      cases start' with
      | true => simp at hs; exact absurd hs.1.symm hne
      | false =>
        simp only [Bool.false_eq_true, if_false, Bool.false_or] at hs
        split at hs
        · rename_i hc
          simp at hs
          rcases hs with ⟨_, rfl⟩
          refine dataStep_consumes hds (Or.inr ?_)
          simp at hc
          rcases hc with hc | hc
          · left; exact hc
          · right; exact hc
        · simp at hs; exact absurd hs.1.symm hne
  | epilogue =>
    simp only [hst] at hs
    split at hs
    · simp at hs; exact absurd hs.1.symm (hep _)
    · simp at hs; exact absurd hs.1.symm hne
  | complete =>
    simp only [hst] at hs
    simp at hs; exact absurd hs.1.symm hne

/-- a successful drain needs no more fuel than one unit per buffered byte, plus one -/
theorem drain_enough (f0 : Nat) : ∀ (d : Decoder) (acc : List Event) (r : Run),
    drain f0 d acc = r → r.err = none → ∀ fuel, d.buffer.length < fuel → drain fuel d acc = r := by
  induction f0 with
  | zero => intro d acc r h he; rw [← h] at he; simp [drain] at he
  | succ f0 ih =>
    intro d acc r h he fuel hf
    cases fuel with
    | zero => omega
    | succ k =>
      rw [drain_succ] at h ⊢
      cases hn : nextEvent d with
      | error e => rw [hn] at h; rw [← h] at he; simp at he
      | ok v =>
        rcases v with ⟨ev, d'⟩
        rw [hn] at h
        cases ev with
        | needData => exact h
        | epilogue x => exact h
        | preamble x =>
          have := nextEvent_consumes hn (by simp) (by simp)
          exact ih d' _ r h he k (by omega)
        | field n hd =>
          have := nextEvent_consumes hn (by simp) (by simp)
          exact ih d' _ r h he k (by omega)
        | file n f hd =>
          have := nextEvent_consumes hn (by simp) (by simp)
          exact ih d' _ r h he k (by omega)
        | data x m =>
          have := nextEvent_consumes hn (by simp) (by simp)
          exact ih d' _ r h he k (by omega)

/-- `Ok d acc evs d'`: draining `d` succeeds, appends the events `evs` and leaves `d'` -/
def DrainsOk (d : Decoder) (acc evs : List Event) (d' : Decoder) : Prop :=
  ∃ fuel, drain fuel d acc = { events := acc.reverse ++ evs, err := none, dec := d' }

theorem DrainsOk.toFeed {d d1 d' : Decoder} {c : Option Bytes} {evs : List Event}
    (hr : receive d c = .ok d1) (h : DrainsOk d1 [] evs d') :
    Multipart.feed d c = { events := evs, err := none, dec := d' } := by
  rcases h with ⟨f0, h0⟩
  unfold Multipart.feed
  rw [hr]
  simp only
  have := drain_enough f0 d1 [] _ h0 rfl (drainFuel d1) (by simp [drainFuel])
  rw [this]; simp

theorem DrainsOk.stop {d d' : Decoder} (acc : List Event) (h : nextEvent d = .ok (.needData, d')) :
    DrainsOk d acc [] d' :=
  ⟨1, by simp [drain, h]⟩

theorem DrainsOk.epilogue {d d' : Decoder} {x : Bytes} (acc : List Event)
    (h : nextEvent d = .ok (.epilogue x, d')) : DrainsOk d acc [.epilogue x] d' :=
  ⟨1, by simp [drain, h]⟩

theorem DrainsOk.step_data {d d1 d' : Decoder} {x : Bytes} {m : Bool} {acc evs : List Event}
    (h : nextEvent d = .ok (.data x m, d1)) (hr : DrainsOk d1 (.data x m :: acc) evs d') :
    DrainsOk d acc (.data x m :: evs) d' := by
  rcases hr with ⟨fuel, e⟩
  exact ⟨fuel + 1, by rw [drain_data _ _ h, e]; simp⟩

theorem DrainsOk.step_head {d d1 d' : Decoder} {q : Part} {acc evs : List Event}
    (h : nextEvent d = .ok (partHeadEvent q, d1)) (hr : DrainsOk d1 (partHeadEvent q :: acc) evs d') :
    DrainsOk d acc (partHeadEvent q :: evs) d' := by
  rcases hr with ⟨fuel, e⟩
  exact ⟨fuel + 1, by rw [drain_head _ _ h, e]; simp⟩

/-! ### BLANK_LINE_RE on prefixes of a stream -/

/-- a blank line found in a buffer is the first blank line of every extension of the buffer -/
theorem searchBlank_append_stable {x : Bytes} {s e : Nat} (c : Bytes) (h : searchBlank x = some (s, e)) :
    searchBlank (x ++ c) = some (s, e) := by
  induction x generalizing s e with
  | nil => simp [searchBlank] at h
  | cons a t ih =>
    by_cases hb : 0 < blankLen (a :: t)
    · -- a match at the head is the same match in the extension
      simp [searchBlank, hb] at h
      rcases h with ⟨rfl, rfl⟩
      have hle := blankLen_le_length (a :: t)
      have hr := blankLen_restrict (x := a :: t) (c := c) ?_
      · have hb' : 0 < blankLen (a :: (t ++ c)) := by rw [← List.cons_append, ← hr]; exact hb
        simp only [List.cons_append, searchBlank, hb', if_true]
        rw [← List.cons_append, ← hr]
      · -- the extension cannot match something longer than the buffer: its match is determined by
        -- the first two bytes
        unfold blankLen at hb ⊢
        by_cases h1 : [13, 10, 13, 10].isPrefixOf (a :: t) = true
        · rw [isPrefixOf_append_of_isPrefixOf c h1]; simp
          have := List.isPrefixOf_iff_prefix.1 h1 |>.length_le
          simpa using this
        · rw [if_neg h1] at hb
          by_cases h2 : [13, 13].isPrefixOf (a :: t) = true
          · have h1' : ¬ [13, 10, 13, 10].isPrefixOf (a :: t ++ c) = true := by
              rw [List.isPrefixOf_iff_prefix] at h2 ⊢
              rcases h2 with ⟨r, hr⟩
              intro ⟨r', hr'⟩
              rw [← hr] at hr'
              simp at hr'
            rw [if_neg h1', isPrefixOf_append_of_isPrefixOf c h2]; simp
            have := List.isPrefixOf_iff_prefix.1 h2 |>.length_le
            simpa using this
          · rw [if_neg h2] at hb
            by_cases h3 : [10, 10].isPrefixOf (a :: t) = true
            · have h1' : ¬ [13, 10, 13, 10].isPrefixOf (a :: t ++ c) = true := by
                rw [List.isPrefixOf_iff_prefix] at h3 ⊢
                rcases h3 with ⟨r, hr⟩
                intro ⟨r', hr'⟩
                rw [← hr] at hr'
                simp at hr'
              have h2' : ¬ [13, 13].isPrefixOf (a :: t ++ c) = true := by
                rw [List.isPrefixOf_iff_prefix] at h3 ⊢
                rcases h3 with ⟨r, hr⟩
                intro ⟨r', hr'⟩
                rw [← hr] at hr'
                simp at hr'
              rw [if_neg h1', if_neg h2', isPrefixOf_append_of_isPrefixOf c h3]; simp
              have := List.isPrefixOf_iff_prefix.1 h3 |>.length_le
              simpa using this
            · rw [if_neg h3] at hb; omega
    · have h0 : blankLen (a :: t) = 0 := by omega
      rw [searchBlank_cons_zero h0] at h
      rcases shift2_eq_some h with ⟨s2, e2, ht, rfl, rfl⟩
      -- no match at the head of the extension either: a blank line at the head of `a :: t ++ c`
      -- that is not one of `a :: t` would have to overlap the match found in `t`
      have hbt := searchBlank_bounds ht
      have h0' : blankLen (a :: (t ++ c)) = 0 := by
        apply Nat.eq_zero_of_not_pos
        intro hp
        by_cases hfit : blankLen (a :: t ++ c) ≤ (a :: t).length
        · have := blankLen_restrict (x := a :: t) (c := c) hfit
          rw [h0] at this
          simp only [List.cons_append] at this
          omega
        · -- the only way not to fit: a four byte blank line over a three byte buffer
          have h4 := blankLen_le (a :: t ++ c)
          simp only [List.cons_append] at hfit h4
          have hlen : t.length = 2 := by simp at hfit; omega
          match t, hlen with
          | [x, y], _ =>
            have hpre : [13, 10, 13, 10].isPrefixOf (a :: ([x, y] ++ c)) = true := by
              unfold blankLen at hfit
              by_cases h1 : [13, 10, 13, 10].isPrefixOf (a :: ([x, y] ++ c)) = true
              · exact h1
              · rw [if_neg h1] at hfit
                split at hfit <;> (try split at hfit) <;> simp at hfit
            simp [List.isPrefixOf] at hpre
            rcases hpre with ⟨_, hx, hy, _⟩
            subst hx; subst hy
            simp [searchBlank, blankLen, List.isPrefixOf] at ht
      rw [List.cons_append, searchBlank_cons_zero h0', ih ht]
      rfl

/-- a blank line of the extension that lies inside the buffer is a blank line of the buffer -/
theorem searchBlank_restrict {x c : Bytes} {s e : Nat} (h : searchBlank (x ++ c) = some (s, e))
    (he : e ≤ x.length) : searchBlank x = some (s, e) := by
  cases hx : searchBlank x with
  | some v =>
    rcases v with ⟨s', e'⟩
    rw [searchBlank_append_stable c hx] at h
    exact h
  | none =>
    exfalso
    -- position s of x carries the same blank line
    induction x generalizing s e with
    | nil =>
      have := searchBlank_bounds h
      simp at he; omega
    | cons a t ih =>
      by_cases hb : 0 < blankLen (a :: (t ++ c))
      · simp only [List.cons_append, searchBlank, hb, if_true] at h
        simp at h
        rcases h with ⟨rfl, rfl⟩
        have := blankLen_restrict (x := a :: t) (c := c) (by simpa using he)
        have h0 := searchBlank_none_drop hx 0
        simp at h0
        simp only [List.cons_append] at this
        omega
      · have h0 : blankLen (a :: (t ++ c)) = 0 := by omega
        rw [List.cons_append, searchBlank_cons_zero h0] at h
        rcases shift2_eq_some h with ⟨s2, e2, ht, rfl, rfl⟩
        have hxt : searchBlank t = none := by
          have hz := searchBlank_none_drop hx 0
          simp at hz
          rw [searchBlank_cons_zero hz] at hx
          cases hq : searchBlank t with
          | none => rfl
          | some v => rw [hq] at hx; rcases v with ⟨a1, a2⟩; simp [shift2] at hx
        exact ih ht (by simp at he; omega) hxt

/-! ### the header block, possibly preceded by the LF of a split CRLF -/

def lfPre (lf : Bool) : Bytes := if lf then [10] else []

theorem searchBlank_block_lf (lf : Bool) (lines : List Bytes) (Z : Bytes) (hne : lines ≠ [])
    (hok : ∀ l ∈ lines, LineOk l) :
    searchBlank (lfPre lf ++ (joinCrlf lines ++ 13 :: 10 :: 13 :: 10 :: Z)) =
      some ((lfPre lf).length + (joinCrlf lines).length, (lfPre lf).length + (joinCrlf lines).length + 4) := by
  cases lf with
  | false => simpa [lfPre] using searchBlank_block lines Z hne hok
  | true =>
    cases lines with
    | nil => exact absurd rfl hne
    | cons l t =>
      have hl := hok l (by simp)
      rcases joinCrlf_head t hl.1 with ⟨x, r, hx, hxe⟩
      have hxn : isNl x = false := by rw [hxe]; exact not_nl_of_not_space hl.2.2.1
      have hb := searchBlank_block (l :: t) Z hne hok
      simp only [lfPre, if_true, List.cons_append, List.nil_append]
      rw [hx] at hb ⊢
      have h0 : blankLen (10 :: (x :: r ++ 13 :: 10 :: 13 :: 10 :: Z)) = 0 := by
        simp [isNl] at hxn
        have h2 : ((10 : UInt8) == x) = false := by simp; exact fun e => hxn.1 e.symm
        simp [blankLen, List.isPrefixOf, h2]
      rw [searchBlank_cons_zero h0, hb]
      simp [shift2]; omega

theorem fold_lf {x : UInt8} (r : Bytes) (h : isBytesSpace x = false) :
    foldContinuations (10 :: x :: r) = 10 :: foldContinuations (x :: r) := by
  have h32 : x ≠ 32 := by intro e; subst e; simp [isBytesSpace] at h
  have h9 : x ≠ 9 := by intro e; subst e; simp [isBytesSpace] at h
  simp [foldContinuations, foldContinuations.go, lbLen_lf, h32, h9]

theorem splitLines_lf (rest : Bytes) : splitLines (10 :: rest) = [] :: splitLines rest := by
  simp [splitLines, splitLines.go]

theorem parseHeaders_block_lf (lf : Bool) (hs : Headers) (hne : hs ≠ []) (hok : ∀ kv ∈ hs, HeaderOk kv) :
    parseHeaders (lfPre lf ++ joinCrlf (hs.map lineOf)) = .ok hs := by
  cases lf with
  | false => simpa [lfPre] using parseHeaders_block hs hok
  | true =>
    have hlines : ∀ l ∈ hs.map lineOf, LineOk l := by
      intro l hl
      rcases List.mem_map.1 hl with ⟨kv, hkv, rfl⟩
      exact lineOk_of_headerOk (hok kv hkv)
    cases hs with
    | nil => exact absurd rfl hne
    | cons kv t =>
      have hl := hlines (lineOf kv) (by simp)
      rcases joinCrlf_head (t.map lineOf) hl.1 with ⟨x, r, hx, hxe⟩
      have hb := parseHeaders_block (kv :: t) hok
      simp only [List.map_cons] at hx hb
      simp only [lfPre, if_true, List.cons_append, List.nil_append, List.map_cons]
      unfold parseHeaders at hb ⊢
      rw [hx] at hb ⊢
      rw [fold_lf r (by rw [hxe]; exact hl.2.2.1), splitLines_lf]
      simp only [List.map_cons]
      have hs0 : stripBytes [] = [] := rfl
      rw [hs0]
      simp only [List.filter_cons, List.isEmpty_nil, Bool.not_true, Bool.false_eq_true, if_false]
      exact hb

/-! ### phases of the run over the encoder output -/

inductive Phase where
  | hdr (lf : Bool) (p : Part) (ps : List Part)
  | dataS (p : Part) (ps : List Part)
  | dataM (p : Part) (ps : List Part) (E : Bytes)
  | epi

def Plain (bnd : Bytes) (d : Decoder) : Prop :=
  d.boundary = bnd ∧ d.complete = false ∧ d.maxMem = none ∧ d.maxParts = none

/-- data phases: where the delimiter that ends part `p` lies in what remains (`buf ++ fut`), what
precedes it (after the bytes `pre` already released) and what follows it -/
def DataInv (bnd : Bytes) (p : Part) (ps : List Part) (pre buf fut : Bytes) : Prop :=
  ∃ s0 e0, searchDelim bnd false (buf ++ fut) = some (s0, e0, ps.isEmpty) ∧
    (pre ++ (buf ++ fut).take s0).drop 2 = p.payload ∧ (buf ++ fut).drop e0 = afterOf bnd ps

def Good (bnd : Bytes) (d : Decoder) (fut : Bytes) : Phase → Prop
  | .hdr lf p ps =>
    Plain bnd d ∧ d.state = .part ∧ d.buffer ++ fut = lfPre lf ++ afterOf bnd (p :: ps) ∧
      ∃ b0 c0, d.buffer = b0 ++ c0 ∧ searchBlank b0 = none ∧ d.searchPos = b0.length - searchExtra
  | .dataS p ps =>
    Plain bnd d ∧ d.state = .dataStart ∧ 0 < lbLen d.buffer ∧ DataInv bnd p ps [] d.buffer fut
  | .dataM p ps E =>
    Plain bnd d ∧ d.state = .data ∧ ∃ pre, pre.drop 2 = E ∧ 2 ≤ pre.length ∧ DataInv bnd p ps pre d.buffer fut
  | .epi => Plain bnd d ∧ d.state = .epilogue

/-- the single-shot facts about the data stretch of part `p` -/
theorem dataOf_search {bnd : Bytes} (hb : BoundaryOk bnd) (p : Part) (ps : List Part) (hv : ValidPart bnd p) :
    DataInv bnd p ps [] (dataOf bnd p ps) [] := by
  have hf := validPart_facts hv
  have hspec : dataSpec bnd true (dataOf bnd p ps) = some (p.payload, ps.isEmpty, afterOf bnd ps) := by
    unfold dataOf
    rw [encBody_eq]
    cases hp : p.payload with
    | nil =>
      simp only [List.isEmpty_nil, if_true, List.nil_append]
      exact dataSpec_encoded_empty (bnd := bnd) _ (afterDelim_tailOf bnd ps)
    | cons a t =>
      simp only [List.isEmpty_cons, Bool.false_eq_true, if_false]
      have := dataSpec_encoded hb (a :: t) (tailOf bnd ps) (by rw [← hp]; exact hf.2.2.2.2.2)
        (afterDelim_tailOf bnd ps)
      simpa using this
  have hlb : lbLen (dataOf bnd p ps) = 2 := by
    rcases dataOf_blank bnd p ps with ⟨Z, hZ⟩
    rw [hZ]; exact lbLen_crlf _
  rw [dataSpec_true, hlb] at hspec
  cases hs : searchDelim bnd false (dataOf bnd p ps) with
  | none => rw [hs] at hspec; simp at hspec
  | some v =>
    rcases v with ⟨s, e, f⟩
    rw [hs] at hspec
    simp only [Option.some.injEq, Prod.mk.injEq] at hspec
    rcases hspec with ⟨hpay, hfe, hrest⟩
    subst hfe
    exact ⟨s, e, by simpa using hs, by simpa using hpay, by simpa using hrest⟩

theorem afterOf_cons_blank (bnd : Bytes) (p : Part) (ps : List Part) :
    ∃ Z, afterOf bnd (p :: ps) = hdrBlock (nameOf p) p ++ 13 :: 10 :: 13 :: 10 :: Z ∧
      dataOf bnd p ps = 13 :: 10 :: Z := by
  rcases dataOf_blank bnd p ps with ⟨Z, hZ⟩
  exact ⟨Z, by rw [afterOf_cons, hZ], hZ⟩

/-- one `next_event` in the PART phase, on any prefix of the stream -/
theorem step_hdr {bnd : Bytes} (hb : BoundaryOk bnd) {d : Decoder} {fut : Bytes} {lf : Bool} {p : Part}
    {ps : List Part} (hv : ValidPart bnd p) (hg : Good bnd d fut (.hdr lf p ps)) :
    (∃ d', nextEvent d = .ok (.needData, d') ∧ Good bnd d' fut (.hdr lf p ps) ∧ fut ≠ []) ∨
    (∃ d', nextEvent d = .ok (partHeadEvent (decodedPart p), d') ∧ Good bnd d' fut (.dataS p ps)) := by
  rcases hg with ⟨⟨hbn, hcomp, hmm, hmp⟩, hst, hcat, b0, c0, hbc, hb0, hpos⟩
  have hf := validPart_facts hv
  have hok := allHeadersOk hv
  have hlines : ∀ l ∈ (cdHeader (nameOf p) p.filename :: p.headers).map lineOf, LineOk l := by
    intro l hl
    rcases List.mem_map.1 hl with ⟨kv, hkv, rfl⟩
    exact lineOk_of_headerOk (hok kv hkv)
  rcases afterOf_cons_blank bnd p ps with ⟨Z, hZ, hdZ⟩
  -- the whole stream and its first blank line
  have hW : d.buffer ++ fut = lfPre lf ++ (hdrBlock (nameOf p) p ++ 13 :: 10 :: 13 :: 10 :: Z) := by
    rw [hcat, hZ]
  have hsbW := searchBlank_block_lf lf _ Z (by simp) hlines
  rw [← hdrBlock, ← hW] at hsbW
  -- the retained search position does not matter
  have hfrom : searchBlankFrom d.searchPos d.buffer = searchBlank d.buffer := by
    rw [hpos, hbc]; exact searchPos_irrelevant_blank_lemma hb0
  let L := (lfPre lf).length + (hdrBlock (nameOf p) p).length
  by_cases hlen : L + 4 ≤ d.buffer.length
  · right
    have hsb : searchBlank d.buffer = some (L, L + 4) := searchBlank_restrict hsbW hlen
    have htake : d.buffer.take L = lfPre lf ++ hdrBlock (nameOf p) p := by
      have : (d.buffer ++ fut).take L = lfPre lf ++ hdrBlock (nameOf p) p := by
        rw [hW, ← List.append_assoc]; simp [L]
      rw [List.take_append_of_le_length (by omega)] at this
      exact this
    have hparse : parseHeaders (lfPre lf ++ hdrBlock (nameOf p) p) =
        .ok (cdHeader (nameOf p) p.filename :: p.headers) :=
      parseHeaders_block_lf lf _ (by simp) hok
    have hdropW : (d.buffer ++ fut).drop (L + 2) = dataOf bnd p ps := by
      rw [hW, ← List.append_assoc, hdZ]
      have : L + 2 = 2 + (lfPre lf ++ hdrBlock (nameOf p) p).length := by simp [L]; omega
      rw [this, drop_add_append]; rfl
    have hdrop : d.buffer.drop (L + 2) ++ fut = dataOf bnd p ps := by
      rw [← hdropW, List.drop_append_of_le_length (by omega)]
    have hopt := FormOptions.parseOptions_disposition_lemma (nameOf p) p.filename hf.1
      (fun x hx => (hf.2.2.1 x hx).1)
    have hnm := validPart_name hv
    have hhalf : (L + (L + 4)) / 2 = L + 2 := by omega
    let d' : Decoder := { d with buffer := d.buffer.drop (L + 2), state := .dataStart, searchPos := 0,
                                 partsDecoded := d.partsDecoded + 1 }
    have hstep : step d = .ok (partHeadEvent (decodedPart p), d') := by
      unfold step
      rw [hst]
      simp only
      rw [hfrom, hsb]
      simp only
      rw [htake, hparse]
      simp only
      rw [headerGet_cd]
      simp only
      rw [hopt]
      simp only
      rw [lookup_name, lookup_filename, hhalf, hmp]
      cases hfn : p.filename with
      | none => simp [partHeadEvent, decodedPart, hfn, hnm, d']
      | some x => simp [partHeadEvent, decodedPart, hfn, hnm, d']
    refine ⟨d', ?_, ?_⟩
    · unfold nextEvent
      rw [hstep, hcomp]
      cases hfn : p.filename with
      | none => simp [partHeadEvent, decodedPart, hfn]
      | some x => simp [partHeadEvent, decodedPart, hfn]
    · refine ⟨⟨hbn, hcomp, hmm, hmp⟩, rfl, ?_, ?_⟩
      · -- the new buffer starts with CRLF
        have hpre : d'.buffer ++ fut = 13 :: 10 :: Z := by simp only [d']; rw [hdrop, hdZ]
        have h2 : 2 ≤ d'.buffer.length := by simp [d']; omega
        match hbuf : d'.buffer, h2 with
        | x :: y :: t, _ =>
          rw [hbuf] at hpre
          simp at hpre
          rw [hpre.1, hpre.2.1]; simp [lbLen]
      · have := dataOf_search hb p ps hv
        rcases this with ⟨s0, e0, h1, h2, h3⟩
        simp only [List.append_nil] at h1 h2 h3
        exact ⟨s0, e0, by simp only [d']; rw [hdrop]; exact h1, by simp only [d']; rw [hdrop]; exact h2,
          by simp only [d']; rw [hdrop]; exact h3⟩
  · left
    have hnone : searchBlank d.buffer = none := by
      cases hx : searchBlank d.buffer with
      | none => rfl
      | some v =>
        rcases v with ⟨s, e⟩
        have := searchBlank_append_stable fut hx
        rw [hsbW] at this
        simp at this
        have hbd := searchBlank_bounds hx
        omega
    let d' : Decoder := { d with searchPos := d.buffer.length - searchExtra }
    have hstep : step d = .ok (.needData, d') := by
      unfold step
      rw [hst]
      simp only
      rw [hfrom, hnone]
    refine ⟨d', ?_, ⟨⟨hbn, hcomp, hmm, hmp⟩, hst, hcat, d.buffer, [], by simp [d'], hnone, rfl⟩, ?_⟩
    · unfold nextEvent; rw [hstep, hcomp]; simp
    · intro hfe
      rw [hfe, List.append_nil] at hW
      have := congrArg List.length hW
      simp at this
      simp [L] at hlen
      omega

end Wz.Multipart
