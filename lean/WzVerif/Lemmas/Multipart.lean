/-
Helper lemmas for the multipart decoder model (C01 / C10 / C02). Core Lean only.
-/
import WzVerif.Model.Multipart
namespace Wz.Multipart
open Wz

/-- the boundary contains no CR / LF (it comes from a header parameter) -/
def BoundaryOk (bnd : Bytes) : Prop := hasNl bnd = false

instance (bnd : Bytes) : Decidable (BoundaryOk bnd) := by unfold BoundaryOk; infer_instance

/-! ### byte classes -/

theorem isNl_iff {a : UInt8} : isNl a = true ↔ a = 10 ∨ a = 13 := by
  simp [isNl]

theorem isNl_not_hws {a : UInt8} (h : isNl a = true) : isHws a = false := by
  rcases isNl_iff.1 h with h | h <;> subst h <;> decide

theorem dash_not_nl : isNl 45 = false := by decide
theorem dash_not_hws : isHws 45 = false := by decide

theorem hasNl_append (s t : Bytes) : hasNl (s ++ t) = (hasNl s || hasNl t) := by
  simp [hasNl]

theorem hasNl_cons (a : UInt8) (t : Bytes) : hasNl (a :: t) = (isNl a || hasNl t) := by
  simp [hasNl]

@[simp] theorem hasNl_nil : hasNl [] = false := rfl

/-! ### lbLen -/

theorem lbLen_le_two (s : Bytes) : lbLen s ≤ 2 := by
  unfold lbLen; split <;> (try split) <;> (try split) <;> (try split) <;> (try split) <;> omega

theorem lbLen_le_length (s : Bytes) : lbLen s ≤ s.length := by
  unfold lbLen; split
  · simp
  · split; · simp
    split
    · split
      · split <;> simp
      · simp
    · simp

theorem lbLen_cons_not_nl {a : UInt8} {t : Bytes} (h : isNl a = false) : lbLen (a :: t) = 0 := by
  simp [isNl] at h
  simp [lbLen, h.1, h.2]

theorem lbLen_pos_of_nl {a : UInt8} {t : Bytes} (h : isNl a = true) : 0 < lbLen (a :: t) := by
  rcases isNl_iff.1 h with h | h <;> subst h
  · simp [lbLen]
  · simp [lbLen]; cases t with
    | nil => simp
    | cons b t => simp; split <;> omega

theorem lbLen_pos_iff {s : Bytes} : 0 < lbLen s ↔ ∃ a t, s = a :: t ∧ isNl a = true := by
  constructor
  · intro h
    cases s with
    | nil => simp [lbLen] at h
    | cons a t =>
      refine ⟨a, t, rfl, ?_⟩
      cases hn : isNl a with
      | true => rfl
      | false => rw [lbLen_cons_not_nl hn] at h; omega
  · rintro ⟨a, t, rfl, h⟩; exact lbLen_pos_of_nl h

theorem lbLen_append_of_two_le {s : Bytes} (c : Bytes) (h : 2 ≤ s.length) : lbLen (s ++ c) = lbLen s := by
  match s, h with
  | a :: b :: t, _ => simp [lbLen]

theorem lbLen_append_ge (s c : Bytes) : lbLen s ≤ lbLen (s ++ c) := by
  match s with
  | [] => simp [lbLen]
  | [a] =>
    simp only [lbLen, List.singleton_append]
    split; · omega
    split
    · cases c with
      | nil => simp
      | cons b c => simp; split <;> omega
    · omega
  | a :: b :: t => rw [lbLen_append_of_two_le c (by simp)]; omega

theorem lbLen_lf (t : Bytes) : lbLen (10 :: t) = 1 := by simp [lbLen]
theorem lbLen_crlf (t : Bytes) : lbLen (13 :: 10 :: t) = 2 := by simp [lbLen]
theorem lbLen_cr_not_lf {b : UInt8} (t : Bytes) (h : b ≠ 10) : lbLen (13 :: b :: t) = 1 := by
  simp [lbLen, h]
theorem lbLen_cr_nil : lbLen [13] = 1 := by simp [lbLen]

theorem lbLen_append_cases {s : Bytes} (c : Bytes) (h : 0 < lbLen s) :
    lbLen (s ++ c) = lbLen s ∨ (s = [13] ∧ ∃ c', c = 10 :: c' ∧ lbLen (s ++ c) = 2) := by
  match s with
  | [] => simp [lbLen] at h
  | [a] =>
    rcases lbLen_pos_iff.1 h with ⟨a', t', he, hn⟩
    injection he with h1 h2; subst h1; subst h2
    rcases isNl_iff.1 hn with h | h <;> subst h
    · left; simp [lbLen]
    · cases c with
      | nil => left; simp
      | cons b c =>
        by_cases hb : b = 10
        · subst hb; right; exact ⟨rfl, c, rfl, by simp [lbLen]⟩
        · left; simp [lbLen, hb]
  | a :: b :: t => left; exact lbLen_append_of_two_le c (by simp)

/-! ### prefixes and takeWhile across a newline -/

theorem isPrefixOf_append_nl {p : Bytes} (u w : Bytes) {a : UInt8} (hp : hasNl p = false)
    (ha : isNl a = true) : p.isPrefixOf (u ++ a :: w) = p.isPrefixOf u := by
  induction p generalizing u with
  | nil => simp
  | cons x p ih =>
    rw [hasNl_cons] at hp
    simp at hp
    cases u with
    | nil =>
      have : x ≠ a := by intro h; subst h; rw [ha] at hp; exact absurd hp.1 (by simp)
      simp [List.isPrefixOf, this]
    | cons y u => simp [List.isPrefixOf, ih u hp.2]

theorem isPrefixOf_append_of_isPrefixOf {p s : Bytes} (c : Bytes) (h : p.isPrefixOf s = true) :
    p.isPrefixOf (s ++ c) = true := by
  rw [List.isPrefixOf_iff_prefix] at *
  exact List.IsPrefix.trans h (List.prefix_append s c)

theorem isPrefixOf_append_of_length_le {p s : Bytes} (c : Bytes) (h : p.length ≤ s.length) :
    p.isPrefixOf (s ++ c) = p.isPrefixOf s := by
  induction p generalizing s with
  | nil => simp
  | cons x p ih =>
    cases s with
    | nil => simp at h
    | cons y s =>
      simp at h
      simp [List.isPrefixOf, ih h]

theorem takeWhile_hws_append_nl (u w : Bytes) {a : UInt8} (ha : isHws a = false) :
    (u ++ a :: w).takeWhile isHws = u.takeWhile isHws := by
  induction u with
  | nil => simp [List.takeWhile, ha]
  | cons y u ih =>
    simp only [List.cons_append, List.takeWhile]
    cases isHws y <;> simp [ih]

theorem mem_takeWhile_true {p : UInt8 → Bool} {s : Bytes} {x : UInt8} (h : x ∈ s.takeWhile p) :
    p x = true := by
  induction s with
  | nil => simp at h
  | cons a s ih =>
    simp only [List.takeWhile] at h
    cases hp : p a with
    | true =>
      rw [hp] at h
      simp at h
      rcases h with h | h
      · subst h; exact hp
      · exact ih h
    | false => rw [hp] at h; simp at h

theorem takeWhile_length_le (p : UInt8 → Bool) (s : Bytes) : (s.takeWhile p).length ≤ s.length := by
  induction s with
  | nil => simp
  | cons a s ih => simp only [List.takeWhile]; split <;> simp <;> omega

theorem drop_takeWhile_length (p : UInt8 → Bool) (s : Bytes) :
    s.drop (s.takeWhile p).length = s.dropWhile p := by
  induction s with
  | nil => simp
  | cons a s ih =>
    simp only [List.takeWhile, List.dropWhile]
    cases p a <;> simp [ih]

/-! ### matchTail -/

theorem matchTail_final {r : Bytes} (h : [45, 45].isPrefixOf r = true) :
    matchTail r = some (2 + ((r.drop 2).takeWhile isHws).length +
      lbLen ((r.drop 2).drop ((r.drop 2).takeWhile isHws).length), true) := by
  simp [matchTail, h]

theorem matchTail_nonfinal {r : Bytes} (h : [45, 45].isPrefixOf r = false) :
    matchTail r =
      if 0 < lbLen (r.dropWhile isHws) then
        some ((r.takeWhile isHws).length + lbLen (r.dropWhile isHws), false) else none := by
  simp [matchTail, h, drop_takeWhile_length]

/-- shape of a non-closing tail match: horizontal whitespace, then a line break -/
theorem matchTail_false_iff {r : Bytes} {m : Nat} :
    matchTail r = some (m, false) ↔
      ∃ hh a t, r = hh ++ a :: t ∧ (∀ x ∈ hh, isHws x = true) ∧ isNl a = true ∧
        m = hh.length + lbLen (a :: t) := by
  constructor
  · intro h
    cases hp : [45, 45].isPrefixOf r with
    | true => rw [matchTail_final hp] at h; simp at h
    | false =>
      rw [matchTail_nonfinal hp] at h
      split at h
      · rename_i hl
        rcases lbLen_pos_iff.1 hl with ⟨a, t, he, hn⟩
        refine ⟨r.takeWhile isHws, a, t, ?_, ?_, hn, ?_⟩
        · rw [← he]; exact (List.takeWhile_append_dropWhile (p := isHws) (l := r)).symm
        · intro x hx; exact mem_takeWhile_true hx
        · simp at h; rw [← he]; omega
      · simp at h
  · rintro ⟨hh, a, t, rfl, hall, hn, rfl⟩
    have hna : isHws a = false := isNl_not_hws hn
    have hp : [45, 45].isPrefixOf (hh ++ a :: t) = false := by
      cases hh with
      | nil =>
        have : (45 == a) = false := by
          apply beq_false_of_ne; intro h; subst h; exact absurd hn (by decide)
        simp [List.isPrefixOf, this]
      | cons y hh =>
        have : (45 == y) = false := by
          apply beq_false_of_ne; intro h; subst h
          have := hall 45 (by simp)
          exact absurd this (by decide)
        simp [List.isPrefixOf, this]
    have htw : (hh ++ a :: t).takeWhile isHws = hh := by
      rw [List.takeWhile_append_of_pos hall]; simp [List.takeWhile, hna]
    have hdw : (hh ++ a :: t).dropWhile isHws = a :: t := by
      rw [List.dropWhile_append_of_pos hall]; simp [List.dropWhile, hna]
    rw [matchTail_nonfinal hp, htw, hdw]
    simp [lbLen_pos_of_nl hn]

theorem matchTail_true_iff {r : Bytes} {m : Nat} :
    matchTail r = some (m, true) ↔
      ∃ r2, r = 45 :: 45 :: r2 ∧
        m = 2 + (r2.takeWhile isHws).length + lbLen (r2.dropWhile isHws) := by
  constructor
  · intro h
    cases hp : [45, 45].isPrefixOf r with
    | true =>
      rw [matchTail_final hp] at h
      rw [List.isPrefixOf_iff_prefix] at hp
      rcases hp with ⟨r2, rfl⟩
      refine ⟨r2, rfl, ?_⟩
      simp [drop_takeWhile_length] at h
      omega
    | false =>
      rw [matchTail_nonfinal hp] at h
      split at h <;> simp at h
  · rintro ⟨r2, rfl, rfl⟩
    rw [matchTail_final (by simp [List.isPrefixOf])]
    simp [drop_takeWhile_length]

/-- a tail match does not depend on what follows the first line break when the text before it is
free of line breaks -/
theorem matchTail_append_nl {u : Bytes} {a : UInt8} {w : Bytes} {n : Nat} {f : Bool} (w' : Bytes)
    (hu : hasNl u = false) (ha : isNl a = true) (h : matchTail (u ++ a :: w) = some (n, f)) :
    ∃ n', matchTail (u ++ a :: w') = some (n', f) := by
  cases f with
  | true =>
    rcases matchTail_true_iff.1 h with ⟨r2, he, _⟩
    have hp : [45, 45].isPrefixOf (u ++ a :: w) = true := by rw [he]; simp [List.isPrefixOf]
    rw [isPrefixOf_append_nl u w (by decide) ha] at hp
    have hp' : [45, 45].isPrefixOf (u ++ a :: w') = true := by
      rw [isPrefixOf_append_nl u w' (by decide) ha]; exact hp
    exact ⟨_, matchTail_final hp'⟩
  | false =>
    rcases matchTail_false_iff.1 h with ⟨hh, a', t, he, hall, hn, _⟩
    -- hh ++ a' :: t = u ++ a :: w with hh all hws (hence newline free) : hh = u, a' = a
    have key : ∀ (hh u : Bytes), (∀ x ∈ hh, isHws x = true) → hasNl u = false →
        hh ++ a' :: t = u ++ a :: w → hh = u := by
      intro hh
      induction hh with
      | nil =>
        intro u _ hu he
        cases u with
        | nil => rfl
        | cons y u =>
          simp at he
          rw [hasNl_cons] at hu; simp at hu
          rw [← he.1] at hu; rw [hn] at hu; simp at hu
      | cons x hh ih =>
        intro u hall hu he
        cases u with
        | nil =>
          simp at he
          have := hall x (by simp)
          rw [he.1, isNl_not_hws ha] at this; simp at this
        | cons y u =>
          simp at he
          rw [hasNl_cons] at hu; simp at hu
          rw [he.1, ih u (fun z hz => hall z (by simp [hz])) hu.2 he.2]
    have hhu : hh = u := key hh u hall hu he.symm
    subst hhu
    exact ⟨_, matchTail_false_iff.2 ⟨hh, a, w', rfl, hall, ha, rfl⟩⟩

/-- appending input keeps a tail match and its kind; a non-closing match grows by at most the LF
that completes a trailing CR -/
theorem matchTail_append {r : Bytes} {m : Nat} {f : Bool} (c : Bytes) (h : matchTail r = some (m, f)) :
    ∃ m', matchTail (r ++ c) = some (m', f) ∧
      (f = false → m' = m ∨ (m' = m + 1 ∧ r.length = m ∧ ∃ c', c = 10 :: c')) := by
  cases f with
  | true =>
    rcases matchTail_true_iff.1 h with ⟨r2, rfl, _⟩
    exact ⟨_, matchTail_final (by simp [List.isPrefixOf]), by simp⟩
  | false =>
    rcases matchTail_false_iff.1 h with ⟨hh, a, t, rfl, hall, hn, rfl⟩
    refine ⟨hh.length + lbLen (a :: (t ++ c)), ?_, fun _ => ?_⟩
    · exact matchTail_false_iff.2 ⟨hh, a, t ++ c, by simp, hall, hn, rfl⟩
    · rcases lbLen_append_cases (s := a :: t) c (lbLen_pos_of_nl hn) with h1 | ⟨h1, c', h2, h3⟩
      · left; simp at h1; rw [h1]
      · right
        injection h1 with h1a h1b; subst h1a; subst h1b
        refine ⟨?_, ?_, c', h2⟩
        · simp only [List.nil_append]; simp only [List.singleton_append] at h3; rw [h3]; simp [lbLen]
        · simp [lbLen]

/-! ### matchDelimAt (boundary_re anchored) -/

/-- `--boundary` -/
def delim (bnd : Bytes) : Bytes := 45 :: 45 :: bnd

theorem delim_length (bnd : Bytes) : (delim bnd).length = bnd.length + 2 := by simp [delim]

theorem delim_no_nl {bnd : Bytes} (h : BoundaryOk bnd) : hasNl (delim bnd) = false := by
  unfold BoundaryOk at h
  simp [delim, hasNl_cons, h, dash_not_nl]

theorem matchDelimAt_iff {bnd s : Bytes} {n : Nat} {f : Bool} :
    matchDelimAt bnd false s = some (n, f) ↔
      ∃ r m, 0 < lbLen s ∧ s.drop (lbLen s) = delim bnd ++ r ∧ matchTail r = some (m, f) ∧
        n = lbLen s + (bnd.length + 2) + m := by
  unfold matchDelimAt
  constructor
  · intro h
    simp only [Bool.not_false, Bool.true_and] at h
    split at h
    · simp at h
    · rename_i hl
      split at h
      · rename_i hp
        rw [List.isPrefixOf_iff_prefix] at hp
        rcases hp with ⟨r, hr⟩
        have hd : (s.drop (lbLen s)).drop (bnd.length + 2) = r := by
          rw [← hr]; simp
        rw [hd] at h
        cases hm : matchTail r with
        | none => rw [hm] at h; simp at h
        | some v =>
          rw [hm] at h
          rcases v with ⟨m, f'⟩
          simp at h
          refine ⟨r, m, ?_, ?_, ?_, ?_⟩
          · simp at hl; omega
          · rw [← hr]; rfl
          · exact h.2 ▸ hm
          · omega
      · simp at h
  · rintro ⟨r, m, hl, hd, hm, rfl⟩
    simp only [Bool.not_false, Bool.true_and]
    have hl' : (lbLen s == 0) = false := by simp; omega
    rw [hl']
    simp only [Bool.false_eq_true, if_false]
    have hp : (45 :: 45 :: bnd).isPrefixOf (s.drop (lbLen s)) = true := by
      rw [hd, List.isPrefixOf_iff_prefix]; exact List.prefix_append _ _
    rw [hp]
    simp only [if_true]
    have hd2 : (s.drop (lbLen s)).drop (bnd.length + 2) = r := by
      rw [hd]; simp [delim]
    rw [hd2, hm]

theorem matchDelimAt_not_nl {bnd : Bytes} {a : UInt8} {t : Bytes} (h : isNl a = false) :
    matchDelimAt bnd false (a :: t) = none := by
  simp [matchDelimAt, lbLen_cons_not_nl h]

theorem matchDelimAt_nil {bnd : Bytes} : matchDelimAt bnd false [] = none := by
  simp [matchDelimAt, lbLen]

/-- appending input keeps an anchored match and its kind -/
theorem matchDelimAt_append {bnd s : Bytes} {n : Nat} {f : Bool} (c : Bytes)
    (h : matchDelimAt bnd false s = some (n, f)) :
    ∃ n', matchDelimAt bnd false (s ++ c) = some (n', f) ∧
      (f = false → n' = n ∨ (n' = n + 1 ∧ s.length = n ∧ ∃ c', c = 10 :: c')) := by
  rcases matchDelimAt_iff.1 h with ⟨r, m, hl, hd, hm, rfl⟩
  rcases matchTail_append c hm with ⟨m', hm', hrel⟩
  have hlen : s.length = lbLen s + (bnd.length + 2) + r.length := by
    have := congrArg List.length hd
    simp [delim] at this
    have := lbLen_le_length s
    omega
  have h2 : 2 ≤ s.length := by omega
  have hlb : lbLen (s ++ c) = lbLen s := lbLen_append_of_two_le c h2
  refine ⟨lbLen s + (bnd.length + 2) + m', ?_, ?_⟩
  · apply matchDelimAt_iff.2
    refine ⟨r ++ c, m', by omega, ?_, hm', by rw [hlb]⟩
    rw [hlb, List.drop_append_of_le_length (lbLen_le_length s), hd]; simp
  · intro hf
    rcases hrel hf with h1 | ⟨h1, h2, h3⟩
    · left; omega
    · right; exact ⟨by omega, by omega, h3⟩

theorem split_first_nl {s : Bytes} (h : hasNl s = true) :
    ∃ u a v, s = u ++ a :: v ∧ hasNl u = false ∧ isNl a = true := by
  induction s with
  | nil => simp at h
  | cons x s ih =>
    cases hx : isNl x with
    | true => exact ⟨[], x, s, rfl, rfl, hx⟩
    | false =>
      rw [hasNl_cons, hx] at h
      simp at h
      rcases ih h with ⟨u, a, v, rfl, hu, ha⟩
      exact ⟨x :: u, a, v, rfl, by simp [hasNl_cons, hx, hu], ha⟩

/-- if the text after the leading line break already contains a line break, an anchored match of
the extended input is an anchored match of the input -/
theorem matchDelimAt_cut_nl {bnd s c : Bytes} {n : Nat} {f : Bool} (hb : BoundaryOk bnd)
    (hnl : hasNl (s.drop (lbLen s)) = true)
    (h : matchDelimAt bnd false (s ++ c) = some (n, f)) :
    ∃ n', matchDelimAt bnd false s = some (n', f) := by
  have hne : s.drop (lbLen s) ≠ [] := by intro h0; rw [h0] at hnl; simp at hnl
  have hlt : lbLen s < s.length := by
    apply Nat.lt_of_not_le; intro hh
    exact hne (List.drop_eq_nil_of_le hh)
  have h2 : 2 ≤ s.length := by
    rcases Nat.eq_zero_or_pos (lbLen s) with h0 | h0
    · -- no leading line break at all: no match
      exfalso
      cases s with
      | nil => simp at hlt
      | cons a t =>
        cases ha : isNl a with
        | true => have := lbLen_pos_of_nl (t := t) ha; omega
        | false =>
          rw [List.cons_append, matchDelimAt_not_nl ha] at h; simp at h
    · omega
  have hlb : lbLen (s ++ c) = lbLen s := lbLen_append_of_two_le c h2
  rcases matchDelimAt_iff.1 h with ⟨r, m, hl, hd, hm, rfl⟩
  rw [hlb] at hd hl
  rw [List.drop_append_of_le_length (lbLen_le_length s)] at hd
  rcases split_first_nl hnl with ⟨u, a, v, hs', hu, ha⟩
  rw [hs', List.append_assoc, List.cons_append] at hd
  have hp : (delim bnd).isPrefixOf (u ++ a :: (v ++ c)) = true := by
    rw [hd, List.isPrefixOf_iff_prefix]; exact List.prefix_append _ _
  rw [isPrefixOf_append_nl u (v ++ c) (delim_no_nl hb) ha, List.isPrefixOf_iff_prefix] at hp
  rcases hp with ⟨u', rfl⟩
  rw [List.append_assoc] at hd
  have hr : r = u' ++ a :: (v ++ c) := (List.append_cancel_left hd).symm
  rw [hr] at hm
  have hu' : hasNl u' = false := by
    rw [hasNl_append] at hu; simp at hu; exact hu.2
  rcases matchTail_append_nl v hu' ha hm with ⟨m', hm'⟩
  refine ⟨lbLen s + (bnd.length + 2) + m', matchDelimAt_iff.2 ⟨u' ++ a :: v, m', hl, ?_, hm', rfl⟩⟩
  rw [hs']; simp

theorem matchDelimAt_crlf_of_lf {bnd r : Bytes} {n : Nat} {f : Bool}
    (h : matchDelimAt bnd false (10 :: r) = some (n, f)) :
    matchDelimAt bnd false (13 :: 10 :: r) = some (n + 1, f) := by
  rcases matchDelimAt_iff.1 h with ⟨r', m, _, hd, hm, rfl⟩
  rw [lbLen_lf] at hd ⊢
  apply matchDelimAt_iff.2
  refine ⟨r', m, by rw [lbLen_crlf]; omega, ?_, hm, by rw [lbLen_crlf]; omega⟩
  rw [lbLen_crlf]; simpa using hd

/-! ### substring search -/

theorem containsSub_cons {p : Bytes} {a : UInt8} {t : Bytes} (h : containsSub p t = true) :
    containsSub p (a :: t) = true := by
  simp [containsSub, h]

theorem containsSub_append_left {p : Bytes} (x : Bytes) {t : Bytes} (h : containsSub p t = true) :
    containsSub p (x ++ t) = true := by
  induction x with
  | nil => simpa using h
  | cons a x ih => exact containsSub_cons ih

theorem containsSub_of_prefix {p t : Bytes} (h : p.isPrefixOf t = true) : containsSub p t = true := by
  cases t with
  | nil =>
    cases p with
    | nil => rfl
    | cons a p => simp [List.isPrefixOf] at h
  | cons a t => simp [containsSub, h]

theorem containsSub_infix (x p y : Bytes) : containsSub p (x ++ (p ++ y)) = true :=
  containsSub_append_left x (containsSub_of_prefix (by
    rw [List.isPrefixOf_iff_prefix]; exact List.prefix_append _ _))

theorem containsSub_of_matchDelimAt {bnd s : Bytes} {n : Nat} {f : Bool}
    (h : matchDelimAt bnd false s = some (n, f)) : containsSub (delim bnd) s = true := by
  rcases matchDelimAt_iff.1 h with ⟨r, m, _, hd, _, _⟩
  have : s = s.take (lbLen s) ++ (delim bnd ++ r) := by rw [← hd]; simp
  rw [this]; exact containsSub_infix _ _ _

/-! ### searchDelim -/

/-- move a search result `k` bytes to the right -/
def shift (k : Nat) : Option (Nat × Nat × Bool) → Option (Nat × Nat × Bool)
  | some (s, e, f) => some (s + k, e + k, f)
  | none => none

@[simp] theorem shift_none (k : Nat) : shift k none = none := rfl
@[simp] theorem shift_some (k s e : Nat) (f : Bool) : shift k (some (s, e, f)) = some (s + k, e + k, f) := rfl
@[simp] theorem shift_zero (r : Option (Nat × Nat × Bool)) : shift 0 r = r := by
  cases r with
  | none => rfl
  | some v => rcases v with ⟨s, e, f⟩; rfl

theorem shift_shift (j k : Nat) (r : Option (Nat × Nat × Bool)) : shift j (shift k r) = shift (k + j) r := by
  cases r with
  | none => rfl
  | some v => rcases v with ⟨s, e, f⟩; simp [shift, Nat.add_assoc]

theorem shift_eq_none {k : Nat} {r : Option (Nat × Nat × Bool)} : shift k r = none ↔ r = none := by
  cases r with
  | none => simp
  | some v => rcases v with ⟨s, e, f⟩; simp [shift]

theorem searchDelim_cons_none {bnd : Bytes} {a : UInt8} {t : Bytes}
    (h : matchDelimAt bnd false (a :: t) = none) :
    searchDelim bnd false (a :: t) = shift 1 (searchDelim bnd false t) := by
  simp only [searchDelim, h]
  cases searchDelim bnd false t with
  | none => rfl
  | some v => rcases v with ⟨s, e, f⟩; rfl

theorem searchDelim_cons_some {bnd : Bytes} {a : UInt8} {t : Bytes} {n : Nat} {f : Bool}
    (h : matchDelimAt bnd false (a :: t) = some (n, f)) :
    searchDelim bnd false (a :: t) = some (0, n, f) := by
  simp only [searchDelim, h]

theorem searchDelim_cons_eq_none {bnd : Bytes} {a : UInt8} {t : Bytes} :
    searchDelim bnd false (a :: t) = none ↔
      matchDelimAt bnd false (a :: t) = none ∧ searchDelim bnd false t = none := by
  cases hm : matchDelimAt bnd false (a :: t) with
  | none => rw [searchDelim_cons_none hm, shift_eq_none]; simp
  | some v => rcases v with ⟨n, f⟩; rw [searchDelim_cons_some hm]; simp

theorem searchDelim_append_no_nl {bnd : Bytes} (b c : Bytes) (h : hasNl b = false) :
    searchDelim bnd false (b ++ c) = shift b.length (searchDelim bnd false c) := by
  induction b with
  | nil => simp
  | cons a b ih =>
    rw [hasNl_cons] at h; simp at h
    rw [List.cons_append, searchDelim_cons_none (matchDelimAt_not_nl h.1), ih h.2, shift_shift]
    simp

theorem searchDelim_some_hasNl {bnd s : Bytes} {r : Nat × Nat × Bool}
    (h : searchDelim bnd false s = some r) : hasNl s = true := by
  cases hn : hasNl s with
  | true => rfl
  | false =>
    have := searchDelim_append_no_nl (bnd := bnd) s [] hn
    simp [searchDelim] at this
    rw [this] at h; simp at h

theorem searchDelim_some_contains {bnd s : Bytes} {r : Nat × Nat × Bool}
    (h : searchDelim bnd false s = some r) : containsSub (delim bnd) s = true := by
  induction s generalizing r with
  | nil => simp [searchDelim] at h
  | cons a t ih =>
    cases hm : matchDelimAt bnd false (a :: t) with
    | some v => rcases v with ⟨n, f⟩; exact containsSub_of_matchDelimAt hm
    | none =>
      rw [searchDelim_cons_none hm] at h
      cases ht : searchDelim bnd false t with
      | none => rw [ht] at h; simp at h
      | some v => exact containsSub_cons (ih ht)

/-! ### last_newline -/

theorem lastNewline_cons_crlf {a : UInt8} {t : Bytes} (h1 : hasNl t = true) (h2 : isLastCrlf a t = true) :
    lastNewline (a :: t) = 0 := by simp [lastNewline, h1, h2]

theorem lastNewline_cons_more {a : UInt8} {t : Bytes} (h1 : hasNl t = true) (h2 : isLastCrlf a t = false) :
    lastNewline (a :: t) = 1 + lastNewline t := by simp [lastNewline, h1, h2]

theorem lastNewline_cons_nl {a : UInt8} {t : Bytes} (h1 : hasNl t = false) (h2 : isNl a = true) :
    lastNewline (a :: t) = 0 := by simp [lastNewline, h1, h2]

theorem lastNewline_cons_none {a : UInt8} {t : Bytes} (h1 : hasNl t = false) (h2 : isNl a = false) :
    lastNewline (a :: t) = 1 + t.length := by simp [lastNewline, h1, h2]

theorem isLastCrlf_iff {a : UInt8} {t : Bytes} :
    isLastCrlf a t = true ↔ a = 13 ∧ ∃ t2, t = 10 :: t2 ∧ hasNl t2 = false := by
  cases t with
  | nil => simp [isLastCrlf]
  | cons b t2 => simp [isLastCrlf, and_assoc]

theorem lastNewline_le (b : Bytes) : lastNewline b ≤ b.length := by
  induction b with
  | nil => simp [lastNewline]
  | cons a t ih =>
    cases h1 : hasNl t with
    | true =>
      cases h2 : isLastCrlf a t with
      | true => rw [lastNewline_cons_crlf h1 h2]; omega
      | false => rw [lastNewline_cons_more h1 h2]; simp; omega
    | false =>
      cases h2 : isNl a with
      | true => rw [lastNewline_cons_nl h1 h2]; omega
      | false => rw [lastNewline_cons_none h1 h2]; simp; omega

/-- what is held back starts with a line break and has no other line break -/
theorem lastNewline_tail (b : Bytes) :
    b.drop (lastNewline b) = [] ∨
      ∃ a r, b.drop (lastNewline b) = a :: r ∧ isNl a = true ∧
        hasNl ((a :: r).drop (lbLen (a :: r))) = false := by
  induction b with
  | nil => left; rfl
  | cons a t ih =>
    cases h1 : hasNl t with
    | true =>
      cases h2 : isLastCrlf a t with
      | true =>
        rw [lastNewline_cons_crlf h1 h2]
        rcases isLastCrlf_iff.1 h2 with ⟨rfl, t2, rfl, ht2⟩
        right
        exact ⟨13, 10 :: t2, rfl, by decide, by simp [lbLen_crlf, ht2]⟩
      | false =>
        rw [lastNewline_cons_more h1 h2]
        have : (a :: t).drop (1 + lastNewline t) = t.drop (lastNewline t) := by
          rw [Nat.add_comm]; rfl
        rw [this]; exact ih
    | false =>
      cases h2 : isNl a with
      | true =>
        rw [lastNewline_cons_nl h1 h2]
        right
        refine ⟨a, t, rfl, h2, ?_⟩
        rcases isNl_iff.1 h2 with h | h <;> subst h
        · simp [lbLen_lf, h1]
        · cases t with
          | nil => simp [lbLen_cr_nil]
          | cons b t2 =>
            have hb' : b ≠ 10 := by
              intro h; subst h; rw [hasNl_cons] at h1; simp [isNl] at h1
            rw [lbLen_cr_not_lf t2 hb']; simpa using h1
      | false =>
        rw [lastNewline_cons_none h1 h2]
        left
        have : 1 + t.length = (a :: t).length := by simp; omega
        rw [this]; simp

end Wz.Multipart
