/-
Helper lemmas for the multipart decoder model (C01 / C10 / C02). Core Lean only.
-/
import WzVerif.Model.Multipart
namespace Wz.Multipart
open Wz

/-- the boundary contains no CR / LF (it comes from a header parameter) -/
def BoundaryOk (bnd : Bytes) : Prop := hasNl bnd = false

instance (bnd : Bytes) : Decidable (BoundaryOk bnd) := by unfold BoundaryOk; infer_instance

/-! ### byte classes -/

theorem isNl_iff {a : UInt8} : isNl a = true ↔ a = 10 ∨ a = 13 := by
  simp [isNl]

theorem isNl_not_hws {a : UInt8} (h : isNl a = true) : isHws a = false := by
  rcases isNl_iff.1 h with h | h <;> subst h <;> decide

theorem dash_not_nl : isNl 45 = false := by decide
theorem dash_not_hws : isHws 45 = false := by decide

theorem hasNl_append (s t : Bytes) : hasNl (s ++ t) = (hasNl s || hasNl t) := by
  simp [hasNl]

theorem hasNl_cons (a : UInt8) (t : Bytes) : hasNl (a :: t) = (isNl a || hasNl t) := by
  simp [hasNl]

@[simp] theorem hasNl_nil : hasNl [] = false := rfl

/-! ### lbLen -/

theorem lbLen_le_two (s : Bytes) : lbLen s ≤ 2 := by
  unfold lbLen; split <;> (try split) <;> (try split) <;> (try split) <;> (try split) <;> omega

theorem lbLen_le_length (s : Bytes) : lbLen s ≤ s.length := by
  unfold lbLen; split
  · simp
  · split; · simp
    split
    · split
      · split <;> simp
      · simp
    · simp

theorem lbLen_cons_not_nl {a : UInt8} {t : Bytes} (h : isNl a = false) : lbLen (a :: t) = 0 := by
  simp [isNl] at h
  simp [lbLen, h.1, h.2]

theorem lbLen_pos_of_nl {a : UInt8} {t : Bytes} (h : isNl a = true) : 0 < lbLen (a :: t) := by
  rcases isNl_iff.1 h with h | h <;> subst h
  · simp [lbLen]
  · simp [lbLen]; cases t with
    | nil => simp
    | cons b t => simp; split <;> omega

theorem lbLen_pos_iff {s : Bytes} : 0 < lbLen s ↔ ∃ a t, s = a :: t ∧ isNl a = true := by
  constructor
  · intro h
    cases s with
    | nil => simp [lbLen] at h
    | cons a t =>
      refine ⟨a, t, rfl, ?_⟩
      cases hn : isNl a with
      | true => rfl
      | false => rw [lbLen_cons_not_nl hn] at h; omega
  · rintro ⟨a, t, rfl, h⟩; exact lbLen_pos_of_nl h

theorem lbLen_append_of_two_le {s : Bytes} (c : Bytes) (h : 2 ≤ s.length) : lbLen (s ++ c) = lbLen s := by
  match s, h with
  | a :: b :: t, _ => simp [lbLen]

theorem lbLen_append_ge (s c : Bytes) : lbLen s ≤ lbLen (s ++ c) := by
  match s with
  | [] => simp [lbLen]
  | [a] =>
    simp only [lbLen, List.singleton_append]
    split; · omega
    split
    · cases c with
      | nil => simp
      | cons b c => simp; split <;> omega
    · omega
  | a :: b :: t => rw [lbLen_append_of_two_le c (by simp)]; omega

theorem lbLen_lf (t : Bytes) : lbLen (10 :: t) = 1 := by simp [lbLen]
theorem lbLen_crlf (t : Bytes) : lbLen (13 :: 10 :: t) = 2 := by simp [lbLen]
theorem lbLen_cr_not_lf {b : UInt8} (t : Bytes) (h : b ≠ 10) : lbLen (13 :: b :: t) = 1 := by
  simp [lbLen, h]
theorem lbLen_cr_nil : lbLen [13] = 1 := by simp [lbLen]

theorem lbLen_append_cases {s : Bytes} (c : Bytes) (h : 0 < lbLen s) :
    lbLen (s ++ c) = lbLen s ∨ (s = [13] ∧ ∃ c', c = 10 :: c' ∧ lbLen (s ++ c) = 2) := by
  match s with
  | [] => simp [lbLen] at h
  | [a] =>
    rcases lbLen_pos_iff.1 h with ⟨a', t', he, hn⟩
    injection he with h1 h2; subst h1; subst h2
    rcases isNl_iff.1 hn with h | h <;> subst h
    · left; simp [lbLen]
    · cases c with
      | nil => left; simp
      | cons b c =>
        by_cases hb : b = 10
        · subst hb; right; exact ⟨rfl, c, rfl, by simp [lbLen]⟩
        · left; simp [lbLen, hb]
  | a :: b :: t => left; exact lbLen_append_of_two_le c (by simp)

/-! ### prefixes and takeWhile across a newline -/

theorem isPrefixOf_append_nl {p : Bytes} (u w : Bytes) {a : UInt8} (hp : hasNl p = false)
    (ha : isNl a = true) : p.isPrefixOf (u ++ a :: w) = p.isPrefixOf u := by
  induction p generalizing u with
  | nil => simp
  | cons x p ih =>
    rw [hasNl_cons] at hp
    simp at hp
    cases u with
    | nil =>
      have : x ≠ a := by intro h; subst h; rw [ha] at hp; exact absurd hp.1 (by simp)
      simp [List.isPrefixOf, this]
    | cons y u => simp [List.isPrefixOf, ih u hp.2]

theorem isPrefixOf_append_of_isPrefixOf {p s : Bytes} (c : Bytes) (h : p.isPrefixOf s = true) :
    p.isPrefixOf (s ++ c) = true := by
  rw [List.isPrefixOf_iff_prefix] at *
  exact List.IsPrefix.trans h (List.prefix_append s c)

theorem isPrefixOf_append_of_length_le {p s : Bytes} (c : Bytes) (h : p.length ≤ s.length) :
    p.isPrefixOf (s ++ c) = p.isPrefixOf s := by
  induction p generalizing s with
  | nil => simp
  | cons x p ih =>
    cases s with
    | nil => simp at h
    | cons y s =>
      simp at h
      simp [List.isPrefixOf, ih h]

theorem takeWhile_hws_append_nl (u w : Bytes) {a : UInt8} (ha : isHws a = false) :
    (u ++ a :: w).takeWhile isHws = u.takeWhile isHws := by
  induction u with
  | nil => simp [List.takeWhile, ha]
  | cons y u ih =>
    simp only [List.cons_append, List.takeWhile]
    cases isHws y <;> simp [ih]

theorem mem_takeWhile_true {p : UInt8 → Bool} {s : Bytes} {x : UInt8} (h : x ∈ s.takeWhile p) :
    p x = true := by
  induction s with
  | nil => simp at h
  | cons a s ih =>
    simp only [List.takeWhile] at h
    cases hp : p a with
    | true =>
      rw [hp] at h
      simp at h
      rcases h with h | h
      · subst h; exact hp
      · exact ih h
    | false => rw [hp] at h; simp at h

theorem takeWhile_length_le (p : UInt8 → Bool) (s : Bytes) : (s.takeWhile p).length ≤ s.length := by
  induction s with
  | nil => simp
  | cons a s ih => simp only [List.takeWhile]; split <;> simp <;> omega

theorem drop_takeWhile_length (p : UInt8 → Bool) (s : Bytes) :
    s.drop (s.takeWhile p).length = s.dropWhile p := by
  induction s with
  | nil => simp
  | cons a s ih =>
    simp only [List.takeWhile, List.dropWhile]
    cases p a <;> simp [ih]

/-! ### matchTail -/

theorem matchTail_final {r : Bytes} (h : [45, 45].isPrefixOf r = true) :
    matchTail r = some (2 + ((r.drop 2).takeWhile isHws).length +
      lbLen ((r.drop 2).drop ((r.drop 2).takeWhile isHws).length), true) := by
  simp [matchTail, h]

theorem matchTail_nonfinal {r : Bytes} (h : [45, 45].isPrefixOf r = false) :
    matchTail r =
      if 0 < lbLen (r.dropWhile isHws) then
        some ((r.takeWhile isHws).length + lbLen (r.dropWhile isHws), false) else none := by
  simp [matchTail, h, drop_takeWhile_length]

/-- shape of a non-closing tail match: horizontal whitespace, then a line break -/
theorem matchTail_false_iff {r : Bytes} {m : Nat} :
    matchTail r = some (m, false) ↔
      ∃ hh a t, r = hh ++ a :: t ∧ (∀ x ∈ hh, isHws x = true) ∧ isNl a = true ∧
        m = hh.length + lbLen (a :: t) := by
  constructor
  · intro h
    cases hp : [45, 45].isPrefixOf r with
    | true => rw [matchTail_final hp] at h; simp at h
    | false =>
      rw [matchTail_nonfinal hp] at h
      split at h
      · rename_i hl
        rcases lbLen_pos_iff.1 hl with ⟨a, t, he, hn⟩
        refine ⟨r.takeWhile isHws, a, t, ?_, ?_, hn, ?_⟩
        · rw [← he]; exact (List.takeWhile_append_dropWhile (p := isHws) (l := r)).symm
        · intro x hx; exact mem_takeWhile_true hx
        · simp at h; rw [← he]; omega
      · simp at h
  · rintro ⟨hh, a, t, rfl, hall, hn, rfl⟩
    have hna : isHws a = false := isNl_not_hws hn
    have hp : [45, 45].isPrefixOf (hh ++ a :: t) = false := by
      cases hh with
      | nil =>
        have : (45 == a) = false := by
          apply beq_false_of_ne; intro h; subst h; exact absurd hn (by decide)
        simp [List.isPrefixOf, this]
      | cons y hh =>
        have : (45 == y) = false := by
          apply beq_false_of_ne; intro h; subst h
          have := hall 45 (by simp)
          exact absurd this (by decide)
        simp [List.isPrefixOf, this]
    have htw : (hh ++ a :: t).takeWhile isHws = hh := by
      rw [List.takeWhile_append_of_pos hall]; simp [List.takeWhile, hna]
    have hdw : (hh ++ a :: t).dropWhile isHws = a :: t := by
      rw [List.dropWhile_append_of_pos hall]; simp [List.dropWhile, hna]
    rw [matchTail_nonfinal hp, htw, hdw]
    simp [lbLen_pos_of_nl hn]

theorem matchTail_true_iff {r : Bytes} {m : Nat} :
    matchTail r = some (m, true) ↔
      ∃ r2, r = 45 :: 45 :: r2 ∧
        m = 2 + (r2.takeWhile isHws).length + lbLen (r2.dropWhile isHws) := by
  constructor
  · intro h
    cases hp : [45, 45].isPrefixOf r with
    | true =>
      rw [matchTail_final hp] at h
      rw [List.isPrefixOf_iff_prefix] at hp
      rcases hp with ⟨r2, rfl⟩
      refine ⟨r2, rfl, ?_⟩
      simp [drop_takeWhile_length] at h
      omega
    | false =>
      rw [matchTail_nonfinal hp] at h
      split at h <;> simp at h
  · rintro ⟨r2, rfl, rfl⟩
    rw [matchTail_final (by simp [List.isPrefixOf])]
    simp [drop_takeWhile_length]

/-- a tail match does not depend on what follows the first line break when the text before it is
free of line breaks -/
theorem matchTail_append_nl {u : Bytes} {a : UInt8} {w : Bytes} {n : Nat} {f : Bool} (w' : Bytes)
    (hu : hasNl u = false) (ha : isNl a = true) (h : matchTail (u ++ a :: w) = some (n, f)) :
    ∃ n', matchTail (u ++ a :: w') = some (n', f) := by
  cases f with
  | true =>
    rcases matchTail_true_iff.1 h with ⟨r2, he, _⟩
    have hp : [45, 45].isPrefixOf (u ++ a :: w) = true := by rw [he]; simp [List.isPrefixOf]
    rw [isPrefixOf_append_nl u w (by decide) ha] at hp
    have hp' : [45, 45].isPrefixOf (u ++ a :: w') = true := by
      rw [isPrefixOf_append_nl u w' (by decide) ha]; exact hp
    exact ⟨_, matchTail_final hp'⟩
  | false =>
    rcases matchTail_false_iff.1 h with ⟨hh, a', t, he, hall, hn, _⟩
    -- hh ++ a' :: t = u ++ a :: w with hh all hws (hence newline free) : hh = u, a' = a
    have key : ∀ (hh u : Bytes), (∀ x ∈ hh, isHws x = true) → hasNl u = false →
        hh ++ a' :: t = u ++ a :: w → hh = u := by
      intro hh
      induction hh with
      | nil =>
        intro u _ hu he
        cases u with
        | nil => rfl
        | cons y u =>
          simp at he
          rw [hasNl_cons] at hu; simp at hu
          rw [← he.1] at hu; rw [hn] at hu; simp at hu
      | cons x hh ih =>
        intro u hall hu he
        cases u with
        | nil =>
          simp at he
          have := hall x (by simp)
          rw [he.1, isNl_not_hws ha] at this; simp at this
        | cons y u =>
          simp at he
          rw [hasNl_cons] at hu; simp at hu
          rw [he.1, ih u (fun z hz => hall z (by simp [hz])) hu.2 he.2]
    have hhu : hh = u := key hh u hall hu he.symm
    subst hhu
    exact ⟨_, matchTail_false_iff.2 ⟨hh, a, w', rfl, hall, ha, rfl⟩⟩

/-- appending input keeps a tail match and its kind; a non-closing match grows by at most the LF
that completes a trailing CR -/
theorem matchTail_append {r : Bytes} {m : Nat} {f : Bool} (c : Bytes) (h : matchTail r = some (m, f)) :
    ∃ m', matchTail (r ++ c) = some (m', f) ∧
      (f = false → m' = m ∨ (m' = m + 1 ∧ r.length = m ∧ ∃ c', c = 10 :: c')) := by
  cases f with
  | true =>
    rcases matchTail_true_iff.1 h with ⟨r2, rfl, _⟩
    exact ⟨_, matchTail_final (by simp [List.isPrefixOf]), by simp⟩
  | false =>
    rcases matchTail_false_iff.1 h with ⟨hh, a, t, rfl, hall, hn, rfl⟩
    refine ⟨hh.length + lbLen (a :: (t ++ c)), ?_, fun _ => ?_⟩
    · exact matchTail_false_iff.2 ⟨hh, a, t ++ c, by simp, hall, hn, rfl⟩
    · rcases lbLen_append_cases (s := a :: t) c (lbLen_pos_of_nl hn) with h1 | ⟨h1, c', h2, h3⟩
      · left; simp at h1; rw [h1]
      · right
        injection h1 with h1a h1b; subst h1a; subst h1b
        refine ⟨?_, ?_, c', h2⟩
        · simp only [List.nil_append]; simp only [List.singleton_append] at h3; rw [h3]; simp [lbLen]
        · simp [lbLen]

/-! ### matchDelimAt (boundary_re anchored) -/

/-- `--boundary` -/
def delim (bnd : Bytes) : Bytes := 45 :: 45 :: bnd

theorem delim_length (bnd : Bytes) : (delim bnd).length = bnd.length + 2 := by simp [delim]

theorem delim_no_nl {bnd : Bytes} (h : BoundaryOk bnd) : hasNl (delim bnd) = false := by
  unfold BoundaryOk at h
  simp [delim, hasNl_cons, h, dash_not_nl]

theorem matchDelimAt_iff {bnd s : Bytes} {n : Nat} {f : Bool} :
    matchDelimAt bnd false s = some (n, f) ↔
      ∃ r m, 0 < lbLen s ∧ s.drop (lbLen s) = delim bnd ++ r ∧ matchTail r = some (m, f) ∧
        n = lbLen s + (bnd.length + 2) + m := by
  unfold matchDelimAt
  constructor
  · intro h
    simp only [Bool.not_false, Bool.true_and] at h
    split at h
    · simp at h
    · rename_i hl
      split at h
      · rename_i hp
        rw [List.isPrefixOf_iff_prefix] at hp
        rcases hp with ⟨r, hr⟩
        have hd : (s.drop (lbLen s)).drop (bnd.length + 2) = r := by
          rw [← hr]; simp
        rw [hd] at h
        cases hm : matchTail r with
        | none => rw [hm] at h; simp at h
        | some v =>
          rw [hm] at h
          rcases v with ⟨m, f'⟩
          simp at h
          refine ⟨r, m, ?_, ?_, ?_, ?_⟩
          · simp at hl; omega
          · rw [← hr]; rfl
          · exact h.2 ▸ hm
          · omega
      · simp at h
  · rintro ⟨r, m, hl, hd, hm, rfl⟩
    simp only [Bool.not_false, Bool.true_and]
    have hl' : (lbLen s == 0) = false := by simp; omega
    rw [hl']
    simp only [Bool.false_eq_true, if_false]
    have hp : (45 :: 45 :: bnd).isPrefixOf (s.drop (lbLen s)) = true := by
      rw [hd, List.isPrefixOf_iff_prefix]; exact List.prefix_append _ _
    rw [hp]
    simp only [if_true]
    have hd2 : (s.drop (lbLen s)).drop (bnd.length + 2) = r := by
      rw [hd]; simp [delim]
    rw [hd2, hm]

theorem matchDelimAt_not_nl {bnd : Bytes} {a : UInt8} {t : Bytes} (h : isNl a = false) :
    matchDelimAt bnd false (a :: t) = none := by
  simp [matchDelimAt, lbLen_cons_not_nl h]

theorem matchDelimAt_nil {bnd : Bytes} : matchDelimAt bnd false [] = none := by
  simp [matchDelimAt, lbLen]

/-- appending input keeps an anchored match and its kind -/
theorem matchDelimAt_append {bnd s : Bytes} {n : Nat} {f : Bool} (c : Bytes)
    (h : matchDelimAt bnd false s = some (n, f)) :
    ∃ n', matchDelimAt bnd false (s ++ c) = some (n', f) ∧
      (f = false → n' = n ∨ (n' = n + 1 ∧ s.length = n ∧ ∃ c', c = 10 :: c')) := by
  rcases matchDelimAt_iff.1 h with ⟨r, m, hl, hd, hm, rfl⟩
  rcases matchTail_append c hm with ⟨m', hm', hrel⟩
  have hlen : s.length = lbLen s + (bnd.length + 2) + r.length := by
    have := congrArg List.length hd
    simp [delim] at this
    have := lbLen_le_length s
    omega
  have h2 : 2 ≤ s.length := by omega
  have hlb : lbLen (s ++ c) = lbLen s := lbLen_append_of_two_le c h2
  refine ⟨lbLen s + (bnd.length + 2) + m', ?_, ?_⟩
  · apply matchDelimAt_iff.2
    refine ⟨r ++ c, m', by omega, ?_, hm', by rw [hlb]⟩
    rw [hlb, List.drop_append_of_le_length (lbLen_le_length s), hd]; simp
  · intro hf
    rcases hrel hf with h1 | ⟨h1, h2, h3⟩
    · left; omega
    · right; exact ⟨by omega, by omega, h3⟩

theorem split_first_nl {s : Bytes} (h : hasNl s = true) :
    ∃ u a v, s = u ++ a :: v ∧ hasNl u = false ∧ isNl a = true := by
  induction s with
  | nil => simp at h
  | cons x s ih =>
    cases hx : isNl x with
    | true => exact ⟨[], x, s, rfl, rfl, hx⟩
    | false =>
      rw [hasNl_cons, hx] at h
      simp at h
      rcases ih h with ⟨u, a, v, rfl, hu, ha⟩
      exact ⟨x :: u, a, v, rfl, by simp [hasNl_cons, hx, hu], ha⟩

/-- if the text after the leading line break already contains a line break, an anchored match of
the extended input is an anchored match of the input -/
theorem matchDelimAt_cut_nl {bnd s c : Bytes} {n : Nat} {f : Bool} (hb : BoundaryOk bnd)
    (hnl : hasNl (s.drop (lbLen s)) = true)
    (h : matchDelimAt bnd false (s ++ c) = some (n, f)) :
    ∃ n', matchDelimAt bnd false s = some (n', f) := by
  have hne : s.drop (lbLen s) ≠ [] := by intro h0; rw [h0] at hnl; simp at hnl
  have hlt : lbLen s < s.length := by
    apply Nat.lt_of_not_le; intro hh
    exact hne (List.drop_eq_nil_of_le hh)
  have h2 : 2 ≤ s.length := by
    rcases Nat.eq_zero_or_pos (lbLen s) with h0 | h0
    · -- no leading line break at all: no match
      exfalso
      cases s with
      | nil => simp at hlt
      | cons a t =>
        cases ha : isNl a with
        | true => have := lbLen_pos_of_nl (t := t) ha; omega
        | false =>
          rw [List.cons_append, matchDelimAt_not_nl ha] at h; simp at h
    · omega
  have hlb : lbLen (s ++ c) = lbLen s := lbLen_append_of_two_le c h2
  rcases matchDelimAt_iff.1 h with ⟨r, m, hl, hd, hm, rfl⟩
  rw [hlb] at hd hl
  rw [List.drop_append_of_le_length (lbLen_le_length s)] at hd
  rcases split_first_nl hnl with ⟨u, a, v, hs', hu, ha⟩
  rw [hs', List.append_assoc, List.cons_append] at hd
  have hp : (delim bnd).isPrefixOf (u ++ a :: (v ++ c)) = true := by
    rw [hd, List.isPrefixOf_iff_prefix]; exact List.prefix_append _ _
  rw [isPrefixOf_append_nl u (v ++ c) (delim_no_nl hb) ha, List.isPrefixOf_iff_prefix] at hp
  rcases hp with ⟨u', rfl⟩
  rw [List.append_assoc] at hd
  have hr : r = u' ++ a :: (v ++ c) := (List.append_cancel_left hd).symm
  rw [hr] at hm
  have hu' : hasNl u' = false := by
    rw [hasNl_append] at hu; simp at hu; exact hu.2
  rcases matchTail_append_nl v hu' ha hm with ⟨m', hm'⟩
  refine ⟨lbLen s + (bnd.length + 2) + m', matchDelimAt_iff.2 ⟨u' ++ a :: v, m', hl, ?_, hm', rfl⟩⟩
  rw [hs']; simp

theorem matchDelimAt_crlf_of_lf {bnd r : Bytes} {n : Nat} {f : Bool}
    (h : matchDelimAt bnd false (10 :: r) = some (n, f)) :
    matchDelimAt bnd false (13 :: 10 :: r) = some (n + 1, f) := by
  rcases matchDelimAt_iff.1 h with ⟨r', m, _, hd, hm, rfl⟩
  rw [lbLen_lf] at hd ⊢
  apply matchDelimAt_iff.2
  refine ⟨r', m, by rw [lbLen_crlf]; omega, ?_, hm, by rw [lbLen_crlf]; omega⟩
  rw [lbLen_crlf]; simpa using hd

/-! ### substring search -/

theorem containsSub_cons {p : Bytes} {a : UInt8} {t : Bytes} (h : containsSub p t = true) :
    containsSub p (a :: t) = true := by
  simp [containsSub, h]

theorem containsSub_append_left {p : Bytes} (x : Bytes) {t : Bytes} (h : containsSub p t = true) :
    containsSub p (x ++ t) = true := by
  induction x with
  | nil => simpa using h
  | cons a x ih => exact containsSub_cons ih

theorem containsSub_of_prefix {p t : Bytes} (h : p.isPrefixOf t = true) : containsSub p t = true := by
  cases t with
  | nil =>
    cases p with
    | nil => rfl
    | cons a p => simp [List.isPrefixOf] at h
  | cons a t => simp [containsSub, h]

theorem containsSub_infix (x p y : Bytes) : containsSub p (x ++ (p ++ y)) = true :=
  containsSub_append_left x (containsSub_of_prefix (by
    rw [List.isPrefixOf_iff_prefix]; exact List.prefix_append _ _))

theorem containsSub_of_matchDelimAt {bnd s : Bytes} {n : Nat} {f : Bool}
    (h : matchDelimAt bnd false s = some (n, f)) : containsSub (delim bnd) s = true := by
  rcases matchDelimAt_iff.1 h with ⟨r, m, _, hd, _, _⟩
  have : s = s.take (lbLen s) ++ (delim bnd ++ r) := by rw [← hd]; simp
  rw [this]; exact containsSub_infix _ _ _

/-! ### searchDelim -/

/-- move a search result `k` bytes to the right -/
def shift (k : Nat) : Option (Nat × Nat × Bool) → Option (Nat × Nat × Bool)
  | some (s, e, f) => some (s + k, e + k, f)
  | none => none

@[simp] theorem shift_none (k : Nat) : shift k none = none := rfl
@[simp] theorem shift_some (k s e : Nat) (f : Bool) : shift k (some (s, e, f)) = some (s + k, e + k, f) := rfl
@[simp] theorem shift_zero (r : Option (Nat × Nat × Bool)) : shift 0 r = r := by
  cases r with
  | none => rfl
  | some v => rcases v with ⟨s, e, f⟩; rfl

theorem shift_shift (j k : Nat) (r : Option (Nat × Nat × Bool)) : shift j (shift k r) = shift (k + j) r := by
  cases r with
  | none => rfl
  | some v => rcases v with ⟨s, e, f⟩; simp [shift, Nat.add_assoc]

theorem shift_eq_none {k : Nat} {r : Option (Nat × Nat × Bool)} : shift k r = none ↔ r = none := by
  cases r with
  | none => simp
  | some v => rcases v with ⟨s, e, f⟩; simp [shift]

theorem searchDelim_cons_none {bnd : Bytes} {o : Bool} {a : UInt8} {t : Bytes}
    (h : matchDelimAt bnd o (a :: t) = none) :
    searchDelim bnd o (a :: t) = shift 1 (searchDelim bnd o t) := by
  simp only [searchDelim, h]
  cases searchDelim bnd o t with
  | none => rfl
  | some v => rcases v with ⟨s, e, f⟩; rfl

theorem searchDelim_cons_some {bnd : Bytes} {o : Bool} {a : UInt8} {t : Bytes} {n : Nat} {f : Bool}
    (h : matchDelimAt bnd o (a :: t) = some (n, f)) :
    searchDelim bnd o (a :: t) = some (0, n, f) := by
  simp only [searchDelim, h]

theorem searchDelim_cons_eq_none {bnd : Bytes} {o : Bool} {a : UInt8} {t : Bytes} :
    searchDelim bnd o (a :: t) = none ↔
      matchDelimAt bnd o (a :: t) = none ∧ searchDelim bnd o t = none := by
  cases hm : matchDelimAt bnd o (a :: t) with
  | none => rw [searchDelim_cons_none hm, shift_eq_none]; simp
  | some v => rcases v with ⟨n, f⟩; rw [searchDelim_cons_some hm]; simp

theorem searchDelim_append_no_nl {bnd : Bytes} (b c : Bytes) (h : hasNl b = false) :
    searchDelim bnd false (b ++ c) = shift b.length (searchDelim bnd false c) := by
  induction b with
  | nil => simp
  | cons a b ih =>
    rw [hasNl_cons] at h; simp at h
    rw [List.cons_append, searchDelim_cons_none (matchDelimAt_not_nl h.1), ih h.2, shift_shift]
    simp

theorem searchDelim_some_hasNl {bnd s : Bytes} {r : Nat × Nat × Bool}
    (h : searchDelim bnd false s = some r) : hasNl s = true := by
  cases hn : hasNl s with
  | true => rfl
  | false =>
    have := searchDelim_append_no_nl (bnd := bnd) s [] hn
    simp [searchDelim] at this
    rw [this] at h; simp at h

theorem searchDelim_some_contains {bnd s : Bytes} {r : Nat × Nat × Bool}
    (h : searchDelim bnd false s = some r) : containsSub (delim bnd) s = true := by
  induction s generalizing r with
  | nil => simp [searchDelim] at h
  | cons a t ih =>
    cases hm : matchDelimAt bnd false (a :: t) with
    | some v => rcases v with ⟨n, f⟩; exact containsSub_of_matchDelimAt hm
    | none =>
      rw [searchDelim_cons_none hm] at h
      cases ht : searchDelim bnd false t with
      | none => rw [ht] at h; simp at h
      | some v => exact containsSub_cons (ih ht)

/-! ### last_newline -/

theorem lastNewline_cons_crlf {a : UInt8} {t : Bytes} (h1 : hasNl t = true) (h2 : isLastCrlf a t = true) :
    lastNewline (a :: t) = 0 := by simp [lastNewline, h1, h2]

theorem lastNewline_cons_more {a : UInt8} {t : Bytes} (h1 : hasNl t = true) (h2 : isLastCrlf a t = false) :
    lastNewline (a :: t) = 1 + lastNewline t := by simp [lastNewline, h1, h2]

theorem lastNewline_cons_nl {a : UInt8} {t : Bytes} (h1 : hasNl t = false) (h2 : isNl a = true) :
    lastNewline (a :: t) = 0 := by simp [lastNewline, h1, h2]

theorem lastNewline_cons_none {a : UInt8} {t : Bytes} (h1 : hasNl t = false) (h2 : isNl a = false) :
    lastNewline (a :: t) = 1 + t.length := by simp [lastNewline, h1, h2]

theorem isLastCrlf_iff {a : UInt8} {t : Bytes} :
    isLastCrlf a t = true ↔ a = 13 ∧ ∃ t2, t = 10 :: t2 ∧ hasNl t2 = false := by
  cases t with
  | nil => simp [isLastCrlf]
  | cons b t2 => simp [isLastCrlf, and_assoc]

theorem lastNewline_le (b : Bytes) : lastNewline b ≤ b.length := by
  induction b with
  | nil => simp [lastNewline]
  | cons a t ih =>
    cases h1 : hasNl t with
    | true =>
      cases h2 : isLastCrlf a t with
      | true => rw [lastNewline_cons_crlf h1 h2]; omega
      | false => rw [lastNewline_cons_more h1 h2]; simp; omega
    | false =>
      cases h2 : isNl a with
      | true => rw [lastNewline_cons_nl h1 h2]; omega
      | false => rw [lastNewline_cons_none h1 h2]; simp; omega

/-- what is held back starts with a line break and has no other line break -/
theorem lastNewline_tail (b : Bytes) :
    b.drop (lastNewline b) = [] ∨
      ∃ a r, b.drop (lastNewline b) = a :: r ∧ isNl a = true ∧
        hasNl ((a :: r).drop (lbLen (a :: r))) = false := by
  induction b with
  | nil => left; rfl
  | cons a t ih =>
    cases h1 : hasNl t with
    | true =>
      cases h2 : isLastCrlf a t with
      | true =>
        rw [lastNewline_cons_crlf h1 h2]
        rcases isLastCrlf_iff.1 h2 with ⟨rfl, t2, rfl, ht2⟩
        right
        exact ⟨13, 10 :: t2, rfl, by decide, by simp [lbLen_crlf, ht2]⟩
      | false =>
        rw [lastNewline_cons_more h1 h2]
        have : (a :: t).drop (1 + lastNewline t) = t.drop (lastNewline t) := by
          rw [Nat.add_comm]; rfl
        rw [this]; exact ih
    | false =>
      cases h2 : isNl a with
      | true =>
        rw [lastNewline_cons_nl h1 h2]
        right
        refine ⟨a, t, rfl, h2, ?_⟩
        rcases isNl_iff.1 h2 with h | h <;> subst h
        · simp [lbLen_lf, h1]
        · cases t with
          | nil => simp [lbLen_cr_nil]
          | cons b t2 =>
            have hb' : b ≠ 10 := by
              intro h; subst h; rw [hasNl_cons] at h1; simp [isNl] at h1
            rw [lbLen_cr_not_lf t2 hb']; simpa using h1
      | false =>
        rw [lastNewline_cons_none h1 h2]
        left
        have : 1 + t.length = (a :: t).length := by simp; omega
        rw [this]; simp

/-! ### the hold-back point is safe -/

/-- the text after the leading line break of `a :: t` contains another line break -/
theorem hasNl_after_lb {a : UInt8} {t : Bytes} (ha : isNl a = true) (h1 : hasNl t = true)
    (h2 : isLastCrlf a t = false) : hasNl ((a :: t).drop (lbLen (a :: t))) = true := by
  rcases isNl_iff.1 ha with h | h <;> subst h
  · simpa [lbLen_lf] using h1
  · cases t with
    | nil => simp at h1
    | cons b t2 =>
      by_cases hb : b = 10
      · subst hb
        rw [lbLen_crlf]
        cases ht2 : hasNl t2 with
        | true => simpa using ht2
        | false =>
          have : isLastCrlf 13 (10 :: t2) = true := isLastCrlf_iff.2 ⟨rfl, t2, rfl, ht2⟩
          rw [this] at h2; simp at h2
      · rw [lbLen_cr_not_lf t2 hb]; simpa using h1

/-- **Hold-back safety.** When the buffer `b` contains no delimiter match, releasing everything
before `last_newline(b)` cannot lose a delimiter: for every continuation `c` the leftmost match in
`b ++ c` is the leftmost match in (held-back tail ++ c), moved by the released length. -/
theorem hold_safe {bnd : Bytes} (hb : BoundaryOk bnd) (b : Bytes)
    (h : searchDelim bnd false b = none) (c : Bytes) :
    searchDelim bnd false (b ++ c) =
      shift (lastNewline b) (searchDelim bnd false (b.drop (lastNewline b) ++ c)) := by
  induction b with
  | nil => simp [lastNewline]
  | cons a t ih =>
    rcases searchDelim_cons_eq_none.1 h with ⟨hm, ht⟩
    cases h1 : hasNl t with
    | true =>
      cases h2 : isLastCrlf a t with
      | true => rw [lastNewline_cons_crlf h1 h2]; simp
      | false =>
        rw [lastNewline_cons_more h1 h2]
        have hm' : matchDelimAt bnd false (a :: (t ++ c)) = none := by
          cases ha : isNl a with
          | false => exact matchDelimAt_not_nl ha
          | true =>
            cases hx : matchDelimAt bnd false (a :: (t ++ c)) with
            | none => rfl
            | some v =>
              rcases v with ⟨n, f⟩
              have := matchDelimAt_cut_nl (s := a :: t) (c := c) hb (hasNl_after_lb ha h1 h2)
                (by simpa using hx)
              rcases this with ⟨n', hn'⟩
              rw [hm] at hn'; simp at hn'
        rw [List.cons_append, searchDelim_cons_none hm', ih ht, shift_shift]
        have : (a :: t).drop (1 + lastNewline t) = t.drop (lastNewline t) := by
          rw [Nat.add_comm]; rfl
        rw [this, Nat.add_comm]
    | false =>
      cases h2 : isNl a with
      | true => rw [lastNewline_cons_nl h1 h2]; simp
      | false =>
        rw [lastNewline_cons_none h1 h2]
        have hno : hasNl (a :: t) = false := by simp [hasNl_cons, h1, h2]
        rw [searchDelim_append_no_nl (a :: t) c hno]
        have : 1 + t.length = (a :: t).length := by simp; omega
        rw [this]; simp

/-- **Far case.** When `--boundary` does not occur in the buffer at all and more than
`len("\n--boundary")` bytes follow the last line break, everything may be released. -/
theorem hold_safe_far {bnd : Bytes} (hb : BoundaryOk bnd) (b : Bytes)
    (hc : containsSub (delim bnd) b = false)
    (hfar : b.length - lastNewline b > (delim bnd).length + 1) (c : Bytes) :
    searchDelim bnd false (b ++ c) = shift b.length (searchDelim bnd false c) := by
  have hnone : searchDelim bnd false b = none := by
    cases hs : searchDelim bnd false b with
    | none => rfl
    | some r => rw [searchDelim_some_contains hs] at hc; simp at hc
  rw [hold_safe hb b hnone c]
  have hk := lastNewline_le b
  -- the held-back tail
  rcases lastNewline_tail b with h0 | ⟨a, r, htail, ha, hrest⟩
  · have : b.length - lastNewline b = 0 := by
      have := congrArg List.length h0; simp at this; omega
    omega
  · have hlen : (a :: r).length = b.length - lastNewline b := by rw [← htail]; simp
    have hbsplit : b = b.take (lastNewline b) ++ (a :: r) := by rw [← htail]; simp
    -- no match can start inside the tail
    have key : searchDelim bnd false ((a :: r) ++ c) = shift (a :: r).length (searchDelim bnd false c) := by
      have hl2 : 2 ≤ (a :: r).length := by rw [delim_length] at hfar; omega
      have hlb : lbLen ((a :: r) ++ c) = lbLen (a :: r) := lbLen_append_of_two_le c hl2
      -- `--boundary` is not a prefix of what follows the line break
      have hnp : ∀ x : Bytes, (delim bnd).isPrefixOf ((a :: r).drop (lbLen (a :: r)) ++ x) = false := by
        intro x
        cases hp : (delim bnd).isPrefixOf ((a :: r).drop (lbLen (a :: r)) ++ x) with
        | false => rfl
        | true =>
          exfalso
          have hle : (delim bnd).length ≤ ((a :: r).drop (lbLen (a :: r))).length := by
            have := lbLen_le_two (a :: r)
            simp only [List.length_drop]
            rw [delim_length] at hfar ⊢
            omega
          rw [isPrefixOf_append_of_length_le x hle, List.isPrefixOf_iff_prefix] at hp
          rcases hp with ⟨y, hy⟩
          have : b = (b.take (lastNewline b) ++ (a :: r).take (lbLen (a :: r))) ++ (delim bnd ++ y) := by
            rw [hy, List.append_assoc, List.take_append_drop]; exact hbsplit
          rw [this, containsSub_infix] at hc; simp at hc
      have hm0 : matchDelimAt bnd false ((a :: r) ++ c) = none := by
        cases hx : matchDelimAt bnd false ((a :: r) ++ c) with
        | none => rfl
        | some v =>
          rcases v with ⟨n, f⟩
          rcases matchDelimAt_iff.1 hx with ⟨r', m, _, hd, _, _⟩
          rw [hlb, List.drop_append_of_le_length (lbLen_le_length _)] at hd
          have := hnp c
          rw [hd, List.isPrefixOf_iff_prefix.2 (List.prefix_append _ _)] at this
          simp at this
      rcases isNl_iff.1 ha with h | h <;> subst h
      · -- LF: the rest of the tail has no line break
        rw [lbLen_lf] at hrest
        simp at hrest
        rw [List.cons_append] at hm0 ⊢
        rw [searchDelim_cons_none hm0, searchDelim_append_no_nl r c hrest, shift_shift]
        simp
      · cases r with
        | nil => simp at hl2
        | cons b2 r2 =>
          by_cases hb2 : b2 = 10
          · subst hb2
            rw [lbLen_crlf] at hrest hnp
            simp at hrest
            have hm1 : matchDelimAt bnd false (10 :: (r2 ++ c)) = none := by
              cases hx : matchDelimAt bnd false (10 :: (r2 ++ c)) with
              | none => rfl
              | some v =>
                rcases v with ⟨n, f⟩
                rcases matchDelimAt_iff.1 hx with ⟨r', m, _, hd, _, _⟩
                rw [lbLen_lf] at hd
                have := hnp c
                simp at this hd
                rw [hd, List.isPrefixOf_iff_prefix.2 (List.prefix_append _ _)] at this
                simp at this
            simp only [List.cons_append] at hm0 ⊢
            rw [searchDelim_cons_none hm0, searchDelim_cons_none hm1,
              searchDelim_append_no_nl r2 c hrest, shift_shift, shift_shift]
            simp
          · rw [lbLen_cr_not_lf r2 hb2] at hrest
            simp at hrest
            rw [List.cons_append] at hm0 ⊢
            rw [searchDelim_cons_none hm0, searchDelim_append_no_nl (b2 :: r2) c hrest, shift_shift]
            simp
    rw [htail, key, shift_shift]
    congr 1
    omega

/-! ### a recognised delimiter stays recognised -/

/-- **Decision stability.** The leftmost match found in the buffer is the leftmost match of every
extension of the buffer, with the same kind; only a trailing CR may still be completed by an LF. -/
theorem searchDelim_append_stable {bnd : Bytes} (hb : BoundaryOk bnd) {b : Bytes} {s e : Nat} {f : Bool}
    (h : searchDelim bnd false b = some (s, e, f)) (c : Bytes) :
    ∃ e', searchDelim bnd false (b ++ c) = some (s, e', f) ∧
      (f = false → e' = e ∨ (e' = e + 1 ∧ b.length = e ∧ ∃ c', c = 10 :: c')) := by
  induction b generalizing s e with
  | nil => simp [searchDelim] at h
  | cons a t ih =>
    cases hm : matchDelimAt bnd false (a :: t) with
    | some v =>
      rcases v with ⟨n, f'⟩
      rw [searchDelim_cons_some hm] at h
      simp at h
      rcases h with ⟨rfl, rfl, rfl⟩
      rcases matchDelimAt_append c hm with ⟨n', hn', hrel⟩
      exact ⟨n', searchDelim_cons_some (by simpa using hn'), hrel⟩
    | none =>
      rw [searchDelim_cons_none hm] at h
      cases ht : searchDelim bnd false t with
      | none => rw [ht] at h; simp at h
      | some v =>
        rcases v with ⟨s0, e0, f0⟩
        rw [ht] at h
        simp at h
        rcases h with ⟨rfl, rfl, rfl⟩
        rcases ih ht with ⟨e0', he0', hrel⟩
        have hnt : hasNl t = true := searchDelim_some_hasNl ht
        have hm' : matchDelimAt bnd false (a :: (t ++ c)) = none := by
          cases ha : isNl a with
          | false => exact matchDelimAt_not_nl ha
          | true =>
            cases hx : matchDelimAt bnd false (a :: (t ++ c)) with
            | none => rfl
            | some v =>
              rcases v with ⟨n, f2⟩
              exfalso
              have hafter : hasNl ((a :: t).drop (lbLen (a :: t))) = true := by
                rcases isNl_iff.1 ha with h | h <;> subst h
                · simpa [lbLen_lf] using hnt
                · cases t with
                  | nil => simp at hnt
                  | cons b2 t2 =>
                    by_cases hb2 : b2 = 10
                    · subst hb2
                      rw [lbLen_crlf]
                      cases hm1 : matchDelimAt bnd false (10 :: t2) with
                      | some v =>
                        rcases v with ⟨n1, f1⟩
                        rw [matchDelimAt_crlf_of_lf hm1] at hm; simp at hm
                      | none =>
                        rw [searchDelim_cons_none hm1] at ht
                        cases ht2 : searchDelim bnd false t2 with
                        | none => rw [ht2] at ht; simp at ht
                        | some v => simpa using searchDelim_some_hasNl ht2
                    · rw [lbLen_cr_not_lf t2 hb2]; simpa using hnt
              rcases matchDelimAt_cut_nl (s := a :: t) (c := c) hb hafter (by simpa using hx) with ⟨n', hn'⟩
              rw [hm] at hn'; simp at hn'
        refine ⟨e0' + 1, ?_, ?_⟩
        · rw [List.cons_append, searchDelim_cons_none hm', he0']; rfl
        · intro hf
          rcases hrel hf with h1 | ⟨h1, h2, h3⟩
          · left; omega
          · right; exact ⟨by omega, by simp; omega, h3⟩

/-! ### bounds -/

theorem matchTail_le {r : Bytes} {m : Nat} {f : Bool} (h : matchTail r = some (m, f)) : m ≤ r.length := by
  cases f with
  | false =>
    rcases matchTail_false_iff.1 h with ⟨hh, a, t, rfl, _, _, rfl⟩
    have := lbLen_le_length (a :: t)
    simp at this ⊢; omega
  | true =>
    rcases matchTail_true_iff.1 h with ⟨r2, rfl, rfl⟩
    have h1 := lbLen_le_length (r2.dropWhile isHws)
    have h2 : (r2.takeWhile isHws).length + (r2.dropWhile isHws).length = r2.length := by
      rw [← List.length_append, List.takeWhile_append_dropWhile]
    simp; omega

theorem matchDelimAt_bounds {bnd s : Bytes} {n : Nat} {f : Bool}
    (h : matchDelimAt bnd false s = some (n, f)) : 0 < n ∧ n ≤ s.length := by
  rcases matchDelimAt_iff.1 h with ⟨r, m, hl, hd, hm, rfl⟩
  have := matchTail_le hm
  have hlen := congrArg List.length hd
  simp [delim] at hlen
  have := lbLen_le_length s
  omega

theorem searchDelim_bounds {bnd b : Bytes} {s e : Nat} {f : Bool}
    (h : searchDelim bnd false b = some (s, e, f)) : s < e ∧ e ≤ b.length := by
  induction b generalizing s e with
  | nil => simp [searchDelim] at h
  | cons a t ih =>
    cases hm : matchDelimAt bnd false (a :: t) with
    | some v =>
      rcases v with ⟨n, f'⟩
      rw [searchDelim_cons_some hm] at h
      simp at h
      rcases h with ⟨rfl, rfl, rfl⟩
      exact matchDelimAt_bounds hm
    | none =>
      rw [searchDelim_cons_none hm] at h
      cases ht : searchDelim bnd false t with
      | none => rw [ht] at h; simp at h
      | some v =>
        rcases v with ⟨s0, e0, f0⟩
        rw [ht] at h; simp at h
        rcases h with ⟨rfl, rfl, rfl⟩
        have := ih ht
        simp; omega

/-! ### `_parse_data` -/

theorem dataCut_of_search {bnd b : Bytes} {s e : Nat} {f : Bool}
    (h : searchDelim bnd false b = some (s, e, f)) : dataCut bnd b = (s, e, some f) := by
  have hc : containsSub (45 :: 45 :: bnd) b = true := searchDelim_some_contains h
  simp [dataCut, hc, h]

/-- without a match `_parse_data` releases a prefix of the buffer and that prefix is safe -/
theorem dataCut_of_no_search {bnd : Bytes} (hb : BoundaryOk bnd) {b : Bytes}
    (h : searchDelim bnd false b = none) :
    ∃ k, dataCut bnd b = (k, k, none) ∧ k ≤ b.length ∧
      (k = lastNewline b ∨ (k = b.length ∧ 2 ≤ b.length)) ∧
      ∀ c, searchDelim bnd false (b ++ c) = shift k (searchDelim bnd false (b.drop k ++ c)) := by
  cases hc : containsSub (45 :: 45 :: bnd) b with
  | true =>
    refine ⟨lastNewline b, by simp [dataCut, hc, h], lastNewline_le b, Or.inl rfl, hold_safe hb b h⟩
  | false =>
    by_cases hfar : b.length - lastNewline b > (45 :: 45 :: bnd).length + 1
    · refine ⟨b.length, by simp [dataCut, hc]; intro hh; simp at hfar; omega, Nat.le_refl _,
        Or.inr ⟨rfl, by simp at hfar; omega⟩, ?_⟩
      intro c
      simpa using hold_safe_far hb b hc hfar c
    · refine ⟨lastNewline b, ?_, lastNewline_le b, Or.inl rfl, hold_safe hb b h⟩
      simp [dataCut, hc]; intro hh; simp at hfar; omega

/-! ### the DATA loop (`start = false`) -/

theorem dataStep_false (bnd buf : Bytes) :
    dataStep bnd false buf =
      .ok (buf.take (dataCut bnd buf).1, buf.drop (dataCut bnd buf).2.1, false, (dataCut bnd buf).2.2) := by
  simp [dataStep, parseData]

theorem dataLoop_false_decides {bnd buf : Bytes} {s e : Nat} {f : Bool} (fuel : Nat) (acc : Bytes)
    (h : searchDelim bnd false buf = some (s, e, f)) :
    dataLoop bnd (fuel + 1) false buf acc = .ok (acc ++ buf.take s, buf.drop e, false, some f) := by
  simp [dataLoop, dataStep_false, dataCut_of_search h]

theorem dataLoop_false_holds {bnd : Bytes} (hb : BoundaryOk bnd) (fuel : Nat) (buf acc : Bytes)
    (h : searchDelim bnd false buf = none) :
    ∃ p buf', dataLoop bnd fuel false buf acc = .ok (acc ++ p, buf', false, none) ∧ p ++ buf' = buf ∧
      ∀ c, searchDelim bnd false (buf ++ c) = shift p.length (searchDelim bnd false (buf' ++ c)) := by
  induction fuel generalizing buf acc with
  | zero => exact ⟨[], buf, by simp [dataLoop], by simp, by simp⟩
  | succ fuel ih =>
    rcases dataCut_of_no_search hb h with ⟨k, hk, hkle, _, hsafe⟩
    cases hp : (buf.take k).isEmpty with
    | true =>
      refine ⟨[], buf.drop k, ?_, ?_, ?_⟩
      · simp [dataLoop, dataStep_false, hk, hp]
      · have : buf.take k = [] := by simpa using hp
        have h2 := List.take_append_drop k buf
        rw [this] at h2; simpa using h2
      · intro c
        have : buf.take k = [] := by simpa using hp
        have hk0 : k = 0 ∨ buf = [] := by
          rcases List.take_eq_nil_iff.1 this with h | h
          · left; exact h
          · right; exact h
        rcases hk0 with h0 | h0
        · subst h0; simp
        · subst h0; simp
    | false =>
      have hnone : searchDelim bnd false (buf.drop k) = none := by
        have := hsafe []
        simp [h] at this
        exact shift_eq_none.1 this.symm
      rcases ih (buf.drop k) (acc ++ buf.take k) hnone with ⟨p2, buf2, hrun, hcat, hsafe2⟩
      refine ⟨buf.take k ++ p2, buf2, ?_, ?_, ?_⟩
      · simp [dataLoop, dataStep_false, hk, hp, hrun]
      · rw [List.append_assoc, hcat, List.take_append_drop]
      · intro c
        rw [hsafe c, hsafe2 c, shift_shift]
        congr 1
        simp [List.length_take, Nat.min_eq_left hkle]; omega

theorem shift_eq_some {k : Nat} {r : Option (Nat × Nat × Bool)} {s e : Nat} {f : Bool}
    (h : shift k r = some (s, e, f)) : ∃ s2 e2, r = some (s2, e2, f) ∧ s = s2 + k ∧ e = e2 + k := by
  cases r with
  | none => simp at h
  | some v =>
    rcases v with ⟨s2, e2, f2⟩
    simp [shift] at h
    exact ⟨s2, e2, by rw [h.2.2], h.1.symm, h.2.1.symm⟩

theorem take_add_append (p l : Bytes) (k : Nat) : (p ++ l).take (k + p.length) = p ++ l.take k := by
  rw [List.take_append, List.take_of_length_le (by omega)]
  congr 1
  rw [Nat.add_sub_cancel]

theorem drop_add_append (p l : Bytes) (k : Nat) : (p ++ l).drop (k + p.length) = l.drop k := by
  rw [List.drop_append, List.drop_of_length_le (by omega)]
  rw [Nat.add_sub_cancel]; simp

theorem dataSpec_false {bnd S : Bytes} :
    dataSpec bnd false S =
      match searchDelim bnd false S with
      | some (s, e, f) => some (S.take s, f, S.drop e)
      | none => none := by
  unfold dataSpec
  cases searchDelim bnd false S with
  | none => rfl
  | some v => rcases v with ⟨s, e, f⟩; simp

/-- **parseData_split, DATA state, every chunk list.** If the reference semantics finds the
delimiter in the whole stream `buf ++ chunks.flatten`, the chunked DATA loop delivers exactly the
same payload and delimiter kind; the residual is the same up to the LF of a CRLF that was split. -/
theorem dataPhase_false_sound {bnd : Bytes} (hb : BoundaryOk bnd) (chunks : List Bytes) :
    ∀ (buf acc P : Bytes) (f : Bool) (R : Bytes),
      dataSpec bnd false (buf ++ chunks.flatten) = some (P, f, R) →
      ∃ R', dataPhase bnd false buf acc chunks = .ok (acc ++ P, some (f, R')) ∧
        (f = false → R' = R ∨ R' = 10 :: R) := by
  induction chunks with
  | nil =>
    intro buf acc P f R h
    rw [dataSpec_false] at h
    simp only [List.flatten_nil, List.append_nil] at h
    cases hs : searchDelim bnd false buf with
    | none => rw [hs] at h; simp at h
    | some v =>
      rcases v with ⟨s, e, f'⟩
      rw [hs] at h; simp at h
      rcases h with ⟨rfl, rfl, rfl⟩
      refine ⟨buf.drop e, ?_, fun _ => Or.inl rfl⟩
      simp [dataPhase, dataLoop_false_decides _ _ hs]
  | cons c cs ih =>
    intro buf acc P f R h
    rw [dataSpec_false] at h
    cases hS : searchDelim bnd false (buf ++ (c :: cs).flatten) with
    | none => rw [hS] at h; simp at h
    | some v =>
      rcases v with ⟨s, e, f'⟩
      rw [hS] at h; simp only [Option.some.injEq, Prod.mk.injEq] at h
      rcases h with ⟨rfl, rfl, rfl⟩
      cases hsb : searchDelim bnd false buf with
      | some v =>
        rcases v with ⟨s1, e1, f1⟩
        rcases searchDelim_append_stable hb hsb (c :: cs).flatten with ⟨e1', hst, hrel⟩
        rw [hS] at hst
        simp only [Option.some.injEq, Prod.mk.injEq] at hst
        rcases hst with ⟨rfl, rfl, rfl⟩
        have hbd := searchDelim_bounds hsb
        refine ⟨buf.drop e1 ++ (c :: cs).flatten, ?_, ?_⟩
        · simp only [dataPhase, dataLoop_false_decides _ _ hsb]
          rw [List.take_append_of_le_length (by omega)]
        · intro hf
          rcases hrel hf with h1 | ⟨h1, h2, c', h3⟩
          · left; rw [h1, List.drop_append_of_le_length hbd.2]
          · right
            rw [h1, h3, ← h2]
            have : buf.drop buf.length = [] := by simp
            rw [this, List.nil_append]
            have := drop_add_append buf (10 :: c') 1
            rw [Nat.add_comm] at this
            rw [this]; rfl
      | none =>
        rcases dataLoop_false_holds hb (buf.length + 1) buf acc hsb with ⟨p, buf', hrun, hcat, hsafe⟩
        have hS2 := hsafe (c :: cs).flatten
        rw [hS] at hS2
        rcases shift_eq_some hS2.symm with ⟨s2, e2, hs2, rfl, rfl⟩
        have hassoc : (buf' ++ c) ++ cs.flatten = buf' ++ (c :: cs).flatten := by simp
        have hspec : dataSpec bnd false ((buf' ++ c) ++ cs.flatten) =
            some ((buf' ++ (c :: cs).flatten).take s2, f', (buf' ++ (c :: cs).flatten).drop e2) := by
          rw [dataSpec_false, hassoc, hs2]
        rcases ih (buf' ++ c) (acc ++ p) _ f' _ hspec with ⟨R', hrun', hrel'⟩
        refine ⟨R', ?_, ?_⟩
        · simp only [dataPhase, hrun]
          rw [hrun']
          congr 2
          rw [← hcat, List.append_assoc p buf', take_add_append, List.append_assoc]
        · intro hf
          have : (buf ++ (c :: cs).flatten).drop (e2 + p.length) = (buf' ++ (c :: cs).flatten).drop e2 := by
            rw [← hcat, List.append_assoc p buf', drop_add_append]
          rw [this]
          exact hrel' hf

/-! ### the DATA_START loop (`start = true`) -/

theorem lbLen_eq_two {s : Bytes} (h : lbLen s = 2) : ∃ t, s = 13 :: 10 :: t := by
  match s with
  | [] => simp [lbLen] at h
  | [a] =>
    simp only [lbLen] at h
    split at h; · omega
    split at h <;> omega
  | a :: b :: t =>
    simp only [lbLen] at h
    split at h; · omega
    split at h
    · rename_i ha
      split at h
      · rename_i hb'
        simp at ha hb'; subst ha; subst hb'; exact ⟨t, rfl⟩
      · omega
    · omega

theorem containsSub_length {p b : Bytes} (h : containsSub p b = true) : p.length ≤ b.length := by
  induction b with
  | nil => cases p with
    | nil => simp
    | cons a p => simp [containsSub] at h
  | cons a t ih =>
    simp only [containsSub, Bool.or_eq_true] at h
    rcases h with h | h
    · rw [List.isPrefixOf_iff_prefix] at h; exact h.length_le
    · have := ih h; simp; omega

theorem searchDelim_some_two_le {bnd b : Bytes} {r : Nat × Nat × Bool}
    (h : searchDelim bnd false b = some r) : 2 ≤ b.length := by
  have := containsSub_length (searchDelim_some_contains h)
  rw [delim_length] at this; omega

/-- in DATA_START a non-zero hold-back point lies after the leading line break, and that line
break can no longer change -/
theorem lb_le_hold {buf : Bytes} {k : Nat} (hl : 0 < lbLen buf) (hk : 0 < k)
    (h : k = lastNewline buf ∨ (k = buf.length ∧ 2 ≤ buf.length)) :
    lbLen buf ≤ k ∧ ∀ c, lbLen (buf ++ c) = lbLen buf := by
  match buf with
  | [] => simp [lbLen] at hl
  | [a] =>
    exfalso
    rcases lbLen_pos_iff.1 hl with ⟨a', t', he, hn⟩
    injection he with h1 h2; subst h1; subst h2
    rcases h with h | ⟨_, h⟩
    · rw [lastNewline_cons_nl (by rfl) hn] at h; omega
    · simp at h
  | a :: b :: t =>
    refine ⟨?_, fun c => lbLen_append_of_two_le c (by simp)⟩
    have h2 := lbLen_le_two (a :: b :: t)
    rcases Nat.lt_or_ge (lbLen (a :: b :: t)) 2 with hlt | hge
    · omega
    · have heq : lbLen (a :: b :: t) = 2 := by omega
      rcases lbLen_eq_two heq with ⟨t2, he⟩
      injection he with h1 he2; injection he2 with h3 h4; subst h1; subst h3; subst h4
      rw [heq]
      rcases h with h | ⟨h, _⟩
      · cases ht2 : hasNl t with
        | false =>
          have : isLastCrlf 13 (10 :: t) = true := isLastCrlf_iff.2 ⟨rfl, t, rfl, ht2⟩
          rw [lastNewline_cons_crlf (by simp [hasNl_cons, isNl]) this] at h; omega
        | true =>
          have h1 : isLastCrlf 13 (10 :: t) = false := by
            cases hx : isLastCrlf 13 (10 :: t) with
            | false => rfl
            | true =>
              rcases isLastCrlf_iff.1 hx with ⟨_, t2, he, hno⟩
              injection he with _ he; subst he; rw [hno] at ht2; simp at ht2
          have h2 : isLastCrlf 10 t = false := by
            cases hx : isLastCrlf 10 t with
            | false => rfl
            | true => have := (isLastCrlf_iff.1 hx).1; simp at this
          rw [lastNewline_cons_more (by simp [hasNl_cons, isNl]) h1, lastNewline_cons_more ht2 h2] at h
          omega
      · simp at h; omega

theorem dataStep_true {bnd buf : Bytes} (hl : 0 < lbLen buf) :
    dataStep bnd true buf =
      if (dataCut bnd buf).2.1 = 0 then .ok ([], buf, true, none)
      else .ok ((buf.take (dataCut bnd buf).1).drop (lbLen buf), buf.drop (dataCut bnd buf).2.1, false,
        (dataCut bnd buf).2.2) := by
  have : (lbLen buf == 0) = false := by simp; omega
  simp [dataStep, parseData, this]

theorem dataLoop_true_decides {bnd buf : Bytes} {s e : Nat} {f : Bool} (fuel : Nat) (acc : Bytes)
    (hl : 0 < lbLen buf) (h : searchDelim bnd false buf = some (s, e, f)) :
    dataLoop bnd (fuel + 1) true buf acc =
      .ok (acc ++ (buf.take s).drop (lbLen buf), buf.drop e, false, some f) := by
  have := searchDelim_bounds h
  have he : e ≠ 0 := by omega
  simp [dataLoop, dataStep_true hl, dataCut_of_search h, he]

theorem dataLoop_true_holds {bnd : Bytes} (hb : BoundaryOk bnd) (fuel : Nat) (buf acc : Bytes)
    (hl : 0 < lbLen buf) (h : searchDelim bnd false buf = none) :
    dataLoop bnd fuel true buf acc = .ok (acc, buf, true, none) ∨
    ∃ p buf', dataLoop bnd fuel true buf acc = .ok (acc ++ p.drop (lbLen buf), buf', false, none) ∧
      p ++ buf' = buf ∧ lbLen buf ≤ p.length ∧ (∀ c, lbLen (buf ++ c) = lbLen buf) ∧
      ∀ c, searchDelim bnd false (buf ++ c) = shift p.length (searchDelim bnd false (buf' ++ c)) := by
  cases fuel with
  | zero => left; simp [dataLoop]
  | succ fuel =>
    rcases dataCut_of_no_search hb h with ⟨k, hk, hkle, hkk, hsafe⟩
    by_cases hk0 : k = 0
    · left; subst hk0; simp [dataLoop, dataStep_true hl, hk]
    · right
      have hlb := lb_le_hold hl (by omega) hkk
      have hnone : searchDelim bnd false (buf.drop k) = none := by
        have := hsafe []
        simp [h] at this
        exact shift_eq_none.1 this.symm
      rcases dataLoop_false_holds hb fuel (buf.drop k) (acc ++ (buf.take k).drop (lbLen buf)) hnone
        with ⟨p2, buf2, hrun, hcat, hsafe2⟩
      have hlen : (buf.take k).length = k := by simp [List.length_take, Nat.min_eq_left hkle]
      refine ⟨buf.take k ++ p2, buf2, ?_, ?_, ?_, hlb.2, ?_⟩
      · simp only [dataLoop, dataStep_true hl, hk, hk0, if_false, Bool.true_or, if_true, hrun]
        rw [List.drop_append_of_le_length (by omega), List.append_assoc]
        simp
      · rw [List.append_assoc, hcat, List.take_append_drop]
      · simp; omega
      · intro c
        rw [hsafe c, hsafe2 c, shift_shift]
        congr 1
        simp [hlen]; omega

theorem dataSpec_true {bnd S : Bytes} :
    dataSpec bnd true S =
      match searchDelim bnd false S with
      | some (s, e, f) => some ((S.take s).drop (lbLen S), f, S.drop e)
      | none => none := by
  unfold dataSpec
  cases searchDelim bnd false S with
  | none => rfl
  | some v => rcases v with ⟨s, e, f⟩; simp

/-- **parseData_split, DATA_START state, every chunk list.** -/
theorem dataPhase_true_sound {bnd : Bytes} (hb : BoundaryOk bnd) (chunks : List Bytes) :
    ∀ (buf acc P : Bytes) (f : Bool) (R : Bytes), 0 < lbLen buf →
      dataSpec bnd true (buf ++ chunks.flatten) = some (P, f, R) →
      ∃ R', dataPhase bnd true buf acc chunks = .ok (acc ++ P, some (f, R')) ∧
        (f = false → R' = R ∨ R' = 10 :: R) := by
  induction chunks with
  | nil =>
    intro buf acc P f R hl h
    rw [dataSpec_true] at h
    simp only [List.flatten_nil, List.append_nil] at h
    cases hs : searchDelim bnd false buf with
    | none => rw [hs] at h; simp at h
    | some v =>
      rcases v with ⟨s, e, f'⟩
      rw [hs] at h; simp at h
      rcases h with ⟨rfl, rfl, rfl⟩
      refine ⟨buf.drop e, ?_, fun _ => Or.inl rfl⟩
      simp [dataPhase, dataLoop_true_decides _ _ hl hs]
  | cons c cs ih =>
    intro buf acc P f R hl h
    rw [dataSpec_true] at h
    cases hS : searchDelim bnd false (buf ++ (c :: cs).flatten) with
    | none => rw [hS] at h; simp at h
    | some v =>
      rcases v with ⟨s, e, f'⟩
      rw [hS] at h; simp only [Option.some.injEq, Prod.mk.injEq] at h
      rcases h with ⟨rfl, rfl, rfl⟩
      cases hsb : searchDelim bnd false buf with
      | some v =>
        rcases v with ⟨s1, e1, f1⟩
        rcases searchDelim_append_stable hb hsb (c :: cs).flatten with ⟨e1', hst, hrel⟩
        rw [hS] at hst
        simp only [Option.some.injEq, Prod.mk.injEq] at hst
        rcases hst with ⟨rfl, rfl, rfl⟩
        have hbd := searchDelim_bounds hsb
        have h2 := searchDelim_some_two_le hsb
        refine ⟨buf.drop e1 ++ (c :: cs).flatten, ?_, ?_⟩
        · simp only [dataPhase, dataLoop_true_decides _ _ hl hsb]
          rw [List.take_append_of_le_length (by omega), lbLen_append_of_two_le _ h2]
        · intro hf
          rcases hrel hf with h1 | ⟨h1, h2, c', h3⟩
          · left; rw [h1, List.drop_append_of_le_length hbd.2]
          · right
            rw [h1, h3, ← h2]
            have : buf.drop buf.length = [] := by simp
            rw [this, List.nil_append]
            have := drop_add_append buf (10 :: c') 1
            rw [Nat.add_comm] at this
            rw [this]; rfl
      | none =>
        rcases dataLoop_true_holds hb (buf.length + 1) buf acc hl hsb with hwait | ⟨p, buf', hrun, hcat, hlp, hlbs, hsafe⟩
        · -- still waiting in DATA_START: the next chunk is appended to the untouched buffer
          have hl' : 0 < lbLen (buf ++ c) := Nat.lt_of_lt_of_le hl (lbLen_append_ge buf c)
          have hassoc : (buf ++ c) ++ cs.flatten = buf ++ (c :: cs).flatten := by simp
          have hspec : dataSpec bnd true ((buf ++ c) ++ cs.flatten) =
              some (((buf ++ (c :: cs).flatten).take s).drop (lbLen (buf ++ (c :: cs).flatten)), f',
                (buf ++ (c :: cs).flatten).drop e) := by
            rw [dataSpec_true, hassoc, hS]
          rcases ih (buf ++ c) acc _ f' _ hl' hspec with ⟨R', hrun', hrel'⟩
          exact ⟨R', by simp only [dataPhase, hwait]; exact hrun', hrel'⟩
        · have hS2 := hsafe (c :: cs).flatten
          rw [hS] at hS2
          rcases shift_eq_some hS2.symm with ⟨s2, e2, hs2, rfl, rfl⟩
          have hassoc : (buf' ++ c) ++ cs.flatten = buf' ++ (c :: cs).flatten := by simp
          have hspec : dataSpec bnd false ((buf' ++ c) ++ cs.flatten) =
              some ((buf' ++ (c :: cs).flatten).take s2, f', (buf' ++ (c :: cs).flatten).drop e2) := by
            rw [dataSpec_false, hassoc, hs2]
          rcases dataPhase_false_sound hb cs (buf' ++ c) (acc ++ p.drop (lbLen buf)) _ f' _ hspec
            with ⟨R', hrun', hrel'⟩
          refine ⟨R', ?_, ?_⟩
          · simp only [dataPhase, hrun]
            rw [hrun']
            congr 2
            have hlp' : lbLen (p ++ buf') ≤ p.length := by rw [hcat]; exact hlp
            rw [hlbs, ← hcat, List.append_assoc p buf', take_add_append,
              List.drop_append_of_le_length hlp', List.append_assoc]
          · intro hf
            have : (buf ++ (c :: cs).flatten).drop (e2 + p.length) = (buf' ++ (c :: cs).flatten).drop e2 := by
              rw [← hcat, List.append_assoc p buf', drop_add_append]
            rw [this]
            exact hrel' hf

/-! ### the retained search position (PREAMBLE) -/

theorem matchDelimAt_iff' {bnd s : Bytes} {o : Bool} {n : Nat} {f : Bool} :
    matchDelimAt bnd o s = some (n, f) ↔
      ∃ r m, (o = false → 0 < lbLen s) ∧ s.drop (lbLen s) = delim bnd ++ r ∧ matchTail r = some (m, f) ∧
        n = lbLen s + (bnd.length + 2) + m := by
  cases o with
  | false =>
    rw [matchDelimAt_iff]
    constructor
    · rintro ⟨r, m, h1, h2, h3, h4⟩; exact ⟨r, m, fun _ => h1, h2, h3, h4⟩
    · rintro ⟨r, m, h1, h2, h3, h4⟩; exact ⟨r, m, h1 rfl, h2, h3, h4⟩
  | true =>
    unfold matchDelimAt
    simp only [Bool.not_true, Bool.false_and, Bool.false_eq_true, if_false]
    constructor
    · intro h
      split at h
      · rename_i hp
        rw [List.isPrefixOf_iff_prefix] at hp
        rcases hp with ⟨r, hr⟩
        have hd : (s.drop (lbLen s)).drop (bnd.length + 2) = r := by rw [← hr]; simp
        rw [hd] at h
        cases hm : matchTail r with
        | none => rw [hm] at h; simp at h
        | some v =>
          rw [hm] at h
          rcases v with ⟨m, f'⟩
          simp at h
          exact ⟨r, m, by simp, by rw [← hr]; rfl, h.2 ▸ hm, by omega⟩
      · simp at h
    · rintro ⟨r, m, _, hd, hm, rfl⟩
      have hp : (45 :: 45 :: bnd).isPrefixOf (s.drop (lbLen s)) = true := by
        rw [hd, List.isPrefixOf_iff_prefix]; exact List.prefix_append _ _
      rw [hp]
      simp only [if_true]
      have hd2 : (s.drop (lbLen s)).drop (bnd.length + 2) = r := by rw [hd]; simp [delim]
      rw [hd2, hm]

theorem matchTail_restrict_false {rx c : Bytes} {m : Nat} (h : matchTail (rx ++ c) = some (m, false))
    (hm : m ≤ rx.length) : matchTail rx = some (m, false) := by
  rcases matchTail_false_iff.1 h with ⟨hh, a, t, he, hall, hn, rfl⟩
  have hpos := lbLen_pos_of_nl (t := t) hn
  -- hh ++ [a] is a prefix of rx
  have hpre : (hh ++ [a]) <+: rx := by
    have h1 : (hh ++ [a]) <+: (rx ++ c) := by rw [he]; exact ⟨t, by simp⟩
    exact List.prefix_of_prefix_length_le h1 (List.prefix_append rx c) (by simp; omega)
  rcases hpre with ⟨t1, rfl⟩
  have ht : t = t1 ++ c := by
    have : hh ++ a :: (t1 ++ c) = hh ++ a :: t := by rw [← he]; simp
    exact (List.cons.inj (List.append_cancel_left this)).2.symm
  subst ht
  apply matchTail_false_iff.2
  refine ⟨hh, a, t1, by simp, hall, hn, ?_⟩
  congr 1
  cases t1 with
  | nil =>
    simp only [List.nil_append, List.length_append, List.length_cons, List.length_nil] at hm hpos ⊢
    have h2 : 0 < lbLen [a] := lbLen_pos_of_nl hn
    have h3 := lbLen_le_length [a]
    simp only [List.length_cons, List.length_nil] at h3
    omega
  | cons y t1 => exact lbLen_append_of_two_le (s := a :: y :: t1) c (by simp)

theorem matchDelimAt_restrict_false {bnd x c : Bytes} {o : Bool} {n : Nat}
    (h : matchDelimAt bnd o (x ++ c) = some (n, false)) (hn : n ≤ x.length) :
    matchDelimAt bnd o x = some (n, false) := by
  rcases matchDelimAt_iff'.1 h with ⟨r, m, ho, hd, hm, rfl⟩
  have hx2 : 2 ≤ x.length := by omega
  have hlb : lbLen (x ++ c) = lbLen x := lbLen_append_of_two_le c hx2
  rw [hlb] at hd ho hn
  rw [List.drop_append_of_le_length (lbLen_le_length x)] at hd
  -- delim is a prefix of x.drop lb
  have hlen : (delim bnd).length ≤ (x.drop (lbLen x)).length := by
    simp [delim]; omega
  have hp : (delim bnd).isPrefixOf (x.drop (lbLen x) ++ c) = true := by
    rw [hd, List.isPrefixOf_iff_prefix]; exact List.prefix_append _ _
  rw [isPrefixOf_append_of_length_le c hlen, List.isPrefixOf_iff_prefix] at hp
  rcases hp with ⟨rx, hrx⟩
  rw [← hrx, List.append_assoc] at hd
  have hr : r = rx ++ c := (List.append_cancel_left hd).symm
  subst hr
  have hrxlen : m ≤ rx.length := by
    have := congrArg List.length hrx
    simp [delim] at this
    have := lbLen_le_length x
    omega
  exact matchDelimAt_iff'.2 ⟨rx, m, ho, hrx.symm, matchTail_restrict_false hm hrxlen, by rw [hlb]⟩

theorem matchDelimAt_restrict_true {bnd x c : Bytes} {o : Bool} {n : Nat}
    (h : matchDelimAt bnd o (x ++ c) = some (n, true))
    (hlen : 2 + (bnd.length + 2) + 2 ≤ x.length) :
    ∃ n', matchDelimAt bnd o x = some (n', true) := by
  rcases matchDelimAt_iff'.1 h with ⟨r, m, ho, hd, hm, rfl⟩
  have hx2 : 2 ≤ x.length := by omega
  have hlb : lbLen (x ++ c) = lbLen x := lbLen_append_of_two_le c hx2
  rw [hlb] at hd ho
  rw [List.drop_append_of_le_length (lbLen_le_length x)] at hd
  rcases matchTail_true_iff.1 hm with ⟨r2, rfl, _⟩
  have hl2 := lbLen_le_two x
  have hlen' : (delim bnd ++ [45, 45]).length ≤ (x.drop (lbLen x)).length := by
    simp [delim]; omega
  have hp : (delim bnd ++ [45, 45]).isPrefixOf (x.drop (lbLen x) ++ c) = true := by
    rw [hd, List.isPrefixOf_iff_prefix]; exact ⟨r2, by simp⟩
  rw [isPrefixOf_append_of_length_le c hlen', List.isPrefixOf_iff_prefix] at hp
  rcases hp with ⟨rx, hrx⟩
  refine ⟨_, matchDelimAt_iff'.2 ⟨45 :: 45 :: rx, _, ho, ?_, matchTail_final (by simp [List.isPrefixOf]), rfl⟩⟩
  rw [← hrx]; simp

/-- the leftmost match is a match at its start and there is none before -/
theorem searchDelim_some_iff {bnd : Bytes} {o : Bool} {S : Bytes} {s e : Nat} {f : Bool}
    (h : searchDelim bnd o S = some (s, e, f)) :
    s ≤ S.length ∧ s ≤ e ∧ matchDelimAt bnd o (S.drop s) = some (e - s, f) ∧
      ∀ j, j < s → matchDelimAt bnd o (S.drop j) = none := by
  induction S generalizing s e with
  | nil => simp [searchDelim] at h
  | cons a t ih =>
    cases hm : matchDelimAt bnd o (a :: t) with
    | some v =>
      rcases v with ⟨n, f'⟩
      rw [searchDelim_cons_some hm] at h
      simp at h
      rcases h with ⟨rfl, rfl, rfl⟩
      exact ⟨by simp, by omega, by simpa using hm, by intro j hj; omega⟩
    | none =>
      rw [searchDelim_cons_none hm] at h
      rcases shift_eq_some h with ⟨s2, e2, ht, rfl, rfl⟩
      rcases ih ht with ⟨h1, h2, h3, h4⟩
      refine ⟨by simp; omega, by omega, ?_, ?_⟩
      · have : e2 + 1 - (s2 + 1) = e2 - s2 := by omega
        rw [this]; simpa using h3
      · intro j hj
        cases j with
        | zero => simpa using hm
        | succ j => simpa using h4 j (by omega)

theorem searchDelim_none_drop {bnd : Bytes} {o : Bool} {S : Bytes} (h : searchDelim bnd o S = none)
    (j : Nat) : matchDelimAt bnd o (S.drop j) = none := by
  induction S generalizing j with
  | nil => cases o <;> simp [matchDelimAt, lbLen]
  | cons a t ih =>
    rcases searchDelim_cons_eq_none.1 h with ⟨hm, ht⟩
    cases j with
    | zero => simpa using hm
    | succ j => simpa using ih ht j

/-- skipping positions at which nothing matches does not change the search result -/
theorem searchDelim_skip {bnd : Bytes} {o : Bool} (S : Bytes) (k : Nat)
    (h : ∀ j, j < k → matchDelimAt bnd o (S.drop j) = none) :
    searchDelim bnd o S = shift k (searchDelim bnd o (S.drop k)) := by
  induction k generalizing S with
  | zero => simp
  | succ k ih =>
    cases S with
    | nil => simp [searchDelim]
    | cons a t =>
      have h0 := h 0 (by omega)
      simp only [List.drop_zero] at h0
      rw [searchDelim_cons_none h0, List.drop_succ_cons, ih t (fun j hj => by simpa using h (j + 1) (by omega)),
        shift_shift]

theorem searchExtra_eq : searchExtra = 8 := by decide

theorem searchDelim_of_match_drop {bnd : Bytes} {o : Bool} {S : Bytes} {j n : Nat} {f : Bool}
    (h : matchDelimAt bnd o (S.drop j) = some (n, f)) : searchDelim bnd o S ≠ none := by
  intro hn
  rw [searchDelim_none_drop hn j] at h; simp at h

theorem searchDelimFrom_eq_shift (bnd : Bytes) (o : Bool) (pos : Nat) (buf : Bytes) :
    searchDelimFrom bnd o pos buf = shift pos (searchDelim bnd o (buf.drop pos)) := by
  unfold searchDelimFrom
  cases searchDelim bnd o (buf.drop pos) with
  | none => rfl
  | some v => rcases v with ⟨s, e, f⟩; rfl

-- (PREAMBLE: see Lemmas/SearchPos.lean — the rule repaired for F01c, sound without a padding bound.)

/-! ### the retained search position (PART): blank-line search -/

theorem blankLen_le (s : Bytes) : blankLen s ≤ 4 := by
  unfold blankLen; split; · omega
  split; · omega
  split <;> omega

theorem blankLen_le_length (s : Bytes) : blankLen s ≤ s.length := by
  unfold blankLen
  split
  · rename_i h; rw [List.isPrefixOf_iff_prefix] at h; simpa using h.length_le
  split
  · rename_i h; rw [List.isPrefixOf_iff_prefix] at h; simpa using h.length_le
  split
  · rename_i h; rw [List.isPrefixOf_iff_prefix] at h; simpa using h.length_le
  · omega

/-- `BLANK_LINE_RE` anchored: the match only depends on the first `blankLen` bytes -/
theorem blankLen_restrict {x c : Bytes} (h : blankLen (x ++ c) ≤ x.length) :
    blankLen x = blankLen (x ++ c) := by
  unfold blankLen at h ⊢
  by_cases h1 : [13, 10, 13, 10].isPrefixOf (x ++ c) = true
  · rw [if_pos h1] at h ⊢
    rw [isPrefixOf_append_of_length_le c (by simpa using h)] at h1
    rw [if_pos h1]
  · rw [if_neg h1] at h ⊢
    have h1' : ¬ [13, 10, 13, 10].isPrefixOf x = true := by
      intro hh; exact h1 (isPrefixOf_append_of_isPrefixOf c hh)
    rw [if_neg h1']
    by_cases h2 : [13, 13].isPrefixOf (x ++ c) = true
    · rw [if_pos h2] at h ⊢
      rw [isPrefixOf_append_of_length_le c (by simpa using h)] at h2
      rw [if_pos h2]
    · rw [if_neg h2] at h ⊢
      have h2' : ¬ [13, 13].isPrefixOf x = true := by
        intro hh; exact h2 (isPrefixOf_append_of_isPrefixOf c hh)
      rw [if_neg h2']
      by_cases h3 : [10, 10].isPrefixOf (x ++ c) = true
      · rw [if_pos h3] at h ⊢
        rw [isPrefixOf_append_of_length_le c (by simpa using h)] at h3
        rw [if_pos h3]
      · rw [if_neg h3]
        have h3' : ¬ [10, 10].isPrefixOf x = true := by
          intro hh; exact h3 (isPrefixOf_append_of_isPrefixOf c hh)
        rw [if_neg h3']

def shift2 (k : Nat) : Option (Nat × Nat) → Option (Nat × Nat)
  | some (s, e) => some (s + k, e + k)
  | none => none

@[simp] theorem shift2_zero (r : Option (Nat × Nat)) : shift2 0 r = r := by
  cases r with
  | none => rfl
  | some v => rcases v with ⟨s, e⟩; rfl

theorem shift2_shift2 (j k : Nat) (r : Option (Nat × Nat)) : shift2 j (shift2 k r) = shift2 (k + j) r := by
  cases r with
  | none => rfl
  | some v => rcases v with ⟨s, e⟩; simp [shift2, Nat.add_assoc]

theorem searchBlank_cons_zero {a : UInt8} {t : Bytes} (h : blankLen (a :: t) = 0) :
    searchBlank (a :: t) = shift2 1 (searchBlank t) := by
  simp only [searchBlank, h]
  cases searchBlank t with
  | none => rfl
  | some v => rcases v with ⟨s, e⟩; rfl

theorem searchBlank_none_drop {S : Bytes} (h : searchBlank S = none) (j : Nat) :
    blankLen (S.drop j) = 0 := by
  induction S generalizing j with
  | nil => simp [blankLen]
  | cons a t ih =>
    have h0 : blankLen (a :: t) = 0 := by
      apply Nat.eq_zero_of_not_pos; intro hp
      simp [searchBlank, hp] at h
    rw [searchBlank_cons_zero h0] at h
    have ht : searchBlank t = none := by
      cases hx : searchBlank t with
      | none => rfl
      | some v => rw [hx] at h; rcases v with ⟨s, e⟩; simp [shift2] at h
    cases j with
    | zero => simpa using h0
    | succ j => simpa using ih ht j

theorem searchBlank_skip (S : Bytes) (k : Nat) (h : ∀ j, j < k → blankLen (S.drop j) = 0) :
    searchBlank S = shift2 k (searchBlank (S.drop k)) := by
  induction k generalizing S with
  | zero => simp
  | succ k ih =>
    cases S with
    | nil => simp [searchBlank, shift2]
    | cons a t =>
      have h0 := h 0 (by omega)
      simp only [List.drop_zero] at h0
      rw [searchBlank_cons_zero h0, List.drop_succ_cons,
        ih t (fun j hj => by simpa using h (j + 1) (by omega)), shift2_shift2]

theorem searchBlankFrom_eq_shift (pos : Nat) (buf : Bytes) :
    searchBlankFrom pos buf = shift2 pos (searchBlank (buf.drop pos)) := by
  unfold searchBlankFrom
  cases searchBlank (buf.drop pos) with
  | none => rfl
  | some v => rcases v with ⟨s, e⟩; rfl

/-- **The retained search position is irrelevant (PART).** No hypothesis is needed: a blank line is
at most 4 bytes long and `SEARCH_EXTRA_LENGTH` bytes are retained. -/
theorem searchPos_irrelevant_blank_lemma {b c : Bytes} (hnone : searchBlank b = none) :
    searchBlankFrom (b.length - searchExtra) (b ++ c) = searchBlank (b ++ c) := by
  rw [searchBlankFrom_eq_shift]
  symm
  apply searchBlank_skip
  intro j hj
  rw [searchExtra_eq] at hj
  have hjb : j ≤ b.length := by omega
  rw [List.drop_append_of_le_length hjb]
  have h4 := blankLen_le (b.drop j ++ c)
  have hr := blankLen_restrict (x := b.drop j) (c := c) (by simp; omega)
  rw [← hr]
  exact searchBlank_none_drop hnone j

/-! ### no delimiter in the stream: the chunked loop never reports one -/

theorem dataPhase_false_none {bnd : Bytes} (hb : BoundaryOk bnd) (chunks : List Bytes) :
    ∀ (buf acc : Bytes), searchDelim bnd false (buf ++ chunks.flatten) = none →
      ∃ p, dataPhase bnd false buf acc chunks = .ok (acc ++ p, none) ∧
        p <+: buf ++ chunks.flatten := by
  induction chunks with
  | nil =>
    intro buf acc h
    simp only [List.flatten_nil, List.append_nil] at h ⊢
    rcases dataLoop_false_holds hb (buf.length + 1) buf acc h with ⟨p, buf', hrun, hcat, _⟩
    exact ⟨p, by simp [dataPhase, hrun], ⟨buf', hcat⟩⟩
  | cons c cs ih =>
    intro buf acc h
    have hsb : searchDelim bnd false buf = none := by
      cases hx : searchDelim bnd false buf with
      | none => rfl
      | some v =>
        rcases v with ⟨s, e, f⟩
        rcases searchDelim_append_stable hb hx (c :: cs).flatten with ⟨e', he', _⟩
        rw [h] at he'; simp at he'
    rcases dataLoop_false_holds hb (buf.length + 1) buf acc hsb with ⟨p, buf', hrun, hcat, hsafe⟩
    have h2 : searchDelim bnd false ((buf' ++ c) ++ cs.flatten) = none := by
      have := hsafe (c :: cs).flatten
      rw [h] at this
      have := shift_eq_none.1 this.symm
      simpa using this
    rcases ih (buf' ++ c) (acc ++ p) h2 with ⟨p2, hrun2, hpre⟩
    refine ⟨p ++ p2, by simp only [dataPhase, hrun]; rw [hrun2, List.append_assoc], ?_⟩
    rw [← hcat]
    rcases hpre with ⟨t, ht⟩
    refine ⟨t, ?_⟩
    have : p ++ p2 ++ t = p ++ (p2 ++ t) := by simp
    rw [this, ht]; simp

theorem dataPhase_true_none {bnd : Bytes} (hb : BoundaryOk bnd) (chunks : List Bytes) :
    ∀ (buf acc : Bytes), 0 < lbLen buf → searchDelim bnd false (buf ++ chunks.flatten) = none →
      ∃ p, dataPhase bnd true buf acc chunks = .ok (acc ++ p, none) := by
  induction chunks with
  | nil =>
    intro buf acc hl h
    simp only [List.flatten_nil, List.append_nil] at h
    rcases dataLoop_true_holds hb (buf.length + 1) buf acc hl h with hw | ⟨p, buf', hrun, _⟩
    · exact ⟨[], by simp [dataPhase, hw]⟩
    · exact ⟨p.drop (lbLen buf), by simp [dataPhase, hrun]⟩
  | cons c cs ih =>
    intro buf acc hl h
    have hsb : searchDelim bnd false buf = none := by
      cases hx : searchDelim bnd false buf with
      | none => rfl
      | some v =>
        rcases v with ⟨s, e, f⟩
        rcases searchDelim_append_stable hb hx (c :: cs).flatten with ⟨e', he', _⟩
        rw [h] at he'; simp at he'
    rcases dataLoop_true_holds hb (buf.length + 1) buf acc hl hsb with hw | ⟨p, buf', hrun, hcat, _, _, hsafe⟩
    · have hl' : 0 < lbLen (buf ++ c) := Nat.lt_of_lt_of_le hl (lbLen_append_ge buf c)
      have h2 : searchDelim bnd false ((buf ++ c) ++ cs.flatten) = none := by simpa using h
      rcases ih (buf ++ c) acc hl' h2 with ⟨p2, hrun2⟩
      exact ⟨p2, by simp only [dataPhase, hw]; exact hrun2⟩
    · have h2 : searchDelim bnd false ((buf' ++ c) ++ cs.flatten) = none := by
        have := hsafe (c :: cs).flatten
        rw [h] at this
        have := shift_eq_none.1 this.symm
        simpa using this
      rcases dataPhase_false_none hb cs (buf' ++ c) (acc ++ p.drop (lbLen buf)) h2 with ⟨p2, hrun2, _⟩
      exact ⟨p.drop (lbLen buf) ++ p2, by simp only [dataPhase, hrun]; rw [hrun2, List.append_assoc]⟩

end Wz.Multipart

namespace Wz.Multipart
open Wz

/-! ### the encoder's framing of a payload is undone by the DATA kernel (C02) -/

/-- some line break in `s` is directly followed by `d` -/
def lineStarts (d : Bytes) : Bytes → Bool
  | [] => false
  | a :: r => (isNl a && d.isPrefixOf r) || lineStarts d r

/-- the payload may be written between `CRLF` and `CRLF--boundary`: neither its first line nor any
later line starts with `--boundary` (near-copies, `--` runs, CR/LF runs are all fine) -/
def PayloadOk (bnd payload : Bytes) : Prop := lineStarts (delim bnd) (13 :: 10 :: payload) = false

instance (bnd payload : Bytes) : Decidable (PayloadOk bnd payload) := by
  unfold PayloadOk; infer_instance

/-- no delimiter can start inside `p` when no line of `p` starts with `--boundary` and `p` is
followed by a CR -/
theorem no_match_inside {bnd : Bytes} (hb : BoundaryOk bnd) (p Y : Bytes)
    (h : lineStarts (delim bnd) p = false) :
    ∀ j, j < p.length → matchDelimAt bnd false ((p ++ 13 :: Y).drop j) = none := by
  induction p with
  | nil => intro j hj; simp at hj
  | cons a r ih =>
    simp only [lineStarts, Bool.or_eq_false_iff] at h
    intro j hj
    cases j with
    | succ j => simpa using ih h.2 j (by simpa using hj)
    | zero =>
      simp only [List.drop_zero]
      cases hx : matchDelimAt bnd false ((a :: r) ++ 13 :: Y) with
      | none => rfl
      | some v =>
        exfalso
        rcases v with ⟨n, f⟩
        rcases matchDelimAt_iff.1 hx with ⟨r', m, hl, hd, _, _⟩
        have ha : isNl a = true := by
          rcases lbLen_pos_iff.1 hl with ⟨a', t', he, hn⟩
          simp at he; rw [he.1]; exact hn
        have hnp : (delim bnd).isPrefixOf r = false := by
          have := h.1; rw [ha] at this; simpa using this
        -- what follows the leading line break
        have hpre : ∀ w : Bytes, (delim bnd).isPrefixOf (w ++ 13 :: Y) = (delim bnd).isPrefixOf w :=
          fun w => isPrefixOf_append_nl w Y (delim_no_nl hb) (by decide)
        rcases isNl_iff.1 ha with h10 | h13
        · subst h10
          rw [List.cons_append, lbLen_lf] at hd
          simp only [List.drop_succ_cons, List.drop_zero] at hd
          have : (delim bnd).isPrefixOf (r ++ 13 :: Y) = true := by
            rw [hd, List.isPrefixOf_iff_prefix]; exact List.prefix_append _ _
          rw [hpre, hnp] at this; simp at this
        · subst h13
          cases r with
          | nil =>
            -- CR followed by the CR of the continuation: a one byte line break
            rw [show ([13] ++ 13 :: Y : Bytes) = 13 :: 13 :: Y from rfl, lbLen_cr_not_lf Y (by decide)] at hd
            simp only [List.drop_succ_cons, List.drop_zero] at hd
            have : (delim bnd).isPrefixOf (13 :: Y) = true := by
              rw [hd, List.isPrefixOf_iff_prefix]; exact List.prefix_append _ _
            simp [delim, List.isPrefixOf] at this
          | cons b r2 =>
            by_cases hb2 : b = 10
            · subst hb2
              rw [show ((13 :: 10 :: r2) ++ 13 :: Y : Bytes) = 13 :: 10 :: (r2 ++ 13 :: Y) from rfl, lbLen_crlf] at hd
              simp only [List.drop_succ_cons, List.drop_zero] at hd
              have : (delim bnd).isPrefixOf (r2 ++ 13 :: Y) = true := by
                rw [hd, List.isPrefixOf_iff_prefix]; exact List.prefix_append _ _
              rw [hpre] at this
              have h2 := h.2
              simp only [lineStarts, Bool.or_eq_false_iff] at h2
              have := h2.1
              simp [isNl] at this
              rename_i this2
              rw [this] at this2; simp at this2
            · rw [show ((13 :: b :: r2) ++ 13 :: Y : Bytes) = 13 :: b :: (r2 ++ 13 :: Y) from rfl,
                lbLen_cr_not_lf _ hb2] at hd
              simp only [List.drop_succ_cons, List.drop_zero] at hd
              have : (delim bnd).isPrefixOf ((b :: r2) ++ 13 :: Y) = true := by
                rw [show ((b :: r2) ++ 13 :: Y : Bytes) = b :: (r2 ++ 13 :: Y) from rfl, hd,
                  List.isPrefixOf_iff_prefix]; exact List.prefix_append _ _
              rw [hpre, hnp] at this; simp at this

end Wz.Multipart

namespace Wz.Multipart
open Wz

/-- what follows `--boundary` in the encoder's output: `--CRLF…` (closing delimiter) or `CRLF` +
the header block of the next part (which does not start with LF) -/
inductive AfterDelim : Bytes → Bool → Bytes → Prop
  | closing (x : Bytes) : AfterDelim (45 :: 45 :: x) true
      (x.drop ((x.takeWhile isHws).length + lbLen (x.dropWhile isHws)))
  | next (c : UInt8) (rest : Bytes) (hc : c ≠ 10) : AfterDelim (13 :: 10 :: c :: rest) false (c :: rest)

theorem matchTail_afterDelim {tail : Bytes} {f : Bool} {rest : Bytes} (h : AfterDelim tail f rest) :
    ∃ m, matchTail tail = some (m, f) ∧ tail.drop m = rest := by
  cases h with
  | closing x =>
    refine ⟨2 + (x.takeWhile isHws).length + lbLen (x.dropWhile isHws), ?_, ?_⟩
    · rw [matchTail_final (by simp [List.isPrefixOf])]
      simp [drop_takeWhile_length]
    · have : 2 + (x.takeWhile isHws).length + lbLen (x.dropWhile isHws) =
          ((x.takeWhile isHws).length + lbLen (x.dropWhile isHws)) + ([45, 45] : Bytes).length := by
        simp; omega
      rw [show (45 :: 45 :: x : Bytes) = [45, 45] ++ x from rfl, this, drop_add_append]
  | next c rest hc =>
    refine ⟨2, ?_, by simp⟩
    apply matchTail_false_iff.2
    exact ⟨[], 13, 10 :: c :: rest, rfl, by simp, by decide, by simp [lbLen_crlf]⟩

/-- **The framing written by the encoder is undone by the DATA kernel.** For every payload none of
whose lines starts with `--boundary`: the stream `CRLF payload CRLF --boundary tail` decodes (in
state DATA_START, single shot) to exactly `payload`, the right delimiter kind and the right rest. -/
theorem dataSpec_encoded {bnd : Bytes} (hb : BoundaryOk bnd) (payload tail : Bytes) {f : Bool} {rest : Bytes}
    (hp : PayloadOk bnd payload) (ht : AfterDelim tail f rest) :
    dataSpec bnd true (13 :: 10 :: payload ++ 13 :: 10 :: (delim bnd ++ tail)) = some (payload, f, rest) := by
  rcases matchTail_afterDelim ht with ⟨m, hm, hdrop⟩
  let P : Bytes := 13 :: 10 :: payload
  let Y : Bytes := 10 :: (delim bnd ++ tail)
  have hS : (13 :: 10 :: payload ++ 13 :: 10 :: (delim bnd ++ tail) : Bytes) = P ++ 13 :: Y := rfl
  -- the real delimiter
  have hmatch : matchDelimAt bnd false (13 :: Y) = some (2 + (bnd.length + 2) + m, f) := by
    apply matchDelimAt_iff.2
    refine ⟨tail, m, by simp [Y, lbLen_crlf], by simp [Y, lbLen_crlf], hm, by simp [Y, lbLen_crlf]⟩
  have hsearch : searchDelim bnd false (P ++ 13 :: Y) =
      some (P.length, P.length + (2 + (bnd.length + 2) + m), f) := by
    rw [searchDelim_skip (P ++ 13 :: Y) P.length (no_match_inside hb P Y hp)]
    have : (P ++ 13 :: Y).drop P.length = 13 :: Y := by simp
    rw [this, searchDelim_cons_some hmatch]
    simp [shift, Nat.add_comm]
  rw [hS, dataSpec_true, hsearch]
  simp only [Option.some.injEq, Prod.mk.injEq, true_and]
  constructor
  · have : (P ++ 13 :: Y).take P.length = P := by simp
    rw [this]
    simp [P, lbLen_crlf]
  · have : (P ++ 13 :: Y).drop (P.length + (2 + (bnd.length + 2) + m)) =
        (13 :: Y).drop (2 + (bnd.length + 2) + m) := by
      rw [Nat.add_comm, drop_add_append]
    rw [this]
    have e : (13 :: Y : Bytes) = [13, 10] ++ (delim bnd ++ tail) := rfl
    rw [e]
    have e2 : 2 + (bnd.length + 2) + m = (m + (delim bnd).length) + ([13, 10] : Bytes).length := by
      simp [delim]; omega
    rw [e2, drop_add_append, drop_add_append, hdrop]

/-- the body-less form (`headers CRLF CRLF--boundary`): the payload is empty -/
theorem dataSpec_encoded_empty {bnd : Bytes} (tail : Bytes) {f : Bool} {rest : Bytes}
    (ht : AfterDelim tail f rest) :
    dataSpec bnd true (13 :: 10 :: (delim bnd ++ tail)) = some ([], f, rest) := by
  rcases matchTail_afterDelim ht with ⟨m, hm, hdrop⟩
  have hmatch : matchDelimAt bnd false (13 :: 10 :: (delim bnd ++ tail)) = some (2 + (bnd.length + 2) + m, f) := by
    apply matchDelimAt_iff.2
    exact ⟨tail, m, by simp [lbLen_crlf], by simp [lbLen_crlf], hm, by simp [lbLen_crlf]⟩
  rw [dataSpec_true, searchDelim_cons_some hmatch]
  simp only [Option.some.injEq, Prod.mk.injEq, true_and]
  constructor
  · simp
  · have e : (13 :: 10 :: (delim bnd ++ tail) : Bytes) = [13, 10] ++ (delim bnd ++ tail) := rfl
    rw [e]
    have e2 : 2 + (bnd.length + 2) + m = (m + (delim bnd).length) + ([13, 10] : Bytes).length := by
      simp [delim]; omega
    rw [e2, drop_add_append, drop_add_append, hdrop]

end Wz.Multipart

namespace Wz.Multipart
open Wz

/-! ### the three line-break conventions (CRLF, bare LF, bare CR) -/

/-- the line break a body uses for its delimiter lines and header lines -/
inductive Nl where
  | crlf | lf | cr
deriving DecidableEq, Repr

def Nl.bytes : Nl → Bytes
  | .crlf => [13, 10]
  | .lf => [10]
  | .cr => [13]

def Nl.len (nl : Nl) : Nat := nl.bytes.length

/-- "free of the other newline kind": with bare-LF delimiters the text contains no CR, with bare-CR
delimiters no LF; no condition for CRLF -/
def NoOther : Nl → Bytes → Prop
  | .crlf, _ => True
  | .lf, p => 13 ∉ p
  | .cr, p => 10 ∉ p

instance (nl : Nl) (p : Bytes) : Decidable (NoOther nl p) := by
  cases nl <;> simp only [NoOther] <;> infer_instance

theorem Nl.len_pos (nl : Nl) : 0 < nl.len := by cases nl <;> decide
theorem Nl.len_le_two (nl : Nl) : nl.len ≤ 2 := by cases nl <;> decide

theorem Nl.lbLen_append {nl : Nl} {c : UInt8} (rest : Bytes) (hc : c ≠ 10) :
    lbLen (nl.bytes ++ c :: rest) = nl.len := by
  cases nl
  · exact lbLen_crlf _
  · exact lbLen_lf _
  · exact lbLen_cr_not_lf rest hc

theorem Nl.lbLen_delim (nl : Nl) (bnd x : Bytes) : lbLen (nl.bytes ++ (delim bnd ++ x)) = nl.len := by
  have := Nl.lbLen_append (nl := nl) (c := 45) (45 :: (bnd ++ x)) (by decide)
  simpa [delim] using this

theorem Nl.head_isNl (nl : Nl) (x : Bytes) : ∃ a t, nl.bytes ++ x = a :: t ∧ isNl a = true := by
  cases nl
  · exact ⟨13, 10 :: x, rfl, by decide⟩
  · exact ⟨10, x, rfl, by decide⟩
  · exact ⟨13, x, rfl, by decide⟩

theorem NoOther.append {nl : Nl} {a b : Bytes} : NoOther nl (a ++ b) ↔ NoOther nl a ∧ NoOther nl b := by
  cases nl <;> simp [NoOther]

/-- `--boundary` + transport padding + line break + a byte that is not LF: the non-closing delimiter
line ends with the line break -/
theorem matchTail_pad_nl {nl : Nl} {pad : Bytes} {c : UInt8} (r : Bytes) (hpad : ∀ x ∈ pad, isHws x = true)
    (hc : c ≠ 10) : matchTail (pad ++ (nl.bytes ++ c :: r)) = some (pad.length + nl.len, false) := by
  rcases nl.head_isNl (c :: r) with ⟨a, t, he, ha⟩
  apply matchTail_false_iff.2
  exact ⟨pad, a, t, by rw [he], hpad, ha, by rw [← he, Nl.lbLen_append r hc]⟩

/-- what follows `--boundary`: `--` + anything (closing delimiter) or transport padding (horizontal
white space, any amount) + the line break + the header block of the next part (which does not start
with LF) -/
def AfterDelimNl (nl : Nl) (tail : Bytes) (f : Bool) (rest : Bytes) : Prop :=
  (f = true ∧ ∃ x, tail = 45 :: 45 :: x ∧
    rest = x.drop ((x.takeWhile isHws).length + lbLen (x.dropWhile isHws))) ∨
  (f = false ∧ ∃ pad c r, (∀ x ∈ pad, isHws x = true) ∧ c ≠ 10 ∧
    tail = pad ++ (nl.bytes ++ c :: r) ∧ rest = c :: r)

theorem matchTail_afterDelimNl {nl : Nl} {tail : Bytes} {f : Bool} {rest : Bytes}
    (h : AfterDelimNl nl tail f rest) :
    ∃ m, matchTail tail = some (m, f) ∧ tail.drop m = rest := by
  rcases h with ⟨rfl, x, rfl, rfl⟩ | ⟨rfl, pad, c, r, hpad, hc, rfl, rfl⟩
  · exact matchTail_afterDelim (AfterDelim.closing x)
  · refine ⟨pad.length + nl.len, matchTail_pad_nl r hpad hc, ?_⟩
    rw [Nat.add_comm, drop_add_append]
    simp [Nl.len]

/-- bare-LF bodies: no delimiter can start inside `p` when no line of `p` starts with `--boundary`,
`p` contains no CR and is followed by an LF -/
theorem no_match_inside_lf {bnd : Bytes} (hb : BoundaryOk bnd) (p Y : Bytes)
    (h : lineStarts (delim bnd) p = false) (hcr : 13 ∉ p) :
    ∀ j, j < p.length → matchDelimAt bnd false ((p ++ 10 :: Y).drop j) = none := by
  induction p with
  | nil => intro j hj; simp at hj
  | cons a r ih =>
    simp only [lineStarts, Bool.or_eq_false_iff] at h
    intro j hj
    cases j with
    | succ j => simpa using ih h.2 (fun hm => hcr (by simp [hm])) j (by simpa using hj)
    | zero =>
      simp only [List.drop_zero]
      cases hx : matchDelimAt bnd false ((a :: r) ++ 10 :: Y) with
      | none => rfl
      | some v =>
        exfalso
        rcases v with ⟨n, f⟩
        rcases matchDelimAt_iff.1 hx with ⟨r', m, hl, hd, _, _⟩
        have ha : isNl a = true := by
          rcases lbLen_pos_iff.1 hl with ⟨a', t', he, hn⟩
          simp at he; rw [he.1]; exact hn
        have ha10 : a = 10 := by
          rcases isNl_iff.1 ha with h1 | h1
          · exact h1
          · exfalso; exact hcr (by simp [h1])
        subst ha10
        have hnp : (delim bnd).isPrefixOf r = false := by
          have := h.1; rw [ha] at this; simpa using this
        rw [List.cons_append, lbLen_lf] at hd
        simp only [List.drop_succ_cons, List.drop_zero] at hd
        have : (delim bnd).isPrefixOf (r ++ 10 :: Y) = true := by
          rw [hd, List.isPrefixOf_iff_prefix]; exact List.prefix_append _ _
        rw [isPrefixOf_append_nl r Y (delim_no_nl hb) (by decide), hnp] at this
        simp at this

/-- the payload may be written between the line break and `line break --boundary`: no line of it
(the first included) starts with `--boundary`, and it is free of the other newline kind -/
def PayloadOkNl (nl : Nl) (bnd payload : Bytes) : Prop :=
  lineStarts (delim bnd) (nl.bytes ++ payload) = false ∧ NoOther nl payload

instance (nl : Nl) (bnd payload : Bytes) : Decidable (PayloadOkNl nl bnd payload) := by
  unfold PayloadOkNl; infer_instance

theorem payloadOkNl_crlf {bnd payload : Bytes} : PayloadOkNl .crlf bnd payload ↔ PayloadOk bnd payload := by
  simp [PayloadOkNl, PayloadOk, NoOther, Nl.bytes]

theorem no_match_inside_nl {nl : Nl} {bnd : Bytes} (hb : BoundaryOk bnd) (payload Y : Bytes)
    (hp : PayloadOkNl nl bnd payload) :
    ∀ j, j < (nl.bytes ++ payload).length →
      matchDelimAt bnd false (((nl.bytes ++ payload) ++ (nl.bytes ++ Y)).drop j) = none := by
  rcases hp with ⟨h1, h2⟩
  cases nl with
  | crlf => exact no_match_inside hb _ (10 :: Y) h1
  | cr => exact no_match_inside hb _ Y h1
  | lf =>
    refine no_match_inside_lf hb _ Y h1 ?_
    simp only [NoOther] at h2
    simpa [Nl.bytes] using h2

/-- the first bytes of the data stretch are the line break, whatever the payload -/
theorem Nl.lbLen_data {nl : Nl} (payload X : Bytes) (h2 : NoOther nl payload) :
    lbLen (nl.bytes ++ payload ++ (nl.bytes ++ X)) = nl.len := by
  cases nl with
  | crlf => exact lbLen_crlf _
  | lf => exact lbLen_lf _
  | cr =>
    cases payload with
    | nil => exact lbLen_cr_not_lf _ (by decide)
    | cons a t =>
      have : a ≠ 10 := by intro e; subst e; simp [NoOther] at h2
      exact lbLen_cr_not_lf _ this

/-- **The framing is undone by the DATA kernel, for every line-break convention.** -/
theorem dataSpec_encoded_nl {nl : Nl} {bnd : Bytes} (hb : BoundaryOk bnd) (payload tail : Bytes) {f : Bool}
    {rest : Bytes} (hp : PayloadOkNl nl bnd payload) (ht : AfterDelimNl nl tail f rest) :
    dataSpec bnd true (nl.bytes ++ payload ++ (nl.bytes ++ (delim bnd ++ tail))) = some (payload, f, rest) := by
  rcases matchTail_afterDelimNl ht with ⟨m, hm, hdrop⟩
  let P : Bytes := nl.bytes ++ payload
  have hmatch : matchDelimAt bnd false (nl.bytes ++ (delim bnd ++ tail)) =
      some (nl.len + (bnd.length + 2) + m, f) := by
    apply matchDelimAt_iff.2
    have hl := nl.lbLen_delim bnd tail
    refine ⟨tail, m, by rw [hl]; exact nl.len_pos, by rw [hl]; simp [Nl.len], hm, by rw [hl]⟩
  have hsearch : searchDelim bnd false (P ++ (nl.bytes ++ (delim bnd ++ tail))) =
      some (P.length, P.length + (nl.len + (bnd.length + 2) + m), f) := by
    rw [searchDelim_skip _ P.length (no_match_inside_nl hb payload (delim bnd ++ tail) hp)]
    have : (P ++ (nl.bytes ++ (delim bnd ++ tail))).drop P.length = nl.bytes ++ (delim bnd ++ tail) := by simp
    rw [this]
    rcases nl.head_isNl (delim bnd ++ tail) with ⟨a, t, he, _⟩
    rw [he] at hmatch ⊢
    rw [searchDelim_cons_some hmatch]
    simp [shift, Nat.add_comm]
  rw [dataSpec_true, hsearch]
  simp only [Option.some.injEq, Prod.mk.injEq, true_and]
  constructor
  · have : (P ++ (nl.bytes ++ (delim bnd ++ tail))).take P.length = P := by simp
    rw [this, Nl.lbLen_data payload _ hp.2]
    simp [P, Nl.len]
  · have : (P ++ (nl.bytes ++ (delim bnd ++ tail))).drop (P.length + (nl.len + (bnd.length + 2) + m)) =
        (nl.bytes ++ (delim bnd ++ tail)).drop (nl.len + (bnd.length + 2) + m) := by
      rw [Nat.add_comm, drop_add_append]
    rw [this]
    have e2 : nl.len + (bnd.length + 2) + m = (m + (delim bnd).length) + nl.bytes.length := by
      simp [delim, Nl.len]; omega
    rw [e2, drop_add_append, drop_add_append, hdrop]

/-- the body-less form (`headers NL NL--boundary`) -/
theorem dataSpec_encoded_empty_nl {nl : Nl} {bnd : Bytes} (tail : Bytes) {f : Bool} {rest : Bytes}
    (ht : AfterDelimNl nl tail f rest) :
    dataSpec bnd true (nl.bytes ++ (delim bnd ++ tail)) = some ([], f, rest) := by
  rcases matchTail_afterDelimNl ht with ⟨m, hm, hdrop⟩
  have hl := nl.lbLen_delim bnd tail
  have hmatch : matchDelimAt bnd false (nl.bytes ++ (delim bnd ++ tail)) =
      some (nl.len + (bnd.length + 2) + m, f) := by
    apply matchDelimAt_iff.2
    refine ⟨tail, m, by rw [hl]; exact nl.len_pos, by rw [hl]; simp [Nl.len], hm, by rw [hl]⟩
  rcases nl.head_isNl (delim bnd ++ tail) with ⟨a, t, he, _⟩
  rw [dataSpec_true]
  rw [he] at hmatch
  rw [he, searchDelim_cons_some hmatch, ← he]
  simp only [Option.some.injEq, Prod.mk.injEq, true_and]
  constructor
  · simp
  · have e2 : nl.len + (bnd.length + 2) + m = (m + (delim bnd).length) + nl.bytes.length := by
      simp [delim, Nl.len]; omega
    rw [e2, drop_add_append, drop_add_append, hdrop]

/-- `matchDelimAt_restrict_true` with the exact length bound -/
theorem matchDelimAt_restrict_true' {bnd x c : Bytes} {o : Bool} {n : Nat}
    (h : matchDelimAt bnd o (x ++ c) = some (n, true))
    (hlen : lbLen (x ++ c) + (bnd.length + 2) + 2 ≤ x.length) :
    ∃ n', matchDelimAt bnd o x = some (n', true) := by
  rcases matchDelimAt_iff'.1 h with ⟨r, m, ho, hd, hm, rfl⟩
  have hx2 : 2 ≤ x.length := by omega
  have hlb : lbLen (x ++ c) = lbLen x := lbLen_append_of_two_le c hx2
  rw [hlb] at hd ho hlen
  rw [List.drop_append_of_le_length (lbLen_le_length x)] at hd
  rcases matchTail_true_iff.1 hm with ⟨r2, rfl, _⟩
  have hlen' : (delim bnd ++ [45, 45]).length ≤ (x.drop (lbLen x)).length := by
    simp [delim]; omega
  have hp : (delim bnd ++ [45, 45]).isPrefixOf (x.drop (lbLen x) ++ c) = true := by
    rw [hd, List.isPrefixOf_iff_prefix]; exact ⟨r2, by simp⟩
  rw [isPrefixOf_append_of_length_le c hlen', List.isPrefixOf_iff_prefix] at hp
  rcases hp with ⟨rx, hrx⟩
  refine ⟨_, matchDelimAt_iff'.2 ⟨45 :: 45 :: rx, _, ho, ?_, matchTail_final (by simp [List.isPrefixOf]), rfl⟩⟩
  rw [← hrx]; simp

end Wz.Multipart
