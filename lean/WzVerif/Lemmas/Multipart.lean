/-
Helper lemmas for the multipart decoder model (C01 / C10 / C02). Core Lean only.
-/
import WzVerif.Model.Multipart
namespace Wz.Multipart
open Wz

/-- the boundary contains no CR / LF (it comes from a header parameter) -/
def BoundaryOk (bnd : Bytes) : Prop := hasNl bnd = false

instance (bnd : Bytes) : Decidable (BoundaryOk bnd) := by unfold BoundaryOk; infer_instance

/-! ### byte classes -/

theorem isNl_iff {a : UInt8} : isNl a = true ↔ a = 10 ∨ a = 13 := by
  simp [isNl]

theorem isNl_not_hws {a : UInt8} (h : isNl a = true) : isHws a = false := by
  rcases isNl_iff.1 h with h | h <;> subst h <;> decide

theorem dash_not_nl : isNl 45 = false := by decide
theorem dash_not_hws : isHws 45 = false := by decide

theorem hasNl_append (s t : Bytes) : hasNl (s ++ t) = (hasNl s || hasNl t) := by
  simp [hasNl]

theorem hasNl_cons (a : UInt8) (t : Bytes) : hasNl (a :: t) = (isNl a || hasNl t) := by
  simp [hasNl]

@[simp] theorem hasNl_nil : hasNl [] = false := rfl

/-! ### lbLen -/

theorem lbLen_le_two (s : Bytes) : lbLen s ≤ 2 := by
  unfold lbLen; split <;> (try split) <;> (try split) <;> (try split) <;> (try split) <;> omega

theorem lbLen_le_length (s : Bytes) : lbLen s ≤ s.length := by
  unfold lbLen; split
  · simp
  · split; · simp
    split
    · split
      · split <;> simp
      · simp
    · simp

theorem lbLen_cons_not_nl {a : UInt8} {t : Bytes} (h : isNl a = false) : lbLen (a :: t) = 0 := by
  simp [isNl] at h
  simp [lbLen, h.1, h.2]

theorem lbLen_pos_of_nl {a : UInt8} {t : Bytes} (h : isNl a = true) : 0 < lbLen (a :: t) := by
  rcases isNl_iff.1 h with h | h <;> subst h
  · simp [lbLen]
  · simp [lbLen]; cases t with
    | nil => simp
    | cons b t => simp; split <;> omega

theorem lbLen_pos_iff {s : Bytes} : 0 < lbLen s ↔ ∃ a t, s = a :: t ∧ isNl a = true := by
  constructor
  · intro h
    cases s with
    | nil => simp [lbLen] at h
    | cons a t =>
      refine ⟨a, t, rfl, ?_⟩
      cases hn : isNl a with
      | true => rfl
      | false => rw [lbLen_cons_not_nl hn] at h; omega
  · rintro ⟨a, t, rfl, h⟩; exact lbLen_pos_of_nl h

theorem lbLen_append_of_two_le {s : Bytes} (c : Bytes) (h : 2 ≤ s.length) : lbLen (s ++ c) = lbLen s := by
  match s, h with
  | a :: b :: t, _ => simp [lbLen]

theorem lbLen_append_ge (s c : Bytes) : lbLen s ≤ lbLen (s ++ c) := by
  match s with
  | [] => simp [lbLen]
  | [a] =>
    simp only [lbLen, List.singleton_append]
    split; · omega
    split
    · cases c with
      | nil => simp
      | cons b c => simp; split <;> omega
    · omega
  | a :: b :: t => rw [lbLen_append_of_two_le c (by simp)]; omega

theorem lbLen_lf (t : Bytes) : lbLen (10 :: t) = 1 := by simp [lbLen]
theorem lbLen_crlf (t : Bytes) : lbLen (13 :: 10 :: t) = 2 := by simp [lbLen]
theorem lbLen_cr_not_lf {b : UInt8} (t : Bytes) (h : b ≠ 10) : lbLen (13 :: b :: t) = 1 := by
  simp [lbLen, h]
theorem lbLen_cr_nil : lbLen [13] = 1 := by simp [lbLen]

theorem lbLen_append_cases {s : Bytes} (c : Bytes) (h : 0 < lbLen s) :
    lbLen (s ++ c) = lbLen s ∨ (s = [13] ∧ ∃ c', c = 10 :: c' ∧ lbLen (s ++ c) = 2) := by
  match s with
  | [] => simp [lbLen] at h
  | [a] =>
    rcases lbLen_pos_iff.1 h with ⟨a', t', he, hn⟩
    injection he with h1 h2; subst h1; subst h2
    rcases isNl_iff.1 hn with h | h <;> subst h
    · left; simp [lbLen]
    · cases c with
      | nil => left; simp
      | cons b c =>
        by_cases hb : b = 10
        · subst hb; right; exact ⟨rfl, c, rfl, by simp [lbLen]⟩
        · left; simp [lbLen, hb]
  | a :: b :: t => left; exact lbLen_append_of_two_le c (by simp)

/-! ### prefixes and takeWhile across a newline -/

theorem isPrefixOf_append_nl {p : Bytes} (u w : Bytes) {a : UInt8} (hp : hasNl p = false)
    (ha : isNl a = true) : p.isPrefixOf (u ++ a :: w) = p.isPrefixOf u := by
  induction p generalizing u with
  | nil => simp
  | cons x p ih =>
    rw [hasNl_cons] at hp
    simp at hp
    cases u with
    | nil =>
      have : x ≠ a := by intro h; subst h; rw [ha] at hp; exact absurd hp.1 (by simp)
      simp [List.isPrefixOf, this]
    | cons y u => simp [List.isPrefixOf, ih u hp.2]

theorem isPrefixOf_append_of_isPrefixOf {p s : Bytes} (c : Bytes) (h : p.isPrefixOf s = true) :
    p.isPrefixOf (s ++ c) = true := by
  rw [List.isPrefixOf_iff_prefix] at *
  exact List.IsPrefix.trans h (List.prefix_append s c)

theorem isPrefixOf_append_of_length_le {p s : Bytes} (c : Bytes) (h : p.length ≤ s.length) :
    p.isPrefixOf (s ++ c) = p.isPrefixOf s := by
  induction p generalizing s with
  | nil => simp
  | cons x p ih =>
    cases s with
    | nil => simp at h
    | cons y s =>
      simp at h
      simp [List.isPrefixOf, ih h]

theorem takeWhile_hws_append_nl (u w : Bytes) {a : UInt8} (ha : isHws a = false) :
    (u ++ a :: w).takeWhile isHws = u.takeWhile isHws := by
  induction u with
  | nil => simp [List.takeWhile, ha]
  | cons y u ih =>
    simp only [List.cons_append, List.takeWhile]
    cases isHws y <;> simp [ih]

theorem mem_takeWhile_true {p : UInt8 → Bool} {s : Bytes} {x : UInt8} (h : x ∈ s.takeWhile p) :
    p x = true := by
  induction s with
  | nil => simp at h
  | cons a s ih =>
    simp only [List.takeWhile] at h
    cases hp : p a with
    | true =>
      rw [hp] at h
      simp at h
      rcases h with h | h
      · subst h; exact hp
      · exact ih h
    | false => rw [hp] at h; simp at h

theorem takeWhile_length_le (p : UInt8 → Bool) (s : Bytes) : (s.takeWhile p).length ≤ s.length := by
  induction s with
  | nil => simp
  | cons a s ih => simp only [List.takeWhile]; split <;> simp <;> omega

theorem drop_takeWhile_length (p : UInt8 → Bool) (s : Bytes) :
    s.drop (s.takeWhile p).length = s.dropWhile p := by
  induction s with
  | nil => simp
  | cons a s ih =>
    simp only [List.takeWhile, List.dropWhile]
    cases p a <;> simp [ih]

/-! ### matchTail -/

theorem matchTail_final {r : Bytes} (h : [45, 45].isPrefixOf r = true) :
    matchTail r = some (2 + ((r.drop 2).takeWhile isHws).length +
      lbLen ((r.drop 2).drop ((r.drop 2).takeWhile isHws).length), true) := by
  simp [matchTail, h]

theorem matchTail_nonfinal {r : Bytes} (h : [45, 45].isPrefixOf r = false) :
    matchTail r =
      if 0 < lbLen (r.dropWhile isHws) then
        some ((r.takeWhile isHws).length + lbLen (r.dropWhile isHws), false) else none := by
  simp [matchTail, h, drop_takeWhile_length]

/-- shape of a non-closing tail match: horizontal whitespace, then a line break -/
theorem matchTail_false_iff {r : Bytes} {m : Nat} :
    matchTail r = some (m, false) ↔
      ∃ hh a t, r = hh ++ a :: t ∧ (∀ x ∈ hh, isHws x = true) ∧ isNl a = true ∧
        m = hh.length + lbLen (a :: t) := by
  constructor
  · intro h
    cases hp : [45, 45].isPrefixOf r with
    | true => rw [matchTail_final hp] at h; simp at h
    | false =>
      rw [matchTail_nonfinal hp] at h
      split at h
      · rename_i hl
        rcases lbLen_pos_iff.1 hl with ⟨a, t, he, hn⟩
        refine ⟨r.takeWhile isHws, a, t, ?_, ?_, hn, ?_⟩
        · rw [← he]; exact (List.takeWhile_append_dropWhile (p := isHws) (l := r)).symm
        · intro x hx; exact mem_takeWhile_true hx
        · simp at h; rw [← he]; omega
      · simp at h
  · rintro ⟨hh, a, t, rfl, hall, hn, rfl⟩
    have hna : isHws a = false := isNl_not_hws hn
    have hp : [45, 45].isPrefixOf (hh ++ a :: t) = false := by
      cases hh with
      | nil =>
        have : (45 == a) = false := by
          apply beq_false_of_ne; intro h; subst h; exact absurd hn (by decide)
        simp [List.isPrefixOf, this]
      | cons y hh =>
        have : (45 == y) = false := by
          apply beq_false_of_ne; intro h; subst h
          have := hall 45 (by simp)
          exact absurd this (by decide)
        simp [List.isPrefixOf, this]
    have htw : (hh ++ a :: t).takeWhile isHws = hh := by
      rw [List.takeWhile_append_of_pos hall]; simp [List.takeWhile, hna]
    have hdw : (hh ++ a :: t).dropWhile isHws = a :: t := by
      rw [List.dropWhile_append_of_pos hall]; simp [List.dropWhile, hna]
    rw [matchTail_nonfinal hp, htw, hdw]
    simp [lbLen_pos_of_nl hn]

theorem matchTail_true_iff {r : Bytes} {m : Nat} :
    matchTail r = some (m, true) ↔
      ∃ r2, r = 45 :: 45 :: r2 ∧
        m = 2 + (r2.takeWhile isHws).length + lbLen (r2.dropWhile isHws) := by
  constructor
  · intro h
    cases hp : [45, 45].isPrefixOf r with
    | true =>
      rw [matchTail_final hp] at h
      rw [List.isPrefixOf_iff_prefix] at hp
      rcases hp with ⟨r2, rfl⟩
      refine ⟨r2, rfl, ?_⟩
      simp [drop_takeWhile_length] at h
      omega
    | false =>
      rw [matchTail_nonfinal hp] at h
      split at h <;> simp at h
  · rintro ⟨r2, rfl, rfl⟩
    rw [matchTail_final (by simp [List.isPrefixOf])]
    simp [drop_takeWhile_length]

/-- a tail match does not depend on what follows the first line break when the text before it is
free of line breaks -/
theorem matchTail_append_nl {u : Bytes} {a : UInt8} {w : Bytes} {n : Nat} {f : Bool} (w' : Bytes)
    (hu : hasNl u = false) (ha : isNl a = true) (h : matchTail (u ++ a :: w) = some (n, f)) :
    ∃ n', matchTail (u ++ a :: w') = some (n', f) := by
  cases f with
  | true =>
    rcases matchTail_true_iff.1 h with ⟨r2, he, _⟩
    have hp : [45, 45].isPrefixOf (u ++ a :: w) = true := by rw [he]; simp [List.isPrefixOf]
    rw [isPrefixOf_append_nl u w (by decide) ha] at hp
    have hp' : [45, 45].isPrefixOf (u ++ a :: w') = true := by
      rw [isPrefixOf_append_nl u w' (by decide) ha]; exact hp
    exact ⟨_, matchTail_final hp'⟩
  | false =>
    rcases matchTail_false_iff.1 h with ⟨hh, a', t, he, hall, hn, _⟩
    -- hh ++ a' :: t = u ++ a :: w with hh all hws (hence newline free) : hh = u, a' = a
    have key : ∀ (hh u : Bytes), (∀ x ∈ hh, isHws x = true) → hasNl u = false →
        hh ++ a' :: t = u ++ a :: w → hh = u := by
      intro hh
      induction hh with
      | nil =>
        intro u _ hu he
        cases u with
        | nil => rfl
        | cons y u =>
          simp at he
          rw [hasNl_cons] at hu; simp at hu
          rw [← he.1] at hu; rw [hn] at hu; simp at hu
      | cons x hh ih =>
        intro u hall hu he
        cases u with
        | nil =>
          simp at he
          have := hall x (by simp)
          rw [he.1, isNl_not_hws ha] at this; simp at this
        | cons y u =>
          simp at he
          rw [hasNl_cons] at hu; simp at hu
          rw [he.1, ih u (fun z hz => hall z (by simp [hz])) hu.2 he.2]
    have hhu : hh = u := key hh u hall hu he.symm
    subst hhu
    exact ⟨_, matchTail_false_iff.2 ⟨hh, a, w', rfl, hall, ha, rfl⟩⟩

/-- appending input keeps a tail match and its kind; a non-closing match grows by at most the LF
that completes a trailing CR -/
theorem matchTail_append {r : Bytes} {m : Nat} {f : Bool} (c : Bytes) (h : matchTail r = some (m, f)) :
    ∃ m', matchTail (r ++ c) = some (m', f) ∧
      (f = false → m' = m ∨ (m' = m + 1 ∧ r.length = m ∧ ∃ c', c = 10 :: c')) := by
  cases f with
  | true =>
    rcases matchTail_true_iff.1 h with ⟨r2, rfl, _⟩
    exact ⟨_, matchTail_final (by simp [List.isPrefixOf]), by simp⟩
  | false =>
    rcases matchTail_false_iff.1 h with ⟨hh, a, t, rfl, hall, hn, rfl⟩
    refine ⟨hh.length + lbLen (a :: (t ++ c)), ?_, fun _ => ?_⟩
    · exact matchTail_false_iff.2 ⟨hh, a, t ++ c, by simp, hall, hn, rfl⟩
    · rcases lbLen_append_cases (s := a :: t) c (lbLen_pos_of_nl hn) with h1 | ⟨h1, c', h2, h3⟩
      · left; simp at h1; rw [h1]
      · right
        injection h1 with h1a h1b; subst h1a; subst h1b
        refine ⟨?_, ?_, c', h2⟩
        · simp only [List.nil_append]; simp only [List.singleton_append] at h3; rw [h3]; simp [lbLen]
        · simp [lbLen]

end Wz.Multipart
