import WzVerif.Lemmas.HttpAge
set_option linter.unusedSimpArgs false
namespace Wz.Http
open Wz

/-! ### Cache-Control typed accessors -/

theorem parseCacheControl_eq (w : Str) : parseCacheControl w = parseDictHeader w := by
  unfold parseCacheControl
  cases w with
  | nil => rfl
  | cons _ _ => rfl

theorem dictHas_set_self {ν : Type} (d : Dict ν) (k : Str) (v : ν) : dictHas (dictSet d k v) k = true := by
  unfold dictSet
  by_cases h : dictHas d k = true
  · simp only [h, if_true]
    simp only [dictHas, List.any_eq_true] at h ⊢
    obtain ⟨x, hx, hk⟩ := h
    refine ⟨(x.1, v), ?_, by simpa using hk⟩
    simp only [List.mem_map]
    exact ⟨x, hx, by simp [hk]⟩
  · simp only [h, if_false]
    simp [dictHas]

theorem dictGet_map_set {ν : Type} (d : Dict ν) (k : Str) (v : ν) (h : dictHas d k = true) :
    dictGet? (d.map fun p => if p.1 == k then (p.1, v) else p) k = some v := by
  induction d with
  | nil => simp [dictHas] at h
  | cons x t ih =>
    by_cases hx : x.1 = k
    · simp only [dictGet?, List.map_cons, hx, beq_self_eq_true, if_true, List.find?_cons]
      rfl
    · have hx' : (x.1 == k) = false := by simpa using hx
      have ht : dictHas t k = true := by
        simp only [dictHas, List.any_cons, Bool.or_eq_true] at h
        rcases h with h | h
        · rw [hx'] at h; exact absurd h (by simp)
        · exact h
      have := ih ht
      simp only [dictGet?, List.map_cons, List.find?_cons, hx', Bool.false_eq_true, if_false] at this ⊢
      exact this

theorem dictGet_append_new {ν : Type} (d : Dict ν) (k : Str) (v : ν) (h : dictHas d k = false) :
    dictGet? (d ++ [(k, v)]) k = some v := by
  induction d with
  | nil => simp [dictGet?]
  | cons x t ih =>
    simp only [dictHas, List.any_cons, Bool.or_eq_false_iff] at h
    have := ih h.2
    simp only [dictGet?, List.cons_append, List.find?_cons, h.1] at this ⊢
    exact this

theorem dictGet_set_self {ν : Type} (d : Dict ν) (k : Str) (v : ν) :
    dictGet? (dictSet d k v) k = some v := by
  unfold dictSet
  by_cases h : dictHas d k = true
  · simp only [h, if_true]; exact dictGet_map_set d k v h
  · simp only [h, if_false]; exact dictGet_append_new d k v (by simpa using h)

theorem dictHas_pop_self {ν : Type} (d : Dict ν) (k : Str) : dictHas (dictPop d k) k = false := by
  simp [dictHas, dictPop]

theorem dictGet_pop_self {ν : Type} (d : Dict ν) (k : Str) : dictGet? (dictPop d k) k = none := by
  simp only [dictGet?, dictPop, Option.map_eq_none_iff, List.find?_eq_none]
  intro x hx
  simp only [List.mem_filter] at hx
  simpa using hx.2

theorem keys_dictSet {ν : Type} (d : Dict ν) (k : Str) (v : ν) :
    (dictSet d k v).map (·.1) = if dictHas d k then d.map (·.1) else d.map (·.1) ++ [k] := by
  unfold dictSet
  by_cases h : dictHas d k = true
  · simp only [h, if_true, List.map_map]
    apply List.map_congr_left
    intro x _
    simp only [Function.comp]
    split <;> rfl
  · simp [h]

theorem keys_dictPop {ν : Type} (d : Dict ν) (k : Str) :
    (dictPop d k).map (·.1) = (d.map (·.1)).filter (· != k) := by
  simp [dictPop, List.filter_map, Function.comp_def]

theorem dictHas_iff_mem {ν : Type} (d : Dict ν) (k : Str) : dictHas d k = true ↔ k ∈ d.map (·.1) := by
  simp [dictHas]

/-- validity (distinct, non-empty token keys without `*`) of a directive dict -/
def DictOk (d : Dict (Option Str)) : Prop := (∀ x ∈ d, KeyOk x.1 = true) ∧ (d.map (·.1)).Nodup

theorem keyOk_of_keys {d : Dict (Option Str)} (h : ∀ k ∈ d.map (·.1), KeyOk k = true) : ∀ x ∈ d, KeyOk x.1 = true :=
  fun x hx => h x.1 (List.mem_map_of_mem hx)

theorem dictOk_set (d : Dict (Option Str)) (k : Str) (v : Option Str) (hd : DictOk d) (hk : KeyOk k = true) :
    DictOk (dictSet d k v) := by
  constructor
  · apply keyOk_of_keys
    rw [keys_dictSet]
    intro y hy
    split at hy
    · simp only [List.mem_map] at hy
      obtain ⟨x, hx, rfl⟩ := hy
      exact hd.1 x hx
    · simp only [List.mem_append, List.mem_map, List.mem_singleton] at hy
      rcases hy with ⟨x, hx, rfl⟩ | rfl
      · exact hd.1 x hx
      · exact hk
  · rw [keys_dictSet]
    split
    · exact hd.2
    · next hh =>
      rw [List.nodup_append]
      refine ⟨hd.2, by simp, ?_⟩
      intro a ha b hb
      simp at hb; subst hb
      intro e; subst e
      exact hh ((dictHas_iff_mem d a).mpr ha)

theorem dictOk_pop (d : Dict (Option Str)) (k : Str) (hd : DictOk d) : DictOk (dictPop d k) := by
  constructor
  · intro x hx
    simp only [dictPop, List.mem_filter] at hx
    exact hd.1 x hx.1
  · rw [keys_dictPop]
    exact hd.2.filter _

end Wz.Http
namespace Wz.Http
open Wz

/-- the values a typed property may be set to (`bool`: a truth value; `int`: `None`/`False`/`True`/an
int; `str`: `None`/`False`/`True`/a string) -/
def CCValFor : CCType → CCVal → Bool
  | .bool, .true_ | .bool, .false_ => true
  | .int, .none | .int, .false_ | .int, .true_ | .int, .int _ => true
  | .str, .none | .str, .false_ | .str, .true_ | .str, .str _ => true
  | _, _ => false

/-- what the typed getter documents for a value stored through the typed setter -/
def ccExpected (ty : CCType) (empty v : CCVal) : CCVal :=
  match ty, v with
  | .bool, .true_ => .true_
  | .bool, _ => .false_
  | _, .none | _, .false_ => .none
  | _, .true_ => empty
  | _, v => v

theorem dictOk_setCache (d : Dict (Option Str)) (key : Str) (v : CCVal) (ty : CCType)
    (hd : DictOk d) (hk : KeyOk key = true) : DictOk (setCacheValue d key v ty) := by
  cases ty <;> cases v <;> simp only [setCacheValue] <;>
    first
      | exact dictOk_set _ _ _ hd hk
      | exact dictOk_pop _ _ hd
      | (split
         · exact dictOk_set _ _ _ hd hk
         · exact dictOk_pop _ _ hd)

theorem getCache_setCache (d : Dict (Option Str)) (key : Str) (empty v : CCVal) (ty : CCType)
    (hv : CCValFor ty v = true) :
    getCacheValue (setCacheValue d key v ty) key empty ty = .ok (ccExpected ty empty v) := by
  cases ty <;> cases v <;> simp [CCValFor] at hv <;>
    simp [getCacheValue, setCacheValue, ccTruthy, ccExpected, dictHas_set_self, dictHas_pop_self,
      dictGet_set_self, dictGet_pop_self, pyInt_intText, Except.map, catching_ok]

theorem cacheControl_roundtrip_any (d : Dict (Option Str)) (key : Str) (empty v : CCVal) (ty : CCType)
    (hd : DictOk d) (hk : KeyOk key = true) (hv : CCValFor ty v = true) :
    (dumpHeaderDict (setCacheValue d key v ty) >>= parseCacheControl) = .ok (setCacheValue d key v ty)
    ∧ getCacheValue (setCacheValue d key v ty) key empty ty = .ok (ccExpected ty empty v) := by
  have hok := dictOk_setCache d key v ty hd hk
  refine ⟨?_, getCache_setCache d key empty v ty hv⟩
  have := parseDict_dump_any _ hok.1 hok.2
  simpa [parseCacheControl_eq, funext parseCacheControl_eq] using this

end Wz.Http
