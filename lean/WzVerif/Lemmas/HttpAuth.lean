import WzVerif.Lemmas.HttpB64
import WzVerif.Lemmas.HttpCC
import WzVerif.Lemmas.HttpOpt3
import WzVerif.Lemmas.HttpCRange
set_option linter.unusedSimpArgs false
namespace Wz.Http
open Wz

/-! ### Authorization -/

def basicParams (u p : Str) : Dict (Option Str) := [("username".toList, some u), ("password".toList, some p)]

theorem b64Encode_ne_nil {bs : Bytes} (h : bs ≠ []) : b64Encode bs ≠ [] := by
  fun_cases b64Encode bs <;> simp_all

theorem b64Encode_tight (bs : Bytes) : Tight (b64Encode bs) :=
  ⟨fun c hc => (b64Encode_chars bs c (List.mem_of_head? hc)).2,
   fun c hc => (b64Encode_chars bs c (List.mem_of_getLast? hc)).2⟩

theorem utf8Enc_ne_nil (c : Char) (t : Str) : utf8Enc (c :: t) ≠ [] := by
  have h := utf8Dec_utf8Enc (c :: t)
  intro e
  rw [e] at h
  have : utf8Dec? [] = some [] := by
    have := utf8Dec_utf8Enc []
    simpa [utf8Enc] using this
  rw [this] at h
  simp at h

theorem basic_roundtrip_any (u p : Str) (hu : ':' ∉ u) :
    (authorizationToHeader ⟨"basic".toList, basicParams u p, none⟩ >>= authorizationFromHeader)
      = .ok (some ⟨"basic".toList, basicParams u p, none⟩) := by
  have hdump : authorizationToHeader ⟨"basic".toList, basicParams u p, none⟩
      = .ok ("Basic".toList ++ ' ' :: b64Encode (utf8Enc (u ++ ':' :: p))) := by
    simp [authorizationToHeader, basicParams, dictGet?, optText]
  rw [hdump]
  simp only [ok_bind]
  unfold authorizationFromHeader
  have hne : ("Basic".toList ++ ' ' :: b64Encode (utf8Enc (u ++ ':' :: p))).isEmpty = false := rfl
  have hsp : ' ' ∉ "Basic".toList := by decide
  simp only [hne, Bool.false_eq_true, if_false, partition_found hsp]
  have hl : pyLower "Basic".toList = "basic".toList := by decide
  have hbs : utf8Enc (u ++ ':' :: p) ≠ [] := by
    cases u with
    | nil => exact utf8Enc_ne_nil _ _
    | cons c t => exact utf8Enc_ne_nil _ _
  simp only [hl, strip_tight (b64Encode_tight _), beq_self_eq_true, if_true, b64_roundtrip, ok_bind,
    utf8Strict, utf8Dec_utf8Enc, pure_eq_ok, catching_ok, partition_found hu]
  rfl

/-- a scheme name that survives `.title()` on output and `.lower()` on input, without a space, and
not `basic` (which has its own syntax) -/
def SchemeOk (t : Str) : Bool :=
  !(pyTitle t).contains ' ' && (pyLower (pyTitle t) == t) && (t != "basic".toList)

/-- a token: stripped, and any `=` only trailing -/
def AuthTokenOk (tok : Str) : Bool := (strip tok == tok) && !(Py.rstripBy (· == '=') tok).contains '='

theorem authRest_token (t tok : Str) (htok : AuthTokenOk tok = true) :
    authRest t tok = .ok ⟨t, [], some tok⟩ := by
  simp only [AuthTokenOk, Bool.and_eq_true, beq_iff_eq, Bool.not_eq_true'] at htok
  have h2 : ¬ ('=' ∈ Py.rstripBy (fun x => x == '=') tok) := by simpa using htok.2
  simp [authRest, htok.2, h2]

theorem token_auth_roundtrip_any (t tok : Str) (ht : SchemeOk t = true) (htok : AuthTokenOk tok = true) :
    (authorizationToHeader ⟨t, [], some tok⟩ >>= authorizationFromHeader) = .ok (some ⟨t, [], some tok⟩) := by
  simp only [SchemeOk, Bool.and_eq_true, Bool.not_eq_true', beq_iff_eq, bne_iff_ne, ne_eq] at ht
  obtain ⟨⟨hsp, hlow⟩, hnb⟩ := ht
  have hsp' : ' ' ∉ pyTitle t := by simpa using hsp
  have hnb' : (t == "basic".toList) = false := by simpa using hnb
  have hdump : authorizationToHeader ⟨t, [], some tok⟩ = .ok (pyTitle t ++ ' ' :: tok) := by
    unfold authorizationToHeader
    simp only [hnb', Bool.false_eq_true, if_false]
    rfl
  rw [hdump]
  simp only [ok_bind]
  unfold authorizationFromHeader
  have hne : (pyTitle t ++ ' ' :: tok).isEmpty = false := by cases pyTitle t <;> rfl
  have hstrip : strip tok = tok := by
    simp only [AuthTokenOk, Bool.and_eq_true, beq_iff_eq] at htok; exact htok.1
  simp only [hne, Bool.false_eq_true, if_false, partition_found hsp', hlow, hnb', hstrip,
    authRest_token t tok htok, ok_bind, pure_eq_ok]

theorem www_token_roundtrip_any (t tok : Str) (ht : SchemeOk t = true) (htok : AuthTokenOk tok = true) :
    (wwwToHeader ⟨t, [], some tok⟩ >>= wwwFromHeader) = .ok (some ⟨t, [], some tok⟩) := by
  simp only [SchemeOk, Bool.and_eq_true, Bool.not_eq_true', beq_iff_eq, bne_iff_ne, ne_eq] at ht
  obtain ⟨⟨hsp, hlow⟩, _⟩ := ht
  have hsp' : ' ' ∉ pyTitle t := by simpa using hsp
  have hdump : wwwToHeader ⟨t, [], some tok⟩ = .ok (pyTitle t ++ ' ' :: tok) := by
    simp [wwwToHeader]
  rw [hdump]
  simp only [ok_bind]
  unfold wwwFromHeader
  have hne : (pyTitle t ++ ' ' :: tok).isEmpty = false := by cases pyTitle t <;> rfl
  have hstrip : strip tok = tok := by
    simp only [AuthTokenOk, Bool.and_eq_true, beq_iff_eq] at htok; exact htok.1
  simp only [hne, Bool.false_eq_true, if_false, partition_found hsp', hlow, hstrip,
    authRest_token t tok htok, ok_bind, pure_eq_ok]

end Wz.Http
namespace Wz.Http
open Wz

theorem intercalate_ne_nil (sep a : Str) (l : List Str) (ha : a ≠ []) : List.intercalate sep (a :: l) ≠ [] := by
  cases l with
  | nil => simpa using ha
  | cons b t => rw [List.intercalate_cons_cons]; simp [ha]

theorem intercalate_last (sep a : Str) (l : List Str) (h : ∀ x ∈ a :: l, x ≠ []) :
    ∃ x ∈ a :: l, (List.intercalate sep (a :: l)).getLast? = x.getLast? := by
  induction l generalizing a with
  | nil => exact ⟨a, by simp, by simp⟩
  | cons b t ih =>
    obtain ⟨x, hx, hl⟩ := ih b (fun y hy => h y (by simp at hy ⊢; right; exact hy))
    refine ⟨x, by simp at hx ⊢; right; exact hx, ?_⟩
    rw [List.intercalate_cons_cons, List.getLast?_append]
    have hne := intercalate_ne_nil sep b t (h b (by simp))
    cases hg : (List.intercalate sep (b :: t)).getLast? with
    | none => simp [List.getLast?_eq_none_iff] at hg; exact absurd hg hne
    | some e => rw [← hl, hg]; simp

theorem intercalate_head (sep a : Str) (l : List Str) (ha : a ≠ []) :
    (List.intercalate sep (a :: l)).head? = a.head? := by
  cases a with
  | nil => exact absurd rfl ha
  | cons c t =>
    cases l with
    | nil => simp
    | cons b u => rw [List.intercalate_cons_cons]; simp

theorem dictItemText_ne_nil (x : Str × Option Str) (hk : KeyOk x.1 = true) : dictItemText x ≠ [] := by
  obtain ⟨k, v⟩ := x
  have := keyOk_ne_nil hk
  cases v <;> simp [dictItemText, this]

theorem quote_last_ne_eq (v : Str) : ∀ c, (quoteHeaderValue v).getLast? = some c → c ≠ '=' ∧ Py.isSpace c = false := by
  intro c hc
  rcases quote_cases v with ⟨h0, h1, hq⟩ | hq <;> rw [hq] at hc
  · have := (List.all_eq_true.mp h1) c (List.mem_of_getLast? hc)
    exact ⟨isToken_ne_eq this, isToken_not_space this⟩
  · rw [← List.cons_append, List.getLast?_concat] at hc
    simp at hc; subst hc; exact ⟨by decide, by decide⟩

theorem dictItemText_last (x : Str × Option Str) (hk : KeyOk x.1 = true) :
    ∀ c, (dictItemText x).getLast? = some c → c ≠ '=' ∧ Py.isSpace c = false := by
  obtain ⟨k, v⟩ := x
  intro c hc
  cases v with
  | none =>
    have := (List.all_eq_true.mp (keyOk_all hk)) c (List.mem_of_getLast? hc)
    exact ⟨isToken_ne_eq this, isToken_not_space this⟩
  | some v =>
    simp only [dictItemText] at hc
    have hne : '=' :: quoteHeaderValue v ≠ [] := by simp
    rw [getLast?_append_of_ne_nil hne] at hc
    have hq := quote_ne_nil v
    cases hv : quoteHeaderValue v with
    | nil => exact absurd hv hq
    | cons a t =>
      rw [hv, List.getLast?_cons_cons, ← hv] at hc
      exact quote_last_ne_eq v c hc

theorem rstripBy_noop {p : Char → Bool} {x : Str} (h : ∀ c, x.getLast? = some c → p c = false) :
    Py.rstripBy p x = x := by
  unfold Py.rstripBy
  have : x.reverse.dropWhile p = x.reverse := by
    cases hr : x.reverse with
    | nil => rfl
    | cons a t =>
      have : x.getLast? = some a := by rw [← List.head?_reverse, hr]; rfl
      simp [List.dropWhile_cons, h a this]
  rw [this, List.reverse_reverse]

/-- the wire form of a non-empty parameter dict with at least the first value present -/
theorem dictDump_shape (x : Str × Option Str) (d : Dict (Option Str))
    (hk : ∀ y ∈ x :: d, KeyOk y.1 = true) (hv : x.2.isSome = true) :
    let w := join ", " ((x :: d).map dictItemText)
    strip w = w ∧ (Py.rstripBy (· == '=') w).contains '=' = true := by
  intro w
  have hne : ∀ y ∈ (x :: d).map dictItemText, y ≠ [] := by
    intro y hy
    simp only [List.mem_map] at hy
    obtain ⟨z, hz, rfl⟩ := hy
    exact dictItemText_ne_nil z (hk z hz)
  obtain ⟨z, hz, hl⟩ := intercalate_last ", ".toList (dictItemText x) (d.map dictItemText) (by simpa using hne)
  have hz' : ∃ y ∈ x :: d, z = dictItemText y := by
    have : z ∈ (x :: d).map dictItemText := by simpa using hz
    simp only [List.mem_map] at this
    obtain ⟨y, hy, rfl⟩ := this
    exact ⟨y, hy, rfl⟩
  obtain ⟨y, hy, rfl⟩ := hz'
  have hw : w = List.intercalate ", ".toList (dictItemText x :: d.map dictItemText) := by
    simp [w, join]
  have hlast : ∀ c, w.getLast? = some c → c ≠ '=' ∧ Py.isSpace c = false := by
    intro c hc
    rw [hw, hl] at hc
    exact dictItemText_last y (hk y hy) c hc
  have hhead : ∀ c, w.head? = some c → Py.isSpace c = false := by
    intro c hc
    rw [hw, intercalate_head _ _ _ (dictItemText_ne_nil x (hk x (by simp)))] at hc
    obtain ⟨k, v⟩ := x
    have hk0 := hk (k, v) (by simp)
    have hc' : k.head? = some c := by
      have hkn := keyOk_ne_nil hk0
      cases k with
      | nil => exact absurd rfl hkn
      | cons a t => cases v <;> simpa [dictItemText] using hc
    exact isToken_not_space ((List.all_eq_true.mp (keyOk_all hk0)) c (List.mem_of_head? hc'))
  refine ⟨strip_tight ⟨hhead, fun c hc => (hlast c hc).2⟩, ?_⟩
  rw [rstripBy_noop (fun c hc => by simpa using (hlast c hc).1)]
  obtain ⟨k, v⟩ := x
  cases v with
  | none => simp at hv
  | some v =>
    have : '=' ∈ w := by
      rw [hw]
      cases d with
      | nil => simp [dictItemText]
      | cons b t => rw [List.map_cons, List.intercalate_cons_cons]; simp [dictItemText]
    simpa using this

theorem authRest_params (t : Str) (x : Str × Option Str) (d : Dict (Option Str))
    (hk : ∀ y ∈ x :: d, KeyOk y.1 = true) (hnd : ((x :: d).map (·.1)).Nodup) (hv : x.2.isSome = true) :
    authRest t (strip (join ", " ((x :: d).map dictItemText))) = .ok ⟨t, x :: d, none⟩ := by
  obtain ⟨h1, h2⟩ := dictDump_shape x d hk hv
  rw [h1]
  have hp := parseDict_dump_any (x :: d) hk hnd
  rw [dumpHeaderDict_ok _ hk] at hp
  simp only [ok_bind] at hp
  have h2' : '=' ∈ Py.rstripBy (fun x => x == '=') (join ", " ((x :: d).map dictItemText)) := by simpa using h2
  simp only [List.map_cons] at hp h2'
  simp [authRest, h2', hp]

theorem param_auth_roundtrip_any (t : Str) (x : Str × Option Str) (d : Dict (Option Str))
    (ht : SchemeOk t = true) (hk : ∀ y ∈ x :: d, KeyOk y.1 = true)
    (hnd : ((x :: d).map (·.1)).Nodup) (hv : x.2.isSome = true) :
    (authorizationToHeader ⟨t, x :: d, none⟩ >>= authorizationFromHeader) = .ok (some ⟨t, x :: d, none⟩) := by
  simp only [SchemeOk, Bool.and_eq_true, Bool.not_eq_true', beq_iff_eq, bne_iff_ne, ne_eq] at ht
  obtain ⟨⟨hsp, hlow⟩, hnb⟩ := ht
  have hsp' : ' ' ∉ pyTitle t := by simpa using hsp
  have hnb' : (t == "basic".toList) = false := by simpa using hnb
  have hdump : authorizationToHeader ⟨t, x :: d, none⟩
      = .ok (pyTitle t ++ ' ' :: join ", " ((x :: d).map dictItemText)) := by
    unfold authorizationToHeader
    simp only [hnb', Bool.false_eq_true, if_false, dumpHeaderDict_ok _ hk]
    rfl
  rw [hdump]
  simp only [ok_bind]
  unfold authorizationFromHeader
  have hne : (pyTitle t ++ ' ' :: join ", " ((x :: d).map dictItemText)).isEmpty = false := by
    cases pyTitle t <;> rfl
  simp only [hne, Bool.false_eq_true, if_false, partition_found hsp', hlow, hnb',
    authRest_params t x d hk hnd hv, ok_bind, pure_eq_ok]

end Wz.Http

namespace Wz.Http
open Wz

theorem www_param_roundtrip_any (t : Str) (x : Str × Option Str) (d : Dict (Option Str))
    (ht : SchemeOk t = true) (hnd' : (t == "digest".toList) = false)
    (hk : ∀ y ∈ x :: d, KeyOk y.1 = true)
    (hnd : ((x :: d).map (·.1)).Nodup) (hv : x.2.isSome = true) :
    (wwwToHeader ⟨t, x :: d, none⟩ >>= wwwFromHeader) = .ok (some ⟨t, x :: d, none⟩) := by
  simp only [SchemeOk, Bool.and_eq_true, Bool.not_eq_true', beq_iff_eq, bne_iff_ne, ne_eq] at ht
  obtain ⟨⟨hsp, hlow⟩, _⟩ := ht
  have hsp' : ' ' ∉ pyTitle t := by simpa using hsp
  have hdump : wwwToHeader ⟨t, x :: d, none⟩
      = .ok (pyTitle t ++ ' ' :: join ", " ((x :: d).map dictItemText)) := by
    unfold wwwToHeader
    simp only [hnd', Bool.false_eq_true, if_false, dumpHeaderDict_ok _ hk]
    rfl
  rw [hdump]
  simp only [ok_bind]
  unfold wwwFromHeader
  have hne : (pyTitle t ++ ' ' :: join ", " ((x :: d).map dictItemText)).isEmpty = false := by
    cases pyTitle t <;> rfl
  simp only [hne, Bool.false_eq_true, if_false, partition_found hsp', hlow,
    authRest_params t x d hk hnd hv, ok_bind, pure_eq_ok]

end Wz.Http
