/-
Helper definitions and lemmas for C20 (Model/Debugger.lean, Gen/Debugger.lean).
-/
import WzVerif.Model.Debugger
import WzVerif.Gen.Debugger
namespace Wz.Dbg
open Wz Wz.Gen.Debugger

/-! ### reading the generated table -/

/-- one point of the property's product -/
structure Point where
  cmd : Nat
  sec : Nat
  host : Nat
  cookie : Nat
  frame : Nat
  evalex : Bool
  pinOn : Bool

/-- the point stored as hex digit `j` of packed row `idx` (mixed-radix order of `Gen.Debugger.dims`) -/
def pointAt (idx j : Nat) : Point :=
  { cmd := idx / (nSec * nHost), sec := (idx / nHost) % nSec, host := idx % nHost,
    cookie := j / (nFrame * 4), frame := (j / 4) % nFrame, evalex := (j / 2) % 2 == 0, pinOn := j % 2 == 0 }

/-- observed outcome at that point -/
def outcomeAt (idx j : Nat) : Nat := (rows.getD idx 15 / 16 ^ j) % 16

/-- class of the point's Host by the property text: 0 trusted, 1 must never be accepted, 2 case variant -/
def hostClass (p : Point) : Nat := hostClasses.getD p.host 1
/-- the live `host_is_trusted` verdict for the point's Host: 1 True, 0 False, 2 raised -/
def hostVerdict (p : Point) : Nat := hostVerdicts.getD p.host 2

/-- a predicate on (row index, digit index, outcome) -/
abbrev PointPred := Nat → Nat → Nat → Bool

def checkInner (Q : Nat → Nat → Bool) (n : Nat) : Nat → Bool
  | 0 => true
  | k + 1 => Q k ((n / 16 ^ k) % 16) && checkInner Q n k

/-- recursion on the literal fuel `k` keeps every index a literal for the kernel -/
def checkRows (P : PointPred) (total : Nat) : List Nat → Nat → Bool
  | [], _ => true
  | _ :: _, 0 => false
  | n :: rest, k + 1 => checkInner (P (total - (k + 1))) n rowLen && checkRows P total rest k

/-- `P` holds at every point of the live table -/
def checkTable (P : PointPred) : Bool := checkRows P nRows rows nRows

theorem checkInner_get (Q : Nat → Nat → Bool) (n : Nat) : ∀ m, checkInner Q n m = true →
    ∀ j, j < m → Q j ((n / 16 ^ j) % 16) = true := by
  intro m
  induction m with
  | zero => intro _ j h; omega
  | succ m ih =>
    intro hc j hj
    simp only [checkInner, Bool.and_eq_true] at hc
    by_cases h : j = m
    · subst h; exact hc.1
    · exact ih hc.2 j (by omega)

theorem checkRows_get (P : PointPred) (total : Nat) : ∀ (l : List Nat) (k : Nat),
    checkRows P total l k = true → l.length = k → k ≤ total →
    ∀ i (h : i < l.length) j, j < rowLen → P (total - k + i) j ((l[i] / 16 ^ j) % 16) = true := by
  intro l
  induction l with
  | nil => intro k _ _ _ i h; simp at h
  | cons n rest ih =>
    intro k hc hl hk i hi j hj
    cases k with
    | zero => simp at hl
    | succ k =>
      simp only [checkRows, Bool.and_eq_true] at hc
      cases i with
      | zero =>
        have := checkInner_get _ n rowLen hc.1 j hj
        simpa using this
      | succ i =>
        have := ih k hc.2 (by simpa using hl) (by omega) i (by simpa using hi) j hj
        have e : total - (k + 1) + (i + 1) = total - k + i := by omega
        rw [e]; simpa using this

theorem checkTable_get {P : PointPred} (hc : checkTable P = true) (hlen : rows.length = nRows)
    (idx j : Nat) (hi : idx < nRows) (hj : j < rowLen) : P idx j (outcomeAt idx j) = true := by
  have := checkRows_get P nRows rows nRows hc hlen (Nat.le_refl _) idx (by omega) j hj
  simp only [Nat.sub_self, Nat.zero_add] at this
  unfold outcomeAt
  have hget : rows.getD idx 15 = rows[idx]'(by omega) := by
    simp [List.getD, List.getElem?_eq_getElem (show idx < rows.length by omega)]
  rw [hget]; exact this

theorem checkRows_append (P : PointPred) (total : Nat) : ∀ (a b : List Nat) (k : Nat), a.length ≤ k →
    checkRows P total (a ++ b) k = (checkRows P total a k && checkRows P total b (k - a.length)) := by
  intro a
  induction a with
  | nil => intro b k _; simp [checkRows]
  | cons n a ih =>
    intro b k hk
    cases k with
    | zero => simp at hk
    | succ k =>
      simp only [List.cons_append, checkRows, List.length_cons, Nat.add_sub_add_right]
      rw [ih b k (by simpa using hk), Bool.and_assoc]

/-- the table check in three parts (each part is one kernel evaluation of about a third of the points) -/
theorem checkTable_thirds (P : PointPred) (m1 m2 : Nat) (h12 : m1 ≤ m2) (h2 : m2 ≤ nRows)
    (hlen : rows.length = nRows)
    (hA : checkRows P nRows (rows.take m1) nRows = true)
    (hB : checkRows P nRows ((rows.drop m1).take (m2 - m1)) (nRows - m1) = true)
    (hC : checkRows P nRows (rows.drop m2) (nRows - m2) = true) : checkTable P = true := by
  unfold checkTable
  have e1 : rows = rows.take m1 ++ ((rows.drop m1).take (m2 - m1) ++ rows.drop m2) := by
    have : rows.drop m2 = (rows.drop m1).drop (m2 - m1) := by
      rw [List.drop_drop]; congr 1; omega
    rw [this, List.take_append_drop, List.take_append_drop]
  have l1 : (rows.take m1).length = m1 := by rw [List.length_take]; omega
  have l2 : ((rows.drop m1).take (m2 - m1)).length = m2 - m1 := by
    rw [List.length_take, List.length_drop]; omega
  rw [e1, checkRows_append _ _ _ _ _ (by omega), l1,
    checkRows_append _ _ _ _ _ (by omega), l2, hA, hB]
  have : nRows - m1 - (m2 - m1) = nRows - m2 := by omega
  rw [this, hC]; rfl

/-- the model's prediction for a table point, given the live Host verdict -/
def modelOutcome (p : Point) : Nat :=
  outcomeCode (dispatch { evalex := p.evalex, pinOn := p.pinOn } 0
    (reqOf p.cmd p.sec p.cookie p.frame (hostVerdict p == 1))).1

/-! ### host_is_trusted -/

/-- `ref` (a trusted-list entry) accepts the encoded host name `hn` -/
def RefMatches (idna : Idna) (hn : List Char) (ref : List Char) : Prop :=
  ∃ rn, idna (stripPort (refParts ref).2) = .ok rn ∧
    (rn = hn ∨ ((refParts ref).1 = true ∧ ('.' :: rn) <:+ hn))

theorem endsWith_iff (s suffix : List Char) : endsWith s suffix = true ↔ suffix <:+ s := by
  simp [endsWith]

theorem matchRefs_sound (idna : Idna) (hn : List Char) : ∀ (trusted : List (List Char)),
    matchRefs idna hn trusted = true → ∃ ref ∈ trusted, RefMatches idna hn ref := by
  intro trusted
  induction trusted with
  | nil => simp [matchRefs]
  | cons ref rest ih =>
    intro h
    unfold matchRefs at h
    cases hr : idna (stripPort (refParts ref).2) with
    | error e => simp [hr] at h
    | ok rn =>
      simp only [hr] at h
      by_cases hm : (rn == hn || ((refParts ref).1 && endsWith hn ('.' :: rn))) = true
      · refine ⟨ref, List.mem_cons_self, rn, hr, ?_⟩
        simp only [Bool.or_eq_true, beq_iff_eq, Bool.and_eq_true, endsWith_iff] at hm
        exact hm
      · simp only [hm, Bool.false_eq_true, if_false] at h
        obtain ⟨r, hr1, hr2⟩ := ih h
        exact ⟨r, List.mem_cons_of_mem _ hr1, hr2⟩

theorem matchRefs_complete (idna : Idna) (hn : List Char) : ∀ (trusted : List (List Char)),
    (∀ ref ∈ trusted, ∃ rn, idna (stripPort (refParts ref).2) = .ok rn) →
    (∃ ref ∈ trusted, RefMatches idna hn ref) → matchRefs idna hn trusted = true := by
  intro trusted
  induction trusted with
  | nil => intro _ h; obtain ⟨r, hr, _⟩ := h; simp at hr
  | cons ref rest ih =>
    intro henc h
    unfold matchRefs
    obtain ⟨rn, hrn⟩ := henc ref List.mem_cons_self
    simp only [hrn]
    by_cases hm : (rn == hn || ((refParts ref).1 && endsWith hn ('.' :: rn))) = true
    · simp [hm]
    · simp only [hm, Bool.false_eq_true, if_false]
      apply ih (fun r hr => henc r (List.mem_cons_of_mem _ hr))
      obtain ⟨r, hr1, hr2⟩ := h
      rcases List.mem_cons.mp hr1 with rfl | hr1
      · exfalso
        obtain ⟨rn', h1, h2⟩ := hr2
        rw [hrn] at h1
        cases h1
        apply hm
        simp only [Bool.or_eq_true, beq_iff_eq, Bool.and_eq_true, endsWith_iff]
        exact h2
      · exact ⟨r, hr1, hr2⟩

/-! ### _strip_port -/

theorem takeWhile_ne_append (c : Char) : ∀ (body rest : List Char), c ∉ body →
    (body ++ c :: rest).takeWhile (· != c) = body ∧ (body ++ c :: rest).dropWhile (· != c) = c :: rest := by
  intro body
  induction body with
  | nil => intro rest _; simp
  | cons x body ih =>
    intro rest h
    have hx : (x != c) = true := by
      simp only [List.mem_cons, not_or] at h
      simpa using fun e => h.1 e.symm
    have := ih rest (fun hm => h (List.mem_cons_of_mem _ hm))
    simp [hx, this.1, this.2]

theorem takeWhile_ne_all (c : Char) : ∀ (body : List Char), c ∉ body →
    body.dropWhile (· != c) = [] := by
  intro body
  induction body with
  | nil => intro _; rfl
  | cons x body ih =>
    intro h
    have hx : (x != c) = true := by
      simp only [List.mem_cons, not_or] at h
      simpa using fun e => h.1 e.symm
    simp [hx, ih (fun hm => h (List.mem_cons_of_mem _ hm))]

theorem ite_ok {c : Prop} [Decidable c] {α : Type} {s x : α} {e : String}
    (h : (if c then (Except.ok s : Except String α) else .error e) = .ok x) : x = s := by
  split at h
  · cases h; rfl
  · cases h

theorem asciiIdna_ok {s x : List Char} (h : asciiIdna s = .ok x) : x = s := by
  unfold asciiIdna at h
  by_cases h1 : (s.all fun c => decide (c.toNat < 128)) = true
  · simp only [h1, if_true] at h
    exact ite_ok h
  · simp only [h1, Bool.false_eq_true, if_false] at h
    cases h

/-! ### the PIN failure counter -/

theorem failPinAuth_toNat (c : UInt8) : (failPinAuth c).toNat = min (c.toNat + 1) 255 := by
  unfold failPinAuth
  have hlt := c.toNat_lt
  by_cases h : c < 255
  · have h' : c.toNat < 255 := by simpa [UInt8.lt_iff_toNat_lt] using h
    simp only [h, if_true, UInt8.toNat_add]
    simp; omega
  · have h' : ¬ c.toNat < 255 := by simpa [UInt8.lt_iff_toNat_lt] using h
    simp only [h, if_false]; omega

theorem gt_ten_iff (c : UInt8) : (c > 10) ↔ 10 < c.toNat := by
  simp [GT.gt, UInt8.lt_iff_toNat_lt]

/-- the byte counter tracks an unbounded counter up to saturation -/
def Tracks (c : UInt8) (n : Nat) : Prop := c.toNat = min n 255

theorem Tracks.gt_ten {c : UInt8} {n : Nat} (h : Tracks c n) : (c > 10) ↔ n > 10 := by
  rw [gt_ten_iff]; unfold Tracks at h; omega

theorem Tracks.fail {c : UInt8} {n : Nat} (h : Tracks c n) : Tracks (failPinAuth c) (n + 1) := by
  unfold Tracks at *; rw [failPinAuth_toNat]; omega

theorem Tracks.zero : Tracks 0 0 := by simp [Tracks]

theorem attemptStep_tracks {c : UInt8} {n : Nat} (h : Tracks c n) (a : Attempt) :
    (attemptStep failPinAuth c a).1 = (idealStep n a).1 ∧
    Tracks (attemptStep failPinAuth c a).2 (idealStep n a).2 := by
  have hg := h.gt_ten
  cases a with
  | right =>
    simp only [attemptStep, pinAuthWith, idealStep]
    by_cases hc : c > 10
    · simp [hc, hg.mp hc, h]
    · have hn : ¬ n > 10 := fun x => hc (hg.mpr x)
      simp [hc, hn, Tracks.zero]
  | wrong =>
    simp only [attemptStep, pinAuthWith, idealStep]
    by_cases hc : c > 10
    · simp [hc, hg.mp hc, h]
    · have hn : ¬ n > 10 := fun x => hc (hg.mpr x)
      simp [hc, hn, h.fail]
  | stale =>
    simp [attemptStep, pinAuthWith, idealStep, h.fail]

theorem runHistory_tracks : ∀ (hist : List Attempt) (c : UInt8) (n : Nat), Tracks c n →
    (runHistory failPinAuth c hist).1 = (runIdeal n hist).1 ∧
    Tracks (runHistory failPinAuth c hist).2 (runIdeal n hist).2 := by
  intro hist
  induction hist with
  | nil => intro c n h; exact ⟨rfl, h⟩
  | cons a rest ih =>
    intro c n h
    have hs := attemptStep_tracks h a
    have := ih _ _ hs.2
    simp only [runHistory, runIdeal]
    exact ⟨by rw [hs.1, this.1], this.2⟩

/-- once locked, the ideal machine refuses everything and stays locked -/
theorem runIdeal_locked : ∀ (hist : List Attempt) (n : Nat), n > 10 →
    (∀ r ∈ (runIdeal n hist).1, r.auth = false) ∧ (runIdeal n hist).2 > 10 := by
  intro hist
  induction hist with
  | nil => intro n h; exact ⟨by simp [runIdeal], h⟩
  | cons a rest ih =>
    intro n h
    have hstep : (idealStep n a).1.auth = false ∧ (idealStep n a).2 > 10 := by
      cases a <;> simp [idealStep, h] <;> omega
    have := ih _ hstep.2
    simp only [runIdeal]
    refine ⟨?_, this.2⟩
    intro r hr
    simp only [List.mem_cons] at hr
    rcases hr with rfl | hr
    · exact hstep.1
    · exact this.1 r hr

/-! ### sessions with PIN changes -/

/-- the client's cookie was issued for the current or a former PIN -/
def HeldLe (s : Session) : Prop := ∀ g, s.held = some g → g ≤ s.gen

/-- the client's cookie (if any) was issued for a former PIN -/
def HeldStale (s : Session) : Prop := ∀ g, s.held = some g → g < s.gen

theorem actStep_heldLe (s : Session) (a : Act) (h : HeldLe s) : HeldLe (actStep s a).2 := by
  cases a <;> simp only [actStep, HeldLe] at h ⊢
  · intro g hg
    split at hg
    · simp only [Option.some.injEq] at hg; omega
    · exact h g hg
  · exact h
  · exact h
  · intro g hg; have := h g hg; omega
  · intro g hg
    split at hg
    · simp only [Option.some.injEq] at hg; omega
    · exact h g hg
  · exact h

theorem runSession_heldLe : ∀ (acts : List Act) (s : Session), HeldLe s → HeldLe (runSession s acts).2 := by
  intro acts
  induction acts with
  | nil => intro s h; exact h
  | cons a rest ih =>
    intro s h
    simp only [runSession]
    exact ih _ (actStep_heldLe s a h)

theorem heldTrust_stale {s : Session} (h : HeldStale s) : heldTrust s = .no ∨ heldTrust s = .bad := by
  unfold heldTrust
  cases hh : s.held with
  | none => exact Or.inl rfl
  | some g =>
    have := h g hh
    have hne : (g == s.gen) = false := by simp; omega
    simp [hne]

theorem pinAuth_no_wrong (f : UInt8) : (pinAuth f .no false).1.auth = false := by
  unfold pinAuth pinAuthWith
  simp only
  split <;> rfl

theorem pinAuth_bad (f : UInt8) (b : Bool) : (pinAuth f .bad b).1.auth = false := rfl

/-- with a stale (or no) cookie and without entering the current PIN, a step neither evaluates nor
authenticates, and the cookie stays stale -/
theorem actStep_stale (s : Session) (a : Act) (ha : a ≠ .right) (h : HeldStale s) :
    HeldStale (actStep s a).2 ∧ (actStep s a).1 ≠ .evalRan true ∧
      ∀ r, (actStep s a).1 = .pin r → r.auth = false := by
  cases a with
  | right => exact absurd rfl ha
  | wrong =>
    refine ⟨h, by simp [actStep], ?_⟩
    intro r hr
    simp only [actStep, Obs.pin.injEq] at hr
    rw [← hr]; exact pinAuth_no_wrong _
  | stale =>
    refine ⟨h, by simp [actStep], ?_⟩
    intro r hr
    simp only [actStep, Obs.pin.injEq] at hr
    rw [← hr]; exact pinAuth_bad _ _
  | change =>
    refine ⟨?_, by simp [actStep], by simp [actStep]⟩
    intro g hg
    have := h g hg
    simp only [actStep]; omega
  | reuse =>
    have hauth : (pinAuth s.failed (heldTrust s) false).1.auth = false := by
      rcases heldTrust_stale h with e | e <;> rw [e]
      · exact pinAuth_no_wrong _
      · exact pinAuth_bad _ _
    refine ⟨?_, by simp [actStep], ?_⟩
    · intro g hg
      simp only [actStep, hauth, Bool.false_eq_true, if_false] at hg
      exact h g hg
    · intro r hr
      simp only [actStep, Obs.pin.injEq] at hr
      rw [← hr]; exact hauth
  | eval =>
    refine ⟨h, ?_, by simp [actStep]⟩
    rcases heldTrust_stale h with e | e <;> simp [actStep, e, Trust.isYes]

theorem runSession_stale : ∀ (acts : List Act) (s : Session), (∀ a ∈ acts, a ≠ .right) → HeldStale s →
    ∀ o ∈ (runSession s acts).1, o ≠ .evalRan true ∧ ∀ r, o = .pin r → r.auth = false := by
  intro acts
  induction acts with
  | nil => intro s _ _ o ho; simp [runSession] at ho
  | cons a rest ih =>
    intro s hno h o ho
    have hstep := actStep_stale s a (hno a List.mem_cons_self) h
    simp only [runSession, List.mem_cons] at ho
    rcases ho with rfl | ho
    · exact ⟨hstep.2.1, hstep.2.2⟩
    · exact ih _ (fun x hx => hno x (List.mem_cons_of_mem _ hx)) hstep.1 o ho

def Attempt.toAct : Attempt → Act
  | .right => .right
  | .wrong => .wrong
  | .stale => .stale

theorem runSession_cons (s : Session) (a : Act) (rest : List Act) :
    (runSession s (a :: rest)).1 = (actStep s a).1 :: (runSession (actStep s a).2 rest).1 ∧
    (runSession s (a :: rest)).2 = (runSession (actStep s a).2 rest).2 := ⟨rfl, rfl⟩

theorem runHistory_cons (fail : UInt8 → UInt8) (f : UInt8) (a : Attempt) (rest : List Attempt) :
    (runHistory fail f (a :: rest)).1 = (attemptStep fail f a).1 :: (runHistory fail (attemptStep fail f a).2 rest).1 ∧
    (runHistory fail f (a :: rest)).2 = (runHistory fail (attemptStep fail f a).2 rest).2 := ⟨rfl, rfl⟩

/-- on cookie-less attempts the session machine is the attempt-history machine -/
theorem runSession_history : ∀ (hist : List Attempt) (s : Session),
    (runSession s (hist.map Attempt.toAct)).1 = (runHistory failPinAuth s.failed hist).1.map Obs.pin ∧
    (runSession s (hist.map Attempt.toAct)).2.failed = (runHistory failPinAuth s.failed hist).2 := by
  intro hist
  induction hist with
  | nil => intro s; exact ⟨rfl, rfl⟩
  | cons a rest ih =>
    intro s
    have key : (actStep s a.toAct).1 = .pin (attemptStep failPinAuth s.failed a).1 ∧
        (actStep s a.toAct).2.failed = (attemptStep failPinAuth s.failed a).2 := by
      cases a <;> exact ⟨rfl, rfl⟩
    have := ih (actStep s a.toAct).2
    rw [key.2] at this
    simp only [List.map_cons]
    rw [(runSession_cons _ _ _).1, (runSession_cons _ _ _).2, (runHistory_cons _ _ _ _).1,
      (runHistory_cons _ _ _ _).2, this.1, this.2, key.1]
    exact ⟨rfl, rfl⟩

end Wz.Dbg
