/-
Helper definitions and lemmas for C20 (Model/Debugger.lean, Gen/Debugger.lean).
-/
import WzVerif.Model.Debugger
import WzVerif.Gen.Debugger
namespace Wz.Dbg
open Wz Wz.Gen.Debugger

/-! ### reading the generated table -/

/-- one point of the property's product, decoded from its position in `outcomes` -/
structure Point where
  cmd : Nat
  sec : Nat
  host : Nat
  cookie : Nat
  frame : Nat
  evalex : Bool
  pinOn : Bool

def dim (k : Nat) : Nat := dims.getD k 1

/-- mixed-radix decoding in the order of `Gen.Debugger.dims` (last dimension fastest) -/
def pointOf (i : Nat) : Point :=
  let pin := i % dim 6
  let i := i / dim 6
  let ev := i % dim 5
  let i := i / dim 5
  let fr := i % dim 4
  let i := i / dim 4
  let ck := i % dim 3
  let i := i / dim 3
  let ho := i % dim 2
  let i := i / dim 2
  let se := i % dim 1
  let i := i / dim 1
  { cmd := i, sec := se, host := ho, cookie := ck, frame := fr, evalex := ev == 0, pinOn := pin == 0 }

def hostRow (p : Point) : Option (List Char) × Nat × Nat := hosts.getD p.host (none, 1, 0)
/-- class of the point's Host by the property text: 0 trusted, 1 must never be accepted, 2 case variant -/
def hostClass (p : Point) : Nat := (hostRow p).2.1
/-- the live `host_is_trusted` verdict for the point's Host: 1 True, 0 False, 2 raised -/
def hostVerdict (p : Point) : Nat := (hostRow p).2.2

def checkAll (f : Nat → Nat → Bool) : Nat → List Nat → Bool
  | _, [] => true
  | i, o :: rest => f i o && checkAll f (i + 1) rest

theorem checkAll_get (f : Nat → Nat → Bool) : ∀ (l : List Nat) (k : Nat), checkAll f k l = true →
    ∀ i (h : i < l.length), f (k + i) l[i] = true := by
  intro l
  induction l with
  | nil => intro k _ i h; simp at h
  | cons o rest ih =>
    intro k hc i h
    simp only [checkAll, Bool.and_eq_true] at hc
    cases i with
    | zero => simpa using hc.1
    | succ j =>
      have := ih (k + 1) hc.2 j (by simpa using h)
      simpa [Nat.add_assoc, Nat.add_comm 1 j] using this

theorem checkAll_outcomes {f : Nat → Nat → Bool} (hc : checkAll f 0 outcomes = true)
    (i : Nat) (h : i < outcomes.length) : f i outcomes[i] = true := by
  have := checkAll_get f outcomes 0 hc i h
  simpa using this

/-- the model's prediction for a table point, given the live Host verdict -/
def modelOutcome (p : Point) : Nat :=
  outcomeCode (dispatch { evalex := p.evalex, pinOn := p.pinOn } 0
    (reqOf p.cmd p.sec p.cookie p.frame (hostVerdict p == 1))).1

/-! ### host_is_trusted -/

/-- `ref` (a trusted-list entry) admits the encoded host name `hn` -/
def RefMatches (idna : Idna) (hn : List Char) (ref : List Char) : Prop :=
  ∃ rn, idna (beforeColon (refParts ref).2) = .ok rn ∧
    (rn = hn ∨ ((refParts ref).1 = true ∧ ('.' :: rn) <:+ hn))

theorem endsWith_iff (s suffix : List Char) : endsWith s suffix = true ↔ suffix <:+ s := by
  simp [endsWith]

theorem matchRefs_sound (idna : Idna) (hn : List Char) : ∀ (trusted : List (List Char)),
    matchRefs idna hn trusted = true → ∃ ref ∈ trusted, RefMatches idna hn ref := by
  intro trusted
  induction trusted with
  | nil => simp [matchRefs]
  | cons ref rest ih =>
    intro h
    unfold matchRefs at h
    cases hr : idna (beforeColon (refParts ref).2) with
    | error e => simp [hr] at h
    | ok rn =>
      simp only [hr] at h
      by_cases hm : (rn == hn || ((refParts ref).1 && endsWith hn ('.' :: rn))) = true
      · refine ⟨ref, List.mem_cons_self, rn, hr, ?_⟩
        simp only [Bool.or_eq_true, beq_iff_eq, Bool.and_eq_true, endsWith_iff] at hm
        exact hm
      · simp only [hm, Bool.false_eq_true, if_false] at h
        obtain ⟨r, hr1, hr2⟩ := ih h
        exact ⟨r, List.mem_cons_of_mem _ hr1, hr2⟩

theorem matchRefs_complete (idna : Idna) (hn : List Char) : ∀ (trusted : List (List Char)),
    (∀ ref ∈ trusted, ∃ rn, idna (beforeColon (refParts ref).2) = .ok rn) →
    (∃ ref ∈ trusted, RefMatches idna hn ref) → matchRefs idna hn trusted = true := by
  intro trusted
  induction trusted with
  | nil => intro _ h; obtain ⟨r, hr, _⟩ := h; simp at hr
  | cons ref rest ih =>
    intro henc h
    unfold matchRefs
    obtain ⟨rn, hrn⟩ := henc ref List.mem_cons_self
    simp only [hrn]
    by_cases hm : (rn == hn || ((refParts ref).1 && endsWith hn ('.' :: rn))) = true
    · simp [hm]
    · simp only [hm, Bool.false_eq_true, if_false]
      apply ih (fun r hr => henc r (List.mem_cons_of_mem _ hr))
      obtain ⟨r, hr1, hr2⟩ := h
      rcases List.mem_cons.mp hr1 with rfl | hr1
      · exfalso
        obtain ⟨rn', h1, h2⟩ := hr2
        rw [hrn] at h1
        cases h1
        apply hm
        simp only [Bool.or_eq_true, beq_iff_eq, Bool.and_eq_true, endsWith_iff]
        exact h2
      · exact ⟨r, hr1, hr2⟩

/-! ### the PIN failure counter -/

theorem failPinAuth_toNat (c : UInt8) : (failPinAuth c).toNat = min (c.toNat + 1) 255 := by
  unfold failPinAuth
  have hlt := c.toNat_lt
  by_cases h : c < 255
  · have h' : c.toNat < 255 := by simpa [UInt8.lt_iff_toNat_lt] using h
    simp only [h, if_true, UInt8.toNat_add]
    simp; omega
  · have h' : ¬ c.toNat < 255 := by simpa [UInt8.lt_iff_toNat_lt] using h
    simp only [h, if_false]; omega

theorem gt_ten_iff (c : UInt8) : (c > 10) ↔ 10 < c.toNat := by
  simp [GT.gt, UInt8.lt_iff_toNat_lt]

/-- the byte counter tracks an unbounded counter up to saturation -/
def Tracks (c : UInt8) (n : Nat) : Prop := c.toNat = min n 255

theorem Tracks.gt_ten {c : UInt8} {n : Nat} (h : Tracks c n) : (c > 10) ↔ n > 10 := by
  rw [gt_ten_iff]; unfold Tracks at h; omega

theorem Tracks.fail {c : UInt8} {n : Nat} (h : Tracks c n) : Tracks (failPinAuth c) (n + 1) := by
  unfold Tracks at *; rw [failPinAuth_toNat]; omega

theorem Tracks.zero : Tracks 0 0 := by simp [Tracks]

theorem attemptStep_tracks {c : UInt8} {n : Nat} (h : Tracks c n) (a : Attempt) :
    (attemptStep failPinAuth c a).1 = (idealStep n a).1 ∧
    Tracks (attemptStep failPinAuth c a).2 (idealStep n a).2 := by
  have hg := h.gt_ten
  cases a with
  | right =>
    simp only [attemptStep, pinAuthWith, idealStep]
    by_cases hc : c > 10
    · simp [hc, hg.mp hc, h]
    · have hn : ¬ n > 10 := fun x => hc (hg.mpr x)
      simp [hc, hn, Tracks.zero]
  | wrong =>
    simp only [attemptStep, pinAuthWith, idealStep]
    by_cases hc : c > 10
    · simp [hc, hg.mp hc, h]
    · have hn : ¬ n > 10 := fun x => hc (hg.mpr x)
      simp [hc, hn, h.fail]
  | stale =>
    simp [attemptStep, pinAuthWith, idealStep, h.fail]

theorem runHistory_tracks : ∀ (hist : List Attempt) (c : UInt8) (n : Nat), Tracks c n →
    (runHistory failPinAuth c hist).1 = (runIdeal n hist).1 ∧
    Tracks (runHistory failPinAuth c hist).2 (runIdeal n hist).2 := by
  intro hist
  induction hist with
  | nil => intro c n h; exact ⟨rfl, h⟩
  | cons a rest ih =>
    intro c n h
    have hs := attemptStep_tracks h a
    have := ih _ _ hs.2
    simp only [runHistory, runIdeal]
    exact ⟨by rw [hs.1, this.1], this.2⟩

/-- once locked, the ideal machine refuses everything and stays locked -/
theorem runIdeal_locked : ∀ (hist : List Attempt) (n : Nat), n > 10 →
    (∀ r ∈ (runIdeal n hist).1, r.auth = false) ∧ (runIdeal n hist).2 > 10 := by
  intro hist
  induction hist with
  | nil => intro n h; exact ⟨by simp [runIdeal], h⟩
  | cons a rest ih =>
    intro n h
    have hstep : (idealStep n a).1.auth = false ∧ (idealStep n a).2 > 10 := by
      cases a <;> simp [idealStep, h] <;> omega
    have := ih _ hstep.2
    simp only [runIdeal]
    refine ⟨?_, this.2⟩
    intro r hr
    simp only [List.mem_cons] at hr
    rcases hr with rfl | hr
    · exact hstep.1
    · exact this.1 r hr

end Wz.Dbg
