/-
Helper lemmas for Props/C14T (translated `werkzeug.security.safe_join` against the hand-written
model of `Model/Paths.lean`): facts about the model and the prelude that do not mention the
generated definitions.
-/
import WzVerif.Model.Paths
import WzVerif.Lemmas.PyFns_Prelude
namespace Wz.PyFnsPaths
open Wz Wz.Pre

/-- `if filename != "": filename = normpath(filename)` as written in the code and in the model -/
theorem norm1_eq (f : Str) :
    (if !(f == []) then Paths.normpath f else f) = (if f = [] then f else Paths.normpath f) := by
  by_cases h : f = [] <;> simp [h]

/-- the refusal test of one (normalised) component -/
theorem refuse_eq (alts : List Char) (g : Str) :
    (((alts.map fun c => [c]).any fun sep => contains g sep) || Paths.isabs g ||
          startswith g ['/'] || g == ['.', '.'] || startswith g ['.', '.', '/']) =
      (alts.any (Paths.hasChar · g) || Paths.isabs g || g.head? = some Paths.sep || g = Paths.dotdot
        || (['.', '.', '/'] : Str).isPrefixOf g) := by
  simp only [startswith_slash]
  simp only [List.any_map, Function.comp_def, contains_singleton, Paths.hasChar, Paths.sep, Paths.dotdot, startswith]
  by_cases h : g = ['.', '.']
  · simp [h]
  · have hb : (g == ['.', '.']) = false := by simpa using h
    simp only [hb, h, decide_false, Bool.or_false]
    rfl

end Wz.PyFnsPaths
