/-
Helper lemmas for Props/C14T (translated `werkzeug.security.safe_join` against the hand-written
model of `Model/Paths.lean`): facts about the model and the prelude that do not mention the
generated definitions.
-/
import WzVerif.Model.Paths
import WzVerif.Lemmas.PyFns_Prelude
namespace Wz.PyFnsPaths
open Wz Wz.Pre

/-- `if filename != "": filename = normpath(filename)` as written in the code and in the model -/
theorem norm1_eq (f : Str) :
    (if !(f == []) then Paths.normpath f else f) = (if f = [] then f else Paths.normpath f) := by
  by_cases h : f = [] <;> simp [h]

/-! the atoms of the refusal test, each rewritten to the form the model uses; the proofs in
Props/C14T then compare the two tests up to the order of the `or` operands -/

theorem beq_dotdot (g : Str) : (g == ['.', '.']) = decide (g = Paths.dotdot) := by
  by_cases h : g = ['.', '.']
  · simp [h, Paths.dotdot]
  · have hb : (g == ['.', '.']) = false := by simpa using h
    simp [hb, h, Paths.dotdot]

theorem startswith_sep (f : Str) : startswith f ['/'] = decide (f.head? = some Paths.sep) :=
  startswith_slash f

theorem startswith_dds (f : Str) :
    startswith f ['.', '.', '/'] = (['.', '.', '/'] : Str).isPrefixOf f := rfl

/-! ### `secure_filename`: the prelude's primitives against the model's own copies -/

/-- the model's `str.isspace` (a regenerated table) is the prelude's (a closed formula) -/
theorem isSpace_eq (c : Char) : Paths.isSpace c = Py.isSpace c := by
  unfold Paths.isSpace Py.isSpace
  generalize c.toNat = n
  rw [Bool.eq_iff_iff]
  simp [Gen.Paths.pySpaces]
  omega

theorem splitWsAux_eq (s cur : Str) : Pre.splitWsAux s cur = Paths.wordsAux s cur := by
  induction s generalizing cur with
  | nil => simp [Pre.splitWsAux, Paths.wordsAux]
  | cons c t ih =>
    simp only [Pre.splitWsAux, Paths.wordsAux, isSpace_eq, ih, List.isEmpty_iff]

theorem splitWs_eq (s : Str) : Pre.splitWs s = Paths.pyWords s := splitWsAux_eq s []

theorem join_eq (j : Str) (ws : List Str) : Pre.join j ws = Paths.joinWith j ws := by
  induction ws with
  | nil => rfl
  | cons w t ih =>
    cases t with
    | nil => rfl
    | cons w2 t2 => simp only [Pre.join, Paths.joinWith, ih]

theorem stripChars_eq (s chars : Str) : Pre.stripChars s chars = Paths.stripOf chars s := rfl

end Wz.PyFnsPaths
