/-
Helper lemmas for Props/C06T (translated `quote_header_value` / `unquote_header_value` against the
hand-written model of `Model/Http.lean`): the prelude's `str.replace` against the model's
one- and two-character replacement functions. Nothing here mentions the generated definitions.
-/
import WzVerif.Model.Http
import WzVerif.Lemmas.PyFns_Prelude
namespace Wz.PyFnsHttp
open Wz Wz.Pre

/-- `s.replace(c, r)` for a one-character `c`: the model's `replace1` -/
theorem replace1_eq (c : Char) (r s : Str) : Pre.replace s [c] r = Http.replace1 c r s := by
  rw [replace_single]; rfl

/-- `s.replace(a + b, r)` for a two-character pattern: the model's `replace2` (leftmost, non-overlapping) -/
theorem replaceAux_pair (a b : Char) (r : Str) (s : Str) :
    Pre.replaceAux [a, b] r s 0 = Http.replace2 a b r s := by
  fun_induction Http.replace2 a b r s with
  | case1 x y t h ih =>
    simp only [Bool.and_eq_true, beq_iff_eq] at h
    obtain ⟨rfl, rfl⟩ := h
    simp [Pre.replaceAux, List.isPrefixOf, ih]
  | case2 x y t h ih =>
    have hp : ([a, b] : List Char).isPrefixOf (x :: y :: t) = false := by
      simp only [Bool.and_eq_true, beq_iff_eq, not_and] at h
      simp only [List.isPrefixOf, Bool.and_true, Bool.and_eq_false_imp, beq_iff_eq, beq_eq_false_iff_ne]
      intro h1; subst h1; intro h2; exact h rfl h2.symm
    rw [Pre.replaceAux, hp]
    simp only [Bool.false_eq_true, if_false, ih]
  | case3 l h =>
    match l with
    | [] => rfl
    | [x] => simp [Pre.replaceAux, List.isPrefixOf]
    | x :: y :: t => exact absurd rfl (h x y t)

theorem replace2_eq (a b : Char) (r s : Str) : Pre.replace s [a, b] r = Http.replace2 a b r s := by
  simp [Pre.replace, replaceAux_pair]

/-- `str(i)`: the prelude's (Lean's decimal printer) is the model's `intText` -/
theorem strOfInt_eq (i : Int) : Pre.strOfInt i = Http.intText i := by
  unfold Pre.strOfInt Http.intText Http.natText
  cases i with
  | ofNat n =>
    show (toString n).toList = _
    exact Nat.toList_repr
  | negSucc n =>
    show ("-" ++ toString (n+1)).toList = _
    simp

/-- `sep.join(words)`: the prelude's is the model's (`List.intercalate`) -/
theorem join_intercalate (sep : String) (ws : List Str) :
    Pre.join sep.toList ws = Http.join sep ws := by
  unfold Http.join
  induction ws with
  | nil => rfl
  | cons w t ih =>
    cases t with
    | nil => simp [Pre.join, List.intercalate]
    | cons w2 t2 =>
      simp only [Pre.join] at ih ⊢
      rw [ih]
      simp [List.intercalate, List.intersperse]

/-- what `Range.to_header` prints for one `(begin, end)` pair -/
def item (p : Int × Option Int) : Str :=
  match p.2 with
  | none => if p.1 ≥ 0 then Http.intText p.1 ++ ['-'] else Http.intText p.1
  | some e => Http.intText p.1 ++ '-' :: Http.intText (e - 1)

end Wz.PyFnsHttp
